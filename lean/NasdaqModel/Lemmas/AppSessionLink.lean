import NasdaqModel.Lemmas.AppSessionLemmasY
import NasdaqModel.Lemmas.AppSessionLinkInner
/-
The link invariant of the application-close repair (C05-app-close-from-message-callback): the reserved inner user task `U d2u`
exists only as the stand-in of the second dispatcher `D2` carrying out `soup_session.close()`.

`Link s`: in every reachable product state one of
  0. the inner task `U d2u` has never been created;
  1. `D2` is `inSoup`, the close event exists and `U d2u` is the closer of the soup session;
  2. the close of the soup session has ended (`finished` / `aborted`).
It is inductive because (0) the inner machine never creates a user task on its own (`Sess.step_absent`) and the product refuses
the user's inner events that name `U d2u` (`reservedEv`), so the only way out of (0) is `closeOnD2`, which sets `inSoup` and the
event in the same step; (1) the closer stays the closer until the close ends (`Sess.step_closerOrFinal`), `D2` leaves `inSoup`
only through `d2Return`, which `finishClose` runs in the step in which the closer leaves the callback stage, i.e. ends the
close; (2) an ended close stays ended.
-/
namespace NasdaqModel.App
open NasdaqModel

/-! ### inner facts from reachability -/

theorem IReachable.induct {a : ACfg} (P : Sess.St → Prop) (h0 : P {})
    (hs : ∀ i e, IReachable a i → P i → P (Sess.step (innerCfg a) i e)) : ∀ i, IReachable a i → P i := by
  rintro i ⟨es, rfl⟩
  have key : ∀ (es : List Sess.Ev) (s : Sess.St), IReachable a s → P s →
      P (Sess.runEvs (innerCfg a) s es) := by
    intro es
    induction es with
    | nil => intro s _ p; exact p
    | cons e es ih => intro s r p; exact ih _ (r.step e) (hs s e r p)
  exact key es {} ⟨[], rfl⟩ h0

/-- the inner close callback configured by the application session suspends exactly once: the callback stage is `cb t 0 c` -/
theorem IReachable.cb_zero {a : ACfg} {i : Sess.St} (h : IReachable a i) :
    ∀ t k c, i.cstage = .cb t k c → k = 0 := by
  refine IReachable.induct (a := a) (fun i => ∀ t k c, i.cstage = .cb t k c → k = 0) ?_ ?_ i h
  · intro t k c h; cases h
  · intro i e hr ih
    obtain ⟨ia, _, _⟩ := hr.invs
    cases hst : i.cstage with
    | cb t k c =>
      have hk : k = 0 := ih t k c hst
      subst hk
      have hcl : i.closed = true := ia.closed_iff.mpr (by rw [hst]; simp)
      by_cases he : e = .run t
      · subst he
        obtain ⟨_, _, _, hs⟩ := cb_facts hr hst
        obtain ⟨f1, f2⟩ := closer_step_final hr hst
        intro t' k' c' h'
        rcases hs with hs | hs
        · rw [f1 hs] at h'; cases h'
        · rw [f2 hs] at h'; cases h'
      · intro t' k' c' h'
        rw [Sess.step_cb_frame _ _ t 0 c e hcl hst he] at h'
        cases h'; rfl
    | finished =>
      have hcl : i.closed = true := ia.closed_iff.mpr (by rw [hst]; simp)
      intro t' k' c' h'
      rw [Sess.step_finished_final (innerCfg a) i e hcl hst] at h'; cases h'
    | aborted =>
      have hcl : i.closed = true := ia.closed_iff.mpr (by rw [hst]; simp)
      intro t' k' c' h'
      rw [Sess.step_aborted_final (innerCfg a) i e hcl hst] at h'; cases h'
    | idle =>
      have hpre : Sess.preCb i := Or.inl hst
      intro t' k' c' h'
      rcases Sess.step_postCb (innerCfg a) rfl rfl i e ia hpre with hp | ⟨t, c, hcb⟩
      · rcases hp with h | ⟨t'', pc, c'', h⟩ <;> rw [h] at h' <;> cases h'
      · rw [hcb] at h'; cases h'; rfl
    | body t0 pc0 c0 =>
      have hpre : Sess.preCb i := Or.inr ⟨_, _, _, hst⟩
      intro t' k' c' h'
      rcases Sess.step_postCb (innerCfg a) rfl rfl i e ia hpre with hp | ⟨t, c, hcb⟩
      · rcases hp with h | ⟨t'', pc, c'', h⟩ <;> rw [h] at h' <;> cases h'
      · rw [hcb] at h'; cases h'; rfl

theorem closerOf_some {i : Sess.St} {t : Sess.Tid} (h : closerOf i = some t) : ∃ k c, i.cstage = .cb t k c := by
  unfold closerOf at h
  split at h
  · rename_i t' k c hs
    cases h
    exact ⟨k, c, hs⟩
  · cases h

theorem isCloser_closed {a : ACfg} {i : Sess.St} (hr : IReachable a i) {t : Sess.Tid} (h : Sess.isCloser i t) :
    i.closed = true := by
  obtain ⟨ia, _, _⟩ := hr.invs
  apply ia.closed_iff.mpr
  rcases h with ⟨pc, c, h⟩ | ⟨k, c, h⟩ <;> rw [h] <;> simp

theorem final_closed {a : ACfg} {i : Sess.St} (hr : IReachable a i) (h : Sess.finalStage i) : i.closed = true := by
  obtain ⟨ia, _, _⟩ := hr.invs
  apply ia.closed_iff.mpr
  rcases h with h | h <;> rw [h] <;> simp

/-! ### the invariant -/

/-- what a piece of the application layer's work leaves alone: the inner state; an existing close event stays; a dispatcher that
    is inside `soup_session.close()` stays there -/
structure Keeps (s s' : St) : Prop where
  inner : s'.inner = s.inner
  evt : s.evt ≠ none → s'.evt ≠ none
  d2 : s.astatus .D2 = .inSoup → s'.astatus .D2 = .inSoup

theorem Keeps.refl (s : St) : Keeps s s := ⟨rfl, fun h => h, fun h => h⟩

theorem Keeps.trans {s1 s2 s3 : St} (h1 : Keeps s1 s2) (h2 : Keeps s2 s3) : Keeps s1 s3 :=
  ⟨by rw [h2.inner, h1.inner], fun h => h2.evt (h1.evt h), fun h => h2.d2 (h1.d2 h)⟩

/-- the link between the reserved inner task `U d2u` and the second dispatcher -/
def Link (s : St) : Prop :=
  Sess.Absent d2u s.inner ∨
  (s.astatus .D2 = .inSoup ∧ s.evt ≠ none ∧ Sess.isCloser s.inner (.U d2u)) ∨
  Sess.finalStage s.inner

structure InvL (a : ACfg) (s : St) : Prop where
  reach : IReachable a s.inner
  link : Link s

/-- inner events that can create the inner user task `U d2u` -/
def NotCreating (e : Sess.Ev) : Prop := e ≠ .callClose d2u ∧ e ≠ .callRecv d2u ∧ e ≠ .callLogin d2u

theorem notCreating_of_not_reserved {e : Sess.Ev} (h : reservedEv e = false) : NotCreating e := by
  unfold NotCreating
  cases e <;> simp_all [reservedEv]

theorem notCreating_run (t : Sess.Tid) : NotCreating (.run t) := by
  unfold NotCreating; simp

theorem InvL.init (a : ACfg) : InvL a {} := ⟨⟨[], rfl⟩, Or.inl rfl⟩

theorem InvL.keeps {a : ACfg} {s s' : St} (i : InvL a s) (k : Keeps s s') : InvL a s' := by
  refine ⟨by rw [k.inner]; exact i.reach, ?_⟩
  rcases i.link with h0 | ⟨h1, h2, h3⟩ | hf
  · exact Or.inl (by rw [k.inner]; exact h0)
  · exact Or.inr (Or.inl ⟨k.d2 h1, k.evt h2, by rw [k.inner]; exact h3⟩)
  · exact Or.inr (Or.inr (by rw [k.inner]; exact hf))

theorem InvL.of_link0 {a : ACfg} {s' : St} (hr : IReachable a s'.inner)
    (h : Sess.Absent d2u s'.inner ∨ Sess.finalStage s'.inner) : InvL a s' :=
  ⟨hr, h.elim Or.inl (fun f => Or.inr (Or.inr f))⟩

/-- while no close event exists the dispatcher is not the closer: `U d2u` does not exist or the close has ended -/
theorem InvL.link0 {a : ACfg} {s : St} (i : InvL a s) (h : ¬ (s.astatus .D2 = .inSoup ∧ s.evt ≠ none ∧ Sess.isCloser s.inner (.U d2u))) :
    Sess.Absent d2u s.inner ∨ Sess.finalStage s.inner := by
  rcases i.link with h0 | h1 | hf
  · exact Or.inl h0
  · exact absurd h1 h
  · exact Or.inr hf

/-- one inner event -/
theorem InvL.innerEv {a : ACfg} {s s' : St} (i : InvL a s) (e : Sess.Ev)
    (hi : s'.inner = Sess.step (innerCfg a) s.inner e) (he : s.evt ≠ none → s'.evt ≠ none)
    (hd : s.astatus .D2 = .inSoup → s'.astatus .D2 = .inSoup)
    (hc : NotCreating e ∨ (e = .callClose d2u ∧ s.astatus .D2 = .inSoup ∧ s.evt ≠ none ∧ s.inner.closed = false)) :
    InvL a s' := by
  refine ⟨by rw [hi]; exact i.reach.step e, ?_⟩
  rcases i.link with h0 | ⟨h1, h2, h3⟩ | hf
  · rcases hc with hn | ⟨rfl, hD, hE, hcl⟩
    · exact Or.inl (by rw [hi]; exact Sess.step_absent _ _ _ _ h0 hn.1 hn.2.1 hn.2.2)
    · have hcf := Sess.step_callClose_closer (innerCfg a) s.inner d2u h0 hcl
      rcases hcf.2 with hcz | hfin
      · exact Or.inr (Or.inl ⟨hd hD, he hE, by rw [hi]; exact hcz⟩)
      · exact Or.inr (Or.inr (by rw [hi]; exact hfin))
  · have hcl := isCloser_closed i.reach h3
    rcases (Sess.step_closerOrFinal (innerCfg a) s.inner (.U d2u) e ⟨hcl, Or.inl h3⟩).2 with hcz | hfin
    · exact Or.inr (Or.inl ⟨hd h1, he h2, by rw [hi]; exact hcz⟩)
    · exact Or.inr (Or.inr (by rw [hi]; exact hfin))
  · have hcl := final_closed i.reach hf
    refine Or.inr (Or.inr ?_)
    rw [hi]
    rcases hf with hf | hf
    · exact Or.inl (Sess.step_finished_final (innerCfg a) s.inner e hcl hf)
    · exact Or.inr (Sess.step_aborted_final (innerCfg a) s.inner e hcl hf)

/-! ### pieces of `_on_soup_close` run by the closer -/

/-- what one run of (a piece of) `_on_soup_close` by the closer `t` does: still inside (`Keeps`), or the closer's inner step out of the
    callback stage has happened -/
def Out (a : ACfg) (s : St) (t : Sess.Tid) (s' : St) : Prop :=
  Keeps s s' ∨ s'.inner = Sess.step (innerCfg a) s.inner (.run t)

theorem Out.pre {a : ACfg} {s s0 s' : St} {t : Sess.Tid} (k : Keeps s s0) (h : Out a s0 t s') : Out a s t s' := by
  rcases h with h | h
  · exact Or.inl (k.trans h)
  · exact Or.inr (by rw [h, k.inner])

/-- the closer's step out of the callback stage ends the close -/
theorem InvL.out {a : ACfg} {s s' : St} {t : Sess.Tid} (i : InvL a s) (hc : closerOf s.inner = some t)
    (h : Out a s t s') : InvL a s' := by
  rcases h with k | hi
  · exact i.keeps k
  · obtain ⟨k, c, hcs⟩ := closerOf_some hc
    have hk : k = 0 := i.reach.cb_zero t k c hcs
    subst hk
    refine InvL.of_link0 (by rw [hi]; exact i.reach.step _) ?_
    rw [hi]
    rcases i.link with h0 | _ | _
    · exact Or.inl (Sess.step_absent _ _ _ _ h0 (by simp) (by simp) (by simp))
    all_goals
      obtain ⟨_, _, _, hs⟩ := cb_facts i.reach hcs
      obtain ⟨f1, f2⟩ := closer_step_final i.reach hcs
      rcases hs with hs | hs
      · exact Or.inr (Or.inl (f1 hs))
      · exact Or.inr (Or.inr (f2 hs))

theorem keeps_setA_of (s : St) (t : ATid) (x : AStatus) (hne : s.astatus t ≠ .inSoup) : Keeps s (s.setA t x) := by
  refine ⟨rfl, fun h => h, fun hD => ?_⟩
  show (if ATid.D2 = t then x else s.astatus .D2) = .inSoup
  rw [if_neg (by rintro rfl; exact hne hD)]; exact hD

theorem keeps_setEvent (s : St) : Keeps s s.setEvent := by
  unfold St.setEvent
  split
  · refine ⟨rfl, fun _ => by simp, fun hD => ?_⟩
    show (if s.astatus .D2 = .waitE then AStatus.ready else s.astatus .D2) = .inSoup
    rw [hD]; simp
  · exact Keeps.refl s

theorem keeps_cancel2 (s : St) (t : ATid) : Keeps s (s.cancel2 t) := by
  unfold St.cancel2
  split
  · rename_i hs; exact keeps_setA_of s t _ (by rw [hs]; simp)
  · rename_i hs; exact keeps_setA_of s t _ (by rw [hs]; simp)
  · rename_i hs; exact keeps_setA_of s t _ (by rw [hs]; simp)
  · split
    · rename_i hs; exact keeps_setA_of s .V2 _ (by rw [hs]; simp)
    · rename_i hs; exact keeps_setA_of s .V2 _ (by rw [hs]; simp)
    · exact Keeps.refl s
  · exact Keeps.refl s

theorem keeps_wake2 (s : St) (t : ATid) : Keeps s (s.wake2 t) := by
  unfold St.wake2
  split
  · rename_i hs; exact keeps_setA_of s t _ (by rw [hs]; simp)
  · exact Keeps.refl s

theorem keeps_put2 (s : St) (v : Nat) : Keeps s (s.put2 v) := by
  unfold St.put2
  have h1 : Keeps s { s with q2 := s.q2 ++ [v], fed := s.fed ++ [v] } := ⟨rfl, fun h => h, fun h => h⟩
  exact (h1.trans (keeps_wake2 _ .D2)).trans (keeps_wake2 _ .V2)

theorem keeps_feed1 (a : ACfg) (s : St) (n : Nat) : Keeps s (feed1 a s n) := by
  unfold feed1
  split
  · exact keeps_put2 s _
  · exact Keeps.refl s

theorem keeps_feed (a : ACfg) (ns : List Nat) (s : St) : Keeps s (feed a s ns) := by
  induction ns generalizing s with
  | nil => exact Keeps.refl s
  | cons n ns ih => exact (keeps_feed1 a s n).trans (ih (feed1 a s n))

theorem innerStep_evt (a : ACfg) (s : St) (e : Sess.Ev) (h : s.evt ≠ none) : (innerStep a s e).evt ≠ none := by
  unfold innerStep
  exact (keeps_feed a _ _).evt h

theorem innerStep_d2 (a : ACfg) (s : St) (e : Sess.Ev) (h : s.astatus .D2 = .inSoup) :
    (innerStep a s e).astatus .D2 = .inSoup := by
  unfold innerStep
  exact (keeps_feed a _ _).d2 h

theorem finishClose_lout (a : ACfg) (s : St) (t : Sess.Tid) : Out a s t (finishClose a s t) :=
  Or.inr (by unfold finishClose; rw [inner_d2Return, innerStep_inner])

theorem endCb_lout (a : ACfg) (s : St) (t : Sess.Tid) : Out a s t (endCb a s t) :=
  Out.pre (s0 := (s.emit2 .cbExit).setEvent)
    (Keeps.trans (s2 := s.emit2 .cbExit) ⟨rfl, fun h => h, fun h => h⟩ (keeps_setEvent _)) (finishClose_lout a _ t)

theorem afterStop_lout (a : ACfg) (s : St) (t : Sess.Tid) : Out a s t (afterStop a s t) := by
  unfold afterStop
  simp only
  split
  · exact Out.pre (Keeps.trans (s2 := { s with appClosed := true }) ⟨rfl, fun h => h, fun h => h⟩ (keeps_setEvent _))
      (finishClose_lout a _ t)
  · split
    · exact Or.inl ⟨rfl, fun h => h, fun h => h⟩
    · exact Out.pre (s0 := (({ s with appClosed := true } : St).emit2 .cbEnter).emit2 (.closeRet .closeCb .ok))
        ⟨rfl, fun h => h, fun h => h⟩ (endCb_lout a _ t)
    · exact Out.pre (s0 := ({ s with appClosed := true } : St).emit2 .cbEnter) ⟨rfl, fun h => h, fun h => h⟩ (endCb_lout a _ t)

theorem stopV2_lout (a : ACfg) (s : St) (t : Sess.Tid) : Out a s t (stopV2 a s t) := by
  unfold stopV2
  split
  · exact Or.inl ((keeps_cancel2 s .V2).trans ⟨rfl, fun h => h, fun h => h⟩)
  · exact afterStop_lout a s t

theorem stopD2_lout (a : ACfg) (s : St) (t : Sess.Tid) : Out a s t (stopD2 a s t) := by
  unfold stopD2
  split
  · exact Or.inl ((keeps_cancel2 s .D2).trans ⟨rfl, fun h => h, fun h => h⟩)
  · exact Out.pre (s0 := { s with disp2Set := false }) ⟨rfl, fun h => h, fun h => h⟩ (stopV2_lout a _ t)

theorem onSoupClose_lout (a : ACfg) (s : St) (t : Sess.Tid) : Out a s t (onSoupClose a s t) := by
  unfold onSoupClose
  split
  · exact finishClose_lout a s t
  · have key : ∀ s1 : St, Keeps s s1 →
        Out a s t (if s1.q2Closed = true then afterStop a s1 t else stopD2 a { s1 with q2Closed := true } t) := by
      intro s1 h1
      split
      · exact Out.pre h1 (afterStop_lout a _ t)
      · exact Out.pre (s0 := { s1 with q2Closed := true }) (h1.trans ⟨rfl, fun h => h, fun h => h⟩) (stopD2_lout a _ t)
    exact key _ (by split <;> exact ⟨rfl, fun h => h, fun h => h⟩)

theorem resumeSoupClose_lout (a : ACfg) (s : St) (t : Sess.Tid) : Out a s t (resumeSoupClose a s t) := by
  unfold resumeSoupClose
  split
  · exact Out.pre (s0 := { s with disp2Set := false }) ⟨rfl, fun h => h, fun h => h⟩ (stopV2_lout a _ t)
  · exact afterStop_lout a s t
  · split
    · exact Or.inr (by rw [innerStep_inner])
    · split
      · exact endCb_lout a s t
      · exact Or.inl ⟨rfl, fun h => h, fun h => h⟩
  · exact Or.inl (Keeps.refl s)

/-! ### inner events in the product machine -/

theorem construct_closed (a : ACfg) (s : St) (h : s.inner.closed = true) : construct a s = s := by
  simp [construct, h]

theorem InvL.construct {a : ACfg} {s : St} (i : InvL a s) : InvL a (construct a s) := by
  by_cases hcl : s.inner.closed = true
  · rw [construct_closed a s hcl]; exact i
  · have h0 := i.link0 (fun h => hcl (isCloser_closed i.reach h.2.2))
    exact InvL.of_link0 (by rw [construct_inner]; exact i.reach) (by rw [construct_inner]; exact h0)

theorem InvL.passInner {a : ACfg} {s : St} (i : InvL a s) (e : Sess.Ev)
    (hc : NotCreating e ∨ (e = .callClose d2u ∧ s.astatus .D2 = .inSoup ∧ s.evt ≠ none ∧ s.inner.closed = false)) :
    InvL a (passInner a s e) := by
  have i1 : InvL a (innerStep a s e) :=
    i.innerEv e (innerStep_inner a s e) (innerStep_evt a s e) (innerStep_d2 a s e) hc
  have i2 := i1.construct
  unfold App.passInner
  simp only
  generalize App.construct a (innerStep a s e) = s2 at i2
  split
  · rename_i t h1 _
    exact i2.out h1 (onSoupClose_lout a s2 t)
  · exact i2

theorem InvL.stepInner {a : ACfg} {s : St} (i : InvL a s) (e : Sess.Ev) (hn : NotCreating e) :
    InvL a (stepInner a s e) := by
  unfold App.stepInner
  split
  · split
    · rename_i h
      split
      · exact i.out h.1 (resumeSoupClose_lout a s _)
      · exact i
    · exact i.passInner _ (Or.inl hn)
  · split
    · exact i.keeps (keeps_cancel2 s .D2)
    · split
      · exact i.keeps (keeps_cancel2 s .V2)
      · exact i.passInner _ (Or.inl hn)
  · exact i.passInner _ (Or.inl hn)

/-! ### application-level steps -/

/-- `close()` awaited from the message callback, past its guard (no close event yet): the only step that creates `U d2u` -/
theorem InvL.closeOnD2 {a : ACfg} {s : St} (i : InvL a s) (he : s.evt = none) (p : AProg) : InvL a (closeOnD2 a s p) := by
  have h0 := i.link0 (fun h => h.2.1 he)
  unfold App.closeOnD2
  simp only
  split
  · exact InvL.of_link0 (by rw [inner_d2Return]; exact i.reach) (by rw [inner_d2Return]; exact h0)
  · rename_i hcl
    have i0 : InvL a ((({ s with evt := some false } : St).setA .D2 .inSoup).setP .D2 p) := InvL.of_link0 i.reach h0
    exact i0.passInner _ (Or.inr ⟨rfl, by simp [St.setA, St.setP], by simp [St.setA, St.setP], by simpa using hcl⟩)

theorem evt_none_of_guard {s : St} (h : ¬ (s.evt.isSome || s.appClosed) = true) : s.evt = none := by
  cases he : s.evt with
  | none => rfl
  | some b => rw [he] at h; simp at h

theorem InvL.dispHandle2 {a : ACfg} {s : St} (i : InvL a s) (v : Nat) : InvL a (dispHandle2 a s v) := by
  unfold App.dispHandle2
  split
  · exact i.keeps ⟨rfl, fun h => h, fun h => h⟩
  · exact i.keeps ⟨rfl, fun h => h, fun h => h⟩
  · exact i.keeps ⟨rfl, fun h => h, fun h => h⟩
  · split
    · exact i.keeps ⟨rfl, fun h => h, fun h => h⟩
    · rename_i hg
      exact i.closeOnD2 (evt_none_of_guard hg) _
  · exact i.keeps ⟨rfl, fun h => h, fun h => h⟩
  · exact i.keeps ⟨rfl, fun h => h, fun h => h⟩

theorem InvL.handlerDone {a : ACfg} {s : St} (i : InvL a s) (t : ATid) (v : Nat) : InvL a (handlerDone a s t v) := by
  unfold App.handlerDone
  split
  · split
    · exact i.keeps ⟨rfl, fun h => h, fun h => h⟩
    · rename_i hg
      exact i.closeOnD2 (evt_none_of_guard hg) _
  · exact i.keeps ⟨rfl, fun h => h, fun h => h⟩

/-- a task that is not `D2`, or any task while `D2` is not `inSoup`, ends / changes its own status -/
macro "kp" i:ident h:ident : tactic =>
  `(tactic| (refine InvL.keeps $i ⟨rfl, fun h => h, fun hD' => ?_⟩
             have hne := $h hD'
             simp [St.finish2, St.setA, St.emit2, St.setP, St.spawn2, hD', hne]))

theorem InvL.stepDisp2 {a : ACfg} {s : St} (i : InvL a s) (hD : s.astatus .D2 ≠ .inSoup) : InvL a (stepDisp2 a s) := by
  unfold App.stepDisp2
  split
  · exact i.keeps ⟨rfl, fun h => h, fun h => absurd h hD⟩
  · split
    · exact i
    · split
      · exact i.keeps ⟨rfl, fun h => h, fun h => absurd h hD⟩
      · rename_i v q _
        exact InvL.dispHandle2 (s := ({ s with q2 := q, gone2 := s.gone2 ++ [(v, true)] } : St).emit2 (.msgEnter v))
          (i.keeps ⟨rfl, fun h => h, fun h => h⟩) v

theorem InvL.stepRun2 {a : ACfg} {s : St} (i : InvL a s) (t : ATid) (hD : s.astatus .D2 = .inSoup → ¬ ATid.D2 = t) :
    InvL a (stepRun2 a s t) := by
  unfold App.stepRun2
  have i0 : InvL a { s with imm2 := false } := i.keeps ⟨rfl, fun h => h, fun h => h⟩
  have hD0 : ({ s with imm2 := false } : St).astatus .D2 = .inSoup → ¬ ATid.D2 = t := hD
  generalize ({ s with imm2 := false } : St) = s0 at i0 hD0
  simp only
  split
  · split
    · kp i0 hD0
    · split
      · kp i0 hD0
      · rename_i hg
        exact i0.closeOnD2 (evt_none_of_guard hg) _
    · split <;> kp i0 hD0
    · kp i0 hD0
    · kp i0 hD0
  · split
    · split
      · rename_i ht
        exact i0.stepDisp2 (fun h => hD0 h ht.symm)
      · exact i0
    · split
      · exact i0.handlerDone _ _
      · kp i0 hD0
    · split <;> kp i0 hD0
    · split
      · kp i0 hD0
      · split
        · exact i0
        · kp i0 hD0
    · split
      · kp i0 hD0
      · split <;> kp i0 hD0
    · kp i0 hD0
    · exact i0
  · exact i0

theorem InvL.startRecv2 {a : ACfg} {s : St} (i : InvL a s) (u : Nat) : InvL a (startRecv2 s u) := by
  have hD : s.astatus .D2 = .inSoup → ¬ ATid.D2 = ATid.W u := fun _ => by simp
  unfold App.startRecv2
  split
  · exact i
  · split
    · kp i hD
    · split
      · kp i hD
      · split
        · kp i hD
        · kp i hD

theorem InvL.startClose {a : ACfg} {s : St} (i : InvL a s) (u : Nat) (p : AProg) : InvL a (startClose a s (.W u) p) := by
  refine i.innerEv .callInitiateClose ?_ ?_ ?_ (Or.inl (by unfold NotCreating; simp))
  · simp [App.startClose, innerStep_inner]
  · intro _
    show (innerStep a { s with evt := some false } .callInitiateClose).evt ≠ none
    exact innerStep_evt a _ _ (by simp)
  · intro hD
    have := innerStep_d2 a { s with evt := some false } .callInitiateClose hD
    simp [App.startClose, St.setA, St.setP, this]

theorem step_InvL {a : ACfg} {s : St} (i : InvL a s) (ev : Ev) : InvL a (step a s ev) := by
  cases ev with
  | inner e =>
    simp only [step]
    split
    · exact i
    · rename_i h
      exact i.stepInner e (notCreating_of_not_reserved (by simpa using h))
  | run t =>
    simp only [step]
    split
    · rename_i hr
      refine i.stepRun2 t ?_
      intro hD e
      subst e
      simp [runnable2, hD] at hr
    · split
      · exact InvL.stepInner (s := { s with imm2 := false }) (i.keeps ⟨rfl, fun h => h, fun h => h⟩) _ (notCreating_run _)
      · exact i
  | appClose u =>
    have hD : s.astatus .D2 = .inSoup → ¬ ATid.D2 = ATid.W u := fun _ => by simp
    simp only [step]
    split
    · exact i
    · split
      · kp i hD
      · exact i.startClose u _
  | appRecv u =>
    simp only [step]
    split
    · exact i
    · exact i.startRecv2 u
  | appCancel u => exact i.keeps (keeps_cancel2 s _)

/-- **The link invariant holds in every reachable state of the product machine.** -/
theorem runEvs_InvL (a : ACfg) (evs : List Ev) : InvL a (runEvs a {} evs) := by
  have : ∀ (s : St), InvL a s → InvL a (runEvs a s evs) := by
    induction evs with
    | nil => intro s i; exact i
    | cons ev evs ih => intro s i; exact ih _ (step_InvL i ev)
  exact this _ (InvL.init a)

end NasdaqModel.App
