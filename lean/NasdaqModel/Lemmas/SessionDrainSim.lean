import NasdaqModel.Lemmas.SessionDrainPipe
import NasdaqModel.Lemmas.SessionLemmas4
/-
The session machine refines the abstract pipeline (`Lemmas/SessionDrainPipe.lean`) — part 1: the events of the canonical
schedule (`run R`, `run D`, `data`) from a state whose reader and dispatcher are in working order (`Live`, structural).
-/
namespace NasdaqModel.Sess

/-- the dispatcher is in working order: runnable in its loop or inside a handler, or asleep in `queue.get()` on an empty queue -/
def DOk (s : St) : Prop :=
  (s.status .D = .ready ∧ (s.prog .D = .dispLoop ∨ ∃ n j, s.prog .D = .handler n j)) ∨
  (s.status .D = .waitQ ∧ s.prog .D = .dispLoop ∧ s.queue = [])

/-- reader polling, queue open, no receive pending, dispatcher in working order -/
structure Live (s : St) : Prop where
  rst : s.status .R = .ready
  rpr : s.prog .R = .readerLoop
  rs : s.rStopped = false
  qc : s.qClosed = false
  busy : s.rcvBusy = false
  vres : s.vres = none
  dok : DOk s

def phaseOfProg : Prog → Option (Nat × Nat)
  | .handler n j => some (n, j)
  | _ => none

/-- the pipeline view of a session state -/
def pipeOf (s : St) : Pipe :=
  { buf := s.buf, queue := s.queue, ph := phaseOfProg (s.prog .D), idle := s.status .D == .waitQ, out := delivered s.trace }

def absEv : Ev → AEv
  | .run .R => .r
  | .run .D => .d
  | .data fs => .data fs
  | _ => .nop

/-- a behaviour of the message callback that closes the session from inside the callback -/
def Beh.closes : Beh → Bool
  | .close => true
  | .reject => true
  | _ => false

def goodFrame : Frame → Bool
  | .logout => false
  | .bad => false
  | _ => true

theorem pipeOf_ok {s : St} (h : DOk s) : PipeOk (pipeOf s) := by
  intro hi
  have hw : s.status .D = .waitQ := by simpa [pipeOf] using hi
  rcases h with ⟨h1, _⟩ | ⟨_, h2, h3⟩
  · rw [hw] at h1; simp at h1
  · exact ⟨h3, by simp [pipeOf, h2, phaseOfProg]⟩

/-! ### `queue.put` -/

theorem put_queue (s : St) (m : Nat) : (s.put m).queue = s.queue ++ [m] := by
  unfold St.put St.wakeGetter; split <;> split <;> rfl
theorem put_buf (s : St) (m : Nat) : (s.put m).buf = s.buf := by
  unfold St.put St.wakeGetter; split <;> split <;> rfl
theorem put_trace (s : St) (m : Nat) : (s.put m).trace = s.trace := by
  unfold St.put St.wakeGetter; split <;> split <;> rfl
theorem put_prog (s : St) (m : Nat) : (s.put m).prog = s.prog := by
  unfold St.put St.wakeGetter; split <;> split <;> rfl
theorem put_flags (s : St) (m : Nat) :
    (s.put m).closed = s.closed ∧ (s.put m).dispSet = s.dispSet ∧ (s.put m).rStopped = s.rStopped ∧ (s.put m).qClosed = s.qClosed ∧
    (s.put m).rcvBusy = s.rcvBusy ∧ (s.put m).vres = s.vres ∧ (s.put m).closingTask = s.closingTask ∧ (s.put m).gone = s.gone ∧
    (s.put m).cstage = s.cstage := by
  unfold St.put St.wakeGetter; split <;> split <;> exact ⟨rfl, rfl, rfl, rfl, rfl, rfl, rfl, rfl, rfl⟩
theorem put_status (s : St) (m : Nat) (t : Tid) :
    (s.put m).status t = if (t = .D ∨ t = .V) ∧ s.status t = .waitQ then .ready else s.status t := by
  unfold St.put St.wakeGetter
  by_cases hD : t = .D
  · subst hD; split <;> split <;> simp_all [St.setStatus]
  · by_cases hV : t = .V
    · subst hV; split <;> split <;> simp_all [St.setStatus]
    · split <;> split <;> simp_all [St.setStatus]

theorem Live.data {s : St} (l : Live s) (fs : List Frame) :
    Live ({ s with buf := s.buf ++ fs, wire := s.wire ++ fs, pingM := true } : St) :=
  ⟨l.rst, l.rpr, l.rs, l.qc, l.busy, l.vres, l.dok⟩


/-- what a schedule of reader ticks and dispatcher steps leaves alone: the session stays open, in callback mode, and no message
    is dropped -/
def flags (s : St) : Bool × Bool × List Nat := (s.closed, s.dispSet, s.lost)

theorem lost_of_gone {s s' : St} (h : s'.gone = s.gone) : s'.lost = s.lost := by unfold St.lost; rw [h]

theorem lost_snoc_true {s s' : St} {n : Nat} (h : s'.gone = s.gone ++ [(n, true)]) : s'.lost = s.lost := by
  unfold St.lost; rw [h, List.filter_append]; simp

theorem initiateClose_gone (s : St) : s.initiateClose.gone = s.gone := by
  unfold St.initiateClose; split <;> rfl

theorem initiateClose_frame (s : St) :
    s.initiateClose.buf = s.buf ∧ s.initiateClose.queue = s.queue ∧ s.initiateClose.trace = s.trace ∧
    s.initiateClose.closed = s.closed ∧ s.initiateClose.dispSet = s.dispSet ∧ s.initiateClose.rStopped = s.rStopped ∧
    s.initiateClose.qClosed = s.qClosed ∧ s.initiateClose.rcvBusy = s.rcvBusy ∧ s.initiateClose.vres = s.vres ∧
    (∀ t, t ≠ .C → s.initiateClose.status t = s.status t ∧ s.initiateClose.prog t = s.prog t) := by
  unfold St.initiateClose
  split
  · exact ⟨rfl, rfl, rfl, rfl, rfl, rfl, rfl, rfl, rfl, fun _ _ => ⟨rfl, rfl⟩⟩
  · refine ⟨rfl, rfl, rfl, rfl, rfl, rfl, rfl, rfl, rfl, fun t ht => ?_⟩
    simp [St.spawn, St.setStatus, St.setProg, ht]

theorem startHeartbeats_frame (s : St) :
    s.startHeartbeats.buf = s.buf ∧ s.startHeartbeats.queue = s.queue ∧ s.startHeartbeats.trace = s.trace ∧
    s.startHeartbeats.closed = s.closed ∧ s.startHeartbeats.dispSet = s.dispSet ∧ s.startHeartbeats.rStopped = s.rStopped ∧
    s.startHeartbeats.qClosed = s.qClosed ∧ s.startHeartbeats.rcvBusy = s.rcvBusy ∧ s.startHeartbeats.vres = s.vres ∧
    (∀ t, t ≠ .L → t ≠ .M → s.startHeartbeats.status t = s.status t ∧ s.startHeartbeats.prog t = s.prog t) := by
  refine ⟨rfl, rfl, rfl, rfl, rfl, rfl, rfl, rfl, rfl, fun t h1 h2 => ?_⟩
  simp [St.startHeartbeats, St.spawn, St.setStatus, St.setProg, h1, h2]

/-- what `Live` reads -/
def lcore (s : St) := (s.status .R, s.prog .R, s.rStopped, s.qClosed, s.rcvBusy, s.vres, s.status .D, s.prog .D, s.queue)

theorem Live.of_lcore {s s' : St} (h : lcore s' = lcore s) (l : Live s) : Live s' := by
  simp only [lcore, Prod.mk.injEq] at h
  obtain ⟨h1, h2, h3, h4, h5, h6, h7, h8, h9⟩ := h
  exact ⟨by rw [h1]; exact l.rst, by rw [h2]; exact l.rpr, by rw [h3]; exact l.rs, by rw [h4]; exact l.qc, by rw [h5]; exact l.busy,
    by rw [h6]; exact l.vres, by unfold DOk; rw [h7, h8, h9]; exact l.dok⟩

/-- what `pipeOf` and `flags` read -/
def pcore (s : St) := (s.buf, s.queue, s.prog .D, s.status .D, delivered s.trace, s.closed, s.dispSet, s.lost)

theorem pipeOf_of_pcore {s s' : St} (h : pcore s' = pcore s) : pipeOf s' = pipeOf s ∧ flags s' = flags s := by
  simp only [pcore, Prod.mk.injEq] at h
  obtain ⟨h1, h2, h3, h4, h5, h6, h7, h8⟩ := h
  simp only [pipeOf, flags, h1, h2, h3, h4, h5, h6, h7, h8, and_self]

theorem lcore_initiateClose (s : St) : lcore s.initiateClose = lcore s := by
  obtain ⟨i1, i2, i3, i4, i5, i6, i7, i8, i9, i10⟩ := initiateClose_frame s
  simp only [lcore, i2, i6, i7, i8, i9, (i10 .R (by simp)).1, (i10 .R (by simp)).2, (i10 .D (by simp)).1, (i10 .D (by simp)).2]

theorem pcore_initiateClose (s : St) : pcore s.initiateClose = pcore s := by
  obtain ⟨i1, i2, i3, i4, i5, i6, i7, i8, i9, i10⟩ := initiateClose_frame s
  simp only [pcore, i1, i2, i3, i4, i5, (i10 .D (by simp)).1, (i10 .D (by simp)).2, lost_of_gone (initiateClose_gone s)]

theorem lcore_startHeartbeats (s : St) : lcore s.startHeartbeats = lcore s := by
  obtain ⟨i1, i2, i3, i4, i5, i6, i7, i8, i9, i10⟩ := startHeartbeats_frame s
  simp only [lcore, i2, i6, i7, i8, i9, (i10 .R (by simp) (by simp)).1, (i10 .R (by simp) (by simp)).2,
    (i10 .D (by simp) (by simp)).1, (i10 .D (by simp) (by simp)).2]

theorem pcore_startHeartbeats (s : St) : pcore s.startHeartbeats = pcore s := by
  obtain ⟨i1, i2, i3, i4, i5, i6, i7, i8, i9, i10⟩ := startHeartbeats_frame s
  have hl : s.startHeartbeats.lost = s.lost := rfl
  simp only [pcore, i1, i2, i3, i4, i5, (i10 .D (by simp) (by simp)).1, (i10 .D (by simp) (by simp)).2, hl]

theorem lcore_emit (s : St) (o : Obs) : lcore (s.emit o) = lcore s := rfl

theorem pcore_emit (s : St) (o : Obs) (h : deliveredObs o = none) : pcore (s.emit o) = pcore s := by
  have hl : (s.emit o).lost = s.lost := rfl
  simp only [pcore, hl]
  simp only [St.emit, delivered_append, h]; simp

/-! ### one reader tick -/

theorem sim_runR {cfg : Cfg} {s : St} (l : Live s) (hg : ∀ f ∈ s.buf.take 1, goodFrame f = true) :
    Live (step cfg s (.run .R)) ∧ pipeOf (step cfg s (.run .R)) = aR (pipeOf s) ∧ flags (step cfg s (.run .R)) = flags s ∧
    (step cfg s (.run .R)).closingTask = s.closingTask := by
  cases hb : s.buf with
  | nil =>
    have e : step cfg s (.run .R) = { s with imm := none } := by
      simp [step, runnable, l.rst, stepRun, l.rpr, stepReader, l.rs, hb]
    rw [e]
    refine ⟨⟨l.rst, l.rpr, l.rs, l.qc, l.busy, l.vres, l.dok⟩, ?_, rfl, rfl⟩
    rw [aR_nil (by simp [pipeOf, hb])]; rfl
  | cons f rest =>
    have hgf : goodFrame f = true := hg f (by simp [hb])
    cases f with
    | logout => simp [goodFrame] at hgf
    | bad => simp [goodFrame] at hgf
    | hb =>
      have e : step cfg s (.run .R) = { s with imm := none, buf := rest, consumed := s.consumed ++ [.hb] } := by
        simp [step, runnable, l.rst, stepRun, l.rpr, stepReader, l.rs, hb]
      rw [e]
      refine ⟨⟨l.rst, l.rpr, l.rs, l.qc, l.busy, l.vres, l.dok⟩, ?_, rfl, rfl⟩
      rw [aR_other (p := pipeOf s) (f := .hb) (rest := rest) (by simp [pipeOf, hb]) (by simp)]; rfl
    | msg n =>
      have e : step cfg s (.run .R) =
          ({ s with imm := none, buf := rest, consumed := s.consumed ++ [.msg n], recvd := s.recvd ++ [n] } : St).put n := by
        simp [step, runnable, l.rst, stepRun, l.rpr, stepReader, l.rs, hb]
      rw [e]
      generalize hs1 : ({ s with imm := none, buf := rest, consumed := s.consumed ++ [.msg n], recvd := s.recvd ++ [n] } : St) = s1
      have q1 : s1.queue = s.queue := by rw [← hs1]
      have b1 : s1.buf = rest := by rw [← hs1]
      have st1 : s1.status = s.status := by rw [← hs1]
      have pr1 : s1.prog = s.prog := by rw [← hs1]
      have tr1 : s1.trace = s.trace := by rw [← hs1]
      obtain ⟨f1, f2, f3, f4, f5, f6, f7, f8, _⟩ := put_flags s1 n
      have hD : (s1.put n).status .D = if s.status .D = .waitQ then .ready else s.status .D := by
        rw [put_status, st1]; simp
      refine ⟨⟨?_, ?_, ?_, ?_, ?_, ?_, ?_⟩, ?_, ?_, ?_⟩
      · rw [put_status, st1, l.rst]; simp
      · rw [put_prog, pr1]; exact l.rpr
      · rw [f3, ← hs1]; exact l.rs
      · rw [f4, ← hs1]; exact l.qc
      · rw [f5, ← hs1]; exact l.busy
      · rw [f6, ← hs1]; exact l.vres
      · -- the dispatcher: woken if it slept
        unfold DOk
        rw [hD, put_prog, pr1]
        rcases l.dok with ⟨h1, h2⟩ | ⟨h1, h2, _⟩
        · left; rw [h1]; simp; exact h2
        · left; rw [h1]; simp; exact Or.inl h2
      · rw [aR_msg (p := pipeOf s) (n := n) (rest := rest) (by simp [pipeOf, hb])]
        simp only [pipeOf]
        rw [put_buf, put_queue, put_prog, put_trace, hD, b1, q1, pr1, tr1]
        congr 1
        by_cases hw : s.status .D = .waitQ
        · simp [hw]
        · simp only [hw, if_false]; simpa using hw
      · simp only [flags]; rw [f1, f2, lost_of_gone f8, ← hs1]; rfl
      · rw [f7, ← hs1]

/-! ### one dispatcher step -/

theorem sim_runD {cfg : Cfg} {s : St} (l : Live s)
    (hg : ∀ n q, s.queue = n :: q → s.prog .D = .dispLoop → (cfg.msgBeh n).closes = false) :
    Live (step cfg s (.run .D)) ∧ pipeOf (step cfg s (.run .D)) = aD cfg.msgBeh (pipeOf s) ∧
    flags (step cfg s (.run .D)) = flags s := by
  rcases l.dok with ⟨hst, hpr | ⟨n, j, hpr⟩⟩ | ⟨hst, hpr, hq⟩
  · -- runnable in its loop
    have hph : (pipeOf s).ph = none := by simp [pipeOf, hpr, phaseOfProg]
    have hid : (pipeOf s).idle = false := by simp [pipeOf, hst]
    cases hq : s.queue with
    | nil =>
      have e : step cfg s (.run .D) = ({ s with imm := none } : St).setStatus .D .waitQ := by
        simp [step, runnable, hst, stepRun, hpr, stepDisp, l.qc, l.busy, l.vres, hq]
      rw [e, aD_sleep hph hid (by simp [pipeOf, hq])]
      refine ⟨⟨by simp [St.setStatus, l.rst], l.rpr, l.rs, l.qc, l.busy, l.vres, Or.inr ⟨by simp [St.setStatus], hpr, hq⟩⟩, ?_, rfl⟩
      simp [pipeOf, St.setStatus]
    | cons n q =>
      have hc := hg n q hq hpr
      have e : step cfg s (.run .D) = dispHandle cfg
          (({ s with imm := none, queue := q, gone := s.gone ++ [(n, true)] } : St).emit (.msgEnter n)) n := by
        simp [step, runnable, hst, stepRun, hpr, stepDisp, l.qc, l.busy, l.vres, hq]
      rw [e, aD_take hph hid (by simp [pipeOf, hq] : (pipeOf s).queue = n :: q)]
      have hout : delivered (s.trace ++ [.msgEnter n]) = delivered s.trace ++ [n] := by rw [delivered_append]; rfl
      have hfl : ∀ s2 : St, s2.closed = s.closed → s2.dispSet = s.dispSet → s2.gone = s.gone ++ [(n, true)] → flags s2 = flags s := by
        intro s2 h1 h2 h3; simp only [flags, h1, h2, lost_snoc_true h3]
      unfold dispHandle
      cases hb : cfg.msgBeh n with
      | ret =>
        simp only
        refine ⟨⟨l.rst, l.rpr, l.rs, l.qc, l.busy, l.vres, Or.inl ⟨hst, Or.inl hpr⟩⟩, ?_, hfl _ rfl rfl rfl⟩
        simp only [pipeOf, St.emit, phOf, hpr, phaseOfProg, hst]
        rw [delivered_append, hout]; simp [deliveredObs]
      | await k =>
        simp only
        refine ⟨⟨l.rst, l.rpr, l.rs, l.qc, l.busy, l.vres, Or.inl ⟨hst, Or.inr ⟨n, k, by simp [St.setProg]⟩⟩⟩, ?_, hfl _ rfl rfl rfl⟩
        simp only [pipeOf, St.emit, St.setProg, phOf, phaseOfProg, hst, hout]
        simp
      | close => rw [hb] at hc; simp [Beh.closes] at hc
      | reject => rw [hb] at hc; simp [Beh.closes] at hc
      | raise =>
        simp only
        refine ⟨⟨l.rst, l.rpr, l.rs, l.qc, l.busy, l.vres, Or.inl ⟨hst, Or.inl hpr⟩⟩, ?_, hfl _ rfl rfl rfl⟩
        simp only [pipeOf, St.emit, phOf, hpr, phaseOfProg, hst]
        rw [delivered_append, hout]; simp [deliveredObs]
      | iclose =>
        simp only
        generalize hs1 : (({ s with imm := none, queue := q, gone := s.gone ++ [(n, true)] } : St).emit (.msgEnter n)) = s1
        have l1 : Live s1 := by rw [← hs1]; exact ⟨l.rst, l.rpr, l.rs, l.qc, l.busy, l.vres, Or.inl ⟨hst, Or.inl hpr⟩⟩
        have p1 : pipeOf s1 = { pipeOf s with queue := q, out := (pipeOf s).out ++ [n] } ∧ flags s1 = flags s := by
          rw [← hs1]; exact ⟨by simp only [pipeOf, St.emit, hout], hfl _ rfl rfl rfl⟩
        have l2 : Live (s1.initiateClose.emit (.msgExit n)) := Live.of_lcore (by rw [lcore_emit, lcore_initiateClose]) l1
        have p2 := pipeOf_of_pcore (s' := s1.initiateClose.emit (.msgExit n)) (s := s1) (by rw [pcore_emit _ _ rfl, pcore_initiateClose])
        refine ⟨Live.of_lcore (s := s1.initiateClose.emit (.msgExit n)) rfl l2, ?_, ?_⟩
        · show pipeOf (s1.initiateClose.emit (.msgExit n)) = _
          rw [p2.1, p1.1]; simp [phOf, pipeOf, hpr, phaseOfProg]
        · show flags (s1.initiateClose.emit (.msgExit n)) = _
          rw [p2.2, p1.2]
      | accept =>
        simp only
        generalize hs1 : (({ s with imm := none, queue := q, gone := s.gone ++ [(n, true)] } : St).emit (.msgEnter n)) = s1
        have l1 : Live s1 := by rw [← hs1]; exact ⟨l.rst, l.rpr, l.rs, l.qc, l.busy, l.vres, Or.inl ⟨hst, Or.inl hpr⟩⟩
        have p1 : pipeOf s1 = { pipeOf s with queue := q, out := (pipeOf s).out ++ [n] } ∧ flags s1 = flags s := by
          rw [← hs1]; exact ⟨by simp only [pipeOf, St.emit, hout], hfl _ rfl rfl rfl⟩
        have l2 : Live (((s1.emit (.write .reply)).startHeartbeats).emit (.msgExit n)) :=
          Live.of_lcore (by rw [lcore_emit, lcore_startHeartbeats, lcore_emit]) l1
        have p2 := pipeOf_of_pcore (s' := ((s1.emit (.write .reply)).startHeartbeats).emit (.msgExit n)) (s := s1)
          (by rw [pcore_emit _ _ rfl, pcore_startHeartbeats, pcore_emit _ _ rfl])
        refine ⟨Live.of_lcore (s := ((s1.emit (.write .reply)).startHeartbeats).emit (.msgExit n)) rfl l2, ?_, ?_⟩
        · show pipeOf (((s1.emit (.write .reply)).startHeartbeats).emit (.msgExit n)) = _
          rw [p2.1, p1.1]; simp [phOf, pipeOf, hpr, phaseOfProg]
        · show flags (((s1.emit (.write .reply)).startHeartbeats).emit (.msgExit n)) = _
          rw [p2.2, p1.2]
  · -- inside a handler
    have hph : (pipeOf s).ph = some (n, j) := by simp [pipeOf, hpr, phaseOfProg]
    cases j with
    | zero =>
      have e : step cfg s (.run .D) = { (({ s with imm := none } : St).emit (.msgExit n)).setProg .D .dispLoop with imm := some .D } := by
        simp [step, runnable, hst, stepRun, hpr]
      rw [e, aD_ret hph]
      refine ⟨⟨l.rst, l.rpr, l.rs, l.qc, l.busy, l.vres, Or.inl ⟨hst, Or.inl (by simp [St.setProg])⟩⟩, ?_, rfl⟩
      simp only [pipeOf, St.emit, St.setProg, phaseOfProg]
      rw [delivered_append]; simp [deliveredObs]
    | succ j =>
      have e : step cfg s (.run .D) = ({ s with imm := none } : St).setProg .D (.handler n j) := by
        simp [step, runnable, hst, stepRun, hpr]
      rw [e, aD_wait hph]
      refine ⟨⟨l.rst, l.rpr, l.rs, l.qc, l.busy, l.vres, Or.inl ⟨hst, Or.inr ⟨n, j, by simp [St.setProg]⟩⟩⟩, ?_, rfl⟩
      simp [pipeOf, St.setProg, phaseOfProg]
  · -- asleep in `queue.get()`: not runnable
    have e : step cfg s (.run .D) = s := by simp [step, runnable, hst]
    rw [e, aD_idle (by simp [pipeOf, hpr, phaseOfProg]) (by simp [pipeOf, hst])]
    exact ⟨l, rfl, rfl⟩

theorem sim_data {cfg : Cfg} {s : St} (l : Live s) (fs : List Frame) :
    Live (step cfg s (.data fs)) ∧ pipeOf (step cfg s (.data fs)) = astep cfg.msgBeh (pipeOf s) (.data fs) ∧
    flags (step cfg s (.data fs)) = flags s ∧ (step cfg s (.data fs)).closingTask = s.closingTask :=
  ⟨l.data fs, rfl, rfl, rfl⟩


/-! ### the canonical schedule -/

theorem aR_take_match (p : Pipe) (k : Nat) :
    (aR p).queue ++ msgsOf ((aR p).buf.take k) = p.queue ++ msgsOf (p.buf.take (k + 1)) := by
  cases hb : p.buf with
  | nil => rw [aR_nil hb]; simp [hb]
  | cons f rest =>
    cases f with
    | msg n => rw [aR_msg hb]; simp [msgsOf_cons_msg]
    | hb => rw [aR_other hb (by simp), List.take_succ_cons, msgsOf_cons_other _ (by simp)]
    | logout => rw [aR_other hb (by simp), List.take_succ_cons, msgsOf_cons_other _ (by simp)]
    | bad => rw [aR_other hb (by simp), List.take_succ_cons, msgsOf_cons_other _ (by simp)]

theorem aD_queue_sub (beh : Nat → Beh) (p : Pipe) : ∀ n ∈ (aD beh p).queue, n ∈ p.queue := by
  intro n hn
  unfold aD at hn
  split at hn
  · exact hn
  · exact hn
  · split at hn
    · exact hn
    · split at hn
      · exact hn
      · rename_i hq; rw [hq]; exact List.mem_cons_of_mem _ hn

/-- the dispatcher work in hand: the handler in progress plus the callbacks of the queued messages -/
def work (beh : Nat → Beh) (p : Pipe) : Nat := phCost p.ph + cost beh p.queue

theorem aD_work {beh : Nat → Beh} {p : Pipe} (ok : PipeOk p) :
    work beh (aD beh p) + 1 = work beh p ∨ (work beh p = 0 ∧ work beh (aD beh p) = 0) := by
  cases hph : p.ph with
  | some nj =>
    obtain ⟨n, j⟩ := nj
    cases j with
    | zero => left; rw [aD_ret hph]; simp [work, hph, phCost]; omega
    | succ j => left; rw [aD_wait hph]; simp [work, hph, phCost]; omega
  | none =>
    cases hi : p.idle with
    | true =>
      right; rw [aD_idle hph hi]
      have := (ok hi).1
      simp [work, hph, phCost, this, cost_nil]
    | false =>
      cases hq : p.queue with
      | nil => right; rw [aD_sleep hph hi hq]; simp [work, hph, phCost, hq, cost_nil]
      | cons n q =>
        left; rw [aD_take hph hi hq]
        have := phCost_phOf (beh n) n
        show phCost (phOf (beh n) n) + cost beh q + 1 = phCost p.ph + cost beh p.queue
        rw [hph, hq, cost_cons]
        have h0 : phCost (none : Option (Nat × Nat)) = 0 := rfl
        rw [h0]
        omega

/-- **… and every callback has returned**: after the canonical schedule no handler is in progress -/
theorem arun_exact_ph (beh : Nat → Beh) : ∀ (aevs : List AEv) (p : Pipe) (k m : Nat), PipeOk p →
    aevs.filter AEv.notData = List.replicate k AEv.r ++ List.replicate m AEv.d →
    ((∃ e ∈ aevs, AEv.notData e = false) → k ≤ p.buf.length) →
    phCost p.ph + cost beh (p.queue ++ msgsOf (p.buf.take k)) ≤ m →
    (arun beh p aevs).ph = none := by
  intro aevs
  induction aevs with
  | nil =>
    intro p k m _ h _ hm
    have hk0 : k = 0 := by cases k with | zero => rfl | succ k => simp [List.replicate_succ] at h
    subst hk0
    have hm0 : m = 0 := by cases m with | zero => rfl | succ m => simp [List.replicate_succ] at h
    subst hm0
    show p.ph = none
    cases hph : p.ph with
    | none => rfl
    | some nj => rw [hph] at hm; simp [phCost] at hm
  | cons e aevs ih =>
    intro p k m ok h hk hm
    show (arun beh (astep beh p e) aevs).ph = none
    cases e with
    | data fs =>
      have hk' : k ≤ p.buf.length := hk ⟨.data fs, by simp, rfl⟩
      have h' : aevs.filter AEv.notData = List.replicate k AEv.r ++ List.replicate m AEv.d := by
        simpa [List.filter, AEv.notData] using h
      refine ih _ k m ok h' (fun _ => by simp [astep]; omega) ?_
      simp only [astep]
      rw [List.take_append_of_le_length hk']; exact hm
    | nop =>
      exfalso
      simp only [List.filter, AEv.notData] at h
      cases k with
      | succ k => simp [List.replicate_succ] at h
      | zero => cases m with
        | zero => simp at h
        | succ m => simp [List.replicate_succ] at h
    | r =>
      simp only [List.filter, AEv.notData] at h
      cases k with
      | zero =>
        exfalso
        cases m with
        | zero => simp at h
        | succ m => simp [List.replicate_succ] at h
      | succ k =>
        have h' : aevs.filter AEv.notData = List.replicate k AEv.r ++ List.replicate m AEv.d := by
          simpa [List.replicate_succ] using h
        refine ih _ k m (aR_ok ok) h' (fun ⟨e, he, hd⟩ => by
          have := hk ⟨e, List.mem_cons_of_mem _ he, hd⟩
          simp only [astep]; rw [aR_buf]; simp; omega) ?_
        simp only [astep]
        rw [aR_ph, aR_take_match]; exact hm
    | d =>
      simp only [List.filter, AEv.notData] at h
      cases k with
      | succ k => simp [List.replicate_succ] at h
      | zero =>
        cases m with
        | zero => simp at h
        | succ m =>
          have h' : aevs.filter AEv.notData = List.replicate 0 AEv.r ++ List.replicate m AEv.d := by
            simpa [List.replicate_succ] using h
          refine ih _ 0 m (aD_ok ok) h' (fun _ => by omega) ?_
          simp only [astep, List.take_zero, msgsOf_nil, List.append_nil] at hm ⊢
          have := aD_work (beh := beh) ok
          simp only [work] at this
          omega

/-- the first `k` buffered frames are neither a logout nor malformed, and the message callbacks for the queued messages and for
    the messages among those frames do not close the session -/
structure Good (cfg : Cfg) (s : St) (k : Nat) : Prop where
  fr : ∀ f ∈ s.buf.take k, goodFrame f = true
  hd : ∀ n ∈ s.queue ++ msgsOf (s.buf.take k), (cfg.msgBeh n).closes = false

def Ev.notData : Ev → Bool
  | .data _ => false
  | _ => true

/-- the frames that arrive during a run -/
def framesOf : List Ev → List Frame
  | [] => []
  | .data fs :: l => fs ++ framesOf l
  | _ :: l => framesOf l

theorem dataOf_map_absEv (evs : List Ev) : dataOf (evs.map absEv) = framesOf evs := by
  induction evs with
  | nil => rfl
  | cons ev evs ih =>
    cases ev with
    | data fs => simp [absEv, dataOf, framesOf, ih]
    | run t => cases t <;> simp [absEv, dataOf, framesOf, ih]
    | _ => simp [absEv, dataOf, framesOf, ih]

theorem notData_absEv (ev : Ev) : AEv.notData (absEv ev) = Ev.notData ev := by
  cases ev with
  | run t => cases t <;> rfl
  | _ => rfl

theorem filter_map_absEv (evs : List Ev) : (evs.map absEv).filter AEv.notData = (evs.filter Ev.notData).map absEv := by
  induction evs with
  | nil => rfl
  | cons ev evs ih =>
    simp only [List.map_cons, List.filter_cons, notData_absEv]
    split <;> simp [ih]

/-- **The session machine follows the pipeline along the canonical schedule** — `k` reader ticks, then `m` dispatcher steps,
    interleaved with arriving frames — and stays in working order. -/
theorem sim_sched (cfg : Cfg) : ∀ (evs : List Ev) (s : St) (k m : Nat), Live s → Good cfg s k →
    ((∃ e ∈ evs, Ev.notData e = false) → k ≤ s.buf.length) →
    evs.filter Ev.notData = List.replicate k (Ev.run .R) ++ List.replicate m (Ev.run .D) →
    Live (runEvs cfg s evs) ∧ pipeOf (runEvs cfg s evs) = arun cfg.msgBeh (pipeOf s) (evs.map absEv) ∧
    flags (runEvs cfg s evs) = flags s := by
  intro evs
  induction evs with
  | nil => intro s k m l _ _ _; exact ⟨l, rfl, rfl⟩
  | cons ev evs ih =>
    intro s k m l g hk h
    show Live (runEvs cfg (step cfg s ev) evs) ∧ pipeOf (runEvs cfg (step cfg s ev) evs) =
      arun cfg.msgBeh (astep cfg.msgBeh (pipeOf s) (absEv ev)) (evs.map absEv) ∧ flags (runEvs cfg (step cfg s ev) evs) = flags s
    -- the head of the schedule
    have hhead : ∀ l1, ev :: l1 = List.replicate k (Ev.run .R) ++ List.replicate m (Ev.run .D) →
        (∃ k', k = k' + 1 ∧ ev = .run .R ∧ l1 = List.replicate k' (Ev.run .R) ++ List.replicate m (Ev.run .D)) ∨
        (∃ m', k = 0 ∧ m = m' + 1 ∧ ev = .run .D ∧ l1 = List.replicate 0 (Ev.run .R) ++ List.replicate m' (Ev.run .D)) := by
      intro l1 e
      cases k with
      | succ k => left; simp [List.replicate_succ] at e; exact ⟨k, rfl, e.1, e.2⟩
      | zero =>
        cases m with
        | zero => simp at e
        | succ m => right; simp [List.replicate_succ] at e; exact ⟨m, rfl, rfl, e.1, by simp [e.2]⟩
    have hnd : Ev.notData ev = true →
        (∃ k', k = k' + 1 ∧ ev = .run .R ∧ evs.filter Ev.notData = List.replicate k' (Ev.run .R) ++ List.replicate m (Ev.run .D)) ∨
        (∃ m', k = 0 ∧ m = m' + 1 ∧ ev = .run .D ∧ evs.filter Ev.notData = List.replicate 0 (Ev.run .R) ++ List.replicate m' (Ev.run .D)) := by
      intro hn
      apply hhead
      rw [← h]; simp [List.filter, hn]
    have hR : ev = .run .R → ∀ k', k = k' + 1 → evs.filter Ev.notData = List.replicate k' (Ev.run .R) ++ List.replicate m (Ev.run .D) →
        Live (runEvs cfg (step cfg s ev) evs) ∧ pipeOf (runEvs cfg (step cfg s ev) evs) =
          arun cfg.msgBeh (astep cfg.msgBeh (pipeOf s) (absEv ev)) (evs.map absEv) ∧ flags (runEvs cfg (step cfg s ev) evs) = flags s := by
      intro hev k' hk' h'
      subst hev; subst hk'
      obtain ⟨l1, p1, f1, _⟩ := sim_runR (cfg := cfg) l (fun f hf => g.fr f (by
        have : List.take 1 s.buf <+: List.take (k' + 1) s.buf := List.take_prefix_take_left (by omega)
        exact this.subset hf))
      have hb1 : (step cfg s (.run .R)).buf = s.buf.drop 1 := by
        have := congrArg Pipe.buf p1; rw [aR_buf] at this; exact this
      have hq1 : (step cfg s (.run .R)).queue ++ msgsOf ((step cfg s (.run .R)).buf.take k') = s.queue ++ msgsOf (s.buf.take (k' + 1)) := by
        have := aR_take_match (pipeOf s) k'
        rw [← p1] at this; exact this
      have g1 : Good cfg (step cfg s (.run .R)) k' := by
        refine ⟨?_, ?_⟩
        · intro f hf
          rw [hb1] at hf
          apply g.fr f
          have h2 : (s.buf.drop 1).take k' = (s.buf.take (k' + 1)).drop 1 := by
            rw [List.drop_take]; simp
          rw [h2] at hf
          exact List.mem_of_mem_drop hf
        · intro n hn; rw [hq1] at hn; exact g.hd n hn
      obtain ⟨l2, p2, f2⟩ := ih _ k' m l1 g1 (fun ⟨e, he, hd⟩ => by
        have := hk ⟨e, List.mem_cons_of_mem _ he, hd⟩
        rw [hb1]; simp; omega) h'
      exact ⟨l2, by rw [p2, p1]; rfl, by rw [f2, f1]⟩
    have hD : ev = .run .D → ∀ m', k = 0 → m = m' + 1 →
        evs.filter Ev.notData = List.replicate 0 (Ev.run .R) ++ List.replicate m' (Ev.run .D) →
        Live (runEvs cfg (step cfg s ev) evs) ∧ pipeOf (runEvs cfg (step cfg s ev) evs) =
          arun cfg.msgBeh (astep cfg.msgBeh (pipeOf s) (absEv ev)) (evs.map absEv) ∧ flags (runEvs cfg (step cfg s ev) evs) = flags s := by
      intro hev m' hk0 hm' h'
      subst hev; subst hk0; subst hm'
      obtain ⟨l1, p1, f1⟩ := sim_runD (cfg := cfg) l (fun n q hq _ => g.hd n (by simp [hq]))
      have g1 : Good cfg (step cfg s (.run .D)) 0 := by
        refine ⟨by simp, ?_⟩
        intro n hn
        simp only [List.take_zero, msgsOf_nil, List.append_nil] at hn
        have : n ∈ (pipeOf (step cfg s (.run .D))).queue := hn
        rw [p1] at this
        exact g.hd n (List.mem_append_left _ (aD_queue_sub _ _ n this))
      obtain ⟨l2, p2, f2⟩ := ih _ 0 m' l1 g1 (fun _ => by omega) h'
      exact ⟨l2, by rw [p2, p1]; rfl, by rw [f2, f1]⟩
    cases ev with
    | data fs =>
      have hk' : k ≤ s.buf.length := hk ⟨.data fs, by simp, rfl⟩
      have h' : evs.filter Ev.notData = List.replicate k (Ev.run .R) ++ List.replicate m (Ev.run .D) := by
        simpa [List.filter, Ev.notData] using h
      obtain ⟨l1, p1, f1, _⟩ := sim_data (cfg := cfg) l fs
      have g1 : Good cfg (step cfg s (.data fs)) k := by
        have hb : (step cfg s (.data fs)).buf.take k = s.buf.take k := by
          show (s.buf ++ fs).take k = _
          exact List.take_append_of_le_length hk'
        exact ⟨by rw [hb]; exact g.fr, by rw [hb]; exact g.hd⟩
      obtain ⟨l2, p2, f2⟩ := ih _ k m l1 g1 (fun _ => by show k ≤ (s.buf ++ fs).length; simp; omega) h'
      exact ⟨l2, by rw [p2, p1]; rfl, by rw [f2, f1]⟩
    | run t =>
      rcases hnd rfl with ⟨k', hk', hev, hl⟩ | ⟨m', hk0, hm', hev, hl⟩
      · exact hR hev k' hk' hl
      · exact hD hev m' hk0 hm' hl
    | connect => rcases hnd rfl with ⟨_, _, hev, _⟩ | ⟨_, _, _, hev, _⟩ <;> cases hev
    | eof => rcases hnd rfl with ⟨_, _, hev, _⟩ | ⟨_, _, _, hev, _⟩ <;> cases hev
    | callClose u => rcases hnd rfl with ⟨_, _, hev, _⟩ | ⟨_, _, _, hev, _⟩ <;> cases hev
    | callInitiateClose => rcases hnd rfl with ⟨_, _, hev, _⟩ | ⟨_, _, _, hev, _⟩ <;> cases hev
    | callLogout => rcases hnd rfl with ⟨_, _, hev, _⟩ | ⟨_, _, _, hev, _⟩ <;> cases hev
    | callRecv u => rcases hnd rfl with ⟨_, _, hev, _⟩ | ⟨_, _, _, hev, _⟩ <;> cases hev
    | callRecvNowait u => rcases hnd rfl with ⟨_, _, hev, _⟩ | ⟨_, _, _, hev, _⟩ <;> cases hev
    | callLogin u => rcases hnd rfl with ⟨_, _, hev, _⟩ | ⟨_, _, _, hev, _⟩ <;> cases hev
    | callSend => rcases hnd rfl with ⟨_, _, hev, _⟩ | ⟨_, _, _, hev, _⟩ <;> cases hev
    | cancel u => rcases hnd rfl with ⟨_, _, hev, _⟩ | ⟨_, _, _, hev, _⟩ <;> cases hev


theorem runEvs_append' (cfg : Cfg) (s : St) (l1 l2 : List Ev) : runEvs cfg s (l1 ++ l2) = runEvs cfg (runEvs cfg s l1) l2 := by
  simp [runEvs, List.foldl_append]

/-- **Callback mode, exact.** From a state in working order whose first `k` buffered frames are good and whose handlers concerned do
    not close the session: `k` reader ticks followed by `m` dispatcher steps — interleaved with arriving frames in any way, provided
    the `k` frames are all there if anything arrives — where `m` covers the handler in progress and one callback per message:
    exactly the queued messages and the messages among those `k` frames are delivered, in order, after what was delivered before. -/
theorem drain_exact (cfg : Cfg) (evs : List Ev) (s : St) (k m : Nat) (l : Live s) (g : Good cfg s k)
    (hk : (∃ e ∈ evs, Ev.notData e = false) → k ≤ s.buf.length)
    (hs : evs.filter Ev.notData = List.replicate k (Ev.run .R) ++ List.replicate m (Ev.run .D))
    (hm : phCost (phaseOfProg (s.prog .D)) + cost cfg.msgBeh (s.queue ++ msgsOf (s.buf.take k)) ≤ m) :
    delivered (runEvs cfg s evs).trace = delivered s.trace ++ s.queue ++ msgsOf (s.buf.take k) ∧
    (runEvs cfg s evs).queue = [] ∧ (runEvs cfg s evs).buf = s.buf.drop k ++ framesOf evs ∧
    Live (runEvs cfg s evs) ∧ flags (runEvs cfg s evs) = flags s ∧ (runEvs cfg s evs).prog .D = .dispLoop := by
  obtain ⟨l', p', f'⟩ := sim_sched cfg evs s k m l g hk hs
  have hs' : (evs.map absEv).filter AEv.notData = List.replicate k AEv.r ++ List.replicate m AEv.d := by
    rw [filter_map_absEv, hs]; simp [absEv]
  have hk' : (∃ e ∈ evs.map absEv, AEv.notData e = false) → k ≤ (pipeOf s).buf.length := by
    rintro ⟨e, he, hd⟩
    obtain ⟨ev, hev, rfl⟩ := List.mem_map.mp he
    exact hk ⟨ev, hev, by rw [← notData_absEv]; exact hd⟩
  obtain ⟨a1, a2, a3⟩ := arun_exact cfg.msgBeh (evs.map absEv) (pipeOf s) k m (pipeOf_ok l.dok) hs' hk' hm
  have a4 := arun_exact_ph cfg.msgBeh (evs.map absEv) (pipeOf s) k m (pipeOf_ok l.dok) hs' hk' hm
  rw [← p'] at a1 a2 a3 a4
  rw [dataOf_map_absEv] at a3
  refine ⟨a1, a2, a3, l', f', ?_⟩
  have a5 : phaseOfProg ((runEvs cfg s evs).prog .D) = none := a4
  rcases l'.dok with ⟨_, h | ⟨n, j, h⟩⟩ | ⟨_, h, _⟩
  · exact h
  · rw [h] at a5; simp [phaseOfProg] at a5
  · exact h

/-! ### pull mode: no dispatcher; the consumer takes the messages with `receive_msg_nowait()` -/

/-- reader polling, queue open, no receive pending -/
structure RLive (s : St) : Prop where
  rst : s.status .R = .ready
  rpr : s.prog .R = .readerLoop
  rs : s.rStopped = false
  busy : s.rcvBusy = false
  vres : s.vres = none

/-- what the pull-mode lemmas report as untouched -/
def pflags (s : St) := (s.closed, s.dispSet, s.closingTask, s.qClosed, s.trace, s.gone)

theorem pull_runR {cfg : Cfg} {s : St} (l : RLive s) (hg : ∀ f ∈ s.buf.take 1, goodFrame f = true) :
    RLive (step cfg s (.run .R)) ∧ (step cfg s (.run .R)).buf = s.buf.drop 1 ∧
    (step cfg s (.run .R)).queue = s.queue ++ msgsOf (s.buf.take 1) ∧ pflags (step cfg s (.run .R)) = pflags s := by
  cases hb : s.buf with
  | nil =>
    have e : step cfg s (.run .R) = { s with imm := none } := by
      simp [step, runnable, l.rst, stepRun, l.rpr, stepReader, l.rs, hb]
    rw [e]
    exact ⟨⟨l.rst, l.rpr, l.rs, l.busy, l.vres⟩, by simp [hb], by simp [msgsOf_nil], rfl⟩
  | cons f rest =>
    have hgf : goodFrame f = true := hg f (by simp [hb])
    cases f with
    | logout => simp [goodFrame] at hgf
    | bad => simp [goodFrame] at hgf
    | hb =>
      have e : step cfg s (.run .R) = { s with imm := none, buf := rest, consumed := s.consumed ++ [.hb] } := by
        simp [step, runnable, l.rst, stepRun, l.rpr, stepReader, l.rs, hb]
      rw [e]
      exact ⟨⟨l.rst, l.rpr, l.rs, l.busy, l.vres⟩, by simp, by simp [msgsOf], rfl⟩
    | msg n =>
      have e : step cfg s (.run .R) =
          ({ s with imm := none, buf := rest, consumed := s.consumed ++ [.msg n], recvd := s.recvd ++ [n] } : St).put n := by
        simp [step, runnable, l.rst, stepRun, l.rpr, stepReader, l.rs, hb]
      rw [e]
      generalize hs1 : ({ s with imm := none, buf := rest, consumed := s.consumed ++ [.msg n], recvd := s.recvd ++ [n] } : St) = s1
      obtain ⟨f1, f2, f3, f4, f5, f6, f7, f8, _⟩ := put_flags s1 n
      refine ⟨⟨?_, ?_, ?_, ?_, ?_⟩, ?_, ?_, ?_⟩
      · rw [put_status, ← hs1]; simp [l.rst]
      · rw [put_prog, ← hs1]; exact l.rpr
      · rw [f3, ← hs1]; exact l.rs
      · rw [f5, ← hs1]; exact l.busy
      · rw [f6, ← hs1]; exact l.vres
      · rw [put_buf, ← hs1]; simp
      · rw [put_queue, ← hs1]; simp [msgsOf_cons_msg, msgsOf_nil]
      · simp only [pflags]; rw [f1, f2, f7, f4, put_trace, f8, ← hs1]

/-- `k` reader ticks put the messages among the first `k` frames on the queue, in order -/
theorem pull_reader (cfg : Cfg) : ∀ (k : Nat) (s : St), RLive s → (∀ f ∈ s.buf.take k, goodFrame f = true) →
    RLive (runEvs cfg s (List.replicate k (.run .R))) ∧ (runEvs cfg s (List.replicate k (.run .R))).buf = s.buf.drop k ∧
    (runEvs cfg s (List.replicate k (.run .R))).queue = s.queue ++ msgsOf (s.buf.take k) ∧
    pflags (runEvs cfg s (List.replicate k (.run .R))) = pflags s := by
  intro k
  induction k with
  | zero => intro s l _; exact ⟨l, by simp [runEvs], by simp [runEvs, msgsOf_nil], rfl⟩
  | succ k ih =>
    intro s l hg
    obtain ⟨l1, b1, q1, f1⟩ := pull_runR (cfg := cfg) l (fun f hf => hg f ((List.take_prefix_take_left (by omega)).subset hf))
    have hg1 : ∀ f ∈ (step cfg s (.run .R)).buf.take k, goodFrame f = true := by
      intro f hf
      rw [b1] at hf
      apply hg f
      have h2 : (s.buf.drop 1).take k = (s.buf.take (k + 1)).drop 1 := by rw [List.drop_take]; simp
      rw [h2] at hf
      exact List.mem_of_mem_drop hf
    obtain ⟨l2, b2, q2, f2⟩ := ih _ l1 hg1
    have e : runEvs cfg s (List.replicate (k + 1) (.run .R)) = runEvs cfg (step cfg s (.run .R)) (List.replicate k (.run .R)) := rfl
    rw [e]
    refine ⟨l2, ?_, ?_, by rw [f2, f1]⟩
    · rw [b2, b1, List.drop_drop]; congr 1; omega
    · rw [q2, q1, b1, List.append_assoc, ← msgsOf_append]
      congr 2
      have h2 : (s.buf.drop 1).take k = (s.buf.take (k + 1)).drop 1 := by rw [List.drop_take]; simp
      rw [h2]
      have h3 : s.buf.take 1 = (s.buf.take (k + 1)).take 1 := by rw [List.take_take]; congr 1 <;> omega
      rw [h3, List.take_append_drop]

/-- with no dispatcher, `receive_msg_nowait()` called once per queued message returns the queued messages in order -/
theorem pull_nowait (cfg : Cfg) (u : Nat) : ∀ (q : List Nat) (s : St), s.queue = q → s.rcvBusy = false → s.vres = none →
    s.dispSet = false →
    (runEvs cfg s (List.replicate q.length (.callRecvNowait u))).trace = s.trace ++ q.map (fun n => Obs.ret u (.msg n)) ∧
    (runEvs cfg s (List.replicate q.length (.callRecvNowait u))).queue = [] ∧
    (runEvs cfg s (List.replicate q.length (.callRecvNowait u))).gone = s.gone ++ q.map (fun n => (n, true)) ∧
    (runEvs cfg s (List.replicate q.length (.callRecvNowait u))).buf = s.buf ∧
    (runEvs cfg s (List.replicate q.length (.callRecvNowait u))).closed = s.closed := by
  intro q
  induction q with
  | nil => intro s hq _ _ _; simp [runEvs, hq]
  | cons n q ih =>
    intro s hq hb hv hd
    have e : step cfg s (.callRecvNowait u) = ({ s with queue := q, gone := s.gone ++ [(n, true)] } : St).emit (.ret u (.msg n)) := by
      simp [step, hb, hv, hd, hq]
    have e2 : runEvs cfg s (List.replicate (n :: q).length (.callRecvNowait u)) =
        runEvs cfg (step cfg s (.callRecvNowait u)) (List.replicate q.length (.callRecvNowait u)) := rfl
    rw [e2, e]
    obtain ⟨t1, q1, g1, b1, c1⟩ := ih (({ s with queue := q, gone := s.gone ++ [(n, true)] } : St).emit (.ret u (.msg n))) rfl hb hv hd
    refine ⟨?_, q1, ?_, b1, c1⟩
    · rw [t1]; simp [St.emit]
    · rw [g1]; simp [St.emit]

end NasdaqModel.Sess
