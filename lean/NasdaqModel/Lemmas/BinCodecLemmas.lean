import NasdaqModel.Lemmas.PyLemmas
import NasdaqModel.Spec.Layout
/-
Lemmas for the binary codec model (C01 / C02): Python slices, integer packing, text, and the mutual inductions over
`Ty` / `Flds` that carry the property theorems.
-/
namespace NasdaqModel.BinCodec
open NasdaqModel Py Spec.Layout

/-! ### bind inversion -/

theorem bind_ok_inv {α β : Type} {x : Except Err α} {f : α → Except Err β} {b : β}
    (h : (x >>= f) = .ok b) : ∃ a, x = .ok a ∧ f a = .ok b := by
  cases x with
  | ok a => exact ⟨a, rfl, by simpa using h⟩
  | error e => simp at h

/-! ### slices -/

theorem pyIdx_natCast (len n : Nat) : pyIdx len (n : Int) = min n len := by
  unfold pyIdx
  have : ¬ ((n : Int) < 0) := by omega
  simp [this]

theorem sliceFromI_natCast {α : Type} (l : List α) (n : Nat) : sliceFromI l (n : Int) = l.drop n := by
  unfold sliceFromI
  rw [pyIdx_natCast]
  by_cases h : n ≤ l.length
  · rw [Nat.min_eq_left h]
  · have h' : l.length ≤ n := by omega
    rw [Nat.min_eq_right h', List.drop_of_length_le h', List.drop_of_length_le (Nat.le_refl _)]

theorem sliceFromI_append_length {α : Type} (pre rest : List α) :
    sliceFromI (pre ++ rest) (pre.length : Int) = rest := by
  rw [sliceFromI_natCast]; simp

theorem sliceFromI_zero {α : Type} (l : List α) : sliceFromI l 0 = l := by
  have := sliceFromI_natCast l 0
  simpa using this

theorem sliceFromI_one_cons {α : Type} (a : α) (l : List α) : sliceFromI (a :: l) 1 = l := by
  have := sliceFromI_natCast (a :: l) 1
  simpa using this

/-- the slice `data[2:2+len]` of `lenbytes ++ text ++ tail` -/
theorem sliceI_prefix_text {α : Type} (lb cs tail : List α) (h : lb.length = 2) :
    sliceI (lb ++ cs ++ tail) 2 (2 + (cs.length : Int)) = cs := by
  unfold sliceI
  have e1 : (2 : Int) = ((2 : Nat) : Int) := rfl
  have e2 : (2 : Int) + (cs.length : Int) = ((2 + cs.length : Nat) : Int) := by omega
  rw [e2, pyIdx_natCast, e1, pyIdx_natCast]
  have hl : (lb ++ cs ++ tail).length = 2 + cs.length + tail.length := by simp [h]; omega
  rw [hl, Nat.min_eq_left (by omega), Nat.min_eq_left (by omega)]
  have : (lb ++ cs ++ tail).take (2 + cs.length) = lb ++ cs := by
    rw [List.append_assoc, ← List.append_assoc lb cs tail]
    rw [List.take_append_of_le_length (by simp [h])]
    rw [List.take_of_length_le (by simp [h])]
  rw [this, ← h]
  simp

/-! ### integers -/

theorem leBytes_length : ∀ (n u : Nat), (leBytes n u).length = n
  | 0, _ => rfl
  | n + 1, u => by simp [leBytes, leBytes_length n]

theorem leVal_leBytes : ∀ (n u : Nat), u < 256 ^ n → leVal (leBytes n u) = u
  | 0, u, h => by
      have : u = 0 := by simpa using h
      simp [leBytes, leVal, this]
  | n + 1, u, h => by
      have h' : u / 256 < 256 ^ n := by
        rw [Nat.pow_succ] at h
        exact Nat.div_lt_of_lt_mul (by rw [Nat.mul_comm]; exact h)
      simp only [leBytes, leVal, leVal_leBytes n (u / 256) h']
      omega

theorem leBytes_eq_map : ∀ (n u : Nat), leBytes n u = (List.range n).map (fun k => u / 256 ^ k % 256)
  | 0, _ => rfl
  | n + 1, u => by
      rw [List.range_succ_eq_map, List.map_cons, List.map_map]
      simp only [leBytes, leBytes_eq_map n (u / 256), Nat.pow_zero, Nat.div_one]
      congr 1
      apply List.map_congr_left
      intro k _
      simp only [Function.comp, Nat.pow_succ]
      rw [Nat.div_div_eq_div_mul, Nat.mul_comm]

theorem pow256_pos (s : Nat) : 0 < 256 ^ s := Nat.pow_pos (by decide)

theorem pow256_even (s : Nat) (h : 0 < s) : 256 ^ s % 2 = 0 := by
  cases s with
  | zero => omega
  | succ n => rw [Nat.pow_succ]; omega

theorem intInRange_unsigned {s : Nat} {v : Int} (h : intInRange s false v = true) :
    0 ≤ v ∧ v < ((256 ^ s : Nat) : Int) := by
  simpa [intInRange] using h

theorem intInRange_signed {s : Nat} {v : Int} (h : intInRange s true v = true) :
    -((256 ^ s / 2 : Nat) : Int) ≤ v ∧ v < ((256 ^ s / 2 : Nat) : Int) := by
  simpa [intInRange] using h

/-- the two's complement residue of an in-range value -/
theorem residue_of_inRange {s : Nat} {sg : Bool} {v : Int} (h : intInRange s sg v = true) :
    ((v % ((256 ^ s : Nat) : Int)).toNat : Int) = (if v < 0 then v + ((256 ^ s : Nat) : Int) else v)
    ∧ (v % ((256 ^ s : Nat) : Int)).toNat < 256 ^ s := by
  have hpos := pow256_pos s
  have hrange : -((256 ^ s : Nat) : Int) ≤ v ∧ v < ((256 ^ s : Nat) : Int) := by
    cases sg with
    | false => have := intInRange_unsigned h; omega
    | true => have := intInRange_signed h; omega
  generalize 256 ^ s = H at *
  have hH0 : (0 : Int) < (H : Int) := by omega
  by_cases hv : v < 0
  · have e : v % (H : Int) = v + H := by
      have : (v + (H : Int)) % (H : Int) = v % (H : Int) := Int.add_emod_right ..
      rw [← this]
      exact Int.emod_eq_of_lt (by omega) (by omega)
    rw [e, if_pos hv]
    constructor
    · omega
    · omega
  · have e : v % (H : Int) = v := Int.emod_eq_of_lt (by omega) hrange.2
    rw [e, if_neg hv]
    constructor
    · omega
    · omega

theorem intToBytes_ok {s : Nat} {sg : Bool} (be : Bool) {v : Int} (h : intInRange s sg v = true) :
    intToBytes s sg be v =
      .ok (if be then (leBytes s (v % ((256 ^ s : Nat) : Int)).toNat).reverse else leBytes s (v % ((256 ^ s : Nat) : Int)).toNat) := by
  unfold intToBytes
  rw [if_pos h]

theorem intToBytes_length {s : Nat} {sg be : Bool} {v : Int} {bs : Bytes} (h : intToBytes s sg be v = .ok bs) :
    bs.length = s := by
  unfold intToBytes at h
  split at h
  · cases be <;> simp at h <;> subst h <;> simp [leBytes_length]
  · simp at h

/-- `int.from_bytes(v.to_bytes(...)) = v`, also when other bytes follow the `s` that are read -/
theorem intFromBytes_intToBytes {s : Nat} {sg be : Bool} {v : Int} {bs : Bytes}
    (h : intInRange s sg v = true) (hb : intToBytes s sg be v = .ok bs) : intFromBytes sg be bs = v := by
  have hlen := intToBytes_length hb
  rw [intToBytes_ok be h] at hb
  obtain ⟨hres, hlt⟩ := residue_of_inRange h
  generalize hu : (v % ((256 ^ s : Nat) : Int)).toNat = u at *
  have hval : leVal (if be then bs.reverse else bs) = u := by
    cases be with
    | false => simp at hb; subst hb; exact leVal_leBytes s u hlt
    | true => simp at hb; subst hb; simp [leVal_leBytes s u hlt]
  unfold intFromBytes
  simp only [hval, hlen]
  have hpos := pow256_pos s
  cases sg with
  | false =>
    have := intInRange_unsigned h
    simp
    omega
  | true =>
    have hr := intInRange_signed h
    have hs : 0 < s := by
      cases s with
      | zero => simp at hr; omega
      | succ n => omega
    have hev := pow256_even s hs
    generalize 256 ^ s = H at *
    by_cases hv : v < 0
    · rw [if_pos hv] at hres
      have : H ≤ 2 * u := by omega
      simp [this]
      omega
    · rw [if_neg hv] at hres
      have : ¬ (H ≤ 2 * u) := by omega
      simp [this]
      omega

/-! ### integer layout (documented, digit-wise) = `int.to_bytes` -/

theorem two_pow_8 (w : Nat) : 2 ^ (8 * w) = 256 ^ w := by
  rw [show (256 : Nat) = 2 ^ 8 from rfl, ← Nat.pow_mul]

theorem intLayout_eq {s : Nat} {sg : Bool} (be : Bool) {v : Int} (h : intInRange s sg v = true) :
    intToBytes s sg be v = .ok (intLayout s be v) := by
  rw [intToBytes_ok be h]
  unfold intLayout intByte
  simp only [two_pow_8]
  rw [leBytes_eq_map]

theorem intLayout_length (s : Nat) (be : Bool) (v : Int) : (intLayout s be v).length = s := by
  unfold intLayout
  cases be <;> simp

/-! ### text -/

theorem all_lt_of_inCharset {iso : Bool} {cs : Str} (h : inCharset iso cs = true) :
    cs.all (fun c => decide (c < (if iso then 256 else 128))) = true := h

theorem encodeCs_ok {iso : Bool} {cs : Str} (h : inCharset iso cs = true) : encodeCs iso cs = .ok cs := by
  unfold inCharset at h
  cases iso with
  | true =>
    have : cs.all (· < 256) = true := by simpa using h
    simp [encodeCs, encodeIso, this]
  | false =>
    have : cs.all (· < 128) = true := by simpa using h
    simp [encodeCs, encodeAscii, this]

theorem decodeCs_ok {iso : Bool} {cs : Str} (h : inCharset iso cs = true) : decodeCs iso cs = .ok cs := by
  unfold inCharset at h
  cases iso with
  | true => simp [decodeCs, decodeIso]
  | false =>
    have : cs.all (· < 128) = true := by simpa using h
    simp [decodeCs, decodeAscii, this]

/-- whatever `encode` accepted, came out unchanged (one byte per code point) -/
theorem encodeCs_eq {iso : Bool} {cs : Str} {b : Bytes} (h : encodeCs iso cs = .ok b) : b = cs := by
  unfold encodeCs encodeIso encodeAscii at h
  cases iso <;> simp at h <;> (split at h <;> simp at h) <;> exact h.symm

theorem inCharset_append {iso : Bool} {a b : Str} : inCharset iso (a ++ b) = (inCharset iso a && inCharset iso b) := by
  simp [inCharset, List.all_append]

theorem inCharset_spaces (iso : Bool) (k : Nat) : inCharset iso (List.replicate k 32) = true := by
  cases iso <;> simp [inCharset, List.all_replicate]

theorem inCharset_take {iso : Bool} {cs : Str} (k : Nat) (h : inCharset iso cs = true) : inCharset iso (cs.take k) = true := by
  unfold inCharset at *
  rw [List.all_eq_true] at *
  intro x hx
  exact h x (List.mem_of_mem_take hx)

theorem edgeClean_eq (cs : Str) : edgeClean cs = edgeOk (fun c => c == 32) cs := rfl

/-- left padding with a strippable character is undone by `strip` -/
theorem stripBy_replicate_append {p : Nat → Bool} {s : List Nat} {c : Nat} (k : Nat)
    (h : edgeOk p s = true) (hc : p c = true) : stripBy p (List.replicate k c ++ s) = s := by
  unfold stripBy
  rw [dropWhile_replicate_append hc]
  unfold edgeOk at h
  simp only [Bool.and_eq_true] at h
  rw [dropWhile_eq_self_of_head h.1]
  rw [dropWhile_eq_self_of_head (by rw [List.head?_reverse]; exact h.2)]
  simp

theorem stripSp_rjust {s : Str} (n : Nat) (h : edgeOk (fun c => c == 32) s = true) :
    stripBy (fun c => c == 32) (rjust s n) = s := by
  unfold rjust
  exact stripBy_replicate_append _ h (by decide)

theorem stripSp_ljust {s : Str} (n : Nat) (h : edgeOk (fun c => c == 32) s = true) :
    stripBy (fun c => c == 32) (ljust s n) = s := by
  unfold ljust
  exact stripBy_append_replicate _ h (by decide)

theorem take_self_of_length {α : Type} (l : List α) (n : Nat) (h : l.length = n) : l.take n = l :=
  List.take_of_length_le (by omega)

theorem ljust_length {s : Str} {n : Nat} (h : s.length ≤ n) : (ljust s n).length = n := by
  simp [ljust]; omega

theorem rjust_length {s : Str} {n : Nat} (h : s.length ≤ n) : (rjust s n).length = n := by
  simp [rjust]; omega

/-! ### uniform equations for arrays (the element codec is that of `elemTy elem`) -/

theorem encode_arr (e : Ty) (cs : Nat) (csg cbe : Bool) (v : Val) :
    encode (.arr e cs csg cbe) v = encArr (fun x => encode (elemTy e) x) cs csg cbe v := by
  cases e <;> simp [encode, elemTy]

theorem decode_arr (e : Ty) (cs : Nat) (csg cbe : Bool) (b : Bytes) :
    decode (.arr e cs csg cbe) b = (do
      let r ← decItemsAt (fun x => decode (elemTy e) x) (intFromBytes csg cbe (b.take cs)).toNat b (cs : Int)
      pure (r.1, .list r.2)) := by
  cases e <;> simp [decode, elemTy]

theorem wf_arr (e : Ty) (cs : Nat) (csg cbe : Bool) (xs : List Val) :
    wf (.arr e cs csg cbe) (.list xs) = (intInRange cs csg (xs.length : Int) && xs.all fun x => wf (elemTy e) x) := by
  cases e <;> simp [wf, elemTy]

theorem wf_arr_not_list (e : Ty) (cs : Nat) (csg cbe : Bool) (v : Val) (h : wf (.arr e cs csg cbe) v = true) :
    ∃ xs, v = .list xs := by
  cases v <;> cases e <;> simp [wf] at h
  all_goals exact ⟨_, rfl⟩

theorem norm_arr (e : Ty) (cs : Nat) (csg cbe : Bool) (xs : List Val) :
    norm (.arr e cs csg cbe) (.list xs) = .list (xs.map fun x => norm (elemTy e) x) := by
  cases e <;> simp [norm, elemTy]

theorem layout_arr (e : Ty) (cs : Nat) (csg cbe : Bool) (xs : List Val) :
    layout (.arr e cs csg cbe) (.list xs) = intLayout cs cbe xs.length ++ (xs.map fun x => layout (elemTy e) x).flatten := by
  cases e <;> simp [layout, elemTy]
  congr 2
  funext x
  cases x <;> simp [layout]

theorem read_arr_nil (e : Ty) (cs : Nat) (csg cbe : Bool) (xs : List Val) :
    read (.arr e cs csg cbe) (.list xs) [] = .len xs.length := by
  cases e <;> simp [read]

theorem read_arr_idx (e : Ty) (cs : Nat) (csg cbe : Bool) (xs : List Val) (i : Nat) (p : List Step) :
    read (.arr e cs csg cbe) (.list xs) (.idx i :: p) =
      (match xs[i]? with
       | some x => read (elemTy e) x p
       | none => .invalid) := by
  cases e <;> cases h : xs[i]? <;> simp [read, elemTy, h]
  rename_i x
  cases x <;> cases p <;> (try rfl)
  rename_i hd tl
  cases hd <;> rfl

theorem read_arr_field (e : Ty) (cs : Nat) (csg cbe : Bool) (xs : List Val) (k : Nat) (p : List Step) :
    read (.arr e cs csg cbe) (.list xs) (.field k :: p) = .invalid := by
  cases e <;> simp [read]

/-! ### induction over `Ty` / `Flds`, with the element type of arrays -/

theorem ty_flds_induction {P : Ty → Prop} {Q : Flds → Prop}
    (hint : ∀ s sg be, P (.int s sg be)) (hbool : P .bool) (hchar : ∀ iso, P (.char iso)) (hstr : ∀ iso, P (.str iso))
    (hfixed : ∀ iso n rj, P (.fixed iso n rj))
    (hrecord : ∀ fs, Q fs → P (.record fs)) (hoptrec : ∀ fs, Q fs → P (.optrec fs))
    (harr : ∀ e cs csg cbe, P e → P (elemTy e) → P (.arr e cs csg cbe))
    (hnil : Q .nil) (hcons : ∀ n t d r, P t → Q r → Q (.cons n t d r)) :
    (∀ t, P t) ∧ (∀ fs, Q fs) := by
  have key : (∀ t, P t ∧ P (elemTy t)) ∧ (∀ fs, Q fs) := by
    constructor
    · intro t
      exact Ty.rec (motive_1 := fun t => P t ∧ P (elemTy t)) (motive_2 := fun fs => Q fs)
        (fun s sg be => ⟨hint s sg be, hint s sg be⟩) ⟨hbool, hbool⟩ (fun iso => ⟨hchar iso, hchar iso⟩)
        (fun iso => ⟨hstr iso, hstr iso⟩) (fun iso n rj => ⟨hfixed iso n rj, hfixed iso n rj⟩)
        (fun fs q => ⟨hrecord fs q, hrecord fs q⟩) (fun fs q => ⟨hoptrec fs q, hrecord fs q⟩)
        (fun e cs csg cbe ih => ⟨harr e cs csg cbe ih.1 ih.2, harr e cs csg cbe ih.1 ih.2⟩)
        hnil (fun n t d r iht ihr => hcons n t d r iht.1 ihr) t
    · intro fs
      exact Flds.rec (motive_1 := fun t => P t ∧ P (elemTy t)) (motive_2 := fun fs => Q fs)
        (fun s sg be => ⟨hint s sg be, hint s sg be⟩) ⟨hbool, hbool⟩ (fun iso => ⟨hchar iso, hchar iso⟩)
        (fun iso => ⟨hstr iso, hstr iso⟩) (fun iso n rj => ⟨hfixed iso n rj, hfixed iso n rj⟩)
        (fun fs q => ⟨hrecord fs q, hrecord fs q⟩) (fun fs q => ⟨hoptrec fs q, hrecord fs q⟩)
        (fun e cs csg cbe ih => ⟨harr e cs csg cbe ih.1 ih.2, harr e cs csg cbe ih.1 ih.2⟩)
        hnil (fun n t d r iht ihr => hcons n t d r iht.1 ihr) fs
  exact ⟨fun t => (key.1 t).1, key.2⟩

/-! ### the field value of the layout spec is `get_field_value` -/

theorem find_eq_lookup (st : Store) (k : Nat) :
    (st.find? (fun kv => kv.1 == k)).map (·.2) = lookup st k := by
  induction st with
  | nil => rfl
  | cons a rest ih =>
    obtain ⟨k', v⟩ := a
    by_cases h : k' = k
    · simp [List.find?, lookup, h]
    · have : (k' == k) = false := by simpa using h
      simp [List.find?, lookup, h, this, ih]

theorem fieldValue_eq_getField (st : Store) (name : Nat) (ty : Ty) (d : Val) :
    fieldValue st name ty d = getField st name ty d := by
  unfold fieldValue getField
  rw [← find_eq_lookup]
  cases h : st.find? (fun kv => kv.1 == name) with
  | some kv => simp
  | none =>
    simp
    cases d <;> cases ty <;> simp [typeDefault]

/-! ### encode = documented layout -/

theorem shortLayout (n : Nat) (h : n ≤ 32767) : intLayout 2 false (n : Int) = [n % 256, n / 256] := by
  unfold intLayout intByte
  have e : (((n : Int) % ((2 ^ (8 * 2) : Nat) : Int)).toNat) = n := by
    have : ((2 ^ (8 * 2) : Nat) : Int) = 65536 := by decide
    rw [this]; omega
  simp only [e]
  simp [List.range_succ]
  omega

theorem short_inRange (n : Nat) (h : n ≤ 32767) : intInRange 2 true (n : Int) = true := by
  have : (256 ^ 2 / 2 : Nat) = 32768 := by decide
  simp [intInRange, this]
  omega

theorem encItems_layout (f : Val → Except Err (Nat × Bytes)) (g : Val → Bytes) :
    ∀ (xs : List Val), (∀ x ∈ xs, f x = .ok ((g x).length, g x)) →
      encItems f xs = .ok (((xs.map g).flatten).length, (xs.map g).flatten)
  | [], _ => rfl
  | x :: xs, h => by
      have h1 := h x (by simp)
      have h2 := encItems_layout f g xs (fun y hy => h y (by simp [hy]))
      simp [encItems, h1, h2]

/-- statement for types -/
def EncLayoutT (t : Ty) : Prop :=
  ∀ v, wf t v = true → encode t v = .ok ((layout t v).length, layout t v)
/-- statement for field lists -/
def EncLayoutF (fs : Flds) : Prop :=
  ∀ st, wfFields fs st = true → encFields fs st = .ok ((layoutFields fs st).length, layoutFields fs st)

theorem encLayout_int (s : Nat) (sg be : Bool) : EncLayoutT (.int s sg be) := by
  intro v h
  cases v <;> simp [wf] at h
  · simp [encode, encInt, intLayout_eq be h, layout, intLayout_length]
  · simp [encode, encInt, intLayout_eq be h, layout, intLayout_length]

theorem encLayout_bool : EncLayoutT .bool := by
  intro v h
  cases v <;> simp [wf] at h
  rename_i b
  cases b <;> simp [encode, truthy, layout, boolByte]

theorem encLayout_char (iso : Bool) : EncLayoutT (.char iso) := by
  intro v h
  cases v <;> simp [wf] at h
  rename_i cs
  obtain ⟨hl, hc⟩ := h
  have ht : ljust (cs.take 1) 1 = cs := by
    rw [List.take_of_length_le (by omega)]; simp [ljust, hl]
  simp [encode, encChar, ht, encodeCs_ok hc, layout, hl]

theorem encLayout_str (iso : Bool) : EncLayoutT (.str iso) := by
  intro v h
  cases v <;> simp [wf] at h
  rename_i cs
  obtain ⟨hl, hc⟩ := h
  have h1 := intLayout_eq false (short_inRange cs.length hl)
  rw [shortLayout cs.length hl] at h1
  simp [encode, encStr, h1, encodeCs_ok hc, layout]
  omega

theorem encLayout_fixed (iso : Bool) (n : Nat) (rj : Bool) : EncLayoutT (.fixed iso n rj) := by
  intro v h
  cases v <;> simp [wf] at h
  rename_i cs
  obtain ⟨⟨hl, hc⟩, _⟩ := h
  cases rj with
  | false =>
    have hp : inCharset iso (ljust cs n) = true := by
      unfold ljust; rw [inCharset_append, hc, inCharset_spaces]; rfl
    have := ljust_length hl
    simp [encode, encFixed, take_self_of_length _ _ this, encodeCs_ok hp, layout]
    unfold ljust at this ⊢
    simp at this ⊢
    omega
  | true =>
    have hp : inCharset iso (rjust cs n) = true := by
      unfold rjust; rw [inCharset_append, hc, inCharset_spaces]; rfl
    have := rjust_length hl
    simp [encode, encFixed, take_self_of_length _ _ this, encodeCs_ok hp, layout]
    unfold rjust at this ⊢
    simp at this ⊢
    omega

theorem isNil_false_of {fs : Flds} (h : (!fs.isNil) = true) : fs.isNil = false := by
  simpa using h

theorem encLayout_record (fs : Flds) (q : EncLayoutF fs) : EncLayoutT (.record fs) := by
  intro v h
  cases v <;> simp [wf] at h
  rename_i st
  cases hnil : fs.isNil with
  | true =>
    cases fs with
    | nil => simp [encode, asStore, Flds.isNil, encFields, layout, layoutFields]
    | cons _ _ _ _ => simp [Flds.isNil] at hnil
  | false => simp [encode, asStore, hnil, q st h, layout]

theorem encLayout_optrec (fs : Flds) (q : EncLayoutF fs) : EncLayoutT (.optrec fs) := by
  intro v h
  cases v with
  | none => simp [encode, layout]
  | recd st =>
    cases st with
    | nil => simp [encode, layout]
    | cons a st =>
      simp [wf] at h
      obtain ⟨hn, hw⟩ := h
      simp [encode, asStore, hn, q _ hw, layout]
      omega
  | _ => simp [wf] at h

theorem encLayout_arr (e : Ty) (cs : Nat) (csg cbe : Bool) (ih : EncLayoutT (elemTy e)) : EncLayoutT (.arr e cs csg cbe) := by
  intro v h
  obtain ⟨xs, rfl⟩ := wf_arr_not_list _ _ _ _ _ h
  rw [wf_arr] at h
  simp only [Bool.and_eq_true, List.all_eq_true] at h
  obtain ⟨hc, hx⟩ := h
  have hitems := encItems_layout (fun x => encode (elemTy e) x) (fun x => layout (elemTy e) x) xs (fun x hxm => ih x (hx x hxm))
  rw [encode_arr, layout_arr]
  simp [encArr, encInt, intLayout_eq cbe hc, hitems, intLayout_length]

theorem encLayout_nil : EncLayoutF .nil := by
  intro st _
  simp [encFields, layoutFields]

theorem encLayout_cons (n : Nat) (t : Ty) (d : Val) (r : Flds) (pt : EncLayoutT t) (qr : EncLayoutF r) :
    EncLayoutF (.cons n t d r) := by
  intro st h
  simp [wfFields] at h
  obtain ⟨⟨h1, _⟩, h3⟩ := h
  simp [encFields, pt _ h1, qr st h3, layoutFields, fieldValue_eq_getField]

theorem encLayout_all : (∀ t, EncLayoutT t) ∧ (∀ fs, EncLayoutF fs) :=
  ty_flds_induction encLayout_int encLayout_bool encLayout_char encLayout_str encLayout_fixed
    encLayout_record encLayout_optrec (fun e cs csg cbe _ ih => encLayout_arr e cs csg cbe ih)
    encLayout_nil encLayout_cons

/-! ### decoding the documented layout -/

theorem take_append_length {α : Type} (a b : List α) (n : Nat) (h : a.length = n) : (a ++ b).take n = a := by
  subst h; simp

theorem intFromBytes_intLayout {s : Nat} {sg : Bool} (be : Bool) {v : Int} (h : intInRange s sg v = true) :
    intFromBytes sg be (intLayout s be v) = v :=
  intFromBytes_intToBytes h (intLayout_eq be h)

theorem decItemsAt_layout (f : Bytes → Except Err (Int × Val)) (g : Val → Bytes) (nrm : Val → Val) :
    ∀ (xs : List Val), (∀ x ∈ xs, ∀ tail, f (g x ++ tail) = .ok (((g x).length : Int), nrm x)) →
      ∀ (pre tail : Bytes),
        decItemsAt f xs.length (pre ++ (xs.map g).flatten ++ tail) (pre.length : Int)
          = .ok ((pre.length : Int) + (((xs.map g).flatten).length : Int), xs.map nrm)
  | [], _, pre, tail => by simp [decItemsAt]
  | x :: xs, h, pre, tail => by
      have h1 := h x (by simp) ((xs.map g).flatten ++ tail)
      have ih := decItemsAt_layout f g nrm xs (fun y hy => h y (by simp [hy])) (pre ++ g x) tail
      have e1 : pre ++ ((x :: xs).map g).flatten ++ tail = pre ++ (g x ++ ((xs.map g).flatten ++ tail)) := by simp
      have e2 : pre ++ (g x ++ ((xs.map g).flatten ++ tail)) = (pre ++ g x) ++ (xs.map g).flatten ++ tail := by simp
      simp only [List.length_cons, decItemsAt]
      rw [e1, sliceFromI_append_length, h1]
      simp only [ok_bind]
      rw [e2]
      have e3 : (pre.length : Int) + ((g x).length : Int) = ((pre ++ g x).length : Int) := by simp
      rw [e3, ih]
      simp
      omega

def DecLayoutT (t : Ty) : Prop :=
  ∀ v, wf t v = true → ∀ tail, decode t (layout t v ++ tail) = .ok (((layout t v).length : Int), norm t v)
def DecLayoutF (fs : Flds) : Prop :=
  ∀ st, wfFields fs st = true → ∀ pre tail,
    decFieldsAt fs (pre ++ layoutFields fs st ++ tail) (pre.length : Int)
      = .ok ((pre.length : Int) + ((layoutFields fs st).length : Int), normFields fs st)

theorem decLayout_int (s : Nat) (sg be : Bool) : DecLayoutT (.int s sg be) := by
  intro v h tail
  cases v <;> simp [wf] at h
  · simp [decode, layout, take_append_length _ _ _ (intLayout_length s be _), intFromBytes_intLayout be h,
      intLayout_length, norm]
  · simp [decode, layout, take_append_length _ _ _ (intLayout_length s be _), intFromBytes_intLayout be h,
      intLayout_length, norm]

theorem decLayout_bool : DecLayoutT .bool := by
  intro v h tail
  cases v <;> simp [wf] at h
  rename_i b
  cases b <;> simp [decode, layout, boolByte, norm, truthy]

theorem decLayout_char (iso : Bool) : DecLayoutT (.char iso) := by
  intro v h tail
  cases v <;> simp [wf] at h
  rename_i cs
  obtain ⟨hl, hc⟩ := h
  simp [decode, layout, take_append_length cs tail 1 hl, decodeCs_ok hc, norm, hl]

theorem decLayout_str (iso : Bool) : DecLayoutT (.str iso) := by
  intro v h tail
  cases v <;> simp [wf] at h
  rename_i cs
  obtain ⟨hl, hc⟩ := h
  have hlen : intFromBytes true false [cs.length % 256, cs.length / 256] = (cs.length : Int) := by
    have := intFromBytes_intLayout false (short_inRange cs.length hl)
    rwa [shortLayout cs.length hl] at this
  have hs := sliceI_prefix_text [cs.length % 256, cs.length / 256] cs tail rfl
  simp only [decode, layout, decStr, norm]
  have ht : ([cs.length % 256, cs.length / 256] ++ cs ++ tail).take 2 = [cs.length % 256, cs.length / 256] := by simp
  rw [ht, hlen, hs, decodeCs_ok hc]
  simp
  omega

theorem decLayout_fixed (iso : Bool) (n : Nat) (rj : Bool) : DecLayoutT (.fixed iso n rj) := by
  intro v h tail
  cases v <;> simp [wf] at h
  rename_i cs
  obtain ⟨⟨hl, hc⟩, he⟩ := h
  rw [edgeClean_eq] at he
  cases rj with
  | false =>
    have hp : inCharset iso (ljust cs n) = true := by
      unfold ljust; rw [inCharset_append, hc, inCharset_spaces]; rfl
    have hlen := ljust_length hl
    have hlay : layout (.fixed iso n false) (.str cs) = ljust cs n := by simp [layout, ljust]
    rw [hlay]
    simp only [decode, norm]
    rw [take_append_length _ _ _ hlen, decodeCs_ok hp, hlen]
    simp [stripSp_ljust n he]
  | true =>
    have hp : inCharset iso (rjust cs n) = true := by
      unfold rjust; rw [inCharset_append, hc, inCharset_spaces]; rfl
    have hlen := rjust_length hl
    have hlay : layout (.fixed iso n true) (.str cs) = rjust cs n := by simp [layout, rjust]
    rw [hlay]
    simp only [decode, norm]
    rw [take_append_length _ _ _ hlen, decodeCs_ok hp, hlen]
    simp [stripSp_rjust n he]

theorem decLayout_record (fs : Flds) (q : DecLayoutF fs) : DecLayoutT (.record fs) := by
  intro v h tail
  cases v <;> simp [wf] at h
  rename_i st
  have := q st h [] tail
  simp at this
  simp [decode, layout, this, norm]

theorem decLayout_optrec (fs : Flds) (q : DecLayoutF fs) : DecLayoutT (.optrec fs) := by
  intro v h tail
  cases v with
  | none => simp [decode, layout, norm]
  | recd st =>
    cases st with
    | nil => simp [decode, layout, norm]
    | cons a st =>
      simp [wf] at h
      obtain ⟨_, hw⟩ := h
      have := q _ hw [] tail
      simp at this
      simp [decode, layout, norm, sliceFromI_one_cons, this]
      omega
  | _ => simp [wf] at h

theorem decLayout_arr (e : Ty) (cs : Nat) (csg cbe : Bool) (ih : DecLayoutT (elemTy e)) : DecLayoutT (.arr e cs csg cbe) := by
  intro v h tail
  obtain ⟨xs, rfl⟩ := wf_arr_not_list _ _ _ _ _ h
  rw [wf_arr] at h
  simp only [Bool.and_eq_true, List.all_eq_true] at h
  obtain ⟨hc, hx⟩ := h
  have hitems := decItemsAt_layout (fun x => decode (elemTy e) x) (fun x => layout (elemTy e) x) (fun x => norm (elemTy e) x)
    xs (fun x hxm tl => ih x (hx x hxm) tl) (intLayout cs cbe xs.length) tail
  rw [decode_arr, layout_arr, norm_arr]
  have ht : (intLayout cs cbe (xs.length : Int) ++ (xs.map fun x => layout (elemTy e) x).flatten ++ tail).take cs
      = intLayout cs cbe (xs.length : Int) := by
    rw [List.append_assoc]; exact take_append_length _ _ _ (intLayout_length cs cbe _)
  rw [ht, intFromBytes_intLayout cbe hc]
  rw [intLayout_length] at hitems
  simp only [Int.toNat_natCast]
  rw [hitems]
  simp [intLayout_length]

theorem decLayout_nil : DecLayoutF .nil := by
  intro st _ pre tail
  simp [decFieldsAt, layoutFields, normFields]

theorem decLayout_cons (n : Nat) (t : Ty) (d : Val) (r : Flds) (pt : DecLayoutT t) (qr : DecLayoutF r) :
    DecLayoutF (.cons n t d r) := by
  intro st h pre tail
  simp [wfFields] at h
  obtain ⟨⟨h1, _⟩, h3⟩ := h
  have a1 := pt _ h1 (layoutFields r st ++ tail)
  have a2 := qr st h3 (pre ++ layout t (getField st n t d)) tail
  simp only [decFieldsAt, layoutFields, normFields, fieldValue_eq_getField]
  have e1 : pre ++ (layout t (getField st n t d) ++ layoutFields r st) ++ tail
      = pre ++ (layout t (getField st n t d) ++ (layoutFields r st ++ tail)) := by simp
  have e2 : pre ++ (layout t (getField st n t d) ++ (layoutFields r st ++ tail))
      = (pre ++ layout t (getField st n t d)) ++ layoutFields r st ++ tail := by simp
  rw [e1, sliceFromI_append_length, a1]
  simp only [ok_bind]
  rw [e2]
  have e3 : (pre.length : Int) + ((layout t (getField st n t d)).length : Int)
      = ((pre ++ layout t (getField st n t d)).length : Int) := by simp
  rw [e3, a2]
  simp
  omega

theorem decLayout_all : (∀ t, DecLayoutT t) ∧ (∀ fs, DecLayoutF fs) :=
  ty_flds_induction decLayout_int decLayout_bool decLayout_char decLayout_str decLayout_fixed
    decLayout_record decLayout_optrec (fun e cs csg cbe _ ih => decLayout_arr e cs csg cbe ih)
    decLayout_nil decLayout_cons

/-! ### stores that agree on the fields of a record are interchangeable -/

theorem flds_induction {Q : Flds → Prop} (hnil : Q .nil) (hcons : ∀ n t d r, Q r → Q (.cons n t d r)) : ∀ fs, Q fs :=
  (ty_flds_induction (P := fun _ => True) (Q := Q) (fun _ _ _ => trivial) trivial (fun _ => trivial) (fun _ => trivial)
    (fun _ _ _ => trivial) (fun _ _ => trivial) (fun _ _ => trivial) (fun _ _ _ _ _ _ => trivial)
    hnil (fun n t d r _ q => hcons n t d r q)).2

theorem getField_congr {st1 st2 : Store} (name : Nat) (ty : Ty) (d : Val) (h : lookup st1 name = lookup st2 name) :
    getField st1 name ty d = getField st2 name ty d := by
  unfold getField; rw [h]

theorem lookup_cons_self (k : Nat) (x : Val) (st : Store) : lookup ((k, x) :: st) k = some x := by
  simp [lookup]

theorem lookup_cons_ne {k k' : Nat} (x : Val) (st : Store) (h : k ≠ k') : lookup ((k, x) :: st) k' = lookup st k' := by
  simp [lookup, h]

theorem getField_cons_self (k : Nat) (x : Val) (st : Store) (ty : Ty) (d : Val) : getField ((k, x) :: st) k ty d = x := by
  simp [getField, lookup_cons_self]

theorem hasName_cons (n : Nat) (t : Ty) (d : Val) (r : Flds) (k : Nat) :
    (Flds.cons n t d r).hasName k = (n == k || r.hasName k) := rfl

def StoreAgree (fs : Flds) (st1 st2 : Store) : Prop := ∀ k, fs.hasName k = true → lookup st1 k = lookup st2 k

theorem StoreAgree.tail {n : Nat} {t : Ty} {d : Val} {r : Flds} {st1 st2 : Store}
    (h : StoreAgree (.cons n t d r) st1 st2) : StoreAgree r st1 st2 :=
  fun k hk => h k (by simp [hasName_cons, hk])

theorem StoreAgree.head {n : Nat} {t : Ty} {d : Val} {r : Flds} {st1 st2 : Store}
    (h : StoreAgree (.cons n t d r) st1 st2) : lookup st1 n = lookup st2 n :=
  h n (by simp [hasName_cons])

/-- an extra entry under a name that is not a field changes nothing -/
theorem storeAgree_cons {r : Flds} {n : Nat} (x : Val) (st : Store) (h : r.hasName n = false) :
    StoreAgree r ((n, x) :: st) st := by
  intro k hk
  have : n ≠ k := by
    intro e; subst e; rw [h] at hk; exact absurd hk (by simp)
  exact lookup_cons_ne x st this

theorem wfFields_congr : ∀ fs st1 st2, StoreAgree fs st1 st2 → wfFields fs st1 = wfFields fs st2 :=
  flds_induction (Q := fun fs => ∀ st1 st2, StoreAgree fs st1 st2 → wfFields fs st1 = wfFields fs st2)
    (fun _ _ _ => rfl)
    (fun n t d r ih st1 st2 h => by
      simp only [wfFields]
      rw [getField_congr n t d h.head, ih st1 st2 h.tail])

theorem layoutFields_congr : ∀ fs st1 st2, StoreAgree fs st1 st2 → layoutFields fs st1 = layoutFields fs st2 :=
  flds_induction (Q := fun fs => ∀ st1 st2, StoreAgree fs st1 st2 → layoutFields fs st1 = layoutFields fs st2)
    (fun _ _ _ => rfl)
    (fun n t d r ih st1 st2 h => by
      simp only [layoutFields, fieldValue_eq_getField]
      rw [getField_congr n t d h.head, ih st1 st2 h.tail])

theorem readField_congr : ∀ fs st1 st2, StoreAgree fs st1 st2 → ∀ k p, readField fs st1 k p = readField fs st2 k p :=
  flds_induction (Q := fun fs => ∀ st1 st2, StoreAgree fs st1 st2 → ∀ k p, readField fs st1 k p = readField fs st2 k p)
    (fun _ _ _ _ _ => rfl)
    (fun n t d r ih st1 st2 h k p => by
      simp only [readField]
      rw [getField_congr n t d h.head, ih st1 st2 h.tail])

/-! ### the decoded value is again in the domain, has the same layout, and is a fixed point of `norm` -/

def NormT (t : Ty) : Prop :=
  ∀ v, wf t v = true → wf t (norm t v) = true ∧ layout t (norm t v) = layout t v
def NormF (fs : Flds) : Prop :=
  ∀ st, wfFields fs st = true →
    wfFields fs (normFields fs st) = true ∧ layoutFields fs (normFields fs st) = layoutFields fs st

theorem normT_int (s : Nat) (sg be : Bool) : NormT (.int s sg be) := by
  intro v h
  cases v <;> simp [wf] at h
  · simp [norm, wf, h]
  · simp [norm, wf, h, layout]

theorem normT_bool : NormT .bool := by
  intro v h
  cases v <;> simp [wf] at h
  simp [norm, wf, truthy]

theorem normT_char (iso : Bool) : NormT (.char iso) := by
  intro v h; simp [norm, h]
theorem normT_str (iso : Bool) : NormT (.str iso) := by
  intro v h; simp [norm, h]
theorem normT_fixed (iso : Bool) (n : Nat) (rj : Bool) : NormT (.fixed iso n rj) := by
  intro v h; simp [norm, h]

theorem normT_record (fs : Flds) (q : NormF fs) : NormT (.record fs) := by
  intro v h
  cases v <;> simp [wf] at h
  rename_i st
  obtain ⟨q1, q2⟩ := q st h
  simp [norm, wf, q1, layout, q2]

theorem normFields_cons_ne_nil (n : Nat) (t : Ty) (d : Val) (r : Flds) (st : Store) :
    ∃ y ys, normFields (.cons n t d r) st = y :: ys := ⟨_, _, rfl⟩

theorem normT_optrec (fs : Flds) (q : NormF fs) : NormT (.optrec fs) := by
  intro v h
  cases v with
  | none => simp [norm, wf]
  | recd st =>
    cases st with
    | nil => simp [norm, wf, layout]
    | cons a st =>
      simp [wf] at h
      obtain ⟨hn, hw⟩ := h
      obtain ⟨q1, q2⟩ := q _ hw
      cases fs with
      | nil => simp [Flds.isNil] at hn
      | cons n t d r =>
        obtain ⟨y, ys, hy⟩ := normFields_cons_ne_nil n t d r (a :: st)
        simp only [norm]
        rw [hy] at q1 q2 ⊢
        simp [wf, Flds.isNil, q1, layout, q2]
  | _ => simp [wf] at h

theorem normT_arr (e : Ty) (cs : Nat) (csg cbe : Bool) (ih : NormT (elemTy e)) : NormT (.arr e cs csg cbe) := by
  intro v h
  obtain ⟨xs, rfl⟩ := wf_arr_not_list _ _ _ _ _ h
  rw [wf_arr] at h
  simp only [Bool.and_eq_true, List.all_eq_true] at h
  obtain ⟨hc, hx⟩ := h
  rw [norm_arr, wf_arr, layout_arr, layout_arr]
  constructor
  · simp only [Bool.and_eq_true, List.all_eq_true, List.length_map]
    refine ⟨hc, ?_⟩
    intro y hy
    rw [List.mem_map] at hy
    obtain ⟨x, hxm, rfl⟩ := hy
    exact (ih x (hx x hxm)).1
  · simp only [List.length_map, List.map_map]
    congr 2
    apply List.map_congr_left
    intro x hxm
    exact (ih x (hx x hxm)).2

theorem normF_nil : NormF .nil := by
  intro st _
  simp [wfFields, layoutFields]

theorem normF_cons (n : Nat) (t : Ty) (d : Val) (r : Flds) (pt : NormT t) (qr : NormF r) : NormF (.cons n t d r) := by
  intro st h
  simp [wfFields] at h
  obtain ⟨⟨h1, h2⟩, h3⟩ := h
  obtain ⟨p1, p2⟩ := pt _ h1
  obtain ⟨q1, q2⟩ := qr st h3
  have hag := storeAgree_cons (norm t (getField st n t d)) (normFields r st) h2
  simp only [normFields, wfFields, layoutFields, fieldValue_eq_getField, getField_cons_self]
  rw [wfFields_congr r _ _ hag, layoutFields_congr r _ _ hag]
  simp [p1, p2, h2, q1, q2]

theorem norm_all : (∀ t, NormT t) ∧ (∀ fs, NormF fs) :=
  ty_flds_induction normT_int normT_bool normT_char normT_str normT_fixed
    normT_record normT_optrec (fun e cs csg cbe _ ih => normT_arr e cs csg cbe ih)
    normF_nil normF_cons

/-! ### reading the decoded value through the typed attributes -/

def ReadT (t : Ty) : Prop := ∀ v, wf t v = true → ∀ p, read t (norm t v) p = read t v p
def ReadF (fs : Flds) : Prop :=
  ∀ st, wfFields fs st = true → ∀ k p, readField fs (normFields fs st) k p = readField fs st k p

theorem readT_int (s : Nat) (sg be : Bool) : ReadT (.int s sg be) := by
  intro v h p
  cases v <;> simp [wf] at h
  · simp [norm]
  · cases p <;> simp [norm, read]

theorem readT_bool : ReadT .bool := by
  intro v h p
  cases v <;> simp [wf] at h
  simp [norm, truthy]

theorem readT_char (iso : Bool) : ReadT (.char iso) := by
  intro v h p; simp [norm]
theorem readT_str (iso : Bool) : ReadT (.str iso) := by
  intro v h p; simp [norm]
theorem readT_fixed (iso : Bool) (n : Nat) (rj : Bool) : ReadT (.fixed iso n rj) := by
  intro v h p; simp [norm]

theorem readT_record (fs : Flds) (q : ReadF fs) : ReadT (.record fs) := by
  intro v h p
  cases v <;> simp [wf] at h
  rename_i st
  cases p with
  | nil => simp [norm, read]
  | cons hd tl =>
    cases hd with
    | field k => simp [norm, read, q st h k tl]
    | idx i => simp [norm, read]

theorem readT_optrec (fs : Flds) (q : ReadF fs) : ReadT (.optrec fs) := by
  intro v h p
  cases v with
  | none => simp [norm]
  | recd st =>
    cases st with
    | nil => simp [norm, read]
    | cons a st =>
      simp [wf] at h
      obtain ⟨hn, hw⟩ := h
      cases fs with
      | nil => simp [Flds.isNil] at hn
      | cons n t d r =>
        obtain ⟨y, ys, hy⟩ := normFields_cons_ne_nil n t d r (a :: st)
        have hq := q _ hw
        simp only [norm]
        rw [hy] at hq ⊢
        cases p with
        | nil => simp [read]
        | cons hd tl =>
          cases hd with
          | field k => simp [read, hq k tl]
          | idx i => simp [read]
  | _ => simp [wf] at h

theorem readT_arr (e : Ty) (cs : Nat) (csg cbe : Bool) (ih : ReadT (elemTy e)) : ReadT (.arr e cs csg cbe) := by
  intro v h p
  obtain ⟨xs, rfl⟩ := wf_arr_not_list _ _ _ _ _ h
  rw [wf_arr] at h
  simp only [Bool.and_eq_true, List.all_eq_true] at h
  obtain ⟨_, hx⟩ := h
  rw [norm_arr]
  cases p with
  | nil => simp [read_arr_nil]
  | cons hd tl =>
    cases hd with
    | field k => simp [read_arr_field]
    | idx i =>
      rw [read_arr_idx, read_arr_idx, List.getElem?_map]
      cases hxi : xs[i]? with
      | none => simp
      | some x =>
        have hmem : x ∈ xs := List.mem_of_getElem? hxi
        simp [ih x (hx x hmem) tl]

theorem readF_nil : ReadF .nil := by
  intro st _ k p
  simp [readField]

theorem readF_cons (n : Nat) (t : Ty) (d : Val) (r : Flds) (pt : ReadT t) (qr : ReadF r) : ReadF (.cons n t d r) := by
  intro st h k p
  simp [wfFields] at h
  obtain ⟨⟨h1, h2⟩, h3⟩ := h
  have hag := storeAgree_cons (norm t (getField st n t d)) (normFields r st) h2
  simp only [normFields, readField, getField_cons_self]
  rw [readField_congr r _ _ hag, pt _ h1 p, qr st h3 k p]

theorem read_all : (∀ t, ReadT t) ∧ (∀ fs, ReadF fs) :=
  ty_flds_induction readT_int readT_bool readT_char readT_str readT_fixed
    readT_record readT_optrec (fun e cs csg cbe _ ih => readT_arr e cs csg cbe ih)
    readF_nil readF_cons

/-! ### the reported length is the number of bytes, for every value that encodes at all -/

theorem bind_eq_ok {α β : Type} {x : Except Err α} {f : α → Except Err β} {b : β} :
    (x >>= f) = .ok b ↔ ∃ a, x = .ok a ∧ f a = .ok b := by
  constructor
  · exact bind_ok_inv
  · rintro ⟨a, rfl, h⟩; simpa using h

theorem encItems_len (f : Val → Except Err (Nat × Bytes)) :
    ∀ (xs : List Val), (∀ x ∈ xs, ∀ n bs, f x = .ok (n, bs) → n = bs.length) →
      ∀ n bs, encItems f xs = .ok (n, bs) → n = bs.length
  | [], _, n, bs, h => by
      simp [encItems] at h
      obtain ⟨rfl, rfl⟩ := h; rfl
  | x :: xs, hx, n, bs, h => by
      simp only [encItems, bind_eq_ok, pure_eq_ok] at h
      obtain ⟨⟨n1, b1⟩, h1, ⟨n2, b2⟩, h2, h3⟩ := h
      have e1 := hx x (by simp) n1 b1 h1
      have e2 := encItems_len f xs (fun y hy => hx y (by simp [hy])) n2 b2 h2
      simp at h3
      obtain ⟨rfl, rfl⟩ := h3
      simp [e1, e2]

def LenT (t : Ty) : Prop := ∀ v n bs, encode t v = .ok (n, bs) → n = bs.length
def LenF (fs : Flds) : Prop := ∀ st n bs, encFields fs st = .ok (n, bs) → n = bs.length

theorem encInt_len {s : Nat} {sg be : Bool} {v : Val} {n : Nat} {bs : Bytes} (h : encInt s sg be v = .ok (n, bs)) :
    n = bs.length := by
  cases v <;> simp [encInt, bind_eq_ok] at h
  all_goals
    obtain ⟨hb, rfl⟩ := h
    exact (intToBytes_length hb).symm

theorem lenT_int (s : Nat) (sg be : Bool) : LenT (.int s sg be) := by
  intro v n bs h
  simp only [encode] at h
  exact encInt_len h

theorem lenT_bool : LenT .bool := by
  intro v n bs h
  simp [encode] at h
  obtain ⟨rfl, rfl⟩ := h; rfl

theorem lenT_char (iso : Bool) : LenT (.char iso) := by
  intro v n bs h
  cases v <;> simp [encode, encChar, bind_eq_ok] at h
  rename_i cs
  obtain ⟨hb, rfl⟩ := h
  have := encodeCs_eq hb
  subst this
  cases cs with
  | nil => simp [ljust]
  | cons c r => simp [ljust]

theorem lenT_str (iso : Bool) : LenT (.str iso) := by
  intro v n bs h
  cases v <;> simp [encode, encStr, bind_eq_ok] at h
  rename_i cs
  obtain ⟨lb, hlb, b, hb, rfl, rfl⟩ := h
  have := encodeCs_eq hb
  subst this
  simp [intToBytes_length hlb]

theorem lenT_fixed (iso : Bool) (k : Nat) (rj : Bool) : LenT (.fixed iso k rj) := by
  intro v n bs h
  cases v <;> simp [encode, encFixed, bind_eq_ok] at h
  rename_i cs
  obtain ⟨hb, rfl⟩ := h
  have := encodeCs_eq hb
  subst this
  cases rj
  · simp [ljust]; omega
  · simp [rjust]; omega

theorem lenT_record (fs : Flds) (q : LenF fs) : LenT (.record fs) := by
  intro v n bs h
  simp only [encode, bind_eq_ok] at h
  obtain ⟨st, _, h⟩ := h
  exact q st n bs h

theorem lenT_optrec (fs : Flds) (q : LenF fs) : LenT (.optrec fs) := by
  intro v n bs h
  cases v with
  | none => simp [encode] at h; obtain ⟨rfl, rfl⟩ := h; rfl
  | recd st =>
    cases st with
    | nil => simp [encode] at h; obtain ⟨rfl, rfl⟩ := h; rfl
    | cons a st =>
      simp only [encode, bind_eq_ok, pure_eq_ok] at h
      obtain ⟨st', _, ⟨n1, b1⟩, h1, h2⟩ := h
      have := q _ n1 b1 h1
      simp at h2
      obtain ⟨rfl, rfl⟩ := h2
      simp [this]; omega
  | _ => simp [encode] at h

theorem lenT_arr (e : Ty) (cs : Nat) (csg cbe : Bool) (ih : LenT (elemTy e)) : LenT (.arr e cs csg cbe) := by
  intro v n bs h
  rw [encode_arr] at h
  cases v with
  | list xs =>
    simp only [encArr, bind_eq_ok, pure_eq_ok] at h
    obtain ⟨⟨n0, b0⟩, h0, ⟨n1, b1⟩, h1, h2⟩ := h
    have e0 := encInt_len h0
    have e1 := encItems_len _ xs (fun x _ n bs he => ih x n bs he) n1 b1 h1
    simp at h2
    obtain ⟨rfl, rfl⟩ := h2
    simp [e0, e1]
  | str s =>
    simp only [encArr, bind_eq_ok, pure_eq_ok] at h
    obtain ⟨⟨n0, b0⟩, h0, ⟨n1, b1⟩, h1, h2⟩ := h
    have e0 := encInt_len h0
    have e1 := encItems_len _ (s.map fun ch => Val.str [ch]) (fun x _ n bs he => ih x n bs he) n1 b1 h1
    simp at h2
    obtain ⟨rfl, rfl⟩ := h2
    simp [e0, e1]
  | _ => simp [encArr] at h

theorem lenF_nil : LenF .nil := by
  intro st n bs h
  simp [encFields] at h
  obtain ⟨rfl, rfl⟩ := h; rfl

theorem lenF_cons (k : Nat) (t : Ty) (d : Val) (r : Flds) (pt : LenT t) (qr : LenF r) : LenF (.cons k t d r) := by
  intro st n bs h
  simp only [encFields, bind_eq_ok, pure_eq_ok] at h
  obtain ⟨⟨n1, b1⟩, h1, ⟨n2, b2⟩, h2, h3⟩ := h
  have e1 := pt _ n1 b1 h1
  have e2 := qr st n2 b2 h2
  simp at h3
  obtain ⟨rfl, rfl⟩ := h3
  simp [e1, e2]

theorem len_all : (∀ t, LenT t) ∧ (∀ fs, LenF fs) :=
  ty_flds_induction lenT_int lenT_bool lenT_char lenT_str lenT_fixed
    lenT_record lenT_optrec (fun e cs csg cbe _ ih => lenT_arr e cs csg cbe ih)
    lenF_nil lenF_cons

/-! ### messages -/

theorem byte_inRange {i : Nat} (h : i < 256) : intInRange 1 false (i : Int) = true := by
  simp [intInRange]; omega

theorem byteLayout {i : Nat} (h : i < 256) : intLayout 1 false (i : Int) = [i] := by
  unfold intLayout intByte
  have e : (((i : Int) % ((2 ^ (8 * 1) : Nat) : Int)).toNat) = i := by
    have : ((2 ^ (8 * 1) : Nat) : Int) = 256 := by decide
    rw [this]; omega
  simp [List.range_succ]
  omega

theorem encodeMsg_layout (m : MsgDef) (v : Val) (h : wfMsg m v = true) :
    encodeMsg m v = .ok ((msgLayout m v).length, msgLayout m v) := by
  simp only [wfMsg, Bool.and_eq_true, decide_eq_true_eq] at h
  have h1 := intLayout_eq false (byte_inRange h.1)
  rw [byteLayout h.1] at h1
  simp [encodeMsg, encInt, h1, encLayout_all.1 _ v h.2, msgLayout]
  omega

theorem findMsg_ind {reg : List MsgDef} {i : Int} {m : MsgDef} (h : findMsg reg i = some m) : (m.ind : Int) = i := by
  induction reg with
  | nil => simp [findMsg] at h
  | cons a rest ih =>
    simp only [findMsg] at h
    split at h
    · injection h with h; subst h; assumption
    · exact ih h

theorem decodeMsg_layout (reg : List MsgDef) (m : MsgDef) (v : Val) (tail : Bytes)
    (hreg : findMsg reg (m.ind : Int) = some m) (h : wfMsg m v = true) :
    decodeMsg reg (msgLayout m v ++ tail) = .ok (((msgLayout m v).length : Int), m.cls, norm (.record m.fs) v) := by
  simp only [wfMsg, Bool.and_eq_true, decide_eq_true_eq] at h
  have hid : intFromBytes false false [m.ind] = (m.ind : Int) := by
    have := intFromBytes_intLayout false (byte_inRange h.1)
    rwa [byteLayout h.1] at this
  have hdec := decLayout_all.1 _ v h.2 tail
  simp only [decodeMsg, msgLayout]
  have ht : (m.ind :: layout (.record m.fs) v ++ tail).take 1 = [m.ind] := by simp
  rw [ht, hid, hreg]
  simp only []
  rw [List.cons_append, sliceFromI_one_cons, hdec]
  simp
  omega

end NasdaqModel.BinCodec
