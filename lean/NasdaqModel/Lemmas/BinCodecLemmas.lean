import NasdaqModel.Lemmas.PyLemmas
import NasdaqModel.Spec.Layout
/-
Lemmas for the binary codec model (C01 / C02): Python slices, integer packing, text, and the mutual inductions over
`Ty` / `Flds` that carry the property theorems.
-/
namespace NasdaqModel.BinCodec
open NasdaqModel Py Spec.Layout

/-! ### bind inversion -/

theorem bind_ok_inv {α β : Type} {x : Except Err α} {f : α → Except Err β} {b : β}
    (h : (x >>= f) = .ok b) : ∃ a, x = .ok a ∧ f a = .ok b := by
  cases x with
  | ok a => exact ⟨a, rfl, by simpa using h⟩
  | error e => simp at h

/-! ### slices -/

theorem pyIdx_natCast (len n : Nat) : pyIdx len (n : Int) = min n len := by
  unfold pyIdx
  have : ¬ ((n : Int) < 0) := by omega
  simp [this]

theorem sliceFromI_natCast {α : Type} (l : List α) (n : Nat) : sliceFromI l (n : Int) = l.drop n := by
  unfold sliceFromI
  rw [pyIdx_natCast]
  by_cases h : n ≤ l.length
  · rw [Nat.min_eq_left h]
  · have h' : l.length ≤ n := by omega
    rw [Nat.min_eq_right h', List.drop_of_length_le h', List.drop_of_length_le (Nat.le_refl _)]

theorem sliceFromI_append_length {α : Type} (pre rest : List α) :
    sliceFromI (pre ++ rest) (pre.length : Int) = rest := by
  rw [sliceFromI_natCast]; simp

theorem sliceFromI_zero {α : Type} (l : List α) : sliceFromI l 0 = l := by
  have := sliceFromI_natCast l 0
  simpa using this

theorem sliceFromI_one_cons {α : Type} (a : α) (l : List α) : sliceFromI (a :: l) 1 = l := by
  have := sliceFromI_natCast (a :: l) 1
  simpa using this

/-- the slice `data[2:2+len]` of `lenbytes ++ text ++ tail` -/
theorem sliceI_prefix_text {α : Type} (lb cs tail : List α) (h : lb.length = 2) :
    sliceI (lb ++ cs ++ tail) 2 (2 + (cs.length : Int)) = cs := by
  unfold sliceI
  have e1 : (2 : Int) = ((2 : Nat) : Int) := rfl
  have e2 : (2 : Int) + (cs.length : Int) = ((2 + cs.length : Nat) : Int) := by omega
  rw [e2, pyIdx_natCast, e1, pyIdx_natCast]
  have hl : (lb ++ cs ++ tail).length = 2 + cs.length + tail.length := by simp [h]; omega
  rw [hl, Nat.min_eq_left (by omega), Nat.min_eq_left (by omega)]
  have : (lb ++ cs ++ tail).take (2 + cs.length) = lb ++ cs := by
    rw [List.append_assoc, ← List.append_assoc lb cs tail]
    rw [List.take_append_of_le_length (by simp [h])]
    rw [List.take_of_length_le (by simp [h])]
  rw [this, ← h]
  simp

/-! ### integers -/

theorem leBytes_length : ∀ (n u : Nat), (leBytes n u).length = n
  | 0, _ => rfl
  | n + 1, u => by simp [leBytes, leBytes_length n]

theorem leVal_leBytes : ∀ (n u : Nat), u < 256 ^ n → leVal (leBytes n u) = u
  | 0, u, h => by
      have : u = 0 := by simpa using h
      simp [leBytes, leVal, this]
  | n + 1, u, h => by
      have h' : u / 256 < 256 ^ n := by
        rw [Nat.pow_succ] at h
        exact Nat.div_lt_of_lt_mul (by rw [Nat.mul_comm]; exact h)
      simp only [leBytes, leVal, leVal_leBytes n (u / 256) h']
      omega

theorem leBytes_eq_map : ∀ (n u : Nat), leBytes n u = (List.range n).map (fun k => u / 256 ^ k % 256)
  | 0, _ => rfl
  | n + 1, u => by
      rw [List.range_succ_eq_map, List.map_cons, List.map_map]
      simp only [leBytes, leBytes_eq_map n (u / 256), Nat.pow_zero, Nat.div_one]
      congr 1
      apply List.map_congr_left
      intro k _
      simp only [Function.comp, Nat.pow_succ]
      rw [Nat.div_div_eq_div_mul, Nat.mul_comm]

theorem pow256_pos (s : Nat) : 0 < 256 ^ s := Nat.pow_pos (by decide)

theorem pow256_even (s : Nat) (h : 0 < s) : 256 ^ s % 2 = 0 := by
  cases s with
  | zero => omega
  | succ n => rw [Nat.pow_succ]; omega

theorem intInRange_unsigned {s : Nat} {v : Int} (h : intInRange s false v = true) :
    0 ≤ v ∧ v < ((256 ^ s : Nat) : Int) := by
  simpa [intInRange] using h

theorem intInRange_signed {s : Nat} {v : Int} (h : intInRange s true v = true) :
    -((256 ^ s / 2 : Nat) : Int) ≤ v ∧ v < ((256 ^ s / 2 : Nat) : Int) := by
  simpa [intInRange] using h

/-- the two's complement residue of an in-range value -/
theorem residue_of_inRange {s : Nat} {sg : Bool} {v : Int} (h : intInRange s sg v = true) :
    ((v % ((256 ^ s : Nat) : Int)).toNat : Int) = (if v < 0 then v + ((256 ^ s : Nat) : Int) else v)
    ∧ (v % ((256 ^ s : Nat) : Int)).toNat < 256 ^ s := by
  have hpos := pow256_pos s
  have hrange : -((256 ^ s : Nat) : Int) ≤ v ∧ v < ((256 ^ s : Nat) : Int) := by
    cases sg with
    | false => have := intInRange_unsigned h; omega
    | true => have := intInRange_signed h; omega
  generalize 256 ^ s = H at *
  have hH0 : (0 : Int) < (H : Int) := by omega
  by_cases hv : v < 0
  · have e : v % (H : Int) = v + H := by
      have : (v + (H : Int)) % (H : Int) = v % (H : Int) := Int.add_emod_right ..
      rw [← this]
      exact Int.emod_eq_of_lt (by omega) (by omega)
    rw [e, if_pos hv]
    constructor
    · omega
    · omega
  · have e : v % (H : Int) = v := Int.emod_eq_of_lt (by omega) hrange.2
    rw [e, if_neg hv]
    constructor
    · omega
    · omega

theorem intToBytes_ok {s : Nat} {sg : Bool} (be : Bool) {v : Int} (h : intInRange s sg v = true) :
    intToBytes s sg be v =
      .ok (if be then (leBytes s (v % ((256 ^ s : Nat) : Int)).toNat).reverse else leBytes s (v % ((256 ^ s : Nat) : Int)).toNat) := by
  unfold intToBytes
  rw [if_pos h]

theorem intToBytes_length {s : Nat} {sg be : Bool} {v : Int} {bs : Bytes} (h : intToBytes s sg be v = .ok bs) :
    bs.length = s := by
  unfold intToBytes at h
  split at h
  · cases be <;> simp at h <;> subst h <;> simp [leBytes_length]
  · simp at h

/-- `int.from_bytes(v.to_bytes(...)) = v`, also when other bytes follow the `s` that are read -/
theorem intFromBytes_intToBytes {s : Nat} {sg be : Bool} {v : Int} {bs : Bytes}
    (h : intInRange s sg v = true) (hb : intToBytes s sg be v = .ok bs) : intFromBytes sg be bs = v := by
  have hlen := intToBytes_length hb
  rw [intToBytes_ok be h] at hb
  obtain ⟨hres, hlt⟩ := residue_of_inRange h
  generalize hu : (v % ((256 ^ s : Nat) : Int)).toNat = u at *
  have hval : leVal (if be then bs.reverse else bs) = u := by
    cases be with
    | false => simp at hb; subst hb; exact leVal_leBytes s u hlt
    | true => simp at hb; subst hb; simp [leVal_leBytes s u hlt]
  unfold intFromBytes
  simp only [hval, hlen]
  have hpos := pow256_pos s
  cases sg with
  | false =>
    have := intInRange_unsigned h
    simp
    omega
  | true =>
    have hr := intInRange_signed h
    have hs : 0 < s := by
      cases s with
      | zero => simp at hr; omega
      | succ n => omega
    have hev := pow256_even s hs
    generalize 256 ^ s = H at *
    by_cases hv : v < 0
    · rw [if_pos hv] at hres
      have : H ≤ 2 * u := by omega
      simp [this]
      omega
    · rw [if_neg hv] at hres
      have : ¬ (H ≤ 2 * u) := by omega
      simp [this]
      omega

/-! ### integer layout (documented, digit-wise) = `int.to_bytes` -/

theorem two_pow_8 (w : Nat) : 2 ^ (8 * w) = 256 ^ w := by
  rw [show (256 : Nat) = 2 ^ 8 from rfl, ← Nat.pow_mul]

theorem intLayout_eq {s : Nat} {sg : Bool} (be : Bool) {v : Int} (h : intInRange s sg v = true) :
    intToBytes s sg be v = .ok (intLayout s be v) := by
  rw [intToBytes_ok be h]
  unfold intLayout intByte
  simp only [two_pow_8]
  rw [leBytes_eq_map]

theorem intLayout_length (s : Nat) (be : Bool) (v : Int) : (intLayout s be v).length = s := by
  unfold intLayout
  cases be <;> simp

/-! ### text -/

theorem all_lt_of_inCharset {iso : Bool} {cs : Str} (h : inCharset iso cs = true) :
    cs.all (fun c => decide (c < (if iso then 256 else 128))) = true := h

theorem encodeCs_ok {iso : Bool} {cs : Str} (h : inCharset iso cs = true) : encodeCs iso cs = .ok cs := by
  unfold inCharset at h
  cases iso with
  | true =>
    have : cs.all (· < 256) = true := by simpa using h
    simp [encodeCs, encodeIso, this]
  | false =>
    have : cs.all (· < 128) = true := by simpa using h
    simp [encodeCs, encodeAscii, this]

theorem decodeCs_ok {iso : Bool} {cs : Str} (h : inCharset iso cs = true) : decodeCs iso cs = .ok cs := by
  unfold inCharset at h
  cases iso with
  | true => simp [decodeCs, decodeIso]
  | false =>
    have : cs.all (· < 128) = true := by simpa using h
    simp [decodeCs, decodeAscii, this]

/-- whatever `encode` accepted, came out unchanged (one byte per code point) -/
theorem encodeCs_eq {iso : Bool} {cs : Str} {b : Bytes} (h : encodeCs iso cs = .ok b) : b = cs := by
  unfold encodeCs encodeIso encodeAscii at h
  cases iso <;> simp at h <;> (split at h <;> simp at h) <;> exact h.symm

theorem inCharset_append {iso : Bool} {a b : Str} : inCharset iso (a ++ b) = (inCharset iso a && inCharset iso b) := by
  simp [inCharset, List.all_append]

theorem inCharset_spaces (iso : Bool) (k : Nat) : inCharset iso (List.replicate k 32) = true := by
  cases iso <;> simp [inCharset, List.all_replicate]

theorem inCharset_take {iso : Bool} {cs : Str} (k : Nat) (h : inCharset iso cs = true) : inCharset iso (cs.take k) = true := by
  unfold inCharset at *
  rw [List.all_eq_true] at *
  intro x hx
  exact h x (List.mem_of_mem_take hx)

theorem edgeClean_eq (cs : Str) : edgeClean cs = edgeOk isSpace cs := rfl

/-- left padding with a strippable character is undone by `strip` -/
theorem stripBy_replicate_append {p : Nat → Bool} {s : List Nat} {c : Nat} (k : Nat)
    (h : edgeOk p s = true) (hc : p c = true) : stripBy p (List.replicate k c ++ s) = s := by
  unfold stripBy
  rw [dropWhile_replicate_append hc]
  unfold edgeOk at h
  simp only [Bool.and_eq_true] at h
  rw [dropWhile_eq_self_of_head h.1]
  rw [dropWhile_eq_self_of_head (by rw [List.head?_reverse]; exact h.2)]
  simp

theorem strip_rjust {s : Str} (n : Nat) (h : edgeOk isSpace s = true) : strip (rjust s n) = s := by
  unfold strip rjust
  exact stripBy_replicate_append _ h (by decide)

theorem ljust_length {s : Str} {n : Nat} (h : s.length ≤ n) : (ljust s n).length = n := by
  simp [ljust]; omega

theorem rjust_length {s : Str} {n : Nat} (h : s.length ≤ n) : (rjust s n).length = n := by
  simp [rjust]; omega

/-! ### uniform equations for arrays (the element codec is that of `elemTy elem`) -/

theorem encode_arr (e : Ty) (cs : Nat) (csg cbe : Bool) (v : Val) :
    encode (.arr e cs csg cbe) v = encArr (fun x => encode (elemTy e) x) cs csg cbe v := by
  cases e <;> simp [encode, elemTy]

theorem decode_arr (e : Ty) (cs : Nat) (csg cbe : Bool) (b : Bytes) :
    decode (.arr e cs csg cbe) b = (do
      let r ← decItemsAt (fun x => decode (elemTy e) x) (intFromBytes csg cbe (b.take cs)).toNat b (cs : Int)
      pure (r.1, .list r.2)) := by
  cases e <;> simp [decode, elemTy]

theorem wf_arr (e : Ty) (cs : Nat) (csg cbe : Bool) (xs : List Val) :
    wf (.arr e cs csg cbe) (.list xs) = (intInRange cs csg (xs.length : Int) && xs.all fun x => wf (elemTy e) x) := by
  cases e <;> simp [wf, elemTy]

theorem wf_arr_not_list (e : Ty) (cs : Nat) (csg cbe : Bool) (v : Val) (h : wf (.arr e cs csg cbe) v = true) :
    ∃ xs, v = .list xs := by
  cases v <;> cases e <;> simp [wf] at h
  all_goals exact ⟨_, rfl⟩

theorem norm_arr (e : Ty) (cs : Nat) (csg cbe : Bool) (xs : List Val) :
    norm (.arr e cs csg cbe) (.list xs) = .list (xs.map fun x => norm (elemTy e) x) := by
  cases e <;> simp [norm, elemTy]

theorem layout_arr (e : Ty) (cs : Nat) (csg cbe : Bool) (xs : List Val) :
    layout (.arr e cs csg cbe) (.list xs) = intLayout cs cbe xs.length ++ (xs.map fun x => layout (elemTy e) x).flatten := by
  cases e <;> simp [layout, elemTy]
  congr 2
  funext x
  cases x <;> simp [layout]

theorem read_arr_nil (e : Ty) (cs : Nat) (csg cbe : Bool) (xs : List Val) :
    read (.arr e cs csg cbe) (.list xs) [] = .len xs.length := by
  cases e <;> simp [read]

theorem read_arr_idx (e : Ty) (cs : Nat) (csg cbe : Bool) (xs : List Val) (i : Nat) (p : List Step) :
    read (.arr e cs csg cbe) (.list xs) (.idx i :: p) =
      (match xs[i]? with
       | some x => read (elemTy e) x p
       | none => .invalid) := by
  cases e <;> cases h : xs[i]? <;> simp [read, elemTy, h]
  rename_i x
  cases x <;> cases p <;> (try rfl)
  rename_i hd tl
  cases hd <;> rfl

theorem read_arr_field (e : Ty) (cs : Nat) (csg cbe : Bool) (xs : List Val) (k : Nat) (p : List Step) :
    read (.arr e cs csg cbe) (.list xs) (.field k :: p) = .invalid := by
  cases e <;> simp [read]

/-! ### induction over `Ty` / `Flds`, with the element type of arrays -/

theorem ty_flds_induction {P : Ty → Prop} {Q : Flds → Prop}
    (hint : ∀ s sg be, P (.int s sg be)) (hbool : P .bool) (hchar : ∀ iso, P (.char iso)) (hstr : ∀ iso, P (.str iso))
    (hfixed : ∀ iso n rj, P (.fixed iso n rj))
    (hrecord : ∀ fs, Q fs → P (.record fs)) (hoptrec : ∀ fs, Q fs → P (.optrec fs))
    (harr : ∀ e cs csg cbe, P e → P (elemTy e) → P (.arr e cs csg cbe))
    (hnil : Q .nil) (hcons : ∀ n t d r, P t → Q r → Q (.cons n t d r)) :
    (∀ t, P t) ∧ (∀ fs, Q fs) := by
  have key : (∀ t, P t ∧ P (elemTy t)) ∧ (∀ fs, Q fs) := by
    constructor
    · intro t
      exact Ty.rec (motive_1 := fun t => P t ∧ P (elemTy t)) (motive_2 := fun fs => Q fs)
        (fun s sg be => ⟨hint s sg be, hint s sg be⟩) ⟨hbool, hbool⟩ (fun iso => ⟨hchar iso, hchar iso⟩)
        (fun iso => ⟨hstr iso, hstr iso⟩) (fun iso n rj => ⟨hfixed iso n rj, hfixed iso n rj⟩)
        (fun fs q => ⟨hrecord fs q, hrecord fs q⟩) (fun fs q => ⟨hoptrec fs q, hrecord fs q⟩)
        (fun e cs csg cbe ih => ⟨harr e cs csg cbe ih.1 ih.2, harr e cs csg cbe ih.1 ih.2⟩)
        hnil (fun n t d r iht ihr => hcons n t d r iht.1 ihr) t
    · intro fs
      exact Flds.rec (motive_1 := fun t => P t ∧ P (elemTy t)) (motive_2 := fun fs => Q fs)
        (fun s sg be => ⟨hint s sg be, hint s sg be⟩) ⟨hbool, hbool⟩ (fun iso => ⟨hchar iso, hchar iso⟩)
        (fun iso => ⟨hstr iso, hstr iso⟩) (fun iso n rj => ⟨hfixed iso n rj, hfixed iso n rj⟩)
        (fun fs q => ⟨hrecord fs q, hrecord fs q⟩) (fun fs q => ⟨hoptrec fs q, hrecord fs q⟩)
        (fun e cs csg cbe ih => ⟨harr e cs csg cbe ih.1 ih.2, harr e cs csg cbe ih.1 ih.2⟩)
        hnil (fun n t d r iht ihr => hcons n t d r iht.1 ihr) fs
  exact ⟨fun t => (key.1 t).1, key.2⟩

/-! ### the field value of the layout spec is `get_field_value` -/

theorem find_eq_lookup (st : Store) (k : Nat) :
    (st.find? (fun kv => kv.1 == k)).map (·.2) = lookup st k := by
  induction st with
  | nil => rfl
  | cons a rest ih =>
    obtain ⟨k', v⟩ := a
    by_cases h : k' = k
    · simp [List.find?, lookup, h]
    · have : (k' == k) = false := by simpa using h
      simp [List.find?, lookup, h, this, ih]

theorem fieldValue_eq_getField (st : Store) (name : Nat) (ty : Ty) (d : Val) :
    fieldValue st name ty d = getField st name ty d := by
  unfold fieldValue getField
  rw [← find_eq_lookup]
  cases h : st.find? (fun kv => kv.1 == name) with
  | some kv => simp
  | none =>
    simp
    cases d <;> cases ty <;> simp [typeDefault]

end NasdaqModel.BinCodec
