import NasdaqModel.Lemmas.SessionLemmas5
/-
Login at trace level (C11), part 0: tools.

* `Before P tr` — "whenever `y` occurs in the trace, `P` holds of what precedes it and `y`": the form in which every
  "… occurs before …" clause of C11 is stated, with the rule for extending a trace by one observable.
* `CE ab t c s s'` — a *specification of the close machinery* (`enterClose`, `stepInClose`, i.e. `AsyncSession.close()` run by
  task `t` with continuation `c`): which parts of the state it leaves alone, what it may emit, where the closer ends up.
  Every login invariant is carried through the close body by this one specification instead of by a traversal of its own.
-/
namespace NasdaqModel.Sess

/-! ### traces -/

/-- for every occurrence of an observable `y` in `tr`, `P (what precedes it) y` -/
def Before (P : List Obs → Obs → Prop) (tr : List Obs) : Prop := ∀ l1 y l2, tr = l1 ++ y :: l2 → P l1 y

theorem before_nil (P : List Obs → Obs → Prop) : Before P [] := by
  intro l1 y l2 h; simp at h

theorem snoc_split {α} {tr l1 l2 : List α} {o y : α} (h : tr ++ [o] = l1 ++ y :: l2) :
    (l2 = [] ∧ l1 = tr ∧ y = o) ∨ ∃ l2', l2 = l2' ++ [o] ∧ tr = l1 ++ y :: l2' := by
  rcases List.eq_nil_or_concat l2 with h2 | ⟨l2', z, h2⟩
  · subst h2
    left
    have : tr ++ [o] = l1 ++ [y] := h
    have := List.append_inj' this rfl
    simp_all
  · subst h2
    right
    have : tr ++ [o] = (l1 ++ y :: l2') ++ [z] := by simpa using h
    have := List.append_inj' this rfl
    refine ⟨l2', ?_, this.1⟩
    simp_all

theorem before_snoc {P : List Obs → Obs → Prop} {tr : List Obs} {o : Obs} :
    Before P (tr ++ [o]) ↔ Before P tr ∧ P tr o := by
  constructor
  · intro h
    refine ⟨?_, h tr o [] rfl⟩
    intro l1 y l2 e
    exact h l1 y (l2 ++ [o]) (by simp [e])
  · rintro ⟨h1, h2⟩ l1 y l2 e
    rcases snoc_split e with ⟨_, rfl, rfl⟩ | ⟨l2', _, e'⟩
    · exact h2
    · exact h1 l1 y l2' e'

/-- extending the trace by observables that `P` does not speak about -/
theorem before_append {P : List Obs → Obs → Prop} {tr l : List Obs} (h : Before P tr) (hl : ∀ o ∈ l, ∀ l', P l' o) :
    Before P (tr ++ l) := by
  induction l generalizing tr with
  | nil => simpa using h
  | cons o l ih =>
    have e : tr ++ o :: l = (tr ++ [o]) ++ l := by simp
    rw [e]
    exact ih (before_snoc.mpr ⟨h, hl o (by simp) _⟩) (fun o' ho' => hl o' (by simp [ho']))

theorem Before.mono {P Q : List Obs → Obs → Prop} {tr : List Obs} (h : Before P tr) (hpq : ∀ l y, P l y → Q l y) : Before Q tr :=
  fun l1 y l2 e => hpq _ _ (h l1 y l2 e)

theorem mem_of_split {α} {tr l1 l2 : List α} {y : α} (h : tr = l1 ++ y :: l2) : y ∈ tr := by
  rw [h]; simp

theorem mem_left_of_split {α} {tr l1 l2 : List α} {x y : α} (h : tr = l1 ++ y :: l2) (hx : x ∈ l1) : x ∈ tr := by
  rw [h]; simp [hx]

/-! ### small frame facts -/

/-- everything `start_dispatching()` leaves alone -/
theorem startDispatching_frame (s : St) (cfg : Cfg) :
    (∀ y, y ≠ .D → (s.startDispatching cfg).status y = s.status y ∧ (s.startDispatching cfg).prog y = s.prog y) ∧
    (s.startDispatching cfg).closed = s.closed ∧ (s.startDispatching cfg).qClosed = s.qClosed ∧
    (s.startDispatching cfg).rcvBusy = s.rcvBusy ∧ (s.startDispatching cfg).vres = s.vres ∧
    (s.startDispatching cfg).trace = s.trace ∧ (s.startDispatching cfg).closingTask = s.closingTask ∧
    (s.startDispatching cfg).cstage = s.cstage ∧
    (((s.startDispatching cfg).dispSet = true ∧ (s.startDispatching cfg).status .D = .ready ∧ cfg.hasMsgCb = true) ∨
      ((s.startDispatching cfg).dispSet = s.dispSet ∧ (s.startDispatching cfg).status .D = s.status .D)) := by
  unfold St.startDispatching
  split
  · rename_i h
    simp only [Bool.and_eq_true] at h
    refine ⟨?_, rfl, rfl, rfl, rfl, rfl, rfl, rfl, Or.inl ⟨rfl, by simp [St.spawn, St.setStatus, St.setProg], h.1⟩⟩
    intro y hy; simp [St.spawn, St.setStatus, St.setProg, hy]
  · exact ⟨fun _ _ => ⟨rfl, rfl⟩, rfl, rfl, rfl, rfl, rfl, rfl, rfl, Or.inr ⟨rfl, rfl⟩⟩

/-- everything `queue.put` leaves alone (it wakes the dispatcher / the receive helper if they wait on the queue) -/
theorem put_frame (s : St) (m : Nat) :
    (s.put m).trace = s.trace ∧ (s.put m).prog = s.prog ∧ (∀ y, y ≠ .D → y ≠ .V → (s.put m).status y = s.status y) ∧
    (s.put m).cstage = s.cstage ∧ (s.put m).closed = s.closed ∧ (s.put m).qClosed = s.qClosed ∧ (s.put m).vres = s.vres ∧
    ((s.put m).status .V = .cancelled → s.status .V = .cancelled) := by
  unfold St.put St.wakeGetter
  split <;> split <;> simp_all [St.setStatus]

/-! ### the close machinery, specified -/

/-- what the close body may emit, given the continuation of the closer -/
def closeObs (c : Cont) (o : Obs) : Prop :=
  o = .tclose ∨ o = .cbEnter ∨ o = .cbExit ∨ (∃ n, c = .handlerTail n ∧ o = .msgExit n) ∨
    (∃ u r, c = .userTail u r ∧ o = .ret u r.toRes)

/-- the continuation recorded in the close stage -/
def contOf : CStage → Option Cont
  | .body _ _ c => some c
  | .cb _ _ c => some c
  | _ => none

/-- effect of (a part of) the close body run by task `t` with continuation `c`; `ab`: the step may be the one in which a
    user's cancellation lands inside the user's close callback -/
structure CE (ab : Bool) (t : Tid) (c : Cont) (s s' : St) : Prop where
  vres : s'.vres = s.vres
  busy : s'.rcvBusy = s.rcvBusy
  ctask : s'.closingTask = s.closingTask
  queue : s'.queue = s.queue
  closed : s'.closed = s.closed
  qclosed : s'.qClosed = s.qClosed
  disp : s'.dispSet = true → s.dispSet = true
  /-- user tasks other than the closer, and the closing task, are not touched -/
  other : ∀ y, y ≠ t → (∀ j, stageOf y ≠ some j) → s'.status y = s.status y ∧ s'.prog y = s.prog y
  nabs : ∀ y, s'.status y = .absent ↔ s.status y = .absent
  /-- the closer's own program: unchanged, inside `close()`, or (reader / dispatcher) back in its loop -/
  sprog : s'.prog t = s.prog t ∨ s'.prog t = .inClose ∨ t = .R ∨ t = .D
  tr : ∃ l, s'.trace = s.trace ++ l ∧
    ∀ o ∈ l, closeObs c o ∨ (ab = true ∧ ∃ u r, c = .userTail u r ∧ o = .ret u .cancelled)
  stage : s'.cstage = s.cstage ∨ (∃ pc, s'.cstage = .body t pc c) ∨ (∃ k, s'.cstage = .cb t k c) ∨ s'.cstage = .finished ∨
    (ab = true ∧ s'.cstage = .aborted)

/-- what became of the closer when the step ends: it has ended, it is (still) inside `close()`, or it is the reader /
    dispatcher back in its loop -/
def Fin (t : Tid) (s' : St) : Prop :=
  s'.status t = .done ∨ (s'.prog t = .inClose ∧ s'.status t ≠ .cancelled) ∨ t = .R ∨ t = .D

theorem CE.refl (ab : Bool) (t : Tid) (c : Cont) (s : St) : CE ab t c s s :=
  ⟨rfl, rfl, rfl, rfl, rfl, rfl, id, fun _ _ _ => ⟨rfl, rfl⟩, fun _ => Iff.rfl, Or.inl rfl, ⟨[], by simp, by simp⟩, Or.inl rfl⟩

theorem CE.trans {ab : Bool} {t : Tid} {c : Cont} {s s1 s2 : St} (h1 : CE ab t c s s1) (h2 : CE ab t c s1 s2) :
    CE ab t c s s2 := by
  obtain ⟨l1, e1, o1⟩ := h1.tr
  obtain ⟨l2, e2, o2⟩ := h2.tr
  refine ⟨h2.vres.trans h1.vres, h2.busy.trans h1.busy, h2.ctask.trans h1.ctask, h2.queue.trans h1.queue,
    h2.closed.trans h1.closed, h2.qclosed.trans h1.qclosed, fun h => h1.disp (h2.disp h), ?_, ?_, ?_, ?_, ?_⟩
  · intro y hy hj
    obtain ⟨a1, b1⟩ := h1.other y hy hj
    obtain ⟨a2, b2⟩ := h2.other y hy hj
    exact ⟨a2.trans a1, b2.trans b1⟩
  · intro y; exact (h2.nabs y).trans (h1.nabs y)
  · rcases h2.sprog with h | h
    · rw [h]; exact h1.sprog
    · exact Or.inr h
  · refine ⟨l1 ++ l2, by rw [e2, e1, List.append_assoc], ?_⟩
    intro o ho
    rcases List.mem_append.mp ho with h | h
    · exact o1 o h
    · exact o2 o h
  · rcases h2.stage with h | h
    · rw [h]; exact h1.stage
    · exact Or.inr h

/-- a state change outside the statuses and programs, emitting close observables only -/
theorem CE.of_frame {ab : Bool} {t : Tid} {c : Cont} {s s' : St} (l : List Obs)
    (h1 : s'.vres = s.vres) (h2 : s'.rcvBusy = s.rcvBusy) (h3 : s'.closingTask = s.closingTask) (h4 : s'.queue = s.queue)
    (h5 : s'.closed = s.closed) (h6 : s'.qClosed = s.qClosed) (h7 : s'.dispSet = true → s.dispSet = true)
    (h8 : s'.status = s.status) (h9 : s'.prog = s.prog) (h10 : s'.trace = s.trace ++ l) (h11 : ∀ o ∈ l, closeObs c o)
    (h12 : s'.cstage = s.cstage ∨ (∃ pc, s'.cstage = .body t pc c) ∨ (∃ k, s'.cstage = .cb t k c) ∨ s'.cstage = .finished ∨
      (ab = true ∧ s'.cstage = .aborted)) :
    CE ab t c s s' :=
  ⟨h1, h2, h3, h4, h5, h6, h7, fun y _ _ => by rw [h8, h9]; exact ⟨rfl, rfl⟩, fun y => by rw [h8], Or.inl (by rw [h9]),
    ⟨l, h10, fun o ho => Or.inl (h11 o ho)⟩, h12⟩

/-- the waiting structure outside the closer: only user calls wait, and only for the receive helper -/
def UWait (s : St) : Prop := ∀ y z, s.status y = .waitT z → ∃ u, y = .U u ∧ z = .V

theorem UWait.of_status {s s' : St} (h : s'.status = s.status) (w : UWait s) : UWait s' := by
  intro y z hy; rw [h] at hy; exact w y z hy

theorem UWait.nobody {s : St} {t : Tid} {c : Cont} (w : UWait s) (hc : contOk t c) : ∀ y, s.status y ≠ .waitT t := by
  intro y hy
  obtain ⟨_, _, hz⟩ := w y t hy
  exact contOk_ne_V hc hz

/-- `close()` returns to task `t`, which nobody is waiting for -/
theorem runCont_CE {ab : Bool} {s : St} {t : Tid} {c : Cont} (hnw : ∀ y, s.status y ≠ .waitT t) (hc : contOk t c)
    (hst : s.status t = .ready) : CE ab t c s (runCont s t c) ∧ Fin t (runCont s t c) := by
  have fin : ∀ (s1 : St), s1.status = s.status → ∀ y, (s1.finish t).status y = if y = t then .done else s.status y := by
    intro s1 h1 y
    rw [finish_status, h1]
    by_cases hy : y = t
    · simp [hy]
    · simp only [hy, if_false]
      split
      · rename_i hwt; exact absurd hwt (hnw y)
      · rfl
  cases c with
  | readerTail =>
    simp only [contOk] at hc; subst hc
    refine ⟨⟨rfl, rfl, rfl, rfl, rfl, rfl, id, ?_, ?_, Or.inr (Or.inr (Or.inl rfl)), ⟨[], by simp [runCont, St.setStatus, St.setProg], by simp⟩, Or.inl rfl⟩,
      Or.inr (Or.inr (Or.inl rfl))⟩
    · intro y hy _; simp [runCont, St.setStatus, St.setProg, hy]
    · intro y; simp only [runCont, St.setStatus, St.setProg]; split
      · rename_i h; subst h; simp [hst]
      · rfl
  | handlerTail n =>
    simp only [contOk] at hc; subst hc
    refine ⟨⟨rfl, rfl, rfl, rfl, rfl, rfl, id, ?_, ?_, Or.inr (Or.inr (Or.inr rfl)),
      ⟨[.msgExit n], by simp [runCont, St.setStatus, St.setProg, St.emit], ?_⟩, Or.inl rfl⟩, Or.inr (Or.inr (Or.inr rfl))⟩
    · intro y hy _; simp [runCont, St.setStatus, St.setProg, St.emit, hy]
    · intro y; simp only [runCont, St.setStatus, St.setProg, St.emit]; split
      · rename_i h; subst h; simp [hst]
      · rfl
    · intro o ho; simp at ho; subst ho; exact Or.inl (Or.inr (Or.inr (Or.inr (Or.inl ⟨n, rfl, rfl⟩))))
  | monitorTail =>
    refine ⟨⟨rfl, rfl, rfl, rfl, rfl, rfl, id, ?_, ?_, Or.inl rfl, ⟨[], by simp [runCont, St.finish], by simp⟩, Or.inl rfl⟩,
      Or.inl (by simp [runCont, fin s rfl])⟩
    · intro y hy _; simp only [runCont]; rw [fin s rfl]; simp [hy, St.finish]
    · intro y; simp only [runCont]; rw [fin s rfl]; split
      · rename_i h; subst h; simp [hst]
      · rfl
  | closingTail =>
    refine ⟨⟨rfl, rfl, rfl, rfl, rfl, rfl, id, ?_, ?_, Or.inl rfl, ⟨[], by simp [runCont, St.finish], by simp⟩, Or.inl rfl⟩,
      Or.inl (by simp [runCont, fin s rfl])⟩
    · intro y hy _; simp only [runCont]; rw [fin s rfl]; simp [hy, St.finish]
    · intro y; simp only [runCont]; rw [fin s rfl]; split
      · rename_i h; subst h; simp [hst]
      · rfl
  | userTail u r =>
    refine ⟨⟨rfl, rfl, rfl, rfl, rfl, rfl, id, ?_, ?_, Or.inl rfl, ⟨[.ret u r.toRes], by simp [runCont, St.finish, St.emit], ?_⟩, Or.inl rfl⟩,
      Or.inl (by simp [runCont, fin (s.emit _) rfl])⟩
    · intro y hy _; simp only [runCont]; rw [fin (s.emit _) rfl]; simp [hy, St.finish, St.emit]
    · intro y; simp only [runCont]; rw [fin (s.emit _) rfl]; split
      · rename_i h; subst h; simp [hst]
      · rfl
    · intro o ho; simp at ho; subst ho; exact Or.inl (Or.inr (Or.inr (Or.inr (Or.inr ⟨u, r, rfl, rfl⟩))))

theorem closeTail_CE {ab : Bool} {cfg : Cfg} {s : St} {t : Tid} {c : Cont} (hw : UWait s) (hc : contOk t c)
    (hst : s.status t = .ready) : CE ab t c s (closeTail cfg s t c) ∧ Fin t (closeTail cfg s t c) := by
  have hnw := hw.nobody hc
  unfold closeTail
  simp only
  split
  · have e1 : CE ab t c s ({ (s.emit .tclose) with cstage := .finished } : St) :=
      CE.of_frame [.tclose] rfl rfl rfl rfl rfl rfl id rfl rfl rfl (by intro o ho; simp at ho; subst ho; exact Or.inl rfl)
        (Or.inr (Or.inr (Or.inr (Or.inl rfl))))
    have := runCont_CE (ab := ab) (s := ({ (s.emit .tclose) with cstage := .finished } : St)) (t := t) (c := c) hnw hc hst
    exact ⟨e1.trans this.1, this.2⟩
  · split
    · rename_i k _
      refine ⟨⟨rfl, rfl, rfl, rfl, rfl, rfl, id, ?_, ?_, Or.inr (Or.inl (by simp [St.setProg])), ⟨[.tclose, .cbEnter], by simp [St.setStatus, St.setProg, St.emit], ?_⟩,
        Or.inr (Or.inr (Or.inl ⟨k, rfl⟩))⟩, Or.inr (Or.inl ⟨by simp [St.setProg], by simp [St.setProg, St.setStatus]⟩)⟩
      · intro y hy _; simp [St.setStatus, St.setProg, St.emit, hy]
      · intro y; simp only [St.setStatus, St.setProg, St.emit]; split
        · rename_i h; subst h; simp [hst]
        · rfl
      · intro o ho; simp at ho; rcases ho with rfl | rfl
        · exact Or.inl (Or.inl rfl)
        · exact Or.inl (Or.inr (Or.inl rfl))
    · have e1 : CE ab t c s ({ (((s.emit .tclose).emit .cbEnter).emit .cbExit) with cstage := .finished } : St) :=
        CE.of_frame [.tclose, .cbEnter, .cbExit] rfl rfl rfl rfl rfl rfl id rfl rfl (by simp [St.emit])
          (by intro o ho; simp at ho; rcases ho with rfl | rfl | rfl
              · exact Or.inl rfl
              · exact Or.inr (Or.inl rfl)
              · exact Or.inr (Or.inr (Or.inl rfl)))
          (Or.inr (Or.inr (Or.inr (Or.inl rfl))))
      have := runCont_CE (ab := ab) (s := ({ (((s.emit .tclose).emit .cbEnter).emit .cbExit) with cstage := .finished } : St))
        (t := t) (c := c) hnw hc hst
      exact ⟨e1.trans this.1, this.2⟩

theorem stopTarget_stageOf {pc : Nat} {x : Tid} (h : stopTarget pc = some x) : stageOf x = some pc := by
  unfold stopTarget at h
  split at h <;> simp at h <;> subst h <;> rfl

theorem cancelTask_flags (s : St) (x : Tid) :
    (s.cancelTask x).rcvBusy = s.rcvBusy ∧ (s.cancelTask x).closingTask = s.closingTask ∧
    (s.cancelTask x).dispSet = s.dispSet ∧ (s.cancelTask x).vres = s.vres ∧ (s.cancelTask x).queue = s.queue ∧
    (s.cancelTask x).closed = s.closed ∧ (s.cancelTask x).qClosed = s.qClosed ∧ (s.cancelTask x).trace = s.trace ∧
    (s.cancelTask x).cstage = s.cstage := by
  unfold St.cancelTask
  split <;> try exact ⟨rfl, rfl, rfl, rfl, rfl, rfl, rfl, rfl, rfl⟩
  split <;> exact ⟨rfl, rfl, rfl, rfl, rfl, rfl, rfl, rfl, rfl⟩

theorem suspendOn_CE {ab : Bool} {s : St} {t x : Tid} {c : Cont} {pc : Nat} (hw : UWait s) (hx : stopTarget pc = some x)
    (hne : x ≠ t) (ha : alive (s.status x) = true) (hstt : s.status t = .ready) :
    CE ab t c s (suspendOn s t x pc c) ∧ Fin t (suspendOn s t x pc c) := by
  have hsx := stopTarget_stageOf hx
  have hxw : ∀ z, s.status x ≠ .waitT z := by
    intro z hz
    obtain ⟨u, hu, _⟩ := hw x z hz
    subst hu; exact stageOf_user u pc hsx
  have hst : ∀ y, (suspendOn s t x pc c).status y = if y = t then .waitT x else if y = x then .cancelled else s.status y := by
    intro y
    show (if y = t then Status.waitT x else (s.cancelTask x).status y) = _
    rw [cancelTask_status ha hxw]
  have hpr : ∀ y, (suspendOn s t x pc c).prog y = if y = t then .inClose else s.prog y := by
    intro y
    show (if y = t then Prog.inClose else (s.cancelTask x).prog y) = _
    rw [cancelTask_prog]
  obtain ⟨f1, f2, f3, f4, f5, f6, f7, f8, _⟩ := cancelTask_flags s x
  refine ⟨⟨f4, f1, f2, f5, f6, f7, ?_, ?_, ?_, Or.inr (Or.inl (by rw [hpr]; simp)), ⟨[], ?_, by simp⟩, Or.inr (Or.inl ⟨pc + 1, rfl⟩)⟩,
    Or.inr (Or.inl ⟨by rw [hpr]; simp, by rw [hst]; simp⟩)⟩
  · intro h; have : (s.cancelTask x).dispSet = true := h; rw [f3] at this; exact this
  · intro y hy hj
    rw [hst, hpr]
    have hyx : y ≠ x := by intro e; subst e; exact hj pc hsx
    simp [hy, hyx]
  · intro y
    rw [hst]
    by_cases hy : y = t
    · subst hy; simp [hstt]
    · simp only [hy, if_false]
      by_cases hyx : y = x
      · subst hyx; simp only [if_true]
        constructor
        · intro h; simp at h
        · intro h; rw [h] at ha; simp [alive] at ha
      · simp [hyx]
  · show (s.cancelTask x).trace = s.trace ++ []
    rw [f8]; simp

/-- the close body from stage `pc`, run by the (running) task `t` -/
theorem execClose_CE {ab : Bool} {cfg : Cfg} {s : St} {t : Tid} {c : Cont} (pc : Nat) (hw : UWait s) (hc : contOk t c)
    (hst : s.status t = .ready) : CE ab t c s (execClose cfg s t c pc) ∧ Fin t (execClose cfg s t c pc) := by
  refine execClose_rule cfg t c (fun s' => UWait s' ∧ s'.status t = .ready ∧ CE ab t c s s')
    (fun s' => CE ab t c s s' ∧ Fin t s') ?_ ?_ ?_ ?_ pc s ⟨hw, hst, CE.refl ab t c s⟩
  · rintro s' ⟨w, st, e⟩
    exact ⟨w.of_status rfl, st, e.trans (CE.of_frame [] rfl rfl rfl rfl rfl rfl (by intro h; simp at h) rfl rfl (by simp) (by simp) (Or.inl rfl))⟩
  · rintro s' ⟨w, st, e⟩
    exact ⟨w.of_status rfl, st, e.trans (CE.of_frame [] rfl rfl rfl rfl rfl rfl id rfl rfl (by simp) (by simp) (Or.inl rfl))⟩
  · rintro s' x pc' ⟨w, st, e⟩ hx hne ha
    have := suspendOn_CE (ab := ab) (c := c) w hx hne ha st
    exact ⟨e.trans this.1, this.2⟩
  · rintro s' ⟨w, st, e⟩
    have := closeTail_CE (ab := ab) (cfg := cfg) w hc st
    exact ⟨e.trans this.1, this.2⟩

/-- specification of `await self.close()` called by the running task `t` -/
structure EnterSpec (t : Tid) (c : Cont) (s s' : St) : Prop where
  vres : s'.vres = s.vres
  busy : s'.rcvBusy = s.rcvBusy
  ctask : s'.closingTask = s.closingTask
  queue : s'.queue = s.queue
  closed : s'.closed = true
  qclosed : s'.qClosed = true
  disp : s'.dispSet = true → s.dispSet = true
  other : ∀ y, y ≠ t → (∀ j, stageOf y ≠ some j) → s'.status y = s.status y ∧ s'.prog y = s.prog y
  nabs : ∀ y, s'.status y = .absent ↔ s.status y = .absent
  sprog : s'.prog t = s.prog t ∨ s'.prog t = .inClose ∨ t = .R ∨ t = .D
  tr : ∃ l, s'.trace = s.trace ++ l ∧ ∀ o ∈ l, closeObs c o
  stage : (s.closed = true ∧ s'.cstage = s.cstage) ∨ (∃ pc, s'.cstage = .body t pc c) ∨ (∃ k, s'.cstage = .cb t k c) ∨
    s'.cstage = .finished
  fin : Fin t s'

/-- what `enterClose_spec` needs of the state in which task `t` calls `close()` -/
structure ClosePre (s : St) (t : Tid) : Prop where
  hq : s.closed = true → s.qClosed = true
  hw : s.closed = false → UWait s
  hnw : s.closed = true → ∀ y, s.status y ≠ .waitT t
  hst : s.status t = .ready

theorem ClosePre.of_inv {cfg : Cfg} {s : St} (a : InvA cfg s) (i : InvB s) {t : Tid} {c : Cont}
    (hst : s.status t = .ready) (hc : contOk t c) : ClosePre s t := by
  refine ⟨fun h => a.qclosed (a.closed_iff.mp h), fun h => i.idle_waitt (idle_of_open a h), ?_, hst⟩
  intro _ y hy
  rcases i.waitt y t hy with ⟨pc, c', hb⟩ | ⟨u, _, hz⟩
  · have := (i.bwait y pc c' t hb hy).2; rw [hst] at this; simp at this
  · exact contOk_ne_V hc hz

/-- the same facts for a state that differs outside the flags and statuses -/
theorem ClosePre.same {s s' : St} {t : Tid} (p : ClosePre s t) (h1 : s'.closed = s.closed) (h2 : s'.qClosed = s.qClosed)
    (h3 : s'.status = s.status) : ClosePre s' t :=
  ⟨by rw [h1, h2]; exact p.hq, by rw [h1]; intro h; exact (p.hw h).of_status h3, by rw [h1, h3]; exact p.hnw, by rw [h3]; exact p.hst⟩

/-- a cancelled task that is about to call `close()` (`except CancelledError: await self.close()`) -/
theorem ClosePre.of_cancelled {cfg : Cfg} {s s' : St} (a : InvA cfg s) (i : InvB s) {t : Tid} {c : Cont}
    (hc : contOk t c) (hus : ∀ j, stageOf t ≠ some j)
    (h1 : s'.closed = s.closed) (h2 : s'.qClosed = s.qClosed)
    (h3 : ∀ y, s'.status y = if y = t then .ready else s.status y) : ClosePre s' t := by
  refine ⟨by rw [h1, h2]; exact fun h => a.qclosed (a.closed_iff.mp h), ?_, ?_, by rw [h3]; simp⟩
  · intro h y z hy
    rw [h1] at h
    rw [h3] at hy
    split at hy
    · simp at hy
    · exact i.idle_waitt (idle_of_open a h) y z hy
  · intro _ y hy
    rw [h3] at hy
    split at hy
    · simp at hy
    · rcases i.waitt y t hy with ⟨pc, c', hb⟩ | ⟨u, _, hz⟩
      · -- a closer awaits stop targets only
        exact absurd (i.bwait y pc c' t hb hy).1 (hus _)
      · exact contOk_ne_V hc hz

theorem enterClose_spec {cfg : Cfg} {s : St} {t : Tid} {c : Cont} (p : ClosePre s t) (hc : contOk t c) :
    EnterSpec t c s (enterClose cfg s t c) := by
  have hst := p.hst
  unfold enterClose
  split
  · rename_i hcl
    obtain ⟨e, f⟩ := runCont_CE (ab := false) (p.hnw hcl) hc hst
    obtain ⟨l, el, ol⟩ := e.tr
    refine ⟨e.vres, e.busy, e.ctask, e.queue, by rw [e.closed]; exact hcl, ?_, e.disp, e.other, e.nabs, e.sprog,
      ⟨l, el, fun o ho => (ol o ho).resolve_right (by simp)⟩, ?_, f⟩
    · rw [e.qclosed]; exact p.hq hcl
    · rcases e.stage with h | h | h | h | h
      · exact Or.inl ⟨hcl, h⟩
      · exact Or.inr (Or.inl h)
      · exact Or.inr (Or.inr (Or.inl h))
      · exact Or.inr (Or.inr (Or.inr h))
      · simp at h
  · rename_i hcl
    have hw : UWait ({ s with closed := true, qClosed := true, cstage := .body t 0 c } : St) := p.hw (by simpa using hcl)
    obtain ⟨e, f⟩ := execClose_CE (ab := false) (cfg := cfg)
      (s := ({ s with closed := true, qClosed := true, cstage := .body t 0 c } : St)) 0 hw hc hst
    obtain ⟨l, el, ol⟩ := e.tr
    refine ⟨e.vres, e.busy, e.ctask, e.queue, e.closed, e.qclosed, e.disp, e.other, e.nabs, e.sprog,
      ⟨l, el, fun o ho => (ol o ho).resolve_right (by simp)⟩, ?_, f⟩
    rcases e.stage with h | h | h | h | h
    · exact Or.inr (Or.inl ⟨0, h⟩)
    · exact Or.inr (Or.inl h)
    · exact Or.inr (Or.inr (Or.inl h))
    · exact Or.inr (Or.inr (Or.inr h))
    · simp at h

/-- specification of a step of the task that is inside `close()`; `b`: a cancellation is delivered in this step -/
theorem stepInClose_spec {cfg : Cfg} {s : St} (i : InvB s) (t : Tid) (b : Bool)
    (hrun : s.status t = .ready ∨ s.status t = .cancelled) (hbs : b = false → s.status t = .ready) :
    stepInClose cfg s t b = s ∨
    ∃ c, contOf s.cstage = some c ∧ contOk t c ∧ CE b t c s (stepInClose cfg s t b) ∧ Fin t (stepInClose cfg s t b) := by
  have halive : alive (s.status t) = true := by rcases hrun with h | h <;> rw [h] <;> rfl
  -- the closer becomes the running task
  have setReady : ∀ c, CE b t c s (s.setStatus t .ready) := by
    intro c
    refine ⟨rfl, rfl, rfl, rfl, rfl, rfl, id, ?_, ?_, Or.inl rfl, ⟨[], by simp [St.setStatus], by simp⟩, Or.inl rfl⟩
    · intro y hy _; simp [St.setStatus, hy]
    · intro y; simp only [St.setStatus]; split
      · rename_i h; subst h
        constructor
        · intro h; simp at h
        · intro h; rw [h] at halive; simp [alive] at halive
      · rfl
  unfold stepInClose
  split
  · rename_i t' pc c hs
    split
    · rename_i htt; subst htt
      right
      obtain ⟨_, _, _, _, _, cok⟩ := i.bst t' pc c hs
      refine ⟨c, by rw [hs]; rfl, cok, ?_⟩
      have hw : UWait (s.setStatus t' .ready) := by
        intro y z hy
        simp only [St.setStatus] at hy
        split at hy
        · simp at hy
        · rename_i hyt
          rcases i.waitt y z hy with ⟨pc', c', hb⟩ | h
          · rw [hs] at hb; injection hb with e _ _; exact absurd e.symm hyt
          · exact h
      unfold resumeClose
      simp only
      split
      · have e0 : CE b t' c (s.setStatus t' .ready) ({ (s.setStatus t' .ready) with dispSet := false } : St) :=
          CE.of_frame [] rfl rfl rfl rfl rfl rfl (by intro h; simp at h) rfl rfl (by simp) (by simp) (Or.inl rfl)
        obtain ⟨e, f⟩ := execClose_CE (ab := b) (cfg := cfg) (s := ({ (s.setStatus t' .ready) with dispSet := false } : St))
          pc (hw.of_status rfl) cok (by simp [St.setStatus])
        exact ⟨((setReady c).trans e0).trans e, f⟩
      · obtain ⟨e, f⟩ := execClose_CE (ab := b) (cfg := cfg) (s := s.setStatus t' .ready) pc hw cok (by simp [St.setStatus])
        exact ⟨(setReady c).trans e, f⟩
    · exact Or.inl rfl
  · rename_i t' k c hs
    split
    · rename_i htt; subst htt
      right
      obtain ⟨_, _, cok, _⟩ := i.cb t' k c hs
      refine ⟨c, by rw [hs]; rfl, cok, ?_⟩
      have hnw : ∀ y, s.status y ≠ .waitT t' := by
        intro y hy
        rcases i.waitt y t' hy with ⟨pc', c', hb⟩ | ⟨u, _, hz⟩
        · rw [hs] at hb; contradiction
        · exact contOk_ne_V cok hz
      have fin : ∀ (s1 : St), s1.status = s.status → ∀ y, (s1.finish t').status y = if y = t' then .done else s.status y := by
        intro s1 h1 y
        rw [finish_status, h1]
        by_cases hy : y = t'
        · simp [hy]
        · simp only [hy, if_false]
          split
          · rename_i hwt; exact absurd hwt (hnw y)
          · rfl
      have nabs_fin : ∀ (s1 : St), s1.status = s.status → ∀ y, (s1.finish t').status y = .absent ↔ s.status y = .absent := by
        intro s1 h1 y
        rw [fin s1 h1]
        split
        · rename_i h; subst h
          constructor
          · intro h; simp at h
          · intro h; rw [h] at halive; simp [alive] at halive
        · rfl
      split
      · -- cancelled by the user inside the user's own close callback
        rename_i hb; subst hb
        split
        · rename_i u r
          have f1 := fin (({ s with cstage := .aborted } : St).emit (.ret u .cancelled)) rfl
          refine ⟨⟨rfl, rfl, rfl, rfl, rfl, rfl, id, ?_, nabs_fin _ rfl, Or.inl rfl, ⟨[.ret u .cancelled], by simp [St.finish, St.emit], ?_⟩,
            Or.inr (Or.inr (Or.inr (Or.inr ⟨rfl, rfl⟩)))⟩, Or.inl (by rw [f1]; simp)⟩
          · intro y hy _; rw [f1]; simp [hy, St.finish, St.emit]
          · intro o ho; simp at ho; subst ho; exact Or.inr ⟨rfl, u, r, rfl, rfl⟩
        · have f1 := fin ({ s with cstage := .aborted } : St) rfl
          refine ⟨⟨rfl, rfl, rfl, rfl, rfl, rfl, id, ?_, nabs_fin _ rfl, Or.inl rfl, ⟨[], by simp [St.finish], by simp⟩,
            Or.inr (Or.inr (Or.inr (Or.inr ⟨rfl, rfl⟩)))⟩, Or.inl (by rw [f1]; simp)⟩
          intro y hy _; rw [f1]; simp [hy, St.finish]
      · rename_i hb
        have hready : s.status t' = .ready := hbs (by simpa using hb)
        split
        · have e1 : CE b t' c s ({ (s.emit .cbExit) with cstage := .finished } : St) :=
            CE.of_frame [.cbExit] rfl rfl rfl rfl rfl rfl id rfl rfl rfl
              (by intro o ho; simp at ho; subst ho; exact Or.inr (Or.inr (Or.inl rfl))) (Or.inr (Or.inr (Or.inr (Or.inl rfl))))
          obtain ⟨e, f⟩ := runCont_CE (ab := b) (s := ({ (s.emit .cbExit) with cstage := .finished } : St)) (t := t') (c := c)
            hnw cok hready
          exact ⟨e1.trans e, f⟩
        · rename_i k'
          exact ⟨CE.of_frame [] rfl rfl rfl rfl rfl rfl id rfl rfl (by simp) (by simp) (Or.inr (Or.inr (Or.inl ⟨k', rfl⟩))),
            Or.inr (Or.inl ⟨(i.cb t' _ c hs).1, by show s.status t' ≠ _; rw [hready]; simp⟩)⟩
    · exact Or.inl rfl
  · exact Or.inl rfl

end NasdaqModel.Sess
