import NasdaqModel.Lemmas.AppSessionLemmasK
/-
What acceptance by the application-level close monitor (`mon2Run l ≠ 9`) means in plain terms.
-/
namespace NasdaqModel.App
open NasdaqModel

theorem mon2_sink (o : AObs) : mon2 9 o = 9 := by cases o <;> simp [mon2]

theorem foldl_mon2_sink (l : List AObs) : l.foldl mon2 9 = 9 := by
  induction l with
  | nil => rfl
  | cons o l ih => simp [List.foldl, mon2_sink, ih]

theorem mon2_ne_zero {p : Nat} (hp : p ≠ 0) (o : AObs) : mon2 p o ≠ 0 := by
  cases o <;> simp [mon2] <;> try omega
  all_goals (split <;> omega)

theorem foldl_mon2_ne_zero (l : List AObs) : ∀ p, p ≠ 0 → l.foldl mon2 p ≠ 0 := by
  induction l with
  | nil => intro p hp; exact hp
  | cons o l ih => intro p hp; exact ih _ (mon2_ne_zero hp o)

theorem foldl_mon2_prefix_ok (l1 l2 : List AObs) (p : Nat) (h : (l1 ++ l2).foldl mon2 p ≠ 9) : l1.foldl mon2 p ≠ 9 := by
  intro h9
  apply h
  rw [List.foldl_append, h9, foldl_mon2_sink]

theorem mon2_step_ok {p : Nat} {o : AObs} {l : List AObs} (h : (o :: l).foldl mon2 p ≠ 9) : mon2 p o ≠ 9 := by
  intro h9; apply h; simp [List.foldl, h9, foldl_mon2_sink]

/-- the user's close callback is entered at most once -/
theorem count2_cbEnter (l : List AObs) : ∀ p, l.foldl mon2 p ≠ 9 →
    (p = 0 → l.count .cbEnter ≤ 1) ∧ (p ≠ 0 → l.count .cbEnter = 0) := by
  induction l with
  | nil => intro p _; simp
  | cons o l ih =>
    intro p h
    have h1 := mon2_step_ok h
    have ih' := ih (mon2 p o) h
    by_cases ho : o = .cbEnter
    · subst ho
      have hp : p = 0 := by
        by_cases hp : p = 0
        · exact hp
        · simp [mon2, hp] at h1
      subst hp
      have := ih'.2 (by simp [mon2])
      simp [this]
    · have hc : (o :: l).count .cbEnter = l.count .cbEnter := by
        simp [List.count_cons, ho]
      rw [hc]
      constructor
      · intro hp
        subst hp
        by_cases h0 : mon2 0 o = 0
        · exact ih'.1 h0
        · rw [ih'.2 h0]; omega
      · intro hp
        exact ih'.2 (mon2_ne_zero hp o)

/-- … and left at most once -/
theorem count2_cbExit (l : List AObs) : ∀ p, l.foldl mon2 p ≠ 9 →
    (p ≤ 1 → l.count .cbExit ≤ 1) ∧ (2 ≤ p → l.count .cbExit = 0) := by
  induction l with
  | nil => intro p _; simp
  | cons o l ih =>
    intro p h
    have h1 := mon2_step_ok h
    have ih' := ih (mon2 p o) h
    by_cases ho : o = .cbExit
    · subst ho
      have hp : p = 1 := by
        by_cases hp : p = 1
        · exact hp
        · simp [mon2, hp] at h1
      subst hp
      have := ih'.2 (by simp [mon2])
      simp [this]
    · have hc : (o :: l).count .cbExit = l.count .cbExit := by
        simp [List.count_cons, ho]
      rw [hc]
      have hm : mon2 p o = p ∨ (p = 0 ∧ mon2 p o = 1) := by
        cases o <;> simp_all [mon2]
        all_goals (split at h1 <;> simp_all)
      constructor
      · intro hp
        rcases hm with hm | ⟨_, hm⟩
        · rw [hm] at ih'; exact ih'.1 hp
        · rw [hm] at ih'; exact ih'.1 (by omega)
      · intro hp
        rcases hm with hm | ⟨h0, _⟩
        · rw [hm] at ih'; exact ih'.2 hp
        · omega

theorem cbEnter2_mem_of_phase (l : List AObs) (h9 : l.foldl mon2 0 ≠ 9) (h : 1 ≤ l.foldl mon2 0) : AObs.cbEnter ∈ l := by
  induction l with
  | nil => simp at h
  | cons o l ih =>
    by_cases ho : o = .cbEnter
    · subst ho; simp
    · have h0 : mon2 0 o = 0 ∨ mon2 0 o = 9 := by
        cases o <;> simp_all [mon2]
      rcases h0 with h0 | h0
      · simp only [List.foldl, h0] at h h9
        exact List.mem_cons_of_mem _ (ih h9 h)
      · simp [List.foldl, h0, foldl_mon2_sink] at h9

theorem cbExit2_mem_of_phase (l : List AObs) : ∀ p, p ≤ 1 → l.foldl mon2 p ≠ 9 → 2 ≤ l.foldl mon2 p → AObs.cbExit ∈ l := by
  induction l with
  | nil => intro p hp _ h; simp at h; omega
  | cons o l ih =>
    intro p hp h9 h
    by_cases ho : o = .cbExit
    · subst ho; simp
    · have h1 := mon2_step_ok h9
      have h0 : mon2 p o ≤ 1 := by
        cases o <;> simp_all [mon2] <;> (try omega)
        all_goals (split at h1 <;> simp_all)
      exact List.mem_cons_of_mem _ (ih _ h0 h9 h)

/-- the user's close callback returns only after it was entered -/
theorem cbEnter2_before_cbExit2 (l l1 l2 : List AObs) (h : mon2Run l ≠ 9) (e : l = l1 ++ AObs.cbExit :: l2) :
    AObs.cbEnter ∈ l1 := by
  subst e
  have hp : (l1 ++ [AObs.cbExit]).foldl mon2 0 ≠ 9 := by
    apply foldl_mon2_prefix_ok _ l2
    simpa [mon2Run] using h
  rw [List.foldl_append] at hp
  have h1 : l1.foldl mon2 0 = 1 := by
    by_cases h1 : l1.foldl mon2 0 = 1
    · exact h1
    · simp [List.foldl, mon2, h1] at hp
  exact cbEnter2_mem_of_phase l1 (by omega) (by omega)

/-- no application message callback is started once the user's close callback has been entered -/
theorem no_msgEnter2_after_cbEnter2 (l l1 l2 : List AObs) (v : Nat) (h : mon2Run l ≠ 9)
    (e : l = l1 ++ AObs.msgEnter v :: l2) : AObs.cbEnter ∉ l1 ∧ AObs.cbExit ∉ l1 := by
  subst e
  have hp : (l1 ++ [AObs.msgEnter v]).foldl mon2 0 ≠ 9 := by
    apply foldl_mon2_prefix_ok _ l2
    simpa [mon2Run] using h
  rw [List.foldl_append] at hp
  have h1 : l1.foldl mon2 0 = 0 := by
    by_cases h1 : l1.foldl mon2 0 = 0
    · exact h1
    · simp [List.foldl, mon2, h1] at hp
  have key : ∀ (o : AObs), (o = .cbEnter ∨ o = .cbExit) → o ∉ l1 := by
    intro o ho hmem
    obtain ⟨a, b, hab⟩ := List.append_of_mem hmem
    rw [hab, List.foldl_append] at h1
    have : mon2 (a.foldl mon2 0) o ≠ 0 := by
      rcases ho with rfl | rfl <;> simp [mon2] <;> split <;> omega
    simp only [List.foldl] at h1
    exact foldl_mon2_ne_zero b _ this h1
  exact ⟨key _ (Or.inl rfl), key _ (Or.inr rfl)⟩


/-- phase 0: the user's close callback has neither been entered nor left -/
theorem mon2_zero_no_cb (l : List AObs) (h : l.foldl mon2 0 = 0) : AObs.cbEnter ∉ l ∧ AObs.cbExit ∉ l := by
  have key : ∀ (o : AObs), (o = .cbEnter ∨ o = .cbExit) → o ∉ l := by
    intro o ho hmem
    obtain ⟨a, b, hab⟩ := List.append_of_mem hmem
    rw [hab, List.foldl_append] at h
    have : mon2 (a.foldl mon2 0) o ≠ 0 := by
      rcases ho with rfl | rfl <;> simp [mon2] <;> split <;> omega
    simp only [List.foldl] at h
    exact foldl_mon2_ne_zero b _ this h
  exact ⟨key _ (Or.inl rfl), key _ (Or.inr rfl)⟩

/-- phase 2: the user's close callback has been entered exactly once and left exactly once -/
theorem mon2_two_counts (l : List AObs) (h : l.foldl mon2 0 = 2) : l.count .cbEnter = 1 ∧ l.count .cbExit = 1 := by
  have h9 : l.foldl mon2 0 ≠ 9 := by rw [h]; simp
  have c1 := (count2_cbEnter l 0 h9).1 rfl
  have c2 := (count2_cbExit l 0 h9).1 (by omega)
  have m1 : AObs.cbEnter ∈ l := cbEnter2_mem_of_phase l h9 (by omega)
  have m2 : AObs.cbExit ∈ l := cbExit2_mem_of_phase l 0 (by omega) h9 (by omega)
  have p1 := List.count_pos_iff.mpr m1
  have p2 := List.count_pos_iff.mpr m2
  omega

end NasdaqModel.App
