import NasdaqModel.Lemmas.SessionLemmas2
/-
Part C of the session-machine invariants: the flow of messages (C04).

  wire  ⊇  consumed ++ buf          frames received = frames the reader has taken ++ frames still buffered
  recvd  =  messages of `consumed`   (heartbeats are dropped, a logout / malformed frame ends the session)
  recvd  =  gone ++ vres ++ queue    every message put on the queue is, in order: gone for good, held for a pending
                                     receive, or still queued — nothing skipped, duplicated, reordered or invented
  delivered(trace) = taken           the observable deliveries are exactly the `gone` entries marked delivered
  lost = []                          no `gone` entry is marked dropped (since the repair of C04-late-cancel-loses-message:
                                     a late cancel puts the held message back in front of the queue)
-/
namespace NasdaqModel.Sess

def msgsOf (fs : List Frame) : List Nat :=
  fs.filterMap fun f => match f with
    | .msg n => some n
    | _ => none

/-- the message an observable hands to a consumer, if any -/
def deliveredObs : Obs → Option Nat
  | .msgEnter n => some n
  | .ret _ (.msg n) => some n
  | .loginReply n => some n
  | _ => none

def delivered (l : List Obs) : List Nat := l.filterMap deliveredObs

structure InvG (s : St) : Prop where
  wire : s.consumed ++ s.buf = s.wire
  recvd : s.recvd = msgsOf s.consumed
  flow : s.gone.map (·.1) ++ s.vres.toList ++ s.queue = s.recvd
  deliv : delivered s.trace = s.taken
  lost : s.lost = []

/-- the part of the state `InvG` reads -/
def gcore (s : St) : List Frame × List Frame × List Frame × List Nat × List Nat × Option Nat × List (Nat × Bool) × List Nat :=
  (s.buf, s.wire, s.consumed, s.recvd, s.queue, s.vres, s.gone, delivered s.trace)

theorem InvG.of_gcore {s s' : St} (h : gcore s' = gcore s) (i : InvG s) : InvG s' := by
  simp only [gcore, Prod.mk.injEq] at h
  obtain ⟨h1, h2, h3, h4, h5, h6, h7, h8⟩ := h
  exact ⟨by rw [h3, h1, h2]; exact i.wire, by rw [h4, h3]; exact i.recvd, by rw [h7, h6, h5, h4]; exact i.flow,
    by rw [h8]; unfold St.taken; rw [h7]; exact i.deliv, by unfold St.lost; rw [h7]; exact i.lost⟩

/-! ### frame lemmas -/

@[simp] theorem gcore_setStatus (s : St) (t : Tid) (x : Status) : gcore (s.setStatus t x) = gcore s := rfl
@[simp] theorem gcore_setProg (s : St) (t : Tid) (p : Prog) : gcore (s.setProg t p) = gcore s := rfl
@[simp] theorem gcore_spawn (s : St) (t : Tid) (p : Prog) : gcore (s.spawn t p) = gcore s := rfl
@[simp] theorem gcore_finish (s : St) (t : Tid) : gcore (s.finish t) = gcore s := rfl

@[simp] theorem gcore_cancelTask (s : St) (t : Tid) : gcore (s.cancelTask t) = gcore s := by
  unfold St.cancelTask
  split <;> try rfl
  split <;> rfl

@[simp] theorem gcore_wakeGetter (s : St) (t : Tid) : gcore (s.wakeGetter t) = gcore s := by
  unfold St.wakeGetter
  split <;> rfl

@[simp] theorem gcore_initiateClose (s : St) : gcore s.initiateClose = gcore s := by
  unfold St.initiateClose
  split <;> rfl

@[simp] theorem gcore_startDispatching (s : St) (cfg : Cfg) : gcore (s.startDispatching cfg) = gcore s := by
  unfold St.startDispatching
  split <;> rfl

@[simp] theorem gcore_startHeartbeats (s : St) : gcore s.startHeartbeats = gcore s := rfl

theorem delivered_append (l : List Obs) (o : Obs) : delivered (l ++ [o]) = delivered l ++ (deliveredObs o).toList := by
  simp only [delivered, List.filterMap_append]
  cases h : deliveredObs o <;> simp [List.filterMap, h]

/-- emitting an observable that delivers nothing -/
theorem gcore_emit (s : St) (o : Obs) (h : deliveredObs o = none) : gcore (s.emit o) = gcore s := by
  simp only [gcore, St.emit, Prod.mk.injEq, true_and]
  rw [delivered_append, h]; simp

theorem gcore_runCont (s : St) (t : Tid) (c : Cont) : gcore (runCont s t c) = gcore s := by
  cases c with
  | readerTail => rfl
  | handlerTail n => exact gcore_emit s (.msgExit n) rfl
  | monitorTail => rfl
  | closingTail => rfl
  | userTail u r =>
      show gcore (s.emit (.ret u r.toRes)) = gcore s
      exact gcore_emit s _ (by cases r <;> rfl)

theorem gcore_closeTail (cfg : Cfg) (s : St) (t : Tid) (c : Cont) : gcore (closeTail cfg s t c) = gcore s := by
  unfold closeTail
  simp only
  have h1 : gcore (s.emit .tclose) = gcore s := gcore_emit s _ rfl
  split
  · rw [gcore_runCont]; exact h1
  · have h2 : gcore ((s.emit .tclose).emit .cbEnter) = gcore s := by rw [gcore_emit _ _ rfl]; exact h1
    split
    · exact h2
    · rw [gcore_runCont]
      show gcore (((s.emit .tclose).emit .cbEnter).emit .cbExit) = gcore s
      rw [gcore_emit _ _ rfl]; exact h2

theorem gcore_suspendOn (s : St) (t x : Tid) (pc : Nat) (c : Cont) : gcore (suspendOn s t x pc c) = gcore s :=
  gcore_cancelTask s x

theorem gcore_execClose (cfg : Cfg) (t : Tid) (c : Cont) (pc : Nat) (s : St) :
    gcore (execClose cfg s t c pc) = gcore s := by
  refine execClose_rule cfg t c (fun s' => gcore s' = gcore s) (fun s' => gcore s' = gcore s) ?_ ?_ ?_ ?_ pc s rfl
  · intro s' h; exact h
  · intro s' h; exact h
  · intro s' x pc' h _ _ _; rw [gcore_suspendOn]; exact h
  · intro s' h; rw [gcore_closeTail]; exact h

theorem gcore_enterClose (cfg : Cfg) (s : St) (t : Tid) (c : Cont) : gcore (enterClose cfg s t c) = gcore s := by
  unfold enterClose
  split
  · exact gcore_runCont s t c
  · rw [gcore_execClose]; rfl

theorem gcore_stepInClose (cfg : Cfg) (s : St) (t : Tid) (b : Bool) : gcore (stepInClose cfg s t b) = gcore s := by
  unfold stepInClose
  split
  · split
    · unfold resumeClose
      rw [gcore_execClose]
      split <;> rfl
    · rfl
  · split
    · split
      · split
        · exact gcore_emit { s with cstage := .aborted } _ rfl
        · rfl
      · split
        · rw [gcore_runCont]; exact gcore_emit s _ rfl
        · rfl
    · rfl
  · rfl

theorem gcore_stepMon (cfg : Cfg) (s : St) (b : Bool) : gcore (stepMon cfg s b) = gcore s := by
  unfold stepMon
  split
  · split
    · rfl
    · exact gcore_emit s _ rfl
  · split
    · rfl
    · exact gcore_enterClose cfg s _ _

/-- close a goal `InvG s'` from `i : InvG s` when the fields `InvG` reads are unchanged -/
macro "ig" i:ident : tactic => `(tactic| first
  | exact $i
  | (refine InvG.of_gcore ?_ $i; rfl)
  | (refine InvG.of_gcore ?_ $i; simp only [gcore_setStatus, gcore_setProg, gcore_spawn, gcore_finish, gcore_cancelTask,
      gcore_wakeGetter, gcore_initiateClose, gcore_startDispatching, gcore_startHeartbeats, gcore_runCont, gcore_enterClose,
      gcore_stepInClose, gcore_stepMon]; done))

theorem InvG.emit {s : St} {o : Obs} (h : deliveredObs o = none) (i : InvG s) : InvG (s.emit o) :=
  InvG.of_gcore (gcore_emit s o h) i

theorem taken_append_true (g : List (Nat × Bool)) (n : Nat) :
    ((g ++ [(n, true)]).filter (·.2)).map (·.1) = (g.filter (·.2)).map (·.1) ++ [n] := by
  simp [List.filter_append]

theorem taken_append_false (g : List (Nat × Bool)) (l : List Nat) :
    ((g ++ l.map (fun n => (n, false))).filter (·.2)).map (·.1) = (g.filter (·.2)).map (·.1) := by
  simp [List.filter_append]

theorem lost_append_true (g : List (Nat × Bool)) (n : Nat) :
    ((g ++ [(n, true)]).filter (fun p => !p.2)).map (·.1) = (g.filter (fun p => !p.2)).map (·.1) := by
  simp [List.filter_append]

theorem St.lost_gone_append_true {s : St} (h : s.lost = []) (n : Nat) :
    ((s.gone ++ [(n, true)]).filter (fun p => !p.2)).map (·.1) = [] := by
  rw [lost_append_true]; exact h

/-- a message leaves the queue / the pending slot and is handed to a consumer, observably -/
theorem InvG.deliver_from_queue {s : St} (i : InvG s) {n : Nat} {q : List Nat} {o : Obs}
    (hq : s.queue = n :: q) (hv : s.vres = none) (ho : deliveredObs o = some n) :
    InvG (({ s with queue := q, gone := s.gone ++ [(n, true)] } : St).emit o) := by
  refine ⟨i.wire, i.recvd, ?_, ?_, St.lost_gone_append_true i.lost n⟩
  · have := i.flow
    rw [hq, hv] at this
    show (s.gone ++ [(n, true)]).map (·.1) ++ s.vres.toList ++ q = s.recvd
    rw [hv]; simpa using this
  · show delivered (s.trace ++ [o]) = _
    rw [delivered_append, ho, i.deliv]
    unfold St.taken
    show _ = ((s.gone ++ [(n, true)]).filter (·.2)).map (·.1)
    rw [taken_append_true]; rfl

theorem msgsOf_append (a b : List Frame) : msgsOf (a ++ b) = msgsOf a ++ msgsOf b := by
  simp [msgsOf, List.filterMap_append]

theorem stepReader_InvG {cfg : Cfg} {s : St} (i : InvG s) : InvG (stepReader cfg s) := by
  unfold stepReader
  split
  · ig i
  · split
    · exact i
    · rename_i f rest hb
      have hw : (s.consumed ++ [f]) ++ rest = s.wire := by
        have := i.wire; rw [hb] at this; simpa using this
      cases f with
      | msg n =>
        simp only
        unfold St.put
        apply InvG.of_gcore (gcore_wakeGetter _ _)
        apply InvG.of_gcore (gcore_wakeGetter _ _)
        refine ⟨hw, ?_, ?_, i.deliv, i.lost⟩
        · show s.recvd ++ [n] = msgsOf (s.consumed ++ [.msg n])
          rw [msgsOf_append, i.recvd]; rfl
        · show s.gone.map (·.1) ++ s.vres.toList ++ (s.queue ++ [n]) = s.recvd ++ [n]
          rw [← i.flow]; simp
      | hb =>
        simp only
        refine ⟨hw, ?_, i.flow, i.deliv, i.lost⟩
        show s.recvd = msgsOf (s.consumed ++ [.hb])
        rw [msgsOf_append, i.recvd]; simp [msgsOf]
      | logout =>
        simp only
        refine InvG.of_gcore (gcore_enterClose _ _ _ _) ?_
        refine ⟨hw, ?_, i.flow, i.deliv, i.lost⟩
        show s.recvd = msgsOf (s.consumed ++ [.logout])
        rw [msgsOf_append, i.recvd]; simp [msgsOf]
      | bad =>
        simp only
        refine InvG.of_gcore (gcore_enterClose _ _ _ _) ?_
        refine ⟨hw, ?_, i.flow, i.deliv, i.lost⟩
        show s.recvd = msgsOf (s.consumed ++ [.bad])
        rw [msgsOf_append, i.recvd]; simp [msgsOf]

theorem dispHandle_InvG {cfg : Cfg} {s : St} (i : InvG s) (n : Nat) : InvG (dispHandle cfg s n) := by
  unfold dispHandle
  split
  · exact InvG.of_gcore (s := s.emit (.msgExit n)) rfl (i.emit rfl)
  · ig i
  · exact InvG.of_gcore (gcore_enterClose _ _ _ _) i
  · exact InvG.of_gcore (s := (s.initiateClose).emit (.msgExit n)) rfl
      (InvG.emit rfl (InvG.of_gcore (gcore_initiateClose _) i))
  · exact InvG.of_gcore (s := s.emit (.msgRaise n)) rfl (i.emit rfl)
  · exact InvG.of_gcore (s := ((s.emit (.write .reply)).startHeartbeats).emit (.msgExit n)) rfl
      (InvG.emit rfl (InvG.of_gcore (gcore_startHeartbeats _) (i.emit rfl)))
  · exact InvG.of_gcore (gcore_enterClose _ _ _ _) (i.emit rfl)

theorem gcore_dispHandle (cfg : Cfg) (s : St) (n : Nat) : gcore (dispHandle cfg s n) = gcore s := by
  unfold dispHandle
  split
  · exact gcore_emit s (.msgExit n) rfl
  · rfl
  · exact gcore_enterClose _ _ _ _
  · show gcore ((s.initiateClose).emit (.msgExit n)) = gcore s
    rw [gcore_emit _ _ rfl, gcore_initiateClose]
  · exact gcore_emit s (.msgRaise n) rfl
  · show gcore (((s.emit (.write .reply)).startHeartbeats).emit (.msgExit n)) = gcore s
    rw [gcore_emit _ _ rfl, gcore_startHeartbeats, gcore_emit _ _ rfl]
  · rw [gcore_enterClose]; exact gcore_emit s _ rfl

theorem stepDisp_InvG {cfg : Cfg} {s : St} (i : InvG s) : InvG (stepDisp cfg s) := by
  unfold stepDisp
  split
  · ig i
  · split
    · exact i
    · rename_i hbusy
      have hv : s.vres = none := by
        simp only [Bool.or_eq_true, not_or, Bool.not_eq_true, Option.isSome_eq_false_iff, Option.isNone_iff_eq_none] at hbusy
        exact hbusy.2
      split
      · ig i
      · rename_i n q hq
        exact dispHandle_InvG (i.deliver_from_queue hq hv rfl) n

theorem loginResume_InvG {cfg : Cfg} {s : St} (i : InvG s) (t : Tid) (u : Nat) : InvG (loginResume cfg s t u) := by
  unfold loginResume
  split
  · rename_i n hv
    have i1 : InvG (({ s with vres := none, rcvBusy := false, gone := s.gone ++ [(n, true)] } : St).emit (.loginReply n)) := by
      refine ⟨i.wire, i.recvd, ?_, ?_, St.lost_gone_append_true i.lost n⟩
      · have := i.flow
        rw [hv] at this
        show (s.gone ++ [(n, true)]).map (·.1) ++ [] ++ s.queue = s.recvd
        simpa using this
      · show delivered (s.trace ++ [.loginReply n]) = _
        rw [delivered_append, i.deliv]
        unfold St.taken
        show _ = ((s.gone ++ [(n, true)]).filter (·.2)).map (·.1)
        rw [taken_append_true]; rfl
    simp only
    split
    · refine InvG.of_gcore (s := (((({ s with vres := none, rcvBusy := false, gone := s.gone ++ [(n, true)] } : St).emit (.loginReply n)).startHeartbeats).startDispatching cfg).emit (.ret u .ok)) rfl ?_
      exact InvG.emit rfl (InvG.of_gcore (by rw [gcore_startDispatching, gcore_startHeartbeats]) i1)
    · exact InvG.of_gcore (gcore_enterClose _ _ _ _) i1
  · split
    · exact InvG.of_gcore (s := ({ s with rcvBusy := false } : St).emit (.ret u .refused)) rfl
        (InvG.emit rfl (InvG.of_gcore (s := s) rfl i))
    · exact InvG.of_gcore (gcore_enterClose _ _ _ _) (InvG.of_gcore (s := s) rfl i)

/-- a late cancel puts the held message back in front of the queue: the flow is untouched, nothing is dropped -/
theorem InvG.unhold {s : St} (i : InvG s) :
    InvG { s with vres := none, rcvBusy := false, queue := s.vres.toList ++ s.queue } := by
  refine ⟨i.wire, i.recvd, ?_, i.deliv, i.lost⟩
  have := i.flow
  show s.gone.map (·.1) ++ [] ++ (s.vres.toList ++ s.queue) = s.recvd
  rw [← this]
  simp

theorem InvG.unhold_emit {s : St} (i : InvG s) (o : Obs) (h : deliveredObs o = none) :
    InvG (({ s with vres := none, rcvBusy := false, queue := s.vres.toList ++ s.queue } : St).emit o) :=
  InvG.emit h i.unhold

theorem InvG.noBusy_emit {s : St} (i : InvG s) (o : Obs) (h : deliveredObs o = none) :
    InvG (({ s with rcvBusy := false } : St).emit o) :=
  InvG.emit h (InvG.of_gcore (s := s) rfl i)

/-- a user call returns (not with a message) -/
macro "ig_ret" i:ident : tactic => `(tactic| first
  | (refine InvG.of_gcore ?_ (InvG.noBusy_emit $i (.ret ?u .eoq) rfl); rfl)
  | (refine InvG.of_gcore ?_ (InvG.noBusy_emit $i (.ret ?u .cancelled) rfl); rfl)
  | (refine InvG.of_gcore ?_ (InvG.noBusy_emit $i (.ret ?u .refused) rfl); rfl)
  | (refine InvG.of_gcore ?_ (InvG.unhold_emit $i (.ret ?u .cancelled) rfl); rfl)
  | (refine InvG.of_gcore ?_ (InvG.unhold_emit $i (.ret ?u .eoq) rfl); rfl)
  | (refine InvG.of_gcore ?_ (InvG.unhold_emit $i (.ret ?u .refused) rfl); rfl))

theorem stepRun_InvG {cfg : Cfg} {s : St} (i : InvG s) (t : Tid) : InvG (stepRun cfg s t) := by
  unfold stepRun
  have i0 : InvG { s with imm := none } := InvG.of_gcore (s := s) rfl i
  generalize ({ s with imm := none } : St) = s0 at i0
  simp only
  split
  · -- cancelled
    split
    · exact InvG.of_gcore (s := s0.emit (.msgAbandon _)) rfl (i0.emit rfl)
    · ig i0
    · split
      · ig_ret i0
      · ig_ret i0
    · split
      · ig_ret i0
      · refine InvG.of_gcore (gcore_enterClose _ _ _ _) ?_
        refine InvG.of_gcore ?_ i0.unhold; rfl
    · exact InvG.of_gcore (gcore_stepInClose _ _ _ _) i0
    · ig i0
  · -- ready
    split
    · split
      · exact stepReader_InvG i0
      · exact i0
    · split
      · exact stepDisp_InvG i0
      · exact i0
    · split
      · exact InvG.of_gcore (s := s0.emit (.msgExit _)) rfl (i0.emit rfl)
      · ig i0
    · ig i0
    · split
      · exact InvG.of_gcore (gcore_stepMon _ _ _) i0
      · split
        · exact InvG.of_gcore (gcore_stepMon _ _ _) i0
        · exact i0
    · exact InvG.of_gcore (gcore_enterClose _ _ _ _) i0
    · exact InvG.of_gcore (gcore_stepInClose _ _ _ _) i0
    · -- the receive helper takes a message off the queue
      split
      · ig i0
      · rename_i n q hq
        split
        · exact i0
        · rename_i hv
          have hv' : s0.vres = none := by simpa using hv
          refine InvG.of_gcore (s := { s0 with queue := q, vres := some n }) rfl ?_
          refine ⟨i0.wire, i0.recvd, ?_, i0.deliv, i0.lost⟩
          have := i0.flow
          rw [hq, hv'] at this
          show s0.gone.map (·.1) ++ [n] ++ q = s0.recvd
          simpa using this
    · split
      · rename_i n hv
        refine InvG.of_gcore (s := ({ s0 with vres := none, rcvBusy := false, gone := s0.gone ++ [(n, true)] } : St).emit (.ret _ (.msg n))) rfl ?_
        refine ⟨i0.wire, i0.recvd, ?_, ?_, St.lost_gone_append_true i0.lost n⟩
        · have := i0.flow
          rw [hv] at this
          show (s0.gone ++ [(n, true)]).map (·.1) ++ [] ++ s0.queue = s0.recvd
          simpa using this
        · show delivered (s0.trace ++ [.ret _ (.msg n)]) = _
          rw [delivered_append, i0.deliv]
          unfold St.taken
          show _ = ((s0.gone ++ [(n, true)]).filter (·.2)).map (·.1)
          rw [taken_append_true]; rfl
      · split
        · ig_ret i0
        · ig_ret i0
    · exact loginResume_InvG i0 _ _
    · exact i0
  · exact i0

theorem startRecv_InvG {s : St} (i : InvG s) (u : Nat) (b : Bool) : InvG (startRecv s u b) := by
  unfold startRecv
  split
  · exact i
  · rename_i hbusy
    have hv : s.vres = none := by
      simp only [Bool.or_eq_true, not_or, Bool.not_eq_true, Option.isSome_eq_false_iff, Option.isNone_iff_eq_none] at hbusy
      exact hbusy.1.2
    split
    · exact InvG.of_gcore (s := s.emit (.ret u .state)) rfl (i.emit rfl)
    · split
      · rename_i n q hq
        refine InvG.of_gcore (s := { s with queue := q, vres := some n }) rfl ?_
        refine ⟨i.wire, i.recvd, ?_, i.deliv, i.lost⟩
        have := i.flow
        rw [hq, hv] at this
        show s.gone.map (·.1) ++ [n] ++ q = s.recvd
        simpa using this
      · split
        · split
          · exact InvG.of_gcore (s := s.emit (.ret u .refused)) rfl (i.emit rfl)
          · exact InvG.of_gcore (s := s.emit (.ret u .eoq)) rfl (i.emit rfl)
        · ig i

theorem step_InvG {cfg : Cfg} {s : St} (i : InvG s) (ev : Ev) : InvG (step cfg s ev) := by
  cases ev with
  | connect =>
    simp only [step]
    split
    · exact i
    · split
      · exact InvG.of_gcore (by rw [gcore_startDispatching, gcore_spawn]) i
      · ig i
  | data fs =>
    refine ⟨?_, i.recvd, i.flow, i.deliv, i.lost⟩
    show s.consumed ++ (s.buf ++ fs) = s.wire ++ fs
    rw [← i.wire]; simp
  | eof => exact InvG.of_gcore (gcore_initiateClose _) i
  | run t =>
    simp only [step]
    split
    · exact stepRun_InvG i t
    · exact i
  | callClose u =>
    simp only [step]
    split
    · exact i
    · exact InvG.of_gcore (by rw [gcore_enterClose, gcore_setProg, gcore_setStatus]) i
  | callInitiateClose => exact InvG.of_gcore (gcore_initiateClose _) i
  | callLogout =>
    exact InvG.of_gcore (s := s.emit (.write .logout)) (by simp only [step]; rw [gcore_initiateClose]; rfl) (i.emit rfl)
  | callRecv u =>
    simp only [step]
    split
    · exact i
    · exact startRecv_InvG i u false
  | callRecvNowait u =>
    simp only [step]
    split
    · exact i
    · rename_i hbusy
      have hv : s.vres = none := by
        simp only [Bool.or_eq_true, not_or, Bool.not_eq_true, Option.isSome_eq_false_iff, Option.isNone_iff_eq_none] at hbusy
        exact hbusy.2
      split
      · exact i.emit rfl
      · split
        · rename_i n q hq
          exact i.deliver_from_queue hq hv rfl
        · split <;> exact i.emit rfl
  | callLogin u =>
    simp only [step]
    split
    · exact i
    · have i1 : InvG ({ (s.emit (.write .login)) with pingL := true }) :=
        InvG.of_gcore (s := s.emit (.write .login)) rfl (i.emit rfl)
      exact startRecv_InvG i1 u true
  | callSend => exact InvG.of_gcore (s := s.emit (.write .data)) rfl (i.emit rfl)
  | cancel u => exact InvG.of_gcore (gcore_cancelTask _ _) i

theorem InvG.init : InvG {} := ⟨rfl, rfl, rfl, rfl, rfl⟩

/-- **The message-flow invariant holds in every reachable state.** -/
theorem runEvs_InvG (cfg : Cfg) (evs : List Ev) : InvG (runEvs cfg {} evs) := by
  have : ∀ (s : St), InvG s → InvG (runEvs cfg s evs) := by
    induction evs with
    | nil => intro s i; exact i
    | cons ev evs ih => intro s i; exact ih _ (step_InvG i ev)
  exact this _ InvG.init

end NasdaqModel.Sess
