import NasdaqModel.Lemmas.LoginTraceBase
/-
Login at trace level (C11), part 1: the receive bookkeeping and a few global state facts, for every reachable state.

  busy / uniq   at most one user task is inside a receive (`receive_msg()` or the receive of `login()`), and while one is, the
                `rcvBusy` flag is set — so the reply taken for a login cannot be taken by anybody else
  wprog         a user task that awaits the receive helper of an open session is inside a receive
  qc            the queue is stopped only by `close()`:  `qClosed → closed`
  dalive        a live dispatcher task means dispatching was switched on (or the session is closed and it is about to end)
  mons          while the session is open a heartbeat monitor, once started, is running
-/
namespace NasdaqModel.Sess

/-- user task `a` is inside a receive (`receive_msg()` or the receive of `login()`) -/
def rcving (s : St) (a : Nat) : Prop :=
  alive (s.status (.U a)) = true ∧ (s.prog (.U a) = .loginWait a ∨ s.prog (.U a) = .recvWait a)

structure InvW (s : St) : Prop where
  busy : ∀ a, rcving s a → s.rcvBusy = true
  uniq : ∀ a b, rcving s a → rcving s b → a = b
  wprog : ∀ a, s.status (.U a) = .waitT .V → s.closed = false → s.prog (.U a) = .loginWait a ∨ s.prog (.U a) = .recvWait a
  qc : s.qClosed = true → s.closed = true
  dalive : alive (s.status .D) = true → s.dispSet = true ∨ s.closed = true
  mons : s.closed = false → (s.status .L = .absent ∨ s.status .L = .ready) ∧ (s.status .M = .absent ∨ s.status .M = .ready)

/-- what `InvW` reads -/
def lv (s : St) :=
  (fun a => s.status (.U a), fun a => s.prog (.U a), alive (s.status .D), s.status .L, s.status .M, s.rcvBusy, s.dispSet,
    s.closed, s.qClosed)

theorem InvW.of_lv {s s' : St} (h : lv s' = lv s) (i : InvW s) : InvW s' := by
  simp only [lv, Prod.mk.injEq] at h
  obtain ⟨h1, h2, h3, h4, h5, h6, h7, h8, h9⟩ := h
  have e1 : ∀ a, s'.status (.U a) = s.status (.U a) := fun a => congrFun h1 a
  have e2 : ∀ a, s'.prog (.U a) = s.prog (.U a) := fun a => congrFun h2 a
  have hr : ∀ a, rcving s' a ↔ rcving s a := by intro a; unfold rcving; rw [e1, e2]
  refine ⟨?_, ?_, ?_, ?_, ?_, ?_⟩
  · intro a ha; rw [h6]; exact i.busy a ((hr a).mp ha)
  · intro a b ha hb; exact i.uniq a b ((hr a).mp ha) ((hr b).mp hb)
  · intro a; rw [e1, e2, h8]; exact i.wprog a
  · rw [h9, h8]; exact i.qc
  · rw [h3, h7, h8]; exact i.dalive
  · rw [h8, h4, h5]; exact i.mons

/-- close a goal `InvW s'` from `i : InvW s` when `s'` differs from `s` outside what `InvW` reads -/
macro "iw" i:ident : tactic => `(tactic| first
  | exact $i
  | (refine InvW.of_lv ?_ $i; rfl)
  | (refine InvW.of_lv ?_ $i; simp [lv, St.setStatus, St.setProg, St.spawn, St.emit, alive]; done))

theorem alive_finish (s : St) (t y : Tid) : alive ((s.finish t).status y) = (if y = t then false else alive (s.status y)) := by
  rw [finish_status]
  by_cases h : y = t
  · simp [h, alive]
  · simp only [h, if_false]
    split
    · rename_i hw; rw [hw]; rfl
    · rfl

theorem alive_setStatus_cancelled {s : St} {x : Tid} (h : alive (s.status x) = true) (y : Tid) :
    alive ((s.setStatus x .cancelled).status y) = alive (s.status y) := by
  simp only [St.setStatus]; split
  · rename_i e; subst e; rw [h]; rfl
  · rfl

theorem alive_cancelTask (s : St) (x y : Tid) : alive ((s.cancelTask x).status y) = alive (s.status y) := by
  unfold St.cancelTask
  split
  · rename_i h; exact alive_setStatus_cancelled (by rw [h]; rfl) y
  · rename_i h; exact alive_setStatus_cancelled (by rw [h]; rfl) y
  · split
    · rename_i h; exact alive_setStatus_cancelled (by rw [h]; rfl) y
    · rename_i h; exact alive_setStatus_cancelled (by rw [h]; rfl) y
    · rfl
  · rfl

theorem waitT_of_finish {s : St} {t y z : Tid} (h : (s.finish t).status y = .waitT z) : s.status y = .waitT z := by
  rw [finish_status] at h
  split at h
  · simp at h
  · split at h
    · simp at h
    · exact h

theorem waitT_of_setStatus_cancelled {s : St} {x y z : Tid} (h : (s.setStatus x .cancelled).status y = .waitT z) :
    s.status y = .waitT z := by
  simp only [St.setStatus] at h; split at h
  · simp at h
  · exact h

theorem waitT_of_cancelTask {s : St} {x y z : Tid} (h : (s.cancelTask x).status y = .waitT z) : s.status y = .waitT z := by
  unfold St.cancelTask at h
  split at h
  · exact waitT_of_setStatus_cancelled h
  · exact waitT_of_setStatus_cancelled h
  · split at h
    · exact waitT_of_setStatus_cancelled h
    · exact waitT_of_setStatus_cancelled h
    · exact h
  · exact h

/-- a step in which no user task enters a receive and the busy flag does not change -/
theorem InvW.shrink {s s' : St} (i : InvW s) (hr : ∀ a, rcving s' a → rcving s a) (hb : s'.rcvBusy = s.rcvBusy)
    (hw : ∀ a, s'.status (.U a) = .waitT .V → s'.closed = false →
      s.status (.U a) = .waitT .V ∧ s.closed = false ∧ s'.prog (.U a) = s.prog (.U a))
    (hq : s'.qClosed = true → s'.closed = true)
    (hd : alive (s'.status .D) = true → s'.dispSet = true ∨ s'.closed = true)
    (hm : s'.closed = false → (s'.status .L = .absent ∨ s'.status .L = .ready) ∧ (s'.status .M = .absent ∨ s'.status .M = .ready)) :
    InvW s' := by
  refine ⟨?_, ?_, ?_, hq, hd, hm⟩
  · intro a ha; rw [hb]; exact i.busy a (hr a ha)
  · intro a b ha hb'; exact i.uniq a b (hr a ha) (hr b hb')
  · intro a ha hc
    obtain ⟨h1, h2, h3⟩ := hw a ha hc
    rw [h3]; exact i.wprog a h1 h2

/-- the receiving user `u` leaves its receive -/
theorem InvW.clear {s s' : St} (i : InvW s) (u : Nat) (hu : rcving s u) (hr : ∀ a, rcving s' a → rcving s a ∧ a ≠ u)
    (hw : ∀ a, s'.status (.U a) = .waitT .V → s'.closed = false →
      s.status (.U a) = .waitT .V ∧ s.closed = false ∧ s'.prog (.U a) = s.prog (.U a))
    (hq : s'.qClosed = true → s'.closed = true)
    (hd : alive (s'.status .D) = true → s'.dispSet = true ∨ s'.closed = true)
    (hm : s'.closed = false → (s'.status .L = .absent ∨ s'.status .L = .ready) ∧ (s'.status .M = .absent ∨ s'.status .M = .ready)) :
    InvW s' := by
  have none : ∀ a, ¬ rcving s' a := by
    intro a ha
    obtain ⟨h1, h2⟩ := hr a ha
    exact h2 (i.uniq a u h1 hu)
  refine ⟨fun a ha => absurd ha (none a), fun a _ ha => absurd ha (none a), ?_, hq, hd, hm⟩
  intro a ha hc
  obtain ⟨h1, h2, h3⟩ := hw a ha hc
  rw [h3]; exact i.wprog a h1 h2

/-- a task other than a running monitor of an open session ends -/
theorem InvW.finish {s : St} (i : InvW s) (t : Tid) (hLM : s.closed = false → t ≠ .L ∧ t ≠ .M) : InvW (s.finish t) := by
  apply i.shrink
  · intro a ⟨h1, h2⟩
    rw [alive_finish] at h1
    split at h1
    · simp at h1
    · exact ⟨h1, h2⟩
  · rfl
  · intro a ha hc; exact ⟨waitT_of_finish ha, hc, rfl⟩
  · exact i.qc
  · intro h
    rw [alive_finish] at h
    split at h
    · simp at h
    · exact i.dalive h
  · intro hc
    have hc' : s.closed = false := hc
    obtain ⟨hL, hM⟩ := i.mons hc'
    obtain ⟨tL, tM⟩ := hLM hc'
    constructor
    · rw [finish_status]; simp only [Ne.symm tL, if_false]
      rcases hL with h | h <;> simp [h]
    · rw [finish_status]; simp only [Ne.symm tM, if_false]
      rcases hM with h | h <;> simp [h]

/-- `close()` called by the running task `t` -/
theorem InvW.enter {s s' : St} {t : Tid} {c : Cont} (i : InvW s) (e : EnterSpec t c s s') : InvW s' := by
  apply i.shrink
  · intro a ⟨h1, h2⟩
    by_cases hat : Tid.U a = t
    · exfalso
      rcases e.fin with h | h | h | h
      · rw [← hat] at h; rw [h] at h1; simp [alive] at h1
      · rw [← hat] at h; rw [h.1] at h2; simp at h2
      · rw [← hat] at h; simp at h
      · rw [← hat] at h; simp at h
    · obtain ⟨o1, o2⟩ := e.other (.U a) hat (stageOf_user a)
      rw [o1] at h1; rw [o2] at h2; exact ⟨h1, h2⟩
  · exact e.busy
  · intro a _ hc; rw [e.closed] at hc; simp at hc
  · intro _; exact e.closed
  · intro _; exact Or.inr e.closed
  · intro hc; rw [e.closed] at hc; simp at hc

/-- a step of the task that is inside `close()` -/
theorem InvW.ce {s s' : St} {ab : Bool} {t : Tid} {c : Cont} (i : InvW s) (hcl : s.closed = true) (e : CE ab t c s s')
    (f : Fin t s') : InvW s' := by
  have hcl' : s'.closed = true := by rw [e.closed]; exact hcl
  apply i.shrink
  · intro a ⟨h1, h2⟩
    by_cases hat : Tid.U a = t
    · exfalso
      rcases f with h | h | h | h
      · rw [← hat] at h; rw [h] at h1; simp [alive] at h1
      · rw [← hat] at h; rw [h.1] at h2; simp at h2
      · rw [← hat] at h; simp at h
      · rw [← hat] at h; simp at h
    · obtain ⟨o1, o2⟩ := e.other (.U a) hat (stageOf_user a)
      rw [o1] at h1; rw [o2] at h2; exact ⟨h1, h2⟩
  · exact e.busy
  · intro a _ hc; rw [hcl'] at hc; simp at hc
  · intro _; exact hcl'
  · intro _; exact Or.inr hcl'
  · intro hc; rw [hcl'] at hc; simp at hc

theorem lv_put (s : St) (m : Nat) : lv (s.put m) = lv s := by
  unfold St.put St.wakeGetter
  simp only [lv]
  split <;> split <;> simp_all [St.setStatus, alive]

theorem InvW.put {s : St} (i : InvW s) (m : Nat) : InvW (s.put m) := InvW.of_lv (lv_put s m) i

theorem lv_initiateClose (s : St) : lv s.initiateClose = lv s := by
  unfold St.initiateClose
  split
  · rfl
  · simp [lv, St.spawn, St.setStatus, St.setProg]

theorem InvW.initiateClose {s : St} (i : InvW s) : InvW s.initiateClose := InvW.of_lv (lv_initiateClose s) i

theorem InvW.startDispatching {s : St} (i : InvW s) (cfg : Cfg) : InvW (s.startDispatching cfg) := by
  unfold St.startDispatching
  split
  · apply i.shrink (s' := ({ s with dispSet := true } : St).spawn .D .dispLoop)
    · intro a h; exact h
    · rfl
    · intro a ha hc; exact ⟨ha, hc, rfl⟩
    · exact i.qc
    · intro _; exact Or.inl rfl
    · exact i.mons
  · exact i

theorem InvW.startHeartbeats {s : St} (i : InvW s) : InvW s.startHeartbeats := by
  apply i.shrink (s' := s.startHeartbeats)
  · intro a h; exact h
  · rfl
  · intro a ha hc; exact ⟨ha, hc, rfl⟩
  · exact i.qc
  · exact i.dalive
  · intro _; exact ⟨Or.inr rfl, Or.inr rfl⟩

/-! ### the steps -/

theorem stepReader_W {cfg : Cfg} {s : St} (a : InvA cfg s) (b : InvB s) (i : InvW s)
    (hst : s.status .R = .ready) : InvW (stepReader cfg s) := by
  unfold stepReader
  split
  · exact i.finish .R (fun _ => ⟨by simp, by simp⟩)
  · split
    · exact i
    · have p : ClosePre s .R := ClosePre.of_inv a b hst (c := .readerTail) rfl
      split
      · apply InvW.put; iw i
      · iw i
      · refine InvW.enter (s := { s with buf := _, consumed := _ }) (by iw i) (enterClose_spec (p.same rfl rfl rfl) rfl)
      · refine InvW.enter (s := { s with buf := _, consumed := _ }) (by iw i) (enterClose_spec (p.same rfl rfl rfl) rfl)

theorem dispHandle_W {cfg : Cfg} {s : St} (i : InvW s) (p : ClosePre s .D) (n : Nat) : InvW (dispHandle cfg s n) := by
  unfold dispHandle
  split
  · iw i
  · iw i
  · exact i.enter (enterClose_spec p rfl)
  · have := i.initiateClose; iw this
  · iw i
  · have i1 : InvW (s.emit (.write .reply)) := by iw i
    have := i1.startHeartbeats; iw this
  · exact InvW.enter (s := s.emit (.write .reply)) (by iw i) (enterClose_spec (p.same rfl rfl rfl) rfl)

theorem stepDisp_W {cfg : Cfg} {s : St} (a : InvA cfg s) (b : InvB s) (i : InvW s)
    (hst : s.status .D = .ready) : InvW (stepDisp cfg s) := by
  unfold stepDisp
  split
  · exact i.finish .D (fun _ => ⟨by simp, by simp⟩)
  · split
    · exact i
    · split
      · refine InvW.of_lv ?_ i
        simp [lv, St.setStatus, alive, hst]
      · have p : ClosePre s .D := ClosePre.of_inv a b hst (c := .handlerTail 0) rfl
        exact dispHandle_W (s := ({ s with queue := _, gone := _ } : St).emit (.msgEnter _)) (by iw i) (p.same rfl rfl rfl) _

theorem stepMon_W {cfg : Cfg} {s : St} (a : InvA cfg s) (b : InvB s) (i : InvW s) (isLocal : Bool)
    (hst : s.status .M = .ready) : InvW (stepMon cfg s isLocal) := by
  unfold stepMon
  split
  · split
    · iw i
    · iw i
  · split
    · iw i
    · exact i.enter (enterClose_spec (ClosePre.of_inv a b hst (c := .monitorTail) rfl) rfl)

/-- the state of a receiving user `t = U u` after it has left the receive and ended -/
theorem InvW.leave_finish {s s1 : St} (i : InvW s) (u : Nat) (hu : rcving s u)
    (h1 : s1.status = s.status) (h2 : s1.prog = s.prog) (h3 : s1.closed = s.closed) (h4 : s1.qClosed = s.qClosed)
    (h5 : s1.dispSet = s.dispSet) : InvW (s1.finish (.U u)) := by
  apply i.clear u hu
  · intro a ⟨ha1, ha2⟩
    rw [alive_finish] at ha1
    split at ha1
    · simp at ha1
    · rename_i hne
      rw [h1] at ha1
      refine ⟨⟨ha1, by rw [← h2]; exact ha2⟩, ?_⟩
      intro e; subst e; exact hne rfl
  · intro a ha hc
    have := waitT_of_finish ha
    rw [h1] at this
    exact ⟨this, by rw [← h3]; exact hc, by show s1.prog _ = _; rw [h2]⟩
  · show s1.qClosed = true → s1.closed = true
    rw [h3, h4]; exact i.qc
  · intro h
    rw [alive_finish] at h
    split at h
    · simp at h
    · show s1.dispSet = true ∨ s1.closed = true
      rw [h1] at h; rw [h5, h3]; exact i.dalive h
  · intro hc
    have hc' : s.closed = false := by rw [← h3]; exact hc
    obtain ⟨hL, hM⟩ := i.mons hc'
    constructor
    · rw [finish_status, h1]; simp only [show Tid.L ≠ Tid.U u by simp, if_false]
      rcases hL with h | h <;> simp [h]
    · rw [finish_status, h1]; simp only [show Tid.M ≠ Tid.U u by simp, if_false]
      rcases hM with h | h <;> simp [h]

/-- a receiving user leaves its receive and calls `close()` -/
theorem InvW.leave_enter {s s1 s' : St} (i : InvW s) (u : Nat) (hu : rcving s u) {c : Cont}
    (h1 : ∀ y, y ≠ .U u → s1.status y = s.status y) (h2 : s1.prog = s.prog)
    (e : EnterSpec (.U u) c s1 s') : InvW s' := by
  apply i.clear u hu
  · intro a ⟨ha1, ha2⟩
    by_cases hat : a = u
    · exfalso; subst hat
      rcases e.fin with h | h | h | h
      · rw [h] at ha1; simp [alive] at ha1
      · rw [h.1] at ha2; simp at ha2
      · simp at h
      · simp at h
    · have hne : Tid.U a ≠ Tid.U u := by intro e; injection e with e; exact hat e
      obtain ⟨o1, o2⟩ := e.other (.U a) hne (stageOf_user a)
      rw [o1, h1 _ hne] at ha1; rw [o2, h2] at ha2
      exact ⟨⟨ha1, ha2⟩, hat⟩
  · intro a _ hc; rw [e.closed] at hc; simp at hc
  · intro _; exact e.closed
  · intro _; exact Or.inr e.closed
  · intro hc; rw [e.closed] at hc; simp at hc

/-- a receiving user leaves its receive and returns the session: heartbeats and dispatching have been started -/
theorem InvW.accept {s s2 : St} (i : InvW s) (u : Nat) (hu : rcving s u)
    (e1 : ∀ a, s2.status (.U a) = s.status (.U a)) (e2 : ∀ a, s2.prog (.U a) = s.prog (.U a))
    (e3 : s2.closed = s.closed) (e4 : s2.qClosed = s.qClosed) (eL : s2.status .L = .ready) (eM : s2.status .M = .ready)
    (e5 : alive (s2.status .D) = true → s2.dispSet = true ∨ s2.closed = true) :
    InvW ((s2.emit (.ret u .ok)).finish (.U u)) := by
  apply i.clear u hu
  · intro a' ⟨ha1, ha2⟩
    rw [alive_finish] at ha1
    split at ha1
    · simp at ha1
    · rename_i hne
      have ha1' : alive (s2.status (.U a')) = true := ha1
      have ha2' : s2.prog (.U a') = .loginWait a' ∨ s2.prog (.U a') = .recvWait a' := ha2
      rw [e1] at ha1'; rw [e2] at ha2'
      exact ⟨⟨ha1', ha2'⟩, by intro e; subst e; exact hne rfl⟩
  · intro a' ha hc
    have h1' : s2.status (.U a') = .waitT .V := waitT_of_finish ha
    have hc' : s2.closed = false := hc
    rw [e1] at h1'; rw [e3] at hc'
    exact ⟨h1', hc', e2 a'⟩
  · show s2.qClosed = true → s2.closed = true
    rw [e3, e4]; exact i.qc
  · intro h
    rw [alive_finish] at h
    split at h
    · simp at h
    · exact e5 h
  · intro _
    constructor
    · right; rw [finish_status]; simp [show (s2.emit (.ret u .ok)).status .L = .ready from eL]
    · right; rw [finish_status]; simp [show (s2.emit (.ret u .ok)).status .M = .ready from eM]

theorem loginResume_W {cfg : Cfg} {s : St} (a : InvA cfg s) (b : InvB s) (i : InvW s) (u : Nat)
    (hst : s.status (.U u) = .ready) (hp : s.prog (.U u) = .loginWait u) : InvW (loginResume cfg s (.U u) u) := by
  have hu : rcving s u := ⟨by rw [hst]; rfl, Or.inl hp⟩
  have p : ClosePre s (.U u) := ClosePre.of_inv a b hst (c := .userTail u .refused) rfl
  unfold loginResume
  split
  · simp only
    split
    · -- accepted
      rename_i n _ hacc
      obtain ⟨f1, f2, f3, _, _, _, _, _, f9⟩ := startDispatching_frame
        ((({ s with vres := none, rcvBusy := false, gone := s.gone ++ [(n, true)] } : St).emit (.loginReply n)).startHeartbeats) cfg
      refine i.accept u hu (fun a' => (f1 (.U a') (by simp)).1) (fun a' => (f1 (.U a') (by simp)).2) f2 f3
        (f1 .L (by simp)).1 (f1 .M (by simp)).1 ?_
      intro hD
      rcases f9 with ⟨h, _⟩ | ⟨h1, h2⟩
      · exact Or.inl h
      · rw [h2] at hD; rw [h1, f2]; exact i.dalive hD
    · exact i.leave_enter u hu (s1 := ({ s with vres := none, rcvBusy := false, gone := _ } : St).emit (.loginReply _))
        (fun _ _ => rfl) rfl (enterClose_spec (p.same rfl rfl rfl) rfl)
  · split
    · exact i.leave_finish u hu (s1 := ({ s with rcvBusy := false } : St).emit (.ret u .refused)) rfl rfl rfl rfl rfl
    · exact i.leave_enter u hu (s1 := ({ s with rcvBusy := false } : St)) (fun _ _ => rfl) rfl
        (enterClose_spec (p.same rfl rfl rfl) rfl)

theorem stepRun_W {cfg : Cfg} {s : St} (a : InvA cfg s) (r : InvR s) (b : InvB s) (i : InvW s) (t : Tid) :
    InvW (stepRun cfg s t) := by
  unfold stepRun
  have i0 : InvW ({ s with imm := none } : St) := by iw i
  have b0 : InvB ({ s with imm := none } : St) := InvB.of_bcore (s := s) rfl b
  have a0 : InvA cfg ({ s with imm := none } : St) := InvA.of_core (s := s) rfl a
  have r0 : InvR ({ s with imm := none } : St) := by ir r
  generalize ({ s with imm := none } : St) = s0 at i0 a0 r0 b0
  simp only
  -- a cancelled task of an open session is not a monitor
  have notLM : ∀ t, s0.status t = .cancelled → s0.closed = false → t ≠ .L ∧ t ≠ .M := by
    intro t hst hc
    obtain ⟨hL, hM⟩ := i0.mons hc
    constructor
    · intro e; subst e; rcases hL with h | h <;> rw [h] at hst <;> simp at hst
    · intro e; subst e; rcases hM with h | h <;> rw [h] at hst <;> simp at hst
  split
  · -- cancelled
    rename_i hst
    have hal : alive (s0.status t) = true := by rw [hst]; rfl
    have htyp := b0.typ t hal
    split
    · exact InvW.finish (s := s0.emit _) (by iw i0) t (notLM t hst)
    · exact i0.finish t (notLM t hst)
    · rename_i u hp
      have htu : t = .U u := allowed_recvWait (by rw [hp] at htyp; exact htyp)
      subst htu
      have hu : rcving s0 u := ⟨hal, Or.inr hp⟩
      split
      · exact i0.leave_finish u hu (s1 := ({ s0 with vres := none, rcvBusy := false, queue := _ } : St).emit (.ret u .eoq)) rfl rfl rfl rfl rfl
      · exact i0.leave_finish u hu (s1 := ({ s0 with vres := none, rcvBusy := false, queue := _ } : St).emit (.ret u .cancelled)) rfl rfl rfl rfl rfl
    · rename_i u hp
      have htu : t = .U u := allowed_loginWait (by rw [hp] at htyp; exact htyp)
      subst htu
      have hu : rcving s0 u := ⟨hal, Or.inl hp⟩
      split
      · exact i0.leave_finish u hu (s1 := ({ s0 with vres := none, rcvBusy := false, queue := _ } : St).emit (.ret u .refused)) rfl rfl rfl rfl rfl
      · refine i0.leave_enter u hu (s1 := ({ s0 with vres := none, rcvBusy := false, queue := _ } : St).setStatus (.U u) .ready)
          ?_ rfl (enterClose_spec (ClosePre.of_cancelled a0 b0 (c := .userTail u .cancelled) rfl (stageOf_user u) rfl rfl (fun _ => rfl)) rfl)
        intro y hy; simp [St.setStatus, hy]
    · rename_i hp
      rcases stepInClose_spec (cfg := cfg) b0 t true (Or.inr hst) (by simp) with h | ⟨c, hc, _, e, f⟩
      · rw [h]; exact i0
      · have hcl : s0.closed = true := a0.closed_iff.mpr (by intro h; rw [h] at hc; simp [contOf] at hc)
        exact i0.ce hcl e f
    · exact i0.finish t (notLM t hst)
  · -- ready
    rename_i hst
    have hal : alive (s0.status t) = true := by rw [hst]; rfl
    have htyp := b0.typ t hal
    split
    · split
      · rename_i htR; subst htR; exact stepReader_W a0 b0 i0 hst
      · exact i0
    · split
      · rename_i htD; subst htD; exact stepDisp_W a0 b0 i0 hst
      · exact i0
    · rename_i n k hp
      have htD : t = .D := allowed_handler (by rw [hp] at htyp; exact htyp)
      subst htD
      split
      · iw i0
      · iw i0
    · rename_i hp
      rcases allowed_monStart (by rw [hp] at htyp; exact htyp) with h | h <;> subst h <;> iw i0
    · split
      · rename_i htL; subst htL
        refine InvW.of_lv ?_ i0
        unfold stepMon; simp only [if_true]; split <;> rfl
      · split
        · rename_i htM; subst htM; exact stepMon_W a0 b0 i0 false hst
        · exact i0
    · rename_i c hp
      obtain ⟨htC, hcc⟩ := allowed_closeEntry (by rw [hp] at htyp; exact htyp)
      subst htC; subst hcc
      exact i0.enter (enterClose_spec (ClosePre.of_inv a0 b0 hst (c := .closingTail) rfl) rfl)
    · rcases stepInClose_spec (cfg := cfg) b0 t false (Or.inl hst) (fun _ => hst) with h | ⟨c, hc, _, e, f⟩
      · rw [h]; exact i0
      · have hcl : s0.closed = true := a0.closed_iff.mpr (by intro h; rw [h] at hc; simp [contOf] at hc)
        exact i0.ce hcl e f
    · rename_i hp
      have htV : t = .V := allowed_vget (by rw [hp] at htyp; exact htyp)
      subst htV
      split
      · iw i0
      · split
        · exact i0
        · exact InvW.finish (s := { s0 with queue := _, vres := _ }) (by iw i0) .V (fun _ => ⟨by simp, by simp⟩)
    · rename_i u hp
      have htu : t = .U u := allowed_recvWait (by rw [hp] at htyp; exact htyp)
      subst htu
      have hu : rcving s0 u := ⟨hal, Or.inr hp⟩
      split
      · exact i0.leave_finish u hu (s1 := ({ s0 with vres := none, rcvBusy := false, gone := _ } : St).emit (.ret u (.msg _))) rfl rfl rfl rfl rfl
      · split
        · exact i0.leave_finish u hu (s1 := ({ s0 with rcvBusy := false } : St).emit (.ret u .eoq)) rfl rfl rfl rfl rfl
        · exact i0.leave_finish u hu (s1 := ({ s0 with rcvBusy := false } : St).emit (.ret u .cancelled)) rfl rfl rfl rfl rfl
    · rename_i u hp
      have htu : t = .U u := allowed_loginWait (by rw [hp] at htyp; exact htyp)
      subst htu
      exact loginResume_W a0 b0 i0 u hst hp
    · exact i0
  · exact i0

/-- a user call starts: a fresh user task -/
theorem startRecv_W {s : St} (i : InvW s) (u : Nat) (isLogin : Bool) (hu : s.status (.U u) = .absent) :
    InvW (startRecv s u isLogin) := by
  have hnr : ¬ rcving s u := by intro ⟨h, _⟩; rw [hu] at h; simp [alive] at h
  -- the caller ends at once
  have ended : ∀ (s1 : St), s1.status = s.status → s1.prog = s.prog → s1.rcvBusy = s.rcvBusy → s1.closed = s.closed →
      s1.qClosed = s.qClosed → s1.dispSet = s.dispSet → InvW (s1.setStatus (.U u) .done) := by
    intro s1 h1 h2 h3 h4 h5 h6
    apply i.shrink
    · intro a ⟨ha1, ha2⟩
      simp only [St.setStatus] at ha1
      split at ha1
      · simp [alive] at ha1
      · rw [h1] at ha1
        exact ⟨ha1, by rw [← h2]; exact ha2⟩
    · exact h3
    · intro a ha hc
      simp only [St.setStatus] at ha
      split at ha
      · simp at ha
      · rw [h1] at ha
        exact ⟨ha, by rw [← h4]; exact hc, by show s1.prog _ = _; rw [h2]⟩
    · show s1.qClosed = true → s1.closed = true; rw [h4, h5]; exact i.qc
    · show alive (s1.status .D) = true → s1.dispSet = true ∨ s1.closed = true; rw [h1, h4, h6]; exact i.dalive
    · show s1.closed = false → (s1.status .L = _ ∨ s1.status .L = _) ∧ (s1.status .M = _ ∨ s1.status .M = _)
      rw [h1, h4]; exact i.mons
  unfold startRecv
  split
  · exact i
  · rename_i hbusy
    simp only [Bool.or_eq_true, not_or, Bool.not_eq_true] at hbusy
    have hnb : s.rcvBusy = false := hbusy.1.1
    have none : ∀ a, ¬ rcving s a := by
      intro a ha; have := i.busy a ha; rw [hnb] at this; simp at this
    -- the caller becomes the (only) receiving user
    have started : ∀ (s1 : St) (x : Status), (∀ y, y ≠ .U u → y ≠ .V → s1.status y = s.status y) → (∀ a, s1.prog (.U a) = s.prog (.U a)) → s1.rcvBusy = true →
        s1.closed = s.closed → s1.qClosed = s.qClosed → s1.dispSet = s.dispSet → alive (s1.status .D) = alive (s.status .D) →
        InvW ((s1.setStatus (.U u) x).setProg (.U u) (if isLogin then .loginWait u else .recvWait u)) := by
      intro s1 x h1 h2 h3 h4 h5 h6 h7
      have only : ∀ a, rcving ((s1.setStatus (.U u) x).setProg (.U u) (if isLogin then .loginWait u else .recvWait u)) a → a = u := by
        intro a ⟨ha1, ha2⟩
        by_cases hau : a = u
        · exact hau
        · exfalso
          have hne : Tid.U a ≠ Tid.U u := by intro e; injection e with e; exact hau e
          simp only [St.setStatus, St.setProg, hne, if_false] at ha1 ha2
          rw [h1 _ hne (by simp)] at ha1; rw [h2] at ha2
          exact none a ⟨ha1, ha2⟩
      refine ⟨fun _ _ => h3, fun a b ha hb => (only a ha).trans (only b hb).symm, ?_, ?_, ?_, ?_⟩
      · intro a ha hc
        by_cases hau : a = u
        · subst hau; simp only [St.setProg, if_true]; split <;> simp
        · have hne : Tid.U a ≠ Tid.U u := by intro e; injection e with e; exact hau e
          simp only [St.setStatus, St.setProg, hne, if_false] at ha ⊢
          rw [h1 _ hne (by simp)] at ha; rw [h2]
          exact i.wprog a ha (by rw [← h4]; exact hc)
      · show s1.qClosed = true → s1.closed = true; rw [h4, h5]; exact i.qc
      · show alive (if Tid.D = Tid.U u then x else s1.status .D) = true → s1.dispSet = true ∨ s1.closed = true
        simp only [show Tid.D ≠ Tid.U u by simp, if_false]; rw [h7, h6, h4]; exact i.dalive
      · show s1.closed = false → ((if Tid.L = Tid.U u then x else s1.status .L) = _ ∨ (if Tid.L = Tid.U u then x else s1.status .L) = _) ∧
          ((if Tid.M = Tid.U u then x else s1.status .M) = _ ∨ (if Tid.M = Tid.U u then x else s1.status .M) = _)
        simp only [show Tid.L ≠ Tid.U u by simp, show Tid.M ≠ Tid.U u by simp, if_false]
        rw [h4, h1 _ (by simp) (by simp), h1 _ (by simp) (by simp)]; exact i.mons
    split
    · exact ended (s.emit _) rfl rfl rfl rfl rfl rfl
    · split
      · exact started ({ s with queue := _, vres := _, rcvBusy := true, imm := _ } : St) .ready (fun _ _ _ => rfl) (fun _ => rfl) rfl rfl rfl rfl rfl
      · split
        · split
          · exact ended (s.emit _) rfl rfl rfl rfl rfl rfl
          · exact ended (s.emit _) rfl rfl rfl rfl rfl rfl
        · exact started (({ s with rcvBusy := true } : St).spawn .V .vget) (.waitT .V) (fun y _ hy => by simp [St.spawn, St.setStatus, St.setProg, hy]) (fun _ => rfl) rfl rfl rfl rfl rfl

theorem step_W {cfg : Cfg} {s : St} (a : InvA cfg s) (r : InvR s) (b : InvB s) (i : InvW s) (ev : Ev) :
    InvW (step cfg s ev) := by
  cases ev with
  | connect =>
    simp only [step]
    split
    · exact i
    · have i1 : InvW (s.spawn .R .readerLoop) := by iw i
      split
      · exact i1.startDispatching cfg
      · exact i1
  | data fs => iw i
  | eof => exact i.initiateClose
  | run t =>
    simp only [step]
    split
    · exact stepRun_W a r b i t
    · exact i
  | callClose u =>
    simp only [step]
    split
    · exact i
    · rename_i hu
      have hu' : s.status (.U u) = .absent := by simpa using hu
      have b1 := b.userStart u .idle hu' rfl (by simp)
      have a1 : InvA cfg ((s.setStatus (.U u) .ready).setProg (.U u) .idle) := InvA.of_core (s := s) rfl a
      have i1 : InvW ((s.setStatus (.U u) .ready).setProg (.U u) .idle) := by
        apply i.shrink
        · intro a' ⟨h1, h2⟩
          by_cases hau : a' = u
          · subst hau; simp [St.setProg] at h2
          · have hne : Tid.U a' ≠ Tid.U u := by intro e; injection e with e; exact hau e
            simp only [St.setStatus, St.setProg, hne, if_false] at h1 h2
            exact ⟨h1, h2⟩
        · rfl
        · intro a' ha hc
          by_cases hau : a' = u
          · subst hau; simp [St.setProg, St.setStatus] at ha
          · have hne : Tid.U a' ≠ Tid.U u := by intro e; injection e with e; exact hau e
            simp only [St.setStatus, St.setProg, hne, if_false] at ha ⊢
            exact ⟨ha, hc, trivial⟩
        · exact i.qc
        · exact i.dalive
        · exact i.mons
      exact i1.enter (enterClose_spec (ClosePre.of_inv a1 b1 (c := .userTail u .ok) (by simp [St.setStatus, St.setProg]) rfl) rfl)
  | callInitiateClose => exact i.initiateClose
  | callLogout =>
    simp only [step]
    apply InvW.initiateClose
    iw i
  | callRecv u =>
    simp only [step]
    split
    · exact i
    · rename_i hu
      exact startRecv_W i u false (by simpa using hu)
  | callRecvNowait u =>
    simp only [step]
    split
    · exact i
    · split
      · iw i
      · split
        · iw i
        · split <;> iw i
  | callLogin u =>
    simp only [step]
    split
    · exact i
    · rename_i hu
      simp only [bne_iff_ne, ne_eq, Bool.or_eq_true, not_or, Decidable.not_not] at hu
      exact startRecv_W (s := { (s.emit (.write .login)) with pingL := true }) (by iw i) u true hu.1.1
  | callSend => iw i
  | cancel u =>
    simp only [step]
    obtain ⟨f1, _, f3, _, _, f6, f7, _, _⟩ := cancelTask_flags s (.U u)
    apply i.shrink
    · intro a' ⟨h1, h2⟩
      rw [alive_cancelTask] at h1
      rw [cancelTask_prog] at h2
      exact ⟨h1, h2⟩
    · exact f1
    · intro a' ha hc; rw [f6] at hc; exact ⟨waitT_of_cancelTask ha, hc, by rw [cancelTask_prog]⟩
    · rw [f6, f7]; exact i.qc
    · rw [alive_cancelTask, f3, f6]; exact i.dalive
    · rw [f6]
      intro hc
      -- the only task a user task of an open session can be waiting for is the receive helper
      obtain ⟨_, _, w⟩ := r hc
      have key : ∀ y, y = .L ∨ y = .M → (s.cancelTask (.U u)).status y = s.status y := by
        intro y hy
        unfold St.cancelTask
        split
        · simp only [St.setStatus]; rcases hy with h | h <;> simp [h]
        · simp only [St.setStatus]; rcases hy with h | h <;> simp [h]
        · rename_i w0 hw
          have hV : w0 = .V := w _ _ hw
          subst hV
          split
          · simp only [St.setStatus]; rcases hy with h | h <;> simp [h]
          · simp only [St.setStatus]; rcases hy with h | h <;> simp [h]
          · rfl
        · rfl
      rw [key .L (Or.inl rfl), key .M (Or.inr rfl)]
      exact i.mons hc

theorem InvW.init : InvW {} :=
  ⟨by intro a ⟨h, _⟩; simp [alive] at h, by intro a b ⟨h, _⟩; simp [alive] at h, by intro a h; simp at h, by simp,
    by intro h; simp [alive] at h, by intro _; exact ⟨Or.inl rfl, Or.inl rfl⟩⟩

/-- **Invariants A, R, B and W hold together in every reachable state.** -/
theorem runEvs_InvW (cfg : Cfg) (evs : List Ev) : InvW (runEvs cfg {} evs) := by
  have : ∀ (s : St), InvA cfg s → InvR s → InvB s → InvW s → InvW (runEvs cfg s evs) := by
    induction evs with
    | nil => intro s _ _ _ i; exact i
    | cons ev evs ih =>
      intro s a r b i
      exact ih _ (step_InvA a ev) (step_InvR a r ev) (step_InvB a r b ev) (step_W a r b i ev)
  exact this _ (InvA.init cfg) InvR.init InvB.init InvW.init

end NasdaqModel.Sess
