import NasdaqModel.Lemmas.FramingLemmas
import NasdaqModel.Lemmas.PyLemmas
import NasdaqModel.Props.C12
/-
The two instances of `FrameSpec` (Lemmas/FramingLemmas.lean): SoupBinTCP packets (via the C12 theorems) and FIX frames.
-/
namespace NasdaqModel.Framing
open NasdaqModel Py Soup Spec.SoupLayout Props.C12

/-! ### SoupBinTCP -/

theorem soupDeser_cons2 (b0 b1 : Nat) (tl : Bytes) : soupDeser (b0 :: b1 :: tl) =
    (if b0 * 256 + b1 + 2 > (b0 :: b1 :: tl).length then .ok none
    else (Soup.decode ((b0 :: b1 :: tl).take (b0 * 256 + b1 + 2)) >>= fun msg =>
      pure (some (msg, (b0 :: b1 :: tl).drop (b0 * 256 + b1 + 2))))) := rfl

theorem soup_exact (p : Pkt) (rest : Bytes) (h : wfPkt p = true) :
    soupDeser (layout p ++ rest) = .ok (some (p, rest)) := by
  obtain ⟨hi, lo, hl, hsz, _, _, hlen⟩ := C12_length_prefix p h
  have hdec : Soup.decode (layout p) = .ok p := C12_roundtrip p h _ (C12_layout p h)
  have hlen' : (layout p).length = hi * 256 + lo + 2 := by omega
  have htake : (layout p ++ rest).take (hi * 256 + lo + 2) = layout p := by
    rw [← hlen']; simp
  have hdrop : (layout p ++ rest).drop (hi * 256 + lo + 2) = rest := by
    rw [← hlen']; simp
  have hb : layout p ++ rest = hi :: lo :: (typeChar p :: payload p ++ rest) := by rw [hl]; rfl
  have hnot : ¬ (hi * 256 + lo + 2 > (layout p ++ rest).length) := by
    rw [List.length_append]; omega
  rw [hb, soupDeser_cons2, ← hb, if_neg hnot, htake, hdec, hdrop]
  rfl

theorem soup_short (p : Pkt) (q : Bytes) (h : wfPkt p = true) (hq : q <+: layout p) (hne : q ≠ layout p) :
    soupDeser q = .ok none := by
  obtain ⟨hi, lo, hl, hsz, _, _, hlen⟩ := C12_length_prefix p h
  have hlt : q.length < (layout p).length := by
    rcases Nat.lt_or_ge q.length (layout p).length with h1 | h1
    · exact h1
    · exact absurd (hq.eq_of_length_le h1) hne
  match q, hq, hlt with
  | [], _, _ => rfl
  | [_], _, _ => rfl
  | a :: b :: q', hq, hlt =>
    rw [hl] at hq
    have ha : a = hi := by
      have := List.cons_prefix_cons.1 hq; exact this.1
    have hb : b = lo := by
      have := (List.cons_prefix_cons.1 (List.cons_prefix_cons.1 hq).2).1; exact this
    subst ha; subst hb
    rw [soupDeser_cons2, if_pos (by omega)]

theorem soupSpec : FrameSpec soupProto layout (fun p => wfPkt p = true) where
  nonempty := by
    intro p h h0
    obtain ⟨hi, lo, hl, _⟩ := C12_length_prefix p h
    rw [hl] at h0; simp at h0
  exact := fun p rest h => soup_exact p rest h
  short := fun p q h hq hne _ => soup_short p q h hq hne

/-! ### `find` -/

theorem findAux_single (c : Nat) : ∀ (l post : Bytes) (off : Nat), c ∉ l →
    findAux [c] (l ++ c :: post) off = some (off + l.length) := by
  intro l
  induction l with
  | nil => intro post off _; simp [findAux, List.isPrefixOf]
  | cons x l ih =>
    intro post off h
    have hx : c ≠ x := fun e => h (by simp [e])
    have hl : c ∉ l := fun e => h (by simp [e])
    have hp : [c].isPrefixOf (x :: (l ++ c :: post)) = false := by
      simp [List.isPrefixOf, hx]
    simp only [List.cons_append, findAux, hp]
    rw [ih post (off + 1) hl]
    simp; omega

theorem findAux_exists (needle : Bytes) : ∀ (x y : Bytes) (off : Nat), (findAux needle (x ++ needle ++ y) off).isSome = true := by
  intro x
  induction x with
  | nil =>
    intro y off
    cases hn : needle with
    | nil => cases y <;> simp [findAux, List.isPrefixOf]
    | cons a n' =>
      have : (a :: n').isPrefixOf (a :: n' ++ y) = true := by
        rw [List.isPrefixOf_iff_prefix]; exact List.prefix_append _ _
      simp [findAux, this]
  | cons a x ih =>
    intro y off
    simp only [List.cons_append, findAux]
    split
    · rfl
    · exact ih y (off + 1)

theorem findAux_none_of_append (needle : Bytes) (hn : needle ≠ []) : ∀ (p t : Bytes) (off : Nat),
    findAux needle (p ++ t) off = none → findAux needle p off = none := by
  intro p
  induction p with
  | nil => intro t off _; cases needle with
    | nil => exact absurd rfl hn
    | cons a n => simp [findAux]
  | cons x p ih =>
    intro t off h
    simp only [List.cons_append, findAux] at h ⊢
    split at h
    · simp at h
    · next hnp =>
      have : ¬ needle.isPrefixOf (x :: p) = true := by
        intro hp
        apply hnp
        rw [List.isPrefixOf_iff_prefix] at hp ⊢
        exact hp.trans (by simpa using List.prefix_append (x :: p) t)
      simp only [this, if_false]
      exact ih t (off + 1) h

theorem find_zero (b needle : Bytes) : find b needle 0 = findAux needle b 0 := by
  simp [find]

theorem find_none_of_prefix (needle : Bytes) (hn : needle ≠ []) {p b : Bytes} (hp : p <+: b)
    (h : find b needle 0 = none) : find p needle 0 = none := by
  obtain ⟨t, rfl⟩ := hp
  rw [find_zero] at h ⊢
  exact findAux_none_of_append needle hn p t 0 h

theorem find_isSome_of_infix (needle x y : Bytes) : (find (x ++ needle ++ y) needle 0).isSome = true := by
  rw [find_zero]; exact findAux_exists needle x y 0

/-- `find` for one byte: skipping `pre` (`start` bytes of it unconditionally), the first `c` is right after `pre` -/
theorem find_single (c : Nat) (pre post : Bytes) (start : Nat) (hs : start ≤ pre.length) (hc : c ∉ pre.drop start) :
    find (pre ++ c :: post) [c] start = some pre.length := by
  have hle : start ≤ (pre ++ c :: post).length := by simp; omega
  simp only [find, hle, if_true]
  rw [List.drop_append_of_le_length hs, findAux_single c _ post start hc]
  simp; omega

theorem parseIntBytes_digits (ds : Bytes) (hne : ds ≠ []) (hd : ∀ d ∈ ds, isDigit d = true) :
    parseIntBytes ds = .ok (digitsVal ds : Int) := by
  have hclean := cleanDigits_of_all_digit ds hne hd
  cases hds : ds with
  | nil => exact absurd hds hne
  | cons d0 t =>
    rw [← hds]
    have hhead : ds.head? = some d0 := by rw [hds]; rfl
    have hd0 : isDigit d0 = true := hd d0 (by simp [hds])
    have hlast : ds.getLast? = some (ds.getLast hne) := List.getLast?_eq_some_getLast hne
    have hdl : isDigit (ds.getLast hne) = true := hd _ (List.getLast_mem hne)
    have hedge : edgeOk isAsciiSpace ds = true := by
      simp [edgeOk, hhead, hlast, (isDigit_not_space hdl).1, (isDigit_not_space hd0).1]
    have h43 : d0 ≠ 43 := by intro h; subst h; simp [isDigit] at hd0
    have h45 : d0 ≠ 45 := by intro h; subst h; simp [isDigit] at hd0
    unfold parseIntBytes parseIntWith
    rw [stripBy_of_edgeOk hedge]
    simp [hhead, h43, h45, hclean]

theorem normIdx_nat (n k : Nat) (h : k ≤ n) : normIdx n (k : Int) = k := by
  unfold normIdx
  have : ¬ ((k : Int) < 0) := by omega
  simp only [this, if_false]
  simp; omega

/-! ### FIX frames -/

theorem fixHeader_length (ver ds : Bytes) : (fixHeader ver ds).length = ver.length + ds.length + 6 := by
  simp [fixHeader]; omega

theorem digit_ne_one {ds : Bytes} (hd : ∀ d ∈ ds, isDigit d = true) : 1 ∉ ds := by
  intro h; have := hd 1 h; simp [isDigit] at this

/-- what `fixDeser` computes on any buffer that starts with a complete `8=ver␁9=ds␁` -/
theorem fixDeser_header (ver ds tail : Bytes) (hv : 61 ∉ ver) (hne : ds ≠ []) (hd : ∀ d ∈ ds, isDigit d = true) :
    fixDeser (fixHeader ver ds ++ tail) =
      if find (fixHeader ver ds ++ tail) tag35 0 = none then .ok none
      else if (fixHeader ver ds ++ tail).length < ver.length + ds.length + 6 + digitsVal ds + 7 then .ok none
      else .ok (some ((fixHeader ver ds ++ tail).take (ver.length + ds.length + 6 + digitsVal ds + 7),
                      (fixHeader ver ds ++ tail).drop (ver.length + ds.length + 6 + digitsVal ds + 7))) := by
  have h1 : 1 ∉ ds := digit_ne_one hd
  have hlen : (fixHeader ver ds ++ tail).length = ver.length + ds.length + 6 + tail.length := by
    rw [List.length_append, fixHeader_length]
  have hEQ : find (fixHeader ver ds ++ tail) [EQ] 2 = some (ver.length + 4) := by
    have e : fixHeader ver ds ++ tail = ([56, 61] ++ ver ++ [1, 57]) ++ 61 :: (ds ++ [1] ++ tail) := by
      simp [fixHeader]
    rw [e]
    have := find_single 61 ([56, 61] ++ ver ++ [1, 57]) (ds ++ [1] ++ tail) 2 (by simp) (by simp [hv])
    simpa [EQ] using this
  have hSOH : find (fixHeader ver ds ++ tail) [SOH] (ver.length + 4) = some (ver.length + 5 + ds.length) := by
    have e : fixHeader ver ds ++ tail = ([56, 61] ++ ver ++ [1, 57, 61] ++ ds) ++ 1 :: tail := by
      simp [fixHeader]
    rw [e]
    have hdrop : ([56, 61] ++ ver ++ [1, 57, 61] ++ ds).drop (ver.length + 4) = 61 :: ds := by
      have : [56, 61] ++ ver ++ [1, 57, 61] ++ ds = ([56, 61] ++ ver ++ [1, 57]) ++ (61 :: ds) := by simp
      rw [this, List.drop_left' (by simp)]
    have := find_single 1 ([56, 61] ++ ver ++ [1, 57, 61] ++ ds) tail (ver.length + 4) (by simp)
      (by rw [hdrop]; simp [h1])
    rw [SOH, this]; simp; omega
  have hslice : pySlice (fixHeader ver ds ++ tail) (((ver.length + 4 : Nat) : Int) + 1)
      ((ver.length + 5 + ds.length : Nat) : Int) = ds := by
    have e1 : (((ver.length + 4 : Nat) : Int) + 1) = ((ver.length + 5 : Nat) : Int) := by omega
    rw [e1]
    unfold pySlice
    rw [normIdx_nat _ _ (by rw [hlen]; omega), normIdx_nat _ _ (by rw [hlen]; omega)]
    have e : fixHeader ver ds ++ tail = ([56, 61] ++ ver ++ [1, 57, 61]) ++ (ds ++ (1 :: tail)) := by
      simp [fixHeader]
    have hl : ([56, 61] ++ ver ++ [1, 57, 61]).length = ver.length + 5 := by simp
    rw [e, ← hl, List.take_length_add_append, List.drop_left, List.take_left]
  have hparse := parseIntBytes_digits ds hne hd
  have hmsg : (((ver.length + 5 + ds.length : Nat) : Int) + 1) + (digitsVal ds : Int) + 7
      = ((ver.length + ds.length + 6 + digitsVal ds + 7 : Nat) : Int) := by omega
  unfold fixDeser
  cases h35 : find (fixHeader ver ds ++ tail) tag35 0 with
  | none => simp
  | some i =>
    simp only [hEQ, hSOH, hslice, hparse, ok_bind]
    rw [if_neg (by omega : ¬ ((digitsVal ds : Int) < 0))]
    simp only [hmsg, pure_eq_ok]
    by_cases hlt : (fixHeader ver ds ++ tail).length < ver.length + ds.length + 6 + digitsVal ds + 7
    · have : ((fixHeader ver ds ++ tail).length : Int) < ((ver.length + ds.length + 6 + digitsVal ds + 7 : Nat) : Int) := by
        omega
      rw [if_pos this, if_neg (by simp), if_pos hlt]
    · have : ¬ ((fixHeader ver ds ++ tail).length : Int) < ((ver.length + ds.length + 6 + digitsVal ds + 7 : Nat) : Int) := by
        omega
      rw [if_neg this, if_neg (by simp), if_neg hlt]
      unfold pySliceTo pySliceFrom
      rw [normIdx_nat _ _ (by omega)]

theorem findAux_cons_false (needle : Bytes) (x : Nat) (xs : Bytes) (off : Nat) (h : needle.isPrefixOf (x :: xs) = false) :
    findAux needle (x :: xs) off = findAux needle xs (off + 1) := by
  simp [findAux, h]

/-- a run of bytes without `=` followed by two more non-`=` bytes contains no start of an occurrence of `35=` -/
theorem findAux_tag35_skip : ∀ (l : Bytes) (t0 t1 : Nat) (T : Bytes) (off : Nat), 61 ∉ l → t0 ≠ 61 → t1 ≠ 61 →
    findAux tag35 (l ++ t0 :: t1 :: T) off = findAux tag35 (t0 :: t1 :: T) (off + l.length) := by
  intro l
  induction l with
  | nil => intro t0 t1 T off _ _ _; simp
  | cons v l ih =>
    intro t0 t1 T off h h0 h1
    have hl : 61 ∉ l := fun e => h (by simp [e])
    have hp : tag35.isPrefixOf (v :: (l ++ t0 :: t1 :: T)) = false := by
      cases l with
      | nil => simp [tag35, List.isPrefixOf]; intro _ _; exact fun e => h1 e.symm
      | cons w l' =>
        cases l' with
        | nil => simp [tag35, List.isPrefixOf]; intro _ _; exact fun e => h0 e.symm
        | cons w2 l'' =>
          have : w2 ≠ 61 := fun e => h (by simp [e])
          simp [tag35, List.isPrefixOf]; intro _ _; exact fun e => this e.symm
    rw [List.cons_append, findAux_cons_false _ _ _ _ hp, ih t0 t1 T (off + 1) hl h0 h1]
    have : off + 1 + l.length = off + (v :: l).length := by simp; omega
    rw [this]

theorem find_header_none (ver ds : Bytes) (hv : 61 ∉ ver) (hd : ∀ d ∈ ds, isDigit d = true) :
    find (fixHeader ver ds ++ [51, 53]) tag35 0 = none := by
  have hd61 : 61 ∉ ds := by intro h; have := hd 61 h; simp [isDigit] at this
  rw [find_zero]
  have e : fixHeader ver ds ++ [51, 53] = 56 :: 61 :: (ver ++ 1 :: 57 :: (61 :: (ds ++ [1, 51, 53]))) := by
    simp [fixHeader]
  rw [e]
  have s1 : ∀ (x : Nat) (xs : Bytes) (off : Nat), x ≠ 51 → findAux tag35 (x :: xs) off = findAux tag35 xs (off + 1) := by
    intro x xs off hx
    have : tag35.isPrefixOf (x :: xs) = false := by simp [tag35, List.isPrefixOf]; intro e; exact absurd e.symm hx
    simp [findAux, this]
  rw [s1 _ _ _ (by decide), s1 _ _ _ (by decide), findAux_tag35_skip ver 1 57 _ _ hv (by decide) (by decide),
    s1 _ _ _ (by decide), s1 _ _ _ (by decide), s1 _ _ _ (by decide),
    findAux_tag35_skip ds 1 51 [53] _ hd61 (by decide) (by decide)]
  simp [findAux, tag35, List.isPrefixOf]

theorem fixParts_spec {f ver ds body : Bytes} (h : fixParts f = some (ver, ds, body)) :
    f = fixHeader ver ds ++ body := by
  unfold fixParts at h
  split at h
  · next r =>
    split at h
    · next r2 hr =>
      split at h
      · next body' hr2 =>
        simp only [Option.some.injEq, Prod.mk.injEq] at h
        obtain ⟨hv, hd, hb⟩ := h
        subst hv; subst hd; subst hb
        have e1 := @List.takeWhile_append_dropWhile _ (· != 1) r
        have e2 := @List.takeWhile_append_dropWhile _ (· != 1) r2
        rw [hr] at e1; rw [hr2] at e2
        conv => lhs; rw [← e1, ← e2]
        simp [fixHeader]
      · simp at h
    · simp at h
  · simp at h

theorem wfFixFrame_parts {f : Bytes} (h : wfFixFrame f = true) : ∃ ver ds rest,
    f = fixHeader ver ds ++ (tag35 ++ rest) ∧ 61 ∉ ver ∧ ds ≠ [] ∧ (∀ d ∈ ds, isDigit d = true) ∧
    (tag35 ++ rest).length = digitsVal ds + 7 ∧ find (fixHeader ver ds ++ [51, 53]) tag35 0 = none := by
  unfold wfFixFrame at h
  split at h
  · next ver ds body hp =>
    simp only [Bool.and_eq_true, List.all_eq_true, bne_iff_ne, ne_eq, Bool.not_eq_true', beq_iff_eq] at h
    obtain ⟨⟨⟨⟨⟨hv, hne⟩, hd⟩, hpre⟩, hlen⟩, _⟩ := h
    rw [List.isPrefixOf_iff_prefix] at hpre
    obtain ⟨rest, hrest⟩ := hpre
    have hv' : 61 ∉ ver := fun h61 => hv 61 h61 rfl
    refine ⟨ver, ds, rest, ?_, hv', ?_, hd, ?_, find_header_none ver ds hv' hd⟩
    · rw [hrest]; exact fixParts_spec hp
    · intro h0; subst h0; simp at hne
    · rw [hrest]; exact hlen
  · simp at h

theorem fix_exact (f rest : Bytes) (h : wfFixFrame f = true) : fixDeser (f ++ rest) = .ok (some (f, rest)) := by
  obtain ⟨ver, ds, b, hf, hv, hne, hd, hlen, _⟩ := wfFixFrame_parts h
  have hfl : f.length = ver.length + ds.length + 6 + digitsVal ds + 7 := by
    rw [hf, List.length_append, fixHeader_length, hlen]; omega
  have e : f ++ rest = fixHeader ver ds ++ (tag35 ++ b ++ rest) := by rw [hf]; simp
  have hsome : find (f ++ rest) tag35 0 ≠ none := by
    have := find_isSome_of_infix tag35 (fixHeader ver ds) (b ++ rest)
    have e2 : f ++ rest = fixHeader ver ds ++ tag35 ++ (b ++ rest) := by rw [hf]; simp
    rw [e2]; intro h0; rw [h0] at this; simp at this
  rw [e, fixDeser_header ver ds _ hv hne hd, ← e, if_neg hsome, if_neg (by rw [List.length_append]; omega), ← hfl]
  simp

theorem fix_short (f q : Bytes) (h : wfFixFrame f = true) (hq : q <+: f) (hne : q ≠ f) : fixDeser q = .ok none := by
  obtain ⟨ver, ds, b, hf, hv, hdne, hd, hlen, hfirst⟩ := wfFixFrame_parts h
  have hfl : f.length = ver.length + ds.length + 6 + digitsVal ds + 7 := by
    rw [hf, List.length_append, fixHeader_length, hlen]; omega
  have hlt : q.length < f.length := by
    rcases Nat.lt_or_ge q.length f.length with h1 | h1
    · exact h1
    · exact absurd (hq.eq_of_length_le h1) hne
  by_cases h35 : find q tag35 0 = none
  · unfold fixDeser; rw [h35]
  · -- a buffer containing `35=` contains the whole `8=…␁9=…␁` header
    have hlong : ver.length + ds.length + 6 + 2 < q.length := by
      rcases Nat.lt_or_ge (ver.length + ds.length + 6 + 2) q.length with h1 | h1
      · exact h1
      · exfalso
        apply h35
        have hp2 : fixHeader ver ds ++ [51, 53] <+: f := by
          rw [hf]; exact ⟨61 :: b, by simp [tag35]⟩
        have : q <+: fixHeader ver ds ++ [51, 53] :=
          List.prefix_of_prefix_length_le hq hp2 (by rw [List.length_append, fixHeader_length]; simpa using h1)
        exact find_none_of_prefix tag35 (by simp [tag35]) this hfirst
    have hhdr : fixHeader ver ds <+: q :=
      List.prefix_of_prefix_length_le (by rw [hf]; exact List.prefix_append _ _) hq (by rw [fixHeader_length]; omega)
    obtain ⟨tail, ht⟩ := hhdr
    rw [← ht, fixDeser_header ver ds tail hv hdne hd, ht, if_neg h35, if_pos (by omega)]

theorem fixSpec : FrameSpec fixProto (fun f => f) (fun f => wfFixFrame f = true) where
  nonempty := by
    intro f h h0
    obtain ⟨ver, ds, b, hf, _⟩ := wfFixFrame_parts h
    rw [hf] at h0; simp [fixHeader] at h0
  exact := fun f rest h => fix_exact f rest h
  short := fun f q h hq hne _ => fix_short f q h hq hne

/-- the first occurrence of `needle` is right after `x` when `x` followed by all but the last byte of `needle` has none -/
theorem findAux_first (needle pre : Bytes) (hpre : pre <+: needle) (hlen : needle.length ≤ pre.length + 1) :
    ∀ (x y : Bytes) (off : Nat), findAux needle (x ++ pre) off = none →
      findAux needle (x ++ needle ++ y) off = some (off + x.length) := by
  intro x
  induction x with
  | nil =>
    intro y off _
    cases hn : needle with
    | nil => cases y <;> simp [findAux, List.isPrefixOf]
    | cons a n' =>
      have : (a :: n').isPrefixOf (a :: n' ++ y) = true := by
        rw [List.isPrefixOf_iff_prefix]; exact List.prefix_append _ _
      simp [findAux]
  | cons a x ih =>
    intro y off h
    simp only [List.cons_append, findAux] at h ⊢
    split at h
    · simp at h
    · next hnp =>
      have : ¬ needle.isPrefixOf (a :: (x ++ needle ++ y)) = true := by
        intro hp
        apply hnp
        rw [List.isPrefixOf_iff_prefix] at hp ⊢
        have h2 : a :: (x ++ pre) <+: a :: (x ++ needle ++ y) := by
          obtain ⟨t, ht⟩ := hpre
          exact ⟨t ++ y, by simp [← ht]⟩
        exact List.prefix_of_prefix_length_le hp h2 (by simp; omega)
      simp only [this]
      rw [ih y (off + 1) h]; simp; omega

theorem findAux_none_not_prefix (needle : Bytes) (hn : needle ≠ []) :
    ∀ (b : Bytes) (off : Nat), findAux needle b off = none → needle.isPrefixOf b = false
  | [], _, _ => by cases needle with
    | nil => exact absurd rfl hn
    | cons a n => simp [List.isPrefixOf]
  | x :: xs, off, h => by
    unfold findAux at h
    split at h
    · simp at h
    · rename_i hnp; exact Bool.eq_false_iff.mpr hnp

/-- a longer needle is not found where its tail is not found -/
theorem findAux_cons_none (needle : Bytes) (hn : needle ≠ []) (c : Nat) :
    ∀ (b : Bytes) (off : Nat), findAux needle b off = none → findAux (c :: needle) b off = none
  | [], off, _ => by simp [findAux]
  | x :: xs, off, h => by
    have hx : findAux needle xs (off + 1) = none := by
      unfold findAux at h
      split at h
      · simp at h
      · exact h
    have hp : needle.isPrefixOf xs = false := findAux_none_not_prefix needle hn xs (off + 1) hx
    unfold findAux
    have : (c :: needle).isPrefixOf (x :: xs) = false := by simp [List.isPrefixOf, hp]
    simp only [this, Bool.false_eq_true, if_false]
    exact findAux_cons_none needle hn c xs (off + 1) hx

/-- **classification of a well-formed frame**: `Message.get_msg_type` returns the value of the frame's own MsgType field
    (the bytes between the `35=` that follows BodyLength and the next SOH) -/
theorem fix_msgType {f ver ds ty rest : Bytes} (h : wfFixFrame f = true)
    (hp : fixParts f = some (ver, ds, tag35 ++ ty ++ 1 :: rest)) (hty : 1 ∉ ty) : getMsgType f = ty := by
  have hf := fixParts_spec hp
  unfold wfFixFrame at h
  rw [hp] at h
  simp only [Bool.and_eq_true, List.all_eq_true, bne_iff_ne, ne_eq] at h
  have hfirst : find (fixHeader ver ds ++ [51, 53]) tag35 0 = none :=
    find_header_none ver ds (fun h61 => h.1.1.1.1.1 61 h61 rfl) h.1.1.1.2
  have hl := fixHeader_length ver ds
  -- the header without its final SOH
  have hx : fixHeader ver ds = ([56, 61] ++ ver ++ [1, 57, 61] ++ ds) ++ [1] := by simp [fixHeader]
  generalize hxd : [56, 61] ++ ver ++ [1, 57, 61] ++ ds = x at hx
  have hxl : x.length + 1 = (fixHeader ver ds).length := by rw [hx]; simp
  have hnp : tag35.isPrefixOf f = false := by
    rw [hf]; simp [fixHeader, tag35, List.isPrefixOf]
  have h35 : find f (SOH :: tag35) 0 = some x.length := by
    rw [find_zero] at hfirst ⊢
    have hS : findAux (SOH :: tag35) (x ++ [1, 51, 53]) 0 = none := by
      have := findAux_cons_none tag35 (by simp [tag35]) SOH _ 0 hfirst
      rw [hx] at this
      simpa using this
    have := findAux_first (SOH :: tag35) [1, 51, 53] ⟨[61], rfl⟩ (by simp [tag35]) x (ty ++ 1 :: rest) 0 hS
    rw [hf, hx]
    simpa [SOH, tag35] using this
  have hsoh : find f [SOH] ((fixHeader ver ds).length + 2) = some ((fixHeader ver ds).length + 3 + ty.length) := by
    have e : f = (fixHeader ver ds ++ tag35 ++ ty) ++ 1 :: rest := by rw [hf]; simp
    have hdrop : (fixHeader ver ds ++ tag35 ++ ty).drop ((fixHeader ver ds).length + 2) = 61 :: ty := by
      have : fixHeader ver ds ++ tag35 ++ ty = (fixHeader ver ds ++ [51, 53]) ++ (61 :: ty) := by simp [tag35]
      rw [this, List.drop_left' (by simp)]
    have := find_single 1 (fixHeader ver ds ++ tag35 ++ ty) rest ((fixHeader ver ds).length + 2)
      (by simp [tag35]) (by rw [hdrop]; simp [hty])
    rw [e, SOH, this]; simp [tag35]; omega
  unfold getMsgType
  simp only [hnp, Bool.false_eq_true, if_false, h35]
  have hst : x.length + 3 = (fixHeader ver ds).length + 2 := by omega
  rw [hst]
  simp only [hsoh]
  have hlen : f.length = (fixHeader ver ds).length + 3 + ty.length + 1 + rest.length := by
    rw [hf]; simp [tag35]; omega
  have e1 : (((fixHeader ver ds).length + 2 : Nat) : Int) + 1 = (((fixHeader ver ds).length + 3 : Nat) : Int) := by omega
  rw [e1]
  unfold pySlice
  rw [normIdx_nat _ _ (by omega), normIdx_nat _ _ (by omega)]
  have e : f = (fixHeader ver ds ++ tag35) ++ (ty ++ (1 :: rest)) := by rw [hf]; simp
  have hl2 : (fixHeader ver ds ++ tag35).length = (fixHeader ver ds).length + 3 := by simp [tag35]
  rw [e, ← hl2, List.take_length_add_append, List.drop_left, List.take_left]

end NasdaqModel.Framing
