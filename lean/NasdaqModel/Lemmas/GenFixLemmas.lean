import NasdaqModel.Lemmas.PyLemmas
import NasdaqModel.Spec.FixDict
/-
Lemmas for C16 (FIX generator model).  Part 1: association lists, unique names, pure expansion vs the stateful parser.
-/
namespace NasdaqModel.GenFix
open NasdaqModel Py

/-! ### association lists -/

def keys {α : Type} (l : List (Str × α)) : List Str := l.map (·.1)

@[simp] theorem keys_nil {α : Type} : keys ([] : List (Str × α)) = [] := rfl
@[simp] theorem keys_cons {α : Type} (k : Str) (v : α) (l : List (Str × α)) : keys ((k, v) :: l) = k :: keys l := rfl
@[simp] theorem keys_append {α : Type} (a b : List (Str × α)) : keys (a ++ b) = keys a ++ keys b := by simp [keys]

theorem aget_none_of_not_mem {α : Type} {k : Str} : ∀ {l : List (Str × α)}, k ∉ keys l → aget k l = none
  | [], _ => rfl
  | (k', v) :: t, h => by
    simp only [keys_cons, List.mem_cons, not_or] at h
    have hne : ¬ k' = k := fun e => h.1 e.symm
    simp only [aget, if_neg hne]
    exact aget_none_of_not_mem h.2

theorem mem_keys_of_aget {α : Type} {k : Str} {v : α} : ∀ {l : List (Str × α)}, aget k l = some v → k ∈ keys l
  | [], h => by simp [aget] at h
  | (k', v') :: t, h => by
    simp only [aget] at h
    by_cases e : k' = k
    · simp [e]
    · simp only [if_neg e] at h
      simp [mem_keys_of_aget h]

theorem aget_isSome_of_mem {α : Type} {k : Str} : ∀ {l : List (Str × α)}, k ∈ keys l → ∃ v, aget k l = some v
  | [], h => by simp at h
  | (k', v') :: t, h => by
    by_cases e : k' = k
    · exact ⟨v', by simp [aget, e]⟩
    · simp only [keys_cons, List.mem_cons] at h
      have : k ∈ keys t := by
        rcases h with h | h
        · exact absurd h.symm e
        · exact h
      obtain ⟨v, hv⟩ := aget_isSome_of_mem this
      exact ⟨v, by simp [aget, e, hv]⟩

theorem aget_append_of_not_mem {α : Type} {k : Str} : ∀ {a : List (Str × α)} (b : List (Str × α)), k ∉ keys a →
    aget k (a ++ b) = aget k b
  | [], _, _ => rfl
  | (k', v) :: t, b, h => by
    simp only [keys_cons, List.mem_cons, not_or] at h
    have hne : ¬ k' = k := fun e => h.1 e.symm
    simp only [List.cons_append, aget, if_neg hne]
    exact aget_append_of_not_mem b h.2

theorem aget_append_of_some {α : Type} {k : Str} {v : α} : ∀ {a : List (Str × α)} (b : List (Str × α)), aget k a = some v →
    aget k (a ++ b) = some v
  | [], _, h => by simp [aget] at h
  | (k', v') :: t, b, h => by
    simp only [aget] at h
    by_cases e : k' = k
    · simp only [if_pos e] at h
      simp [aget, e, h]
    · simp only [if_neg e] at h
      simp only [List.cons_append, aget, if_neg e]
      exact aget_append_of_some b h

theorem aset_of_not_mem {α : Type} {k : Str} {v : α} : ∀ {l : List (Str × α)}, k ∉ keys l → aset k v l = l ++ [(k, v)]
  | [], _ => rfl
  | (k', v') :: t, h => by
    simp only [keys_cons, List.mem_cons, not_or] at h
    have hne : ¬ k' = k := fun e => h.1 e.symm
    simp only [aset, if_neg hne, List.cons_append]
    rw [aset_of_not_mem h.2]

theorem aget_aset_same {α : Type} (k : Str) (v : α) : ∀ (l : List (Str × α)), aget k (aset k v l) = some v
  | [] => by simp [aset, aget]
  | (k', v') :: t => by
    by_cases e : k' = k
    · simp [aset, aget, e]
    · simp only [aset, if_neg e, aget]
      exact aget_aset_same k v t

theorem aget_aset_other {α : Type} {k k' : Str} (v : α) (h : k' ≠ k) : ∀ (l : List (Str × α)), aget k (aset k' v l) = aget k l
  | [] => by simp [aset, aget, h]
  | (k2, v2) :: t => by
    by_cases e : k2 = k'
    · subst e
      simp [aset, aget, h]
    · simp only [aset, if_neg e, aget]
      by_cases e2 : k2 = k
      · simp [e2]
      · simp only [if_neg e2]
        exact aget_aset_other v h t

/-! ### unique names -/

theorem append_sep_inj : ∀ (n n' d d' : List Nat), (∀ c ∈ d, c ≠ 95) → (∀ c ∈ d', c ≠ 95) →
    n ++ 95 :: d = n' ++ 95 :: d' → n = n' ∧ d = d'
  | [], [], d, d', _, _, h => by simpa using h
  | [], c :: t, d, d', hd, _, h => by
    simp only [List.nil_append, List.cons_append, List.cons.injEq] at h
    exact absurd rfl (hd 95 (by rw [h.2]; simp))
  | c :: t, [], d, d', _, hd', h => by
    simp only [List.nil_append, List.cons_append, List.cons.injEq] at h
    exact absurd rfl (hd' 95 (by rw [← h.2]; simp))
  | c :: t, c' :: t', d, d', hd, hd', h => by
    simp only [List.cons_append, List.cons.injEq] at h
    obtain ⟨h1, h2⟩ := append_sep_inj t t' d d' hd hd' h.2
    exact ⟨by rw [h.1, h1], h2⟩

theorem natDigits_no_sep (k : Nat) : ∀ c ∈ natDigits k, c ≠ 95 := by
  intro c hc
  have := natDigits_all_digit k c hc
  simp [isDigit] at this
  omega

theorem natDigits_inj {a b : Nat} (h : natDigits a = natDigits b) : a = b := by
  have := congrArg digitsVal h
  simpa [digitsVal_natDigits] using this

theorem uniqueName_inj {n n' : Str} {k k' : Nat} (h : uniqueName n k = uniqueName n' k') : n = n' ∧ k = k' := by
  unfold uniqueName at h
  simp only [List.append_assoc, List.singleton_append] at h
  obtain ⟨h1, h2⟩ := append_sep_inj n n' _ _ (natDigits_no_sep k) (natDigits_no_sep k') h
  exact ⟨h1, natDigits_inj h2⟩

end NasdaqModel.GenFix
