import NasdaqModel.Lemmas.SessionLemmas4
import NasdaqModel.Lemmas.RefineSess
/-
The reader task and its `_stopped` flag in the session machine: no step of another task moves the reader task's program
counter, `_stopped` is never cleared, and a reader that has entered `close()` (logout / malformed frame) is inside the close
body until `_stopped` is set.  Hence: once the reader has met a logout / malformed frame it never runs its loop body again.
-/
namespace NasdaqModel.Sess

/-- the reader's program counter is where it was; a set `_stopped` flag is still set -/
def RFrame (s s' : St) : Prop := s'.prog .R = s.prog .R ∧ (s.rStopped = true → s'.rStopped = true)

theorem RFrame.refl (s : St) : RFrame s s := ⟨rfl, id⟩

theorem RFrame.trans {a b c : St} (h1 : RFrame a b) (h2 : RFrame b c) : RFrame a c :=
  ⟨h2.1.trans h1.1, fun h => h2.2 (h1.2 h)⟩

/-- post-composition with a change that touches neither the reader's program counter nor `_stopped` -/
theorem RFrame.same {s s1 s2 : St} (h : RFrame s s1) (h1 : s2.prog .R = s1.prog .R) (h2 : s2.rStopped = s1.rStopped) :
    RFrame s s2 :=
  ⟨h1.trans h.1, fun h0 => by rw [h2]; exact h.2 h0⟩

section post
variable {s s1 : St} (h : RFrame s s1)
include h

theorem RFrame.on_setStatus (t : Tid) (x : Status) : RFrame s (s1.setStatus t x) := h.same rfl rfl
theorem RFrame.on_emit (o : Obs) : RFrame s (s1.emit o) := h.same rfl rfl
theorem RFrame.on_finish (t : Tid) : RFrame s (s1.finish t) := h.same rfl rfl

theorem RFrame.on_setProg {t : Tid} (p : Prog) (ht : t ≠ .R) : RFrame s (s1.setProg t p) :=
  h.same (by simp [St.setProg, Ne.symm ht]) rfl

theorem RFrame.on_spawn {t : Tid} (p : Prog) (ht : t ≠ .R) : RFrame s (s1.spawn t p) :=
  (h.on_setStatus t .ready).on_setProg p ht

theorem RFrame.on_cancelTask (t : Tid) : RFrame s (s1.cancelTask t) := by
  unfold St.cancelTask
  split
  · exact h.on_setStatus _ _
  · exact h.on_setStatus _ _
  · split
    · exact h.on_setStatus _ _
    · exact h.on_setStatus _ _
    · exact h
  · exact h

theorem RFrame.on_wakeGetter (t : Tid) : RFrame s (s1.wakeGetter t) := by
  unfold St.wakeGetter
  split
  · exact h.on_setStatus _ _
  · exact h

theorem RFrame.on_put (m : Nat) : RFrame s (s1.put m) := by
  unfold St.put
  exact ((h.same rfl rfl : RFrame s { s1 with queue := s1.queue ++ [m] }).on_wakeGetter .D).on_wakeGetter .V

theorem RFrame.on_initiateClose : RFrame s s1.initiateClose := by
  unfold St.initiateClose
  split
  · exact h
  · exact (h.same rfl rfl : RFrame s { s1 with closingTask := true }).on_spawn _ (by decide)

theorem RFrame.on_startDispatching (cfg : Cfg) : RFrame s (s1.startDispatching cfg) := by
  unfold St.startDispatching
  split
  · exact (h.same rfl rfl : RFrame s { s1 with dispSet := true }).on_spawn _ (by decide)
  · exact h

theorem RFrame.on_startHeartbeats : RFrame s s1.startHeartbeats := by
  unfold St.startHeartbeats
  exact ((h.same rfl rfl : RFrame s { s1 with pingL := true, pingM := true }).on_spawn _ (by decide)).on_spawn _ (by decide)

theorem RFrame.on_runCont {t : Tid} (c : Cont) (ht : t ≠ .R) : RFrame s (runCont s1 t c) := by
  cases c with
  | readerTail =>
    refine ⟨?_, fun _ => rfl⟩
    have : (runCont s1 t .readerTail).prog .R = s1.prog .R := by simp [runCont, St.setProg, St.setStatus, Ne.symm ht]
    exact this.trans h.1
  | handlerTail n =>
    have : RFrame s (((s1.emit (.msgExit n)).setStatus t .ready).setProg t .dispLoop) :=
      ((h.on_emit _).on_setStatus _ _).on_setProg _ ht
    exact this.same rfl rfl
  | monitorTail => exact h.on_finish t
  | closingTail => exact h.on_finish t
  | userTail u r => exact (h.on_emit _).on_finish t

theorem RFrame.on_closeTail (cfg : Cfg) {t : Tid} (c : Cont) (ht : t ≠ .R) : RFrame s (closeTail cfg s1 t c) := by
  unfold closeTail
  simp only
  split
  · exact ((h.on_emit .tclose).same rfl rfl : RFrame s { (s1.emit .tclose) with cstage := .finished }).on_runCont c ht
  · split
    · rename_i k _
      have : RFrame s ((((s1.emit .tclose).emit .cbEnter).setStatus t .ready).setProg t .inClose) :=
        (((h.on_emit _).on_emit _).on_setStatus _ _).on_setProg _ ht
      exact this.same rfl rfl
    · exact ((((h.on_emit .tclose).on_emit .cbEnter).on_emit .cbExit).same rfl rfl :
        RFrame s { (((s1.emit .tclose).emit .cbEnter).emit .cbExit) with cstage := .finished }).on_runCont c ht

theorem RFrame.on_suspendOn {t : Tid} (x : Tid) (pc : Nat) (c : Cont) (ht : t ≠ .R) : RFrame s (suspendOn s1 t x pc c) := by
  unfold suspendOn
  have : RFrame s (((s1.cancelTask x).setStatus t (.waitT x)).setProg t .inClose) :=
    ((h.on_cancelTask x).on_setStatus _ _).on_setProg _ ht
  exact this.same rfl rfl

theorem RFrame.on_execClose (cfg : Cfg) {t : Tid} (c : Cont) (ht : t ≠ .R) (pc : Nat) : RFrame s (execClose cfg s1 t c pc) := by
  refine execClose_rule cfg t c (fun s' => RFrame s s') (fun s' => RFrame s s') ?_ ?_ ?_ ?_ pc s1 h
  · intro s' h'; exact h'.same rfl rfl
  · intro s' h'; exact ⟨h'.1, fun _ => rfl⟩
  · intro s' x pc' h' _ _ _; exact h'.on_suspendOn x pc' c ht
  · intro s' h'; exact h'.on_closeTail cfg c ht

theorem RFrame.on_enterClose (cfg : Cfg) {t : Tid} (c : Cont) (ht : t ≠ .R) : RFrame s (enterClose cfg s1 t c) := by
  unfold enterClose
  split
  · exact h.on_runCont c ht
  · exact (h.same rfl rfl : RFrame s { s1 with closed := true, qClosed := true, cstage := .body t 0 c }).on_execClose cfg c ht 0

theorem RFrame.on_stepInClose (cfg : Cfg) {t : Tid} (b : Bool) (ht : t ≠ .R) : RFrame s (stepInClose cfg s1 t b) := by
  unfold stepInClose
  split
  · split
    · unfold resumeClose
      simp only
      split
      · exact ((h.on_setStatus t .ready).same rfl rfl : RFrame s { (s1.setStatus t .ready) with dispSet := false }).on_execClose cfg _ ht _
      · exact (h.on_setStatus t .ready).on_execClose cfg _ ht _
    · exact h
  · split
    · split
      · split
        · rename_i u _ _
          exact (((h.same rfl rfl : RFrame s { s1 with cstage := .aborted }).on_emit (.ret u .cancelled))).on_finish t
        · exact (h.same rfl rfl : RFrame s { s1 with cstage := .aborted }).on_finish t
      · split
        · exact ((h.on_emit .cbExit).same rfl rfl : RFrame s { (s1.emit .cbExit) with cstage := .finished }).on_runCont _ ht
        · exact h.same rfl rfl
    · exact h
  · exact h

theorem RFrame.on_stepMon (cfg : Cfg) (b : Bool) : RFrame s (stepMon cfg s1 b) := by
  unfold stepMon
  split
  · split
    · exact h.same rfl rfl
    · exact h.on_emit _
  · split
    · exact h.same rfl rfl
    · exact h.on_enterClose cfg _ (by decide)

theorem RFrame.on_dispHandle (cfg : Cfg) (n : Nat) : RFrame s (dispHandle cfg s1 n) := by
  unfold dispHandle
  split
  · exact (h.on_emit (.msgExit n)).same rfl rfl
  · exact h.on_setProg _ (by decide)
  · exact h.on_enterClose cfg _ (by decide)
  · exact ((h.on_initiateClose).on_emit (.msgExit n)).same rfl rfl
  · exact (h.on_emit (.msgRaise n)).same rfl rfl
  · exact (((h.on_emit (.write .reply)).on_startHeartbeats).on_emit (.msgExit n)).same rfl rfl
  · exact (h.on_emit (.write .reply)).on_enterClose cfg _ (by decide)

theorem RFrame.on_stepDisp (cfg : Cfg) : RFrame s (stepDisp cfg s1) := by
  unfold stepDisp
  split
  · exact h.on_finish _
  · split
    · exact h
    · split
      · exact h.on_setStatus _ _
      · rename_i n q _
        exact ((h.same rfl rfl : RFrame s { s1 with queue := q, gone := s1.gone ++ [(n, true)] }).on_emit (.msgEnter n)).on_dispHandle cfg n

theorem RFrame.on_loginResume (cfg : Cfg) {t : Tid} (u : Nat) (ht : t ≠ .R) : RFrame s (loginResume cfg s1 t u) := by
  unfold loginResume
  split
  · rename_i n _
    have h1 : RFrame s (({ s1 with vres := none, rcvBusy := false, gone := s1.gone ++ [(n, true)] } : St).emit (.loginReply n)) :=
      (h.same rfl rfl : RFrame s { s1 with vres := none, rcvBusy := false, gone := s1.gone ++ [(n, true)] }).on_emit _
    simp only
    split
    · exact (((h1.on_startHeartbeats).on_startDispatching cfg).on_emit (.ret u .ok)).on_finish t
    · exact h1.on_enterClose cfg _ ht
  · split
    · exact ((h.same rfl rfl : RFrame s { s1 with rcvBusy := false }).on_emit (.ret u .refused)).on_finish t
    · exact (h.same rfl rfl : RFrame s { s1 with rcvBusy := false }).on_enterClose cfg _ ht

theorem RFrame.on_startRecv (u : Nat) (b : Bool) : RFrame s (startRecv s1 u b) := by
  unfold startRecv
  split
  · exact h
  · split
    · exact (h.on_emit _).on_setStatus _ _
    · split
      · rename_i n q _
        exact ((h.same rfl rfl : RFrame s { s1 with queue := q, vres := some n, rcvBusy := true, imm := some (.U u) }).on_setStatus
          (.U u) .ready).on_setProg _ (by simp)
      · split
        · split
          · exact (h.on_emit _).on_setStatus _ _
          · exact (h.on_emit _).on_setStatus _ _
        · exact ((((h.same rfl rfl : RFrame s { s1 with rcvBusy := true }).on_spawn .vget (by decide : Tid.V ≠ .R))).on_setStatus
            (.U u) (.waitT .V)).on_setProg _ (by simp)

end post

/-- a step of any task other than the reader -/
theorem rf_stepRun (cfg : Cfg) (s : St) {t : Tid} (ht : t ≠ .R) : RFrame s (stepRun cfg s t) := by
  unfold stepRun
  have h : RFrame s { s with imm := none } := (RFrame.refl s).same rfl rfl
  generalize ({ s with imm := none } : St) = s0 at h
  simp only
  split
  · split
    · exact (h.on_emit _).on_finish t
    · exact h.on_finish t
    · split
      · exact ((h.same rfl rfl : RFrame s { s0 with vres := none, rcvBusy := false, queue := _ }).on_emit _).on_finish t
      · exact ((h.same rfl rfl : RFrame s { s0 with vres := none, rcvBusy := false, queue := _ }).on_emit _).on_finish t
    · split
      · exact ((h.same rfl rfl : RFrame s { s0 with vres := none, rcvBusy := false, queue := _ }).on_emit _).on_finish t
      · exact ((h.same rfl rfl : RFrame s { s0 with vres := none, rcvBusy := false, queue := _ }).on_setStatus t .ready).on_enterClose cfg _ ht
    · exact h.on_stepInClose cfg _ ht
    · exact h.on_finish t
  · split
    · split
      · rename_i h'; exact absurd h' ht
      · exact h
    · split
      · exact h.on_stepDisp cfg
      · exact h
    · split
      · exact ((h.on_emit _).on_setProg _ ht).same rfl rfl
      · exact h.on_setProg _ ht
    · exact h.on_setProg _ ht
    · split
      · exact h.on_stepMon cfg _
      · split
        · exact h.on_stepMon cfg _
        · exact h
    · exact h.on_enterClose cfg _ ht
    · exact h.on_stepInClose cfg _ ht
    · split
      · exact h.on_setStatus _ _
      · split
        · exact h
        · exact (h.same rfl rfl : RFrame s { s0 with queue := _, vres := _ }).on_finish t
    · split
      · exact ((h.same rfl rfl : RFrame s { s0 with vres := none, rcvBusy := false, gone := _ }).on_emit _).on_finish t
      · split
        · exact ((h.same rfl rfl : RFrame s { s0 with rcvBusy := false }).on_emit _).on_finish t
        · exact ((h.same rfl rfl : RFrame s { s0 with rcvBusy := false }).on_emit _).on_finish t
    · exact h.on_loginResume cfg _ ht
    · exact h
  · exact h

/-- **no event other than a step of the reader task moves the reader's program counter or clears `_stopped`** (a second
    `connection_made` is ignored once a reader exists or the session is closed) -/
theorem rf_step (cfg : Cfg) (s : St) (ev : Ev) (hr : ev ≠ .run .R) (hc : ev = .connect → (s.status .R ≠ .absent ∨ s.closed = true)) :
    RFrame s (step cfg s ev) := by
  have h := RFrame.refl s
  cases ev with
  | connect =>
    simp only [step]
    split
    · exact h
    · rename_i h'
      exfalso
      apply h'
      rcases hc rfl with h1 | h1
      · simp [h1]
      · simp [h1]
  | data fs => exact h.same rfl rfl
  | eof => exact h.on_initiateClose
  | run t =>
    have ht : t ≠ .R := fun h' => hr (by rw [h'])
    simp only [step]
    split
    · exact rf_stepRun cfg s ht
    · exact h
  | callClose u =>
    simp only [step]
    split
    · exact h
    · exact ((h.on_setStatus (.U u) .ready).on_setProg .idle (by simp)).on_enterClose cfg _ (by simp)
  | callInitiateClose => exact h.on_initiateClose
  | callLogout =>
    exact ((h.on_emit (.write .logout)).same rfl rfl : RFrame s { (s.emit (.write .logout)) with pingL := true }).on_initiateClose
  | callRecv u =>
    simp only [step]
    split
    · exact h
    · exact h.on_startRecv _ _
  | callRecvNowait u =>
    simp only [step]
    split
    · exact h
    · split
      · exact h.on_emit _
      · split
        · rename_i n q _
          exact (h.same rfl rfl : RFrame s { s with queue := q, gone := s.gone ++ [(n, true)] }).on_emit (.ret u (.msg n))
        · split <;> exact h.on_emit _
  | callLogin u =>
    simp only [step]
    split
    · exact h
    · exact ((h.on_emit (.write .login)).same rfl rfl : RFrame s { (s.emit (.write .login)) with pingL := true }).on_startRecv _ _
  | callSend => exact (h.on_emit (.write .data)).same rfl rfl
  | cancel u => exact h.on_cancelTask _

/-! ### the reader's own steps -/

/-- the reader is on its way through `close()`: `_stopped` is already set or it is inside the close body / close callback -/
def RGone (s : St) : Prop := s.rStopped = true ∨ s.prog .R = .inClose

theorem rg_runCont_reader (s : St) : RGone (runCont s .R .readerTail) := Or.inl rfl

theorem rg_closeTail (cfg : Cfg) (s : St) : RGone (closeTail cfg s .R .readerTail) := by
  unfold closeTail
  simp only
  split
  · exact rg_runCont_reader _
  · split
    · exact Or.inr (by simp [St.setProg])
    · exact rg_runCont_reader _

theorem rg_execClose (cfg : Cfg) (pc : Nat) (s : St) : RGone (execClose cfg s .R .readerTail pc) := by
  refine execClose_rule cfg .R .readerTail (fun _ => True) RGone ?_ ?_ ?_ ?_ pc s trivial
  · intro _ _; trivial
  · intro _ _; trivial
  · intro s' x pc' _ _ _ _
    exact Or.inr (by simp [suspendOn, St.setProg])
  · intro s' _; exact rg_closeTail cfg s'

/-- `Reader.stop()` called by the reader task itself -/
theorem rg_enterClose (cfg : Cfg) (s : St) : RGone (enterClose cfg s .R .readerTail) := by
  unfold enterClose
  split
  · exact rg_runCont_reader _
  · exact rg_execClose cfg 0 _

theorem contOk_R {c : Cont} (h : contOk .R c) : c = .readerTail := by
  cases c <;> simp [contOk] at h <;> rfl

/-- the reader task, resumed inside `close()`: it stays inside, or `close()` returns to it and `_stopped` is set -/
theorem rg_stepInClose (cfg : Cfg) (s : St) (i : InvB s) (hp : s.prog .R = .inClose) (b : Bool) :
    RGone (stepInClose cfg s .R b) := by
  unfold stepInClose
  split
  · rename_i t' pc c hc
    split
    · rename_i ht
      subst ht
      have hcr : c = .readerTail := contOk_R (i.bst _ pc c hc).2.2.2.2.2
      subst hcr
      unfold resumeClose
      simp only
      split <;> exact rg_execClose cfg _ _
    · exact Or.inr hp
  · rename_i t' k c hc
    split
    · rename_i ht
      subst ht
      have hcr : c = .readerTail := contOk_R (i.cb _ k c hc).2.2.1
      subst hcr
      split
      · exact Or.inr hp
      · split
        · exact rg_runCont_reader _
        · exact Or.inr hp
    · exact Or.inr hp
  · exact Or.inr hp

theorem allowed_R {p : Prog} (h : allowed .R p = true) : p = .readerLoop ∨ p = .inClose := by
  cases p <;> simp [allowed] at h <;> simp

/-- **a reader that has entered `close()` never gets back to its loop body**: every later step of the reader task keeps it
    inside `close()` or finds `_stopped` set -/
theorem rg_stepRun (cfg : Cfg) (s : St) (i : InvB s) (h : RGone s) : RGone (stepRun cfg s .R) := by
  have i0 : InvB { s with imm := none } := InvB.of_bcore (s := s) rfl i
  have h0 : RGone ({ s with imm := none } : St) := h
  cases hs : s.status .R with
  | absent => have : stepRun cfg s .R = { s with imm := none } := by simp [stepRun, hs]
              rw [this]; exact h0
  | waitQ => have : stepRun cfg s .R = { s with imm := none } := by simp [stepRun, hs]
             rw [this]; exact h0
  | waitT y => have : stepRun cfg s .R = { s with imm := none } := by simp [stepRun, hs]
               rw [this]; exact h0
  | done => have : stepRun cfg s .R = { s with imm := none } := by simp [stepRun, hs]
            rw [this]; exact h0
  | ready =>
    rcases allowed_R (i.typ .R (by rw [hs]; rfl)) with hp | hp
    · have : stepRun cfg s .R = stepReader cfg { s with imm := none } := by simp [stepRun, hs, hp]
      rw [this]
      rcases h with h | h
      · unfold stepReader
        have h' : ({ s with imm := none } : St).rStopped = true := h
        rw [if_pos h']; exact Or.inl h
      · rw [hp] at h; cases h
    · have : stepRun cfg s .R = stepInClose cfg { s with imm := none } .R false := by simp [stepRun, hs, hp]
      rw [this]; exact rg_stepInClose cfg _ i0 hp false
  | cancelled =>
    rcases allowed_R (i.typ .R (by rw [hs]; rfl)) with hp | hp
    · have : stepRun cfg s .R = ({ s with imm := none } : St).finish .R := by simp [stepRun, hs, hp]
      rw [this]
      rcases h with h | h
      · exact Or.inl h
      · rw [hp] at h; cases h
    · have : stepRun cfg s .R = stepInClose cfg { s with imm := none } .R true := by simp [stepRun, hs, hp]
      rw [this]; exact rg_stepInClose cfg _ i0 hp true

/-- every event keeps a reader that has entered `close()` there (the session is closed by then, so a second
    `connection_made` is ignored) -/
theorem rg_step (cfg : Cfg) (s : St) (i : InvB s) (hc : s.closed = true) (h : RGone s) (ev : Ev) : RGone (step cfg s ev) := by
  by_cases hr : ev = .run .R
  · subst hr
    simp only [step]
    split
    · exact rg_stepRun cfg s i h
    · exact h
  · have f := rf_step cfg s ev hr (fun _ => Or.inr hc)
    rcases h with h | h
    · exact Or.inl (f.2 h)
    · exact Or.inr (f.1.trans h)

end NasdaqModel.Sess
