import NasdaqModel.Lemmas.SessionLemmas4
/-
A user task returns at most once (C11: "exactly two outcomes" — at most one per attempt).

`InvK u s`: the number of observables `ret u _` in the trace is `0` as long as user task `u` has not ended and at most `1`
afterwards.  It is inductive because `done` is absorbing for user tasks (only library tasks are re-spawned), every step that
emits `ret u _` is a step of task `u` itself (typing, `InvB.typ` / `contOk`) that ends it in the same step, and a task that
takes a step has not ended.  The close machinery is traversed once with `execClose_rule`.
-/
namespace NasdaqModel.Sess

/-- the observable is a return of user task `u` -/
def isRet (u : Nat) : Obs → Bool
  | .ret v _ => v == u
  | _ => false

theorem isRet_iff {u : Nat} {o : Obs} : isRet u o = true ↔ ∃ r, o = .ret u r := by
  cases o <;> simp [isRet]

/-- how many times user task `u` has returned -/
def retCount (u : Nat) (l : List Obs) : Nat := (l.filter (isRet u)).length

theorem retCount_snoc (u : Nat) (l : List Obs) (o : Obs) :
    retCount u (l ++ [o]) = retCount u l + (if isRet u o = true then 1 else 0) := by
  unfold retCount
  rw [List.filter_append, List.length_append]
  by_cases h : isRet u o = true <;> simp [List.filter, h]

/-- **a user task returns once**: the number of `ret u _` in the trace is 0 while task `u` has not ended and at most 1 afterwards -/
def InvK (u : Nat) (s : St) : Prop := retCount u s.trace ≤ (if s.status (.U u) = .done then 1 else 0)

variable {u : Nat}

theorem InvK.mono {s s' : St} (hc : retCount u s'.trace = retCount u s.trace)
    (hd : s.status (.U u) = .done → s'.status (.U u) = .done) (i : InvK u s) : InvK u s' := by
  unfold InvK at *
  rw [hc]
  by_cases h : s.status (.U u) = .done
  · rw [if_pos (hd h)]; rw [if_pos h] at i; exact i
  · rw [if_neg h] at i; omega

theorem InvK.same {s s' : St} (h1 : s'.trace = s.trace) (h2 : s'.status (.U u) = s.status (.U u)) (i : InvK u s) : InvK u s' :=
  InvK.mono (s := s) (by rw [h1]) (by rw [h2]; exact id) i

theorem InvK.emit {s : St} {o : Obs} (h : isRet u o = false) (i : InvK u s) : InvK u (s.emit o) :=
  InvK.mono (s := s) (by show retCount u (s.trace ++ [o]) = _; rw [retCount_snoc, h]; simp) (fun h => h) i

theorem InvK.finish {s : St} (t : Tid) (i : InvK u s) : InvK u (s.finish t) := by
  refine InvK.mono (s := s) rfl ?_ i
  intro h
  rw [finish_status]
  split
  · rfl
  · rw [h]; simp

/-- emit an observable, then end task `t`: if the observable is a return of `u`, the task is `u` and it had not ended -/
theorem InvK.emit_finish {s : St} {o : Obs} {t : Tid} (h : isRet u o = true → t = .U u ∧ s.status (.U u) ≠ .done)
    (i : InvK u s) : InvK u ((s.emit o).finish t) := by
  by_cases ho : isRet u o = true
  · obtain ⟨ht, hnd⟩ := h ho
    subst ht
    unfold InvK at *
    rw [if_neg hnd] at i
    have : ((s.emit o).finish (.U u)).status (.U u) = .done := by simp [finish_status]
    rw [if_pos this]
    show retCount u (s.trace ++ [o]) ≤ 1
    rw [retCount_snoc, ho]; simp; omega
  · exact (i.emit (by simpa using ho)).finish t

theorem InvK.setStatus {s : St} {t : Tid} {x : Status} (h : t = .U u → s.status (.U u) ≠ .done) (i : InvK u s) :
    InvK u (s.setStatus t x) := by
  refine InvK.mono (s := s) rfl ?_ i
  intro hd
  rw [setStatus_status]
  split
  · rename_i e; exact absurd hd (h e.symm)
  · exact hd

theorem InvK.setProg {s : St} {t : Tid} {p : Prog} (i : InvK u s) : InvK u (s.setProg t p) := i.same rfl rfl

theorem InvK.spawn {s : St} {t : Tid} {p : Prog} (h : t = .U u → s.status (.U u) ≠ .done) (i : InvK u s) : InvK u (s.spawn t p) :=
  (i.setStatus h).setProg

theorem cancelTask_done (s : St) (x y : Tid) (h : s.status y = .done) : (s.cancelTask x).status y = .done := by
  unfold St.cancelTask
  split
  · rw [setStatus_status]; split
    · rename_i e; subst e; simp_all
    · exact h
  · rw [setStatus_status]; split
    · rename_i e; subst e; simp_all
    · exact h
  · split
    · rw [setStatus_status]; split
      · rename_i e; subst e; simp_all
      · exact h
    · rw [setStatus_status]; split
      · rename_i e; subst e; simp_all
      · exact h
    · exact h
  · exact h

theorem cancelTask_trace (s : St) (x : Tid) : (s.cancelTask x).trace = s.trace := by
  unfold St.cancelTask
  split <;> try rfl
  split <;> rfl

theorem InvK.cancelTask {s : St} (x : Tid) (i : InvK u s) : InvK u (s.cancelTask x) :=
  InvK.mono (s := s) (by rw [cancelTask_trace]) (cancelTask_done s x _) i

theorem InvK.wakeGetter {s : St} {t : Tid} (h : t ≠ .U u) (i : InvK u s) : InvK u (s.wakeGetter t) := by
  unfold St.wakeGetter
  split
  · exact i.setStatus (fun e => absurd e h)
  · exact i

theorem InvK.put {s : St} (m : Nat) (i : InvK u s) : InvK u (s.put m) := by
  unfold St.put
  apply InvK.wakeGetter (by simp)
  apply InvK.wakeGetter (by simp)
  exact i.same rfl rfl

theorem InvK.initiateClose {s : St} (i : InvK u s) : InvK u s.initiateClose := by
  unfold St.initiateClose
  split
  · exact i
  · exact InvK.spawn (by simp) (i.same rfl rfl)

theorem InvK.startDispatching {s : St} {cfg : Cfg} (i : InvK u s) : InvK u (s.startDispatching cfg) := by
  unfold St.startDispatching
  split
  · exact InvK.spawn (by simp) (i.same rfl rfl)
  · exact i

theorem InvK.startHeartbeats {s : St} (i : InvK u s) : InvK u s.startHeartbeats := by
  unfold St.startHeartbeats
  exact InvK.spawn (by simp) (InvK.spawn (by simp) (i.same rfl rfl))


/-! ### the close machinery -/

theorem cancelTask_done_iff (s : St) (x y : Tid) : (s.cancelTask x).status y = .done ↔ s.status y = .done := by
  constructor
  · intro h
    unfold St.cancelTask at h
    split at h
    · rw [setStatus_status] at h; split at h
      · simp at h
      · exact h
    · rw [setStatus_status] at h; split at h
      · simp at h
      · exact h
    · split at h
      · rw [setStatus_status] at h; split at h
        · simp at h
        · exact h
      · rw [setStatus_status] at h; split at h
        · simp at h
        · exact h
      · exact h
    · exact h
  · exact cancelTask_done s x y

theorem isRet_ret {u u' : Nat} {r : Res} (h : isRet u (.ret u' r) = true) : u' = u := by
  simpa [isRet] using h

theorem runCont_K {s : St} {t : Tid} {c : Cont} (hc : contOk t c) (hnd : t = .U u → s.status (.U u) ≠ .done)
    (i : InvK u s) : InvK u (runCont s t c) := by
  cases c with
  | readerTail =>
    simp only [contOk] at hc; subst hc
    exact InvK.setProg (InvK.setStatus (by simp) (InvK.same (s := s) rfl rfl i))
  | handlerTail n =>
    simp only [contOk] at hc; subst hc
    exact InvK.same (s := ((s.emit (.msgExit n)).setStatus .D .ready).setProg .D .dispLoop) rfl rfl
      (InvK.setProg (InvK.setStatus (by simp) (i.emit rfl)))
  | monitorTail => exact i.finish t
  | closingTail => exact i.finish t
  | userTail u' r =>
    simp only [contOk] at hc; subst hc
    apply InvK.emit_finish _ i
    intro ho
    have := isRet_ret ho
    subst this
    exact ⟨rfl, hnd rfl⟩

theorem closeTail_K {cfg : Cfg} {s : St} {t : Tid} {c : Cont} (hc : contOk t c) (hnd : t = .U u → s.status (.U u) ≠ .done)
    (i : InvK u s) : InvK u (closeTail cfg s t c) := by
  unfold closeTail
  simp only
  split
  · exact runCont_K hc hnd (InvK.same (s := s.emit .tclose) rfl rfl (i.emit rfl))
  · split
    · rename_i k _
      exact InvK.same (s := (((s.emit .tclose).emit .cbEnter).setStatus t .ready).setProg t .inClose) rfl rfl
        (InvK.setProg (InvK.setStatus hnd ((i.emit rfl).emit rfl)))
    · exact runCont_K hc hnd (InvK.same (s := ((s.emit .tclose).emit .cbEnter).emit .cbExit) rfl rfl (((i.emit rfl).emit rfl).emit rfl))

theorem execClose_K {cfg : Cfg} {t : Tid} {c : Cont} (hc : contOk t c) (pc : Nat) (s : St)
    (hnd : t = .U u → s.status (.U u) ≠ .done) (i : InvK u s) : InvK u (execClose cfg s t c pc) := by
  refine execClose_rule cfg t c (fun s' => InvK u s' ∧ (t = .U u → s'.status (.U u) ≠ .done)) (InvK u) ?_ ?_ ?_ ?_ pc s ⟨i, hnd⟩
  · rintro s' ⟨i', h'⟩; exact ⟨InvK.same (s := s') rfl rfl i', h'⟩
  · rintro s' ⟨i', h'⟩; exact ⟨InvK.same (s := s') rfl rfl i', h'⟩
  · rintro s' x pc' ⟨i', h'⟩ _ _ _
    refine InvK.same (s := ((s'.cancelTask x).setStatus t (.waitT x)).setProg t .inClose) rfl rfl ?_
    apply InvK.setProg
    apply InvK.setStatus _ (i'.cancelTask x)
    intro e hd
    exact h' e ((cancelTask_done_iff s' x _).mp hd)
  · rintro s' ⟨i', h'⟩; exact closeTail_K hc h' i'

theorem enterClose_K {cfg : Cfg} {s : St} {t : Tid} {c : Cont} (hc : contOk t c) (hnd : t = .U u → s.status (.U u) ≠ .done)
    (i : InvK u s) : InvK u (enterClose cfg s t c) := by
  unfold enterClose
  split
  · exact runCont_K hc hnd i
  · exact execClose_K hc 0 _ hnd (InvK.same (s := s) rfl rfl i)

theorem alive_not_done {x : Status} (h : alive x = true) : x ≠ .done := by
  intro e; rw [e] at h; simp [alive] at h

theorem stepInClose_K {cfg : Cfg} {s : St} (b : InvB s) (t : Tid) (cn : Bool) (i : InvK u s) :
    InvK u (stepInClose cfg s t cn) := by
  unfold stepInClose
  split
  · rename_i t' pc c hs
    split
    · rename_i htt; subst htt
      obtain ⟨_, _, _, hal, _, cok⟩ := b.bst t' pc c hs
      have hnd : t' = .U u → s.status (.U u) ≠ .done := fun e => by rw [← e]; exact alive_not_done hal
      have i1 : InvK u (s.setStatus t' .ready) := i.setStatus hnd
      have hnd1 : t' = .U u → (s.setStatus t' .ready).status (.U u) ≠ .done := by
        intro e; rw [setStatus_status]; simp [e]
      unfold resumeClose
      simp only
      apply execClose_K cok
      · split
        · exact hnd1
        · exact hnd1
      · split
        · exact InvK.same (s := s.setStatus t' .ready) rfl rfl i1
        · exact i1
    · exact i
  · rename_i t' k c hs
    split
    · rename_i htt; subst htt
      obtain ⟨_, hrun, cok, _⟩ := b.cb t' k c hs
      have hnd : t' = .U u → s.status (.U u) ≠ .done := fun e => by
        rw [← e]; rcases hrun with h | h <;> rw [h] <;> simp
      split
      · split
        · rename_i u' r
          simp only [contOk] at cok; subst cok
          apply InvK.emit_finish _ (InvK.same (s := s) rfl rfl i)
          intro ho
          have := isRet_ret ho
          subst this
          exact ⟨rfl, hnd rfl⟩
        · exact InvK.finish _ (InvK.same (s := s) rfl rfl i)
      · split
        · exact runCont_K cok hnd (InvK.same (s := s.emit .cbExit) rfl rfl (i.emit rfl))
        · exact InvK.same (s := s) rfl rfl i
    · exact i
  · exact i


/-! ### the steps -/

theorem InvK.ret_finish {s s1 : St} {a : Nat} {r : Res} (h1 : retCount u s1.trace = retCount u s.trace)
    (h2 : s1.status (.U u) = s.status (.U u))
    (hnd : s.status (.U a) ≠ .done) (i : InvK u s) : InvK u ((s1.emit (.ret a r)).finish (.U a)) := by
  apply InvK.emit_finish _ (InvK.mono (s := s) h1 (by rw [h2]; exact id) i)
  intro ho
  have := isRet_ret ho
  subst this
  exact ⟨rfl, by rw [h2]; exact hnd⟩

theorem InvK.ret_setDone {s s1 : St} {a : Nat} {r : Res} (h1 : s1.trace = s.trace) (h2 : s1.status (.U u) = s.status (.U u))
    (hnd : s.status (.U a) ≠ .done) (i : InvK u s) : InvK u ((s1.emit (.ret a r)).setStatus (.U a) .done) := by
  by_cases ho : isRet u (.ret a r) = true
  · have := isRet_ret ho
    subst this
    unfold InvK at *
    rw [if_neg hnd] at i
    have : ((s1.emit (.ret a r)).setStatus (.U a) .done).status (.U a) = .done := by simp [setStatus_status]
    rw [if_pos this]
    show retCount a (s1.trace ++ [.ret a r]) ≤ 1
    rw [retCount_snoc, ho, h1]; simp; omega
  · have hau : a ≠ u := by intro e; subst e; simp [isRet] at ho
    exact InvK.setStatus (by intro e; injection e with e; exact absurd e hau)
      (InvK.emit (by simpa using ho) (InvK.same (s := s) h1 h2 i))

theorem stepReader_K {cfg : Cfg} {s : St} (i : InvK u s) : InvK u (stepReader cfg s) := by
  unfold stepReader
  split
  · exact i.finish _
  · split
    · exact i
    · rename_i f rest _
      cases f with
      | msg n => exact InvK.put n (InvK.same (s := s) rfl rfl i)
      | hb => exact InvK.same (s := s) rfl rfl i
      | logout => exact enterClose_K (t := .R) (c := .readerTail) rfl (by simp) (InvK.same (s := s) rfl rfl i)
      | bad => exact enterClose_K (t := .R) (c := .readerTail) rfl (by simp) (InvK.same (s := s) rfl rfl i)

theorem dispHandle_K {cfg : Cfg} {s : St} (n : Nat) (i : InvK u s) : InvK u (dispHandle cfg s n) := by
  unfold dispHandle
  split
  · exact InvK.same (s := s.emit (.msgExit n)) rfl rfl (i.emit rfl)
  · exact i.setProg
  · exact enterClose_K (t := .D) (c := .handlerTail n) rfl (by simp) i
  · exact InvK.same (s := (s.initiateClose).emit (.msgExit n)) rfl rfl (i.initiateClose.emit rfl)
  · exact InvK.same (s := s.emit (.msgRaise n)) rfl rfl (i.emit rfl)
  · exact InvK.same (s := ((s.emit (.write .reply)).startHeartbeats).emit (.msgExit n)) rfl rfl (((i.emit rfl).startHeartbeats).emit rfl)
  · exact enterClose_K (t := .D) (c := .handlerTail n) rfl (by simp) (i.emit rfl)

theorem stepDisp_K {cfg : Cfg} {s : St} (i : InvK u s) : InvK u (stepDisp cfg s) := by
  unfold stepDisp
  split
  · exact i.finish _
  · split
    · exact i
    · split
      · exact i.setStatus (by simp)
      · exact dispHandle_K _ (InvK.emit rfl (InvK.same (s := s) rfl rfl i))

theorem stepMon_K {cfg : Cfg} {s : St} (b : Bool) (i : InvK u s) : InvK u (stepMon cfg s b) := by
  unfold stepMon
  split
  · split
    · exact InvK.same (s := s) rfl rfl i
    · exact i.emit rfl
  · split
    · exact InvK.same (s := s) rfl rfl i
    · exact enterClose_K (t := .M) (c := .monitorTail) rfl (by simp) i

theorem startDispatching_status_user (s : St) (cfg : Cfg) (a : Nat) : (s.startDispatching cfg).status (.U a) = s.status (.U a) := by
  unfold St.startDispatching
  split <;> simp [St.spawn, St.setStatus, St.setProg]

theorem startDispatching_trace (s : St) (cfg : Cfg) : (s.startDispatching cfg).trace = s.trace := by
  unfold St.startDispatching
  split <;> rfl

theorem loginResume_K {cfg : Cfg} {s : St} {a : Nat} (hnd : s.status (.U a) ≠ .done) (i : InvK u s) :
    InvK u (loginResume cfg s (.U a) a) := by
  unfold loginResume
  split
  · rename_i n _
    simp only
    split
    · refine InvK.ret_finish (s := s) ?_ ?_ hnd i
      · rw [startDispatching_trace]
        show retCount u (s.trace ++ [.loginReply n]) = _
        rw [retCount_snoc]; simp [isRet]
      · rw [startDispatching_status_user]; rfl
    · exact enterClose_K (c := .userTail a .refused) rfl (fun e => by injection e with e; subst e; exact hnd)
        (InvK.emit rfl (InvK.same (s := s) rfl rfl i))
  · split
    · exact InvK.ret_finish (s := s) rfl rfl hnd i
    · exact enterClose_K (c := .userTail a .cancelled) rfl (fun e => by injection e with e; subst e; exact hnd)
        (InvK.same (s := s) rfl rfl i)


theorem stepRun_K {cfg : Cfg} {s : St} (b : InvB s) (t : Tid) (i : InvK u s) : InvK u (stepRun cfg s t) := by
  unfold stepRun
  have i0 : InvK u { s with imm := none } := InvK.same (s := s) rfl rfl i
  have b0 : InvB { s with imm := none } := InvB.of_bcore (s := s) rfl b
  generalize ({ s with imm := none } : St) = s0 at i0 b0
  simp only
  split
  · -- a cancellation is delivered
    rename_i hst
    have hal : alive (s0.status t) = true := by rw [hst]; rfl
    have hnd : ∀ a, t = .U a → s0.status (.U a) ≠ .done := fun a e => by rw [← e, hst]; simp
    have typ := b0.typ t hal
    split
    · exact InvK.finish _ (i0.emit rfl)
    · exact i0.finish _
    · rename_i a hp
      rw [hp] at typ
      have htu := allowed_recvWait typ; subst htu
      split
      · exact InvK.ret_finish (s := s0) rfl rfl (hnd a rfl) i0
      · exact InvK.ret_finish (s := s0) rfl rfl (hnd a rfl) i0
    · rename_i a hp
      rw [hp] at typ
      have htu := allowed_loginWait typ; subst htu
      split
      · exact InvK.ret_finish (s := s0) rfl rfl (hnd a rfl) i0
      · refine enterClose_K (c := .userTail a .cancelled) rfl ?_ ?_
        · intro e; injection e with e; subst e; simp [setStatus_status]
        · exact InvK.setStatus (fun e => by injection e with e; subst e; exact hnd _ rfl) (InvK.same (s := s0) rfl rfl i0)
    · exact stepInClose_K b0 _ _ i0
    · exact i0.finish _
  · -- the task runs
    rename_i hst
    have hal : alive (s0.status t) = true := by rw [hst]; rfl
    have hnd : ∀ a, t = .U a → s0.status (.U a) ≠ .done := fun a e => by rw [← e, hst]; simp
    have typ := b0.typ t hal
    split
    · split
      · exact stepReader_K i0
      · exact i0
    · split
      · exact stepDisp_K i0
      · exact i0
    · split
      · exact InvK.same (s := (s0.emit (.msgExit _)).setProg t .dispLoop) rfl rfl ((i0.emit rfl).setProg)
      · exact i0.setProg
    · exact i0.setProg
    · split
      · exact stepMon_K _ i0
      · split
        · exact stepMon_K _ i0
        · exact i0
    · rename_i c hp
      rw [hp] at typ
      obtain ⟨h1, h2⟩ := allowed_closeEntry typ
      subst h1; subst h2
      exact enterClose_K (t := .C) (c := .closingTail) rfl (by simp) i0
    · exact stepInClose_K b0 _ _ i0
    · split
      · exact i0.setStatus (hnd u)
      · split
        · exact i0
        · exact InvK.finish _ (InvK.same (s := s0) rfl rfl i0)
    · rename_i a hp
      rw [hp] at typ
      have htu := allowed_recvWait typ; subst htu
      split
      · exact InvK.ret_finish (s := s0) rfl rfl (hnd a rfl) i0
      · split
        · exact InvK.ret_finish (s := s0) rfl rfl (hnd a rfl) i0
        · exact InvK.ret_finish (s := s0) rfl rfl (hnd a rfl) i0
    · rename_i a hp
      rw [hp] at typ
      have htu := allowed_loginWait typ; subst htu
      exact loginResume_K (hnd a rfl) i0
    · exact i0
  · exact i0

theorem startRecv_K {s : St} (a : Nat) (isLogin : Bool) (hnd : s.status (.U a) ≠ .done) (i : InvK u s) :
    InvK u (startRecv s a isLogin) := by
  have hnd' : Tid.U a = .U u → s.status (.U u) ≠ .done := fun e => by injection e with e; subst e; exact hnd
  unfold startRecv
  split
  · exact i
  · split
    · exact InvK.ret_setDone (s := s) rfl rfl hnd i
    · split
      · exact InvK.setProg (InvK.setStatus hnd' (InvK.same (s := s) rfl rfl i))
      · split
        · split
          · exact InvK.ret_setDone (s := s) rfl rfl hnd i
          · exact InvK.ret_setDone (s := s) rfl rfl hnd i
        · refine InvK.setProg (InvK.setStatus ?_ (InvK.spawn (by simp) (InvK.same (s := s) rfl rfl i)))
          intro e; injection e with e; subst e
          simpa [St.spawn, St.setStatus, St.setProg] using hnd

/-- **`InvK` is kept by every step**, except the synchronous `receive_msg_nowait()` labelled with the same `u`
    (it reports its result under the label `u` without being a task) -/
theorem step_K {cfg : Cfg} {s : St} (b : InvB s) (ev : Ev) (hev : ev ≠ .callRecvNowait u) (i : InvK u s) :
    InvK u (step cfg s ev) := by
  cases ev with
  | connect =>
    simp only [step]
    split
    · exact i
    · split
      · exact InvK.startDispatching (InvK.spawn (by simp) i)
      · exact InvK.spawn (by simp) i
  | data fs => exact InvK.same (s := s) rfl rfl i
  | eof => exact i.initiateClose
  | run t =>
    simp only [step]
    split
    · exact stepRun_K b t i
    · exact i
  | callClose a =>
    simp only [step]
    split
    · exact i
    · rename_i hab
      have hab' : s.status (.U a) = .absent := by simpa using hab
      refine enterClose_K (c := .userTail a .ok) rfl ?_ ?_
      · intro e; injection e with e; subst e; simp [St.setProg, St.setStatus]
      · refine InvK.setProg (InvK.setStatus ?_ i)
        intro e; injection e with e; subst e; rw [hab']; simp
  | callInitiateClose => exact i.initiateClose
  | callLogout => exact InvK.initiateClose (InvK.same (s := s.emit (.write .logout)) rfl rfl (i.emit rfl))
  | callRecv a =>
    simp only [step]
    split
    · exact i
    · rename_i hab
      have hab' : s.status (.U a) = .absent := by simpa using hab
      exact startRecv_K a false (by rw [hab']; simp) i
  | callRecvNowait a =>
    have hau : a ≠ u := fun e => hev (by rw [e])
    have hr : ∀ r, isRet u (.ret a r) = false := by intro r; simp [isRet, hau]
    simp only [step]
    split
    · exact i
    · split
      · exact i.emit (hr _)
      · split
        · exact InvK.emit (hr _) (InvK.same (s := s) rfl rfl i)
        · split <;> exact i.emit (hr _)
  | callLogin a =>
    simp only [step]
    split
    · exact i
    · rename_i hab
      have hab' : s.status (.U a) = .absent := by
        simp only [Bool.or_eq_true, not_or] at hab
        simpa using hab.1.1
      exact startRecv_K a true (by show s.status (.U a) ≠ .done; rw [hab']; simp)
        (InvK.same (s := s.emit (.write .login)) rfl rfl (i.emit rfl))
  | callSend => exact InvK.same (s := s.emit (.write .data)) rfl rfl (i.emit rfl)
  | cancel a => exact i.cancelTask _

theorem InvK.init (u : Nat) : InvK u {} := by simp [InvK, retCount]

/-- **Every user task returns at most once**, in every reachable state (provided the label `u` is not also used for a
    synchronous `receive_msg_nowait()`). -/
theorem runEvs_InvK (cfg : Cfg) (u : Nat) (evs : List Ev) (h : ∀ ev ∈ evs, ev ≠ .callRecvNowait u) :
    InvK u (runEvs cfg {} evs) := by
  have : ∀ (s : St), InvA cfg s → InvR s → InvB s → InvK u s → InvK u (runEvs cfg s evs) := by
    induction evs with
    | nil => intro s _ _ _ i; exact i
    | cons ev evs ih =>
      intro s a r b i
      exact ih (fun e he => h e (List.mem_cons_of_mem _ he)) _ (step_InvA a ev) (step_InvR a r ev) (step_InvB a r b ev)
        (step_K b ev (h ev (by simp)) i)
  exact this _ (InvA.init cfg) InvR.init InvB.init (InvK.init u)

end NasdaqModel.Sess
