import NasdaqModel.Lemmas.FixSharedAux
/-
The converse of `Lemmas/FixShared.lean`: in a level-distinct dictionary, a well-formed message whose bytes decode to its canonical
form satisfies the count-ends condition (`countEndsS`) - the condition is NECESSARY, not only sufficient (W-C13S).

  * `segLoop_mono` / `grpLoop_mono`: the loops only ever append to what they have accumulated;
  * `NecOK e`: if the decoder of entry `e` returns the canonical value on `encoding ++ SOH ++ rest`, it consumed exactly the encoding
    and the tag that begins `rest` ends the value (`ceVal`);
  * `segLoop_items_conv`, `grpLoop_insts_conv`, `necOK_all`, `segFromBytes_seg_conv`, `countEndsS_of_decode`.
-/
namespace NasdaqModel.Fix
open NasdaqModel Py

/-! ### the loops only append -/

theorem segLoop_mono (tbl : Table) : ∀ (fuel : Nat) (bs : Bytes) (c : Nat) (acc : Seg) (c' : Nat) (acc' : Seg),
    segLoop tbl fuel bs c acc = .ok (c', acc') → ∃ ext, acc' = acc ++ ext := by
  intro fuel
  induction fuel with
  | zero => intro bs c acc c' acc' h; simp [segLoop] at h
  | succ fuel ih =>
    intro bs c acc c' acc' h
    rw [segLoop] at h
    split at h
    · injection h with h; injection h with _ h; exact ⟨[], by simp [h]⟩
    · simp only at h
      obtain ⟨s, _, h⟩ := bind_ok h
      obtain ⟨tag, _, h⟩ := bind_ok h
      split at h
      · injection h with h; injection h with _ h; exact ⟨[], by simp [h]⟩
      · split at h
        · injection h with h; injection h with _ h; exact ⟨[], by simp [h]⟩
        · obtain ⟨r, _, h⟩ := bind_ok h
          obtain ⟨ext, he⟩ := ih _ _ _ _ _ h
          exact ⟨(tag.toNat, r.2) :: ext, by rw [he]; simp⟩

theorem grpLoop_mono (tbl : Table) : ∀ (k : Nat) (bs : Bytes) (c : Nat) (acc : List Seg) (c' : Nat) (acc' : List Seg),
    grpLoop tbl k bs c acc = .ok (c', acc') → ∃ ext, acc' = acc ++ ext := by
  intro k
  induction k with
  | zero => intro bs c acc c' acc' h; simp only [grpLoop] at h; injection h with h; injection h with _ h; exact ⟨[], by simp [h]⟩
  | succ k ih =>
    intro bs c acc c' acc' h
    rw [grpLoop] at h
    split at h
    · injection h with h; injection h with _ h; exact ⟨[], by simp [h]⟩
    · obtain ⟨r, _, h⟩ := bind_ok h
      split at h
      · injection h with h; injection h with _ h; exact ⟨[], by simp [h]⟩
      · obtain ⟨ext, he⟩ := ih _ _ _ _ _ h
        exact ⟨r.2 :: ext, by rw [he]; simp⟩

theorem lookupT_tableOf_isSome {es : List Entry} {t : Nat} (h : t ∈ tagsOf es) : lookupT (tableOf es) (t : Int) ≠ none := by
  induction es with
  | nil => simp [tagsOf] at h
  | cons x xs ih =>
    simp only [tagsOf, List.map_cons, List.mem_cons] at h
    simp only [tableOf, lookupT]
    by_cases hx : (x.tag : Int) = (t : Int)
    · simp [hx]
    · simp only [hx, if_false]
      rcases h with h | h
      · exact absurd (by omega) hx
      · exact ih (by simpa [tagsOf] using h)

/-! ### the segment loop, converse -/

/-- the converse decoding statement for one entry -/
def NecOK (e : Entry) : Prop :=
  ∀ v b rest nxt n, wfVal e v = true → encEntry e v = .ok b → Next nxt rest →
    entryDec e (b ++ 1 :: rest) = .ok (n, canonVal e v) → n = b.length + 1 ∧ ceVal e v nxt = true

theorem segLoop_items_conv (es : List Entry) (htn : (tagsOf es).Nodup) (hN : ∀ e ∈ es, NecOK e) :
    ∀ (fs : List Item) (acc : Seg) (c fuel : Nat) (rest : Bytes) (follow : Option Nat) (c' : Nat),
      (∀ x ∈ fs, x.1 ∈ es ∧ wfVal x.1 x.2.1 = true ∧ encEntry x.1 x.2.1 = .ok x.2.2) →
      (itemTags fs ++ keysOf acc).Nodup →
      Next follow rest →
      segLoop (tableOf es) fuel (wireItems fs ++ rest) c acc = .ok (c', acc ++ canonItems fs) →
      c' = c + (wireItems fs).length ∧ ceItemsL fs follow = true ∧
        (∀ t, follow = some t → t ∈ keysOf acc ∨ t ∈ itemTags fs ∨ t ∉ tagsOf es) := by
  intro fs
  induction fs with
  | nil =>
    intro acc c fuel rest follow c' _ _ hnext h
    cases fuel with
    | zero => simp [segLoop] at h
    | succ fuel =>
      simp only [wireItems, List.map_nil, termAll_nil, List.nil_append, canonItems, List.append_nil] at h
      simp only [wireItems, List.map_nil, termAll_nil, List.length_nil, Nat.add_zero, ceItemsL, true_and]
      cases follow with
      | none =>
        simp only [Next] at hnext
        subst hnext
        rw [segLoop] at h
        simp only [List.isEmpty_nil, if_true] at h
        injection h with h; injection h with h _
        exact ⟨h.symm, by intro t ht; simp at ht⟩
      | some t =>
        obtain ⟨tail, hrest⟩ := hnext
        subst hrest
        rw [segLoop_step] at h
        by_cases hk : hasKey acc t = true
        · simp only [hk, if_true] at h
          injection h with h; injection h with h _
          exact ⟨h.symm, by intro t' ht'; injection ht' with ht'; subst ht'; exact Or.inl (hasKey_iff.mp hk)⟩
        · simp only [hk, Bool.false_eq_true, if_false] at h
          cases hl : lookupT (tableOf es) (t : Int) with
          | none =>
            rw [hl] at h
            simp only at h
            injection h with h; injection h with h _
            refine ⟨h.symm, ?_⟩
            intro t' ht'; injection ht' with ht'; subst ht'
            exact Or.inr (Or.inr (fun hm => lookupT_tableOf_isSome hm hl))
          | some dec =>
            rw [hl] at h
            simp only at h
            obtain ⟨r, _, h⟩ := bind_ok h
            obtain ⟨ext, he⟩ := segLoop_mono _ _ _ _ _ _ _ h
            have := congrArg List.length he
            simp at this
  | cons x fs ih =>
    intro acc c fuel rest follow c' hfs hnodup hnext h
    cases fuel with
    | zero => simp [segLoop] at h
    | succ fuel =>
      obtain ⟨hxes, hxwf, hxenc⟩ := hfs x (by simp)
      obtain ⟨tl, htl⟩ := enc_head hxenc
      have hform : x.2.2 ++ 1 :: (wireItems fs ++ rest)
          = natDigits x.1.tag ++ 61 :: (tl ++ 1 :: (wireItems fs ++ rest)) := by rw [htl]; simp
      have hxk : x.1.tag ∉ keysOf acc := by
        intro hk
        simp only [itemTags, List.map_cons, List.cons_append, List.nodup_cons, List.mem_append, not_or] at hnodup
        exact hnodup.1.2 hk
      have hfollow : Next (headTag fs follow) (wireItems fs ++ rest) :=
        next_wireItems fs rest follow (fun y hy => (hfs y (by simp [hy])).2.2) hnext
      rw [wireItems_cons, List.append_assoc, List.cons_append, hform, segLoop_step, hasKey_false hxk,
        lookupT_tableOf htn hxes] at h
      simp only [Bool.false_eq_true, if_false] at h
      rw [← hform] at h
      obtain ⟨r, hr, h⟩ := bind_ok h
      obtain ⟨ext, he⟩ := segLoop_mono _ _ _ _ _ _ _ h
      have hr2 : r.2 = canonVal x.1 x.2.1 := by
        simp only [canonItems, List.map_cons, List.append_assoc, List.cons_append, List.nil_append] at he
        have := List.append_cancel_left he
        injection this with h1 _
        injection h1 with _ h1
        exact h1.symm
      have hr' : entryDec x.1 (x.2.2 ++ 1 :: (wireItems fs ++ rest)) = .ok (r.1, canonVal x.1 x.2.1) := by
        rw [hr, ← hr2]
      obtain ⟨hn, hcv⟩ := hN x.1 hxes x.2.1 x.2.2 (wireItems fs ++ rest) (headTag fs follow) r.1 hxwf hxenc hfollow hr'
      have hdrop : (x.2.2 ++ 1 :: (wireItems fs ++ rest)).drop r.1 = wireItems fs ++ rest := by
        rw [hn]
        have : x.2.2 ++ 1 :: (wireItems fs ++ rest) = (x.2.2 ++ [1]) ++ (wireItems fs ++ rest) := by simp
        rw [this, List.drop_left']
        simp
      rw [hdrop, hr2] at h
      have hnodup' : (itemTags fs ++ keysOf (acc ++ [(x.1.tag, canonVal x.1 x.2.1)])).Nodup := by
        simp only [itemTags, List.map_cons, List.cons_append, List.nodup_cons] at hnodup
        have h2 := hnodup.2
        have h1 := hnodup.1
        simp only [keysOf, List.map_append, List.map_cons, List.map_nil] at h1 h2 ⊢
        rw [← List.append_assoc]
        rw [List.nodup_append]
        refine ⟨h2, by simp, ?_⟩
        intro a ha b hb
        simp at hb
        subst hb
        intro hab
        subst hab
        exact h1 ha
      have h' : segLoop (tableOf es) fuel (wireItems fs ++ rest) (c + r.1) (acc ++ [(x.1.tag, canonVal x.1 x.2.1)])
          = .ok (c', (acc ++ [(x.1.tag, canonVal x.1 x.2.1)]) ++ canonItems fs) := by
        rw [h]; simp [canonItems]
      obtain ⟨k1, k2, k3⟩ := ih _ _ _ _ _ _ (fun y hy => hfs y (by simp [hy])) hnodup' hnext h'
      refine ⟨?_, by simp only [ceItemsL, Bool.and_eq_true]; exact ⟨hcv, k2⟩, ?_⟩
      · rw [k1, hn, wireItems_cons]; simp only [List.length_append, List.length_cons]; omega
      · intro t ht
        rcases k3 t ht with h | h | h
        · simp only [keysOf, List.map_append, List.map_cons, List.map_nil, List.mem_append, List.mem_singleton] at h
          rcases h with h | h
          · exact Or.inl h
          · exact Or.inr (Or.inl (by simp [itemTags, h]))
        · exact Or.inr (Or.inl (by simp only [itemTags, List.map_cons, List.mem_cons]; exact Or.inr h))
        · exact Or.inr (Or.inr h)

/-! ### group instances, converse -/

/-- the tag that follows an instance: the group's first tag when more instances come, `nxt` after the last one -/
def followOf (first : Option Nat) (insts : List Seg) (nxt : Option Nat) : Option Nat :=
  match insts with
  | [] => nxt
  | _ :: _ => first

theorem instFollows_cons (first : Option Nat) (inst : Seg) (insts : List Seg) (nxt : Option Nat) :
    instFollows first (inst :: insts) nxt = (inst, followOf first insts nxt) :: instFollows first insts nxt := by
  cases insts <;> simp [instFollows, followOf]

/-- what follows an instance on the wire begins with that tag -/
theorem next_after_inst (e1 : Entry) (sub' : List Entry) (htn : (tagsOf (e1 :: sub')).Nodup) (insts : List Seg)
    (gs : List Bytes) (rest : Bytes) (nxt : Option Nat) (hwf : wfInsts (e1 :: sub') insts = true)
    (hgs : All₂ (fun inst g => ∃ fbs, encGroupFields (e1 :: sub') inst = .ok fbs ∧ g = joinSOH fbs) insts gs)
    (hrest : Next nxt rest) :
    Next (followOf (some e1.tag) insts nxt) (termAll gs ++ rest) := by
  cases hgs with
  | nil => simpa [termAll_nil, followOf] using hrest
  | @cons inst2 g2 insts2 gs2 hg2 _ =>
    obtain ⟨fbs2, hfbs2, rfl⟩ := hg2
    simp only [wfInsts, Bool.and_eq_true, decide_eq_true_eq] at hwf
    obtain ⟨⟨⟨hwff2, hfirst2⟩, _⟩, _⟩ := hwf
    simp only [firstPresent] at hfirst2
    obtain ⟨fs2, k1, k2, k3, _⟩ := encGroupFields_items (e1 :: sub') htn inst2 hwff2 (e1 :: sub') fbs2 (fun e he => he) hfbs2
    simp only [List.filter_cons, hfirst2, if_true, List.map_cons] at k3
    cases fs2 with
    | nil => simp [itemTags] at k3
    | cons y fs2' =>
      simp only [itemTags, List.map_cons] at k3
      injection k3 with k3 _
      obtain ⟨tl, htl⟩ := enc_head (k2 y (by simp)).2.2
      have hf2 : fbs2 = y.2.2 :: fs2'.map (fun x => x.2.2) := by rw [← k1]; simp
      obtain ⟨tl2, htl2⟩ := joinSOH_cons_head y.2.2 (fs2'.map (fun x => x.2.2))
      refine ⟨tl ++ tl2 ++ 1 :: termAll gs2 ++ rest, ?_⟩
      rw [termAll_cons, hf2, htl2, htl, k3]; simp

theorem grpLoop_insts_conv (sub : List Entry) (htn : (tagsOf sub).Nodup) (hN : ∀ e ∈ sub, NecOK e) :
    ∀ (insts : List Seg) (gs : List Bytes) (acc : List Seg) (c : Nat) (rest : Bytes) (nxt : Option Nat) (c' : Nat),
      wfInsts sub insts = true →
      All₂ (fun inst g => ∃ fbs, encGroupFields sub inst = .ok fbs ∧ g = joinSOH fbs) insts gs →
      Next nxt rest →
      grpLoop (tableOf sub) insts.length (termAll gs ++ rest) c acc = .ok (c', acc ++ insts.map (canonFields sub)) →
      c' = c + (termAll gs).length ∧
        (instFollows (sub.head?.map Entry.tag) insts nxt).all (fun p => levelOK sub p.1 p.2 && ceFields sub p.1 p.2) = true := by
  intro insts
  induction insts with
  | nil =>
    intro gs acc c rest nxt c' _ hgs _ h
    cases hgs
    simp only [List.length_nil, grpLoop] at h
    injection h with h; injection h with h _
    exact ⟨by simp [termAll, h], by simp [instFollows]⟩
  | cons inst insts ih =>
    intro gs acc c rest nxt c' hwf hgs hrest h
    cases hgs with
    | @cons _ g _ gs' hg hgs' =>
      obtain ⟨fbs, hfbs, rfl⟩ := hg
      simp only [wfInsts, Bool.and_eq_true, decide_eq_true_eq] at hwf
      obtain ⟨⟨⟨hwff, hfirst⟩, hkeys⟩, hwf'⟩ := hwf
      obtain ⟨fs, h1, h2, h3, h4, h5⟩ := encGroupFields_itemsS sub htn inst hwff sub fbs (fun e he => he) hfbs
      cases sub with
      | nil => simp [firstPresent] at hfirst
      | cons e1 sub' =>
        simp only [firstPresent] at hfirst
        have hfs : ∃ x fs', fs = x :: fs' ∧ x.1.tag = e1.tag := by
          simp only [List.filter_cons, hfirst, if_true, List.map_cons] at h3
          cases fs with
          | nil => simp [itemTags] at h3
          | cons x fs' =>
            simp only [itemTags, List.map_cons] at h3
            injection h3 with h3 _
            exact ⟨x, fs', rfl, h3⟩
        obtain ⟨x, fs', rfl, hx1⟩ := hfs
        have hfbs_ne : fbs = x.2.2 :: fs'.map (fun x => x.2.2) := by rw [← h1]; simp
        have hg1 : joinSOH fbs ++ [1] = wireItems (x :: fs') := by
          rw [hfbs_ne, joinSOH_term]; simp [wireItems]
        have hbs : termAll (joinSOH fbs :: gs') ++ rest = wireItems (x :: fs') ++ (termAll gs' ++ rest) := by
          rw [termAll_cons, ← hg1]; simp
        have hne : (termAll (joinSOH fbs :: gs') ++ rest).isEmpty = false := by
          rw [termAll_cons]; simp
        have hnf := next_after_inst e1 sub' htn insts gs' rest nxt hwf' hgs' hrest
        have hnodup : (itemTags (x :: fs') ++ keysOf ([] : Seg)).Nodup := by
          simp only [keysOf, List.map_nil, List.append_nil]
          rw [h3]
          exact (List.filter_sublist.map Entry.tag).nodup htn
        simp only [List.length_cons] at h
        rw [grpLoop, hne] at h
        simp only [Bool.false_eq_true, if_false, segFromBytes] at h
        obtain ⟨r, hr, h⟩ := bind_ok h
        split at h
        · injection h with h; injection h with _ h
          have := congrArg List.length h
          simp at this
        · obtain ⟨ext, he⟩ := grpLoop_mono _ _ _ _ _ _ _ h
          have hr2 : r.2 = canonItems (x :: fs') := by
            simp only [List.map_cons, List.append_assoc, List.cons_append, List.nil_append] at he
            have := List.append_cancel_left he
            injection this with h1 _
            rw [← h1, h4]
          rw [hbs] at hr
          have hr' : segLoop (tableOf (e1 :: sub')) ((wireItems (x :: fs') ++ (termAll gs' ++ rest)).length + 1)
              (wireItems (x :: fs') ++ (termAll gs' ++ rest)) 0 [] = .ok (r.1, [] ++ canonItems (x :: fs')) := by
            rw [hr, ← hr2]; rfl
          obtain ⟨k1, k2, k3⟩ := segLoop_items_conv (e1 :: sub') htn hN (x :: fs') [] 0 _ _ _ _ h2 hnodup hnf hr'
          rw [hbs, k1, Nat.zero_add, List.drop_left' rfl] at h
          have h' : grpLoop (tableOf (e1 :: sub')) insts.length (termAll gs' ++ rest) (c + (wireItems (x :: fs')).length)
              (acc ++ [r.2]) = .ok (c', (acc ++ [r.2]) ++ insts.map (canonFields (e1 :: sub'))) := by
            rw [h, hr2, ← h4]; simp
          obtain ⟨j1, j2⟩ := ih gs' _ _ rest nxt c' hwf' hgs' hrest h'
          refine ⟨?_, ?_⟩
          · rw [j1, termAll_cons, ← hg1]
            simp only [List.length_append, List.length_cons, List.length_nil]
            omega
          · rw [instFollows_cons]
            simp only [List.all_cons, Bool.and_eq_true]
            refine ⟨⟨?_, by rw [h5]; exact k2⟩, j2⟩
            simp only [List.head?_cons, Option.map_some]
            cases hf : followOf (some e1.tag) insts nxt with
            | none => rfl
            | some t =>
              simp only [levelOK, Bool.not_eq_true', Bool.and_eq_false_iff, List.contains_eq_mem, decide_eq_false_iff_not,
                Bool.not_eq_false']
              rcases k3 t hf with hq | hq | hq
              · simp [keysOf] at hq
              · right
                rw [h3] at hq
                obtain ⟨e, he, rfl⟩ := List.mem_map.mp hq
                exact (List.mem_filter.mp he).2
              · exact Or.inl hq

/-! ### every entry, converse -/

theorem necOK_field (t : Nat) (ty : FTy) (r : Bool) : NecOK (.field t ty r) := by
  intro v b rest nxt n hwf henc _ h
  simp only [wfVal] at hwf
  simp only [encEntry] at henc
  obtain ⟨vb, hvb, h'⟩ := bind_ok henc
  simp only [pure_eq_ok] at h'
  injection h' with h'
  subst h'
  obtain ⟨h1, hback⟩ := prim_roundtrip hwf hvb
  simp only [entryDec] at h
  rw [fieldFromBytes_field ty t vb rest v h1 hback] at h
  injection h with h; injection h with h _
  exact ⟨h.symm, by simp [ceVal]⟩

theorem necOK_group (t : Nat) (sub : List Entry) (r : Bool) (htn : (tagsOf sub).Nodup)
    (hN : ∀ e ∈ sub, NecOK e) : NecOK (.group t sub r) := by
  intro v b rest nxt n hwf henc hrest h
  cases v with
  | grp insts =>
    simp only [wfVal] at hwf
    simp only [ceVal]
    simp only [encEntry] at henc
    obtain ⟨gs, hgs, hh⟩ := bind_ok henc
    simp only [pure_eq_ok] at hh
    injection hh with hh
    subst hh
    have hall := mapE_all₂ hgs
    have hall' : All₂ (fun inst g => ∃ fbs, encGroupFields sub inst = .ok fbs ∧ g = joinSOH fbs) insts gs := by
      apply hall.imp
      intro a b hab
      obtain ⟨fbs, hf, hh⟩ := bind_ok hab
      simp only [pure_eq_ok] at hh
      injection hh with hh
      exact ⟨fbs, hf, hh.symm⟩
    have hcnt : fieldFromBytes .int (fieldBytes t (intStr (insts.length : Int)) ++ 1 :: (termAll gs ++ rest))
        = .ok ((fieldBytes t (intStr (insts.length : Int))).length + 1, .int (insts.length : Int)) := by
      apply fieldFromBytes_field
      · exact intStr_no_soh _
      · simp only [tyFromBytes, decodeAscii, intStr_all_lt', if_true, ok_bind, parseIntAscii_intStr, pure_eq_ok]
    have hb : joinSOH (fieldBytes t (intStr (insts.length : Int)) :: gs) ++ 1 :: rest
        = fieldBytes t (intStr (insts.length : Int)) ++ 1 :: (termAll gs ++ rest) := by
      have := joinSOH_term (fieldBytes t (intStr (insts.length : Int))) gs
      have e : joinSOH (fieldBytes t (intStr (insts.length : Int)) :: gs) ++ 1 :: rest
          = (joinSOH (fieldBytes t (intStr (insts.length : Int)) :: gs) ++ [1]) ++ rest := by simp
      rw [e, this, termAll_cons]
      simp
    have hlen : (joinSOH (fieldBytes t (intStr (insts.length : Int)) :: gs)).length + 1
        = (fieldBytes t (intStr (insts.length : Int))).length + 1 + (termAll gs).length := by
      have := congrArg List.length (joinSOH_term (fieldBytes t (intStr (insts.length : Int))) gs)
      rw [termAll_cons] at this
      simp only [List.length_append, List.length_cons, List.length_nil] at this
      omega
    simp only [entryDec, containerFromBytes] at h
    rw [hb, hcnt] at h
    simp only [ok_bind, Int.toNat_natCast] at h
    have hdrop : (fieldBytes t (intStr (insts.length : Int)) ++ 1 :: (termAll gs ++ rest)).drop
        ((fieldBytes t (intStr (insts.length : Int))).length + 1) = termAll gs ++ rest := by
      have e : fieldBytes t (intStr (insts.length : Int)) ++ 1 :: (termAll gs ++ rest)
          = (fieldBytes t (intStr (insts.length : Int)) ++ [1]) ++ (termAll gs ++ rest) := by simp
      rw [e, List.drop_left']
      simp
    rw [hdrop] at h
    obtain ⟨q, hq, h⟩ := bind_ok h
    split at h
    · simp at h
    · simp only [pure_eq_ok, canonVal] at h
      injection h with h
      injection h with hq1 hq2
      injection hq2 with hq2
      have hq' : grpLoop (tableOf sub) insts.length (termAll gs ++ rest)
          ((fieldBytes t (intStr (insts.length : Int))).length + 1) [] = .ok (q.1, [] ++ insts.map (canonFields sub)) := by
        rw [hq, ← hq2]; rfl
      obtain ⟨k1, k2⟩ := grpLoop_insts_conv sub htn hN insts gs [] _ rest nxt q.1 hwf hall' hrest hq'
      exact ⟨by rw [← hq1, k1, hlen], k2⟩
  | int _ => simp [wfVal] at hwf
  | flt _ => simp [wfVal] at hwf
  | bool _ => simp [wfVal] at hwf
  | str _ => simp [wfVal] at hwf

theorem necOK_all : ∀ e : Entry, ldEntry e = true → NecOK e := by
  apply ld_ind
  · intro t ty r
    exact necOK_field t ty r
  · intro t sub r htn _ ih
    exact necOK_group t sub r htn ih

/-! ### top-level segments and whole messages, converse -/

theorem segFromBytes_seg_conv (es : List Entry) (hld : ldLevel es = true) (s : Seg) (fbs : List Bytes)
    (hwf : wfSeg es s = true) (henc : encSegFields es s = .ok fbs) (rest : Bytes) (follow : Option Nat)
    (hrest : Next follow rest) (n : Nat)
    (h : segFromBytes (tableOf es) (termAll fbs ++ rest) = .ok (n, canonSeg es s)) :
    n = (termAll fbs).length ∧ ceSeg es s follow = true := by
  obtain ⟨htn, hlds⟩ := ldLevel_parts hld
  simp only [wfSeg, Bool.and_eq_true, decide_eq_true_eq] at hwf
  obtain ⟨fs, h1, h2, h3, h4, h5⟩ := encSegFields_itemsS es s fbs hwf.1 henc
  have hw : termAll fbs = wireItems fs := by simp [wireItems, h1]
  unfold segFromBytes at h
  rw [hw, h4] at h
  have h' : segLoop (tableOf es) ((wireItems fs ++ rest).length + 1) (wireItems fs ++ rest) 0 [] = .ok (n, [] ++ canonItems fs) := by
    rw [h]; rfl
  obtain ⟨k1, k2, k3⟩ := segLoop_items_conv es htn (fun e he => necOK_all e (hlds e he)) fs [] 0 _ rest follow n h2
    (by simpa [keysOf, h3] using hwf.2) hrest h'
  refine ⟨by rw [k1, hw]; simp, ?_⟩
  simp only [ceSeg, Bool.and_eq_true]
  refine ⟨?_, by rw [h5]; exact k2⟩
  cases follow with
  | none => rfl
  | some t =>
    simp only [levelOK, Bool.not_eq_true', Bool.and_eq_false_iff, List.contains_eq_mem, decide_eq_false_iff_not,
      Bool.not_eq_false']
    rcases k3 t rfl with hq | hq | hq
    · simp [keysOf] at hq
    · exact Or.inr (hasKey_iff.mpr (by rw [← h3]; exact hq))
    · exact Or.inl hq

/-- **the condition is necessary**: if the bytes of a well-formed message of a level-distinct dictionary decode (as class `d`) to its
    canonical form, the count is what ends every group of the message -/
theorem countEndsS_of_msgFromBytes (d : MsgDef) (m : Msg) (bs : Bytes) (n : Nat)
    (hd : wfDefLevels d = true) (hm : wfMsg d m = true) (henc : encMsg d m = .ok bs)
    (h : msgFromBytes d bs = .ok (n, canonMsg d m)) : countEndsS d m = true := by
  obtain ⟨fh, fb, ft, hfh, hfb, hft, rfl⟩ := encMsg_wireS hd hm henc
  obtain ⟨lh, lb, lt⟩ := wfDefLevels_parts hd
  simp only [wfMsg, Bool.and_eq_true] at hm
  obtain ⟨⟨⟨wh, wb⟩, wt⟩, _⟩ := hm
  have wb' := wb; have wt' := wt
  simp only [wfSeg, Bool.and_eq_true] at wb' wt'
  have n3 : Next (firstKey m.trl) (termAll ft) := by
    have := next_of_fields (rest := []) (follow := none) wt'.1 hft rfl
    simpa using this
  have n2 : Next ((firstKey m.body).orElse fun _ => firstKey m.trl) (termAll fb ++ termAll ft) :=
    next_of_fields wb'.1 hfb n3
  simp only [msgFromBytes] at h
  obtain ⟨rh, hrh, h⟩ := bind_ok h
  obtain ⟨rb, hrb, h⟩ := bind_ok h
  obtain ⟨rt, hrt, h⟩ := bind_ok h
  simp only [pure_eq_ok, canonMsg] at h
  injection h with h
  injection h with _ h
  injection h with e1 e2 e3
  rw [List.append_assoc] at hrh hrb hrt
  have hrh' : segFromBytes (tableOf d.hdr) (termAll fh ++ (termAll fb ++ termAll ft)) = .ok (rh.1, canonSeg d.hdr m.hdr) := by
    rw [hrh, ← e1]
  obtain ⟨a1, c1⟩ := segFromBytes_seg_conv d.hdr lh m.hdr fh wh hfh _ _ n2 _ hrh'
  rw [a1, List.drop_left' rfl] at hrb hrt
  have hrb' : segFromBytes (tableOf d.body) (termAll fb ++ termAll ft) = .ok (rb.1, canonSeg d.body m.body) := by
    rw [hrb, ← e2]
  obtain ⟨a2, c2⟩ := segFromBytes_seg_conv d.body lb m.body fb wb hfb _ _ n3 _ hrb'
  rw [a2, List.drop_left' rfl] at hrt
  have hrt' : segFromBytes (tableOf d.trl) (termAll ft ++ []) = .ok (rt.1, canonSeg d.trl m.trl) := by
    rw [List.append_nil, hrt, ← e3]
  obtain ⟨_, c3⟩ := segFromBytes_seg_conv d.trl lt m.trl ft wt hft [] none rfl _ hrt'
  simp only [countEndsS, Bool.and_eq_true]
  exact ⟨⟨c1, c2⟩, c3⟩

theorem countEndsS_of_decode (reg : List MsgDef) (d : MsgDef) (m : Msg) (bs : Bytes) (n : Nat)
    (hd : wfDefLevels d = true) (hm : wfMsg d m = true) (henc : encMsg d m = .ok bs)
    (hty : getMsgType bs = .ok d.type) (hreg : lookupReg reg d.type = some d)
    (h : decodeMsg reg bs = .ok (n, d, canonMsg d m)) : countEndsS d m = true := by
  simp only [decodeMsg, hty, ok_bind, hreg] at h
  obtain ⟨r, hr, h⟩ := bind_ok h
  simp only [pure_eq_ok] at h
  injection h with h
  injection h with _ h
  injection h with _ h
  exact countEndsS_of_msgFromBytes d m bs r.1 hd hm henc (by rw [hr, ← h])

end NasdaqModel.Fix
