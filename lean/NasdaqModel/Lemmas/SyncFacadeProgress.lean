import NasdaqModel.Lemmas.SyncFacadeInv2
/-
Progress for the C20 model (repaired code): from the invariants Inv1, Inv2 and "the lock owner exists", a state without
enabled transition has every caller returned or legitimately waiting for the peer — for EVERY run.
Separately (third invariant, along runs that stay inside `okStep`): a blocked receive is the one in the queue's
`_recv_task` slot, so closing answers it with EndOfQueue.
-/
namespace NasdaqModel.SyncFacade

/-! ### the lock owner is an existing thread -/

theorem step_length {s s' : St} {l : Label} (h : step s l = some s') : s'.callers.length = s.callers.length := by
  cases l with
  | caller i => obtain ⟨c, c', lk, _, _, rfl⟩ := stepCaller_spec h; simp
  | job i =>
    simp only [step] at h; unfold stepJob at h
    (repeat' split at h) <;> first
      | (simp at h; done)
      | (simp only [Option.some.injEq] at h; subst h; simp)
  | close =>
    simp only [step] at h; unfold stepClose at h
    (repeat' split at h) <;> first
      | (simp at h; done)
      | (simp only [Option.some.injEq] at h; subst h; simp)
  | stop =>
    simp only [step] at h; unfold stepStop at h
    (repeat' split at h) <;> first
      | (simp at h; done)
      | (simp only [Option.some.injEq] at h; subst h; simp)
  | peer =>
    simp only [step] at h; unfold stepPeer at h
    (repeat' split at h) <;> first
      | (simp at h; done)
      | (simp only [Option.some.injEq] at h; subst h; simp)

def InvL (s : St) : Prop := ∀ k : Nat, s.lock = some (.caller k) → k < s.callers.length

theorem invL_step {s s' : St} {l : Label} (h1 : Inv1 s) (hL : InvL s) (h : step s l = some s') : InvL s' := by
  have hlen := step_length h
  intro k hk
  rw [hlen]
  cases l with
  | caller i =>
    obtain ⟨c, c', lk, hc, hcs, rfl⟩ := stepCaller_spec h
    simp only at hk
    obtain ⟨_, he⟩ := callerStep_cinv (h1.2 i c hc) hcs
    cases he with
    | same => exact hL k hk
    | acq _ =>
      simp at hk; subst hk
      exact (List.getElem?_eq_some_iff.mp hc).1
    | rel _ => simp at hk
  | job i => exact hL k (((stepJob_glob h1.1 h).2 k).mpr hk)
  | close => exact hL k (((stepClose_glob h1.1 h).2 k).mpr hk)
  | stop => exact hL k (((stepStop_glob h1.1 h).2 k).mpr hk)
  | peer => exact hL k (((stepPeer_glob h1.1 h).2 k).mpr hk)

theorem invL_init (cfg : Cfg) : InvL (init cfg) := by
  intro k hk; simp [init] at hk

/-- the invariants of every reachable state -/
structure Invs (s : St) : Prop where
  i1 : Inv1 s
  i2 : Inv2 s
  iL : InvL s

theorem invs_reachable {cfg : Cfg} {s : St} (h : Reachable cfg s) : Invs s :=
  reachable_invariant Invs cfg ⟨inv1_init cfg, inv2_init cfg, invL_init cfg⟩
    (fun _ _ _ hI hs => ⟨inv1_step hI.i1 hs, inv2_step hI.i1 hI.i2 hs, invL_step hI.i1 hI.iL hs⟩) s h

/-! ### when is a thread blocked -/

theorem callerStep_none {lock : Option Tid} {evt alive : Bool} {i : Nat} {c : Caller}
    (h : callerStep lock evt alive i c = none) :
    c.prog = [] ∨ (c.pc = .acq ∧ lock ≠ none) ∨
    (c.pc = .wait ∧ (∀ o, c.job ≠ .done o) ∧ c.prog.head? ≠ some .execTimed ∧ alive = true) ∨
    (c.pc = .waitEvt ∧ evt = false) ∨ (c.pc = .join ∧ alive = true) := by
  unfold callerStep at h
  rcases c with ⟨prog, pc, job, hist⟩
  cases prog with
  | nil => simp
  | cons op rest =>
    cases pc <;> cases op <;> simp only [] at h <;> (repeat' (split at h)) <;>
      first
      | (simp only [reduceCtorEq] at h; done)
      | simp_all

theorem stepJob_enabled {s : St} {j : Nat} {c : Caller} {k : JobKind} (ha : s.loopAlive = true)
    (hb : s.closePc.busy = false) (hc : s.callers[j]? = some c) (hk : c.job = .submitted k) :
    stepJob s j ≠ none := by
  unfold stepJob
  simp only [ha, hb, hc, hk]
  cases k <;> simp <;> (repeat' split) <;> simp

/-- inside on_close_coro the loop thread's next statement is always enabled (it takes no lock) -/
theorem stepClose_enabled_of_busy {s : St} (hb : s.closePc.busy = true) : stepClose s ≠ none := by
  unfold stepClose
  cases hp : s.closePc <;> simp_all [ClosePc.busy] <;> split <;> simp

theorem stepClose_none {s : St} (h : stepClose s = none) :
    s.closePc = .idle ∨ s.closePc = .done ∨ (s.closePc = .spawned ∧ s.callers.any isSubmitted = true) := by
  unfold stepClose at h
  split at h <;> rename_i hpc <;> (repeat' split at h) <;> simp_all

theorem any_isSubmitted_true {cs : List Caller} (h : cs.any isSubmitted = true) :
    ∃ (j : Nat) (c : Caller) (k : JobKind), cs[j]? = some c ∧ c.job = .submitted k := by
  obtain ⟨c, hmem, hs⟩ := List.any_eq_true.mp h
  obtain ⟨j, hj⟩ := List.getElem?_of_mem hmem
  unfold isSubmitted at hs
  split at hs
  · rename_i k hk; exact ⟨j, c, k, hj, hk⟩
  · simp at hs

theorem ginv_alive_of_not_done {s : St} (hg : ginv s = true) (h : s.closePc ≠ .done) : s.loopAlive = true := by
  revert hg h; simp only [ginv]; cases s.closePc <;> simp_all

/-- a submitted coroutine and a live loop: some transition is enabled -/
theorem submitted_not_terminal {s : St} {j : Nat} {c : Caller} {k : JobKind} (ha : s.loopAlive = true)
    (hc : s.callers[j]? = some c) (hk : c.job = .submitted k) (hterm : ∀ l, step s l = none) : False := by
  cases hb : s.closePc.busy with
  | true => exact stepClose_enabled_of_busy hb (hterm .close)
  | false => exact stepJob_enabled ha hb hc hk (hterm (.job j))

/-- in a state without enabled transition no caller thread owns `close_lock` -/
theorem no_holder_when_terminal {s : St} (I : Invs s) (hterm : ∀ l, step s l = none) (k : Nat) :
    s.lock ≠ some (.caller k) := by
  intro hk
  have hlt := I.iL k hk
  obtain ⟨c, hc⟩ : ∃ c, s.callers[k]? = some c := ⟨s.callers[k], List.getElem?_eq_getElem hlt⟩
  obtain ⟨hpc, hjob, hcrit⟩ := I.i1.2 k c hc
  have hcr : critPc c = true := hcrit.mpr hk
  have hn : callerStep s.lock s.closedEvent s.loopAlive k c = none := by
    have := hterm (.caller k)
    simp only [step, stepCaller, hc] at this
    split at this
    · assumption
    · simp at this
  obtain ⟨_, _, _, f4, _, _⟩ := I.i2 k c hc
  rcases callerStep_none hn with h | ⟨h, _⟩ | ⟨h, hnd, hne, hal⟩ | ⟨h, _⟩ | ⟨h, _⟩
  · rcases c with ⟨prog, pc, job, hist⟩; simp only at h; subst h
    simp [pcOk] at hpc; subst hpc; simp [critPc] at hcr
  · rcases c with ⟨prog, pc, job, hist⟩; simp only at h; subst h; simp [critPc] at hcr
  · -- at _wait_for under the lock: the future is a submitted initiate_close / logout and the loop is alive
    rcases c with ⟨prog, pc, job, hist⟩
    simp only at h hnd hne; subst h
    cases prog with
    | nil => simp [critPc] at hcr
    | cons op rest =>
      have hop : op.isClose = true := by simpa [critPc] using hcr
      cases job with
      | none => simp [jobOk] at hjob
      | done o => exact hnd o rfl
      | blocked t => cases op <;> simp_all [jobFits, Op.isClose]
      | running => cases op <;> simp_all [jobFits, Op.isClose]
      | submitted kk => exact submitted_not_terminal hal hc rfl hterm
  · rcases c with ⟨prog, pc, job, hist⟩; simp only at h; subst h; simp [critPc] at hcr
  · rcases c with ⟨prog, pc, job, hist⟩; simp only at h; subst h; simp [critPc] at hcr

/-- in a state without enabled transition a close procedure that was started has completed and the thread is gone -/
theorem closing_completes {s : St} (I : Invs s) (hterm : ∀ l, step s l = none) (hne : s.closePc ≠ .idle) :
    s.closePc = .done ∧ s.loopAlive = false := by
  have hg := I.i1.1
  have hc := hterm .close
  simp only [step] at hc
  rcases stepClose_none hc with h | h | ⟨h, hs⟩
  · exact absurd h hne
  · refine ⟨h, ?_⟩
    cases ha : s.loopAlive with
    | false => rfl
    | true =>
      have hst := hterm .stop
      simp only [step, stepStop] at hst
      revert hg; simp only [ginv, h]; intro hg
      simp_all [ClosePc.busy]
  · obtain ⟨j, c, k, hj, hk⟩ := any_isSubmitted_true hs
    have ha : s.loopAlive = true := ginv_alive_of_not_done hg (by simp [h])
    exact (submitted_not_terminal ha hj hk hterm).elim

/-- **no hang**: in a state without enabled transition every caller thread has executed all its calls, or is in
`receive()` on an open session with a live loop (waiting for the peer) -/
theorem terminal_all_returned {s : St} (I : Invs s) (hterm : ∀ l, step s l = none) :
    ∀ (i : Nat) (c : Caller), s.callers[i]? = some c → c.finished = true ∨ legitWait s c = true := by
  intro i c hc
  have hg := I.i1.1
  obtain ⟨hpc, hjob, _⟩ := I.i1.2 i c hc
  have hn : callerStep s.lock s.closedEvent s.loopAlive i c = none := by
    have := hterm (.caller i)
    simp only [step, stepCaller, hc] at this
    split at this
    · assumption
    · simp at this
  obtain ⟨_, hB, _, hfit, _, _⟩ := I.i2 i c hc
  rcases callerStep_none hn with h | ⟨h, hl⟩ | ⟨h, hnd, hne, hal⟩ | ⟨h, hev⟩ | ⟨h, hal⟩
  · left
    rcases c with ⟨prog, pc, job, hist⟩; simp only at h; subst h
    simp [pcOk] at hpc; subst hpc; simp [Caller.finished]
  · exfalso
    cases hlk : s.lock with
    | none => exact hl hlk
    | some t =>
      cases t with
      | caller k => exact no_holder_when_terminal I hterm k hlk
      | loop => revert hg; simp [ginv, hlk]
  · rcases c with ⟨prog, pc, job, hist⟩
    simp only at h hnd hne; subst h
    cases prog with
    | nil => simp [pcOk] at hpc
    | cons op rest =>
      cases job with
      | none => simp [jobOk] at hjob
      | done o => exact absurd rfl (hnd o)
      | running => cases op <;> simp_all [jobFits]
      | submitted k => exact (submitted_not_terminal hal hc rfl hterm).elim
      | blocked t =>
        right
        -- had a close been started it would have completed and the thread would be gone
        have hidle : s.closePc = .idle := by
          cases hp : s.closePc with
          | idle => rfl
          | _ =>
            have := (closing_completes I hterm (by simp [hp])).2
            simp [this] at hal
        simp [legitWait, St.sessClosed, hidle, ClosePc.sessClosed, hal]
  · exfalso
    have hne : s.closePc ≠ .idle := hB (Or.inr (Or.inl h))
    obtain ⟨hd, _⟩ := closing_completes I hterm hne
    revert hg; simp [ginv, hd, hev]
  · exfalso
    have hne : s.closePc ≠ .idle := hB (Or.inr (Or.inr h))
    obtain ⟨_, hd⟩ := closing_completes I hterm hne
    simp [hd] at hal

/-! ### inside `okStep`: a blocked receive is the one in the `_recv_task` slot; none survives the start of close() -/

def cinv3 (closed : Bool) (rt : Option Nat) (i : Nat) (c : Caller) : Prop :=
  ∀ t, c.job = .blocked t → closed = false ∧ rt = some i

def Inv3 (s : St) : Prop :=
  ∀ (i : Nat) (c : Caller), s.callers[i]? = some c → cinv3 s.sessClosed s.recvTask i c

theorem sessClosed_initiate (p : ClosePc) : p.initiate.sessClosed = p.sessClosed := by
  cases p <;> rfl

theorem anyBlocked_false {cs : List Caller} (h : anyBlocked cs = false) :
    ∀ (m : Nat) (c : Caller), cs[m]? = some c → ∀ t, c.job ≠ .blocked t := by
  intro m c hc t ht
  have hmem : c ∈ cs := List.mem_of_getElem? hc
  have : anyBlocked cs = true := by
    unfold anyBlocked
    exact List.any_eq_true.mpr ⟨c, hmem, by simp [ht]⟩
  simp [h] at this

theorem callerStep_cinv3 {lock : Option Tid} {evt alive closed : Bool} {rt : Option Nat} {i : Nat} {c c' : Caller}
    {lk : Option Tid} (h3 : cinv3 closed rt i c) (hj : jobOk c = true)
    (h : callerStep lock evt alive i c = some (c', lk)) : cinv3 closed rt i c' := by
  unfold callerStep at h
  rcases c with ⟨prog, pc, job, hist⟩
  cases prog with
  | nil => simp at h
  | cons op rest =>
    simp only [cinv3] at h3
    cases pc <;> cases op <;> simp only [] at h <;> (repeat' (split at h)) <;>
      first
      | (simp only [reduceCtorEq] at h; done)
      | (simp only [Option.some.injEq, Prod.mk.injEq] at h
         obtain ⟨rfl, rfl⟩ := h
         simp_all [cinv3, jobOk, finish])

theorem inv3_stepCaller {s s' : St} {i : Nat} (h1 : Inv1 s) (h3 : Inv3 s)
    (h : stepCaller s i = some s') : Inv3 s' := by
  obtain ⟨c, c', lk, hc, hcs, rfl⟩ := stepCaller_spec h
  have hc3 := callerStep_cinv3 (h3 i c hc) (h1.2 i c hc).2.1 hcs
  intro j cj hj
  simp only [St.sessClosed] at hj ⊢
  rw [getElem?_updAt] at hj
  split at hj
  · subst j; simp [hc] at hj; subst hj; exact hc3
  · exact h3 j cj hj

theorem cinv3_not_blocked {closed : Bool} {rt : Option Nat} {i : Nat} {c : Caller} (h : ∀ t, c.job ≠ .blocked t) :
    cinv3 closed rt i c := fun t ht => absurd ht (h t)

theorem inv3_stepJob {s s' : St} {i : Nat} (h3 : Inv3 s) (hok : okStep s (.job i) = true)
    (h : stepJob s i = some s') : Inv3 s' := by
  unfold stepJob at h
  split at h
  · split at h
    · simp at h
    · rename_i c hc
      have easy : ∀ (j : Job) (q : Nat) (p : ClosePc) (pe : List PeerEv), p.sessClosed = s.closePc.sessClosed →
          (∀ t, j ≠ .blocked t) →
          Inv3 { s with callers := updAt s.callers i (setJob j), queue := q, closePc := p, peer := pe } := by
        intro j q p pe hp hcj m cm hm
        simp only [St.sessClosed, hp] at hm ⊢
        rw [getElem?_updAt] at hm
        split at hm
        · subst m; simp [hc] at hm; subst hm; exact cinv3_not_blocked (by simpa [setJob] using hcj)
        · exact h3 m cm hm
      split at h
      · rename_i hjob
        split at h
        · simp only [Option.some.injEq] at h; subst h
          exact easy _ _ _ _ rfl (by simp)
        · split at h
          · simp only [Option.some.injEq] at h; subst h
            exact easy _ s.queue _ s.peer rfl (by simp)
          · rename_i hq hcl
            simp only [Option.some.injEq] at h; subst h
            have hnb : anyBlocked s.callers = false := by
              simp only [okStep, hc, hjob] at hok
              have hq0 : s.queue = 0 := by omega
              simp only [Bool.not_eq_true] at hcl
              simpa [hq0, hcl] using hok
            intro m cm hm
            simp only [St.sessClosed] at hm ⊢
            rw [getElem?_updAt] at hm
            split at hm
            · subst m; simp [hc] at hm; subst hm
              simp only [Bool.not_eq_true] at hcl
              simp [cinv3, setJob, St.sessClosed] at hcl ⊢
              exact hcl
            · intro t ht
              exact absurd ht (anyBlocked_false hnb m cm hm t)
      · simp only [Option.some.injEq] at h; subst h
        exact easy _ s.queue _ s.peer rfl (by simp)
      · simp only [Option.some.injEq] at h; subst h
        exact easy _ s.queue _ s.peer (sessClosed_initiate _) (by simp)
      · simp only [Option.some.injEq] at h; subst h
        exact easy _ s.queue _ [] (sessClosed_initiate _) (by simp)
      · simp only [Option.some.injEq] at h; subst h
        exact easy _ s.queue _ s.peer rfl (by simp)
      · simp at h
  · simp at h

theorem not_blocked_resolveBlocked (o : Outcome) (c : Caller) : ∀ t, (resolveBlocked o c).job ≠ .blocked t := by
  unfold resolveBlocked
  split
  · simp
  · rename_i hnb; exact fun t ht => hnb t ht

theorem inv3_stepClose {s s' : St} (h3 : Inv3 s) (h : stepClose s = some s') : Inv3 s' := by
  unfold stepClose at h
  split at h <;> rename_i hpc
  · simp at h
  · split at h
    · simp at h
    · split at h
      · rename_i jj hrt
        simp only [Option.some.injEq] at h; subst h
        intro m cm hm
        apply cinv3_not_blocked
        simp only at hm
        rw [getElem?_updAt] at hm
        split at hm
        · subst m
          cases hj : s.callers[jj]? with
          | none => simp [hj] at hm
          | some cj => simp [hj] at hm; subst hm; exact not_blocked_resolveBlocked _ _
        · rename_i hne
          intro t ht
          have := ((h3 m cm hm) t ht).2
          rw [hrt] at this
          simp at this
          exact hne this.symm
      · rename_i hrt
        simp only [Option.some.injEq] at h; subst h
        intro m cm hm
        apply cinv3_not_blocked
        intro t ht
        have := ((h3 m cm hm) t ht).2
        rw [hrt] at this
        simp at this
  all_goals
    ((repeat' split at h) <;> first
      | (simp at h; done)
      | (simp only [Option.some.injEq] at h; subst h
         intro m cm hm
         have := h3 m cm hm
         simpa [St.sessClosed, hpc, ClosePc.sessClosed] using this))

theorem inv3_stepStop {s s' : St} (h3 : Inv3 s) (h : stepStop s = some s') : Inv3 s' := by
  unfold stepStop at h
  split at h
  · simp only [Option.some.injEq] at h; subst h; exact h3
  · simp at h

theorem inv3_stepPeer {s s' : St} (h3 : Inv3 s) (h : stepPeer s = some s') : Inv3 s' := by
  unfold stepPeer at h
  split at h
  · simp at h
  · rename_i ev rest hp
    split at h
    · simp at h
    · split at h
      · simp only [Option.some.injEq] at h; subst h; exact h3
      · split at h
        · split at h
          · simp only [Option.some.injEq] at h; subst h; exact h3
          · split at h
            · rename_i hh t hm
              simp only [Option.some.injEq] at h; subst h
              -- after the wake-up nobody is blocked any more: a blocked caller is the one in the slot
              intro m cm hcm
              simp only [St.sessClosed] at hcm ⊢
              have base : ∀ c0, (updAt s.callers hh (setJob (.done .msg)))[m]? = some c0 →
                  (∀ t, c0.job = .blocked t → s.recvTask = some m ∧ m ≠ hh) := by
                intro c0 h0
                rw [getElem?_updAt] at h0
                split at h0
                · subst m
                  cases hj : s.callers[hh]? with
                  | none => simp [hj] at h0
                  | some cj => simp [hj] at h0; subst h0; simp [setJob]
                · rename_i hne
                  have := h3 m c0 h0
                  exact fun t ht => ⟨(this t ht).2, hne⟩
              split at hcm
              · rename_i jj hrt
                split at hcm
                · have b2 := base cm hcm
                  intro t ht
                  have := b2 t ht
                  rw [hrt] at this
                  simp at this
                  omega
                · rename_i hjne
                  rw [getElem?_updAt] at hcm
                  split at hcm
                  · subst m
                    cases hj : (updAt s.callers hh (setJob (.done .msg)))[jj]? with
                    | none => simp [hj] at hcm
                    | some cj =>
                      simp [hj] at hcm; subst hcm
                      exact cinv3_not_blocked (not_blocked_resolveBlocked _ _)
                  · rename_i hmne
                    have b2 := base cm hcm
                    intro t ht
                    have := (b2 t ht).1
                    rw [hrt] at this
                    simp at this
                    exact absurd this.symm hmne
              · rename_i hrt
                have b2 := base cm hcm
                intro t ht
                have := (b2 t ht).1
                rw [hrt] at this
                simp at this
            · simp only [Option.some.injEq] at h; subst h; exact h3
        all_goals
          (simp only [Option.some.injEq] at h; subst h
           intro m cm hm
           have := h3 m cm hm
           simpa [St.sessClosed, sessClosed_initiate] using this)

theorem inv3_step {s s' : St} {l : Label} (h1 : Inv1 s) (h3 : Inv3 s) (hok : okStep s l = true)
    (h : step s l = some s') : Inv3 s' := by
  cases l with
  | caller i => exact inv3_stepCaller h1 h3 h
  | job i => exact inv3_stepJob h3 hok h
  | close => exact inv3_stepClose h3 h
  | stop => exact inv3_stepStop h3 h
  | peer => exact inv3_stepPeer h3 h

theorem inv3_init (cfg : Cfg) : Inv3 (init cfg) := by
  intro i c hc
  simp only [init, List.getElem?_map] at hc
  cases hp : cfg.progs[i]? with
  | none => simp [hp] at hc
  | some p => simp [hp] at hc; subst hc; simp [cinv3, initCaller]

theorem inv3_execOk {cfg : Cfg} {ls : List Label} {s : St} (h : execOk (init cfg) ls = some s) : Inv3 s :=
  (execOk_invariant (fun s => Inv1 s ∧ Inv3 s)
    (fun _ _ _ hI hok hs => ⟨inv1_step hI.1 hs, inv3_step hI.1 hI.2 hok hs⟩)
    ls _ s ⟨inv1_init cfg, inv3_init cfg⟩ h).2

end NasdaqModel.SyncFacade
