import NasdaqModel.Lemmas.FramingInstances
/-
Progress of the reader machine on ARBITRARY bytes (C07, byte level): a poll either stops the reader, or finds that the head of the
buffer is incomplete as announced (`deserialize()` returns `empty_response`), or takes a non-empty frame off the buffer.  Hence
a reader cannot spin on a fixed buffer: without new data it is settled within `len(buffer)` polls.

`fixDeserD` is `FixMessageReader.deserialize` including the first thing `Message.from_bytes` does with the frame that was cut off —
the dispatch `Message.Def[Message.get_msg_type(frame)]` (KeyError for a type the dictionary does not have) — and an arbitrary
field-level decoder that may reject the frame.  (`Framing.fixDeser` stops before the dispatch: there a frame is its byte slice.)
-/
namespace NasdaqModel.Framing
open NasdaqModel Py

/-- `deserialize()` of the FIX reader with the dictionary dispatch: `known ty` = "`ty` is a key of `Message.Def`" -/
def fixDeserD (known : Bytes → Bool) (decode : Bytes → Except Err Unit) (buf : Bytes) : Except Err (Option (Bytes × Bytes)) :=
  match fixDeser buf with
  | .error e => .error e
  | .ok none => .ok none
  | .ok (some (f, rest)) =>
    if known (getMsgType f) then
      match decode f with
      | .ok _ => .ok (some (f, rest))
      | .error e => .error e
    else .error .key                                   -- `Message.Def[...]` raises KeyError

def fixProtoD (known : Bytes → Bool) (decode : Bytes → Except Err Unit) : Proto Bytes :=
  ⟨fixDeserD known decode, fixIsLogout, fixIsHeartbeat⟩

/-! ### slicing -/

theorem pySliceTo_append_from (b : List α) (i : Int) : pySliceTo b i ++ pySliceFrom b i = b := by
  simp [pySliceTo, pySliceFrom]

/-! ### the two `deserialize()` functions consume what they frame -/

theorem soupDeser_consumes {buf rest : Bytes} {m : Soup.Pkt} (h : soupDeser buf = .ok (some (m, rest))) :
    rest.length + 2 ≤ buf.length := by
  match buf, h with
  | [], h => simp [soupDeser] at h
  | [_], h => simp [soupDeser] at h
  | b0 :: b1 :: tl, h =>
    rw [soupDeser_cons2] at h
    split at h
    · cases h
    · rename_i hlen
      cases hd : Soup.decode (List.take (b0 * 256 + b1 + 2) (b0 :: b1 :: tl)) with
      | error e => rw [hd] at h; simp only [err_bind] at h; cases h
      | ok p =>
        rw [hd] at h
        simp only [ok_bind, pure_eq_ok] at h
        injection h with h
        injection h with h
        injection h with _ h2
        subst h2
        simp only [List.length_drop, List.length_cons] at *
        omega

theorem fixDeser_partition {buf f rest : Bytes} (h : fixDeser buf = .ok (some (f, rest))) : f ++ rest = buf := by
  unfold fixDeser at h
  cases h35 : find buf tag35 0 with
  | none => simp only [h35] at h; cases h
  | some i =>
    simp only [h35] at h
    cases hEq : find buf [EQ] 2 with
    | none => simp only [hEq] at h; cases h
    | some start =>
      simp only [hEq] at h
      cases hS : find buf [SOH] start with
      | none => simp only [hS] at h; cases h
      | some end_ =>
        simp only [hS] at h
        cases hp : parseIntBytes (pySlice buf ((start : Int) + 1) end_) with
        | error e => rw [hp] at h; simp only [err_bind] at h; cases h
        | ok n =>
          rw [hp] at h
          simp only [ok_bind] at h
          split at h
          · cases h
          split at h
          · cases h
          · simp only [pure_eq_ok] at h
            injection h with h
            injection h with h
            injection h with h1 h2
            subst h1; subst h2
            exact pySliceTo_append_from buf _

theorem getMsgType_nil : getMsgType [] = [] := by decide

theorem fixDeserD_consumes (known : Bytes → Bool) (decode : Bytes → Except Err Unit) (hk : known [] = false)
    {buf f rest : Bytes} (h : fixDeserD known decode buf = .ok (some (f, rest))) : rest.length < buf.length := by
  unfold fixDeserD at h
  split at h
  · cases h
  · cases h
  · rename_i f' rest' hfd
    split at h
    · rename_i hkn
      split at h
      · injection h with h
        injection h with h
        injection h with h1 h2
        subst h1; subst h2
        have hpart := fixDeser_partition hfd
        have hne : f' ≠ [] := by
          intro h0
          subst h0
          rw [getMsgType_nil, hk] at hkn
          cases hkn
        have : 0 < f'.length := List.length_pos_iff.mpr hne
        rw [← hpart, List.length_append]
        omega
      · cases h
    · cases h

/-! ### the reader machine -/

variable {μ : Type}

/-- every frame `deserialize()` takes off the buffer is non-empty -/
def Consuming (P : Proto μ) : Prop :=
  ∀ (buf : Bytes) (m : μ) (rest : Bytes), P.deser buf = .ok (some (m, rest)) → rest.length < buf.length

theorem soupProto_consuming : Consuming soupProto := by
  intro buf m rest h
  have := soupDeser_consumes (buf := buf) h
  omega

theorem fixProtoD_consuming (known : Bytes → Bool) (decode : Bytes → Except Err Unit) (hk : known [] = false) :
    Consuming (fixProtoD known decode) :=
  fun _ _ _ h => fixDeserD_consumes known decode hk h

/-- nothing will happen to this reader until new data arrive: it stopped (close signalled), or its buffer is empty, or the head
    of its buffer is incomplete as announced (`deserialize()` answers `empty_response`) -/
def Settled (P : Proto μ) (r : R μ) : Prop :=
  r.stopped = true ∨ r.buf = [] ∨ P.deser r.buf = .ok none

theorem step_tick_settled (P : Proto μ) {r : R μ} (h : Settled P r) : step P r .tick = r := by
  rcases h with h | h | h
  · exact step_tick_stopped P r h
  · exact step_tick_empty P r h
  · cases hs : r.stopped with
    | true => exact step_tick_stopped P r hs
    | false => exact step_tick_none P r hs h

/-- one poll of a reader that is not settled: it stops, or its buffer gets strictly shorter -/
theorem step_tick_progress (P : Proto μ) (hP : Consuming P) {r : R μ} (h : ¬ Settled P r) :
    (step P r .tick).stopped = true ∨ (step P r .tick).buf.length < r.buf.length := by
  have hs : r.stopped = false := by
    cases hs : r.stopped with
    | true => exact absurd (Or.inl hs) h
    | false => rfl
  have hb : r.buf ≠ [] := fun hb => h (Or.inr (Or.inl hb))
  have hl : ¬ r.buf.length = 0 := fun h0 => hb (List.eq_nil_of_length_eq_zero h0)
  cases hd : P.deser r.buf with
  | error e =>
    left
    simp only [step, stepObs, hs, hd, hl, if_false, Bool.false_eq_true]
  | ok o =>
    cases o with
    | none => exact absurd (Or.inr (Or.inr hd)) h
    | some mr =>
      obtain ⟨m, rest⟩ := mr
      have hlt := hP _ _ _ hd
      rw [step_tick_some P r hs hb hd]
      split
      · left; rfl
      · split <;> (right; exact hlt)

/-- `n` polls with no data in between -/
def ticks (P : Proto μ) (n : Nat) (r : R μ) : R μ := (List.replicate n Ev.tick).foldl (step P) r

theorem ticks_succ (P : Proto μ) (n : Nat) (r : R μ) : ticks P (n + 1) r = ticks P n (step P r .tick) := by
  simp [ticks, List.replicate_succ]

theorem ticks_settled (P : Proto μ) : ∀ (n : Nat) {r : R μ}, Settled P r → ticks P n r = r
  | 0, _, _ => rfl
  | n + 1, r, h => by rw [ticks_succ, step_tick_settled P h]; exact ticks_settled P n h

theorem settled_of_stopped (P : Proto μ) {r : R μ} (h : r.stopped = true) : Settled P r := Or.inl h

/-- **no spinning**: within `len(buffer)` polls (no new data) the reader is settled -/
theorem ticks_settle (P : Proto μ) (hP : Consuming P) : ∀ (n : Nat) (r : R μ), r.buf.length ≤ n → Settled P (ticks P n r)
  | 0, r, h => Or.inr (Or.inl (List.eq_nil_of_length_eq_zero (Nat.le_zero.mp h)))
  | n + 1, r, h => by
    rw [ticks_succ]
    by_cases hs : Settled P r
    · rw [step_tick_settled P hs, ticks_settled P n hs]; exact hs
    · rcases step_tick_progress P hP hs with h1 | h1
      · rw [ticks_settled P n (settled_of_stopped P h1)]; exact settled_of_stopped P h1
      · exact ticks_settle P hP n _ (by omega)

end NasdaqModel.Framing
