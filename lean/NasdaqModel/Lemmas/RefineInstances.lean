import NasdaqModel.Lemmas.Refine
/-
The two `Framer` instances.

* SoupBinTCP (`soupProto`): framing is by the 2-byte length prefix only, so whatever could be cut off (or whatever exception
  `from_bytes` raised on the delimited packet) is the same whatever arrives later — for EVERY byte string (`soupSt` is constantly true).
* FIX (`fixProtoD known decode`, the reader with the dictionary dispatch), after the repair 658ee1f (a negative BodyLength raises
  `ValueError`): `bytes.find` results, the BodyLength text and the computed frame length are stable under appending, the length is
  never negative where a frame is cut, so the frame `buf[:n]` / the rest `buf[n:]` are stable too — for EVERY byte string
  (`fixSt` is constantly true).  The pre-repair reader, whose `buf[:n]` with `n < 0` counted from the end of whatever had
  arrived, is kept in `Witness/C04Bytes.lean`.
-/
namespace NasdaqModel.Refine
open NasdaqModel Py Framing

/-! ### SoupBinTCP -/

theorem soupDeser_mono {buf : Bytes} {m : Soup.Pkt} {r : Bytes} (more : Bytes) (h : soupDeser buf = .ok (some (m, r))) :
    soupDeser (buf ++ more) = .ok (some (m, r ++ more)) := by
  match buf, h with
  | [], h => simp [soupDeser] at h
  | [_], h => simp [soupDeser] at h
  | b0 :: b1 :: tl, h =>
    rw [soupDeser_cons2] at h
    have e : (b0 :: b1 :: tl) ++ more = b0 :: b1 :: (tl ++ more) := rfl
    split at h
    · simp at h
    · next hle =>
      have hle' : b0 * 256 + b1 + 2 ≤ (b0 :: b1 :: tl).length := by omega
      rw [e, soupDeser_cons2, ← e, if_neg (by rw [List.length_append]; omega),
        List.take_append_of_le_length hle', List.drop_append_of_le_length hle']
      cases hd : Soup.decode (List.take (b0 * 256 + b1 + 2) (b0 :: b1 :: tl)) with
      | error e' => rw [hd] at h; simp at h
      | ok msg =>
        rw [hd] at h
        simp only [ok_bind, pure_eq_ok, Except.ok.injEq, Option.some.injEq, Prod.mk.injEq] at h ⊢
        exact ⟨h.1, by rw [h.2]⟩

theorem soupDeser_err_mono {buf : Bytes} {e : Err} (more : Bytes) (h : soupDeser buf = .error e) :
    soupDeser (buf ++ more) = .error e := by
  match buf, h with
  | [], h => simp [soupDeser] at h
  | [_], h => simp [soupDeser] at h
  | b0 :: b1 :: tl, h =>
    rw [soupDeser_cons2] at h
    have e0 : (b0 :: b1 :: tl) ++ more = b0 :: b1 :: (tl ++ more) := rfl
    split at h
    · simp at h
    · next hle =>
      have hle' : b0 * 256 + b1 + 2 ≤ (b0 :: b1 :: tl).length := by omega
      rw [e0, soupDeser_cons2, ← e0, if_neg (by rw [List.length_append]; omega),
        List.take_append_of_le_length hle']
      cases hd : Soup.decode (List.take (b0 * 256 + b1 + 2) (b0 :: b1 :: tl)) with
      | error e' =>
        rw [hd] at h
        simp only [err_bind] at h ⊢
        exact h
      | ok msg => rw [hd] at h; simp at h

theorem soupFramer : Framer soupProto soupSt where
  consuming := soupProto_consuming
  some_mono := fun more _ h => soupDeser_mono more h
  err_mono := fun more _ h => ⟨_, soupDeser_err_mono more h⟩
  st_prefix := fun _ => rfl

/-- every byte string is stable for SoupBinTCP -/
theorem soup_stable (buf : Bytes) : stable soupProto soupSt buf = true :=
  stable_of_always soupProto soupSt (fun _ => rfl) _ _

/-! ### `bytes.find` under appending -/

/-- a match that was found lies inside the text -/
theorem findAux_fits (needle : Bytes) : ∀ (b : Bytes) (off i : Nat), findAux needle b off = some i →
    off ≤ i ∧ (i - off) + needle.length ≤ b.length := by
  intro b
  induction b with
  | nil =>
    intro off i h
    unfold findAux at h
    split at h
    · rename_i he
      have : needle = [] := by simpa using he
      subst this
      cases h; simp
    · cases h
  | cons x xs ih =>
    intro off i h
    unfold findAux at h
    split at h
    · rename_i hp
      cases h
      rw [List.isPrefixOf_iff_prefix] at hp
      have := hp.length_le
      simp at this ⊢; omega
    · obtain ⟨h1, h2⟩ := ih (off + 1) i h
      simp only [List.length_cons]
      omega

theorem findAux_append (needle : Bytes) (more : Bytes) : ∀ (b : Bytes) (off i : Nat), findAux needle b off = some i →
    findAux needle (b ++ more) off = some i := by
  intro b
  induction b with
  | nil =>
    intro off i h
    unfold findAux at h
    split at h
    · rename_i he
      have : needle = [] := by simpa using he
      subst this
      cases h
      cases more <;> simp [findAux, List.isPrefixOf]
    · cases h
  | cons x xs ih =>
    intro off i h
    unfold findAux at h
    split at h
    · rename_i hp
      cases h
      have : needle.isPrefixOf (x :: xs ++ more) = true := by
        rw [List.isPrefixOf_iff_prefix] at hp ⊢
        exact hp.trans (List.prefix_append _ _)
      simp only [List.cons_append] at this ⊢
      simp [findAux, this]
    · rename_i hnp
      have hfit := (findAux_fits needle xs (off + 1) i h).2
      have : ¬ needle.isPrefixOf (x :: (xs ++ more)) = true := by
        intro hp
        apply hnp
        rw [List.isPrefixOf_iff_prefix] at hp ⊢
        have h2 : x :: xs <+: x :: (xs ++ more) := by simpa using List.prefix_append (x :: xs) more
        exact List.prefix_of_prefix_length_le hp h2 (by simp only [List.length_cons]; omega)
      simp only [List.cons_append, findAux, this, if_false]
      exact ih (off + 1) i h

theorem find_append {b needle : Bytes} {start i : Nat} (more : Bytes) (h : find b needle start = some i) :
    find (b ++ more) needle start = some i := by
  unfold find at h ⊢
  split at h
  · rename_i hle
    have hle' : start ≤ (b ++ more).length := by rw [List.length_append]; omega
    rw [if_pos hle', List.drop_append_of_le_length hle]
    exact findAux_append needle more _ _ _ h
  · cases h

theorem find_fits {b needle : Bytes} {start i : Nat} (h : find b needle start = some i) :
    start ≤ i ∧ i + needle.length ≤ b.length := by
  unfold find at h
  split at h
  · rename_i hle
    obtain ⟨h1, h2⟩ := findAux_fits needle _ _ _ h
    rw [List.length_drop] at h2
    exact ⟨h1, by omega⟩
  · cases h

theorem pySlice_append_nat (b more : Bytes) (i j : Nat) (hi : i ≤ b.length) (hj : j ≤ b.length) :
    pySlice (b ++ more) (i : Int) (j : Int) = pySlice b (i : Int) (j : Int) := by
  unfold pySlice
  rw [normIdx_nat _ _ hi, normIdx_nat _ _ hj, normIdx_nat _ _ (by rw [List.length_append]; omega),
    normIdx_nat _ _ (by rw [List.length_append]; omega), List.take_append_of_le_length hj]

/-! ### FIX -/

/-- the pieces `FixMessageReader.deserialize` computes, once all three `find`s succeed and `int()` accepts the text -/
theorem fixDeser_of_parts {buf : Bytes} {i start end_ : Nat} {n : Int}
    (h35 : find buf tag35 0 = some i) (hEq : find buf [EQ] 2 = some start) (hS : find buf [SOH] start = some end_)
    (hp : parseIntBytes (pySlice buf ((start : Int) + 1) end_) = .ok n) :
    fixDeser buf = (if n < 0 then .error .value
      else if (buf.length : Int) < ((end_ : Int) + 1) + n + 7 then .ok none
      else .ok (some (pySliceTo buf (((end_ : Int) + 1) + n + 7), pySliceFrom buf (((end_ : Int) + 1) + n + 7)))) := by
  unfold fixDeser
  simp only [h35, hEq, hS, hp, ok_bind, pure_eq_ok]

/-- the same `find`s / BodyLength text after more bytes have arrived -/
theorem fix_parts_append {buf : Bytes} {i start end_ : Nat} (more : Bytes)
    (h35 : find buf tag35 0 = some i) (hEq : find buf [EQ] 2 = some start) (hS : find buf [SOH] start = some end_) :
    find (buf ++ more) tag35 0 = some i ∧ find (buf ++ more) [EQ] 2 = some start ∧
    find (buf ++ more) [SOH] start = some end_ ∧
    pySlice (buf ++ more) ((start : Int) + 1) end_ = pySlice buf ((start : Int) + 1) end_ := by
  refine ⟨find_append more h35, find_append more hEq, find_append more hS, ?_⟩
  have h1 := find_fits hEq
  have h2 := find_fits hS
  simp only [List.length_cons, List.length_nil] at h1 h2
  have e : ((start : Int) + 1) = ((start + 1 : Nat) : Int) := by omega
  rw [e]
  exact pySlice_append_nat buf more (start + 1) end_ (by omega) (by omega)

/-- what a cut frame looks like: a non-negative BodyLength `n`, the frame is the first `end+1+n+7 ≥ 8` bytes -/
theorem fixDeser_some_inv {buf f r : Bytes} (h : fixDeser buf = .ok (some (f, r))) :
    ∃ (i start end_ : Nat) (n k : Nat), find buf tag35 0 = some i ∧ find buf [EQ] 2 = some start ∧
      find buf [SOH] start = some end_ ∧ parseIntBytes (pySlice buf ((start : Int) + 1) end_) = .ok (n : Int) ∧
      k = end_ + 1 + n + 7 ∧ k ≤ buf.length ∧ f = buf.take k ∧ r = buf.drop k := by
  cases h35 : find buf tag35 0 with
  | none => unfold fixDeser at h; simp only [h35] at h; cases h
  | some i =>
    cases hEq : find buf [EQ] 2 with
    | none => unfold fixDeser at h; simp only [h35, hEq] at h; cases h
    | some start =>
      cases hS : find buf [SOH] start with
      | none => unfold fixDeser at h; simp only [h35, hEq, hS] at h; cases h
      | some end_ =>
        cases hp : parseIntBytes (pySlice buf ((start : Int) + 1) end_) with
        | error e => unfold fixDeser at h; simp only [h35, hEq, hS, hp, err_bind] at h; cases h
        | ok n =>
          rw [fixDeser_of_parts h35 hEq hS hp] at h
          split at h
          · cases h
          · rename_i hn
            split at h
            · cases h
            · rename_i hlen
              obtain ⟨n', rfl⟩ := Int.eq_ofNat_of_zero_le (by omega : 0 ≤ n)
              have e : ((end_ : Int) + 1) + (n' : Int) + 7 = ((end_ + 1 + n' + 7 : Nat) : Int) := by omega
              rw [e] at h hlen
              have hk : end_ + 1 + n' + 7 ≤ buf.length := by omega
              simp only [Except.ok.injEq, Option.some.injEq, Prod.mk.injEq, pySliceTo, pySliceFrom] at h
              rw [normIdx_nat _ _ hk] at h
              exact ⟨i, start, end_, n', _, rfl, rfl, hS, hp, rfl, hk, h.1.symm, h.2.symm⟩

/-- **a frame the FIX reader cuts is never empty** (it has at least the 8 bytes `…␁` + 7 trailer bytes): no dictionary needed -/
theorem fixDeser_consumes {buf f r : Bytes} (h : fixDeser buf = .ok (some (f, r))) : f ≠ [] ∧ r.length < buf.length := by
  obtain ⟨_, _, end_, n, k, _, _, _, _, hk, hle, hf, hr⟩ := fixDeser_some_inv h
  subst hf; subst hr
  constructor
  · intro h0
    have := congrArg List.length h0
    simp only [List.length_take, List.length_nil] at this
    omega
  · simp only [List.length_drop]; omega

theorem fixDeser_mono {buf f r : Bytes} (more : Bytes) (h : fixDeser buf = .ok (some (f, r))) :
    fixDeser (buf ++ more) = .ok (some (f, r ++ more)) := by
  obtain ⟨i, start, end_, n, k, h35, hEq, hS, hp, hk, hle, hf, hr⟩ := fixDeser_some_inv h
  obtain ⟨a1, a2, a3, a4⟩ := fix_parts_append more h35 hEq hS
  rw [fixDeser_of_parts a1 a2 a3 (by rw [a4]; exact hp)]
  have e : ((end_ : Int) + 1) + (n : Int) + 7 = ((k : Nat) : Int) := by omega
  rw [if_neg (by omega), e, if_neg (by rw [List.length_append]; omega)]
  simp only [pySliceTo, pySliceFrom]
  rw [normIdx_nat _ _ (by rw [List.length_append]; omega), List.take_append_of_le_length hle,
    List.drop_append_of_le_length hle, hf, hr]

theorem fixDeser_err_mono {buf : Bytes} {e : Err} (more : Bytes) (h : fixDeser buf = .error e) :
    fixDeser (buf ++ more) = .error e := by
  cases h35 : find buf tag35 0 with
  | none => unfold fixDeser at h; simp only [h35] at h; cases h
  | some i =>
    cases hEq : find buf [EQ] 2 with
    | none => unfold fixDeser at h; simp only [h35, hEq] at h; cases h
    | some start =>
      cases hS : find buf [SOH] start with
      | none => unfold fixDeser at h; simp only [h35, hEq, hS] at h; cases h
      | some end_ =>
        obtain ⟨a1, a2, a3, a4⟩ := fix_parts_append more h35 hEq hS
        cases hp : parseIntBytes (pySlice buf ((start : Int) + 1) end_) with
        | ok n =>
          rw [fixDeser_of_parts h35 hEq hS hp] at h
          rw [fixDeser_of_parts a1 a2 a3 (by rw [a4]; exact hp)]
          split at h
          · rename_i hn; rw [if_pos hn]; exact h
          · split at h <;> cases h
        | error e' =>
          unfold fixDeser at h ⊢
          simp only [h35, hEq, hS, hp, err_bind] at h
          simp only [a1, a2, a3, a4, hp, err_bind]
          exact h

theorem fixDeserD_inv {known : Bytes → Bool} {decode : Bytes → Except Err Unit} {buf f r : Bytes}
    (h : fixDeserD known decode buf = .ok (some (f, r))) :
    fixDeser buf = .ok (some (f, r)) ∧ known (getMsgType f) = true ∧ ∃ u, decode f = .ok u := by
  unfold fixDeserD at h
  split at h
  · cases h
  · cases h
  · rename_i f' r' hfd
    split at h
    · rename_i hk
      split at h
      · rename_i u hdec
        cases h
        exact ⟨hfd, hk, u, hdec⟩
      · cases h
    · cases h

theorem fixDeserD_of {known : Bytes → Bool} {decode : Bytes → Except Err Unit} {buf f r : Bytes} {u : Unit}
    (h : fixDeser buf = .ok (some (f, r))) (hk : known (getMsgType f) = true) (hd : decode f = .ok u) :
    fixDeserD known decode buf = .ok (some (f, r)) := by
  unfold fixDeserD
  simp only [h, hk, if_true, hd]

theorem fixDeserD_mono {known : Bytes → Bool} {decode : Bytes → Except Err Unit} {buf f r : Bytes} (more : Bytes)
    (h : fixDeserD known decode buf = .ok (some (f, r))) :
    fixDeserD known decode (buf ++ more) = .ok (some (f, r ++ more)) := by
  obtain ⟨h1, h2, u, h3⟩ := fixDeserD_inv h
  exact fixDeserD_of (fixDeser_mono more h1) h2 h3

theorem fixDeserD_err_mono {known : Bytes → Bool} {decode : Bytes → Except Err Unit} {buf : Bytes} {e : Err} (more : Bytes)
    (h : fixDeserD known decode buf = .error e) :
    fixDeserD known decode (buf ++ more) = .error e := by
  cases hfd : fixDeser buf with
  | error e' =>
    have := fixDeser_err_mono more hfd
    unfold fixDeserD at h ⊢
    simp only [hfd] at h
    simp only [this]
    exact h
  | ok o =>
    cases o with
    | none => unfold fixDeserD at h; simp only [hfd] at h; cases h
    | some fr =>
      obtain ⟨f, r⟩ := fr
      have := fixDeser_mono more hfd
      unfold fixDeserD at h ⊢
      simp only [hfd] at h
      simp only [this]
      split at h
      · rename_i hk
        rw [if_pos hk]
        split at h
        · cases h
        · rename_i e' hdec
          exact h
      · rename_i hk
        rw [if_neg hk]; exact h

/-- every frame the FIX reader (with or without the dictionary dispatch) takes off the buffer is non-empty — no assumption on
    the dictionary -/
theorem fixProtoD_consuming' (known : Bytes → Bool) (decode : Bytes → Except Err Unit) : Consuming (fixProtoD known decode) :=
  fun _ _ _ h => (fixDeser_consumes (fixDeserD_inv h).1).2

theorem fixProto_consuming : Consuming fixProto := fun _ _ _ h => (fixDeser_consumes h).2

theorem fixFramer (known : Bytes → Bool) (decode : Bytes → Except Err Unit) : Framer (fixProtoD known decode) fixSt where
  consuming := fixProtoD_consuming' known decode
  some_mono := fun more _ h => fixDeserD_mono more h
  err_mono := fun more _ h => ⟨_, fixDeserD_err_mono more h⟩
  st_prefix := fun _ => rfl

/-- the FIX reader without the dispatch (a frame is its byte slice) is a `Framer` too -/
theorem fixFramer0 : Framer fixProto fixSt where
  consuming := fixProto_consuming
  some_mono := fun more _ h => fixDeser_mono more h
  err_mono := fun more _ h => ⟨_, fixDeser_err_mono more h⟩
  st_prefix := fun _ => rfl

/-- every byte string is stable for FIX (after the repair) -/
theorem fix_stable {μ : Type} (P : Proto μ) (buf : Bytes) : stable P fixSt buf = true :=
  stable_of_always P fixSt (fun _ => rfl) _ _

end NasdaqModel.Refine
