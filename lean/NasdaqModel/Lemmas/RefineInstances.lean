import NasdaqModel.Lemmas.Refine
/-
The two `Framer` instances.

* SoupBinTCP (`soupProto`): framing is by the 2-byte length prefix only, so whatever could be cut off (or whatever exception
  `from_bytes` raised on the delimited packet) is the same whatever arrives later — for EVERY byte string (`soupSt` is constantly true).
* FIX (`fixProtoD known decode`, the reader with the dictionary dispatch): `bytes.find` results, the BodyLength text and the computed
  frame length are stable under appending; the frame `buf[:n]` / the rest `buf[n:]` are stable iff `n ≥ 0` (`fixSt`): a negative
  `n` counts from the end of whatever has arrived so far.
-/
namespace NasdaqModel.Refine
open NasdaqModel Py Framing

/-! ### SoupBinTCP -/

theorem soupDeser_mono {buf : Bytes} {m : Soup.Pkt} {r : Bytes} (more : Bytes) (h : soupDeser buf = .ok (some (m, r))) :
    soupDeser (buf ++ more) = .ok (some (m, r ++ more)) := by
  match buf, h with
  | [], h => simp [soupDeser] at h
  | [_], h => simp [soupDeser] at h
  | b0 :: b1 :: tl, h =>
    rw [soupDeser_cons2] at h
    have e : (b0 :: b1 :: tl) ++ more = b0 :: b1 :: (tl ++ more) := rfl
    split at h
    · simp at h
    · next hle =>
      have hle' : b0 * 256 + b1 + 2 ≤ (b0 :: b1 :: tl).length := by omega
      rw [e, soupDeser_cons2, ← e, if_neg (by rw [List.length_append]; omega),
        List.take_append_of_le_length hle', List.drop_append_of_le_length hle']
      cases hd : Soup.decode (List.take (b0 * 256 + b1 + 2) (b0 :: b1 :: tl)) with
      | error e' => rw [hd] at h; simp at h
      | ok msg =>
        rw [hd] at h
        simp only [ok_bind, pure_eq_ok, Except.ok.injEq, Option.some.injEq, Prod.mk.injEq] at h ⊢
        exact ⟨h.1, by rw [h.2]⟩

theorem soupDeser_err_mono {buf : Bytes} {e : Err} (more : Bytes) (h : soupDeser buf = .error e) :
    soupDeser (buf ++ more) = .error e := by
  match buf, h with
  | [], h => simp [soupDeser] at h
  | [_], h => simp [soupDeser] at h
  | b0 :: b1 :: tl, h =>
    rw [soupDeser_cons2] at h
    have e0 : (b0 :: b1 :: tl) ++ more = b0 :: b1 :: (tl ++ more) := rfl
    split at h
    · simp at h
    · next hle =>
      have hle' : b0 * 256 + b1 + 2 ≤ (b0 :: b1 :: tl).length := by omega
      rw [e0, soupDeser_cons2, ← e0, if_neg (by rw [List.length_append]; omega),
        List.take_append_of_le_length hle']
      cases hd : Soup.decode (List.take (b0 * 256 + b1 + 2) (b0 :: b1 :: tl)) with
      | error e' =>
        rw [hd] at h
        simp only [err_bind] at h ⊢
        exact h
      | ok msg => rw [hd] at h; simp at h

theorem soupFramer : Framer soupProto soupSt where
  consuming := soupProto_consuming
  some_mono := fun more _ h => soupDeser_mono more h
  err_mono := fun more _ h => ⟨_, soupDeser_err_mono more h⟩
  st_prefix := fun _ => rfl

/-- every byte string is stable for SoupBinTCP -/
theorem soup_stable (buf : Bytes) : stable soupProto soupSt buf = true :=
  stable_of_always soupProto soupSt (fun _ => rfl) _ _

/-! ### `bytes.find` under appending -/

/-- a match that was found lies inside the text -/
theorem findAux_fits (needle : Bytes) : ∀ (b : Bytes) (off i : Nat), findAux needle b off = some i →
    off ≤ i ∧ (i - off) + needle.length ≤ b.length := by
  intro b
  induction b with
  | nil =>
    intro off i h
    unfold findAux at h
    split at h
    · rename_i he
      have : needle = [] := by simpa using he
      subst this
      cases h; simp
    · cases h
  | cons x xs ih =>
    intro off i h
    unfold findAux at h
    split at h
    · rename_i hp
      cases h
      rw [List.isPrefixOf_iff_prefix] at hp
      have := hp.length_le
      simp at this ⊢; omega
    · obtain ⟨h1, h2⟩ := ih (off + 1) i h
      simp only [List.length_cons]
      omega

theorem findAux_append (needle : Bytes) (more : Bytes) : ∀ (b : Bytes) (off i : Nat), findAux needle b off = some i →
    findAux needle (b ++ more) off = some i := by
  intro b
  induction b with
  | nil =>
    intro off i h
    unfold findAux at h
    split at h
    · rename_i he
      have : needle = [] := by simpa using he
      subst this
      cases h
      cases more <;> simp [findAux, List.isPrefixOf]
    · cases h
  | cons x xs ih =>
    intro off i h
    unfold findAux at h
    split at h
    · rename_i hp
      cases h
      have : needle.isPrefixOf (x :: xs ++ more) = true := by
        rw [List.isPrefixOf_iff_prefix] at hp ⊢
        exact hp.trans (List.prefix_append _ _)
      simp only [List.cons_append] at this ⊢
      simp [findAux, this]
    · rename_i hnp
      have hfit := (findAux_fits needle xs (off + 1) i h).2
      have : ¬ needle.isPrefixOf (x :: (xs ++ more)) = true := by
        intro hp
        apply hnp
        rw [List.isPrefixOf_iff_prefix] at hp ⊢
        have h2 : x :: xs <+: x :: (xs ++ more) := by simpa using List.prefix_append (x :: xs) more
        exact List.prefix_of_prefix_length_le hp h2 (by simp only [List.length_cons]; omega)
      simp only [List.cons_append, findAux, this, if_false]
      exact ih (off + 1) i h

theorem find_append {b needle : Bytes} {start i : Nat} (more : Bytes) (h : find b needle start = some i) :
    find (b ++ more) needle start = some i := by
  unfold find at h ⊢
  split at h
  · rename_i hle
    have hle' : start ≤ (b ++ more).length := by rw [List.length_append]; omega
    rw [if_pos hle', List.drop_append_of_le_length hle]
    exact findAux_append needle more _ _ _ h
  · cases h

theorem find_fits {b needle : Bytes} {start i : Nat} (h : find b needle start = some i) :
    start ≤ i ∧ i + needle.length ≤ b.length := by
  unfold find at h
  split at h
  · rename_i hle
    obtain ⟨h1, h2⟩ := findAux_fits needle _ _ _ h
    rw [List.length_drop] at h2
    exact ⟨h1, by omega⟩
  · cases h

theorem pySlice_append_nat (b more : Bytes) (i j : Nat) (hi : i ≤ b.length) (hj : j ≤ b.length) :
    pySlice (b ++ more) (i : Int) (j : Int) = pySlice b (i : Int) (j : Int) := by
  unfold pySlice
  rw [normIdx_nat _ _ hi, normIdx_nat _ _ hj, normIdx_nat _ _ (by rw [List.length_append]; omega),
    normIdx_nat _ _ (by rw [List.length_append]; omega), List.take_append_of_le_length hj]

/-! ### FIX -/

/-- the pieces `FixMessageReader.deserialize` computes, once all three `find`s succeed and `int()` accepts the text -/
theorem fixDeser_of_parts {buf : Bytes} {i start end_ : Nat} {n : Int}
    (h35 : find buf tag35 0 = some i) (hEq : find buf [EQ] 2 = some start) (hS : find buf [SOH] start = some end_)
    (hp : parseIntBytes (pySlice buf ((start : Int) + 1) end_) = .ok n) :
    fixDeser buf = (if (buf.length : Int) < ((end_ : Int) + 1) + n + 7 then .ok none
      else .ok (some (pySliceTo buf (((end_ : Int) + 1) + n + 7), pySliceFrom buf (((end_ : Int) + 1) + n + 7)))) ∧
    fixFrameLen buf = some (((end_ : Int) + 1) + n + 7) := by
  constructor
  · unfold fixDeser
    simp only [h35, hEq, hS, hp, ok_bind, pure_eq_ok]
  · unfold fixFrameLen
    simp only [h35, hEq, hS, hp]

/-- the same `find`s / BodyLength text after more bytes have arrived -/
theorem fix_parts_append {buf : Bytes} {i start end_ : Nat} (more : Bytes)
    (h35 : find buf tag35 0 = some i) (hEq : find buf [EQ] 2 = some start) (hS : find buf [SOH] start = some end_) :
    find (buf ++ more) tag35 0 = some i ∧ find (buf ++ more) [EQ] 2 = some start ∧
    find (buf ++ more) [SOH] start = some end_ ∧
    pySlice (buf ++ more) ((start : Int) + 1) end_ = pySlice buf ((start : Int) + 1) end_ := by
  refine ⟨find_append more h35, find_append more hEq, find_append more hS, ?_⟩
  have h1 := find_fits hEq
  have h2 := find_fits hS
  simp only [List.length_cons, List.length_nil] at h1 h2
  have e : ((start : Int) + 1) = ((start + 1 : Nat) : Int) := by omega
  rw [e]
  exact pySlice_append_nat buf more (start + 1) end_ (by omega) (by omega)

theorem fixFrameLen_append {buf : Bytes} {l : Int} (more : Bytes) (h : fixFrameLen buf = some l) :
    fixFrameLen (buf ++ more) = some l := by
  unfold fixFrameLen at h
  cases h35 : find buf tag35 0 with
  | none => simp only [h35] at h; cases h
  | some i =>
    simp only [h35] at h
    cases hEq : find buf [EQ] 2 with
    | none => simp only [hEq] at h; cases h
    | some start =>
      simp only [hEq] at h
      cases hS : find buf [SOH] start with
      | none => simp only [hS] at h; cases h
      | some end_ =>
        simp only [hS] at h
        cases hp : parseIntBytes (pySlice buf ((start : Int) + 1) end_) with
        | error e => rw [hp] at h; cases h
        | ok n =>
          rw [hp] at h
          obtain ⟨a1, a2, a3, a4⟩ := fix_parts_append more h35 hEq hS
          have := (fixDeser_of_parts a1 a2 a3 (by rw [a4]; exact hp)).2
          rw [this]; exact h

theorem fixSt_prefix {buf more : Bytes} (h : fixSt (buf ++ more) = true) : fixSt buf = true := by
  unfold fixSt at h ⊢
  cases hl : fixFrameLen buf with
  | none => rfl
  | some l => rw [fixFrameLen_append more hl] at h; exact h

theorem fixDeser_mono {buf f r : Bytes} (more : Bytes) (hst : fixSt buf = true) (h : fixDeser buf = .ok (some (f, r))) :
    fixDeser (buf ++ more) = .ok (some (f, r ++ more)) := by
  cases h35 : find buf tag35 0 with
  | none => unfold fixDeser at h; simp only [h35] at h; cases h
  | some i =>
    cases hEq : find buf [EQ] 2 with
    | none => unfold fixDeser at h; simp only [h35, hEq] at h; cases h
    | some start =>
      cases hS : find buf [SOH] start with
      | none => unfold fixDeser at h; simp only [h35, hEq, hS] at h; cases h
      | some end_ =>
        cases hp : parseIntBytes (pySlice buf ((start : Int) + 1) end_) with
        | error e => unfold fixDeser at h; simp only [h35, hEq, hS, hp, err_bind] at h; cases h
        | ok n =>
          obtain ⟨hd, hl⟩ := fixDeser_of_parts h35 hEq hS hp
          obtain ⟨a1, a2, a3, a4⟩ := fix_parts_append more h35 hEq hS
          obtain ⟨hd', _⟩ := fixDeser_of_parts a1 a2 a3 (by rw [a4]; exact hp)
          have hnn : 0 ≤ ((end_ : Int) + 1) + n + 7 := by
            unfold fixSt at hst
            rw [hl] at hst
            simpa using hst
          generalize ((end_ : Int) + 1) + n + 7 = l at hd hd' hnn
          rw [hd] at h
          split at h
          · cases h
          · rename_i hlen
            obtain ⟨k, rfl⟩ := Int.eq_ofNat_of_zero_le hnn
            have hk : k ≤ buf.length := by omega
            simp only [Except.ok.injEq, Option.some.injEq, Prod.mk.injEq] at h
            obtain ⟨hf, hr⟩ := h
            rw [hd', if_neg (by rw [List.length_append]; omega)]
            simp only [pySliceTo, pySliceFrom] at hf hr ⊢
            rw [normIdx_nat _ _ hk] at hf hr
            rw [normIdx_nat _ _ (by rw [List.length_append]; omega), List.take_append_of_le_length hk,
              List.drop_append_of_le_length hk, hf, hr]

theorem fixDeser_err_mono {buf : Bytes} {e : Err} (more : Bytes) (h : fixDeser buf = .error e) :
    fixDeser (buf ++ more) = .error e := by
  cases h35 : find buf tag35 0 with
  | none => unfold fixDeser at h; simp only [h35] at h; cases h
  | some i =>
    cases hEq : find buf [EQ] 2 with
    | none => unfold fixDeser at h; simp only [h35, hEq] at h; cases h
    | some start =>
      cases hS : find buf [SOH] start with
      | none => unfold fixDeser at h; simp only [h35, hEq, hS] at h; cases h
      | some end_ =>
        cases hp : parseIntBytes (pySlice buf ((start : Int) + 1) end_) with
        | ok n =>
          obtain ⟨hd, _⟩ := fixDeser_of_parts h35 hEq hS hp
          rw [hd] at h
          split at h <;> cases h
        | error e' =>
          obtain ⟨a1, a2, a3, a4⟩ := fix_parts_append more h35 hEq hS
          unfold fixDeser at h ⊢
          simp only [h35, hEq, hS, hp, err_bind] at h
          simp only [a1, a2, a3, a4, hp, err_bind]
          exact h

theorem fixDeserD_inv {known : Bytes → Bool} {decode : Bytes → Except Err Unit} {buf f r : Bytes}
    (h : fixDeserD known decode buf = .ok (some (f, r))) :
    fixDeser buf = .ok (some (f, r)) ∧ known (getMsgType f) = true ∧ ∃ u, decode f = .ok u := by
  unfold fixDeserD at h
  split at h
  · cases h
  · cases h
  · rename_i f' r' hfd
    split at h
    · rename_i hk
      split at h
      · rename_i u hdec
        cases h
        exact ⟨hfd, hk, u, hdec⟩
      · cases h
    · cases h

theorem fixDeserD_of {known : Bytes → Bool} {decode : Bytes → Except Err Unit} {buf f r : Bytes} {u : Unit}
    (h : fixDeser buf = .ok (some (f, r))) (hk : known (getMsgType f) = true) (hd : decode f = .ok u) :
    fixDeserD known decode buf = .ok (some (f, r)) := by
  unfold fixDeserD
  simp only [h, hk, if_true, hd]

theorem fixDeserD_mono {known : Bytes → Bool} {decode : Bytes → Except Err Unit} {buf f r : Bytes} (more : Bytes)
    (hst : fixSt buf = true) (h : fixDeserD known decode buf = .ok (some (f, r))) :
    fixDeserD known decode (buf ++ more) = .ok (some (f, r ++ more)) := by
  obtain ⟨h1, h2, u, h3⟩ := fixDeserD_inv h
  exact fixDeserD_of (fixDeser_mono more hst h1) h2 h3

theorem fixDeserD_err_mono {known : Bytes → Bool} {decode : Bytes → Except Err Unit} {buf : Bytes} {e : Err} (more : Bytes)
    (hst : fixSt buf = true) (h : fixDeserD known decode buf = .error e) :
    fixDeserD known decode (buf ++ more) = .error e := by
  cases hfd : fixDeser buf with
  | error e' =>
    have := fixDeser_err_mono more hfd
    unfold fixDeserD at h ⊢
    simp only [hfd] at h
    simp only [this]
    exact h
  | ok o =>
    cases o with
    | none => unfold fixDeserD at h; simp only [hfd] at h; cases h
    | some fr =>
      obtain ⟨f, r⟩ := fr
      have := fixDeser_mono more hst hfd
      unfold fixDeserD at h ⊢
      simp only [hfd] at h
      simp only [this]
      split at h
      · rename_i hk
        rw [if_pos hk]
        split at h
        · cases h
        · rename_i e' hdec
          exact h
      · rename_i hk
        rw [if_neg hk]; exact h

theorem fixFramer (known : Bytes → Bool) (decode : Bytes → Except Err Unit) (hk : known [] = false) :
    Framer (fixProtoD known decode) fixSt where
  consuming := fixProtoD_consuming known decode hk
  some_mono := fun more hst h => fixDeserD_mono more hst h
  err_mono := fun more hst h => ⟨_, fixDeserD_err_mono more hst h⟩
  st_prefix := fixSt_prefix

end NasdaqModel.Refine
