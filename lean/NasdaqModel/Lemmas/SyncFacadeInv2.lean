import NasdaqModel.Lemmas.SyncFacadeLemmas
/-
Second invariant of the C20 model: what a caller's history says about the executor thread
(a returned close()/logout() ⇒ the thread has exited ⇒ later calls end as the property demands).
-/
namespace NasdaqModel.SyncFacade

/-- some close()/logout() of this thread has returned normally -/
def closedIn (h : List (Op × Outcome)) : Bool := h.any fun p => p.1.isClose && p.2 == .ok

theorem closedIn_cons (op : Op) (o : Outcome) (h : List (Op × Outcome)) :
    closedIn ((op, o) :: h) = ((op.isClose && o == .ok) || closedIn h) := by
  simp [closedIn]

/-- how a call made after close()/logout() returned must end: the state error (close/logout return at once) -/
def expectedAfterClose : Op → Outcome
  | .recv | .send | .sendUnseq | .execTimed => .state
  | .close | .logout => .ok

/-- every call finished after a returned close()/logout() of the same thread ended as `expectedAfterClose` says
(history is most recent first) -/
def goodHist : List (Op × Outcome) → Bool
  | [] => true
  | (op, o) :: rest => goodHist rest && (!closedIn rest || o == expectedAfterClose op)

def headIsClose (c : Caller) : Bool :=
  match c.prog with
  | op :: _ => op.isClose
  | [] => false

/-- the future fits the call that created it -/
def jobFits (c : Caller) : Bool :=
  match c.job, c.prog with
  | .none, _ => true
  | .submitted k, op :: _ => k == op.jobKind
  | .blocked _, op :: _ => op == .recv
  | .running, op :: _ => op == .execTimed
  | .done _, _ :: _ => true
  | _, [] => false

/-- where a thread can be once one of its own close()/logout() calls has returned -/
def afterClosePc (c : Caller) : Bool :=
  match c.pc with
  | .idle | .acq | .chkEvt | .rel | .waitEvt | .join => true
  | .chk1 | .chk2 => !headIsClose c
  | .submit | .wait => false

def cinv2 (alive : Bool) (cpc : ClosePc) (c : Caller) : Prop :=
  (closedIn c.hist = true → alive = false) ∧
  ((c.pc = .rel ∨ c.pc = .waitEvt ∨ c.pc = .join) → cpc ≠ .idle) ∧
  (headIsClose c = true → (∃ o, c.job = .done o) → cpc ≠ .idle) ∧
  jobFits c = true ∧
  (closedIn c.hist = true → afterClosePc c = true) ∧
  goodHist c.hist = true

def Inv2 (s : St) : Prop := ∀ (i : Nat) (c : Caller), s.callers[i]? = some c → cinv2 s.loopAlive s.closePc c

theorem callerStep_cinv2 {lock : Option Tid} {evt alive : Bool} {cpc : ClosePc} {i : Nat} {c c' : Caller}
    {lk : Option Tid} (hA : alive = false → evt = true) (hE : evt = true → cpc ≠ .idle)
    (h1 : cinv lock i c) (h2 : cinv2 alive cpc c) (h : callerStep lock evt alive i c = some (c', lk)) :
    cinv2 alive cpc c' := by
  obtain ⟨p1, p2, -⟩ := h1
  obtain ⟨a, b, b', f, e, g⟩ := h2
  unfold callerStep at h
  rcases c with ⟨prog, pc, job, hist⟩
  cases prog with
  | nil => simp at h
  | cons op rest =>
    simp only at a b b' f e g p1 p2
    cases hcl : closedIn hist <;> simp only [hcl] at a e <;>
    cases pc <;> cases op <;> simp only [] at h <;> (repeat' (split at h)) <;>
      first
      | (simp only [reduceCtorEq] at h; done)
      | (simp only [Option.some.injEq, Prod.mk.injEq] at h
         obtain ⟨rfl, rfl⟩ := h
         simp_all [cinv2, pcOk, jobOk, jobFits, afterClosePc, headIsClose, finish, Op.isClose, goodHist, closedIn_cons,
           expectedAfterClose, Op.jobKind])

theorem cinv2_jobUpd {alive alive' : Bool} {cpc cpc' : ClosePc} {r : Bool} {c c' : Caller}
    (h : cinv2 alive cpc c) (u : JobUpd r c c') (hal : alive = false → alive' = false)
    (hcp : cpc ≠ .idle → cpc' ≠ .idle)
    (hrun : ∀ k, c.job = .submitted k → (k = .initClose ∨ k = .logout) → c'.job ≠ c.job → cpc' ≠ .idle) :
    cinv2 alive' cpc' c' := by
  obtain ⟨a, b, b', f, e, g⟩ := h
  obtain ⟨uo, uj⟩ := u
  rcases c with ⟨prog, pc, job, hist⟩
  rcases c' with ⟨prog', pc', job', hist'⟩
  simp only [Caller.own, Prod.mk.injEq] at uo
  obtain ⟨rfl, rfl, rfl⟩ := uo
  simp only at uj a b b' f e g hrun
  refine ⟨fun x => hal (a x), fun x => hcp (b x), ?_, ?_, e, g⟩
  · intro hh ⟨o, ho⟩
    simp only at ho
    rcases uj with rfl | ⟨t, o', hb, _⟩ | ⟨_, k, hs, hr⟩
    · exact hcp (b' hh ⟨o, ho⟩)
    · subst hb
      cases prog' with
      | nil => simp [headIsClose] at hh
      | cons op rest => cases op <;> simp_all [jobFits, headIsClose, Op.isClose]
    · subst hs; subst ho
      cases prog' with
      | nil => simp [headIsClose] at hh
      | cons op rest =>
        apply hrun k rfl _ (by simp)
        cases op <;> simp_all [jobFits, headIsClose, Op.isClose, Op.jobKind]
  · rcases uj with rfl | ⟨t, o', hb, hd⟩ | ⟨_, k, hs, hr⟩
    · exact f
    · subst hb; subst hd
      cases prog' <;> simp_all [jobFits]
    · subst hs
      cases prog' with
      | nil => simp [jobFits] at f
      | cons op rest =>
        cases k <;> simp only [JobRes] at hr
        · rcases hr with ⟨t, rfl⟩ | ⟨o, rfl⟩ <;> cases op <;> simp_all [jobFits, Op.jobKind]
        all_goals (subst hr; cases op <;> simp_all [jobFits, Op.jobKind])

theorem ginv_alive_evt {s : St} (hg : ginv s = true) : s.loopAlive = false → s.closedEvent = true := by
  revert hg; simp only [ginv]; cases s.closePc <;> simp_all

theorem ginv_evt_cpc {s : St} (hg : ginv s = true) : s.closedEvent = true → s.closePc ≠ .idle := by
  revert hg; simp only [ginv]; cases s.closePc <;> simp_all

theorem inv2_step {s s' : St} {l : Label} (h1 : Inv1 s) (hI : Inv2 s) (h : step s l = some s') : Inv2 s' := by
  have mono := step_mono h
  cases l with
  | caller i =>
    obtain ⟨c, c', lk, hc, hcs, rfl⟩ := stepCaller_spec h
    have hc2 := callerStep_cinv2 (ginv_alive_evt h1.1) (ginv_evt_cpc h1.1) (h1.2 i c hc) (hI i c hc) hcs
    intro j cj hj
    simp only at hj ⊢
    rw [getElem?_updAt] at hj
    split at hj
    · subst j; simp [hc] at hj; subst hj; exact hc2
    · exact hI j cj hj
  | job i =>
    intro j c' hc'
    obtain ⟨c, hc, u⟩ := stepJob_callers h j c' hc'
    apply cinv2_jobUpd (hI j c hc) u mono.1 mono.2
    intro k hk hcl hne
    by_cases hji : j = i
    · subst hji; exact stepJob_closeKind h hc hk hcl
    · have := stepJob_others h hji
      rw [hc, hc'] at this
      simp only [Option.some.injEq] at this
      exact absurd (by rw [this]) hne
  | close =>
    intro j c' hc'
    obtain ⟨c, hc, u⟩ := stepClose_callers h j c' hc'
    apply cinv2_jobUpd (hI j c hc) u mono.1 mono.2
    intro k hk _ hne
    rcases u.2 with e | ⟨t, o, hb, _⟩ | ⟨hr, _⟩
    · exact absurd e hne
    · rw [hk] at hb; simp at hb
    · simp at hr
  | stop =>
    intro j c' hc'
    obtain ⟨c, hc, u⟩ := stepStop_callers h j c' hc'
    apply cinv2_jobUpd (hI j c hc) u mono.1 mono.2
    intro k hk _ hne
    rcases u.2 with e | ⟨t, o, hb, _⟩ | ⟨hr, _⟩
    · exact absurd e hne
    · rw [hk] at hb; simp at hb
    · simp at hr
  | peer =>
    intro j c' hc'
    obtain ⟨c, hc, u⟩ := stepPeer_callers h j c' hc'
    apply cinv2_jobUpd (hI j c hc) u mono.1 mono.2
    intro k hk _ hne
    rcases u.2 with e | ⟨t, o, hb, _⟩ | ⟨hr, _⟩
    · exact absurd e hne
    · rw [hk] at hb; simp at hb
    · simp at hr

theorem inv2_init (cfg : Cfg) : Inv2 (init cfg) := by
  intro i c hc
  simp only [init, List.getElem?_map] at hc
  cases hp : cfg.progs[i]? with
  | none => simp [hp] at hc
  | some p =>
    simp [hp] at hc; subst hc
    simp [cinv2, initCaller, closedIn, jobFits, goodHist, headIsClose]

theorem inv12_reachable {cfg : Cfg} {s : St} (h : Reachable cfg s) : Inv1 s ∧ Inv2 s :=
  reachable_invariant (fun s => Inv1 s ∧ Inv2 s) cfg ⟨inv1_init cfg, inv2_init cfg⟩
    (fun _ _ _ hI hs => ⟨inv1_step hI.1 hs, inv2_step hI.1 hI.2 hs⟩) s h

end NasdaqModel.SyncFacade
