import NasdaqModel.Lemmas.SessionLemmas3
/-
Session-machine side of the refinement: the reader's data (`buf`, `wire`, `consumed`, `recvd`) are written by exactly two
things — a token delivery (`Ev.data`) and the loop body of the reader task (`stepReader`) — and what one poll of the reader
does to them.
-/
namespace NasdaqModel.Sess

/-- the part of the state that belongs to the reader -/
def rcore (s : St) : List Frame × List Frame × List Frame × List Nat := (s.buf, s.wire, s.consumed, s.recvd)

theorem rcore_of_gcore {s s' : St} (h : gcore s' = gcore s) : rcore s' = rcore s := by
  simp only [gcore, Prod.mk.injEq] at h
  obtain ⟨h1, h2, h3, h4, _⟩ := h
  simp only [rcore, h1, h2, h3, h4]

@[simp] theorem rcore_setStatus (s : St) (t : Tid) (x : Status) : rcore (s.setStatus t x) = rcore s := rfl
@[simp] theorem rcore_setProg (s : St) (t : Tid) (p : Prog) : rcore (s.setProg t p) = rcore s := rfl
@[simp] theorem rcore_spawn (s : St) (t : Tid) (p : Prog) : rcore (s.spawn t p) = rcore s := rfl
@[simp] theorem rcore_finish (s : St) (t : Tid) : rcore (s.finish t) = rcore s := rfl
@[simp] theorem rcore_emit (s : St) (o : Obs) : rcore (s.emit o) = rcore s := rfl
@[simp] theorem rcore_startHeartbeats (s : St) : rcore s.startHeartbeats = rcore s := rfl
@[simp] theorem rcore_cancelTask (s : St) (t : Tid) : rcore (s.cancelTask t) = rcore s := rcore_of_gcore (gcore_cancelTask s t)
@[simp] theorem rcore_wakeGetter (s : St) (t : Tid) : rcore (s.wakeGetter t) = rcore s := rcore_of_gcore (gcore_wakeGetter s t)
@[simp] theorem rcore_initiateClose (s : St) : rcore s.initiateClose = rcore s := rcore_of_gcore (gcore_initiateClose s)
@[simp] theorem rcore_startDispatching (s : St) (cfg : Cfg) : rcore (s.startDispatching cfg) = rcore s :=
  rcore_of_gcore (gcore_startDispatching s cfg)
@[simp] theorem rcore_enterClose (cfg : Cfg) (s : St) (t : Tid) (c : Cont) : rcore (enterClose cfg s t c) = rcore s :=
  rcore_of_gcore (gcore_enterClose cfg s t c)
@[simp] theorem rcore_stepInClose (cfg : Cfg) (s : St) (t : Tid) (b : Bool) : rcore (stepInClose cfg s t b) = rcore s :=
  rcore_of_gcore (gcore_stepInClose cfg s t b)
@[simp] theorem rcore_stepMon (cfg : Cfg) (s : St) (b : Bool) : rcore (stepMon cfg s b) = rcore s :=
  rcore_of_gcore (gcore_stepMon cfg s b)
@[simp] theorem rcore_dispHandle (cfg : Cfg) (s : St) (n : Nat) : rcore (dispHandle cfg s n) = rcore s :=
  rcore_of_gcore (gcore_dispHandle cfg s n)

theorem rcore_put (s : St) (m : Nat) : rcore (s.put m) = rcore s := by
  unfold St.put
  rw [rcore_wakeGetter, rcore_wakeGetter]; rfl

theorem rcore_stepDisp (cfg : Cfg) (s : St) : rcore (stepDisp cfg s) = rcore s := by
  unfold stepDisp
  split
  · rfl
  · split
    · rfl
    · split
      · rfl
      · rw [rcore_dispHandle]; rfl

theorem rcore_loginResume (cfg : Cfg) (s : St) (t : Tid) (u : Nat) : rcore (loginResume cfg s t u) = rcore s := by
  unfold loginResume
  split
  · simp only
    split
    · simp only [rcore_finish, rcore_emit, rcore_startDispatching, rcore_startHeartbeats]; rfl
    · rw [rcore_enterClose]; rfl
  · split
    · rfl
    · rw [rcore_enterClose]; rfl

theorem rcore_startRecv (s : St) (u : Nat) (b : Bool) : rcore (startRecv s u b) = rcore s := by
  unfold startRecv
  split
  · rfl
  · split
    · rfl
    · split
      · rfl
      · split
        · split <;> rfl
        · rfl

/-- a task step that is not the reader at the top of its loop leaves the reader's data alone -/
theorem rcore_stepRun (cfg : Cfg) (s : St) (t : Tid)
    (hnr : ¬ (t = .R ∧ s.status .R = .ready ∧ s.prog .R = .readerLoop)) : rcore (stepRun cfg s t) = rcore s := by
  unfold stepRun
  have e0 : rcore ({ s with imm := none } : St) = rcore s := rfl
  have hst : ({ s with imm := none } : St).status = s.status := rfl
  have hpr : ({ s with imm := none } : St).prog = s.prog := rfl
  rw [← e0]
  generalize ({ s with imm := none } : St) = s0 at hst hpr ⊢
  simp only
  split
  · -- cancelled
    split
    · rfl
    · rfl
    · split <;> rfl
    · split
      · rfl
      · rw [rcore_enterClose]; rfl
    · exact rcore_stepInClose _ _ _ _
    · rfl
  · -- ready
    rename_i hready
    split
    · rename_i hprog
      split
      · rename_i ht
        subst ht
        rw [hst] at hready
        rw [hpr] at hprog
        exact absurd ⟨rfl, hready, hprog⟩ hnr
      · rfl
    · split
      · exact rcore_stepDisp _ _
      · rfl
    · split <;> rfl
    · rfl
    · split
      · exact rcore_stepMon _ _ _
      · split
        · exact rcore_stepMon _ _ _
        · rfl
    · exact rcore_enterClose _ _ _ _
    · exact rcore_stepInClose _ _ _ _
    · split
      · rfl
      · split <;> rfl
    · split
      · rfl
      · split <;> rfl
    · exact rcore_loginResume _ _ _ _
    · rfl
  · rfl

/-- the reader task at the top of its loop body -/
def atLoop (s : St) : Prop := s.status .R = .ready ∧ s.prog .R = .readerLoop

/-- **only a token delivery and the reader's own loop body write the reader's data** -/
theorem rcore_step_other (cfg : Cfg) (s : St) (ev : Ev) (hd : ∀ fs, ev ≠ .data fs) (hr : ev = .run .R → ¬ atLoop s) :
    rcore (step cfg s ev) = rcore s := by
  cases ev with
  | connect =>
    simp only [step]
    split
    · rfl
    · split
      · rw [rcore_startDispatching]; rfl
      · rfl
  | data fs => exact absurd rfl (hd fs)
  | eof => exact rcore_initiateClose s
  | run t =>
    simp only [step]
    split
    · apply rcore_stepRun
      rintro ⟨rfl, h1, h2⟩
      exact hr rfl ⟨h1, h2⟩
    · rfl
  | callClose u =>
    simp only [step]
    split
    · rfl
    · rw [rcore_enterClose]; rfl
  | callInitiateClose => exact rcore_initiateClose s
  | callLogout => simp only [step]; rw [rcore_initiateClose]; rfl
  | callRecv u =>
    simp only [step]
    split
    · rfl
    · exact rcore_startRecv _ _ _
  | callRecvNowait u =>
    simp only [step]
    split
    · rfl
    · split
      · rfl
      · split
        · rfl
        · split <;> rfl
  | callLogin u =>
    simp only [step]
    split
    · rfl
    · rw [rcore_startRecv]; rfl
  | callSend => rfl
  | cancel u => exact rcore_cancelTask _ _

/-! ### what one poll of the reader does -/

theorem step_run_R_atLoop (cfg : Cfg) (s : St) (h : atLoop s) :
    step cfg s (.run .R) = stepReader cfg { s with imm := none } := by
  obtain ⟨h1, h2⟩ := h
  simp [step, runnable, h1, stepRun, h2]

theorem stepReader_nil (cfg : Cfg) (s : St) (hb : s.buf = []) : rcore (stepReader cfg s) = rcore s := by
  unfold stepReader
  split
  · rfl
  · rw [hb]

theorem stepReader_stopped (cfg : Cfg) (s : St) (hs : s.rStopped = true) : rcore (stepReader cfg s) = rcore s := by
  unfold stepReader
  rw [if_pos hs]; rfl

theorem stepReader_cons (cfg : Cfg) (s : St) (hs : s.rStopped = false) {f : Frame} {rest : List Frame}
    (hb : s.buf = f :: rest) :
    (stepReader cfg s).buf = rest ∧ (stepReader cfg s).consumed = s.consumed ++ [f] ∧
    (stepReader cfg s).wire = s.wire ∧ (stepReader cfg s).recvd = s.recvd ++ msgsOf [f] ∧
    ((f = .logout ∨ f = .bad) → (stepReader cfg s).closed = true) := by
  unfold stepReader
  rw [if_neg (by simp [hs])]
  split
  · rename_i h0; rw [hb] at h0; cases h0
  rename_i f' rest' h0
  rw [hb] at h0
  injection h0 with e1 e2
  subst e1; subst e2
  cases f with
  | msg n =>
    simp only
    have := rcore_put ({ s with buf := rest, consumed := s.consumed ++ [.msg n], recvd := s.recvd ++ [n] } : St) n
    simp only [rcore, Prod.mk.injEq] at this
    obtain ⟨a1, a2, a3, a4⟩ := this
    refine ⟨a1, a3, a2, ?_, ?_⟩
    · rw [a4]; rfl
    · rintro (h | h) <;> cases h
  | hb =>
    refine ⟨rfl, rfl, rfl, ?_, ?_⟩
    · simp [msgsOf]
    · rintro (h | h) <;> cases h
  | logout =>
    simp only
    have := rcore_enterClose cfg ({ s with buf := rest, consumed := s.consumed ++ [.logout] } : St) .R .readerTail
    simp only [rcore, Prod.mk.injEq] at this
    obtain ⟨a1, a2, a3, a4⟩ := this
    refine ⟨a1, a3, a2, ?_, fun _ => enterClose_closed _ _ _ _⟩
    rw [a4]; simp [msgsOf]
  | bad =>
    simp only
    have := rcore_enterClose cfg ({ s with buf := rest, consumed := s.consumed ++ [.bad] } : St) .R .readerTail
    simp only [rcore, Prod.mk.injEq] at this
    obtain ⟨a1, a2, a3, a4⟩ := this
    refine ⟨a1, a3, a2, ?_, fun _ => enterClose_closed _ _ _ _⟩
    rw [a4]; simp [msgsOf]

/-- a poll that finds the token buffer empty changes nothing of the reader's data -/
theorem poll_nil (cfg : Cfg) (s : St) (h : atLoop s) (hb : s.buf = []) :
    rcore (step cfg s (.run .R)) = rcore s := by
  rw [step_run_R_atLoop cfg s h]
  exact stepReader_nil cfg { s with imm := none } hb

/-- **one frame per poll**: a poll of a running reader takes exactly the first token out of the buffer; a message goes to the
    queue side (`recvd`), a logout / malformed frame closes the session in this very step -/
theorem poll_cons (cfg : Cfg) (s : St) (h : atLoop s) (hs : s.rStopped = false) {f : Frame} {rest : List Frame}
    (hb : s.buf = f :: rest) :
    (step cfg s (.run .R)).buf = rest ∧ (step cfg s (.run .R)).consumed = s.consumed ++ [f] ∧
    (step cfg s (.run .R)).wire = s.wire ∧ (step cfg s (.run .R)).recvd = s.recvd ++ msgsOf [f] ∧
    ((f = .logout ∨ f = .bad) → (step cfg s (.run .R)).closed = true) := by
  rw [step_run_R_atLoop cfg s h]
  exact stepReader_cons cfg { s with imm := none } hs hb

/-- a poll of a reader whose `_stopped` flag is set only ends the task -/
theorem poll_stopped (cfg : Cfg) (s : St) (h : atLoop s) (hs : s.rStopped = true) :
    rcore (step cfg s (.run .R)) = rcore s := by
  rw [step_run_R_atLoop cfg s h]
  exact stepReader_stopped cfg { s with imm := none } hs

/-- a poll of a running reader either closes the session or leaves the reader task as it is (ready, in its loop) -/
theorem stepReader_status (cfg : Cfg) (s : St) (hs : s.rStopped = false) :
    (stepReader cfg s).closed = true ∨
      ((stepReader cfg s).status .R = s.status .R ∧ (stepReader cfg s).prog .R = s.prog .R) := by
  unfold stepReader
  rw [if_neg (by simp [hs])]
  split
  · right; exact ⟨rfl, rfl⟩
  · rename_i f rest _
    cases f with
    | msg n =>
      right
      simp only [St.put, St.wakeGetter]
      split <;> split <;> simp [St.setStatus, St.setProg]
    | hb => right; exact ⟨rfl, rfl⟩
    | logout => left; exact enterClose_closed _ _ _ _
    | bad => left; exact enterClose_closed _ _ _ _

theorem poll_status (cfg : Cfg) (s : St) (h : atLoop s) (hs : s.rStopped = false) :
    (step cfg s (.run .R)).closed = true ∨ atLoop (step cfg s (.run .R)) := by
  rw [step_run_R_atLoop cfg s h]
  rcases stepReader_status cfg { s with imm := none } hs with h1 | ⟨h1, h2⟩
  · exact Or.inl h1
  · exact Or.inr ⟨h1.trans h.1, h2.trans h.2⟩

theorem runEvs_closed_mono (cfg : Cfg) : ∀ (evs : List Ev) (s : St), s.closed = true → (runEvs cfg s evs).closed = true := by
  intro evs
  induction evs with
  | nil => intro s h; exact h
  | cons e es ih => intro s h; exact ih _ (step_closed_mono cfg s e h)

end NasdaqModel.Sess
