import NasdaqModel.Lemmas.AppSessionLemmas
/-
Invariants of the application-session product machine, part 2: the flow of messages through the second stage (C04App).

  fed       = decode (inner messages whose callback `_on_soup_message` was entered)      what was put on the second queue
  fed       = gone2 ++ vres2 ++ q2          every value put on the second queue is, in order: gone for good (handed to the application
                                            consumer, or dropped by a late cancel), held for the pending `receive_message()`, or still queued
  delivered(trace2) = taken2                the observable deliveries are exactly the `gone2` entries marked delivered
-/
namespace NasdaqModel.App
open NasdaqModel

/-- the decoded value of inner message `n`, if `_on_soup_message` puts one on the second queue -/
def valOf (a : ACfg) (n : Nat) : Option Nat :=
  match a.dec n with
  | .val v => some v
  | _ => none

/-- the value an application-level observable hands to the application consumer, if any -/
def deliveredA : AObs → Option Nat
  | .msgEnter v => some v
  | .ret _ (.msg v) => some v
  | _ => none

def appDelivered (l : List AObs) : List Nat := l.filterMap deliveredA

structure InvF (a : ACfg) (s : St) : Prop where
  fed_eq : s.fed = (entered s.inner.trace).filterMap (valOf a)
  flow : s.gone2.map (·.1) ++ s.vres2.toList ++ s.q2 = s.fed
  deliv : appDelivered s.trace2 = s.taken2
  lost : s.lost2 = []

/-- the part of the state `InvF` reads -/
def fcore (s : St) : List Sess.Obs × List Nat × List (Nat × Bool) × Option Nat × List Nat × List Nat :=
  (s.inner.trace, s.fed, s.gone2, s.vres2, s.q2, appDelivered s.trace2)

theorem InvF.of_fcore {a : ACfg} {s s' : St} (h : fcore s' = fcore s) (i : InvF a s) : InvF a s' := by
  simp only [fcore, Prod.mk.injEq] at h
  obtain ⟨h1, h2, h3, h4, h5, h6⟩ := h
  exact ⟨by rw [h2, h1]; exact i.fed_eq, by rw [h3, h4, h5, h2]; exact i.flow,
    by rw [h6]; unfold St.taken2; rw [h3]; exact i.deliv, by unfold St.lost2; rw [h3]; exact i.lost⟩

theorem trace2_emit2 (s : St) (o : AObs) : (s.emit2 o).trace2 = s.trace2 ++ [o] := by
  simp [St.trace2, St.emit2, List.filterMap_append, PObs.appOf]

theorem trace2_tr_inner (s : St) (d : List Sess.Obs) :
    ({ s with tr := s.tr ++ d.map .inner } : St).trace2 = s.trace2 := by
  simp only [St.trace2, List.filterMap_append]
  have : (d.map PObs.inner).filterMap PObs.appOf = [] := by
    induction d with
    | nil => rfl
    | cons x d ih => simp [List.filterMap_cons, PObs.appOf, ih]
  rw [this]; simp

/-! ### frame lemmas -/

@[simp] theorem fcore_setA (s : St) (t : ATid) (x : AStatus) : fcore (s.setA t x) = fcore s := rfl
@[simp] theorem fcore_setP (s : St) (t : ATid) (p : AProg) : fcore (s.setP t p) = fcore s := rfl
@[simp] theorem fcore_spawn2 (s : St) (t : ATid) (p : AProg) : fcore (s.spawn2 t p) = fcore s := rfl
@[simp] theorem fcore_finish2 (s : St) (t : ATid) : fcore (s.finish2 t) = fcore s := rfl
@[simp] theorem fcore_cancel2 (s : St) (t : ATid) : fcore (s.cancel2 t) = fcore s := by
  unfold St.cancel2; split <;> try rfl
  split <;> rfl
@[simp] theorem fcore_wake2 (s : St) (t : ATid) : fcore (s.wake2 t) = fcore s := by
  unfold St.wake2; split <;> rfl
@[simp] theorem fcore_setEvent (s : St) : fcore s.setEvent = fcore s := by
  unfold St.setEvent; split <;> rfl

theorem fcore_emit2 (s : St) (o : AObs) (h : deliveredA o = none) : fcore (s.emit2 o) = fcore s := by
  simp only [fcore, trace2_emit2, appDelivered, List.filterMap_append, List.filterMap_cons, h, List.filterMap_nil,
    List.append_nil]
  rfl

theorem InvF.emit2 {a : ACfg} {s : St} {o : AObs} (h : deliveredA o = none) (i : InvF a s) : InvF a (s.emit2 o) :=
  InvF.of_fcore (fcore_emit2 s o h) i

/-- closing tactic: the state changed outside `fcore` -/
macro "fr" i:ident : tactic => `(tactic| first
  | exact $i
  | (refine InvF.of_fcore ?_ $i; rfl)
  | (refine InvF.of_fcore ?_ $i; simp; done))

/-! ### `_on_soup_message`: decode and put -/

theorem put2_fields (s : St) (v : Nat) :
    (s.put2 v).fed = s.fed ++ [v] ∧ (s.put2 v).q2 = s.q2 ++ [v] ∧ (s.put2 v).gone2 = s.gone2 ∧
    (s.put2 v).vres2 = s.vres2 ∧ (s.put2 v).tr = s.tr ∧ (s.put2 v).inner = s.inner := by
  unfold St.put2 St.wake2
  split <;> split <;> simp [St.setA]

theorem feed1_fields (a : ACfg) (s : St) (n : Nat) :
    (feed1 a s n).fed = s.fed ++ (valOf a n).toList ∧ (feed1 a s n).q2 = s.q2 ++ (valOf a n).toList ∧
    (feed1 a s n).gone2 = s.gone2 ∧ (feed1 a s n).vres2 = s.vres2 ∧ (feed1 a s n).tr = s.tr ∧
    (feed1 a s n).inner = s.inner := by
  cases hd : a.dec n with
  | val v =>
    have e : feed1 a s n = s.put2 v := by simp [feed1, hd]
    have e2 : valOf a n = some v := by simp [valOf, hd]
    rw [e, e2]
    exact put2_fields s v
  | skip =>
    have e : feed1 a s n = s := by simp [feed1, hd]
    have e2 : valOf a n = none := by simp [valOf, hd]
    rw [e, e2]; simp
  | fail =>
    have e : feed1 a s n = s := by simp [feed1, hd]
    have e2 : valOf a n = none := by simp [valOf, hd]
    rw [e, e2]; simp

theorem feed_fields (a : ACfg) (ns : List Nat) (s : St) :
    (feed a s ns).fed = s.fed ++ ns.filterMap (valOf a) ∧ (feed a s ns).q2 = s.q2 ++ ns.filterMap (valOf a) ∧
    (feed a s ns).gone2 = s.gone2 ∧ (feed a s ns).vres2 = s.vres2 ∧ (feed a s ns).tr = s.tr ∧
    (feed a s ns).inner = s.inner := by
  induction ns generalizing s with
  | nil => simp [feed]
  | cons n ns ih =>
    have h1 := feed1_fields a s n
    have h2 := ih (feed1 a s n)
    have e : feed a s (n :: ns) = feed a (feed1 a s n) ns := rfl
    rw [e]
    obtain ⟨a1, a2, a3, a4, a5, a6⟩ := h1
    obtain ⟨b1, b2, b3, b4, b5, b6⟩ := h2
    refine ⟨?_, ?_, by rw [b3, a3], by rw [b4, a4], by rw [b5, a5], by rw [b6, a6]⟩
    · rw [b1, a1]; cases h : valOf a n <;> simp [h]
    · rw [b2, a2]; cases h : valOf a n <;> simp [h]

theorem entered_append (l1 l2 : List Sess.Obs) : entered (l1 ++ l2) = entered l1 ++ entered l2 := by
  simp [entered, List.filterMap_append]

theorem innerStep_InvF {a : ACfg} {s : St} (i : InvF a s) (e : Sess.Ev) : InvF a (innerStep a s e) := by
  unfold innerStep
  simp only
  generalize hd : (Sess.step (innerCfg a) s.inner e).trace.drop s.inner.trace.length = d
  have htr : (Sess.step (innerCfg a) s.inner e).trace = s.inner.trace ++ d := by
    rw [← hd]; exact Sess.step_trace_eq _ _ _
  obtain ⟨f1, f2, f3, f4, f5, f6⟩ := feed_fields a (entered d)
    { s with inner := Sess.step (innerCfg a) s.inner e, tr := s.tr ++ d.map .inner }
  refine ⟨?_, ?_, ?_, by unfold St.lost2; rw [f3]; exact i.lost⟩
  · rw [f1, f6]
    show s.fed ++ _ = _
    rw [htr, entered_append, List.filterMap_append, i.fed_eq]
  · rw [f3, f4, f2, f1]
    show s.gone2.map (·.1) ++ s.vres2.toList ++ (s.q2 ++ _) = s.fed ++ _
    rw [← List.append_assoc, i.flow]
  · have ht : (feed a { s with inner := Sess.step (innerCfg a) s.inner e, tr := s.tr ++ d.map .inner } (entered d)).trace2
        = s.trace2 := by
      unfold St.trace2
      rw [f5]
      exact trace2_tr_inner s d
    rw [ht]
    unfold St.taken2
    rw [f3]
    exact i.deliv

theorem innerStep_fields (a : ACfg) (s : St) (e : Sess.Ev) :
    (innerStep a s e).gone2 = s.gone2 ∧ (innerStep a s e).vres2 = s.vres2 ∧
    (innerStep a s e).q2 = s.q2 ++
      (entered ((Sess.step (innerCfg a) s.inner e).trace.drop s.inner.trace.length)).filterMap (valOf a) := by
  unfold innerStep
  simp only
  obtain ⟨_, f2, f3, f4, _, _⟩ := feed_fields a
    (entered ((Sess.step (innerCfg a) s.inner e).trace.drop s.inner.trace.length))
    { s with inner := Sess.step (innerCfg a) s.inner e,
             tr := s.tr ++ ((Sess.step (innerCfg a) s.inner e).trace.drop s.inner.trace.length).map .inner }
  exact ⟨f3, f4, f2⟩

theorem startClose_q2_gone2 (a : ACfg) (s : St) (t : ATid) (p : AProg) :
    (startClose a s t p).q2 = s.q2 ∧ (startClose a s t p).gone2 = s.gone2 := by
  unfold startClose
  obtain ⟨h1, _, h3⟩ := innerStep_fields a { s with evt := some false } .callInitiateClose
  have hcore := Sess.step_initiateClose_core (innerCfg a) s.inner
  simp only [Sess.core, Prod.mk.injEq] at hcore
  have hd : (Sess.step (innerCfg a) s.inner .callInitiateClose).trace.drop s.inner.trace.length = [] := by
    rw [hcore.2.2.2]; simp
  constructor
  · show (innerStep a { s with evt := some false } .callInitiateClose).q2 = s.q2
    rw [h3]
    show s.q2 ++ (entered ((Sess.step (innerCfg a) s.inner .callInitiateClose).trace.drop s.inner.trace.length)).filterMap (valOf a) = s.q2
    rw [hd]; simp [entered]
  · show (innerStep a { s with evt := some false } .callInitiateClose).gone2 = s.gone2
    rw [h1]


/-! ### the close sequence does not touch the flow -/

theorem d2Return_InvF {a : ACfg} {s : St} (i : InvF a s) : InvF a (d2Return s) := by
  unfold d2Return
  split
  · split
    · rename_i v _
      split
      · exact InvF.of_fcore (fcore_finish2 _ _) ((i.emit2 rfl).emit2 rfl)
      · exact InvF.of_fcore (s := (s.emit2 (.closeRet (.handler v) .ok)).emit2 (.msgExit v)) rfl ((i.emit2 rfl).emit2 rfl)
    · exact InvF.of_fcore (fcore_finish2 _ _) ((i.emit2 rfl).emit2 rfl)
    · exact i
  · exact i

theorem finishClose_InvF {a : ACfg} {s : St} (i : InvF a s) (t : Sess.Tid) : InvF a (finishClose a s t) :=
  d2Return_InvF (innerStep_InvF (s := { s with cpc := .finished }) (by fr i) _)

theorem endCb_InvF {a : ACfg} {s : St} (i : InvF a s) (t : Sess.Tid) : InvF a (endCb a s t) :=
  finishClose_InvF (InvF.of_fcore (fcore_setEvent _) (i.emit2 rfl)) t

theorem afterStop_InvF {a : ACfg} {s : St} (i : InvF a s) (t : Sess.Tid) : InvF a (afterStop a s t) := by
  unfold afterStop
  have i1 : InvF a { s with appClosed := true } := by fr i
  simp only
  split
  · exact finishClose_InvF (InvF.of_fcore (fcore_setEvent _) i1) t
  · have i2 : InvF a (({ s with appClosed := true } : St).emit2 .cbEnter) := i1.emit2 rfl
    split
    · fr i2
    · exact endCb_InvF (i2.emit2 rfl) t
    · exact endCb_InvF i2 t

theorem stopV2_InvF {a : ACfg} {s : St} (i : InvF a s) (t : Sess.Tid) : InvF a (stopV2 a s t) := by
  unfold stopV2
  split
  · exact InvF.of_fcore (s := s.cancel2 .V2) rfl (InvF.of_fcore (fcore_cancel2 _ _) i)
  · exact afterStop_InvF i t

theorem stopD2_InvF {a : ACfg} {s : St} (i : InvF a s) (t : Sess.Tid) : InvF a (stopD2 a s t) := by
  unfold stopD2
  split
  · exact InvF.of_fcore (s := s.cancel2 .D2) rfl (InvF.of_fcore (fcore_cancel2 _ _) i)
  · exact stopV2_InvF (by fr i) t

theorem onSoupClose_InvF {a : ACfg} {s : St} (i : InvF a s) (t : Sess.Tid) : InvF a (onSoupClose a s t) := by
  unfold onSoupClose
  split
  · exact finishClose_InvF i t
  · have key : ∀ s1 : St, InvF a s1 →
        InvF a (if s1.q2Closed = true then afterStop a s1 t else stopD2 a { s1 with q2Closed := true } t) := by
      intro s1 i1
      split
      · exact afterStop_InvF i1 t
      · exact stopD2_InvF (by fr i1) t
    apply key
    split
    · fr i
    · exact i

theorem resumeSoupClose_InvF {a : ACfg} {s : St} (i : InvF a s) (t : Sess.Tid) : InvF a (resumeSoupClose a s t) := by
  unfold resumeSoupClose
  split
  · exact stopV2_InvF (by fr i) t
  · exact afterStop_InvF i t
  · split
    · exact innerStep_InvF (s := { s with cpc := .aborted }) (by fr i) _
    · split
      · exact endCb_InvF i t
      · fr i
  · exact i

theorem construct_InvF {a : ACfg} {s : St} (i : InvF a s) : InvF a (construct a s) := by
  unfold construct
  split
  · simp only
    split
    · fr i
    · fr i
  · exact i

theorem passInner_InvF {a : ACfg} {s : St} (i : InvF a s) (e : Sess.Ev) : InvF a (passInner a s e) := by
  unfold passInner
  simp only
  have h1 : InvF a (construct a (innerStep a s e)) := construct_InvF (innerStep_InvF i e)
  split
  · exact onSoupClose_InvF h1 _
  · exact h1

theorem stepInner_InvF {a : ACfg} {s : St} (i : InvF a s) (e : Sess.Ev) : InvF a (stepInner a s e) := by
  unfold stepInner
  split
  · split
    · split
      · exact resumeSoupClose_InvF i _
      · exact i
    · exact passInner_InvF i _
  · split
    · exact InvF.of_fcore (fcore_cancel2 _ _) i
    · split
      · exact InvF.of_fcore (fcore_cancel2 _ _) i
      · exact passInner_InvF i _
  · exact passInner_InvF i _

theorem startClose_InvF {a : ACfg} {s : St} (i : InvF a s) (t : ATid) (p : AProg) : InvF a (startClose a s t p) := by
  unfold startClose
  have h1 : InvF a (innerStep a { s with evt := some false } .callInitiateClose) :=
    innerStep_InvF (s := { s with evt := some false }) (by fr i) _
  fr h1

theorem closeOnD2_InvF {a : ACfg} {s : St} (i : InvF a s) (p : AProg) : InvF a (closeOnD2 a s p) := by
  unfold closeOnD2
  have i1 : InvF a ((({ s with evt := some false } : St).setA .D2 .inSoup).setP .D2 p) := by fr i
  simp only
  split
  · exact d2Return_InvF i1
  · exact passInner_InvF i1 _

/-! ### `gone2` is touched by nothing in the close sequence -/

@[simp] theorem gone2_setEvent (s : St) : s.setEvent.gone2 = s.gone2 := by unfold St.setEvent; split <;> rfl
@[simp] theorem gone2_cancel2 (s : St) (t : ATid) : (s.cancel2 t).gone2 = s.gone2 := by
  unfold St.cancel2; split <;> try rfl
  split <;> rfl

theorem d2Return_gone2 (s : St) : (d2Return s).gone2 = s.gone2 := by
  unfold d2Return
  split
  · split
    · split <;> rfl
    · rfl
    · rfl
  · rfl

theorem finishClose_gone2 (a : ACfg) (s : St) (t : Sess.Tid) : (finishClose a s t).gone2 = s.gone2 := by
  unfold finishClose
  rw [d2Return_gone2, (innerStep_fields a _ _).1]

theorem endCb_gone2 (a : ACfg) (s : St) (t : Sess.Tid) : (endCb a s t).gone2 = s.gone2 := by
  unfold endCb
  rw [finishClose_gone2, gone2_setEvent]; rfl

theorem afterStop_gone2 (a : ACfg) (s : St) (t : Sess.Tid) : (afterStop a s t).gone2 = s.gone2 := by
  unfold afterStop
  simp only
  split
  · rw [finishClose_gone2, gone2_setEvent]
  · split
    · rfl
    · rw [endCb_gone2]; rfl
    · rw [endCb_gone2]; rfl

theorem stopV2_gone2 (a : ACfg) (s : St) (t : Sess.Tid) : (stopV2 a s t).gone2 = s.gone2 := by
  unfold stopV2
  split
  · show (s.cancel2 .V2).gone2 = s.gone2
    simp
  · exact afterStop_gone2 a s t

theorem stopD2_gone2 (a : ACfg) (s : St) (t : Sess.Tid) : (stopD2 a s t).gone2 = s.gone2 := by
  unfold stopD2
  split
  · show (s.cancel2 .D2).gone2 = s.gone2
    simp
  · rw [stopV2_gone2]

theorem onSoupClose_gone2 (a : ACfg) (s : St) (t : Sess.Tid) : (onSoupClose a s t).gone2 = s.gone2 := by
  unfold onSoupClose
  split
  · exact finishClose_gone2 a s t
  · have key : ∀ s1 : St, s1.gone2 = s.gone2 →
        (if s1.q2Closed = true then afterStop a s1 t else stopD2 a { s1 with q2Closed := true } t).gone2 = s.gone2 := by
      intro s1 h1
      split
      · rw [afterStop_gone2, h1]
      · rw [stopD2_gone2]; exact h1
    exact key _ (by split <;> rfl)

theorem construct_gone2 (a : ACfg) (s : St) : (construct a s).gone2 = s.gone2 := by
  unfold construct
  split
  · simp only; split <;> rfl
  · rfl

theorem passInner_gone2 (a : ACfg) (s : St) (e : Sess.Ev) : (passInner a s e).gone2 = s.gone2 := by
  unfold passInner
  simp only
  split
  · rw [onSoupClose_gone2, construct_gone2, (innerStep_fields a _ _).1]
  · rw [construct_gone2, (innerStep_fields a _ _).1]

theorem closeOnD2_gone2 (a : ACfg) (s : St) (p : AProg) : (closeOnD2 a s p).gone2 = s.gone2 := by
  unfold closeOnD2
  simp only
  split
  · rw [d2Return_gone2]; rfl
  · rw [passInner_gone2]; rfl

/-! ### the steps that move values -/

theorem taken2_append_true (g : List (Nat × Bool)) (v : Nat) :
    ((g ++ [(v, true)]).filter (·.2)).map (·.1) = (g.filter (·.2)).map (·.1) ++ [v] := by
  simp [List.filter_append]

theorem lost2_append_true {s : St} (h : s.lost2 = []) (v : Nat) :
    ((s.gone2 ++ [(v, true)]).filter (fun p => !p.2)).map (·.1) = [] := by
  have : ((s.gone2 ++ [(v, true)]).filter (fun p => !p.2)).map (·.1) = (s.gone2.filter (fun p => !p.2)).map (·.1) := by
    simp [List.filter_append]
  rw [this]; exact h

theorem taken2_append_false (g : List (Nat × Bool)) (l : List Nat) :
    ((g ++ l.map (fun v => (v, false))).filter (·.2)).map (·.1) = (g.filter (·.2)).map (·.1) := by
  simp [List.filter_append, List.filter_map]

/-- a value leaves the queue head and is handed over with the observable `o` -/
theorem InvF.deliver_head {a : ACfg} {s : St} (i : InvF a s) {v : Nat} {q : List Nat} {o : AObs}
    (hq : s.q2 = v :: q) (hv : s.vres2 = none) (ho : deliveredA o = some v) :
    InvF a (({ s with q2 := q, gone2 := s.gone2 ++ [(v, true)] } : St).emit2 o) := by
  refine ⟨i.fed_eq, ?_, ?_, lost2_append_true i.lost v⟩
  · show (s.gone2 ++ [(v, true)]).map (·.1) ++ s.vres2.toList ++ q = s.fed
    rw [← i.flow, hq, hv]; simp
  · rw [trace2_emit2]
    show appDelivered (s.trace2 ++ [o]) = ((s.gone2 ++ [(v, true)]).filter (·.2)).map (·.1)
    rw [taken2_append_true]
    simp only [appDelivered, List.filterMap_append, List.filterMap_cons, ho, List.filterMap_nil]
    have := i.deliv
    simp only [appDelivered, St.taken2] at this
    rw [this]

/-- a cancelled receive puts whatever the helper task held back in front of the queue -/
theorem InvF.unhold {a : ACfg} {s : St} (i : InvF a s) :
    InvF a { s with vres2 := none, rcv2Busy := false, q2 := s.vres2.toList ++ s.q2 } := by
  refine ⟨i.fed_eq, ?_, i.deliv, i.lost⟩
  show s.gone2.map (·.1) ++ [] ++ (s.vres2.toList ++ s.q2) = s.fed
  rw [← i.flow]
  simp

/-- entering the message callback moves nothing else off the second queue (a callback that closes the session from inside runs the
    close of the soup session in this very step: for it only `gone2` is stated here) -/
theorem dispHandle2_q2_gone2 (a : ACfg) (s : St) (v : Nat) :
    (a.msgBeh v ≠ .close → (dispHandle2 a s v).q2 = s.q2) ∧ (dispHandle2 a s v).gone2 = s.gone2 := by
  unfold dispHandle2
  split
  · exact ⟨fun _ => rfl, rfl⟩
  · exact ⟨fun _ => rfl, rfl⟩
  · exact ⟨fun _ => rfl, rfl⟩
  · rename_i hb
    split
    · exact ⟨fun _ => rfl, rfl⟩
    · exact ⟨fun h => absurd hb h, closeOnD2_gone2 a s _⟩
  · exact ⟨fun _ => rfl, rfl⟩
  · exact ⟨fun _ => rfl, rfl⟩

theorem dispHandle2_InvF {a : ACfg} {s : St} (i : InvF a s) (v : Nat) : InvF a (dispHandle2 a s v) := by
  unfold dispHandle2
  split
  · exact InvF.of_fcore (s := s.emit2 (.msgExit v)) rfl (i.emit2 rfl)
  · fr i
  · exact InvF.of_fcore (s := s.emit2 (.msgRaise v)) rfl (i.emit2 rfl)
  · split
    · exact InvF.of_fcore (s := (s.emit2 (.closeRet (.handler v) .ok)).emit2 (.msgExit v)) rfl ((i.emit2 rfl).emit2 rfl)
    · exact closeOnD2_InvF i _
  · fr i
  · fr i

theorem handlerDone_InvF {a : ACfg} {s : St} (i : InvF a s) (t : ATid) (v : Nat) : InvF a (handlerDone a s t v) := by
  unfold handlerDone
  split
  · split
    · exact InvF.of_fcore (s := (s.emit2 (.closeRet (.handler v) .ok)).emit2 (.msgExit v)) rfl ((i.emit2 rfl).emit2 rfl)
    · exact closeOnD2_InvF i _
  · exact InvF.of_fcore (s := s.emit2 (.msgExit v)) rfl (i.emit2 rfl)

theorem stepDisp2_InvF {a : ACfg} {s : St} (i : InvF a s) : InvF a (stepDisp2 a s) := by
  unfold stepDisp2
  split
  · fr i
  · rename_i hq
    split
    · exact i
    · rename_i hb
      have hv : s.vres2 = none := by
        cases h : s.vres2 with
        | none => rfl
        | some x => simp [h] at hb
      split
      · fr i
      · rename_i v q hqu
        exact dispHandle2_InvF (i.deliver_head hqu hv rfl) v

theorem stepRun2_InvF {a : ACfg} {s : St} (i : InvF a s) (t : ATid) : InvF a (stepRun2 a s t) := by
  unfold stepRun2
  have i0 : InvF a { s with imm2 := false } := by fr i
  generalize ({ s with imm2 := false } : St) = s0 at i0
  simp only
  split
  · -- cancelled
    split
    · exact InvF.of_fcore (fcore_finish2 _ _) (i0.emit2 rfl)
    · split
      · exact InvF.of_fcore (fcore_finish2 _ _) ((i0.emit2 rfl).emit2 rfl)
      · exact closeOnD2_InvF i0 _
    · -- a cancelled receive: whatever the helper held goes back in front of the queue
      have i1 := i0.unhold
      split
      · exact InvF.of_fcore (fcore_finish2 _ _) (i1.emit2 rfl)
      · exact InvF.of_fcore (fcore_finish2 _ _) (i1.emit2 rfl)
    · exact InvF.of_fcore (fcore_finish2 _ _) (i0.emit2 rfl)
    · fr i0
  · -- ready
    split
    · split
      · exact stepDisp2_InvF i0
      · exact i0
    · split
      · exact handlerDone_InvF i0 _ _
      · fr i0
    · split
      · exact InvF.of_fcore (s := s0.emit2 (.msgExit _)) rfl (i0.emit2 rfl)
      · fr i0
    · -- the helper takes the head of the queue
      split
      · fr i0
      · rename_i v q hqu
        split
        · exact i0
        · rename_i hv
          have hv' : s0.vres2 = none := by
            cases h : s0.vres2 with
            | none => rfl
            | some x => simp [h] at hv
          refine InvF.of_fcore (fcore_finish2 _ _) ⟨i0.fed_eq, ?_, i0.deliv, i0.lost⟩
          show s0.gone2.map (·.1) ++ [v] ++ q = s0.fed
          rw [← i0.flow, hqu, hv']; simp
    · -- the caller resumes
      rename_i u _
      split
      · rename_i v hv
        refine InvF.of_fcore (fcore_finish2 _ _) ⟨i0.fed_eq, ?_, ?_, lost2_append_true i0.lost v⟩
        · show (s0.gone2 ++ [(v, true)]).map (·.1) ++ [] ++ s0.q2 = s0.fed
          rw [← i0.flow, hv]; simp
        · rw [trace2_emit2]
          show appDelivered (s0.trace2 ++ [.ret u (.msg v)]) = ((s0.gone2 ++ [(v, true)]).filter (·.2)).map (·.1)
          rw [taken2_append_true]
          simp only [appDelivered, List.filterMap_append, List.filterMap_cons, deliveredA, List.filterMap_nil]
          have := i0.deliv
          simp only [appDelivered, St.taken2] at this
          rw [this]
      · split
        · exact InvF.of_fcore (fcore_finish2 _ _) (InvF.emit2 (s := { s0 with rcv2Busy := false }) rfl (by fr i0))
        · exact InvF.of_fcore (fcore_finish2 _ _) (InvF.emit2 (s := { s0 with rcv2Busy := false }) rfl (by fr i0))
    · exact InvF.of_fcore (fcore_finish2 _ _) (i0.emit2 rfl)
    · exact i0
  · exact i0

theorem startRecv2_InvF {a : ACfg} {s : St} (i : InvF a s) (u : Nat) : InvF a (startRecv2 s u) := by
  unfold startRecv2
  split
  · exact i
  · rename_i hb
    have hv : s.vres2 = none := by
      cases h : s.vres2 with
      | none => rfl
      | some x => simp [h] at hb
    split
    · exact InvF.of_fcore (fcore_setA _ _ _) (i.emit2 rfl)
    · split
      · rename_i v q hqu
        exact InvF.of_fcore (fcore_setA _ _ _) (i.deliver_head hqu hv rfl)
      · split
        · exact InvF.of_fcore (fcore_setA _ _ _) (i.emit2 rfl)
        · fr i

theorem step_InvF {a : ACfg} {s : St} (i : InvF a s) (ev : Ev) : InvF a (step a s ev) := by
  cases ev with
  | inner e =>
    simp only [step]
    split
    · exact i
    · exact stepInner_InvF i e
  | run t =>
    simp only [step]
    split
    · exact stepRun2_InvF i t
    · split
      · exact stepInner_InvF (s := { s with imm2 := false }) (by fr i) _
      · exact i
  | appClose u =>
    simp only [step]
    split
    · exact i
    · split
      · exact InvF.of_fcore (fcore_setA _ _ _) (i.emit2 rfl)
      · exact startClose_InvF i _ _
  | appRecv u =>
    simp only [step]
    split
    · exact i
    · exact startRecv2_InvF i u
  | appCancel u => exact InvF.of_fcore (fcore_cancel2 _ _) i

theorem InvF.init (a : ACfg) : InvF a {} := ⟨rfl, rfl, rfl, rfl⟩

/-- **The flow invariant holds in every reachable state.** -/
theorem runEvs_InvF (a : ACfg) (evs : List Ev) : InvF a (runEvs a {} evs) := by
  have : ∀ (s : St), InvF a s → InvF a (runEvs a s evs) := by
    induction evs with
    | nil => intro s i; exact i
    | cons ev evs ih => intro s i; exact ih _ (step_InvF i ev)
  exact this _ (InvF.init a)

end NasdaqModel.App
