import NasdaqModel.Lemmas.RefineRun
/-
Byte-level "never open and deaf" (C07): from every reachable state of a byte-level history, `len(buffer)` further polls of the
reader task leave the session closed, or open with every complete frame consumed (byte buffer settled, token buffer empty,
every carried message handed on) and the reader task alive in its loop.
-/
namespace NasdaqModel.Refine
open NasdaqModel Py
open NasdaqModel.Framing (Proto R Consuming Settled)
open NasdaqModel.Sess (St Cfg Frame Tid msgsOf rcore atLoop)

variable {μ : Type}

/-- `n` polls of the reader task, nothing else happening -/
def pollsN (n : Nat) : List BEv := List.replicate n (.ev (.run .R))

theorem bytesOf_pollsN (n : Nat) : bytesOf (pollsN n) = [] := by
  induction n with
  | zero => rfl
  | succ n ih => simpa [pollsN, List.replicate_succ, bytesOf] using ih

theorem bfold_closed (P : Proto μ) (num : μ → Nat) (cfg : Cfg) (evs : List BEv) (b : BSt μ) (h : b.s.closed = true) :
    (bfold P num cfg b evs).s.closed = true := by
  rw [bfold_s]; exact Sess.runEvs_closed_mono cfg _ _ h

/-- an open, connected session whose byte-level reader is settled: everything complete has been consumed -/
theorem PInv.open_settled {P : Proto μ} {num : μ → Nat} {st : Bytes → Bool} {b : BSt μ} (h : PInv P num st b)
    (hr : Sess.InvR b.s) (hopen : b.s.closed = false) (hconn : b.s.status .R ≠ .absent) (hset : Settled P b.r) :
    b.r.stopped = false ∧ b.s.buf = [] ∧ atLoop b.s ∧ b.s.rStopped = false ∧
      b.r.out = carried P b.all ∧ b.s.recvd = (carried P b.all).map num := by
  obtain ⟨hrs, hR, _⟩ := hr hopen
  have hl : atLoop b.s := by
    rcases hR with h0 | h0
    · exact absurd h0 hconn
    · exact h0
  have hst : b.r.stopped = false := by
    cases hst : b.r.stopped with
    | false => rfl
    | true => have := (h.rel.dead hst).2; rw [hopen] at this; cases this
  have htoks : (tokens P b.r.buf).toks = [] := by
    rcases hset with h0 | h0 | h0
    · rw [hst] at h0; cases h0
    · rw [h0]; rfl
    · rw [tokens_none P h0]
  obtain ⟨pre, _, p2, p3, _⟩ := h.pre
  have hout : b.r.out = carried P b.all := by
    unfold carried
    rw [p3 hst, Toks.msgs_prepend, p2, Toks.msgs, htoks]; simp [tokMsgs]
  refine ⟨hst, ?_, hl, hrs, hout, ?_⟩
  · rw [h.rel.live hst, Toks.frames, htoks]; rfl
  · rw [h.rel.out, hout]

theorem polls_settle {P : Proto μ} {st : Bytes → Bool} (F : Framer P st) (num : μ → Nat) (cfg : Cfg) :
    ∀ (n : Nat) (b : BSt μ), PInv P num st b → Sess.InvA cfg b.s → Sess.InvR b.s → b.s.status .R ≠ .absent →
      stable P st b.all = true → (Settled P b.r ∨ b.r.buf.length ≤ n) →
      (bfold P num cfg b (pollsN n)).s.closed = true ∨
      ((bfold P num cfg b (pollsN n)).s.closed = false ∧ (bfold P num cfg b (pollsN n)).s.status .R ≠ .absent ∧
        Settled P (bfold P num cfg b (pollsN n)).r ∧ PInv P num st (bfold P num cfg b (pollsN n)) ∧
        Sess.InvR (bfold P num cfg b (pollsN n)).s) := by
  intro n
  induction n with
  | zero =>
    intro b h _ hr hconn _ hn
    have hset : Settled P b.r := by
      rcases hn with h0 | h0
      · exact h0
      · exact Or.inr (Or.inl (List.eq_nil_of_length_eq_zero (Nat.le_zero.mp h0)))
    cases hc : b.s.closed with
    | true => exact Or.inl hc
    | false => exact Or.inr ⟨hc, hconn, hset, h, hr⟩
  | succ n ih =>
    intro b h ha hr hconn hs hn
    have e0 : bfold P num cfg b (pollsN (n + 1)) = bfold P num cfg (bstep P num cfg b (.ev (.run .R))) (pollsN n) := rfl
    rw [e0]
    cases hc : b.s.closed with
    | true =>
      left
      exact bfold_closed P num cfg _ _ (by rw [bstep_run_R]; exact Sess.step_closed_mono cfg _ _ hc)
    | false =>
      obtain ⟨hrs, hR, _⟩ := hr hc
      have hl : atLoop b.s := by
        rcases hR with h0 | h0
        · exact absurd h0 hconn
        · exact h0
      have hp : polls b.s = true := (polls_iff _).2 ⟨hl, hrs⟩
      have h1 : PInv P num st (bstep P num cfg b (.ev (.run .R))) :=
        h.step F num cfg _ (by rw [bstep_ev_all]; exact hs)
      have e1 : bstep P num cfg b (.ev (.run .R)) = ⟨Framing.step P b.r .tick, Sess.step cfg b.s (.run .R), b.all⟩ := by
        rw [bstep_run_R, hp]; rfl
      rw [e1] at h1 ⊢
      cases hc1 : (Sess.step cfg b.s (.run .R)).closed with
      | true => left; exact bfold_closed P num cfg _ _ hc1
      | false =>
        have hl1 : atLoop (Sess.step cfg b.s (.run .R)) := by
          rcases Sess.poll_status cfg b.s hl hrs with h0 | h0
          · rw [hc1] at h0; cases h0
          · exact h0
        have hn1 : Settled P (Framing.step P b.r .tick) ∨ (Framing.step P b.r .tick).buf.length ≤ n := by
          by_cases hset : Settled P b.r
          · left; rw [Framing.step_tick_settled P hset]; exact hset
          · rcases Framing.step_tick_progress P F.consuming hset with h0 | h0
            · exact Or.inl (Or.inl h0)
            · right
              rcases hn with h2 | h2
              · exact absurd h2 hset
              · omega
        exact ih _ h1 (Sess.step_InvA ha (.run .R)) (Sess.step_InvR ha hr (.run .R))
          (by show (Sess.step cfg b.s (.run .R)).status .R ≠ .absent; rw [hl1.1]; simp) hs hn1

/-- **byte-level never-deaf**: after any byte-level history (stable stream) of a connected session, `len(buffer)` polls of the
    reader task end with the session closed, or open with the reader alive and everything complete consumed -/
theorem never_deaf {P : Proto μ} {st : Bytes → Bool} (F : Framer P st) (num : μ → Nat) (cfg : Cfg) (evs : List BEv)
    (hs : stable P st (bytesOf evs) = true) (hconn : (brun P num cfg evs).s.status .R ≠ .absent) (n : Nat)
    (hn : (brun P num cfg evs).r.buf.length ≤ n) :
    (bfold P num cfg (brun P num cfg evs) (pollsN n)).s.closed = true ∨
    ((bfold P num cfg (brun P num cfg evs) (pollsN n)).s.closed = false ∧
      Settled P (bfold P num cfg (brun P num cfg evs) (pollsN n)).r ∧
      (bfold P num cfg (brun P num cfg evs) (pollsN n)).r.stopped = false ∧
      (bfold P num cfg (brun P num cfg evs) (pollsN n)).s.buf = [] ∧
      atLoop (bfold P num cfg (brun P num cfg evs) (pollsN n)).s ∧
      (bfold P num cfg (brun P num cfg evs) (pollsN n)).s.rStopped = false ∧
      (bfold P num cfg (brun P num cfg evs) (pollsN n)).r.out = carried P (bytesOf evs) ∧
      (bfold P num cfg (brun P num cfg evs) (pollsN n)).s.recvd = (carried P (bytesOf evs)).map num) := by
  have hp := brun_pinv F num cfg evs hs
  have hall := brun_all P num cfg evs
  have ha : Sess.InvA cfg (brun P num cfg evs).s := by rw [brun_s]; exact Sess.runEvs_InvA cfg _
  have hr : Sess.InvR (brun P num cfg evs).s := by rw [brun_s]; exact Sess.runEvs_InvR cfg _
  rcases polls_settle F num cfg n _ hp ha hr hconn (by rw [hall]; exact hs) (Or.inr hn) with h | ⟨h1, h2, h3, h4, h5⟩
  · exact Or.inl h
  · right
    obtain ⟨a1, a2, a3, a4, a5, a6⟩ := h4.open_settled h5 h1 h2 h3
    have hall' : (bfold P num cfg (brun P num cfg evs) (pollsN n)).all = bytesOf evs := by
      rw [bfold_all, bytesOf_pollsN, hall]; simp
    rw [hall'] at a5 a6
    exact ⟨h1, h3, a1, a2, a3, a4, a5, a6⟩

/-- in every reachable state: a byte-level reader that has stopped (logout consumed / `deserialize()` raised) has its session
    flagged closed — never open behind an unparsable frame -/
theorem stopped_closed {P : Proto μ} {st : Bytes → Bool} (F : Framer P st) (num : μ → Nat) (cfg : Cfg) (evs : List BEv)
    (hs : stable P st (bytesOf evs) = true) (h : (brun P num cfg evs).r.stopped = true) :
    (brun P num cfg evs).s.closed = true :=
  ((brun_pinv F num cfg evs hs).rel.dead h).2

end NasdaqModel.Refine
