import NasdaqModel.Lemmas.LoginTraceW
/-
Login at trace level (C11), part 2: global facts that tie the observable trace to the state, for every reachable state.

  msgd / quiet   a message callback was entered only with dispatching switched on; while a receive is pending on an open session
                 no message callback has been entered yet (so none precedes the consumption of a login reply that is accepted)
  lw / reply     a pending `login()` has written its request: every `loginReply` is preceded by `write login`
  dset           dispatching is on only if a message callback is configured and either the session dispatches on connect or a
                 login was accepted before
  fresh / fw     client configuration: the first write of a session is the login request, unless the user itself sent data or
                 logged out earlier
-/
namespace NasdaqModel.Sess

/-- an acceptance was consumed by a login that returned the session -/
def AcceptedIn (tr : List Obs) : Prop := ∃ a b u, tr = a ++ Obs.loginReply 0 :: Obs.ret u .ok :: b

theorem AcceptedIn.append {tr : List Obs} (h : AcceptedIn tr) (l : List Obs) : AcceptedIn (tr ++ l) := by
  obtain ⟨a, b, u, e⟩ := h
  exact ⟨a, b ++ l, u, by rw [e]; simp⟩

/-- observables the global trace invariants do not speak about -/
def boring (o : Obs) : Prop := (∀ n, o ≠ .msgEnter n) ∧ (∀ n, o ≠ .loginReply n) ∧ (∀ k, o ≠ .write k)

theorem closeObs_boring {c : Cont} {o : Obs} (h : closeObs c o) : boring o := by
  rcases h with h | h | h | ⟨n, _, h⟩ | ⟨u, r, _, h⟩ <;> subst h <;> exact ⟨by simp, by simp, by simp⟩

theorem mem_append_msgEnter {tr l : List Obs} (hl : ∀ o ∈ l, boring o) {n : Nat} (h : Obs.msgEnter n ∈ tr ++ l) :
    Obs.msgEnter n ∈ tr := by
  rcases List.mem_append.mp h with h | h
  · exact h
  · exact absurd rfl ((hl _ h).1 n)

theorem mem_append_write {tr l : List Obs} (hl : ∀ o ∈ l, boring o) {k : WKind} (h : Obs.write k ∈ tr ++ l) :
    Obs.write k ∈ tr := by
  rcases List.mem_append.mp h with h | h
  · exact h
  · exact absurd rfl ((hl _ h).2.2 k)

def PReply (l : List Obs) (y : Obs) : Prop := ∀ n, y = .loginReply n → Obs.write .login ∈ l

def PFirstW (l : List Obs) (y : Obs) : Prop :=
  ∀ k, y = .write k → (∀ k', Obs.write k' ∉ l) → k = .login ∨ k = .data ∨ k = .logout

structure InvT (cfg : Cfg) (sd lo : Prop) (s : St) : Prop where
  msgd : (∃ n, Obs.msgEnter n ∈ s.trace) → s.dispSet = true ∨ s.closed = true
  quiet : s.rcvBusy = true → s.closed = false → ∀ n, Obs.msgEnter n ∉ s.trace
  lw : ∀ a, alive (s.status (.U a)) = true → s.prog (.U a) = .loginWait a → Obs.write .login ∈ s.trace
  reply : Before PReply s.trace
  dset : s.dispSet = true → cfg.hasMsgCb = true ∧ (cfg.dispatchOnConnect = true ∨ AcceptedIn s.trace)
  fresh : cfg.dispatchOnConnect = false → (∀ k, Obs.write k ∉ s.trace) → s.status .L = .absent ∧ s.status .D = .absent
  fw : cfg.dispatchOnConnect = false → Before PFirstW s.trace
  sent : Obs.write .data ∈ s.trace → sd
  logged : Obs.write .logout ∈ s.trace → lo

/-- extension of the trace by boring observables, with a state change that keeps what the invariant reads -/
theorem InvT.ext {cfg : Cfg} {sd lo : Prop} {s s' : St} (i : InvT cfg sd lo s) (l : List Obs)
    (htr : s'.trace = s.trace ++ l) (hl : ∀ o ∈ l, boring o)
    (h1 : s'.closed = true ∨ (s'.dispSet = s.dispSet ∧ s'.closed = s.closed))
    (h2 : s'.rcvBusy = true → s'.closed = false → (s.rcvBusy = true ∧ s.closed = false) ∨ ∀ n, Obs.msgEnter n ∉ s.trace)
    (h3 : ∀ a, alive (s'.status (.U a)) = true → s'.prog (.U a) = .loginWait a →
      (alive (s.status (.U a)) = true ∧ s.prog (.U a) = .loginWait a) ∨ Obs.write .login ∈ s.trace)
    (h5 : s'.dispSet = true → s.dispSet = true)
    (h6 : (∃ k, Obs.write k ∈ s.trace) ∨
      ((s.status .L = .absent → s'.status .L = .absent) ∧ (s.status .D = .absent → s'.status .D = .absent))) :
    InvT cfg sd lo s' := by
  refine ⟨?_, ?_, ?_, ?_, ?_, ?_, ?_, ?_, ?_⟩
  · rintro ⟨n, hn⟩
    rw [htr] at hn
    have := i.msgd ⟨n, mem_append_msgEnter hl hn⟩
    rcases h1 with h | ⟨hd, hc⟩
    · exact Or.inr h
    · rw [hd, hc]; exact this
  · intro hb hc n hn
    rw [htr] at hn
    have hn' := mem_append_msgEnter hl hn
    rcases h2 hb hc with ⟨a, b⟩ | h
    · exact i.quiet a b n hn'
    · exact h n hn'
  · intro a ha hp
    rw [htr]
    rcases h3 a ha hp with ⟨a1, a2⟩ | h
    · exact List.mem_append_left _ (i.lw a a1 a2)
    · exact List.mem_append_left _ h
  · rw [htr]
    exact before_append i.reply (fun o ho l' n e => absurd e ((hl o ho).2.1 n))
  · intro hd
    obtain ⟨a, b⟩ := i.dset (h5 hd)
    refine ⟨a, ?_⟩
    rcases b with b | b
    · exact Or.inl b
    · rw [htr]; exact Or.inr (b.append l)
  · intro hdc hw
    have hw' : ∀ k, Obs.write k ∉ s.trace := by
      intro k hk; exact hw k (by rw [htr]; exact List.mem_append_left _ hk)
    obtain ⟨a, b⟩ := i.fresh hdc hw'
    rcases h6 with ⟨k, hk⟩ | ⟨h6a, h6b⟩
    · exact absurd hk (hw' k)
    · exact ⟨h6a a, h6b b⟩
  · intro hdc
    rw [htr]
    exact before_append (i.fw hdc) (fun o ho l' k e => absurd e ((hl o ho).2.2 k))
  · intro h; rw [htr] at h; exact i.sent (mem_append_write hl h)
  · intro h; rw [htr] at h; exact i.logged (mem_append_write hl h)

/-- what `InvT` reads -/
def tv (s : St) :=
  (s.trace, s.dispSet, s.closed, s.rcvBusy, (fun a => s.status (.U a)), (fun a => s.prog (.U a)), s.status .L, s.status .D)

theorem InvT.of_tv_ext {cfg : Cfg} {sd lo : Prop} {s s' : St} (l : List Obs)
    (h : tv s' = (s.trace ++ l, s.dispSet, s.closed, s.rcvBusy, (fun a => s.status (.U a)), (fun a => s.prog (.U a)), s.status .L,
      s.status .D)) (hl : ∀ o ∈ l, boring o) (i : InvT cfg sd lo s) : InvT cfg sd lo s' := by
  simp only [tv, Prod.mk.injEq] at h
  obtain ⟨h1, h2, h3, h4, h5, h6, h7, h8⟩ := h
  have e1 : ∀ a, s'.status (.U a) = s.status (.U a) := fun a => congrFun h5 a
  have e2 : ∀ a, s'.prog (.U a) = s.prog (.U a) := fun a => congrFun h6 a
  refine i.ext l h1 hl (Or.inr ⟨h2, h3⟩) ?_ ?_ (by rw [h2]; exact id) (Or.inr ⟨by rw [h7]; exact id, by rw [h8]; exact id⟩)
  · intro a b; rw [h4] at a; rw [h3] at b; exact Or.inl ⟨a, b⟩
  · intro a ha hp; rw [e1] at ha; rw [e2] at hp; exact Or.inl ⟨ha, hp⟩

theorem boring_nil : ∀ o ∈ ([] : List Obs), boring o := by intro o h; simp at h

theorem boring_one {o : Obs} (h : boring o) : ∀ o' ∈ [o], boring o' := by
  intro o' h'; simp at h'; subst h'; exact h

/-- `it i`: the goal `InvT … s'` follows from `i : InvT … s` because `s'` differs from `s` outside what `InvT` reads, possibly
    after one boring observable was emitted -/
macro "it" i:ident : tactic => `(tactic| first
  | exact $i
  | (refine InvT.of_tv_ext [] ?_ boring_nil $i; simp only [List.append_nil]; rfl)
  | (refine InvT.of_tv_ext [?o] ?h ?hb $i; (case h => rfl); (case hb => exact boring_one ⟨by simp, by simp, by simp⟩))
  | (refine InvT.of_tv_ext [] ?_ boring_nil $i
     simp [tv, St.setStatus, St.setProg, St.spawn, St.emit]; done))

/-! ### emissions the invariant speaks about -/

theorem mem_snoc {α} {x o : α} {tr : List α} : x ∈ tr ++ [o] ↔ x ∈ tr ∨ x = o := by simp

/-- the dispatcher takes a message: a message callback is entered -/
theorem InvT.emit_msgEnter {cfg : Cfg} {sd lo : Prop} {s s' : St} (i : InvT cfg sd lo s) (n : Nat)
    (h : tv s' = (s.trace ++ [.msgEnter n], s.dispSet, s.closed, s.rcvBusy, (fun a => s.status (.U a)), (fun a => s.prog (.U a)),
      s.status .L, s.status .D))
    (hb : s.rcvBusy = false) (hd : s.dispSet = true ∨ s.closed = true) : InvT cfg sd lo s' := by
  simp only [tv, Prod.mk.injEq] at h
  obtain ⟨h1, h2, h3, h4, h5, h6, h7, h8⟩ := h
  have e1 : ∀ a, s'.status (.U a) = s.status (.U a) := fun a => congrFun h5 a
  have e2 : ∀ a, s'.prog (.U a) = s.prog (.U a) := fun a => congrFun h6 a
  refine ⟨?_, ?_, ?_, ?_, ?_, ?_, ?_, ?_, ?_⟩
  · intro _; rw [h2, h3]; exact hd
  · intro hb'; rw [h4, hb] at hb'; simp at hb'
  · intro a ha hp; rw [e1] at ha; rw [e2] at hp; rw [h1]; exact List.mem_append_left _ (i.lw a ha hp)
  · rw [h1]; exact before_snoc.mpr ⟨i.reply, by intro m e; simp at e⟩
  · rw [h2, h1]; intro hd'
    obtain ⟨a, b⟩ := i.dset hd'
    exact ⟨a, b.imp id (fun b => b.append _)⟩
  · intro hdc hw
    rw [h7, h8]
    exact i.fresh hdc (fun k hk => hw k (by rw [h1]; exact List.mem_append_left _ hk))
  · intro hdc; rw [h1]; exact before_snoc.mpr ⟨i.fw hdc, by intro k e; simp at e⟩
  · rw [h1]; intro h; exact i.sent (by simpa using h)
  · rw [h1]; intro h; exact i.logged (by simpa using h)

/-- something is written to the transport -/
theorem InvT.emit_write {cfg : Cfg} {sd lo : Prop} {s s' : St} (i : InvT cfg sd lo s) (k : WKind)
    (h : tv s' = (s.trace ++ [.write k], s.dispSet, s.closed, s.rcvBusy, (fun a => s.status (.U a)), (fun a => s.prog (.U a)),
      s.status .L, s.status .D))
    (hk : cfg.dispatchOnConnect = false → (k = .login ∨ k = .data ∨ k = .logout) ∨ ∃ k', Obs.write k' ∈ s.trace)
    (hsd : k = .data → sd) (hlo : k = .logout → lo) : InvT cfg sd lo s' := by
  simp only [tv, Prod.mk.injEq] at h
  obtain ⟨h1, h2, h3, h4, h5, h6, h7, h8⟩ := h
  have e1 : ∀ a, s'.status (.U a) = s.status (.U a) := fun a => congrFun h5 a
  have e2 : ∀ a, s'.prog (.U a) = s.prog (.U a) := fun a => congrFun h6 a
  refine ⟨?_, ?_, ?_, ?_, ?_, ?_, ?_, ?_, ?_⟩
  · rintro ⟨n, hn⟩; rw [h2, h3]; rw [h1] at hn; exact i.msgd ⟨n, by simpa using hn⟩
  · intro hb hc n hn; rw [h4] at hb; rw [h3] at hc; rw [h1] at hn; exact i.quiet hb hc n (by simpa using hn)
  · intro a ha hp; rw [e1] at ha; rw [e2] at hp; rw [h1]; exact List.mem_append_left _ (i.lw a ha hp)
  · rw [h1]; exact before_snoc.mpr ⟨i.reply, by intro m e; simp at e⟩
  · rw [h2, h1]; intro hd'
    obtain ⟨a, b⟩ := i.dset hd'
    exact ⟨a, b.imp id (fun b => b.append _)⟩
  · intro _ hw; exact absurd (by rw [h1]; simp) (hw k)
  · intro hdc; rw [h1]
    refine before_snoc.mpr ⟨i.fw hdc, ?_⟩
    intro k0 e hno
    injection e with e; subst e
    rcases hk hdc with h | ⟨k', hk'⟩
    · exact h
    · exact absurd hk' (hno k')
  · rw [h1]; intro h
    rcases mem_snoc.mp h with h | h
    · exact i.sent h
    · injection h with h; exact hsd h.symm
  · rw [h1]; intro h
    rcases mem_snoc.mp h with h | h
    · exact i.logged h
    · injection h with h; exact hlo h.symm

/-- `login()` consumes its reply -/
theorem InvT.emit_loginReply {cfg : Cfg} {sd lo : Prop} {s s' : St} (i : InvT cfg sd lo s) (n : Nat)
    (h : tv s' = (s.trace ++ [.loginReply n], s.dispSet, s.closed, false, (fun a => s.status (.U a)), (fun a => s.prog (.U a)),
      s.status .L, s.status .D))
    (hlw : Obs.write .login ∈ s.trace) : InvT cfg sd lo s' := by
  simp only [tv, Prod.mk.injEq] at h
  obtain ⟨h1, h2, h3, h4, h5, h6, h7, h8⟩ := h
  have e1 : ∀ a, s'.status (.U a) = s.status (.U a) := fun a => congrFun h5 a
  have e2 : ∀ a, s'.prog (.U a) = s.prog (.U a) := fun a => congrFun h6 a
  refine ⟨?_, ?_, ?_, ?_, ?_, ?_, ?_, ?_, ?_⟩
  · rintro ⟨m, hm⟩; rw [h2, h3]; rw [h1] at hm; exact i.msgd ⟨m, by simpa using hm⟩
  · intro hb; rw [h4] at hb; simp at hb
  · intro a ha hp; rw [h1]; exact List.mem_append_left _ hlw
  · rw [h1]; exact before_snoc.mpr ⟨i.reply, fun _ _ => hlw⟩
  · rw [h2, h1]; intro hd'
    obtain ⟨a, b⟩ := i.dset hd'
    exact ⟨a, b.imp id (fun b => b.append _)⟩
  · intro _ hw; exact absurd (by rw [h1]; exact List.mem_append_left _ hlw) (hw .login)
  · intro hdc; rw [h1]; exact before_snoc.mpr ⟨i.fw hdc, by intro k e; simp at e⟩
  · rw [h1]; intro h; exact i.sent (by simpa using h)
  · rw [h1]; intro h; exact i.logged (by simpa using h)

/-- `login()` consumed the acceptance on an active session: heartbeats and dispatching are started, the session is returned -/
theorem InvT.accept {cfg : Cfg} {sd lo : Prop} {s s2 : St} (i : InvT cfg sd lo s) (u : Nat) (hlw : Obs.write .login ∈ s.trace)
    (etr : s2.trace = s.trace ++ [.loginReply 0])
    (e1 : ∀ a, s2.status (.U a) = s.status (.U a)) (e2 : ∀ a, s2.prog (.U a) = s.prog (.U a))
    (e3 : s2.closed = s.closed) (eb : s2.rcvBusy = false)
    (ed : (s2.dispSet = true ∧ cfg.hasMsgCb = true) ∨ s2.dispSet = s.dispSet) :
    InvT cfg sd lo ((s2.emit (.ret u .ok)).finish (.U u)) := by
  have htr : ((s2.emit (.ret u .ok)).finish (.U u)).trace = s.trace ++ [.loginReply 0, .ret u .ok] := by
    show s2.trace ++ [.ret u .ok] = _
    rw [etr]; simp
  have hlw' : Obs.write .login ∈ ((s2.emit (.ret u .ok)).finish (.U u)).trace := by
    rw [htr]; exact List.mem_append_left _ hlw
  refine ⟨?_, ?_, ?_, ?_, ?_, ?_, ?_, ?_, ?_⟩
  · rintro ⟨m, hm⟩
    rw [htr] at hm
    have hm' : Obs.msgEnter m ∈ s.trace := by simpa using hm
    show s2.dispSet = true ∨ s2.closed = true
    rcases i.msgd ⟨m, hm'⟩ with h | h
    · rcases ed with ⟨h', _⟩ | h'
      · exact Or.inl h'
      · rw [h']; exact Or.inl h
    · rw [e3]; exact Or.inr h
  · intro hb; have : s2.rcvBusy = true := hb; rw [eb] at this; simp at this
  · intro _ _ _; exact hlw'
  · rw [htr]
    have : s.trace ++ [Obs.loginReply 0, Obs.ret u .ok] = (s.trace ++ [Obs.loginReply 0]) ++ [Obs.ret u .ok] := by simp
    rw [this]
    exact before_snoc.mpr ⟨before_snoc.mpr ⟨i.reply, fun _ _ => hlw⟩, by intro m e; simp at e⟩
  · intro hd
    have hd' : s2.dispSet = true := hd
    refine ⟨?_, Or.inr ⟨s.trace, [], u, by rw [htr]⟩⟩
    rcases ed with ⟨_, h⟩ | h
    · exact h
    · rw [h] at hd'; exact (i.dset hd').1
  · intro _ hw; exact absurd hlw' (hw .login)
  · intro hdc
    rw [htr]
    have : s.trace ++ [Obs.loginReply 0, Obs.ret u .ok] = (s.trace ++ [Obs.loginReply 0]) ++ [Obs.ret u .ok] := by simp
    rw [this]
    exact before_snoc.mpr ⟨before_snoc.mpr ⟨i.fw hdc, by intro k e; simp at e⟩, by intro k e; simp at e⟩
  · rw [htr]; intro h; exact i.sent (by simpa using h)
  · rw [htr]; intro h; exact i.logged (by simpa using h)

/-! ### the close machinery and other composite changes -/

theorem InvT.enter {cfg : Cfg} {sd lo : Prop} {s s' : St} {t : Tid} {c : Cont} (i : InvT cfg sd lo s) (e : EnterSpec t c s s') :
    InvT cfg sd lo s' := by
  obtain ⟨l, el, ol⟩ := e.tr
  refine i.ext l el (fun o ho => closeObs_boring (ol o ho)) (Or.inl e.closed) ?_ ?_ e.disp ?_
  · intro _ hc; rw [e.closed] at hc; simp at hc
  · intro a ha hp
    by_cases hat : Tid.U a = t
    · exfalso
      rcases e.fin with h | h | h | h
      · rw [← hat] at h; rw [h] at ha; simp [alive] at ha
      · rw [← hat] at h; rw [h.1] at hp; simp at hp
      · rw [← hat] at h; simp at h
      · rw [← hat] at h; simp at h
    · obtain ⟨o1, o2⟩ := e.other (.U a) hat (stageOf_user a)
      rw [o1] at ha; rw [o2] at hp; exact Or.inl ⟨ha, hp⟩
  · exact Or.inr ⟨fun h => (e.nabs .L).mpr h, fun h => (e.nabs .D).mpr h⟩

theorem InvT.ce {cfg : Cfg} {sd lo : Prop} {s s' : St} {ab : Bool} {t : Tid} {c : Cont} (i : InvT cfg sd lo s)
    (hcl : s.closed = true) (e : CE ab t c s s') (f : Fin t s') : InvT cfg sd lo s' := by
  have hcl' : s'.closed = true := by rw [e.closed]; exact hcl
  obtain ⟨l, el, ol⟩ := e.tr
  have hbor : ∀ o ∈ l, boring o := by
    intro o ho
    rcases ol o ho with h | ⟨_, u, r, _, h⟩
    · exact closeObs_boring h
    · subst h; exact ⟨by simp, by simp, by simp⟩
  refine i.ext l el hbor (Or.inl hcl') ?_ ?_ e.disp ?_
  · intro _ hc; rw [hcl'] at hc; simp at hc
  · intro a ha hp
    by_cases hat : Tid.U a = t
    · exfalso
      rcases f with h | h | h | h
      · rw [← hat] at h; rw [h] at ha; simp [alive] at ha
      · rw [← hat] at h; rw [h.1] at hp; simp at hp
      · rw [← hat] at h; simp at h
      · rw [← hat] at h; simp at h
    · obtain ⟨o1, o2⟩ := e.other (.U a) hat (stageOf_user a)
      rw [o1] at ha; rw [o2] at hp; exact Or.inl ⟨ha, hp⟩
  · exact Or.inr ⟨fun h => (e.nabs .L).mpr h, fun h => (e.nabs .D).mpr h⟩

theorem absent_finish {s : St} {t y : Tid} (h : s.status y = .absent) : y = t ∨ (s.finish t).status y = .absent := by
  by_cases hy : y = t
  · exact Or.inl hy
  · right; rw [finish_status]; simp [hy, h]

/-- a running task ends -/
theorem InvT.finish {cfg : Cfg} {sd lo : Prop} {s : St} (i : InvT cfg sd lo s) (t : Tid) (hal : alive (s.status t) = true) :
    InvT cfg sd lo (s.finish t) := by
  have hab : ∀ y, s.status y = .absent → (s.finish t).status y = .absent := by
    intro y hy
    rcases absent_finish (t := t) hy with h | h
    · subst h; rw [hy] at hal; simp [alive] at hal
    · exact h
  refine i.ext [] (by simp [St.finish]) boring_nil (Or.inr ⟨rfl, rfl⟩) (fun a b => Or.inl ⟨a, b⟩) ?_ id (Or.inr ⟨hab .L, hab .D⟩)
  intro a ha hp
  rw [alive_finish] at ha
  split at ha
  · simp at ha
  · exact Or.inl ⟨ha, hp⟩

theorem tv_put (s : St) (m : Nat) :
    tv (s.put m) = (s.trace, s.dispSet, s.closed, s.rcvBusy, (fun a => s.status (.U a)), (fun a => s.prog (.U a)), s.status .L,
      (s.put m).status .D) := by
  unfold St.put St.wakeGetter
  simp only [tv]
  split <;> split <;> simp_all [St.setStatus]

theorem put_absent (s : St) (m : Nat) (h : s.status .D = .absent) : (s.put m).status .D = .absent := by
  unfold St.put St.wakeGetter
  split <;> split <;> simp_all [St.setStatus]

theorem InvT.put {cfg : Cfg} {sd lo : Prop} {s : St} (i : InvT cfg sd lo s) (m : Nat) : InvT cfg sd lo (s.put m) := by
  have h := tv_put s m
  simp only [tv, Prod.mk.injEq] at h
  obtain ⟨h1, h2, h3, h4, h5, h6, h7, _⟩ := h
  have e1 : ∀ a, (s.put m).status (.U a) = s.status (.U a) := fun a => congrFun h5 a
  have e2 : ∀ a, (s.put m).prog (.U a) = s.prog (.U a) := fun a => congrFun h6 a
  refine i.ext [] (by simp [h1]) boring_nil (Or.inr ⟨h2, h3⟩) ?_ ?_ (by rw [h2]; exact id)
    (Or.inr ⟨by rw [h7]; exact id, put_absent s m⟩)
  · intro a b; rw [h4] at a; rw [h3] at b; exact Or.inl ⟨a, b⟩
  · intro a ha hp; rw [e1] at ha; rw [e2] at hp; exact Or.inl ⟨ha, hp⟩

theorem InvT.initiateClose {cfg : Cfg} {sd lo : Prop} {s : St} (i : InvT cfg sd lo s) : InvT cfg sd lo s.initiateClose := by
  unfold St.initiateClose
  split
  · exact i
  · it i

theorem InvT.startHeartbeats {cfg : Cfg} {sd lo : Prop} {s : St} (i : InvT cfg sd lo s) (hw : ∃ k, Obs.write k ∈ s.trace) :
    InvT cfg sd lo s.startHeartbeats :=
  i.ext [] (by simp [St.startHeartbeats, St.spawn, St.setStatus, St.setProg]) boring_nil (Or.inr ⟨rfl, rfl⟩)
    (fun a b => Or.inl ⟨a, b⟩) (fun _ ha hp => Or.inl ⟨ha, hp⟩) id (Or.inl hw)

/-! ### the steps -/

theorem stepReader_T {cfg : Cfg} {sd lo : Prop} {s : St} (a : InvA cfg s) (b : InvB s) (i : InvT cfg sd lo s)
    (hst : s.status .R = .ready) : InvT cfg sd lo (stepReader cfg s) := by
  unfold stepReader
  split
  · exact i.finish .R (by rw [hst]; rfl)
  · split
    · exact i
    · have p : ClosePre s .R := ClosePre.of_inv a b hst (c := .readerTail) rfl
      split
      · apply InvT.put; it i
      · it i
      · refine InvT.enter (s := { s with buf := _, consumed := _ }) (by it i) (enterClose_spec (p.same rfl rfl rfl) rfl)
      · refine InvT.enter (s := { s with buf := _, consumed := _ }) (by it i) (enterClose_spec (p.same rfl rfl rfl) rfl)

theorem dispHandle_T {cfg : Cfg} {sd lo : Prop} {s : St} (i : InvT cfg sd lo s) (p : ClosePre s .D) (n : Nat)
    (hD : s.status .D = .ready) : InvT cfg sd lo (dispHandle cfg s n) := by
  -- the dispatcher exists, so something was written before (client configuration)
  have hwr : cfg.dispatchOnConnect = false → ∃ k', Obs.write k' ∈ s.trace := by
    intro hdc
    apply Classical.byContradiction
    intro hno
    have := (i.fresh hdc (fun k hk => hno ⟨k, hk⟩)).2
    rw [hD] at this; simp at this
  have wreply : InvT cfg sd lo (s.emit (.write .reply)) :=
    i.emit_write .reply rfl (fun hdc => Or.inr (hwr hdc)) (by simp) (by simp)
  unfold dispHandle
  split
  · it i
  · it i
  · exact i.enter (enterClose_spec p rfl)
  · have := i.initiateClose; it this
  · it i
  · have := wreply.startHeartbeats ⟨.reply, by simp [St.emit]⟩
    it this
  · exact wreply.enter (enterClose_spec (p.same rfl rfl rfl) rfl)

theorem stepDisp_T {cfg : Cfg} {sd lo : Prop} {s : St} (a : InvA cfg s) (b : InvB s) (w : InvW s) (i : InvT cfg sd lo s)
    (hst : s.status .D = .ready) : InvT cfg sd lo (stepDisp cfg s) := by
  unfold stepDisp
  split
  · exact i.finish .D (by rw [hst]; rfl)
  · split
    · exact i
    · rename_i hbusy
      simp only [Bool.or_eq_true, not_or, Bool.not_eq_true] at hbusy
      split
      · refine i.ext [] (by simp [St.setStatus]) boring_nil (Or.inr ⟨rfl, rfl⟩) (fun a b => Or.inl ⟨a, b⟩)
          (fun _ ha hp => Or.inl ⟨ha, hp⟩) id (Or.inr ⟨id, ?_⟩)
        intro h; rw [hst] at h; simp at h
      · have p : ClosePre s .D := ClosePre.of_inv a b hst (c := .handlerTail 0) rfl
        refine dispHandle_T (s := ({ s with queue := _, gone := _ } : St).emit (.msgEnter _)) ?_ (p.same rfl rfl rfl) _ hst
        exact i.emit_msgEnter _ rfl hbusy.1 (w.dalive (by rw [hst]; rfl))

theorem stepMon_T {cfg : Cfg} {sd lo : Prop} {s : St} (a : InvA cfg s) (b : InvB s) (i : InvT cfg sd lo s) (isLocal : Bool)
    (hst : if isLocal then s.status .L = .ready else s.status .M = .ready) : InvT cfg sd lo (stepMon cfg s isLocal) := by
  unfold stepMon
  split
  · rename_i hl; subst hl
    simp only [if_true] at hst
    split
    · it i
    · refine i.emit_write .hb rfl (fun hdc => Or.inr ?_) (by simp) (by simp)
      apply Classical.byContradiction
      intro hno
      have := (i.fresh hdc (fun k hk => hno ⟨k, hk⟩)).1
      rw [hst] at this; simp at this
  · rename_i hl
    have hl' : isLocal = false := by simpa using hl
    subst hl'
    simp only [Bool.false_eq_true, if_false] at hst
    split
    · it i
    · exact i.enter (enterClose_spec (ClosePre.of_inv a b hst (c := .monitorTail) rfl) rfl)

/-- a user call ends, emitting its (boring) result -/
theorem InvT.ret_finish {cfg : Cfg} {sd lo : Prop} {s s1 : St} (i : InvT cfg sd lo s) (t : Tid) (o : Obs) (hbo : boring o)
    (hal : alive (s.status t) = true)
    (h : tv s1 = (s.trace ++ [o], s.dispSet, s.closed, false, (fun a => s.status (.U a)), (fun a => s.prog (.U a)), s.status .L,
      s.status .D)) (hst : s1.status = s.status) : InvT cfg sd lo (s1.finish t) := by
  have i1 : InvT cfg sd lo s1 := by
    simp only [tv, Prod.mk.injEq] at h
    obtain ⟨h1, h2, h3, h4, h5, h6, h7, h8⟩ := h
    have e1 : ∀ a, s1.status (.U a) = s.status (.U a) := fun a => congrFun h5 a
    have e2 : ∀ a, s1.prog (.U a) = s.prog (.U a) := fun a => congrFun h6 a
    refine i.ext [o] h1 (boring_one hbo) (Or.inr ⟨h2, h3⟩) ?_ ?_ (by rw [h2]; exact id) (Or.inr ⟨by rw [h7]; exact id, by rw [h8]; exact id⟩)
    · intro a; rw [h4] at a; simp at a
    · intro a ha hp; rw [e1] at ha; rw [e2] at hp; exact Or.inl ⟨ha, hp⟩
  exact i1.finish t (by rw [hst]; exact hal)

theorem loginResume_T {cfg : Cfg} {sd lo : Prop} {s : St} (a : InvA cfg s) (b : InvB s) (i : InvT cfg sd lo s) (u : Nat)
    (hst : s.status (.U u) = .ready) (hp : s.prog (.U u) = .loginWait u) : InvT cfg sd lo (loginResume cfg s (.U u) u) := by
  have hal : alive (s.status (.U u)) = true := by rw [hst]; rfl
  have hlw := i.lw u hal hp
  have p : ClosePre s (.U u) := ClosePre.of_inv a b hst (c := .userTail u .refused) rfl
  unfold loginResume
  split
  · simp only
    split
    · rename_i n _ hacc
      have hn : n = 0 := by
        simp only [Bool.and_eq_true, decide_eq_true_eq] at hacc
        exact hacc.1
      subst hn
      obtain ⟨f1, f2, _, f4, _, f6, _, _, f9⟩ := startDispatching_frame
        ((({ s with vres := none, rcvBusy := false, gone := s.gone ++ [(0, true)] } : St).emit (.loginReply 0)).startHeartbeats) cfg
      refine i.accept u hlw f6 (fun a' => (f1 (.U a') (by simp)).1) (fun a' => (f1 (.U a') (by simp)).2) f2 f4 ?_
      rcases f9 with ⟨h, _, h'⟩ | ⟨h, _⟩
      · exact Or.inl ⟨h, h'⟩
      · exact Or.inr h
    · exact InvT.enter (s := ({ s with vres := none, rcvBusy := false, gone := _ } : St).emit (.loginReply _))
        (i.emit_loginReply _ rfl hlw) (enterClose_spec (p.same rfl rfl rfl) rfl)
  · split
    · exact i.ret_finish (.U u) (.ret u .refused) ⟨by simp, by simp, by simp⟩ hal
        (s1 := ({ s with rcvBusy := false } : St).emit (.ret u .refused)) rfl rfl
    · refine InvT.enter (s := ({ s with rcvBusy := false } : St)) ?_ (enterClose_spec (p.same rfl rfl rfl) rfl)
      exact i.ext [] (by simp) boring_nil (Or.inr ⟨rfl, rfl⟩) (fun h => by simp at h) (fun _ ha hp => Or.inl ⟨ha, hp⟩) id (Or.inr ⟨id, id⟩)

theorem stepRun_T {cfg : Cfg} {sd lo : Prop} {s : St} (a : InvA cfg s) (b : InvB s) (w : InvW s) (i : InvT cfg sd lo s)
    (t : Tid) : InvT cfg sd lo (stepRun cfg s t) := by
  unfold stepRun
  have i0 : InvT cfg sd lo ({ s with imm := none } : St) := by it i
  have w0 : InvW ({ s with imm := none } : St) := by iw w
  have b0 : InvB ({ s with imm := none } : St) := InvB.of_bcore (s := s) rfl b
  have a0 : InvA cfg ({ s with imm := none } : St) := InvA.of_core (s := s) rfl a
  generalize ({ s with imm := none } : St) = s0 at i0 a0 w0 b0
  simp only
  -- a receive ends without a message: the held message (if any) is dropped
  have dropped : ∀ (t : Tid) (o : Obs), boring o → alive (s0.status t) = true →
      InvT cfg sd lo ((({ s0 with vres := none, rcvBusy := false, queue := s0.vres.toList ++ s0.queue } : St).emit o).finish t) :=
    fun t o ho hal => i0.ret_finish t o ho hal rfl rfl
  split
  · -- cancelled
    rename_i hst
    have hal : alive (s0.status t) = true := by rw [hst]; rfl
    have htyp := b0.typ t hal
    split
    · exact InvT.finish (s := s0.emit _) (by it i0) t hal
    · exact i0.finish t hal
    · split
      · exact dropped t _ ⟨by simp, by simp, by simp⟩ hal
      · exact dropped t _ ⟨by simp, by simp, by simp⟩ hal
    · rename_i u hp
      have htu : t = .U u := allowed_loginWait (by rw [hp] at htyp; exact htyp)
      subst htu
      split
      · exact dropped _ _ ⟨by simp, by simp, by simp⟩ hal
      · refine InvT.enter (s := ({ s0 with vres := none, rcvBusy := false, queue := _ } : St).setStatus (.U u) .ready) ?_
          (enterClose_spec (ClosePre.of_cancelled a0 b0 (c := .userTail u .cancelled) rfl (stageOf_user u) rfl rfl (fun _ => rfl)) rfl)
        refine i0.ext [] (by simp [St.setStatus]) boring_nil (Or.inr ⟨rfl, rfl⟩) (fun h => by simp [St.setStatus] at h) ?_ id
          (Or.inr ⟨by simp [St.setStatus], by simp [St.setStatus]⟩)
        intro a' ha hp'
        by_cases hau : a' = u
        · subst hau; exact Or.inl ⟨hal, hp'⟩
        · have hne : Tid.U a' ≠ Tid.U u := by intro e; injection e with e; exact hau e
          simp only [St.setStatus, hne, if_false] at ha
          exact Or.inl ⟨ha, hp'⟩
    · rcases stepInClose_spec (cfg := cfg) b0 t true (Or.inr hst) (by simp) with h | ⟨c, hc, _, e, f⟩
      · rw [h]; exact i0
      · have hcl : s0.closed = true := a0.closed_iff.mpr (by intro h; rw [h] at hc; simp [contOf] at hc)
        exact i0.ce hcl e f
    · exact i0.finish t hal
  · -- ready
    rename_i hst
    have hal : alive (s0.status t) = true := by rw [hst]; rfl
    have htyp := b0.typ t hal
    split
    · split
      · rename_i htR; subst htR; exact stepReader_T a0 b0 i0 hst
      · exact i0
    · split
      · rename_i htD; subst htD; exact stepDisp_T a0 b0 w0 i0 hst
      · exact i0
    · rename_i n k hp
      have htD : t = .D := allowed_handler (by rw [hp] at htyp; exact htyp)
      subst htD
      split
      · it i0
      · it i0
    · rename_i hp
      rcases allowed_monStart (by rw [hp] at htyp; exact htyp) with h | h <;> subst h <;> it i0
    · split
      · rename_i htL; subst htL; exact stepMon_T a0 b0 i0 true (by simpa using hst)
      · split
        · rename_i htM; subst htM; exact stepMon_T a0 b0 i0 false (by simpa using hst)
        · exact i0
    · rename_i c hp
      obtain ⟨htC, hcc⟩ := allowed_closeEntry (by rw [hp] at htyp; exact htyp)
      subst htC; subst hcc
      exact i0.enter (enterClose_spec (ClosePre.of_inv a0 b0 hst (c := .closingTail) rfl) rfl)
    · rcases stepInClose_spec (cfg := cfg) b0 t false (Or.inl hst) (fun _ => hst) with h | ⟨c, hc, _, e, f⟩
      · rw [h]; exact i0
      · have hcl : s0.closed = true := a0.closed_iff.mpr (by intro h; rw [h] at hc; simp [contOf] at hc)
        exact i0.ce hcl e f
    · rename_i hp
      have htV : t = .V := allowed_vget (by rw [hp] at htyp; exact htyp)
      subst htV
      split
      · it i0
      · split
        · exact i0
        · exact InvT.finish (s := { s0 with queue := _, vres := _ }) (by it i0) .V hal
    · rename_i u hp
      split
      · exact i0.ret_finish t _ ⟨by simp, by simp, by simp⟩ hal
          (s1 := ({ s0 with vres := none, rcvBusy := false, gone := _ } : St).emit (.ret u (.msg _))) rfl rfl
      · split
        · exact i0.ret_finish t _ ⟨by simp, by simp, by simp⟩ hal (s1 := ({ s0 with rcvBusy := false } : St).emit (.ret u .eoq)) rfl rfl
        · exact i0.ret_finish t _ ⟨by simp, by simp, by simp⟩ hal (s1 := ({ s0 with rcvBusy := false } : St).emit (.ret u .cancelled)) rfl rfl
    · rename_i u hp
      have htu : t = .U u := allowed_loginWait (by rw [hp] at htyp; exact htyp)
      subst htu
      exact loginResume_T a0 b0 i0 u hst hp
    · exact i0
  · exact i0

/-- a user call (`receive_msg()` or the receive of `login()`, after the login request was written) starts -/
theorem startRecv_T {cfg : Cfg} {sd lo : Prop} {s : St} (a : InvA cfg s) (i : InvT cfg sd lo s) (u : Nat) (isLogin : Bool)
    (hu : s.status (.U u) = .absent) (hlw : isLogin = true → Obs.write .login ∈ s.trace) :
    InvT cfg sd lo (startRecv s u isLogin) := by
  have hnal : alive (s.status (.U u)) = false := by rw [hu]; rfl
  -- the caller ends at once with a (boring) result
  have ended : ∀ (o : Obs), boring o → InvT cfg sd lo ((s.emit o).setStatus (.U u) .done) := by
    intro o ho
    refine i.ext [o] rfl (boring_one ho) (Or.inr ⟨rfl, rfl⟩) (fun a b => Or.inl ⟨a, b⟩) ?_ id
      (Or.inr ⟨by simp [St.setStatus, St.emit], by simp [St.setStatus, St.emit]⟩)
    intro a' ha hp
    simp only [St.setStatus, St.emit] at ha
    split at ha
    · simp [alive] at ha
    · exact Or.inl ⟨ha, hp⟩
  -- the caller becomes the receiving user
  have started : ∀ (s1 : St) (x : Status), s1.trace = s.trace → s1.dispSet = s.dispSet → s1.closed = s.closed →
      (∀ a, s1.status (.U a) = s.status (.U a)) → (∀ a, s1.prog (.U a) = s.prog (.U a)) →
      s1.status .L = s.status .L → s1.status .D = s.status .D →
      (s.dispSet = false) →
      InvT cfg sd lo ((s1.setStatus (.U u) x).setProg (.U u) (if isLogin then .loginWait u else .recvWait u)) := by
    intro s1 x h1 h2 h3 h4 h5 h6 h7 hds
    refine i.ext [] (by simp [St.setStatus, St.setProg, h1]) boring_nil (Or.inr ⟨h2, h3⟩) ?_ ?_ (by show s1.dispSet = true → _; rw [h2]; exact id)
      (Or.inr ⟨by simp [St.setStatus, St.setProg, h6], by simp [St.setStatus, St.setProg, h7]⟩)
    · intro _ hc
      right
      intro n hn
      have hc' : s.closed = false := by rw [← h3]; exact hc
      rcases i.msgd ⟨n, hn⟩ with h | h
      · rw [hds] at h; simp at h
      · rw [hc'] at h; simp at h
    · intro a' ha hp
      by_cases hau : a' = u
      · subst hau
        simp only [St.setProg, if_true] at hp
        cases hL : isLogin with
        | true => exact Or.inr (hlw hL)
        | false => rw [hL] at hp; simp at hp
      · have hne : Tid.U a' ≠ Tid.U u := by intro e; injection e with e; exact hau e
        simp only [St.setStatus, St.setProg, hne, if_false] at ha hp
        rw [h4] at ha; rw [h5] at hp
        exact Or.inl ⟨ha, hp⟩
  unfold startRecv
  split
  · exact i
  · split
    · exact ended _ ⟨by simp, by simp, by simp⟩
    · rename_i hds
      have hds' : s.dispSet = false := by simpa using hds
      split
      · exact started ({ s with queue := _, vres := _, rcvBusy := true, imm := _ } : St) .ready rfl rfl rfl (fun _ => rfl) (fun _ => rfl) rfl rfl hds'
      · split
        · split
          · exact ended _ ⟨by simp, by simp, by simp⟩
          · exact ended _ ⟨by simp, by simp, by simp⟩
        · exact started (({ s with rcvBusy := true } : St).spawn .V .vget) (.waitT .V) rfl rfl rfl (fun _ => rfl) (fun _ => rfl) rfl rfl hds'

theorem step_T {cfg : Cfg} {sd lo : Prop} {s : St} (a : InvA cfg s) (b : InvB s) (w : InvW s) (i : InvT cfg sd lo s) (ev : Ev)
    (hsd : ev = .callSend → sd) (hlo : ev = .callLogout → lo) : InvT cfg sd lo (step cfg s ev) := by
  cases ev with
  | connect =>
    simp only [step]
    split
    · exact i
    · have i1 : InvT cfg sd lo (s.spawn .R .readerLoop) := by it i
      split
      · rename_i hdc
        obtain ⟨f1, f2, _, f4, _, f6, _, _, f9⟩ := startDispatching_frame (s.spawn .R .readerLoop) cfg
        refine ⟨?_, ?_, ?_, ?_, ?_, ?_, ?_, ?_, ?_⟩
        · rw [f6, f2]; intro h
          rcases i1.msgd h with h' | h'
          · rcases f9 with ⟨h9, _⟩ | ⟨h9, _⟩
            · exact Or.inl h9
            · rw [h9]; exact Or.inl h'
          · exact Or.inr h'
        · rw [f4, f2, f6]; exact i1.quiet
        · intro a' ha hp; rw [(f1 (.U a') (by simp)).1] at ha; rw [(f1 (.U a') (by simp)).2] at hp; rw [f6]; exact i1.lw a' ha hp
        · rw [f6]; exact i1.reply
        · intro hd
          rw [f6]
          rcases f9 with ⟨_, _, h9⟩ | ⟨h9, _⟩
          · exact ⟨h9, Or.inl hdc⟩
          · rw [h9] at hd; exact ⟨(i1.dset hd).1, Or.inl hdc⟩
        · intro h; rw [hdc] at h; simp at h
        · intro h; rw [hdc] at h; simp at h
        · rw [f6]; exact i1.sent
        · rw [f6]; exact i1.logged
      · exact i1
  | data fs => it i
  | eof => exact i.initiateClose
  | run t =>
    simp only [step]
    split
    · exact stepRun_T a b w i t
    · exact i
  | callClose u =>
    simp only [step]
    split
    · exact i
    · rename_i hu
      have hu' : s.status (.U u) = .absent := by simpa using hu
      have b1 := b.userStart u .idle hu' rfl (by simp)
      have a1 : InvA cfg ((s.setStatus (.U u) .ready).setProg (.U u) .idle) := InvA.of_core (s := s) rfl a
      have i1 : InvT cfg sd lo ((s.setStatus (.U u) .ready).setProg (.U u) .idle) := by
        refine i.ext [] (by simp [St.setStatus, St.setProg]) boring_nil (Or.inr ⟨rfl, rfl⟩) (fun a b => Or.inl ⟨a, b⟩) ?_ id
          (Or.inr ⟨by simp [St.setStatus, St.setProg], by simp [St.setStatus, St.setProg]⟩)
        intro a' ha hp
        by_cases hau : a' = u
        · subst hau; simp [St.setProg] at hp
        · have hne : Tid.U a' ≠ Tid.U u := by intro e; injection e with e; exact hau e
          simp only [St.setStatus, St.setProg, hne, if_false] at ha hp
          exact Or.inl ⟨ha, hp⟩
      exact i1.enter (enterClose_spec (ClosePre.of_inv a1 b1 (c := .userTail u .ok) (by simp [St.setStatus, St.setProg]) rfl) rfl)
  | callInitiateClose => exact i.initiateClose
  | callLogout =>
    simp only [step]
    apply InvT.initiateClose
    exact i.emit_write .logout rfl (fun _ => Or.inl (Or.inr (Or.inr rfl))) (by simp) (fun _ => hlo rfl)
  | callRecv u =>
    simp only [step]
    split
    · exact i
    · rename_i hu
      exact startRecv_T a i u false (by simpa using hu) (by simp)
  | callRecvNowait u =>
    simp only [step]
    split
    · exact i
    · split
      · it i
      · split
        · it i
        · split <;> it i
  | callLogin u =>
    simp only [step]
    split
    · exact i
    · rename_i hu
      simp only [bne_iff_ne, ne_eq, Bool.or_eq_true, not_or, Decidable.not_not] at hu
      refine startRecv_T (s := { (s.emit (.write .login)) with pingL := true }) (InvA.of_core (s := s.emit (.write .login)) rfl (a.emit_neutral rfl))
        ?_ u true hu.1.1 (fun _ => by simp [St.emit])
      exact i.emit_write .login rfl (fun _ => Or.inl (Or.inl rfl)) (by simp) (by simp)
  | callSend =>
    exact i.emit_write .data rfl (fun _ => Or.inl (Or.inr (Or.inl rfl))) (fun _ => hsd rfl) (by simp)
  | cancel u =>
    simp only [step]
    obtain ⟨f1, _, f3, _, _, f6, _, f8, _⟩ := cancelTask_flags s (.U u)
    have hab : ∀ y, s.status y = .absent → (s.cancelTask (.U u)).status y = .absent := by
      intro y hy
      have h1 := alive_cancelTask s (.U u) y
      rw [hy] at h1
      cases hs : (s.cancelTask (.U u)).status y with
      | absent => rfl
      | done =>
        -- `cancelTask` only ever turns a runnable / suspended task into a cancelled one
        exfalso
        unfold St.cancelTask at hs
        split at hs
        · simp only [St.setStatus] at hs; split at hs <;> simp_all
        · simp only [St.setStatus] at hs; split at hs <;> simp_all
        · split at hs
          · simp only [St.setStatus] at hs; split at hs <;> simp_all
          · simp only [St.setStatus] at hs; split at hs <;> simp_all
          · simp_all
        · simp_all
      | _ => rw [hs] at h1; simp [alive] at h1
    refine i.ext [] (by simp [f8]) boring_nil (Or.inr ⟨f3, f6⟩) ?_ ?_ (by rw [f3]; exact id) (Or.inr ⟨hab .L, hab .D⟩)
    · intro h1 h2; rw [f1] at h1; rw [f6] at h2; exact Or.inl ⟨h1, h2⟩
    · intro a' ha hp
      rw [alive_cancelTask] at ha; rw [cancelTask_prog] at hp
      exact Or.inl ⟨ha, hp⟩

theorem InvT.init (cfg : Cfg) (sd lo : Prop) : InvT cfg sd lo {} :=
  ⟨by rintro ⟨n, h⟩; simp at h, by intro h; simp at h, by intro a h; simp [alive] at h, before_nil _, by intro h; simp at h,
    fun _ _ => ⟨rfl, rfl⟩, fun _ => before_nil _, by intro h; simp at h, by intro h; simp at h⟩

/-- **`InvT` holds in every reachable state** (`sd`, `lo`: the event list contains a `callSend` / a `callLogout`). -/
theorem runEvs_InvT (cfg : Cfg) (evs : List Ev) :
    InvT cfg (Ev.callSend ∈ evs) (Ev.callLogout ∈ evs) (runEvs cfg {} evs) := by
  have : ∀ (l : List Ev) (s : St), (∀ ev ∈ l, ev ∈ evs) → InvA cfg s → InvR s → InvB s → InvW s →
      InvT cfg (Ev.callSend ∈ evs) (Ev.callLogout ∈ evs) s →
      InvT cfg (Ev.callSend ∈ evs) (Ev.callLogout ∈ evs) (runEvs cfg s l) := by
    intro l
    induction l with
    | nil => intro s _ _ _ _ _ i; exact i
    | cons ev l ih =>
      intro s hl a r b w i
      exact ih _ (fun e he => hl e (List.mem_cons_of_mem _ he)) (step_InvA a ev) (step_InvR a r ev) (step_InvB a r b ev)
        (step_W a r b w ev)
        (step_T a b w i ev (fun e => e ▸ hl ev (List.mem_cons_self ..)) (fun e => e ▸ hl ev (List.mem_cons_self ..)))
  exact this evs _ (fun _ h => h) (InvA.init cfg) InvR.init InvB.init InvW.init (InvT.init cfg _ _)

end NasdaqModel.Sess
