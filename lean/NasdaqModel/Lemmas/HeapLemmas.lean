import NasdaqModel.Model.Heap
/-
Lemmas about the heap model (Model/Heap.lean): allocation, in-place writes, what an observation depends on, the ownership
invariant and its preservation by every operation.  Used by Props/C18.lean.
-/
namespace NasdaqModel.Heap

theorem bind_ok {α β : Type} {x : Except Err α} {f : α → Except Err β} {b : β}
    (h : (x >>= f) = .ok b) : ∃ a, x = .ok a ∧ f a = .ok b := by
  cases x with
  | ok a => exact ⟨a, rfl, h⟩
  | error e => simp [err_bind] at h

/-- every reference in `rs` points to a cell whose tag satisfies `P` -/
def RefsIn (P : Owner → Prop) (h : Cells) (rs : List Addr) : Prop :=
  ∀ r ∈ rs, ∃ c, h[r]? = some c ∧ P c.own

/-- references stay inside one owner -/
def Closed (h : Cells) : Prop :=
  ∀ (a : Addr) (c : Cell), h[a]? = some c → RefsIn (· = c.own) h c.body.refs

theorem RefsIn.append {P h rs} (e : Cells) (hr : RefsIn P h rs) : RefsIn P (h ++ e) rs := by
  intro r hrm
  obtain ⟨c, hc, hp⟩ := hr r hrm
  refine ⟨c, ?_, hp⟩
  have hlt : r < h.length := by
    have := (List.getElem?_eq_some_iff.mp hc).1
    exact this
  rw [List.getElem?_append_left hlt]; exact hc

/-- `h'` is `h` plus new cells, all tagged `o`, whose references stay in `o` -/
def AllocOK (o : Owner) (h h' : Cells) : Prop :=
  ∃ e, h' = h ++ e ∧ ∀ c ∈ e, c.own = o ∧ RefsIn (· = o) h' c.body.refs

theorem AllocOK.refl (o h) : AllocOK o h h := ⟨[], by simp, by simp⟩

theorem AllocOK.trans {o h1 h2 h3} (a : AllocOK o h1 h2) (b : AllocOK o h2 h3) : AllocOK o h1 h3 := by
  obtain ⟨e1, rfl, p1⟩ := a
  obtain ⟨e2, rfl, p2⟩ := b
  refine ⟨e1 ++ e2, by simp, ?_⟩
  intro c hc
  rcases List.mem_append.mp hc with hc | hc
  · exact ⟨(p1 c hc).1, (p1 c hc).2.append e2⟩
  · exact p2 c hc

theorem AllocOK.refsIn {o h h' P rs} (a : AllocOK o h h') (hr : RefsIn P h rs) : RefsIn P h' rs := by
  obtain ⟨e, rfl, _⟩ := a
  exact hr.append e

theorem AllocOK.snoc {o : Owner} {h : Cells} {b : Body} (hb : RefsIn (· = o) h b.refs) :
    AllocOK o h (h ++ [⟨o, b⟩]) := by
  refine ⟨[⟨o, b⟩], rfl, ?_⟩
  intro c hc
  simp at hc
  subst hc
  exact ⟨rfl, hb.append _⟩

theorem refsIn_self_snoc {o : Owner} {h : Cells} {b : Body} :
    RefsIn (· = o) (h ++ [⟨o, b⟩]) (Val.ref h.length).refs := by
  intro r hr
  simp [Val.refs] at hr
  subst hr
  exact ⟨⟨o, b⟩, by simp, rfl⟩

mutual
theorem allocTree_ok (o : Owner) : ∀ (t : Tree) (h : Cells),
    AllocOK o h (allocTree o t h).1 ∧ RefsIn (· = o) (allocTree o t h).1 (allocTree o t h).2.refs
  | .int i, h => by simp [allocTree, AllocOK.refl, RefsIn, Val.refs]
  | .str s, h => by simp [allocTree, AllocOK.refl, RefsIn, Val.refs]
  | .none, h => by simp [allocTree, AllocOK.refl, RefsIn, Val.refs]
  | .list xs, h => by
    have ih := allocList_ok o xs h
    simp only [allocTree]
    refine ⟨ih.1.trans (AllocOK.snoc ?_), refsIn_self_snoc⟩
    intro r hr
    simp only [Body.refs, List.mem_flatMap] at hr
    obtain ⟨v, hv, hr⟩ := hr
    exact ih.2 v hv r hr
  | .obj c ks ts, h => by
    have ih := allocList_ok o ts h
    simp only [allocTree]
    refine ⟨ih.1.trans (AllocOK.snoc ?_), refsIn_self_snoc⟩
    intro r hr
    simp only [Body.refs, List.mem_flatMap] at hr
    obtain ⟨kv, hkv, hr⟩ := hr
    exact ih.2 kv.2 (List.of_mem_zip hkv).2 r hr
theorem allocList_ok (o : Owner) : ∀ (ts : List Tree) (h : Cells),
    AllocOK o h (allocList o ts h).1 ∧ ∀ v ∈ (allocList o ts h).2, RefsIn (· = o) (allocList o ts h).1 v.refs
  | [], h => by simp [allocList, AllocOK.refl]
  | t :: ts, h => by
    have i1 := allocTree_ok o t h
    have i2 := allocList_ok o ts (allocTree o t h).1
    simp only [allocList]
    refine ⟨i1.1.trans i2.1, ?_⟩
    intro v hv
    rcases List.mem_cons.mp hv with rfl | hv
    · exact i2.1.refsIn i1.2
    · exact i2.2 v hv
end


theorem getElem?_lt {h : Cells} {a : Addr} {c : Cell} (hc : h[a]? = some c) : a < h.length :=
  (List.getElem?_eq_some_iff.mp hc).1

theorem AllocOK.closed {o h h'} (a : AllocOK o h h') (hc : Closed h) : Closed h' := by
  obtain ⟨e, rfl, p⟩ := a
  intro x c hx
  by_cases hlt : x < h.length
  · rw [List.getElem?_append_left hlt] at hx
    exact (hc x c hx).append e
  · rw [List.getElem?_append_right (Nat.le_of_not_lt hlt)] at hx
    have hm : c ∈ e := List.mem_of_getElem? hx
    obtain ⟨ho, hr⟩ := p c hm
    rw [ho]; exact hr

/-- `h'` differs from `h` only on cells tagged `P` and by new cells tagged `P`; tags never change -/
structure Ext (P : Owner → Prop) (h h' : Cells) : Prop where
  keep : ∀ (a : Addr) (c : Cell), h[a]? = some c → ∃ c', h'[a]? = some c' ∧ c'.own = c.own ∧ (¬ P c.own → c' = c)
  fresh : ∀ (a : Addr) (c' : Cell), h.length ≤ a → h'[a]? = some c' → P c'.own

theorem Ext.refl (P h) : Ext P h h :=
  ⟨fun _ c hc => ⟨c, hc, rfl, fun _ => rfl⟩, fun _ _ hle hc => absurd (getElem?_lt hc) (Nat.not_lt.mpr hle)⟩

theorem Ext.length_le {P h h'} (e : Ext P h h') : h.length ≤ h'.length := by
  rcases Nat.lt_or_ge h'.length h.length with hlt | hge
  · exfalso
    have : h'.length < h.length := hlt
    obtain ⟨c, hc⟩ : ∃ c, h[h'.length]? = some c := ⟨h[h'.length], List.getElem?_eq_getElem this⟩
    obtain ⟨c', hc', _⟩ := e.keep _ _ hc
    exact Nat.lt_irrefl _ (getElem?_lt hc')
  · exact hge

theorem Ext.trans {P h1 h2 h3} (a : Ext P h1 h2) (b : Ext P h2 h3) : Ext P h1 h3 := by
  constructor
  · intro x c hc
    obtain ⟨c2, h2c, o2, k2⟩ := a.keep x c hc
    obtain ⟨c3, h3c, o3, k3⟩ := b.keep x c2 h2c
    refine ⟨c3, h3c, o3.trans o2, ?_⟩
    intro hn
    have := k2 hn
    subst this
    exact k3 hn
  · intro x c' hle hc
    by_cases hlt : x < h2.length
    · obtain ⟨c2, hc2⟩ : ∃ c, h2[x]? = some c := ⟨h2[x], List.getElem?_eq_getElem hlt⟩
      obtain ⟨c3, h3c, o3, _⟩ := b.keep x c2 hc2
      have : c3 = c' := Option.some.inj (h3c.symm.trans hc)
      subst this
      rw [o3]; exact a.fresh x c2 hle hc2
    · exact b.fresh x c' (Nat.le_of_not_lt hlt) hc

theorem Ext.mono {P Q : Owner → Prop} {h h'} (e : Ext P h h') (hpq : ∀ o, P o → Q o) : Ext Q h h' :=
  ⟨fun a c hc => by
      obtain ⟨c', h1, h2, h3⟩ := e.keep a c hc
      exact ⟨c', h1, h2, fun hn => h3 (fun hp => hn (hpq _ hp))⟩,
   fun a c' hle hc => hpq _ (e.fresh a c' hle hc)⟩

theorem AllocOK.ext {o h h'} (a : AllocOK o h h') : Ext (· = o) h h' := by
  obtain ⟨e, rfl, p⟩ := a
  constructor
  · intro x c hc
    refine ⟨c, ?_, rfl, fun _ => rfl⟩
    rw [List.getElem?_append_left (getElem?_lt hc)]; exact hc
  · intro x c' hle hc
    rw [List.getElem?_append_right hle] at hc
    exact (p c' (List.mem_of_getElem? hc)).1

/-- tags are preserved by an extension: a reference that was in `P` still is -/
theorem Ext.refsIn {P Q h h' rs} (e : Ext P h h') (hr : RefsIn Q h rs) : RefsIn Q h' rs := by
  intro r hrm
  obtain ⟨c, hc, hq⟩ := hr r hrm
  obtain ⟨c', hc', ho, _⟩ := e.keep r c hc
  exact ⟨c', hc', by rw [ho]; exact hq⟩

theorem setBody_get_self {h : Cells} {a : Addr} {c : Cell} (b : Body) (hc : h[a]? = some c) :
    (setBody h a b)[a]? = some ⟨c.own, b⟩ := by
  simp [setBody, hc, List.getElem?_set_self (getElem?_lt hc)]

theorem setBody_get_ne {h : Cells} {a x : Addr} (b : Body) (hne : a ≠ x) :
    (setBody h a b)[x]? = h[x]? := by
  unfold setBody
  split
  · simp [List.getElem?_set_ne hne]
  · rfl

theorem setBody_length (h : Cells) (a : Addr) (b : Body) : (setBody h a b).length = h.length := by
  unfold setBody; split <;> simp

theorem setBody_ext {P : Owner → Prop} {h : Cells} {a : Addr} {c : Cell} (b : Body)
    (hc : h[a]? = some c) (hp : P c.own) : Ext P h (setBody h a b) := by
  constructor
  · intro x cx hx
    by_cases hax : a = x
    · subst hax
      have : cx = c := Option.some.inj (hx.symm.trans hc)
      subst this
      exact ⟨_, setBody_get_self b hc, rfl, fun hn => absurd hp hn⟩
    · exact ⟨cx, by rw [setBody_get_ne b hax]; exact hx, rfl, fun _ => rfl⟩
  · intro x c' hle hx
    have := getElem?_lt hx
    rw [setBody_length] at this
    exact absurd this (Nat.not_lt.mpr hle)

theorem setBody_closed {h : Cells} {a : Addr} {c : Cell} {b : Body} (hcl : Closed h)
    (hc : h[a]? = some c) (hb : RefsIn (· = c.own) h b.refs) : Closed (setBody h a b) := by
  have hext : Ext (· = c.own) h (setBody h a b) := setBody_ext b hc rfl
  intro x cx hx
  by_cases hax : a = x
  · subst hax
    rw [setBody_get_self b hc] at hx
    have := Option.some.inj hx
    subst this
    exact hext.refsIn hb
  · rw [setBody_get_ne b hax] at hx
    exact hext.refsIn (hcl x cx hx)

/-! ### what an observation depends on -/

theorem mem_refs_of_mem_list {xs : List Val} {v : Val} {r : Addr} (hv : v ∈ xs) (hr : r ∈ v.refs) :
    r ∈ (Body.list xs).refs := by
  simp only [Body.refs, List.mem_flatMap]; exact ⟨v, hv, hr⟩

theorem mem_refs_of_mem_store {c : Nat} {st : List (Key × Val)} {kv : Key × Val} {r : Addr}
    (hv : kv ∈ st) (hr : r ∈ kv.2.refs) : r ∈ (Body.obj c st).refs := by
  simp only [Body.refs, List.mem_flatMap]; exact ⟨kv, hv, hr⟩

theorem enumFrom_snd_mem {α} : ∀ (xs : List α) (i : Nat) (p : Nat × α), p ∈ enumFrom i xs → p.2 ∈ xs
  | [], _, _, h => by simp [enumFrom] at h
  | x :: xs, i, p, h => by
    simp only [enumFrom, List.mem_cons] at h
    rcases h with rfl | h
    · simp
    · exact List.mem_cons_of_mem _ (enumFrom_snd_mem xs (i + 1) p h)

/-- the only reference a default can be is the class-level list, cell 0 -/
theorem declared_refs (S : Schema) (c : Nat) (kd : Key × Val) (h : kd ∈ S.declared c) : ∀ r ∈ kd.2.refs, r = 0 := by
  unfold Schema.declared at h
  split at h
  · simp only [List.mem_map] at h
    obtain ⟨p, _, rfl⟩ := h
    intro r hr
    cases hp : p.2 with
    | int t d => cases d <;> simp [FTy.default, hp, Val.refs] at hr
    | arr e cnt =>
      cases hf : S.freshArrayDefault
      · simpa [FTy.default, hp, hf, Val.refs] using hr
      · simp [FTy.default, hp, hf, Val.refs] at hr
    | recd c => simp [FTy.default, hp, Val.refs] at hr
  · simp only [List.mem_map] at h
    obtain ⟨e, _, rfl⟩ := h
    intro r hr
    cases e with
    | field t ty => cases ty <;> simp [XEntry.default, Val.refs] at hr
    | group t g => simp [XEntry.default, Val.refs] at hr
  · simp at h

/-- with the repaired default no declared default is a reference at all -/
theorem declared_refs_fresh (S : Schema) (hS : S.freshArrayDefault = true) (c : Nat) (kd : Key × Val)
    (h : kd ∈ S.declared c) : kd.2.refs = [] := by
  unfold Schema.declared at h
  split at h
  · simp only [List.mem_map] at h
    obtain ⟨p, _, rfl⟩ := h
    cases hp : p.2 with
    | int t d => cases d <;> simp [FTy.default, Val.refs]
    | arr e cnt => simp [FTy.default, hS, Val.refs]
    | recd c => simp [FTy.default, Val.refs]
  · simp only [List.mem_map] at h
    obtain ⟨e, _, rfl⟩ := h
    cases e with
    | field t ty => cases ty <;> simp [XEntry.default, Val.refs]
    | group t g => simp [XEntry.default, Val.refs]
  · simp at h

theorem deref_agree (S : Schema) (Q : Owner → Prop) (h h' : Cells)
    (hagree : ∀ (a : Addr) (c : Cell), h[a]? = some c → Q c.own → h'[a]? = some c)
    (hcl : Closed h) (h0 : RefsIn Q h [0]) :
    ∀ (n : Nat) (v : Val), RefsIn Q h v.refs → deref S n h' v = deref S n h v := by
  intro n
  induction n with
  | zero => intro v _; cases v <;> rfl
  | succ n ih =>
    intro v hv
    cases v with
    | int i => rfl
    | str s => rfl
    | none => rfl
    | elist => rfl
    | ref a =>
      obtain ⟨c, hc, hq⟩ := hv a (by simp [Val.refs])
      have hc' := hagree a c hc hq
      have hsub : ∀ r ∈ c.body.refs, ∃ c2, h[r]? = some c2 ∧ Q c2.own := by
        intro r hr
        obtain ⟨c2, h2, ho⟩ := hcl a c hc r hr
        exact ⟨c2, h2, by rw [ho]; exact hq⟩
      simp only [deref, hc, hc']
      cases hb : c.body with
      | list xs =>
        simp only
        congr 1
        apply List.map_congr_left
        intro x hx
        apply ih
        intro r hr
        exact hsub r (by rw [hb]; exact mem_refs_of_mem_list hx hr)
      | obj k st =>
        simp only
        congr 1
        · apply List.map_congr_left
          intro kv hkv
          apply ih
          intro r hr
          exact hsub r (by rw [hb]; exact mem_refs_of_mem_store hkv hr)
        · apply List.map_congr_left
          intro kd hkd
          apply ih
          intro r hr
          have hmem : kd ∈ S.declared k := (List.mem_filter.mp hkd).1
          have := declared_refs S k kd hmem r hr
          subst this
          exact h0 0 (by simp)
      | buf bs => rfl


/-! ### the ownership invariant -/

structure Inv (H : Heap) : Prop where
  closed : Closed H.cells
  cls0 : ∃ c, H.cells[0]? = some c ∧ c.own = Owner.cls
  roots : ∀ (i : Nat) (cr : Nat × Addr), H.insts[i]? = some cr → ∃ c, H.cells[cr.2]? = some c ∧ c.own = Owner.inst i
  bound : ∀ (a : Addr) (c : Cell) (i : Nat), H.cells[a]? = some c → c.own = Owner.inst i → i < H.insts.length
  bufs : ∀ (j : Nat) (a : Addr), H.bufs[j]? = some a → ∃ c, H.cells[a]? = some c ∧ c.own = Owner.ext

theorem init_inv : Inv init := by
  refine ⟨?_, ⟨_, rfl, rfl⟩, ?_, ?_, ?_⟩
  · intro a c hc r hr
    simp only [init] at hc
    have ha : a = 0 := by
      have := getElem?_lt hc; simp at this; exact this
    subst ha
    simp at hc; subst hc
    simp [Body.refs] at hr
  · intro i cr h; simp [init] at h
  · intro a c i hc ho
    simp only [init] at hc
    have ha : a = 0 := by
      have := getElem?_lt hc; simp at this; exact this
    subst ha
    simp at hc; subst hc
    simp at ho
  · intro j a h; simp [init] at h

/-- owners of instance `a`'s reads: its own cells and class-level cells -/
def Mine (a : Nat) (o : Owner) : Prop := o = Owner.inst a ∨ o = Owner.cls

theorem Inv.refs0 {H : Heap} (hi : Inv H) (a : Nat) : RefsIn (Mine a) H.cells [0] := by
  intro r hr
  simp at hr; subst hr
  obtain ⟨c, hc, ho⟩ := hi.cls0
  exact ⟨c, hc, Or.inr ho⟩

theorem closed_sub {h : Cells} {Q : Owner → Prop} (hcl : Closed h) {a : Addr} {c : Cell}
    (hc : h[a]? = some c) (hq : Q c.own) : RefsIn Q h c.body.refs := by
  intro r hr
  obtain ⟨c2, h2, ho⟩ := hcl a c hc r hr
  exact ⟨c2, h2, by rw [ho]; exact hq⟩

theorem storeGet_mem {st : List (Key × Val)} {k : Key} {v : Val} (h : storeGet st k = some v) :
    ∃ kv ∈ st, kv.2 = v := by
  unfold storeGet at h
  cases hf : st.find? (fun kv => kv.1 == k) with
  | none => simp [hf] at h
  | some kv =>
    simp [hf] at h
    exact ⟨kv, List.mem_of_find?_eq_some hf, h⟩

/-- the declared defaults of the schema only refer to cells tagged `Q` -/
def DefaultsIn (S : Schema) (Q : Owner → Prop) (h : Cells) : Prop :=
  ∀ (c : Nat) (kd : Key × Val), kd ∈ S.declared c → RefsIn Q h kd.2.refs

theorem defaultsIn_of_zero {S : Schema} {Q : Owner → Prop} {h : Cells} (h0 : RefsIn Q h [0]) : DefaultsIn S Q h := by
  intro c kd hkd r hr
  have := declared_refs S c kd hkd r hr
  subst this
  exact h0 0 (by simp)

theorem defaultsIn_of_fresh {S : Schema} (hS : S.freshArrayDefault = true) (Q : Owner → Prop) (h : Cells) :
    DefaultsIn S Q h := by
  intro c kd hkd r hr
  rw [declared_refs_fresh S hS c kd hkd] at hr
  simp at hr

theorem readKey_owned {S : Schema} {h : Cells} {a : Addr} {k : Key} {v : Val} {Q : Owner → Prop}
    (hcl : Closed h) (h0 : DefaultsIn S Q h) (ha : RefsIn Q h [a]) (hr : readKey S h a k = .ok v) :
    RefsIn Q h v.refs := by
  obtain ⟨c, hc, hq⟩ := ha a (by simp)
  unfold readKey at hr
  rw [hc] at hr
  rcases c with ⟨o, b⟩
  cases b with
  | list xs => simp at hr
  | buf bs => simp at hr
  | obj k' st =>
    simp only at hr
    cases hg : storeGet st k with
    | some v' =>
      simp only [hg] at hr
      have : v' = v := by injection hr
      subst this
      obtain ⟨kv, hkv, rfl⟩ := storeGet_mem hg
      intro r hrm
      exact closed_sub hcl hc hq r (mem_refs_of_mem_store hkv hrm)
    | none =>
      simp only [hg] at hr
      cases hf : (S.declared k').find? (fun kd => kd.1 == k) with
      | none => simp [hf] at hr
      | some kd =>
        simp only [hf] at hr
        have : kd.2 = v := by injection hr
        subst this
        exact h0 k' kd (List.mem_of_find?_eq_some hf)

theorem resolve_owned {S : Schema} {h : Cells} {Q : Owner → Prop} (hcl : Closed h) (h0 : DefaultsIn S Q h) :
    ∀ (p : List Step) (v w : Val), RefsIn Q h v.refs → resolve S h v p = .ok w → RefsIn Q h w.refs := by
  intro p
  induction p with
  | nil => intro v w hv hr; simp [resolve] at hr; subst hr; exact hv
  | cons s p ih =>
    intro v w hv hr
    cases v with
    | int i => simp [resolve] at hr
    | str s => simp [resolve] at hr
    | none => simp [resolve] at hr
    | elist => cases s <;> simp [resolve] at hr
    | ref a =>
      have ha : RefsIn Q h [a] := by simpa [Val.refs] using hv
      cases s with
      | fld k =>
        simp only [resolve] at hr
        obtain ⟨v', hv', hr'⟩ := bind_ok hr
        exact ih v' w (readKey_owned hcl h0 ha hv') hr'
      | idx i =>
        simp only [resolve] at hr
        obtain ⟨c, hc, hq⟩ := ha a (by simp)
        rw [hc] at hr
        rcases c with ⟨o, b⟩
        cases b with
        | obj k st => simp at hr
        | buf bs => simp at hr
        | list xs =>
          simp only at hr
          cases hx : xs[i]? with
          | none => simp [hx] at hr
          | some x =>
            simp only [hx] at hr
            refine ih x w ?_ hr
            intro r hrm
            exact closed_sub hcl hc hq r (mem_refs_of_mem_list (List.mem_of_getElem? hx) hrm)

theorem getInst_ok {H : Heap} {a : Nat} {cr : Nat × Addr} (h : getInst H a = .ok cr) : H.insts[a]? = some cr := by
  unfold getInst at h
  cases hi : H.insts[a]? with
  | none => simp [hi] at h
  | some x => simp [hi] at h; rw [h]

theorem mutTarget_owned_gen {S : Schema} {H : Heap} {a : Nat} {p : List Step} {r : Addr} {Q : Owner → Prop} (hi : Inv H)
    (hq : Q (Owner.inst a)) (hdef : DefaultsIn S Q H.cells)
    (h : mutTarget S H a p = .ok (some r)) :
    a < H.insts.length ∧ ∃ c, H.cells[r]? = some c ∧ Q c.own := by
  unfold mutTarget at h
  obtain ⟨cr, hcr, h⟩ := bind_ok h
  obtain ⟨v, hv, h⟩ := bind_ok h
  have hcr' := getInst_ok hcr
  have hlt : a < H.insts.length := (List.getElem?_eq_some_iff.mp hcr').1
  refine ⟨hlt, ?_⟩
  obtain ⟨c0, hc0, ho0⟩ := hi.roots a cr hcr'
  have hroot : RefsIn Q H.cells (Val.ref cr.2).refs := by
    intro x hx; simp [Val.refs] at hx; subst hx; exact ⟨c0, hc0, by rw [ho0]; exact hq⟩
  have := resolve_owned hi.closed hdef p _ v hroot hv
  cases v with
  | ref x =>
    simp at h; subst h
    exact this x (by simp [Val.refs])
  | int i => simp at h
  | str s => simp at h
  | none => simp at h
  | elist => simp at h

theorem mutTarget_owned {S : Schema} {H : Heap} {a : Nat} {p : List Step} {r : Addr} (hi : Inv H)
    (h : mutTarget S H a p = .ok (some r)) :
    a < H.insts.length ∧ ∃ c, H.cells[r]? = some c ∧ Mine a c.own :=
  mutTarget_owned_gen hi (Or.inl rfl) (defaultsIn_of_zero (hi.refs0 a)) h

/-- with the repaired default a chain of reads can only end in one of the instance's own cells -/
theorem mutTarget_owned_fresh {S : Schema} (hS : S.freshArrayDefault = true) {H : Heap} {a : Nat} {p : List Step} {r : Addr}
    (hi : Inv H) (h : mutTarget S H a p = .ok (some r)) :
    ∃ c, H.cells[r]? = some c ∧ c.own = Owner.inst a :=
  (mutTarget_owned_gen (Q := (· = Owner.inst a)) hi rfl (defaultsIn_of_fresh hS _ _) h).2

/-! ### every operation respects ownership -/

/-- tags an operation may write to / allocate with -/
def opOwners (H : Heap) : Op → Owner → Prop
  | .new _, o => o = Owner.inst H.insts.length
  | .decode _ _, o => o = Owner.inst H.insts.length
  | .assign a _ _ _, o => o = Owner.inst a
  | .append a _ _, o => o = Owner.inst a
  | .setIdx a _ _ _, o => o = Owner.inst a
  | .mkbuf _, o => o = Owner.ext
  | .scribble _, o => o = Owner.ext
  | .copy b _ _ _ _, o => o = Owner.inst b
  | .clone _, o => o = Owner.inst H.insts.length
  | .read _ _, _ => False
  | .encode _, _ => False

/-- how the invariant is re-established after an extension of the cells -/
theorem Inv.of_ext {H H' : Heap} {P : Owner → Prop} (hi : Inv H) (hext : Ext P H.cells H'.cells)
    (hcl : Closed H'.cells) (_hP : ¬ P Owner.cls)
    (extra : List (Nat × Addr)) (hinsts : H'.insts = H.insts ++ extra)
    (hroots : ∀ (j : Nat) (cr : Nat × Addr), extra[j]? = some cr →
      ∃ c, H'.cells[cr.2]? = some c ∧ c.own = Owner.inst (H.insts.length + j))
    (hbound : ∀ i, P (Owner.inst i) → i < H'.insts.length)
    (eb : List Addr) (hbufs : H'.bufs = H.bufs ++ eb)
    (hnewbufs : ∀ a ∈ eb, ∃ c, H'.cells[a]? = some c ∧ c.own = Owner.ext) : Inv H' := by
  refine ⟨hcl, ?_, ?_, ?_, ?_⟩
  · obtain ⟨c, hc, ho⟩ := hi.cls0
    obtain ⟨c', hc', ho', hk⟩ := hext.keep 0 c hc
    exact ⟨c', hc', ho'.trans ho⟩
  · intro i cr hcr
    rw [hinsts] at hcr
    by_cases hlt : i < H.insts.length
    · rw [List.getElem?_append_left hlt] at hcr
      obtain ⟨c, hc, ho⟩ := hi.roots i cr hcr
      obtain ⟨c', hc', ho', _⟩ := hext.keep _ c hc
      exact ⟨c', hc', ho'.trans ho⟩
    · have hle := Nat.le_of_not_lt hlt
      rw [List.getElem?_append_right hle] at hcr
      obtain ⟨c, hc, ho⟩ := hroots _ cr hcr
      refine ⟨c, hc, ?_⟩
      rw [ho]; congr 1; omega
  · intro a c i hc ho
    by_cases hlt : a < H.cells.length
    · obtain ⟨c0, hc0⟩ : ∃ c0, H.cells[a]? = some c0 := ⟨H.cells[a], List.getElem?_eq_getElem hlt⟩
      obtain ⟨c', hc', ho', _⟩ := hext.keep a c0 hc0
      have : c' = c := Option.some.inj (hc'.symm.trans hc)
      subst this
      have := hi.bound a c0 i hc0 (ho'.symm.trans ho)
      rw [hinsts, List.length_append]; omega
    · have := hext.fresh a c (Nat.le_of_not_lt hlt) hc
      rw [ho] at this
      exact hbound i this
  · intro j a hj
    rw [hbufs] at hj
    by_cases hlt : j < H.bufs.length
    · rw [List.getElem?_append_left hlt] at hj
      obtain ⟨c, hc, ho⟩ := hi.bufs j a hj
      obtain ⟨c', hc', ho', _⟩ := hext.keep _ c hc
      exact ⟨c', hc', ho'.trans ho⟩
    · rw [List.getElem?_append_right (Nat.le_of_not_lt hlt)] at hj
      exact hnewbufs a (List.mem_of_getElem? hj)

/-- in-place write to a cell of instance `a` of a body made of the old references and one freshly allocated value -/
theorem mutate_sound {H : Heap} {a : Nat} {r : Addr} {c : Cell} (t : Tree) (b : Body) (hi : Inv H)
    (ha : a < H.insts.length) (hr : H.cells[r]? = some c) (hown : c.own = Owner.inst a)
    (hb : ∀ x ∈ b.refs, x ∈ c.body.refs ∨ x ∈ (allocTree (Owner.inst a) t H.cells).2.refs) :
    Ext (· = Owner.inst a) H.cells (setBody (allocTree (Owner.inst a) t H.cells).1 r b) ∧
    Inv { H with cells := setBody (allocTree (Owner.inst a) t H.cells).1 r b } := by
  have hal := allocTree_ok (Owner.inst a) t H.cells
  have hr1 : (allocTree (Owner.inst a) t H.cells).1[r]? = some c := by
    obtain ⟨c', hc', ho', hk⟩ := hal.1.ext.keep r c hr
    obtain ⟨e, he, _⟩ := hal.1
    rw [he, List.getElem?_append_left (getElem?_lt hr)]; exact hr
  have hext : Ext (· = Owner.inst a) H.cells (setBody (allocTree (Owner.inst a) t H.cells).1 r b) :=
    hal.1.ext.trans (setBody_ext b hr1 hown)
  have hcl : Closed (setBody (allocTree (Owner.inst a) t H.cells).1 r b) := by
    apply setBody_closed (hal.1.closed hi.closed) hr1
    intro x hx
    rcases hb x hx with h1 | h2
    · exact hal.1.refsIn (hi.closed r c hr) x h1
    · rw [hown]; exact hal.2 x h2
  refine ⟨hext, ?_⟩
  exact Inv.of_ext (H' := { H with cells := setBody (allocTree (Owner.inst a) t H.cells).1 r b }) hi hext hcl
    (by simp) [] (by simp) (by simp) (by intro i hi'; injection hi' with hi'; subst hi'; exact ha) [] (by simp) (by simp)

theorem storeSet_refs {st : List (Key × Val)} {k : Key} {v : Val} {c : Nat} :
    ∀ x ∈ (Body.obj c (storeSet st k v)).refs, x ∈ (Body.obj c st).refs ∨ x ∈ v.refs := by
  intro x hx
  simp only [Body.refs, List.mem_flatMap] at hx ⊢
  obtain ⟨kv, hkv, hx⟩ := hx
  unfold storeSet at hkv
  split at hkv
  · simp only [List.mem_map] at hkv
    obtain ⟨kv0, hkv0, rfl⟩ := hkv
    split at hx
    · exact Or.inr hx
    · exact Or.inl ⟨kv0, hkv0, hx⟩
  · rcases List.mem_append.mp hkv with h | h
    · exact Or.inl ⟨kv, h, hx⟩
    · simp at h; subst h; exact Or.inr hx

theorem append_refs {xs : List Val} {v : Val} :
    ∀ x ∈ (Body.list (xs ++ [v])).refs, x ∈ (Body.list xs).refs ∨ x ∈ v.refs := by
  intro x hx
  simp only [Body.refs, List.mem_flatMap] at hx ⊢
  obtain ⟨w, hw, hx⟩ := hx
  rcases List.mem_append.mp hw with h | h
  · exact Or.inl ⟨w, h, hx⟩
  · simp at h; subst h; exact Or.inr hx

theorem set_refs {xs : List Val} {i : Nat} {v : Val} :
    ∀ x ∈ (Body.list (xs.set i v)).refs, x ∈ (Body.list xs).refs ∨ x ∈ v.refs := by
  intro x hx
  simp only [Body.refs, List.mem_flatMap] at hx ⊢
  obtain ⟨w, hw, hx⟩ := hx
  rcases List.mem_or_eq_of_mem_set hw with h | h
  · exact Or.inl ⟨w, h, hx⟩
  · subst h; exact Or.inr hx

/-- creation of an instance out of a pure tree -/
theorem create_sound {H : Heap} (t : Tree) (c : Nat) (root : Addr) (hi : Inv H)
    (hroot : (allocTree (Owner.inst H.insts.length) t H.cells).2 = Val.ref root) :
    Ext (· = Owner.inst H.insts.length) H.cells (allocTree (Owner.inst H.insts.length) t H.cells).1 ∧
    Inv { H with cells := (allocTree (Owner.inst H.insts.length) t H.cells).1, insts := H.insts ++ [(c, root)] } := by
  have hal := allocTree_ok (Owner.inst H.insts.length) t H.cells
  refine ⟨hal.1.ext, ?_⟩
  refine Inv.of_ext hi hal.1.ext (hal.1.closed hi.closed) (by simp) [(c, root)] rfl ?_ ?_ [] (by simp) (by simp)
  · intro j cr hj
    have hj0 : j = 0 := by
      have := (List.getElem?_eq_some_iff.mp hj).1; simp at this; exact this
    subst hj0
    simp at hj; subst hj
    obtain ⟨c', hc', ho'⟩ := hal.2 root (by rw [hroot]; simp [Val.refs])
    exact ⟨c', hc', by simpa using ho'⟩
  · intro i hi'; injection hi' with hi'; subst hi'; simp

theorem classSafe_owner {S : Schema} {H : Heap} {op : Op} {a : Nat} {p : List Step} {r : Addr} {c : Cell}
    (hw : writeOwner S H op = (match mutTarget S H a p with
      | .ok (some r) => (H.cells[r]?).map (·.own)
      | _ => Option.none))
    (hsafe : classSafe S H op = true) (ht : mutTarget S H a p = .ok (some r)) (hc : H.cells[r]? = some c)
    (hm : Mine a c.own) : c.own = Owner.inst a := by
  rcases hm with h | h
  · exact h
  · exfalso
    unfold classSafe at hsafe
    rw [hw, ht] at hsafe
    simp [hc, h] at hsafe

theorem step_sound {S : Schema} {H H' : Heap} {op : Op} (hi : Inv H) (hs : step S H op = .ok H')
    (hsafe : classSafe S H op = true) :
    Ext (opOwners H op) H.cells H'.cells ∧ Inv H' ∧
      (H'.insts = H.insts ∨ ∃ cr, H'.insts = H.insts ++ [cr] ∧ op.target H = H.insts.length) := by
  cases op with
  | new c =>
    simp only [step] at hs
    obtain ⟨t, _, hs⟩ := bind_ok hs
    split at hs
    · rename_i root hroot
      injection hs with hs; subst hs
      have := create_sound t c root hi hroot
      exact ⟨this.1, this.2, Or.inr ⟨_, rfl, rfl⟩⟩
    · simp at hs
  | read a p =>
    simp only [step] at hs
    obtain ⟨_, _, hs⟩ := bind_ok hs
    obtain ⟨_, _, hs⟩ := bind_ok hs
    injection hs with hs; subst hs
    exact ⟨(Ext.refl (fun _ => False) _), hi, Or.inl rfl⟩
  | encode a =>
    simp only [step] at hs
    obtain ⟨_, _, hs⟩ := bind_ok hs
    injection hs with hs; subst hs
    exact ⟨(Ext.refl (fun _ => False) _), hi, Or.inl rfl⟩
  | assign a p k t =>
    simp only [step] at hs
    obtain ⟨ro, hr, hs⟩ := bind_ok hs
    cases ro with
    | none => simp at hs
    | some r =>
      simp only at hs
      obtain ⟨ha, c, hc, hm⟩ := mutTarget_owned hi hr
      have hown := classSafe_owner (op := .assign a p k t) rfl hsafe hr hc hm
      rw [hc] at hs
      rcases c with ⟨o, b⟩
      cases b with
      | list xs => simp at hs
      | buf bs => simp at hs
      | obj cc st =>
        simp only at hs
        obtain ⟨t', _, hs⟩ := bind_ok hs
        injection hs with hs; subst hs
        have := mutate_sound t' (.obj cc (storeSet st k (allocTree (Owner.inst a) t' H.cells).2)) hi ha hc hown storeSet_refs
        exact ⟨this.1, this.2, Or.inl rfl⟩
  | append a p t =>
    simp only [step] at hs
    obtain ⟨ro, hr, hs⟩ := bind_ok hs
    cases ro with
    | none =>
      simp only at hs
      injection hs with hs; subst hs
      exact ⟨Ext.refl _ _, hi, Or.inl rfl⟩
    | some r =>
      simp only at hs
      obtain ⟨ha, c, hc, hm⟩ := mutTarget_owned hi hr
      have hown := classSafe_owner (op := .append a p t) rfl hsafe hr hc hm
      rw [hc] at hs
      rcases c with ⟨o, b⟩
      cases b with
      | obj cc st => simp at hs
      | buf bs => simp at hs
      | list xs =>
        simp only at hs
        injection hs with hs; subst hs
        have := mutate_sound t (.list (xs ++ [(allocTree (Owner.inst a) t H.cells).2])) hi ha hc hown append_refs
        exact ⟨this.1, this.2, Or.inl rfl⟩
  | setIdx a p i t =>
    simp only [step] at hs
    obtain ⟨ro, hr, hs⟩ := bind_ok hs
    cases ro with
    | none => simp at hs
    | some r =>
      simp only at hs
      obtain ⟨ha, c, hc, hm⟩ := mutTarget_owned hi hr
      have hown := classSafe_owner (op := .setIdx a p i t) rfl hsafe hr hc hm
      rw [hc] at hs
      rcases c with ⟨o, b⟩
      cases b with
      | obj cc st => simp at hs
      | buf bs => simp at hs
      | list xs =>
        simp only at hs
        obtain ⟨xs', hxs, hs⟩ := bind_ok hs
        injection hs with hs; subst hs
        have hx : xs' = xs.set i (allocTree (Owner.inst a) t H.cells).2 := by
          unfold listSet at hxs
          split at hxs
          · injection hxs with hxs; exact hxs.symm
          · simp at hxs
        subst hx
        have := mutate_sound t (.list (xs.set i (allocTree (Owner.inst a) t H.cells).2)) hi ha hc hown set_refs
        exact ⟨this.1, this.2, Or.inl rfl⟩
  | mkbuf a =>
    simp only [step] at hs
    obtain ⟨bs, _, hs⟩ := bind_ok hs
    injection hs with hs; subst hs
    have hal : AllocOK Owner.ext H.cells (H.cells ++ [⟨Owner.ext, Body.buf bs⟩]) :=
      AllocOK.snoc (by intro r hr; simp [Body.refs] at hr)
    refine ⟨hal.ext, ?_, Or.inl rfl⟩
    refine Inv.of_ext (H' := { H with cells := H.cells ++ [⟨Owner.ext, Body.buf bs⟩], bufs := H.bufs ++ [H.cells.length] })
      hi hal.ext (hal.closed hi.closed) (by simp) [] (by simp) (by simp) (by simp) [H.cells.length] rfl ?_
    intro x hx
    simp at hx; subst hx
    exact ⟨⟨Owner.ext, Body.buf bs⟩, by simp, rfl⟩
  | decode c b =>
    simp only [step] at hs
    split at hs
    · simp at hs
    · rename_i ba hba
      split at hs
      · rename_i o bs hcell
        obtain ⟨ct, _, hs⟩ := bind_ok hs
        split at hs
        · rename_i root hroot
          injection hs with hs; subst hs
          have := create_sound ct.2 ct.1 root hi hroot
          exact ⟨this.1, this.2, Or.inr ⟨_, rfl, rfl⟩⟩
        · simp at hs
      · simp at hs
  | scribble b =>
    simp only [step] at hs
    split at hs
    · simp at hs
    · rename_i ba hba
      split at hs
      · rename_i o bs hcell
        injection hs with hs; subst hs
        obtain ⟨c, hc, ho⟩ := hi.bufs b ba hba
        have hext : Ext (· = Owner.ext) H.cells (setBody H.cells ba (.buf (bs.map (fun _ => 255)))) :=
          setBody_ext _ hc ho
        refine ⟨hext, ?_, Or.inl rfl⟩
        refine Inv.of_ext (H' := { H with cells := setBody H.cells ba (.buf (bs.map (fun _ => 255))) })
          hi hext ?_ (by simp) [] (by simp) (by simp) (by simp) [] (by simp) (by simp)
        exact setBody_closed hi.closed hc (by intro r hr; simp [Body.refs] at hr)
      · simp at hs

  | copy b pb k a pa =>
    simp only [step] at hs
    obtain ⟨ro, hr, hs⟩ := bind_ok hs
    cases ro with
    | none => simp at hs
    | some r =>
      simp only at hs
      obtain ⟨_, _, hs⟩ := bind_ok hs
      obtain ⟨_, _, hs⟩ := bind_ok hs
      obtain ⟨hb, c, hc, hm⟩ := mutTarget_owned hi hr
      have hown := classSafe_owner (op := .copy b pb k a pa) rfl hsafe hr hc hm
      rw [hc] at hs
      rcases c with ⟨o, bd⟩
      cases bd with
      | list xs => simp at hs
      | buf bs => simp at hs
      | obj cc st =>
        simp only at hs
        obtain ⟨t, _, hs⟩ := bind_ok hs
        obtain ⟨t', _, hs⟩ := bind_ok hs
        injection hs with hs; subst hs
        have := mutate_sound t' (.obj cc (storeSet st k (allocTree (Owner.inst b) t' H.cells).2)) hi hb hc hown storeSet_refs
        exact ⟨this.1, this.2, Or.inl rfl⟩
  | clone a =>
    simp only [step] at hs
    obtain ⟨cr, _, hs⟩ := bind_ok hs
    split at hs
    · obtain ⟨t, _, hs⟩ := bind_ok hs
      split at hs
      · rename_i root hroot
        injection hs with hs; subst hs
        have := create_sound t cr.1 root hi hroot
        exact ⟨this.1, this.2, Or.inr ⟨_, rfl, rfl⟩⟩
      · simp at hs
    · simp at hs

/-- with the repaired default every operation is class-safe: no read ever hands out a class-level cell -/
theorem classSafe_of_fresh {S : Schema} (hS : S.freshArrayDefault = true) {H : Heap} (hi : Inv H) (op : Op) :
    classSafe S H op = true := by
  have key : ∀ (a : Nat) (p : List Step),
      (match mutTarget S H a p with
        | .ok (some r) => (H.cells[r]?).map (·.own)
        | _ => Option.none) ≠ some Owner.cls := by
    intro a p
    cases hm : mutTarget S H a p with
    | error e => simp
    | ok ro =>
      cases ro with
      | none => simp
      | some r =>
        obtain ⟨c, hc, ho⟩ := mutTarget_owned_fresh hS hi hm
        simp [hc, ho]
  cases op <;> simp only [classSafe, writeOwner, bne_iff_ne, ne_eq] <;> first | exact key _ _ | simp

/-! ### the invariant holds in every state a class-safe history reaches -/

theorem stepK_inv {S : Schema} {H : Heap} {op : Op} (hi : Inv H) (hsafe : classSafe S H op = true) :
    Inv (stepK S H op) := by
  unfold stepK
  cases hs : step S H op with
  | ok H' => exact (step_sound hi hs hsafe).2.1
  | error e => exact hi

theorem run_inv {S : Schema} : ∀ (ops : List Op) (H : Heap), Inv H → safeRun S H ops = true → Inv (run S H ops)
  | [], H, hi, _ => hi
  | op :: ops, H, hi, hs => by
    simp only [safeRun, Bool.and_eq_true] at hs
    exact run_inv ops (stepK S H op) (stepK_inv hi hs.1) hs.2

/-- with the repaired default every history is class-safe -/
theorem safeRun_of_fresh {S : Schema} (hS : S.freshArrayDefault = true) :
    ∀ (ops : List Op) (H : Heap), Inv H → safeRun S H ops = true
  | [], _, _ => rfl
  | op :: ops, H, hi => by
    simp only [safeRun, Bool.and_eq_true]
    exact ⟨classSafe_of_fresh hS hi op, safeRun_of_fresh hS ops _ (stepK_inv hi (classSafe_of_fresh hS hi op))⟩

theorem safeRun_append {S : Schema} : ∀ (ops : List Op) (H : Heap) (op : Op),
    safeRun S H (ops ++ [op]) = true → safeRun S H ops = true ∧ classSafe S (run S H ops) op = true
  | [], H, op, h => by simpa [safeRun, run] using h
  | o :: ops, H, op, h => by
    simp only [List.cons_append, safeRun, Bool.and_eq_true] at h
    have := safeRun_append ops (stepK S H o) op h.2
    simp only [safeRun, Bool.and_eq_true, run, List.foldl_cons]
    exact ⟨⟨h.1, this.1⟩, this.2⟩

theorem run_append (S : Schema) (H : Heap) (ops : List Op) (op : Op) :
    run S H (ops ++ [op]) = stepK S (run S H ops) op := by
  simp [run, List.foldl_append]


/-! ### frame property of one operation -/

theorem opOwners_not_mine {H : Heap} {op : Op} {b : Nat} (hb : b ≠ op.target H) {o : Owner}
    (hm : Mine b o) : ¬ opOwners H op o := by
  intro hp
  cases op <;> simp only [opOwners, Op.target] at hp hb <;>
    first
    | exact hp
    | (rcases hm with h | h <;> rw [h] at hp <;> first | (injection hp with hp; exact hb hp) | cases hp)

/-- what an operation about another instance leaves alone: the instance table entry of `b` and every observation that
    starts inside `b`'s own or class-level cells -/
theorem frame_core {S : Schema} {H H' : Heap} {op : Op} (hi : Inv H) (hs : step S H op = .ok H')
    (hsafe : classSafe S H op = true) {b : Nat} (hb : b ≠ op.target H) :
    H'.insts[b]? = H.insts[b]? ∧
    ∀ (n : Nat) (v : Val), RefsIn (Mine b) H.cells v.refs → deref S n H'.cells v = deref S n H.cells v := by
  obtain ⟨hext, _, hins⟩ := step_sound hi hs hsafe
  constructor
  · rcases hins with hins | ⟨cr, hins, htgt⟩
    · rw [hins]
    · rw [hins]
      rw [htgt] at hb
      by_cases hlt : b < H.insts.length
      · exact List.getElem?_append_left hlt
      · have hle := Nat.le_of_not_lt hlt
        rw [List.getElem?_append_right hle, List.getElem?_eq_none_iff.mpr hle, List.getElem?_eq_none_iff]
        simp; omega
  · intro n v hv
    apply deref_agree S (Mine b) H.cells H'.cells ?_ hi.closed (hi.refs0 b) n v hv
    intro a c hc hq
    obtain ⟨c', hc', _, hk⟩ := hext.keep a c hc
    rw [hc', hk (opOwners_not_mine hb hq)]

/-- one-step frame property for views -/
theorem step_frame {S : Schema} {H H' : Heap} {op : Op} (hi : Inv H) (hs : step S H op = .ok H')
    (hsafe : classSafe S H op = true) {b : Nat} (hb : b ≠ op.target H) (n : Nat) :
    view S n H' b = view S n H b := by
  obtain ⟨hins, hd⟩ := frame_core hi hs hsafe hb
  unfold view
  rw [hins]
  cases hcr : H.insts[b]? with
  | none => rfl
  | some cr =>
    simp only
    congr 1
    apply hd
    obtain ⟨c, hc, ho⟩ := hi.roots b cr hcr
    intro r hr
    simp [Val.refs] at hr; subst hr
    exact ⟨c, hc, Or.inl ho⟩

theorem step_frame_encode {S : Schema} {H H' : Heap} {op : Op} (hi : Inv H) (hs : step S H op = .ok H')
    (hsafe : classSafe S H op = true) {b : Nat} (hb : b ≠ op.target H) :
    encodeInst S H' b = encodeInst S H b := by
  obtain ⟨hins, hd⟩ := frame_core hi hs hsafe hb
  unfold encodeInst
  rw [hins]
  cases hcr : H.insts[b]? with
  | none => rfl
  | some cr =>
    simp only
    congr 1
    apply hd
    obtain ⟨c, hc, ho⟩ := hi.roots b cr hcr
    intro r hr
    simp [Val.refs] at hr; subst hr
    exact ⟨c, hc, Or.inl ho⟩


end NasdaqModel.Heap
