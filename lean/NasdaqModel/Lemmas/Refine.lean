import NasdaqModel.Model.Refine
import NasdaqModel.Lemmas.FramingProgress
import NasdaqModel.Lemmas.SessionLemmas3
/-
Tokenisation (`Refine.tokens`): unfolding equations, independence of the fuel, and **segmentation independence** —
`tokens (a ++ b)` is `tokens a` continued on its remainder — for every protocol whose `deserialize()` is a `Framer`:
frames are non-empty and, wherever the stability test `st` holds, a frame that could be cut (or an exception that was
raised) is not changed by bytes arriving behind it.
-/
namespace NasdaqModel.Refine
open NasdaqModel Py Framing

variable {μ : Type}

/-- what the refinement needs of a `deserialize()`, relative to a stability test `st` on buffers -/
structure Framer (P : Proto μ) (st : Bytes → Bool) : Prop where
  consuming : Consuming P
  some_mono : ∀ {buf : Bytes} {m : μ} {r : Bytes} (more : Bytes), st buf = true → P.deser buf = .ok (some (m, r)) →
    P.deser (buf ++ more) = .ok (some (m, r ++ more))
  err_mono : ∀ {buf : Bytes} {e : Err} (more : Bytes), st buf = true → P.deser buf = .error e →
    ∃ e', P.deser (buf ++ more) = .error e'
  st_prefix : ∀ {buf more : Bytes}, st (buf ++ more) = true → st buf = true

/-! ### `Toks` algebra -/

@[simp] theorem Toks.eta (t : Toks μ) : (⟨t.toks, t.rest, t.fin⟩ : Toks μ) = t := rfl

@[simp] theorem Toks.prepend_toks (pre : List (Tok μ)) (t : Toks μ) : (t.prepend pre).toks = pre ++ t.toks := rfl
@[simp] theorem Toks.prepend_rest (pre : List (Tok μ)) (t : Toks μ) : (t.prepend pre).rest = t.rest := rfl
@[simp] theorem Toks.prepend_fin (pre : List (Tok μ)) (t : Toks μ) : (t.prepend pre).fin = t.fin := rfl

theorem Toks.prepend_nil (t : Toks μ) : t.prepend [] = t := rfl

theorem Toks.prepend_prepend (a b : List (Tok μ)) (t : Toks μ) : (t.prepend b).prepend a = t.prepend (a ++ b) := by
  simp [Toks.prepend]

theorem Toks.prepend_extend (P : Proto μ) (pre : List (Tok μ)) (t : Toks μ) (more : Bytes) :
    (t.prepend pre).extend P more = (t.extend P more).prepend pre := by
  unfold Toks.extend
  cases h : t.fin with
  | true => simp [Toks.prepend, h]
  | false => simp [Toks.prepend, h]

theorem Toks.extend_fin (P : Proto μ) (t : Toks μ) (more : Bytes) (h : t.fin = true) :
    t.extend P more = { t with rest := t.rest ++ more } := by
  simp [Toks.extend, h]

theorem Toks.extend_nfin (P : Proto μ) (t : Toks μ) (more : Bytes) (h : t.fin = false) :
    t.extend P more = (tokens P (t.rest ++ more)).prepend t.toks := by
  simp [Toks.extend, h, Toks.prepend]

theorem Toks.frames_prepend (num : μ → Nat) (pre : List (Tok μ)) (t : Toks μ) :
    (t.prepend pre).frames num = pre.map (Tok.frame num) ++ t.frames num := by
  simp [Toks.frames]

theorem tokMsgs_append (a b : List (Tok μ)) : tokMsgs (a ++ b) = tokMsgs a ++ tokMsgs b := by
  simp [tokMsgs, List.filterMap_append]

theorem Toks.msgs_prepend (pre : List (Tok μ)) (t : Toks μ) : (t.prepend pre).msgs = tokMsgs pre ++ t.msgs := by
  simp [Toks.msgs, tokMsgs_append]

/-- the session machine's message numbers of a token list are the numbers of its messages -/
theorem msgsOf_frames (num : μ → Nat) (l : List (Tok μ)) :
    Sess.msgsOf (l.map (Tok.frame num)) = (tokMsgs l).map num := by
  induction l with
  | nil => rfl
  | cons k l ih =>
    cases k <;> simp [Sess.msgsOf, tokMsgs, Tok.frame] at ih ⊢ <;> exact ih

/-! ### unfolding `tokensF` -/

theorem tokensF_nil (P : Proto μ) (fuel : Nat) : tokensF P fuel [] = ⟨[], [], false⟩ := by
  cases fuel <;> simp [tokensF]

theorem tokensF_err (P : Proto μ) (fuel : Nat) {buf : Bytes} {e : Err} (hb : buf ≠ []) (h : P.deser buf = .error e) :
    tokensF P (fuel + 1) buf = ⟨[.bad], buf, true⟩ := by
  have hl : ¬ buf.length = 0 := fun h0 => hb (List.eq_nil_of_length_eq_zero h0)
  simp [tokensF, hl, h]

theorem tokensF_none (P : Proto μ) (fuel : Nat) {buf : Bytes} (h : P.deser buf = .ok none) :
    tokensF P fuel buf = ⟨[], buf, false⟩ := by
  cases fuel with
  | zero => rfl
  | succ fuel =>
    unfold tokensF
    split
    · rfl
    · rw [h]

theorem tokensF_logout (P : Proto μ) (fuel : Nat) {buf rest : Bytes} {m : μ} (hb : buf ≠ [])
    (h : P.deser buf = .ok (some (m, rest))) (hl : P.isLogout m = true) :
    tokensF P (fuel + 1) buf = ⟨[.logout], rest, true⟩ := by
  have hl0 : ¬ buf.length = 0 := fun h0 => hb (List.eq_nil_of_length_eq_zero h0)
  simp [tokensF, hl0, h, hl]

theorem tokensF_cons (P : Proto μ) (fuel : Nat) {buf rest : Bytes} {m : μ} (hb : buf ≠ [])
    (h : P.deser buf = .ok (some (m, rest))) (hl : P.isLogout m = false) :
    tokensF P (fuel + 1) buf = (tokensF P fuel rest).prepend [classify P m] := by
  have hl0 : ¬ buf.length = 0 := fun h0 => hb (List.eq_nil_of_length_eq_zero h0)
  simp [tokensF, hl0, h, hl, Toks.prepend]

/-- one more unit of fuel changes nothing once the fuel covers the buffer -/
theorem tokensF_succ (P : Proto μ) (hC : Consuming P) : ∀ (fuel : Nat) (buf : Bytes), buf.length ≤ fuel →
    tokensF P (fuel + 1) buf = tokensF P fuel buf := by
  intro fuel
  induction fuel with
  | zero =>
    intro buf h
    have : buf = [] := List.eq_nil_of_length_eq_zero (Nat.le_zero.mp h)
    subst this; simp [tokensF_nil]
  | succ fuel ih =>
    intro buf h
    by_cases hb : buf = []
    · subst hb; simp [tokensF_nil]
    · cases hd : P.deser buf with
      | error e => rw [tokensF_err P _ hb hd, tokensF_err P _ hb hd]
      | ok o =>
        cases o with
        | none => rw [tokensF_none P _ hd, tokensF_none P _ hd]
        | some mr =>
          obtain ⟨m, rest⟩ := mr
          have hlt := hC _ _ _ hd
          cases hl : P.isLogout m with
          | true => rw [tokensF_logout P _ hb hd hl, tokensF_logout P _ hb hd hl]
          | false =>
            rw [tokensF_cons P _ hb hd hl, tokensF_cons P _ hb hd hl, ih rest (by omega)]

theorem tokensF_add (P : Proto μ) (hC : Consuming P) (buf : Bytes) : ∀ k, tokensF P (buf.length + k) buf = tokens P buf := by
  intro k
  induction k with
  | zero => rfl
  | succ k ih => rw [← Nat.add_assoc, tokensF_succ P hC _ _ (by omega), ih]

theorem tokensF_ge (P : Proto μ) (hC : Consuming P) {fuel : Nat} {buf : Bytes} (h : buf.length ≤ fuel) :
    tokensF P fuel buf = tokens P buf := by
  have := tokensF_add P hC buf (fuel - buf.length)
  rwa [Nat.add_sub_cancel' h] at this

/-! ### unfolding `tokens` -/

@[simp] theorem tokens_nil (P : Proto μ) : tokens P [] = ⟨[], [], false⟩ := rfl

theorem tokens_err (P : Proto μ) {buf : Bytes} {e : Err} (hb : buf ≠ []) (h : P.deser buf = .error e) :
    tokens P buf = ⟨[.bad], buf, true⟩ := by
  obtain ⟨n, hn⟩ := Nat.exists_eq_succ_of_ne_zero (fun h0 => hb (List.eq_nil_of_length_eq_zero h0))
  unfold tokens; rw [hn]; exact tokensF_err P n hb h

theorem tokens_none (P : Proto μ) {buf : Bytes} (h : P.deser buf = .ok none) : tokens P buf = ⟨[], buf, false⟩ :=
  tokensF_none P _ h

theorem tokens_logout (P : Proto μ) {buf rest : Bytes} {m : μ} (hb : buf ≠ [])
    (h : P.deser buf = .ok (some (m, rest))) (hl : P.isLogout m = true) : tokens P buf = ⟨[.logout], rest, true⟩ := by
  obtain ⟨n, hn⟩ := Nat.exists_eq_succ_of_ne_zero (fun h0 => hb (List.eq_nil_of_length_eq_zero h0))
  unfold tokens; rw [hn]; exact tokensF_logout P n hb h hl

theorem tokens_cons (P : Proto μ) (hC : Consuming P) {buf rest : Bytes} {m : μ} (hb : buf ≠ [])
    (h : P.deser buf = .ok (some (m, rest))) (hl : P.isLogout m = false) :
    tokens P buf = (tokens P rest).prepend [classify P m] := by
  obtain ⟨n, hn⟩ := Nat.exists_eq_succ_of_ne_zero (fun h0 => hb (List.eq_nil_of_length_eq_zero h0))
  have hlt := hC _ _ _ h
  unfold tokens; rw [hn, tokensF_cons P n hb h hl, tokensF_ge P hC (by omega)]; rfl

/-! ### unfolding `stable` -/

theorem stableF_nil (P : Proto μ) (st : Bytes → Bool) (fuel : Nat) : stableF P st fuel [] = true := by
  cases fuel <;> simp [stableF]

theorem stableF_cons (P : Proto μ) (st : Bytes → Bool) (fuel : Nat) {buf rest : Bytes} {m : μ} (hb : buf ≠ [])
    (h : P.deser buf = .ok (some (m, rest))) (hl : P.isLogout m = false) :
    stableF P st (fuel + 1) buf = (st buf && stableF P st fuel rest) := by
  have hl0 : ¬ buf.length = 0 := fun h0 => hb (List.eq_nil_of_length_eq_zero h0)
  simp [stableF, hl0, h, hl]

theorem stableF_stop (P : Proto μ) (st : Bytes → Bool) (fuel : Nat) {buf : Bytes} (hb : buf ≠ [])
    (h : ∀ m rest, P.deser buf = .ok (some (m, rest)) → P.isLogout m = true) :
    stableF P st (fuel + 1) buf = st buf := by
  have hl0 : ¬ buf.length = 0 := fun h0 => hb (List.eq_nil_of_length_eq_zero h0)
  unfold stableF
  simp only [hl0, if_false]
  split
  · rename_i m rest hd
    simp [h m rest hd]
  · simp

theorem stableF_succ (P : Proto μ) (st : Bytes → Bool) (hC : Consuming P) : ∀ (fuel : Nat) (buf : Bytes), buf.length ≤ fuel →
    stableF P st (fuel + 1) buf = stableF P st fuel buf := by
  intro fuel
  induction fuel with
  | zero =>
    intro buf h
    have : buf = [] := List.eq_nil_of_length_eq_zero (Nat.le_zero.mp h)
    subst this; simp [stableF_nil]
  | succ fuel ih =>
    intro buf h
    by_cases hb : buf = []
    · subst hb; simp [stableF_nil]
    · by_cases hx : ∃ m rest, P.deser buf = .ok (some (m, rest)) ∧ P.isLogout m = false
      · obtain ⟨m, rest, hd, hl⟩ := hx
        have hlt := hC _ _ _ hd
        rw [stableF_cons P st _ hb hd hl, stableF_cons P st _ hb hd hl, ih rest (by omega)]
      · have hstop : ∀ m rest, P.deser buf = .ok (some (m, rest)) → P.isLogout m = true := by
          intro m rest hd
          cases hl : P.isLogout m with
          | true => rfl
          | false => exact absurd ⟨m, rest, hd, hl⟩ hx
        rw [stableF_stop P st _ hb hstop, stableF_stop P st _ hb hstop]

theorem stableF_ge (P : Proto μ) (st : Bytes → Bool) (hC : Consuming P) {fuel : Nat} {buf : Bytes} (h : buf.length ≤ fuel) :
    stableF P st fuel buf = stable P st buf := by
  have key : ∀ k, stableF P st (buf.length + k) buf = stable P st buf := by
    intro k
    induction k with
    | zero => rfl
    | succ k ih => rw [← Nat.add_assoc, stableF_succ P st hC _ _ (by omega), ih]
  have := key (fuel - buf.length)
  rwa [Nat.add_sub_cancel' h] at this

@[simp] theorem stable_nil (P : Proto μ) (st : Bytes → Bool) : stable P st [] = true := rfl

theorem stable_cons (P : Proto μ) (st : Bytes → Bool) (hC : Consuming P) {buf rest : Bytes} {m : μ} (hb : buf ≠ [])
    (h : P.deser buf = .ok (some (m, rest))) (hl : P.isLogout m = false) :
    stable P st buf = (st buf && stable P st rest) := by
  obtain ⟨n, hn⟩ := Nat.exists_eq_succ_of_ne_zero (fun h0 => hb (List.eq_nil_of_length_eq_zero h0))
  have hlt := hC _ _ _ h
  unfold stable; rw [hn, stableF_cons P st n hb h hl, stableF_ge P st hC (by omega)]; rfl

theorem stable_stop (P : Proto μ) (st : Bytes → Bool) {buf : Bytes} (hb : buf ≠ [])
    (h : ∀ m rest, P.deser buf = .ok (some (m, rest)) → P.isLogout m = true) : stable P st buf = st buf := by
  obtain ⟨n, hn⟩ := Nat.exists_eq_succ_of_ne_zero (fun h0 => hb (List.eq_nil_of_length_eq_zero h0))
  unfold stable; rw [hn]; exact stableF_stop P st n hb h

/-- the head of a stable non-empty buffer passes the test -/
theorem stable_head (P : Proto μ) (st : Bytes → Bool) {buf : Bytes} (hb : buf ≠ []) (h : stable P st buf = true) :
    st buf = true := by
  obtain ⟨n, hn⟩ := Nat.exists_eq_succ_of_ne_zero (fun h0 => hb (List.eq_nil_of_length_eq_zero h0))
  have hl0 : ¬ buf.length = 0 := fun h0 => hb (List.eq_nil_of_length_eq_zero h0)
  unfold stable at h
  rw [hn] at h
  unfold stableF at h
  simp only [hl0, if_false, Bool.and_eq_true] at h
  exact h.1

/-- a test that always holds makes every buffer stable (SoupBinTCP) -/
theorem stable_of_always (P : Proto μ) (st : Bytes → Bool) (h : ∀ b, st b = true) : ∀ (fuel : Nat) (buf : Bytes),
    stableF P st fuel buf = true := by
  intro fuel
  induction fuel with
  | zero => intro buf; rfl
  | succ fuel ih =>
    intro buf
    unfold stableF
    split
    · rfl
    · rw [h buf, Bool.true_and]
      split
      · split
        · rfl
        · exact ih _
      · rfl

/-! ### segmentation independence -/

/-- **Tokens are independent of segmentation.**  If the stream `a ++ b` is stable then so is its prefix `a`, and tokenising
    `a ++ b` is tokenising `a` and continuing on what `a` left over once `b` has arrived. -/
theorem tokens_append_aux {P : Proto μ} {st : Bytes → Bool} (F : Framer P st) : ∀ (n : Nat) (a : Bytes), a.length ≤ n →
    ∀ b, stable P st (a ++ b) = true → stable P st a = true ∧ tokens P (a ++ b) = (tokens P a).extend P b := by
  intro n
  induction n with
  | zero =>
    intro a ha b _
    have : a = [] := List.eq_nil_of_length_eq_zero (Nat.le_zero.mp ha)
    subst this
    refine ⟨rfl, ?_⟩
    rw [tokens_nil, Toks.extend_nfin _ _ _ rfl]; rfl
  | succ n ih =>
    intro a ha b hs
    by_cases hb : a = []
    · subst hb
      refine ⟨rfl, ?_⟩
      rw [tokens_nil, Toks.extend_nfin _ _ _ rfl]; rfl
    · have hab : a ++ b ≠ [] := by simp [hb]
      have hst : st a = true := F.st_prefix (stable_head P st hab hs)
      cases hd : P.deser a with
      | error e =>
        obtain ⟨e', he'⟩ := F.err_mono b hst hd
        refine ⟨?_, ?_⟩
        · rw [stable_stop P st hb (by intro m rest h; rw [hd] at h; cases h)]; exact hst
        · rw [tokens_err P hab he', tokens_err P hb hd, Toks.extend_fin _ _ _ rfl]
      | ok o =>
        cases o with
        | none =>
          refine ⟨?_, ?_⟩
          · rw [stable_stop P st hb (by intro m rest h; rw [hd] at h; cases h)]; exact hst
          · rw [tokens_none P hd, Toks.extend_nfin _ _ _ rfl]; rfl
        | some mr =>
          obtain ⟨m, rest⟩ := mr
          have hd' := F.some_mono b hst hd
          have hlt := F.consuming _ _ _ hd
          cases hl : P.isLogout m with
          | true =>
            refine ⟨?_, ?_⟩
            · rw [stable_stop P st hb (by intro m' rest' h; rw [hd] at h; cases h; exact hl)]; exact hst
            · rw [tokens_logout P hab hd' hl, tokens_logout P hb hd hl, Toks.extend_fin _ _ _ rfl]
          | false =>
            rw [stable_cons P st F.consuming hab hd' hl, Bool.and_eq_true] at hs
            obtain ⟨h1, h2⟩ := ih rest (by omega) b hs.2
            refine ⟨?_, ?_⟩
            · rw [stable_cons P st F.consuming hb hd hl, hst, h1]; rfl
            · rw [tokens_cons P F.consuming hab hd' hl, tokens_cons P F.consuming hb hd hl, h2, Toks.prepend_extend]

theorem tokens_append {P : Proto μ} {st : Bytes → Bool} (F : Framer P st) (a b : Bytes) (h : stable P st (a ++ b) = true) :
    tokens P (a ++ b) = (tokens P a).extend P b :=
  (tokens_append_aux F a.length a (Nat.le_refl _) b h).2

theorem stable_prefix {P : Proto μ} {st : Bytes → Bool} (F : Framer P st) (a b : Bytes) (h : stable P st (a ++ b) = true) :
    stable P st a = true :=
  (tokens_append_aux F a.length a (Nat.le_refl _) b h).1

/-- the tokens of a prefix are a prefix of the tokens -/
theorem tokens_toks_prefix {P : Proto μ} {st : Bytes → Bool} (F : Framer P st) (a b : Bytes) (h : stable P st (a ++ b) = true) :
    (tokens P a).toks <+: (tokens P (a ++ b)).toks := by
  rw [tokens_append F a b h]
  cases hf : (tokens P a).fin with
  | true => rw [Toks.extend_fin _ _ _ hf]; exact List.prefix_refl _
  | false => rw [Toks.extend_nfin _ _ _ hf]; exact List.prefix_append _ _

/-- once the tokenisation has met a logout / malformed frame, later bytes add nothing -/
theorem tokens_append_fin {P : Proto μ} {st : Bytes → Bool} (F : Framer P st) (a b : Bytes) (h : stable P st (a ++ b) = true)
    (hf : (tokens P a).fin = true) :
    (tokens P (a ++ b)).toks = (tokens P a).toks ∧ (tokens P (a ++ b)).fin = true ∧
      (tokens P (a ++ b)).rest = (tokens P a).rest ++ b := by
  rw [tokens_append F a b h, Toks.extend_fin _ _ _ hf]
  exact ⟨rfl, hf, rfl⟩

end NasdaqModel.Refine
