import NasdaqModel.Model.Monitor
/-
Invariants of Model/Monitor.lean (heartbeat monitors), proved per small step and lifted over event lists (C08, C09).
(Named HeartbeatLemmas because Lemmas/MonitorLemmas.lean is used by the session-machine work for something else.)
-/
namespace NasdaqModel.Monitor

/-! ### generic: invariants lift over runs -/

theorem run_nil (s : Sess) : s.run [] = s := rfl
theorem run_cons (s : Sess) (e : Ev) (evs : List Ev) : s.run (e :: evs) = (s.step e).run evs := rfl
theorem run_append (s : Sess) (a b : List Ev) : s.run (a ++ b) = (s.run a).run b := by
  simp [Sess.run, List.foldl_append]

theorem run_inv {P : Sess → Prop} (hstep : ∀ s e, P s → P (s.step e)) :
    ∀ (evs : List Ev) (s : Sess), P s → P (s.run evs) := by
  intro evs
  induction evs with
  | nil => intro s h; exact h
  | cons e evs ih => intro s h; exact ih _ (hstep s e h)

/-! ### field lemmas of the small steps -/

section fields
variable (s : Sess)

@[simp] theorem bump_now : s.bump.now = s.now + 1 := rfl
@[simp] theorem bump_loc : s.bump.loc = s.loc := rfl
@[simp] theorem bump_rem : s.bump.rem = s.rem := rfl
@[simp] theorem bump_closed : s.bump.closed = s.closed := rfl
@[simp] theorem bump_closeT : s.bump.closeT = s.closeT := rfl
@[simp] theorem bump_closedByMon : s.bump.closedByMon = s.closedByMon := rfl
@[simp] theorem bump_writes : s.bump.writes = s.writes := rfl
@[simp] theorem bump_recvs : s.bump.recvs = s.recvs := rfl

@[simp] theorem sendMsg_now (o : Origin) : (s.sendMsg o).now = s.now := rfl
@[simp] theorem sendMsg_rem (o : Origin) : (s.sendMsg o).rem = s.rem := rfl
@[simp] theorem sendMsg_closed (o : Origin) : (s.sendMsg o).closed = s.closed := rfl
@[simp] theorem sendMsg_closeT (o : Origin) : (s.sendMsg o).closeT = s.closeT := rfl
@[simp] theorem sendMsg_closedByMon (o : Origin) : (s.sendMsg o).closedByMon = s.closedByMon := rfl
@[simp] theorem sendMsg_recvs (o : Origin) : (s.sendMsg o).recvs = s.recvs := rfl
@[simp] theorem sendMsg_writes (o : Origin) :
    (s.sendMsg o).writes = { t := s.now, origin := o, live := !s.closed } :: s.writes := rfl
@[simp] theorem sendMsg_loc (o : Origin) : (s.sendMsg o).loc = if o.isHb then s.loc else s.loc.ping := rfl

@[simp] theorem dataReceived_now (k : RecvKind) : (s.dataReceived k).now = s.now := rfl
@[simp] theorem dataReceived_loc (k : RecvKind) : (s.dataReceived k).loc = s.loc := rfl
@[simp] theorem dataReceived_rem (k : RecvKind) : (s.dataReceived k).rem = s.rem.ping := rfl
@[simp] theorem dataReceived_closed (k : RecvKind) : (s.dataReceived k).closed = s.closed := rfl
@[simp] theorem dataReceived_closeT (k : RecvKind) : (s.dataReceived k).closeT = s.closeT := rfl
@[simp] theorem dataReceived_closedByMon (k : RecvKind) : (s.dataReceived k).closedByMon = s.closedByMon := rfl
@[simp] theorem dataReceived_writes (k : RecvKind) : (s.dataReceived k).writes = s.writes := rfl
@[simp] theorem dataReceived_recvs (k : RecvKind) : (s.dataReceived k).recvs = (s.now, k) :: s.recvs := rfl

@[simp] theorem close_now (b : Bool) : (s.close b).now = s.now := by unfold Sess.close; split <;> rfl
@[simp] theorem close_writes (b : Bool) : (s.close b).writes = s.writes := by unfold Sess.close; split <;> rfl
@[simp] theorem close_recvs (b : Bool) : (s.close b).recvs = s.recvs := by unfold Sess.close; split <;> rfl
@[simp] theorem close_closed (b : Bool) : (s.close b).closed = true := by
  unfold Sess.close; split <;> simp_all
theorem close_of_closed (b : Bool) (h : s.closed = true) : s.close b = s := by
  unfold Sess.close; simp [h]
theorem close_of_open (b : Bool) (h : s.closed = false) :
    s.close b = { s with closed := true, closeT := s.now, closedByMon := b, loc := s.loc.stop, rem := s.rem.stop } := by
  unfold Sess.close; simp [h]

end fields

@[simp] theorem ping_interval (m : Mon) : m.ping.interval = m.interval := rfl
@[simp] theorem ping_tol (m : Mon) : m.ping.tol = m.tol := rfl
@[simp] theorem ping_stop (m : Mon) : m.ping.stopWhenNoActivity = m.stopWhenNoActivity := rfl
@[simp] theorem ping_pinged (m : Mon) : m.ping.pinged = true := rfl
@[simp] theorem ping_missed (m : Mon) : m.ping.missed = m.missed := rfl
@[simp] theorem ping_left (m : Mon) : m.ping.left = m.left := rfl
@[simp] theorem ping_running (m : Mon) : m.ping.running = m.running := rfl
@[simp] theorem stop_interval (m : Mon) : m.stop.interval = m.interval := rfl
@[simp] theorem stop_tol (m : Mon) : m.stop.tol = m.tol := rfl
@[simp] theorem stop_stop (m : Mon) : m.stop.stopWhenNoActivity = m.stopWhenNoActivity := rfl
@[simp] theorem stop_pinged (m : Mon) : m.stop.pinged = m.pinged := rfl
@[simp] theorem stop_missed (m : Mon) : m.stop.missed = m.missed := rfl
@[simp] theorem stop_left (m : Mon) : m.stop.left = m.left := rfl
@[simp] theorem stop_running (m : Mon) : m.stop.running = false := rfl

/-- the life of a session never shrinks and is frozen by close -/
theorem life_open (s : Sess) (h : s.closed = false) : s.life = s.now := by simp [Sess.life, h]
theorem life_closed (s : Sess) (h : s.closed = true) : s.life = s.closeT := by simp [Sess.life, h]

/-! ### case analysis of the two timers -/

theorem tickLocal_stopped (s : Sess) (h : s.loc.running = false) : s.tickLocal = s := by
  simp [Sess.tickLocal, Mon.adv, h]

theorem tickLocal_wait (s : Sess) (h : s.loc.running = true) (h2 : 1 < s.loc.left) :
    s.tickLocal = { s with loc := { s.loc with left := s.loc.left - 1 } } := by
  have : ¬ s.loc.left ≤ 1 := by omega
  simp [Sess.tickLocal, Mon.adv, h, this]

theorem tickLocal_clear (s : Sess) (h : s.loc.running = true) (h2 : s.loc.left ≤ 1) (hp : s.loc.pinged = true) :
    s.tickLocal = { s with loc := { s.loc with pinged := false, missed := 0, left := s.loc.interval } } := by
  simp [Sess.tickLocal, Mon.adv, Mon.wake, h, h2, hp]

theorem tickLocal_emit (s : Sess) (h : s.loc.running = true) (h2 : s.loc.left ≤ 1) (hp : s.loc.pinged = false)
    (ht : s.loc.tol ≤ 1) (hs : s.loc.stopWhenNoActivity = false) :
    s.tickLocal = Sess.sendMsg { s with loc := { s.loc with missed := s.loc.missed + 1, left := s.loc.interval } } .mon := by
  have : s.loc.tol ≤ s.loc.missed + 1 := by omega
  simp [Sess.tickLocal, Mon.adv, Mon.wake, h, h2, hp, hs, this]

theorem tickRemote_stopped (s : Sess) (h : s.rem.running = false) : s.tickRemote = s := by
  simp [Sess.tickRemote, Mon.adv, h]

theorem tickRemote_wait (s : Sess) (h : s.rem.running = true) (h2 : 1 < s.rem.left) :
    s.tickRemote = { s with rem := { s.rem with left := s.rem.left - 1 } } := by
  have : ¬ s.rem.left ≤ 1 := by omega
  simp [Sess.tickRemote, Mon.adv, h, this]

theorem tickRemote_clear (s : Sess) (h : s.rem.running = true) (h2 : s.rem.left ≤ 1) (hp : s.rem.pinged = true) :
    s.tickRemote = { s with rem := { s.rem with pinged := false, missed := 0, left := s.rem.interval } } := by
  simp [Sess.tickRemote, Mon.adv, Mon.wake, h, h2, hp]

theorem tickRemote_miss (s : Sess) (h : s.rem.running = true) (h2 : s.rem.left ≤ 1) (hp : s.rem.pinged = false)
    (ht : s.rem.missed + 1 < s.rem.tol) :
    s.tickRemote = { s with rem := { s.rem with missed := s.rem.missed + 1, left := s.rem.interval } } := by
  have : ¬ s.rem.tol ≤ s.rem.missed + 1 := by omega
  simp [Sess.tickRemote, Mon.adv, Mon.wake, h, h2, hp, this]

theorem tickRemote_trip (s : Sess) (h : s.rem.running = true) (h2 : s.rem.left ≤ 1) (hp : s.rem.pinged = false)
    (ht : s.rem.tol ≤ s.rem.missed + 1) (hs : s.rem.stopWhenNoActivity = true) :
    s.tickRemote = Sess.close { s with rem := { s.rem with missed := s.rem.missed + 1, running := false } } true := by
  simp [Sess.tickRemote, Mon.adv, Mon.wake, h, h2, hp, hs, ht]

/-- what the remote tick can do to the rest of the session: nothing, or close it -/
theorem tickRemote_cases (s : Sess) :
    (∃ r, s.tickRemote = { s with rem := r }) ∨ (∃ r, s.tickRemote = Sess.close { s with rem := r } true) := by
  by_cases h : s.rem.adv.2 = true
  · right; exact ⟨s.rem.adv.1, by simp [Sess.tickRemote, h]⟩
  · left; exact ⟨s.rem.adv.1, by simp [Sess.tickRemote, h]⟩

/-- time of the newest live write, 0 if there is none -/
def lastLive : List Write → Nat
  | [] => 0
  | w :: ws => if w.live then w.t else lastLive ws

@[simp] theorem lastLive_cons_live (w : Write) (ws : List Write) (h : w.live = true) : lastLive (w :: ws) = w.t := by
  simp [lastLive, h]
@[simp] theorem lastLive_cons_dead (w : Write) (ws : List Write) (h : w.live = false) : lastLive (w :: ws) = lastLive ws := by
  simp [lastLive, h]

theorem lastLive_real (ws : List Write) : lastLive ws = 0 ∨ ∃ w ∈ ws, w.live = true ∧ w.t = lastLive ws := by
  induction ws with
  | nil => left; rfl
  | cons w ws ih =>
    unfold lastLive
    split
    · right; exact ⟨w, by simp, by assumption, rfl⟩
    · rcases ih with h | ⟨w', hm, hl, ht⟩
      · left; exact h
      · right; exact ⟨w', by simp [hm], hl, ht⟩

/-- the local monitor's side of a session with local interval `l` -/
structure InvL (l : Nat) (s : Sess) : Prop where
  int : s.loc.interval = l
  nostop : s.loc.stopWhenNoActivity = false
  tol : s.loc.tol ≤ 1
  running : s.loc.running = !s.closed
  left : s.closed = false → 1 ≤ s.loc.left ∧ s.loc.left ≤ l
  prog : s.closed = false → s.now + s.loc.left ≤ lastLive s.writes + (if s.loc.pinged then l else 2 * l)
  last_le : lastLive s.writes ≤ s.now
  cov : ∀ t, t + 2 * l ≤ s.life → ∃ w ∈ s.writes, w.live = true ∧ t < w.t ∧ w.t ≤ t + 2 * l

theorem invL_start (l r tl tr : Nat) (hl : 1 ≤ l) (htl : tl ≤ 1) : InvL l (startWith l r tl tr) := by
  constructor <;> simp [startWith, Mon.start, lastLive, Sess.life, *]
  omega

/-- the new window that ends at `now + 1` is covered as soon as the newest live write is recent enough and real -/
theorem cov_extend (l : Nat) (ws : List Write) (n : Nat)
    (hcov : ∀ t, t + 2 * l ≤ n → ∃ w ∈ ws, w.live = true ∧ t < w.t ∧ w.t ≤ t + 2 * l)
    (hlast : lastLive ws ≤ n + 1) (hrecent : n + 2 ≤ lastLive ws + 2 * l) (hreal : lastLive ws = 0 → n + 1 < 2 * l) :
    ∀ t, t + 2 * l ≤ n + 1 → ∃ w ∈ ws, w.live = true ∧ t < w.t ∧ w.t ≤ t + 2 * l := by
  intro t ht
  by_cases h : t + 2 * l ≤ n
  · exact hcov t h
  · have ht' : t + 2 * l = n + 1 := by omega
    rcases lastLive_real ws with h0 | ⟨w, hm, hl, hw⟩
    · have := hreal h0; omega
    · exact ⟨w, hm, hl, by omega, by omega⟩

theorem invL_advLocal (l : Nat) (hl : 1 ≤ l) (s : Sess) (h : InvL l s) : InvL l s.bump.tickLocal := by
  obtain ⟨hint, hns, htol, hrun, hleft, hprog, hlast, hcov⟩ := h
  cases hc : s.closed with
  | true =>
    have hr : s.bump.loc.running = false := by simp [hrun, hc]
    rw [tickLocal_stopped _ hr]
    constructor <;> simp_all [Sess.life]
    omega
  | false =>
    have hr : s.bump.loc.running = true := by simp [hrun, hc]
    obtain ⟨hl1, hl2⟩ := hleft hc
    have hp := hprog hc
    have hlife : s.life = s.now := life_open s hc
    rw [hlife] at hcov
    by_cases hw : 1 < s.loc.left
    · rw [tickLocal_wait _ hr (by simpa using hw)]
      constructor <;> simp_all [Sess.life]
      · omega
      · split at hp <;> simp_all <;> omega
      · omega
      · apply cov_extend l s.writes s.now hcov (by omega)
        · split at hp <;> omega
        · intro h0; split at hp <;> omega
    · have hl1' : s.loc.left = 1 := by omega
      cases hpg : s.loc.pinged with
      | true =>
        rw [tickLocal_clear _ hr (by simp; omega) (by simpa using hpg)]
        simp [hpg] at hp
        constructor <;> simp_all [Sess.life]
        · omega
        · omega
        · apply cov_extend l s.writes s.now hcov (by omega) (by omega)
          intro h0; omega
      | false =>
        rw [tickLocal_emit _ hr (by simp; omega) (by simpa using hpg) (by simpa using htol) (by simpa using hns)]
        simp [hpg] at hp
        constructor <;> simp_all [Sess.life, Origin.isHb]
        · omega
        · intro t ht
          by_cases h : t + 2 * l ≤ s.now
          · obtain ⟨w, hm, hw⟩ := hcov t h
            exact Or.inr ⟨w, hm, hw⟩
          · left; omega

theorem invL_setRem (l : Nat) (s : Sess) (r : Mon) (h : InvL l s) : InvL l { s with rem := r } := by
  obtain ⟨hint, hns, htol, hrun, hleft, hprog, hlast, hcov⟩ := h
  constructor <;> simp_all [Sess.life]

theorem invL_close (l : Nat) (s : Sess) (b : Bool) (h : InvL l s) : InvL l (s.close b) := by
  cases hc : s.closed with
  | true => rw [close_of_closed _ _ hc]; exact h
  | false =>
    rw [close_of_open _ _ hc]
    obtain ⟨hint, hns, htol, hrun, hleft, hprog, hlast, hcov⟩ := h
    constructor <;> simp_all [Sess.life]

theorem invL_tickRemote (l : Nat) (s : Sess) (h : InvL l s) : InvL l s.tickRemote := by
  rcases tickRemote_cases s with ⟨r, e⟩ | ⟨r, e⟩
  · rw [e]; exact invL_setRem l s r h
  · rw [e]; exact invL_close l _ true (invL_setRem l s r h)

theorem invL_dataReceived (l : Nat) (s : Sess) (k : RecvKind) (h : InvL l s) : InvL l (s.dataReceived k) := by
  obtain ⟨hint, hns, htol, hrun, hleft, hprog, hlast, hcov⟩ := h
  constructor <;> first | assumption | (simp [Sess.life] at *; assumption)

theorem invL_sendMsg (l : Nat) (s : Sess) (o : Origin) (h : InvL l s) : InvL l (s.sendMsg o) := by
  obtain ⟨hint, hns, htol, hrun, hleft, hprog, hlast, hcov⟩ := h
  have hcov' : ∀ t, t + 2 * l ≤ (s.sendMsg o).life →
      ∃ w ∈ (s.sendMsg o).writes, w.live = true ∧ t < w.t ∧ w.t ≤ t + 2 * l := by
    intro t ht
    have : (s.sendMsg o).life = s.life := rfl
    rw [this] at ht
    obtain ⟨w, hm, hw⟩ := hcov t ht
    exact ⟨w, by simp [hm], hw⟩
  cases hc : s.closed with
  | true =>
    refine ⟨?_, ?_, ?_, ?_, ?_, ?_, ?_, hcov'⟩
    · simp only [sendMsg_loc]; split <;> simp [hint]
    · simp only [sendMsg_loc]; split <;> simp [hns]
    · simp only [sendMsg_loc]; split <;> simp [htol]
    · simp only [sendMsg_loc, sendMsg_closed]; split <;> simp [hrun]
    · simp [hc]
    · simp [hc]
    · simp [hc, hlast]
  | false =>
    obtain ⟨hl1, hl2⟩ := hleft hc
    refine ⟨?_, ?_, ?_, ?_, ?_, ?_, ?_, hcov'⟩
    · simp only [sendMsg_loc]; split <;> simp [hint]
    · simp only [sendMsg_loc]; split <;> simp [hns]
    · simp only [sendMsg_loc]; split <;> simp [htol]
    · simp only [sendMsg_loc, sendMsg_closed]; split <;> simp [hrun]
    · intro _; simp only [sendMsg_loc]; split <;> simp [hl1, hl2]
    · intro _
      simp only [sendMsg_loc, sendMsg_writes, sendMsg_now]
      rw [lastLive_cons_live _ _ (by simp [hc])]
      split <;> (try split) <;> simp <;> omega
    · simp [hc]

theorem invL_step (l : Nat) (hl : 1 ≤ l) (s : Sess) (e : Ev) (h : InvL l s) : InvL l (s.step e) := by
  cases e with
  | adv => exact invL_tickRemote l _ (invL_advLocal l hl s h)
  | send => exact invL_sendMsg l s _ h
  | sendHb => exact invL_sendMsg l s _ h
  | recv k => exact invL_dataReceived l s k h
  | close => exact invL_close l s _ h
  | sendFailed => exact h

theorem invL_run (l r tl tr : Nat) (hl : 1 ≤ l) (htl : tl ≤ 1) (evs : List Ev) :
    InvL l ((startWith l r tl tr).run evs) :=
  run_inv (P := InvL l) (fun s e h => invL_step l hl s e h) evs _ (invL_start l r tl tr hl htl)

/-! ### which ticks emit a heartbeat -/

/-- an application (non-heartbeat) write with time in `[a, b)` -/
def appIn (ws : List Write) (a b : Nat) : Bool :=
  ws.any fun w => w.origin == .app && decide (a ≤ w.t) && decide (w.t < b)

/-- number of monitor heartbeats written at instant `T` -/
def monCount (ws : List Write) (T : Nat) : Nat :=
  (ws.filter fun w => w.origin == .mon && w.t == T).length

/-- the local monitor owes a heartbeat at instant `T`: `T` is a tick (multiple of the interval) from the second one on,
    the session has lived until `T`, and the application wrote nothing in `[T - l, T)` -/
def due (l life : Nat) (ws : List Write) (T : Nat) : Bool :=
  decide (l ∣ T) && decide (2 * l ≤ T) && decide (T ≤ life) && !appIn ws (T - l) T

@[simp] theorem appIn_nil (a b : Nat) : appIn [] a b = false := rfl
@[simp] theorem appIn_cons (w : Write) (ws : List Write) (a b : Nat) :
    appIn (w :: ws) a b = ((w.origin == .app && decide (a ≤ w.t) && decide (w.t < b)) || appIn ws a b) := by
  simp [appIn]
@[simp] theorem monCount_nil (T : Nat) : monCount [] T = 0 := rfl
theorem monCount_cons (w : Write) (ws : List Write) (T : Nat) :
    monCount (w :: ws) T = (if w.origin == .mon && w.t == T then 1 else 0) + monCount ws T := by
  unfold monCount
  rw [List.filter_cons]
  split <;> simp <;> omega

theorem appIn_false_iff (ws : List Write) (a b : Nat) :
    appIn ws a b = false ↔ ∀ w ∈ ws, w.origin = .app → ¬ (a ≤ w.t ∧ w.t < b) := by
  induction ws with
  | nil => simp
  | cons w ws ih =>
    simp only [appIn_cons, Bool.or_eq_false_iff, ih, List.mem_cons, forall_eq_or_imp]
    constructor
    · rintro ⟨h1, h2⟩
      refine ⟨?_, h2⟩
      intro ho hab
      simp [ho, hab.1, hab.2] at h1
    · rintro ⟨h1, h2⟩
      refine ⟨?_, h2⟩
      by_cases ho : w.origin = .app
      · have := h1 ho
        simp [ho]
        omega
      · simp [ho]

theorem monCount_pos_of_mem (ws : List Write) (w : Write) (hm : w ∈ ws) (ho : w.origin = .mon) :
    1 ≤ monCount ws w.t := by
  unfold monCount
  have : w ∈ ws.filter fun x => x.origin == .mon && x.t == w.t := by
    simp [List.mem_filter, hm, ho]
  exact List.length_pos_of_mem this

theorem exists_of_monCount_pos (ws : List Write) (T : Nat) (h : 1 ≤ monCount ws T) :
    ∃ w ∈ ws, w.origin = .mon ∧ w.t = T := by
  unfold monCount at h
  obtain ⟨w, hw⟩ := List.exists_mem_of_length_pos h
  simp [List.mem_filter] at hw
  exact ⟨w, hw.1, hw.2.1, hw.2.2⟩

/-- arithmetic about ticks -/
theorem not_dvd_between (l a b : Nat) (ha : l ∣ a) (h1 : a < b + l) (h2 : b < a) : ¬ l ∣ b := by
  rintro ⟨k, rfl⟩
  obtain ⟨m, rfl⟩ := ha
  have hkm : k < m := by
    apply Nat.lt_of_mul_lt_mul_left (a := l)
    exact h2
  have : l * (k + 1) ≤ l * m := Nat.mul_le_mul_left l hkm
  rw [Nat.mul_succ] at this
  omega

theorem two_le_of_dvd (l a : Nat) (ha : l ∣ a) (h1 : l ≤ a) (h2 : a ≠ l) : 2 * l ≤ a := by
  obtain ⟨m, rfl⟩ := ha
  match m with
  | 0 => simp at h1; omega
  | 1 => simp at h2
  | m + 2 =>
    have : l * 2 ≤ l * (m + 2) := Nat.mul_le_mul_left l (by omega)
    omega

theorem appIn_eq_false_of_lt (ws : List Write) (a b : Nat) (h : ∀ w ∈ ws, w.t < a) : appIn ws a b = false := by
  rw [appIn_false_iff]
  intro w hm _ hab
  have := h w hm
  omega

theorem appIn_upper (ws : List Write) (a b b' : Nat) (h : ∀ w ∈ ws, w.t < b) (hb : b ≤ b') :
    appIn ws a b' = appIn ws a b := by
  induction ws with
  | nil => rfl
  | cons w ws ih =>
    have hw := h w (by simp)
    have := ih (fun x hx => h x (by simp [hx]))
    simp only [appIn_cons, this]
    have e : decide (w.t < b') = decide (w.t < b) := by
      have h1 : w.t < b' := by omega
      simp [h1, hw]
    rw [e]

@[simp] theorem appHb_beq_app : (Origin.appHb == Origin.app) = false := by decide
@[simp] theorem mon_beq_app : (Origin.mon == Origin.app) = false := by decide
@[simp] theorem app_beq_app : (Origin.app == Origin.app) = true := by decide
@[simp] theorem app_beq_mon : (Origin.app == Origin.mon) = false := by decide
@[simp] theorem appHb_beq_mon : (Origin.appHb == Origin.mon) = false := by decide
@[simp] theorem mon_beq_mon : (Origin.mon == Origin.mon) = true := by decide

theorem due_cons_nonapp (l life : Nat) (w : Write) (ws : List Write) (T : Nat) (h : w.origin ≠ .app) :
    due l life (w :: ws) T = due l life ws T := by
  cases ho : w.origin <;> simp_all [due]

theorem due_cons_app (l life : Nat) (w : Write) (ws : List Write) (T : Nat) (h : life ≤ w.t) :
    due l life (w :: ws) T = due l life ws T := by
  by_cases hT : T ≤ life
  · have : ¬ w.t < T := by omega
    simp [due, this]
  · simp [due, hT]

theorem due_life_succ (l n : Nat) (ws : List Write) (T : Nat)
    (h : due l (n + 1) ws (n + 1) = false) : due l (n + 1) ws T = due l n ws T := by
  by_cases hT : T = n + 1
  · subst hT
    rw [h]
    simp [due]
    intros; omega
  · by_cases h2 : T ≤ n
    · have : T ≤ n + 1 := by omega
      simp [due, h2, this]
    · have : ¬ T ≤ n + 1 := by omega
      simp [due, h2, this]

/-- the local monitor's side, exact version: which instants carry a monitor heartbeat -/
structure InvT (l : Nat) (s : Sess) : Prop where
  int : s.loc.interval = l
  nostop : s.loc.stopWhenNoActivity = false
  tol : s.loc.tol ≤ 1
  running : s.loc.running = !s.closed
  left : s.closed = false → 1 ≤ s.loc.left ∧ s.loc.left ≤ l
  align : s.closed = false → l ∣ s.now + s.loc.left
  ge : s.closed = false → l ≤ s.now + s.loc.left
  times : ∀ w ∈ s.writes, w.t ≤ s.now
  life_le : s.life ≤ s.now
  pinged : s.closed = false →
    (s.loc.pinged = true ↔ (s.now + s.loc.left = l ∨ appIn s.writes (s.now + s.loc.left - l) (s.now + 1) = true))
  mon : ∀ T, monCount s.writes T = (due l s.life s.writes T).toNat
  monLive : ∀ w ∈ s.writes, w.origin = .mon → w.live = true

theorem invT_start (l r tl tr : Nat) (hl : 1 ≤ l) (htl : tl ≤ 1) : InvT l (startWith l r tl tr) := by
  constructor <;> simp [startWith, Mon.start, Sess.life, due, *]
  intro T
  have : ¬ (2 * l ≤ T ∧ T = 0) := by omega
  cases h : decide (l ∣ T) <;> cases h2 : decide (2 * l ≤ T) <;> cases h3 : decide (T = 0) <;> simp_all

theorem invT_setRem (l : Nat) (s : Sess) (r : Mon) (h : InvT l s) : InvT l { s with rem := r } := by
  obtain ⟨h1, h2, h3, h4, h5, h6, h7, h8, h9, h10, h11, h12⟩ := h
  exact ⟨h1, h2, h3, h4, h5, h6, h7, h8, h9, h10, h11, h12⟩

theorem invT_dataReceived (l : Nat) (s : Sess) (k : RecvKind) (h : InvT l s) : InvT l (s.dataReceived k) := by
  obtain ⟨h1, h2, h3, h4, h5, h6, h7, h8, h9, h10, h11, h12⟩ := h
  exact ⟨h1, h2, h3, h4, h5, h6, h7, h8, h9, h10, h11, h12⟩

theorem invT_close (l : Nat) (s : Sess) (b : Bool) (h : InvT l s) : InvT l (s.close b) := by
  cases hc : s.closed with
  | true => rw [close_of_closed _ _ hc]; exact h
  | false =>
    rw [close_of_open _ _ hc]
    obtain ⟨h1, h2, h3, h4, h5, h6, h7, h8, h9, h10, h11, h12⟩ := h
    have hl : s.life = s.now := life_open s hc
    rw [hl] at h11
    refine ⟨h1, h2, h3, by simp, by simp, by simp, by simp, h8, by simp [Sess.life], by simp, ?_, h12⟩
    simpa [Sess.life] using h11

theorem invT_tickRemote (l : Nat) (s : Sess) (h : InvT l s) : InvT l s.tickRemote := by
  rcases tickRemote_cases s with ⟨r, e⟩ | ⟨r, e⟩
  · rw [e]; exact invT_setRem l s r h
  · rw [e]; exact invT_close l _ true (invT_setRem l s r h)

theorem invT_sendMsg (l : Nat) (s : Sess) (o : Origin) (ho : o ≠ .mon) (h : InvT l s) : InvT l (s.sendMsg o) := by
  obtain ⟨h1, h2, h3, h4, h5, h6, h7, h8, h9, h10, h11, h12⟩ := h
  have hlife : (s.sendMsg o).life = s.life := rfl
  have hloc : (s.sendMsg o).loc = s.loc ∨ (s.sendMsg o).loc = s.loc.ping := by
    simp only [sendMsg_loc]; split <;> simp
  have e1 : (s.sendMsg o).loc.interval = s.loc.interval := by rcases hloc with e | e <;> rw [e] <;> rfl
  have e2 : (s.sendMsg o).loc.stopWhenNoActivity = s.loc.stopWhenNoActivity := by rcases hloc with e | e <;> rw [e] <;> rfl
  have e3 : (s.sendMsg o).loc.tol = s.loc.tol := by rcases hloc with e | e <;> rw [e] <;> rfl
  have e4 : (s.sendMsg o).loc.running = s.loc.running := by rcases hloc with e | e <;> rw [e] <;> rfl
  have e5 : (s.sendMsg o).loc.left = s.loc.left := by rcases hloc with e | e <;> rw [e] <;> rfl
  refine ⟨by rw [e1]; exact h1, by rw [e2]; exact h2, by rw [e3]; exact h3, by rw [e4]; exact h4,
          by rw [e5]; exact h5, by rw [e5]; exact h6, by rw [e5]; exact h7, ?_, by rw [hlife]; exact h9, ?_, ?_, ?_⟩
  · intro w hw
    simp only [sendMsg_writes, List.mem_cons] at hw
    rcases hw with rfl | hw
    · simp
    · exact h8 w hw
  · intro hc
    simp only [sendMsg_closed] at hc
    obtain ⟨hl1, hl2⟩ := h5 hc
    rw [e5]
    simp only [sendMsg_now, sendMsg_writes, appIn_cons]
    cases o with
    | app =>
      have a1 : s.now + s.loc.left - l ≤ s.now := by omega
      simp [Origin.isHb, a1]
    | appHb => simpa [Origin.isHb] using h10 hc
    | mon => exact absurd rfl ho
  · intro T
    rw [hlife]
    simp only [sendMsg_writes, monCount_cons]
    cases o with
    | app =>
      rw [due_cons_app l s.life _ s.writes T (by simpa using h9)]
      simpa using h11 T
    | appHb =>
      rw [due_cons_nonapp l s.life _ s.writes T (by simp)]
      simpa using h11 T
    | mon => exact absurd rfl ho
  · intro w hw hwo
    simp only [sendMsg_writes, List.mem_cons] at hw
    rcases hw with rfl | hw
    · exact absurd hwo ho
    · exact h12 w hw hwo

theorem due_life_succ_ne (l n : Nat) (ws : List Write) (T : Nat) (hT : T ≠ n + 1) :
    due l (n + 1) ws T = due l n ws T := by
  by_cases h2 : T ≤ n
  · have : T ≤ n + 1 := by omega
    simp [due, h2, this]
  · have : ¬ T ≤ n + 1 := by omega
    simp [due, h2, this]

theorem invT_advLocal (l : Nat) (hl : 1 ≤ l) (s : Sess) (h : InvT l s) : InvT l s.bump.tickLocal := by
  obtain ⟨h1, h2, h3, h4, h5, h6, h7, h8, h9, h10, h11, h12⟩ := h
  have htimes : ∀ w ∈ s.writes, w.t < s.now + 1 := fun w hw => Nat.lt_succ_of_le (h8 w hw)
  cases hc : s.closed with
  | true =>
    have hr : s.bump.loc.running = false := by simp [h4, hc]
    rw [tickLocal_stopped _ hr]
    have hlife : s.bump.life = s.life := by simp [Sess.life, hc]
    refine ⟨h1, h2, h3, h4, by simp [hc], by simp [hc], by simp [hc], ?_, ?_, by simp [hc], ?_, h12⟩
    · intro w hw; have := h8 w hw; simp; omega
    · rw [hlife]; simp; omega
    · intro T; rw [hlife]; exact h11 T
  | false =>
    have hr : s.bump.loc.running = true := by simp [h4, hc]
    obtain ⟨hl1, hl2⟩ := h5 hc
    have hal := h6 hc
    have hge := h7 hc
    have hpg := h10 hc
    have hlife : s.life = s.now := life_open s hc
    rw [hlife] at h11
    by_cases hw : 1 < s.loc.left
    · rw [tickLocal_wait _ hr (by simpa using hw)]
      have hsum : s.now + 1 + (s.loc.left - 1) = s.now + s.loc.left := by omega
      have hnd : ¬ l ∣ s.now + 1 := not_dvd_between l (s.now + s.loc.left) (s.now + 1) hal (by omega) (by omega)
      have hdue : due l (s.now + 1) s.writes (s.now + 1) = false := by simp [due, hnd]
      refine ⟨h1, h2, h3, by simpa using h4, ?_, ?_, ?_, ?_, ?_, ?_, ?_, h12⟩
      · intro _; simp; omega
      · intro _; simp only [bump_now, bump_loc]; rw [hsum]; exact hal
      · intro _; simp only [bump_now, bump_loc]; rw [hsum]; exact hge
      · intro w hw'; have := h8 w hw'; simp; omega
      · simp [Sess.life, hc]
      · intro _
        simp only [bump_now, bump_loc, bump_writes]
        rw [hsum, appIn_upper s.writes _ (s.now + 1) (s.now + 1 + 1) htimes (by omega)]
        exact hpg
      · intro T
        have : (Sess.life { s.bump with loc := { s.bump.loc with left := s.bump.loc.left - 1 } }) = s.now + 1 := by
          simp [Sess.life, hc]
        rw [this]
        simp only [bump_writes]
        rw [due_life_succ l s.now s.writes T hdue]
        exact h11 T
    · have hl1' : s.loc.left = 1 := by omega
      rw [hl1'] at hal hge hpg
      cases hp : s.loc.pinged with
      | true =>
        rw [tickLocal_clear _ hr (by simp; omega) (by simpa using hp)]
        have hdue : due l (s.now + 1) s.writes (s.now + 1) = false := by
          rcases hpg.mp hp with e | e
          · have : ¬ 2 * l ≤ s.now + 1 := by omega
            simp [due, this]
          · simp [due, e]
        refine ⟨by simpa using h1, by simpa using h2, by simpa using h3, by simpa using h4, ?_, ?_, ?_, ?_, ?_, ?_, ?_, h12⟩
        · intro _; simp [h1]; omega
        · intro _; simp only [bump_now, bump_loc, h1]; exact Nat.dvd_add hal (Nat.dvd_refl l)
        · intro _; simp [h1]
        · intro w hw'; have := h8 w hw'; simp; omega
        · simp [Sess.life, hc]
        · intro _
          simp only [bump_now, bump_loc, bump_writes, h1]
          have e : s.now + 1 + l - l = s.now + 1 := by omega
          have : appIn s.writes (s.now + 1) (s.now + 1 + 1) = false :=
            appIn_eq_false_of_lt _ _ _ (fun w hw' => by have := htimes w hw'; omega)
          rw [e, this]
          simp
        · intro T
          have : (Sess.life { s.bump with loc := { s.bump.loc with pinged := false, missed := 0, left := s.bump.loc.interval } }) = s.now + 1 := by
            simp [Sess.life, hc]
          rw [this]
          simp only [bump_writes]
          rw [due_life_succ l s.now s.writes T hdue]
          exact h11 T
      | false =>
        rw [tickLocal_emit _ hr (by simp; omega) (by simpa using hp) (by simpa using h3) (by simpa using h2)]
        have hne : s.now + 1 ≠ l := by
          intro e; have := hpg.mpr (Or.inl e); simp [hp] at this
        have hno : appIn s.writes (s.now + 1 - l) (s.now + 1) = false := by
          cases e : appIn s.writes (s.now + 1 - l) (s.now + 1) with
          | false => rfl
          | true => have := hpg.mpr (Or.inr e); simp [hp] at this
        have h2l : 2 * l ≤ s.now + 1 := two_le_of_dvd l _ hal hge hne
        have hdue : due l (s.now + 1) s.writes (s.now + 1) = true := by simp [due, hal, h2l, hno]
        refine ⟨by simpa [Origin.isHb] using h1, by simpa [Origin.isHb] using h2, by simpa [Origin.isHb] using h3,
                by simpa [Origin.isHb] using h4, ?_, ?_, ?_, ?_, ?_, ?_, ?_, ?_⟩
        · intro _; simp [Origin.isHb, h1]; omega
        · intro _; simp only [sendMsg_now, sendMsg_loc, Origin.isHb, bump_now, bump_loc, h1, if_true]
          exact Nat.dvd_add hal (Nat.dvd_refl l)
        · intro _; simp [Origin.isHb, h1]
        · intro w hw'
          simp only [sendMsg_writes, List.mem_cons] at hw'
          rcases hw' with rfl | hw'
          · simp
          · have := h8 w hw'; simp; omega
        · simp [Sess.life, hc]
        · intro _
          simp only [sendMsg_now, sendMsg_loc, sendMsg_writes, Origin.isHb, bump_now, bump_loc, bump_writes, h1, if_true, appIn_cons]
          have e : s.now + 1 + l - l = s.now + 1 := by omega
          have : appIn s.writes (s.now + 1) (s.now + 1 + 1) = false :=
            appIn_eq_false_of_lt _ _ _ (fun w hw' => by have := htimes w hw'; omega)
          rw [e, this]
          simp [hp]
        · intro T
          have : (Sess.life (Sess.sendMsg { s.bump with loc := { s.bump.loc with missed := s.bump.loc.missed + 1, left := s.bump.loc.interval } } .mon)) = s.now + 1 := by
            simp [Sess.life, hc]
          rw [this]
          simp only [sendMsg_writes, bump_writes, bump_now, monCount_cons]
          rw [due_cons_nonapp l (s.now + 1) _ s.writes T (by simp)]
          by_cases hT : T = s.now + 1
          · subst hT
            rw [hdue, h11 (s.now + 1)]
            simp [due]
            intros; omega
          · rw [due_life_succ_ne l s.now s.writes T hT, h11 T]
            have : ¬ s.now + 1 = T := fun e => hT e.symm
            simp [this]
        · intro w hw' hwo
          simp only [sendMsg_writes, List.mem_cons] at hw'
          rcases hw' with rfl | hw'
          · simp [hc]
          · exact h12 w hw' hwo

theorem invT_step (l : Nat) (hl : 1 ≤ l) (s : Sess) (e : Ev) (h : InvT l s) : InvT l (s.step e) := by
  cases e with
  | adv => exact invT_tickRemote l _ (invT_advLocal l hl s h)
  | send => exact invT_sendMsg l s _ (by decide) h
  | sendHb => exact invT_sendMsg l s _ (by decide) h
  | recv k => exact invT_dataReceived l s k h
  | close => exact invT_close l s _ h
  | sendFailed => exact h

theorem invT_run (l r tl tr : Nat) (hl : 1 ≤ l) (htl : tl ≤ 1) (evs : List Ev) :
    InvT l ((startWith l r tl tr).run evs) :=
  run_inv (P := InvT l) (fun s e h => invT_step l hl s e h) evs _ (invT_start l r tl tr hl htl)

/-! ### the remote monitor -/

/-- an arrival with time in `[a, b)` -/
def recvIn (rs : List (Nat × RecvKind)) (a b : Nat) : Bool :=
  rs.any fun x => decide (a ≤ x.1) && decide (x.1 < b)

/-- time of the newest arrival, 0 if there is none -/
def lastRecv : List (Nat × RecvKind) → Nat
  | [] => 0
  | x :: _ => x.1

@[simp] theorem recvIn_nil (a b : Nat) : recvIn [] a b = false := rfl
@[simp] theorem recvIn_cons (x : Nat × RecvKind) (rs : List (Nat × RecvKind)) (a b : Nat) :
    recvIn (x :: rs) a b = ((decide (a ≤ x.1) && decide (x.1 < b)) || recvIn rs a b) := by
  simp [recvIn]

theorem recvIn_false_iff (rs : List (Nat × RecvKind)) (a b : Nat) :
    recvIn rs a b = false ↔ ∀ x ∈ rs, ¬ (a ≤ x.1 ∧ x.1 < b) := by
  induction rs with
  | nil => simp
  | cons x rs ih =>
    simp only [recvIn_cons, Bool.or_eq_false_iff, ih, List.mem_cons, forall_eq_or_imp]
    constructor
    · rintro ⟨h1, h2⟩
      refine ⟨?_, h2⟩
      intro hab
      simp [hab.1, hab.2] at h1
    · rintro ⟨h1, h2⟩
      refine ⟨?_, h2⟩
      simp; omega

theorem recvIn_true_of_mem (rs : List (Nat × RecvKind)) (a b : Nat) (x : Nat × RecvKind) (hx : x ∈ rs)
    (h1 : a ≤ x.1) (h2 : x.1 < b) : recvIn rs a b = true := by
  cases h : recvIn rs a b with
  | true => rfl
  | false => exact absurd ⟨h1, h2⟩ ((recvIn_false_iff rs a b).mp h x hx)

theorem lastRecv_real (rs : List (Nat × RecvKind)) : lastRecv rs = 0 ∨ ∃ x ∈ rs, x.1 = lastRecv rs := by
  cases rs with
  | nil => left; rfl
  | cons x rs => right; exact ⟨x, by simp, rfl⟩

/-- while the session is open the newest arrival is recent: a window that ends now cannot be silent -/
theorem recent_not_silent (rs : List (Nat × RecvKind)) (n B t : Nat)
    (h1 : n + 2 ≤ lastRecv rs + B) (h2 : lastRecv rs ≤ n + 1) (ht : t + B = n + 1) :
    recvIn rs (t + 1) (t + B + 1) = true := by
  rcases lastRecv_real rs with h0 | ⟨x, hx, hq⟩
  · omega
  · exact recvIn_true_of_mem rs _ _ x hx (by omega) (by omega)

theorem tickLocal_now (s : Sess) : s.tickLocal.now = s.now := by
  unfold Sess.tickLocal; simp only []; split <;> rfl
theorem tickLocal_rem (s : Sess) : s.tickLocal.rem = s.rem := by
  unfold Sess.tickLocal; simp only []; split <;> rfl
theorem tickLocal_closed (s : Sess) : s.tickLocal.closed = s.closed := by
  unfold Sess.tickLocal; simp only []; split <;> rfl
theorem tickLocal_closeT (s : Sess) : s.tickLocal.closeT = s.closeT := by
  unfold Sess.tickLocal; simp only []; split <;> rfl
theorem tickLocal_closedByMon (s : Sess) : s.tickLocal.closedByMon = s.closedByMon := by
  unfold Sess.tickLocal; simp only []; split <;> rfl
theorem tickLocal_recvs (s : Sess) : s.tickLocal.recvs = s.recvs := by
  unfold Sess.tickLocal; simp only []; split <;> rfl

/-- the remote monitor's side of a session with remote interval `r`, tolerance `n`; `N = max n 1` -/
structure InvR (r n : Nat) (s : Sess) : Prop where
  int : s.rem.interval = r
  stop : s.rem.stopWhenNoActivity = true
  tol : s.rem.tol = n
  running : s.rem.running = !s.closed
  left : s.closed = false → 1 ≤ s.rem.left ∧ s.rem.left ≤ r
  deadline : s.closed = false →
    ∃ k, (if s.rem.pinged then k = max n 1 else s.rem.missed + 1 + k = max n 1) ∧
      s.now + s.rem.left + k * r ≤ lastRecv s.recvs + (max n 1 + 1) * r
  last_le : lastRecv s.recvs ≤ s.now
  closeT_le : s.closed = true → s.closeT ≤ s.now
  silence : ∀ t, t + (max n 1 + 1) * r ≤ s.now → recvIn s.recvs (t + 1) (t + (max n 1 + 1) * r + 1) = false →
    s.closed = true ∧ s.closeT ≤ t + (max n 1 + 1) * r

theorem invR_start (l r tl n : Nat) (hr : 1 ≤ r) : InvR r n (startWith l r tl n) := by
  refine ⟨rfl, rfl, rfl, rfl, ?_, ?_, ?_, ?_, ?_⟩
  · intro _; simp [startWith, Mon.start]; omega
  · intro _
    refine ⟨max n 1, by simp [startWith, Mon.start], ?_⟩
    simp [startWith, Mon.start, lastRecv, Nat.succ_mul]
    omega
  · simp [startWith, lastRecv]
  · simp [startWith]
  · intro t ht
    simp [startWith] at ht
    have : 1 ≤ max n 1 := by omega
    have : 1 * r ≤ (max n 1 + 1) * r := Nat.mul_le_mul_right r (by omega)
    omega

theorem invR_congr (r n : Nat) (s s' : Sess) (h1 : s'.now = s.now) (h2 : s'.rem = s.rem) (h3 : s'.closed = s.closed)
    (h4 : s'.closeT = s.closeT) (h5 : s'.recvs = s.recvs) (h : InvR r n s) : InvR r n s' := by
  obtain ⟨a1, a2, a3, a4, a5, a6, a7, a8, a9⟩ := h
  constructor <;> simp only [h1, h2, h3, h4, h5] <;> assumption

theorem invR_sendMsg (r n : Nat) (s : Sess) (o : Origin) (h : InvR r n s) : InvR r n (s.sendMsg o) :=
  invR_congr r n s _ rfl rfl rfl rfl rfl h

theorem invR_close (r n : Nat) (s : Sess) (b : Bool) (h : InvR r n s) : InvR r n (s.close b) := by
  cases hc : s.closed with
  | true => rw [close_of_closed _ _ hc]; exact h
  | false =>
    rw [close_of_open _ _ hc]
    obtain ⟨a1, a2, a3, a4, a5, a6, a7, a8, a9⟩ := h
    refine ⟨a1, a2, a3, by simp, by simp, by simp, a7, by simp, ?_⟩
    intro t ht hs
    have := (a9 t ht hs).1
    simp [hc] at this

theorem invR_dataReceived (r n : Nat) (s : Sess) (k : RecvKind) (h : InvR r n s) : InvR r n (s.dataReceived k) := by
  obtain ⟨a1, a2, a3, a4, a5, a6, a7, a8, a9⟩ := h
  refine ⟨a1, a2, a3, a4, a5, ?_, by simp [lastRecv], a8, ?_⟩
  · intro hc
    obtain ⟨hl1, hl2⟩ := a5 hc
    refine ⟨max n 1, by simp, ?_⟩
    simp [lastRecv, Nat.succ_mul]
    omega
  · intro t ht hs
    simp only [dataReceived_recvs, recvIn_cons, Bool.or_eq_false_iff] at hs
    exact a9 t ht hs.2

/-- the remote timer at the new instant, after whatever the local timer did -/
theorem invR_tick (r n : Nat) (s0 s : Sess) (h : InvR r n s0) (h1 : s.now = s0.now + 1) (h2 : s.rem = s0.rem)
    (h3 : s.closed = s0.closed) (h4 : s.closeT = s0.closeT) (h5 : s.recvs = s0.recvs) : InvR r n s.tickRemote := by
  obtain ⟨a1, a2, a3, a4, a5, a6, a7, a8, a9⟩ := h
  rw [← h2] at a1 a2 a3 a4 a5 a6
  rw [← h3] at a4 a5 a6 a8 a9
  rw [← h4] at a8 a9
  rw [← h5] at a6 a7 a9
  cases hc : s.closed with
  | true =>
    have hr : s.rem.running = false := by simp [a4, hc]
    rw [tickRemote_stopped _ hr]
    refine ⟨a1, a2, a3, a4, by simp [hc], by simp [hc], by omega, ?_, ?_⟩
    · intro _; have := a8 hc; omega
    · intro t ht hs
      have hcl := a8 hc
      by_cases h' : t + (max n 1 + 1) * r ≤ s0.now
      · exact a9 t h' hs
      · exact ⟨hc, by omega⟩
  | false =>
    have hr : s.rem.running = true := by simp [a4, hc]
    obtain ⟨hl1, hl2⟩ := a5 hc
    obtain ⟨k, hk, hd⟩ := a6 hc
    -- old instances of `silence` are contradictory while the session is open
    have hold : ∀ t, t + (max n 1 + 1) * r ≤ s0.now → recvIn s.recvs (t + 1) (t + (max n 1 + 1) * r + 1) = false → False := by
      intro t ht hs
      have := (a9 t ht hs).1
      simp [hc] at this
    by_cases hw : 1 < s.rem.left
    · rw [tickRemote_wait _ hr hw]
      refine ⟨a1, a2, a3, a4, ?_, ?_, by simp; omega, by simp [hc], ?_⟩
      · intro _; simp; omega
      · intro _; exact ⟨k, hk, by simp; omega⟩
      · intro t ht hs
        exfalso
        by_cases h' : t + (max n 1 + 1) * r ≤ s0.now
        · exact hold t h' hs
        · have := recent_not_silent s.recvs s0.now ((max n 1 + 1) * r) t (by omega) (by omega) (by simp at ht; omega)
          simp [this] at hs
    · have hl1' : s.rem.left = 1 := by omega
      cases hp : s.rem.pinged with
      | true =>
        rw [tickRemote_clear _ hr (by omega) hp]
        simp [hp] at hk
        obtain ⟨k', hk'⟩ : ∃ k', k = k' + 1 := ⟨k - 1, by omega⟩
        rw [hk', Nat.succ_mul] at hd
        refine ⟨by simpa using a1, by simpa using a2, by simpa using a3, by simpa using a4, ?_, ?_, by simp; omega, by simp [hc], ?_⟩
        · intro _; simp [a1]; omega
        · intro _; exact ⟨k', by simp; omega, by simp [a1]; omega⟩
        · intro t ht hs
          exfalso
          by_cases h' : t + (max n 1 + 1) * r ≤ s0.now
          · exact hold t h' hs
          · have := recent_not_silent s.recvs s0.now ((max n 1 + 1) * r) t (by omega) (by omega) (by simp at ht; omega)
            simp [this] at hs
      | false =>
        simp [hp] at hk
        by_cases htr : s.rem.tol ≤ s.rem.missed + 1
        · rw [tickRemote_trip _ hr (by omega) hp htr a2]
          have hopen : Sess.closed { s with rem := { s.rem with missed := s.rem.missed + 1, running := false } } = false := hc
          rw [close_of_open _ _ hopen]
          refine ⟨a1, a2, a3, by simp, by simp, by simp, by simp; omega, by simp, ?_⟩
          intro t ht hs
          by_cases h' : t + (max n 1 + 1) * r ≤ s0.now
          · exact absurd (hold t h' hs) id
          · simp at ht ⊢; omega
        · rw [tickRemote_miss _ hr (by omega) hp (by omega)]
          obtain ⟨k', hk'⟩ : ∃ k', k = k' + 1 := ⟨k - 1, by omega⟩
          rw [hk', Nat.succ_mul] at hd
          refine ⟨by simpa using a1, by simpa using a2, by simpa using a3, by simpa using a4, ?_, ?_, by simp; omega, by simp [hc], ?_⟩
          · intro _; simp [a1]; omega
          · intro _; exact ⟨k', by simp [hp]; omega, by simp [a1]; omega⟩
          · intro t ht hs
            exfalso
            by_cases h' : t + (max n 1 + 1) * r ≤ s0.now
            · exact hold t h' hs
            · have := recent_not_silent s.recvs s0.now ((max n 1 + 1) * r) t (by omega) (by omega) (by simp at ht; omega)
              simp [this] at hs

theorem invR_step (r n : Nat) (s : Sess) (e : Ev) (h : InvR r n s) : InvR r n (s.step e) := by
  cases e with
  | adv =>
    exact invR_tick r n s s.bump.tickLocal h (by rw [tickLocal_now]; rfl) (by rw [tickLocal_rem]; rfl)
      (by rw [tickLocal_closed]; rfl) (by rw [tickLocal_closeT]; rfl) (by rw [tickLocal_recvs]; rfl)
  | send => exact invR_sendMsg r n s _ h
  | sendHb => exact invR_sendMsg r n s _ h
  | recv k => exact invR_dataReceived r n s k h
  | close => exact invR_close r n s _ h
  | sendFailed => exact h

theorem invR_run (l r tl n : Nat) (hr : 1 ≤ r) (evs : List Ev) : InvR r n ((startWith l r tl n).run evs) :=
  run_inv (P := InvR r n) (fun s e h => invR_step r n s e h) evs _ (invR_start l r tl n hr)

theorem tickLocal_writes_origin (s : Sess) (w : Write) (hw : w ∈ s.tickLocal.writes) : w ∈ s.writes ∨ w.origin = .mon := by
  unfold Sess.tickLocal at hw
  simp only [] at hw
  split at hw
  · simp only [sendMsg_writes, List.mem_cons] at hw
    rcases hw with rfl | hw
    · right; rfl
    · left; exact hw
  · left; exact hw

theorem tickRemote_writes (s : Sess) : s.tickRemote.writes = s.writes := by
  rcases tickRemote_cases s with ⟨r, e⟩ | ⟨r, e⟩ <;> rw [e] <;> simp

/-- without `send` events no application message is ever written -/
theorem no_app_writes (evs : List Ev) (s : Sess) (hno : ∀ e ∈ evs, e ≠ .send)
    (h : ∀ w ∈ s.writes, w.origin ≠ .app) : ∀ w ∈ (s.run evs).writes, w.origin ≠ .app := by
  induction evs generalizing s with
  | nil => exact h
  | cons e evs ih =>
    rw [run_cons]
    apply ih
    · intro e' he'; exact hno e' (by simp [he'])
    · have hne : e ≠ .send := hno e (by simp)
      cases e with
      | adv =>
        intro w hw
        simp only [Sess.step, tickRemote_writes] at hw
        rcases tickLocal_writes_origin _ w hw with h' | h'
        · exact h w (by simpa using h')
        · simp [h']
      | send => exact absurd rfl hne
      | sendHb =>
        intro w hw
        simp only [Sess.step, sendMsg_writes, List.mem_cons] at hw
        rcases hw with rfl | hw
        · simp
        · exact h w hw
      | recv k => intro w hw; exact h w (by simpa [Sess.step] using hw)
      | close => intro w hw; exact h w (by simpa [Sess.step] using hw)
      | sendFailed => exact h

theorem recvIn_eq_false_of_lt (rs : List (Nat × RecvKind)) (a b : Nat) (h : ∀ x ∈ rs, x.1 < a) : recvIn rs a b = false := by
  rw [recvIn_false_iff]
  intro x hx hab
  have := h x hx
  omega

theorem recvIn_upper (rs : List (Nat × RecvKind)) (a b b' : Nat) (h : ∀ x ∈ rs, x.1 < b) (hb : b ≤ b') :
    recvIn rs a b' = recvIn rs a b := by
  induction rs with
  | nil => rfl
  | cons x rs ih =>
    have hx := h x (by simp)
    have := ih (fun y hy => h y (by simp [hy]))
    simp only [recvIn_cons, this]
    have e : decide (x.1 < b') = decide (x.1 < b) := by
      have h1 : x.1 < b' := by omega
      simp [h1, hx]
    rw [e]

/-- the remote monitor's side, exact version: a trip is preceded by a silent period between two ticks -/
structure InvQ (r : Nat) (s : Sess) : Prop where
  int : s.rem.interval = r
  stop : s.rem.stopWhenNoActivity = true
  running : s.rem.running = !s.closed
  left : s.closed = false → 1 ≤ s.rem.left ∧ s.rem.left ≤ r
  ge : s.closed = false → r ≤ s.now + s.rem.left
  times : ∀ x ∈ s.recvs, x.1 ≤ s.now
  quiet : s.closed = false → s.rem.pinged = false → recvIn s.recvs (s.now + s.rem.left - r) (s.now + 1) = false
  closeT_le : s.closed = true → s.closeT ≤ s.now
  witness : s.closed = true → s.closedByMon = true → r ≤ s.closeT ∧ recvIn s.recvs (s.closeT - r) s.closeT = false

theorem invQ_start (l r tl n : Nat) (hr : 1 ≤ r) : InvQ r (startWith l r tl n) := by
  refine ⟨rfl, rfl, rfl, ?_, ?_, ?_, ?_, ?_, ?_⟩ <;> simp [startWith, Mon.start]
  omega

theorem invQ_congr (r : Nat) (s s' : Sess) (h1 : s'.now = s.now) (h2 : s'.rem = s.rem) (h3 : s'.closed = s.closed)
    (h4 : s'.closeT = s.closeT) (h5 : s'.recvs = s.recvs) (h6 : s'.closedByMon = s.closedByMon)
    (h : InvQ r s) : InvQ r s' := by
  obtain ⟨a1, a2, a3, a4, a5, a6, a7, a8, a9⟩ := h
  constructor <;> simp only [h1, h2, h3, h4, h5, h6] <;> assumption

theorem invQ_sendMsg (r : Nat) (s : Sess) (o : Origin) (h : InvQ r s) : InvQ r (s.sendMsg o) :=
  invQ_congr r s _ rfl rfl rfl rfl rfl rfl h

theorem invQ_close (r : Nat) (s : Sess) (h : InvQ r s) : InvQ r (s.close false) := by
  cases hc : s.closed with
  | true => rw [close_of_closed _ _ hc]; exact h
  | false =>
    rw [close_of_open _ _ hc]
    obtain ⟨a1, a2, a3, a4, a5, a6, a7, a8, a9⟩ := h
    exact ⟨a1, a2, by simp, by simp, by simp, a6, by simp, by simp, by simp⟩

theorem invQ_dataReceived (r : Nat) (s : Sess) (k : RecvKind) (h : InvQ r s) : InvQ r (s.dataReceived k) := by
  obtain ⟨a1, a2, a3, a4, a5, a6, a7, a8, a9⟩ := h
  refine ⟨a1, a2, a3, a4, a5, ?_, by simp, a8, ?_⟩
  · intro x hx
    simp only [dataReceived_recvs, List.mem_cons] at hx
    rcases hx with rfl | hx
    · simp
    · exact a6 x hx
  · intro hc hm
    obtain ⟨b1, b2⟩ := a9 hc hm
    have := a8 hc
    refine ⟨b1, ?_⟩
    simp only [dataReceived_recvs, dataReceived_closeT, recvIn_cons, b2, Bool.or_false]
    have : ¬ s.now < s.closeT := by omega
    simp [this]

theorem invQ_tick (r : Nat) (s0 s : Sess) (h : InvQ r s0) (h1 : s.now = s0.now + 1) (h2 : s.rem = s0.rem)
    (h3 : s.closed = s0.closed) (h4 : s.closeT = s0.closeT) (h5 : s.recvs = s0.recvs)
    (h6 : s.closedByMon = s0.closedByMon) : InvQ r s.tickRemote := by
  obtain ⟨a1, a2, a3, a4, a5, a6, a7, a8, a9⟩ := h
  rw [← h2] at a1 a2 a3 a4 a5 a7
  rw [← h3] at a3 a4 a5 a7 a8 a9
  rw [← h4] at a8 a9
  rw [← h5] at a6 a7 a9
  rw [← h6] at a9
  have htimes : ∀ x ∈ s.recvs, x.1 < s0.now + 1 := fun x hx => Nat.lt_succ_of_le (a6 x hx)
  cases hc : s.closed with
  | true =>
    have hr : s.rem.running = false := by simp [a3, hc]
    rw [tickRemote_stopped _ hr]
    refine ⟨a1, a2, a3, by simp [hc], by simp [hc], ?_, by simp [hc], ?_, a9⟩
    · intro x hx; have := a6 x hx; omega
    · intro _; have := a8 hc; omega
  | false =>
    have hr : s.rem.running = true := by simp [a3, hc]
    obtain ⟨hl1, hl2⟩ := a4 hc
    have hge := a5 hc
    have hq := a7 hc
    by_cases hw : 1 < s.rem.left
    · rw [tickRemote_wait _ hr hw]
      refine ⟨a1, a2, a3, ?_, ?_, ?_, ?_, by simp [hc], by simp [hc]⟩
      · intro _; simp; omega
      · intro _; simp; omega
      · intro x hx; have := a6 x hx; simp at hx ⊢; omega
      · intro _ hp
        have e : s.now + (s.rem.left - 1) - r = s0.now + s.rem.left - r := by omega
        simp only [] at hp ⊢
        rw [e, h1, recvIn_upper s.recvs _ (s0.now + 1) (s0.now + 1 + 1) htimes (by omega)]
        exact hq hp
    · have hl1' : s.rem.left = 1 := by omega
      have hfresh : recvIn s.recvs (s0.now + 1) (s0.now + 1 + 1) = false :=
        recvIn_eq_false_of_lt _ _ _ htimes
      cases hp : s.rem.pinged with
      | true =>
        rw [tickRemote_clear _ hr (by omega) hp]
        refine ⟨by simpa using a1, by simpa using a2, by simpa using a3, ?_, ?_, ?_, ?_, by simp [hc], by simp [hc]⟩
        · intro _; simp [a1]; omega
        · intro _; simp [a1]
        · intro x hx; have := a6 x hx; simp at hx ⊢; omega
        · intro _ _
          have e : s.now + r - r = s0.now + 1 := by omega
          simp only [a1, h1] at e ⊢
          rw [e]; exact hfresh
      | false =>
        by_cases htr : s.rem.tol ≤ s.rem.missed + 1
        · rw [tickRemote_trip _ hr (by omega) hp htr a2]
          have hopen : Sess.closed { s with rem := { s.rem with missed := s.rem.missed + 1, running := false } } = false := hc
          rw [close_of_open _ _ hopen]
          refine ⟨a1, a2, by simp, by simp, by simp, ?_, by simp, by simp, ?_⟩
          · intro x hx; have := a6 x hx; simp at hx ⊢; omega
          · intro _ _
            have := hq hp
            rw [hl1'] at this hge
            show r ≤ s.now ∧ recvIn s.recvs (s.now - r) s.now = false
            rw [h1]
            exact ⟨hge, this⟩
        · rw [tickRemote_miss _ hr (by omega) hp (by omega)]
          refine ⟨by simpa using a1, by simpa using a2, by simpa using a3, ?_, ?_, ?_, ?_, by simp [hc], by simp [hc]⟩
          · intro _; simp [a1]; omega
          · intro _; simp [a1]
          · intro x hx; have := a6 x hx; simp at hx ⊢; omega
          · intro _ _
            have e : s.now + r - r = s0.now + 1 := by omega
            simp only [a1, h1] at e ⊢
            rw [e]; exact hfresh

theorem invQ_step (r : Nat) (s : Sess) (e : Ev) (h : InvQ r s) : InvQ r (s.step e) := by
  cases e with
  | adv =>
    exact invQ_tick r s s.bump.tickLocal h (by rw [tickLocal_now]; rfl) (by rw [tickLocal_rem]; rfl)
      (by rw [tickLocal_closed]; rfl) (by rw [tickLocal_closeT]; rfl) (by rw [tickLocal_recvs]; rfl)
      (by rw [tickLocal_closedByMon]; rfl)
  | send => exact invQ_sendMsg r s _ h
  | sendHb => exact invQ_sendMsg r s _ h
  | recv k => exact invQ_dataReceived r s k h
  | close => exact invQ_close r s h
  | sendFailed => exact h

theorem invQ_run (l r tl n : Nat) (hr : 1 ≤ r) (evs : List Ev) : InvQ r ((startWith l r tl n).run evs) :=
  run_inv (P := InvQ r) (fun s e h => invQ_step r s e h) evs _ (invQ_start l r tl n hr)

/-! ### simulations: what the session does not look at -/

/-- forget what kind of bytes arrived -/
def Ev.eraseKind : Ev → Ev
  | .recv _ => .recv .hb
  | e => e

def Sess.forgetKinds (s : Sess) : Sess := { s with recvs := s.recvs.map fun x => (x.1, RecvKind.hb) }

theorem forget_tickLocal (s : Sess) : s.tickLocal.forgetKinds = s.forgetKinds.tickLocal := by
  have e : s.forgetKinds.loc = s.loc := rfl
  by_cases h : s.loc.adv.2 = true
  · simp only [Sess.tickLocal, e, h, if_true]; rfl
  · simp only [Sess.tickLocal, e, h]; rfl

theorem forget_close (s : Sess) (b : Bool) : (s.close b).forgetKinds = s.forgetKinds.close b := by
  have e : s.forgetKinds.closed = s.closed := rfl
  cases h : s.closed
  · simp only [Sess.close, e, h]; rfl
  · simp only [Sess.close, e, h, if_true]

theorem forget_tickRemote (s : Sess) : s.tickRemote.forgetKinds = s.forgetKinds.tickRemote := by
  have e : s.forgetKinds.rem = s.rem := rfl
  by_cases h : s.rem.adv.2 = true
  · simp only [Sess.tickRemote, e, h, if_true]; rw [forget_close]; rfl
  · simp only [Sess.tickRemote, e, h]; rfl

theorem forget_step (s : Sess) (e : Ev) : (s.step e).forgetKinds = s.forgetKinds.step e.eraseKind := by
  cases e with
  | adv =>
    show s.bump.tickLocal.tickRemote.forgetKinds = s.forgetKinds.bump.tickLocal.tickRemote
    rw [forget_tickRemote, forget_tickLocal]; rfl
  | send => rfl
  | sendHb => rfl
  | recv k => rfl
  | close => exact forget_close s false
  | sendFailed => rfl

theorem forget_run (evs : List Ev) (s : Sess) : (s.run evs).forgetKinds = s.forgetKinds.run (evs.map Ev.eraseKind) := by
  induction evs generalizing s with
  | nil => rfl
  | cons e evs ih => rw [run_cons, ih, forget_step]; rfl

/-- same session with another tolerance of the remote monitor -/
def Sess.withTolR (s : Sess) (n : Nat) : Sess := { s with rem := { s.rem with tol := n } }

theorem wake_tol01 (m : Mon) (h : m.tol = 0) :
    Mon.wake { m with tol := 1 } = ({ m.wake.1 with tol := 1 }, m.wake.2) := by
  unfold Mon.wake
  simp only [h]
  split
  · rfl
  · have h1 : m.missed + 1 ≥ 0 := by omega
    have h2 : m.missed + 1 ≥ 1 := by omega
    simp only [h1, h2, if_true]
    split <;> rfl

theorem adv_tol01 (m : Mon) (h : m.tol = 0) :
    Mon.adv { m with tol := 1 } = ({ m.adv.1 with tol := 1 }, m.adv.2) := by
  unfold Mon.adv
  simp only []
  split
  · split
    · exact wake_tol01 m h
    · rfl
  · rfl

theorem adv_tol (m : Mon) : m.adv.1.tol = m.tol := by
  unfold Mon.adv Mon.wake
  split
  · split
    · split
      · rfl
      · simp only []; split
        · split <;> rfl
        · rfl
    · rfl
  · rfl

theorem tol01_tickLocal (s : Sess) : (s.tickLocal).withTolR 1 = (s.withTolR 1).tickLocal := by
  have e : (s.withTolR 1).loc = s.loc := rfl
  by_cases h : s.loc.adv.2 = true
  · simp only [Sess.tickLocal, e, h, if_true]; rfl
  · simp only [Sess.tickLocal, e, h]; rfl

theorem tol01_close (s : Sess) (b : Bool) : (s.close b).withTolR 1 = (s.withTolR 1).close b := by
  have e : (s.withTolR 1).closed = s.closed := rfl
  cases h : s.closed
  · simp only [Sess.close, e, h]; rfl
  · simp only [Sess.close, e, h, if_true]

theorem tol01_tickRemote (s : Sess) (h0 : s.rem.tol = 0) : (s.tickRemote).withTolR 1 = (s.withTolR 1).tickRemote := by
  have e : (s.withTolR 1).rem = { s.rem with tol := 1 } := rfl
  by_cases h : s.rem.adv.2 = true
  · simp only [Sess.tickRemote, e, adv_tol01 s.rem h0, h, if_true]; rw [tol01_close]; rfl
  · simp only [Sess.tickRemote, e, adv_tol01 s.rem h0, h]; rfl

theorem tickRemote_tol (s : Sess) : s.tickRemote.rem.tol = s.rem.tol := by
  by_cases h : s.rem.adv.2 = true
  · simp only [Sess.tickRemote, h, if_true]
    unfold Sess.close
    simp only []
    split
    · exact adv_tol s.rem
    · exact adv_tol s.rem
  · simp only [Sess.tickRemote, h]
    exact adv_tol s.rem

theorem step_tolR (s : Sess) (e : Ev) : (s.step e).rem.tol = s.rem.tol := by
  cases e with
  | adv =>
    show s.bump.tickLocal.tickRemote.rem.tol = s.rem.tol
    rw [tickRemote_tol, tickLocal_rem]; rfl
  | send => rfl
  | sendHb => rfl
  | recv k => rfl
  | close => unfold Sess.step Sess.close; simp only []; split <;> rfl
  | sendFailed => rfl

theorem tol01_step (s : Sess) (e : Ev) (h0 : s.rem.tol = 0) : (s.step e).withTolR 1 = (s.withTolR 1).step e := by
  cases e with
  | adv =>
    show s.bump.tickLocal.tickRemote.withTolR 1 = (s.withTolR 1).bump.tickLocal.tickRemote
    rw [tol01_tickRemote _ (by rw [tickLocal_rem]; exact h0), tol01_tickLocal]; rfl
  | send => rfl
  | sendHb => rfl
  | recv k => rfl
  | close => exact tol01_close s false
  | sendFailed => rfl

theorem tol01_run (evs : List Ev) (s : Sess) (h0 : s.rem.tol = 0) : (s.run evs).withTolR 1 = (s.withTolR 1).run evs := by
  induction evs generalizing s with
  | nil => rfl
  | cons e evs ih =>
    rw [run_cons, run_cons, ih _ (by rw [step_tolR]; exact h0), tol01_step s e h0]

/-- forget the heartbeat messages the application sent itself -/
def Sess.dropAppHb (s : Sess) : Sess := { s with writes := s.writes.filter fun w => w.origin != .appHb }

theorem dropAppHb_tickLocal (s : Sess) : s.tickLocal.dropAppHb = s.dropAppHb.tickLocal := by
  have e : s.dropAppHb.loc = s.loc := rfl
  by_cases h : s.loc.adv.2 = true
  · simp only [Sess.tickLocal, e, h, if_true]
    simp [Sess.dropAppHb, Sess.sendMsg, Origin.isHb]
  · simp only [Sess.tickLocal, e, h]; rfl

theorem dropAppHb_close (s : Sess) (b : Bool) : (s.close b).dropAppHb = s.dropAppHb.close b := by
  have e : s.dropAppHb.closed = s.closed := rfl
  cases h : s.closed
  · simp only [Sess.close, e, h]; rfl
  · simp only [Sess.close, e, h, if_true]

theorem dropAppHb_tickRemote (s : Sess) : s.tickRemote.dropAppHb = s.dropAppHb.tickRemote := by
  have e : s.dropAppHb.rem = s.rem := rfl
  by_cases h : s.rem.adv.2 = true
  · simp only [Sess.tickRemote, e, h, if_true]; rw [dropAppHb_close]; rfl
  · simp only [Sess.tickRemote, e, h]; rfl

theorem dropAppHb_step (s : Sess) (e : Ev) (he : e ≠ .sendHb) : (s.step e).dropAppHb = s.dropAppHb.step e := by
  cases e with
  | adv =>
    show s.bump.tickLocal.tickRemote.dropAppHb = s.dropAppHb.bump.tickLocal.tickRemote
    rw [dropAppHb_tickRemote, dropAppHb_tickLocal]; rfl
  | send => simp [Sess.step, Sess.dropAppHb, Sess.sendMsg, Origin.isHb]
  | sendHb => exact absurd rfl he
  | recv k => rfl
  | close => exact dropAppHb_close s false
  | sendFailed => rfl

theorem dropAppHb_sendHb (s : Sess) : (s.step .sendHb).dropAppHb = s.dropAppHb := by
  simp [Sess.step, Sess.dropAppHb, Sess.sendMsg, Origin.isHb]

theorem dropAppHb_run (evs : List Ev) (s : Sess) :
    (s.run evs).dropAppHb = s.dropAppHb.run (evs.filter fun e => e != .sendHb) := by
  induction evs generalizing s with
  | nil => rfl
  | cons e evs ih =>
    rw [run_cons, ih]
    by_cases he : e = .sendHb
    · subst he
      rw [dropAppHb_sendHb]
      simp
    · rw [dropAppHb_step s e he]
      have : (e != Ev.sendHb) = true := by simp [he]
      simp [this, run_cons]

end NasdaqModel.Monitor
