import NasdaqModel.Lemmas.SessionLemmas
/-
What acceptance by the close-sequence monitor (`monRun l ≠ 9`) means in plain terms.
-/
namespace NasdaqModel.Sess

theorem mon_sink (o : Obs) : mon 9 o = 9 := by cases o <;> simp [mon]

theorem foldl_mon_sink (l : List Obs) : l.foldl mon 9 = 9 := by
  induction l with
  | nil => rfl
  | cons o l ih => simp [List.foldl, mon_sink, ih]

theorem mon_ne_zero {p : Nat} (hp : p ≠ 0) (o : Obs) : mon p o ≠ 0 := by
  cases o <;> simp [mon] <;> try omega
  all_goals (split <;> omega)

theorem foldl_mon_ne_zero (l : List Obs) : ∀ p, p ≠ 0 → l.foldl mon p ≠ 0 := by
  induction l with
  | nil => intro p hp; exact hp
  | cons o l ih => intro p hp; exact ih _ (mon_ne_zero hp o)

/-- phases only go forward: a non-error step never decreases the phase -/
theorem mon_mono (p : Nat) (o : Obs) (h : mon p o ≠ 9) : p ≤ mon p o := by
  cases o <;> simp [mon] at h ⊢ <;> try omega
  all_goals (split <;> simp_all)

theorem foldl_mon_mono (l : List Obs) : ∀ p, l.foldl mon p ≠ 9 → p ≤ l.foldl mon p := by
  induction l with
  | nil => intro p _; exact Nat.le_refl _
  | cons o l ih =>
    intro p h
    have h1 : mon p o ≠ 9 := by
      intro h9; apply h; simp [List.foldl, h9, foldl_mon_sink]
    exact Nat.le_trans (mon_mono p o h1) (ih _ h)

theorem foldl_mon_prefix_ok (l1 l2 : List Obs) (p : Nat) (h : (l1 ++ l2).foldl mon p ≠ 9) : l1.foldl mon p ≠ 9 := by
  intro h9
  apply h
  rw [List.foldl_append, h9, foldl_mon_sink]

/-- counting: each of the three close events occurs at most once -/
theorem count_tclose (l : List Obs) : ∀ p, l.foldl mon p ≠ 9 →
    (p = 0 → l.count .tclose ≤ 1) ∧ (p ≠ 0 → l.count .tclose = 0) := by
  induction l with
  | nil => intro p _; simp
  | cons o l ih =>
    intro p h
    have h1 : mon p o ≠ 9 := by
      intro h9; apply h; simp [List.foldl, h9, foldl_mon_sink]
    have ih' := ih (mon p o) h
    by_cases ho : o = .tclose
    · subst ho
      have hp : p = 0 := by
        by_cases hp : p = 0
        · exact hp
        · simp [mon, hp] at h1
      subst hp
      have := ih'.2 (by simp [mon])
      simp [this]
    · have hc : (o :: l).count .tclose = l.count .tclose := by
        simp [List.count_cons, ho]
      rw [hc]
      constructor
      · intro hp
        subst hp
        by_cases h0 : mon 0 o = 0
        · exact ih'.1 h0
        · rw [ih'.2 h0]; omega
      · intro hp
        exact ih'.2 (mon_ne_zero hp o)

theorem count_cbEnter (l : List Obs) : ∀ p, l.foldl mon p ≠ 9 →
    (p ≤ 1 → l.count .cbEnter ≤ 1) ∧ (2 ≤ p → l.count .cbEnter = 0) := by
  induction l with
  | nil => intro p _; simp
  | cons o l ih =>
    intro p h
    have h1 : mon p o ≠ 9 := by
      intro h9; apply h; simp [List.foldl, h9, foldl_mon_sink]
    have ih' := ih (mon p o) h
    have hm := mon_mono p o h1
    by_cases ho : o = .cbEnter
    · subst ho
      have hp : p = 1 := by
        by_cases hp : p = 1
        · exact hp
        · simp [mon, hp] at h1
      subst hp
      have := ih'.2 (by simp [mon])
      simp [this]
    · have hc : (o :: l).count .cbEnter = l.count .cbEnter := by
        simp [List.count_cons, ho]
      rw [hc]
      constructor
      · intro hp
        by_cases h2 : mon p o ≤ 1
        · exact ih'.1 h2
        · rw [ih'.2 (by omega)]; omega
      · intro hp
        exact ih'.2 (by omega)

theorem count_cbExit (l : List Obs) : ∀ p, l.foldl mon p ≠ 9 →
    (p ≤ 2 → l.count .cbExit ≤ 1) ∧ (3 ≤ p → l.count .cbExit = 0) := by
  induction l with
  | nil => intro p _; simp
  | cons o l ih =>
    intro p h
    have h1 : mon p o ≠ 9 := by
      intro h9; apply h; simp [List.foldl, h9, foldl_mon_sink]
    have ih' := ih (mon p o) h
    have hm := mon_mono p o h1
    by_cases ho : o = .cbExit
    · subst ho
      have hp : p = 2 := by
        by_cases hp : p = 2
        · exact hp
        · simp [mon, hp] at h1
      subst hp
      have := ih'.2 (by simp [mon])
      simp [this]
    · have hc : (o :: l).count .cbExit = l.count .cbExit := by
        simp [List.count_cons, ho]
      rw [hc]
      constructor
      · intro hp
        by_cases h2 : mon p o ≤ 2
        · exact ih'.1 h2
        · rw [ih'.2 (by omega)]; omega
      · intro hp
        exact ih'.2 (by omega)

/-- if the phase has left 0, the transport-close event is in the trace -/
theorem tclose_mem_of_phase (l : List Obs) (h9 : l.foldl mon 0 ≠ 9) (h : 1 ≤ l.foldl mon 0) : Obs.tclose ∈ l := by
  induction l with
  | nil => simp at h
  | cons o l ih =>
    by_cases ho : o = .tclose
    · subst ho; simp
    · have h0 : mon 0 o = 0 ∨ mon 0 o = 9 := by
        cases o <;> simp_all [mon]
      rcases h0 with h0 | h0
      · simp only [List.foldl, h0] at h h9
        exact List.mem_cons_of_mem _ (ih h9 h)
      · simp [List.foldl, h0, foldl_mon_sink] at h9

theorem cbEnter_mem_of_phase (l : List Obs) : ∀ p, p ≤ 1 → l.foldl mon p ≠ 9 → 2 ≤ l.foldl mon p → Obs.cbEnter ∈ l := by
  induction l with
  | nil => intro p hp _ h; simp at h; omega
  | cons o l ih =>
    intro p hp h9 h
    by_cases ho : o = .cbEnter
    · subst ho; simp
    · have h1 : mon p o ≠ 9 := by
        intro e; apply h9; simp [List.foldl, e, foldl_mon_sink]
      have h0 : mon p o ≤ 1 := by
        cases o <;> simp_all [mon] <;> (try omega)
        all_goals (split at h1 <;> simp_all)
      exact List.mem_cons_of_mem _ (ih _ h0 h9 h)

/-- **order 1**: the close callback is entered only after the transport has been closed -/
theorem tclose_before_cbEnter (l l1 l2 : List Obs) (h : monRun l ≠ 9) (e : l = l1 ++ Obs.cbEnter :: l2) :
    Obs.tclose ∈ l1 := by
  subst e
  have hp : (l1 ++ [Obs.cbEnter]).foldl mon 0 ≠ 9 := by
    apply foldl_mon_prefix_ok _ l2
    simpa [monRun] using h
  rw [List.foldl_append] at hp
  have h1 : l1.foldl mon 0 = 1 := by
    by_cases h1 : l1.foldl mon 0 = 1
    · exact h1
    · simp [List.foldl, mon, h1] at hp
  exact tclose_mem_of_phase l1 (by omega) (by omega)

/-- **order 2**: the close callback returns only after it was entered -/
theorem cbEnter_before_cbExit (l l1 l2 : List Obs) (h : monRun l ≠ 9) (e : l = l1 ++ Obs.cbExit :: l2) :
    Obs.cbEnter ∈ l1 := by
  subst e
  have hp : (l1 ++ [Obs.cbExit]).foldl mon 0 ≠ 9 := by
    apply foldl_mon_prefix_ok _ l2
    simpa [monRun] using h
  rw [List.foldl_append] at hp
  have h1 : l1.foldl mon 0 = 2 := by
    by_cases h1 : l1.foldl mon 0 = 2
    · exact h1
    · simp [List.foldl, mon, h1] at hp
  exact cbEnter_mem_of_phase l1 0 (by omega) (by omega) (by omega)

/-- **order 3**: no message callback is started once the transport has been closed -/
theorem no_msgEnter_after_tclose (l l1 l2 : List Obs) (n : Nat) (h : monRun l ≠ 9)
    (e : l = l1 ++ Obs.msgEnter n :: l2) : Obs.tclose ∉ l1 ∧ Obs.cbEnter ∉ l1 := by
  subst e
  have hp : (l1 ++ [Obs.msgEnter n]).foldl mon 0 ≠ 9 := by
    apply foldl_mon_prefix_ok _ l2
    simpa [monRun] using h
  rw [List.foldl_append] at hp
  have h1 : l1.foldl mon 0 = 0 := by
    by_cases h1 : l1.foldl mon 0 = 0
    · exact h1
    · simp [List.foldl, mon, h1] at hp
  have key : ∀ (o : Obs), (o = .tclose ∨ o = .cbEnter) → o ∉ l1 := by
    intro o ho hmem
    obtain ⟨a, b, hab⟩ := List.append_of_mem hmem
    rw [hab, List.foldl_append] at h1
    have : mon (a.foldl mon 0) o ≠ 0 := by
      rcases ho with rfl | rfl <;> simp [mon] <;> split <;> omega
    simp only [List.foldl] at h1
    exact foldl_mon_ne_zero b _ this h1
  exact ⟨key _ (Or.inl rfl), key _ (Or.inr rfl)⟩

end NasdaqModel.Sess
