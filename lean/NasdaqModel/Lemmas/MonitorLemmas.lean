import NasdaqModel.Model.Monitor
/-
Invariants of Model/Monitor.lean, proved per small step and lifted over event lists (C08, C09).
-/
namespace NasdaqModel.Monitor

/-! ### generic: invariants lift over runs -/

theorem run_nil (s : Sess) : s.run [] = s := rfl
theorem run_cons (s : Sess) (e : Ev) (evs : List Ev) : s.run (e :: evs) = (s.step e).run evs := rfl
theorem run_append (s : Sess) (a b : List Ev) : s.run (a ++ b) = (s.run a).run b := by
  simp [Sess.run, List.foldl_append]

theorem run_inv {P : Sess → Prop} (hstep : ∀ s e, P s → P (s.step e)) :
    ∀ (evs : List Ev) (s : Sess), P s → P (s.run evs) := by
  intro evs
  induction evs with
  | nil => intro s h; exact h
  | cons e evs ih => intro s h; exact ih _ (hstep s e h)

/-! ### field lemmas of the small steps -/

section fields
variable (s : Sess)

@[simp] theorem bump_now : s.bump.now = s.now + 1 := rfl
@[simp] theorem bump_loc : s.bump.loc = s.loc := rfl
@[simp] theorem bump_rem : s.bump.rem = s.rem := rfl
@[simp] theorem bump_closed : s.bump.closed = s.closed := rfl
@[simp] theorem bump_closeT : s.bump.closeT = s.closeT := rfl
@[simp] theorem bump_closedByMon : s.bump.closedByMon = s.closedByMon := rfl
@[simp] theorem bump_writes : s.bump.writes = s.writes := rfl
@[simp] theorem bump_recvs : s.bump.recvs = s.recvs := rfl

@[simp] theorem sendMsg_now (o : Origin) : (s.sendMsg o).now = s.now := rfl
@[simp] theorem sendMsg_rem (o : Origin) : (s.sendMsg o).rem = s.rem := rfl
@[simp] theorem sendMsg_closed (o : Origin) : (s.sendMsg o).closed = s.closed := rfl
@[simp] theorem sendMsg_closeT (o : Origin) : (s.sendMsg o).closeT = s.closeT := rfl
@[simp] theorem sendMsg_closedByMon (o : Origin) : (s.sendMsg o).closedByMon = s.closedByMon := rfl
@[simp] theorem sendMsg_recvs (o : Origin) : (s.sendMsg o).recvs = s.recvs := rfl
@[simp] theorem sendMsg_writes (o : Origin) :
    (s.sendMsg o).writes = { t := s.now, origin := o, live := !s.closed } :: s.writes := rfl
@[simp] theorem sendMsg_loc (o : Origin) : (s.sendMsg o).loc = if o.isHb then s.loc else s.loc.ping := rfl

@[simp] theorem dataReceived_now (k : RecvKind) : (s.dataReceived k).now = s.now := rfl
@[simp] theorem dataReceived_loc (k : RecvKind) : (s.dataReceived k).loc = s.loc := rfl
@[simp] theorem dataReceived_rem (k : RecvKind) : (s.dataReceived k).rem = s.rem.ping := rfl
@[simp] theorem dataReceived_closed (k : RecvKind) : (s.dataReceived k).closed = s.closed := rfl
@[simp] theorem dataReceived_closeT (k : RecvKind) : (s.dataReceived k).closeT = s.closeT := rfl
@[simp] theorem dataReceived_closedByMon (k : RecvKind) : (s.dataReceived k).closedByMon = s.closedByMon := rfl
@[simp] theorem dataReceived_writes (k : RecvKind) : (s.dataReceived k).writes = s.writes := rfl
@[simp] theorem dataReceived_recvs (k : RecvKind) : (s.dataReceived k).recvs = (s.now, k) :: s.recvs := rfl

@[simp] theorem close_now (b : Bool) : (s.close b).now = s.now := by unfold Sess.close; split <;> rfl
@[simp] theorem close_writes (b : Bool) : (s.close b).writes = s.writes := by unfold Sess.close; split <;> rfl
@[simp] theorem close_recvs (b : Bool) : (s.close b).recvs = s.recvs := by unfold Sess.close; split <;> rfl
@[simp] theorem close_closed (b : Bool) : (s.close b).closed = true := by
  unfold Sess.close; split <;> simp_all
theorem close_of_closed (b : Bool) (h : s.closed = true) : s.close b = s := by
  unfold Sess.close; simp [h]
theorem close_of_open (b : Bool) (h : s.closed = false) :
    s.close b = { s with closed := true, closeT := s.now, closedByMon := b, loc := s.loc.stop, rem := s.rem.stop } := by
  unfold Sess.close; simp [h]

end fields

@[simp] theorem ping_interval (m : Mon) : m.ping.interval = m.interval := rfl
@[simp] theorem ping_tol (m : Mon) : m.ping.tol = m.tol := rfl
@[simp] theorem ping_stop (m : Mon) : m.ping.stopWhenNoActivity = m.stopWhenNoActivity := rfl
@[simp] theorem ping_pinged (m : Mon) : m.ping.pinged = true := rfl
@[simp] theorem ping_missed (m : Mon) : m.ping.missed = m.missed := rfl
@[simp] theorem ping_left (m : Mon) : m.ping.left = m.left := rfl
@[simp] theorem ping_running (m : Mon) : m.ping.running = m.running := rfl
@[simp] theorem stop_interval (m : Mon) : m.stop.interval = m.interval := rfl
@[simp] theorem stop_tol (m : Mon) : m.stop.tol = m.tol := rfl
@[simp] theorem stop_stop (m : Mon) : m.stop.stopWhenNoActivity = m.stopWhenNoActivity := rfl
@[simp] theorem stop_pinged (m : Mon) : m.stop.pinged = m.pinged := rfl
@[simp] theorem stop_missed (m : Mon) : m.stop.missed = m.missed := rfl
@[simp] theorem stop_left (m : Mon) : m.stop.left = m.left := rfl
@[simp] theorem stop_running (m : Mon) : m.stop.running = false := rfl

/-- the life of a session never shrinks and is frozen by close -/
theorem life_open (s : Sess) (h : s.closed = false) : s.life = s.now := by simp [Sess.life, h]
theorem life_closed (s : Sess) (h : s.closed = true) : s.life = s.closeT := by simp [Sess.life, h]

end NasdaqModel.Monitor
