import NasdaqModel.Lemmas.FixSharedAux
import NasdaqModel.Props.C13Shared
/-
W-S5's fuel-bounded predicates (`Props/C13Shared.lean`: `levelDistinct n`, `ce k`, `wfDefShared`, `countEnds`) imply the fuel-free ones
the proofs of `Lemmas/FixShared*.lean` run on (`ldLevel`, `levelOK` / `ceFields` / `ceTop`, `wfDefLevels`, `countEndsS`) - for every
fuel (W-C13S).
-/
namespace NasdaqModel.Fix
open NasdaqModel Py Props.C13Shared

theorem ldList_of_mem {es : List Entry} (h : ∀ e ∈ es, ldEntry e = true) : ldList es = true := by
  induction es with
  | nil => rfl
  | cons x xs ih =>
    simp only [ldList, Bool.and_eq_true]
    exact ⟨h x (by simp), ih (fun e he => h e (by simp [he]))⟩

theorem levelDistinct_ld : ∀ (n : Nat) (es : List Entry), levelDistinct n es = true → ldLevel es = true := by
  intro n
  induction n with
  | zero => intro es h; simp [levelDistinct] at h
  | succ n ih =>
    intro es h
    simp only [levelDistinct, Bool.and_eq_true, decide_eq_true_eq, List.all_eq_true] at h
    simp only [ldLevel, Bool.and_eq_true, decide_eq_true_eq]
    refine ⟨h.1, ldList_of_mem ?_⟩
    intro e he
    have := h.2 e he
    cases e with
    | field => rfl
    | group t sub r => exact ih sub this

theorem wfDefShared_levels {d : MsgDef} (h : wfDefShared d = true) : wfDefLevels d = true := by
  simp only [wfDefShared, Bool.and_eq_true] at h
  simp only [wfDefLevels, Bool.and_eq_true]
  exact ⟨⟨levelDistinct_ld _ _ h.1.1.2, levelDistinct_ld _ _ h.1.2⟩, levelDistinct_ld _ _ h.2⟩

/-! ### canonical forms are canonical -/

theorem canonVal_idem : ∀ e : Entry, ldEntry e = true → ∀ v, canonVal e (canonVal e v) = canonVal e v := by
  apply ld_ind
  · intro t ty r v
    cases v <;> simp [canonVal]
  · intro t sub r htn _ ih v
    cases v with
    | grp insts =>
      have key : ∀ (i : Seg) (es' : List Entry), (∀ e ∈ es', e ∈ sub) →
          canonFields es' (canonFields sub i) = canonFields es' i := by
        intro i es'
        induction es' with
        | nil => intro _; simp [canonFields]
        | cons x xs ihx =>
          intro hsub
          have hx : x ∈ sub := hsub x (by simp)
          simp only [canonFields]
          rw [lookupV_canonFields htn i hx, ihx (fun e he => hsub e (by simp [he]))]
          cases hl : lookupV i x.tag with
          | none => simp
          | some v => simp [ih x hx v]
      simp only [canonVal, List.map_map]
      congr 1
      apply List.map_congr_left
      intro i _
      exact key i sub (fun e he => he)
    | int _ => simp [canonVal]
    | flt _ => simp [canonVal]
    | bool _ => simp [canonVal]
    | str _ => simp [canonVal]

theorem canonFields_idem {sub : List Entry} (htn : (tagsOf sub).Nodup) (hld : ∀ e ∈ sub, ldEntry e = true) (i : Seg) :
    canonFields sub (canonFields sub i) = canonFields sub i := by
  have := canonVal_idem (.group 0 sub false) (by simp [ldEntry, htn, ldList_of_mem hld]) (.grp [i])
  simpa [canonVal] using this

/-! ### `ce k` implies the fuel-free condition -/

/-- the per-item clause of `ceItems` -/
def ceItem1 (rec : List Entry → Seg → Option Nat → Bool) (v : Val) (oe : Option Entry) (nxt : Option Nat) : Bool :=
  match v, oe with
  | .grp insts, some (.group _ sub _) => ceInsts rec sub (sub.head?.map Entry.tag) insts nxt
  | .grp _, _ => false
  | _, _ => true

theorem ceItems_cons (rec : List Entry → Seg → Option Nat → Bool) (es : List Entry) (t : Nat) (v : Val) (rest : Seg)
    (follow : Option Nat) :
    ceItems rec es ((t, v) :: rest) follow
      = (ceItem1 rec v (lookupE es t) (tagOr (keysOf rest) follow) && ceItems rec es rest follow) := by
  cases rest with
  | nil => rfl
  | cons p r => obtain ⟨t', w⟩ := p; rfl

theorem hasKey_canonFields {sub : List Entry} {i : Seg} {f : Nat} (h : f ∈ keysOf (canonFields sub i)) : hasKey i f = true := by
  rw [keys_canonFields_eq] at h
  obtain ⟨e, he, rfl⟩ := List.mem_map.mp h
  exact (List.mem_filter.mp he).2

/-- the instances of a group value, `H` = the bridge one level down -/
theorem ceInsts_bridge (rec : List Entry → Seg → Option Nat → Bool) (sub : List Entry) (first : Option Nat) (g : Seg → Seg)
    (H : ∀ i f, rec sub (canonFields sub (g i)) f = true → levelOK sub i f = true ∧ ceFields sub i f = true) :
    ∀ (insts : List Seg) (nxt : Option Nat), ceInsts rec sub first (insts.map g) nxt = true →
      (instFollows first insts nxt).all (fun p => levelOK sub p.1 p.2 && ceFields sub p.1 p.2) = true := by
  intro insts
  induction insts with
  | nil => intro nxt _; simp [instFollows]
  | cons i r ih =>
    intro nxt h
    cases r with
    | nil =>
      simp only [List.map_cons, List.map_nil, ceInsts] at h
      obtain ⟨h1, h2⟩ := H i nxt h
      simp [instFollows, h1, h2]
    | cons j r =>
      simp only [List.map_cons, ceInsts, Bool.and_eq_true] at h
      obtain ⟨h1, h2⟩ := H i first h.1
      have := ih nxt (by simpa using h.2)
      simp only [instFollows, List.all_cons, Bool.and_eq_true]
      exact ⟨⟨h1, h2⟩, this⟩

/-- an instance, in dictionary order -/
theorem ce_fields : ∀ (k : Nat) (sub : List Entry) (i : Seg) (f : Option Nat), (tagsOf sub).Nodup → (∀ e ∈ sub, ldEntry e = true) →
    ce k sub (canonFields sub i) f = true → levelOK sub i f = true ∧ ceFields sub i f = true := by
  intro k
  induction k with
  | zero => intro sub i f _ _ h; simp [ce] at h
  | succ k IH =>
    intro sub i f htn hld h
    simp only [ce, Bool.and_eq_true] at h
    obtain ⟨hlev, hitems⟩ := h
    constructor
    · cases f with
      | none => rfl
      | some f =>
        simp only [levelOK, Bool.not_eq_true', Bool.and_eq_false_iff, List.contains_eq_mem, decide_eq_false_iff_not,
          Bool.not_eq_false'] at hlev ⊢
        rcases hlev with h | h
        · exact Or.inl h
        · exact Or.inr (hasKey_canonFields (of_decide_eq_true h))
    · have key : ∀ es' : List Entry, (∀ e ∈ es', e ∈ sub) →
          ceItems (ce k) sub (canonFields es' i) f = true → ceFields es' i f = true := by
        intro es'
        induction es' with
        | nil => intro _ _; simp [ceFields]
        | cons e es' ih =>
          intro hsub hc
          have he : e ∈ sub := hsub e (by simp)
          simp only [canonFields] at hc
          simp only [ceFields]
          cases hl : lookupV i e.tag with
          | none =>
            rw [hl] at hc
            exact ih (fun x hx => hsub x (by simp [hx])) hc
          | some v =>
            rw [hl] at hc
            simp only [ceItems_cons, Bool.and_eq_true, lookupE_mem htn he] at hc
            simp only [Bool.and_eq_true]
            refine ⟨?_, ih (fun x hx => hsub x (by simp [hx])) hc.2⟩
            have hc1 := hc.1
            rw [keys_canonFields_eq, ← nextTag_eq] at hc1
            cases e with
            | field t ty r => simp [ceVal]
            | group t sub' r =>
              have hle := hld _ he
              simp only [ldEntry, Bool.and_eq_true, decide_eq_true_eq] at hle
              cases v with
              | grp insts =>
                simp only [canonVal, ceItem1] at hc1
                simp only [ceVal]
                apply ceInsts_bridge (ce k) sub' _ (canonFields sub') _ insts _ hc1
                intro i' f' hh
                rw [canonFields_idem hle.1 (ldList_mem hle.2)] at hh
                exact IH sub' i' f' hle.1 (ldList_mem hle.2) hh
              | int _ => simp [ceVal]
              | flt _ => simp [ceVal]
              | bool _ => simp [ceVal]
              | str _ => simp [ceVal]
      exact key sub (fun e he => he) hitems

/-- a top-level segment, in wire order -/
theorem ce_top (k : Nat) (es : List Entry) (hld : ∀ e ∈ es, ldEntry e = true) (f : Option Nat) :
    ∀ s : Seg, ceItems (ce k) es s f = true → ceTop es s f = true := by
  intro s
  induction s with
  | nil => intro _; simp [ceTop]
  | cons p s ih =>
    obtain ⟨t, v⟩ := p
    intro hc
    simp only [ceItems_cons, Bool.and_eq_true] at hc
    simp only [ceTop, Bool.and_eq_true]
    refine ⟨?_, ih hc.2⟩
    have hc1 := hc.1
    cases hl : lookupE es t with
    | none => rfl
    | some e =>
      rw [hl] at hc1
      simp only
      cases e with
      | field t' ty r => simp [ceVal]
      | group t' sub' r =>
        have hle := hld _ (lookupE_some hl).1
        simp only [ldEntry, Bool.and_eq_true, decide_eq_true_eq] at hle
        cases v with
        | grp insts =>
          simp only [ceItem1] at hc1
          simp only [ceVal]
          have := ceInsts_bridge (ce k) sub' (sub'.head?.map Entry.tag) id
            (fun i' f' hh => ce_fields k sub' i' f' hle.1 (ldList_mem hle.2) hh) insts
          simp only [List.map_id] at this
          exact this _ hc1
        | int _ => simp [ceVal]
        | flt _ => simp [ceVal]
        | bool _ => simp [ceVal]
        | str _ => simp [ceVal]

theorem ce_seg (k : Nat) (es : List Entry) (hld : ∀ e ∈ es, ldEntry e = true) (s : Seg) (f : Option Nat)
    (h : ce k es s f = true) : ceSeg es s f = true := by
  cases k with
  | zero => simp [ce] at h
  | succ k =>
    simp only [ce, Bool.and_eq_true] at h
    simp only [ceSeg, Bool.and_eq_true]
    refine ⟨?_, ce_top k es hld f s h.2⟩
    cases f with
    | none => rfl
    | some f =>
      have h1 := h.1
      simp only [levelOK, Bool.not_eq_true', Bool.and_eq_false_iff, List.contains_eq_mem, decide_eq_false_iff_not,
        Bool.not_eq_false'] at h1 ⊢
      rcases h1 with h1 | h1
      · exact Or.inl h1
      · exact Or.inr (hasKey_iff.mpr (of_decide_eq_true h1))

theorem countEnds_S {d : MsgDef} {m : Msg} (hd : wfDefLevels d = true) (h : countEnds d m = true) : countEndsS d m = true := by
  obtain ⟨lh, lb, lt⟩ := wfDefLevels_parts hd
  simp only [countEnds, Bool.and_eq_true] at h
  simp only [countEndsS, Bool.and_eq_true]
  exact ⟨⟨ce_seg _ _ (ldLevel_parts lh).2 _ _ h.1.1, ce_seg _ _ (ldLevel_parts lb).2 _ _ h.1.2⟩,
    ce_seg _ _ (ldLevel_parts lt).2 _ _ h.2⟩

/-! ### the other direction: inside W-S5's depth bound the fuel-free condition implies `ce` -/

theorem wfInsts_mem {sub : List Entry} {insts : List Seg} (h : wfInsts sub insts = true) : ∀ i ∈ insts, wfFields sub i = true := by
  induction insts with
  | nil => intro _ hi; simp at hi
  | cons a as ih =>
    simp only [wfInsts, Bool.and_eq_true] at h
    intro i hi
    rcases List.mem_cons.mp hi with hi | hi
    · subst hi; exact h.1.1.1
    · exact ih h.2 i hi

theorem ceInsts_bridge_rev (rec : List Entry → Seg → Option Nat → Bool) (sub : List Entry) (first : Option Nat) (g : Seg → Seg) :
    ∀ (insts : List Seg) (nxt : Option Nat),
      (∀ i ∈ insts, ∀ f, levelOK sub i f = true → ceFields sub i f = true → rec sub (canonFields sub (g i)) f = true) →
      (instFollows first insts nxt).all (fun p => levelOK sub p.1 p.2 && ceFields sub p.1 p.2) = true →
      ceInsts rec sub first (insts.map g) nxt = true := by
  intro insts
  induction insts with
  | nil => intro nxt _ _; simp [ceInsts]
  | cons i r ih =>
    intro nxt H h
    cases r with
    | nil =>
      simp only [instFollows, List.all_cons, List.all_nil, Bool.and_true, Bool.and_eq_true] at h
      simp only [List.map_cons, List.map_nil, ceInsts]
      exact H i (by simp) nxt h.1 h.2
    | cons j r =>
      simp only [instFollows, List.all_cons, Bool.and_eq_true] at h
      simp only [List.map_cons, ceInsts, Bool.and_eq_true]
      refine ⟨H i (by simp) first h.1.1 h.1.2, ?_⟩
      have := ih nxt (fun i' hi' => H i' (by simp [hi'])) (by simpa using h.2)
      simpa using this

theorem levelDistinct_succ {n : Nat} {es : List Entry} (h : levelDistinct (n + 1) es = true) :
    (tagsOf es).Nodup ∧ ∀ t sub r, Entry.group t sub r ∈ es → levelDistinct n sub = true := by
  simp only [levelDistinct, Bool.and_eq_true, decide_eq_true_eq, List.all_eq_true] at h
  exact ⟨h.1, fun t sub r hm => h.2 _ hm⟩

/-- an instance, in dictionary order -/
theorem fields_ce : ∀ (n : Nat) (sub : List Entry) (i : Seg) (f : Option Nat), levelDistinct n sub = true →
    wfFields sub i = true → levelOK sub i f = true → ceFields sub i f = true → ce (n + 1) sub (canonFields sub i) f = true := by
  intro n
  induction n with
  | zero => intro sub i f h; simp [levelDistinct] at h
  | succ n IH =>
    intro sub i f hld hwf hlev hcf
    obtain ⟨htn, hsub⟩ := levelDistinct_succ hld
    simp only [ce, Bool.and_eq_true]
    constructor
    · cases f with
      | none => rfl
      | some t =>
        simp only [levelOK, Bool.not_eq_true', Bool.and_eq_false_iff, List.contains_eq_mem, decide_eq_false_iff_not,
          Bool.not_eq_false'] at hlev ⊢
        rcases hlev with h | h
        · exact Or.inl h
        · by_cases hm : t ∈ tagsOf sub
          · right
            apply decide_eq_true
            rw [keys_canonFields_eq]
            obtain ⟨e, he, rfl⟩ := List.mem_map.mp hm
            exact List.mem_map.mpr ⟨e, List.mem_filter.mpr ⟨he, h⟩, rfl⟩
          · exact Or.inl hm
    · have key : ∀ es' : List Entry, (∀ e ∈ es', e ∈ sub) → ceFields es' i f = true →
          ceItems (ce (n + 1)) sub (canonFields es' i) f = true := by
        intro es'
        induction es' with
        | nil => intro _ _; simp [canonFields, ceItems]
        | cons e es' ih =>
          intro hsub' hc
          have he : e ∈ sub := hsub' e (by simp)
          simp only [ceFields] at hc
          simp only [canonFields]
          cases hl : lookupV i e.tag with
          | none =>
            rw [hl] at hc
            exact ih (fun x hx => hsub' x (by simp [hx])) hc
          | some v =>
            rw [hl] at hc
            simp only [Bool.and_eq_true] at hc
            simp only [ceItems_cons, Bool.and_eq_true, lookupE_mem htn he]
            refine ⟨?_, ih (fun x hx => hsub' x (by simp [hx])) hc.2⟩
            rw [keys_canonFields_eq, ← nextTag_eq]
            obtain ⟨e', hle, hwv⟩ := wfFields_mem hwf (lookupV_mem hl)
            have : e' = e := by
              have := lookupE_mem htn he
              rw [hle] at this
              injection this
            subst this
            have hc1 := hc.1
            cases e' with
            | field t ty r =>
              simp only [wfVal] at hwv
              cases v <;> simp [wfPrim] at hwv <;> simp [canonVal, ceItem1]
            | group t sub' r =>
              have hld' := hsub t sub' r he
              have hl' := ldLevel_parts (levelDistinct_ld n sub' hld')
              cases v with
              | grp insts =>
                simp only [wfVal] at hwv
                simp only [ceVal] at hc1
                simp only [canonVal, ceItem1]
                apply ceInsts_bridge_rev (ce (n + 1)) sub' _ (canonFields sub') insts _ _ hc1
                intro i' hi' f' h1 h2
                rw [canonFields_idem hl'.1 hl'.2]
                exact IH sub' i' f' hld' (wfInsts_mem hwv i' hi') h1 h2
              | int _ => simp [wfVal] at hwv
              | flt _ => simp [wfVal] at hwv
              | bool _ => simp [wfVal] at hwv
              | str _ => simp [wfVal] at hwv
      exact key sub (fun e he => he) hcf

/-- a top-level segment, in wire order -/
theorem seg_ce (n : Nat) (es : List Entry) (hld : levelDistinct (n + 1) es = true) (s : Seg) (hwf : wfFields es s = true)
    (f : Option Nat) (h : ceSeg es s f = true) : ce (n + 2) es s f = true := by
  obtain ⟨htn, hsub⟩ := levelDistinct_succ hld
  simp only [ceSeg, Bool.and_eq_true] at h
  simp only [ce, Bool.and_eq_true]
  constructor
  · cases f with
    | none => rfl
    | some t =>
      have h1 := h.1
      simp only [levelOK, Bool.not_eq_true', Bool.and_eq_false_iff, List.contains_eq_mem, decide_eq_false_iff_not,
        Bool.not_eq_false'] at h1 ⊢
      rcases h1 with h1 | h1
      · exact Or.inl h1
      · exact Or.inr (decide_eq_true (hasKey_iff.mp h1))
  · have key : ∀ s : Seg, wfFields es s = true → ceTop es s f = true → ceItems (ce (n + 1)) es s f = true := by
      intro s
      induction s with
      | nil => intro _ _; simp [ceItems]
      | cons p s ih =>
        obtain ⟨t, v⟩ := p
        intro hw hc
        simp only [wfFields, Bool.and_eq_true] at hw
        simp only [ceTop, Bool.and_eq_true] at hc
        simp only [ceItems_cons, Bool.and_eq_true]
        refine ⟨?_, ih hw.2 hc.2⟩
        cases hl : lookupE es t with
        | none => rw [hl] at hw; simp at hw
        | some e =>
          rw [hl] at hw hc
          have hwv := hw.1
          have hc1 := hc.1
          simp only at hwv hc1
          cases e with
          | field t' ty r =>
            simp only [wfVal] at hwv
            cases v <;> simp [wfPrim] at hwv <;> simp [ceItem1]
          | group t' sub' r =>
            have hld' := hsub t' sub' r (lookupE_some hl).1
            cases v with
            | grp insts =>
              simp only [wfVal] at hwv
              simp only [ceVal] at hc1
              simp only [ceItem1]
              have := ceInsts_bridge_rev (ce (n + 1)) sub' (sub'.head?.map Entry.tag) id insts
                (tagOr (keysOf s) f)
                (fun i' hi' f' h1 h2 => fields_ce n sub' i' f' hld' (wfInsts_mem hwv i' hi') h1 h2) hc1
              simpa using this
            | int _ => simp [wfVal] at hwv
            | flt _ => simp [wfVal] at hwv
            | bool _ => simp [wfVal] at hwv
            | str _ => simp [wfVal] at hwv
    exact key s hwf h.2

/-- inside W-S5's domain the two conditions coincide -/
theorem countEnds_iff_S {d : MsgDef} {m : Msg} (hd : wfDefShared d = true) (hm : wfMsg d m = true) :
    countEnds d m = true ↔ countEndsS d m = true := by
  refine ⟨countEnds_S (wfDefShared_levels hd), ?_⟩
  intro h
  simp only [wfDefShared, Bool.and_eq_true] at hd
  simp only [wfMsg, wfSeg, Bool.and_eq_true] at hm
  simp only [countEndsS, Bool.and_eq_true] at h
  simp only [countEnds, Bool.and_eq_true]
  exact ⟨⟨seg_ce 7 _ hd.1.1.2 _ hm.1.1.1.1 _ h.1.1, seg_ce 7 _ hd.1.2 _ hm.1.1.2.1 _ h.1.2⟩,
    seg_ce 7 _ hd.2 _ hm.1.2.1 _ h.2⟩

end NasdaqModel.Fix
