import NasdaqModel.Lemmas.GenFixLemmas
import NasdaqModel.Spec.FixDictEnum
/-
Lemmas for C16, part 2: the stateful, lazily caching, backwards-walking `parse` computes the pure substitution semantics
(`xItems` / `xComp`: component references replaced in place) on dictionaries whose component references are acyclic.
-/
namespace NasdaqModel.GenFix
open NasdaqModel Py Spec.FixDict

/-! ### pure expansion at the level of parsed entries -/

mutual
def xItem (fields : FieldTab) (sub : Str → Except Err (List Entry)) : Item → Except Err (List Entry)
  | .field n r =>
    match aget n fields with
    | none => .error .value
    | some fd => .ok [Entry.field fd (isRequired r)]
  | .group n r items =>
    match xItems fields sub items with
    | .error e => .error e
    | .ok es => .ok [Entry.group n (isRequired r) es]
  | .comp n _ => sub n
def xItems (fields : FieldTab) (sub : Str → Except Err (List Entry)) : List Item → Except Err (List Entry)
  | [] => .ok []
  | i :: rest =>
    match xItem fields sub i with
    | .error e => .error e
    | .ok es1 =>
      match xItems fields sub rest with
      | .error e => .error e
      | .ok es2 => .ok (es1 ++ es2)
end

def xComp (fields : FieldTab) (root : List CompXml) : Nat → Str → Except Err (List Entry)
  | 0, _ => .error .other
  | k + 1, n =>
    match root.find? (fun c => c.name = n) with
    | none => .error .value
    | some c => xItems fields (xComp fields root k) c.items

/-- two substitutions that agree wherever the first is defined -/
def SubLe (s1 s2 : Str → Except Err (List Entry)) : Prop := ∀ n es, s1 n = .ok es → s2 n = .ok es

mutual
theorem xItem_mono (fields : FieldTab) {s1 s2 : Str → Except Err (List Entry)} (h : SubLe s1 s2) :
    ∀ (i : Item) (es : List Entry), xItem fields s1 i = .ok es → xItem fields s2 i = .ok es
  | .field n r, es, hx => by simpa [xItem] using hx
  | .group n r items, es, hx => by
    simp only [xItem] at hx ⊢
    cases h1 : xItems fields s1 items with
    | error e => rw [h1] at hx; cases hx
    | ok es1 =>
      rw [h1] at hx
      rw [xItems_mono fields h items es1 h1]
      exact hx
  | .comp n r, es, hx => by
    simp only [xItem] at hx ⊢
    exact h n es hx
theorem xItems_mono (fields : FieldTab) {s1 s2 : Str → Except Err (List Entry)} (h : SubLe s1 s2) :
    ∀ (is : List Item) (es : List Entry), xItems fields s1 is = .ok es → xItems fields s2 is = .ok es
  | [], es, hx => by simpa [xItems] using hx
  | i :: rest, es, hx => by
    simp only [xItems] at hx ⊢
    cases h1 : xItem fields s1 i with
    | error e => rw [h1] at hx; cases hx
    | ok es1 =>
      rw [h1] at hx
      cases h2 : xItems fields s1 rest with
      | error e => rw [h2] at hx; cases hx
      | ok es2 =>
        rw [h2] at hx
        rw [xItem_mono fields h i es1 h1, xItems_mono fields h rest es2 h2]
        exact hx
end

theorem xComp_succ (fields : FieldTab) (root : List CompXml) : ∀ k, SubLe (xComp fields root k) (xComp fields root (k + 1))
  | 0 => by intro n es h; simp [xComp] at h
  | k + 1 => by
    intro n es h
    simp only [xComp] at h ⊢
    cases hf : root.find? (fun c => c.name = n) with
    | none => rw [hf] at h; cases h
    | some c =>
      rw [hf] at h
      simp only []
      exact xItems_mono fields (xComp_succ fields root k) c.items es h

theorem xComp_le (fields : FieldTab) (root : List CompXml) {k k' : Nat} (h : k ≤ k') :
    SubLe (xComp fields root k) (xComp fields root k') := by
  induction h with
  | refl => intro n es h; exact h
  | step _ ih => intro n es h'; exact xComp_succ fields root _ n es (ih n es h')

/-- results of `xComp` do not depend on the depth at which they are obtained -/
theorem xComp_unique (fields : FieldTab) (root : List CompXml) {k k' : Nat} {n : Str} {es es' : List Entry}
    (h : xComp fields root k n = .ok es) (h' : xComp fields root k' n = .ok es') : es = es' := by
  have a := xComp_le fields root (Nat.le_max_left k k') n es h
  have b := xComp_le fields root (Nat.le_max_right k k') n es' h'
  rw [a] at b
  cases b
  rfl

/-! ### the component table only ever holds expansions -/

def Consistent (fields : FieldTab) (root : List CompXml) (ct : CompTab) : Prop :=
  ∀ n es, aget n ct = some es → ∃ k, xComp fields root k n = .ok es

theorem consistent_nil (fields : FieldTab) (root : List CompXml) : Consistent fields root [] := by
  intro n es h; simp [aget] at h

theorem consistent_aset {fields : FieldTab} {root : List CompXml} {ct : CompTab} {n : Str} {es : List Entry} {k : Nat}
    (hc : Consistent fields root ct) (h : xComp fields root k n = .ok es) : Consistent fields root (aset n es ct) := by
  intro m es' hm
  by_cases e : n = m
  · subst e
    rw [aget_aset_same] at hm
    cases hm
    exact ⟨k, h⟩
  · rw [aget_aset_other es e] at hm
    exact hc m es' hm

/-- `sub` (stateful) implements `psub` (pure) on consistent tables -/
def Implements (fields : FieldTab) (root : List CompXml) (sub : CompLookup) (psub : Str → Except Err (List Entry)) : Prop :=
  ∀ ct n es, Consistent fields root ct → psub n = .ok es →
    ∃ ct', sub ct n = .ok (ct', es) ∧ Consistent fields root ct'

mutual
theorem handleItem_ok {fields : FieldTab} {root : List CompXml} {sub : CompLookup} {psub : Str → Except Err (List Entry)}
    (hs : Implements fields root sub psub) :
    ∀ (i : Item) (ct : CompTab) (es : List Entry), Consistent fields root ct → xItem fields psub i = .ok es →
      ∃ ct', handleItem fields sub ct i = .ok (ct', es) ∧ Consistent fields root ct'
  | .field n r, ct, es, hc, hx => by
    simp only [xItem] at hx
    simp only [handleItem]
    cases hf : aget n fields with
    | none => rw [hf] at hx; cases hx
    | some fd =>
      rw [hf] at hx
      cases hx
      exact ⟨ct, rfl, hc⟩
  | .group n r items, ct, es, hc, hx => by
    simp only [xItem] at hx
    simp only [handleItem]
    cases h1 : xItems fields psub items with
    | error e => rw [h1] at hx; cases hx
    | ok es1 =>
      rw [h1] at hx
      cases hx
      obtain ⟨ct', h2, hc'⟩ := handleItems_ok hs items ct es1 hc h1
      rw [h2]
      exact ⟨ct', rfl, hc'⟩
  | .comp n r, ct, es, hc, hx => by
    simp only [xItem] at hx
    simp only [handleItem]
    exact hs ct n es hc hx
theorem handleItems_ok {fields : FieldTab} {root : List CompXml} {sub : CompLookup} {psub : Str → Except Err (List Entry)}
    (hs : Implements fields root sub psub) :
    ∀ (is : List Item) (ct : CompTab) (es : List Entry), Consistent fields root ct → xItems fields psub is = .ok es →
      ∃ ct', handleItems fields sub ct is = .ok (ct', es) ∧ Consistent fields root ct'
  | [], ct, es, hc, hx => by
    simp only [xItems] at hx
    cases hx
    exact ⟨ct, rfl, hc⟩
  | i :: rest, ct, es, hc, hx => by
    simp only [xItems] at hx
    simp only [handleItems]
    cases h1 : xItem fields psub i with
    | error e => rw [h1] at hx; cases hx
    | ok es1 =>
      rw [h1] at hx
      cases h2 : xItems fields psub rest with
      | error e => rw [h2] at hx; cases hx
      | ok es2 =>
        rw [h2] at hx
        cases hx
        obtain ⟨ct1, g1, hc1⟩ := handleItem_ok hs i ct es1 hc h1
        obtain ⟨ct2, g2, hc2⟩ := handleItems_ok hs rest ct1 es2 hc1 h2
        rw [g1]
        simp only []
        rw [g2]
        exact ⟨ct2, rfl, hc2⟩
end

/-- `getComponent` with fuel `f` implements `xComp` at any depth `k ≤ f` -/
theorem getComponent_implements (fields : FieldTab) (root : List CompXml) :
    ∀ (k f : Nat), k ≤ f → Implements fields root (getComponent fields root f) (xComp fields root k)
  | 0, _, _ => by intro ct n es _ h; simp [xComp] at h
  | k + 1, 0, h => by omega
  | k + 1, f + 1, hkf => by
    intro ct n es hc hx
    simp only [getComponent]
    cases hg : aget n ct with
    | some es' =>
      obtain ⟨k', hk'⟩ := hc n es' hg
      have := xComp_unique fields root hk' hx
      subst this
      exact ⟨ct, rfl, hc⟩
    | none =>
      have hx' := hx
      simp only [xComp] at hx'
      cases hf : root.find? (fun c => c.name = n) with
      | none => rw [hf] at hx'; cases hx'
      | some c =>
        rw [hf] at hx'
        simp only [] at hx' ⊢
        have ih := getComponent_implements fields root k f (by omega)
        obtain ⟨ct', g, hc'⟩ := handleItems_ok ih c.items ct es hc hx'
        rw [g]
        exact ⟨aset n es ct', rfl, consistent_aset hc' hx⟩

/-! ### existence of the pure expansion on acyclic, fully declared dictionaries -/

mutual
theorem xItem_exists {fields : FieldTab} {psub : Str → Except Err (List Entry)} {pf pg pc qf qg qc : Str → Bool}
    (hf : ∀ n, pf n = true → ∃ fd, aget n fields = some fd) (hc : ∀ n, pc n = true → qc n = true → ∃ es, psub n = .ok es) :
    ∀ (i : Item), itemAll pf pg pc i = true → itemAll qf qg qc i = true → ∃ es, xItem fields psub i = .ok es
  | .field n r, h, _ => by
    simp only [itemAll] at h
    obtain ⟨fd, hfd⟩ := hf n h
    exact ⟨[Entry.field fd (isRequired r)], by simp only [xItem, hfd]⟩
  | .group n r items, h, h' => by
    simp only [itemAll, Bool.and_eq_true] at h h'
    obtain ⟨es, he⟩ := xItems_exists hf hc items h.2 h'.2
    exact ⟨[Entry.group n (isRequired r) es], by simp only [xItem, he]⟩
  | .comp n r, h, h' => by
    simp only [itemAll] at h h'
    simpa only [xItem] using hc n h h'
theorem xItems_exists {fields : FieldTab} {psub : Str → Except Err (List Entry)} {pf pg pc qf qg qc : Str → Bool}
    (hf : ∀ n, pf n = true → ∃ fd, aget n fields = some fd) (hc : ∀ n, pc n = true → qc n = true → ∃ es, psub n = .ok es) :
    ∀ (is : List Item), itemsAll pf pg pc is = true → itemsAll qf qg qc is = true → ∃ es, xItems fields psub is = .ok es
  | [], _, _ => ⟨[], rfl⟩
  | i :: rest, h, h' => by
    simp only [itemsAll, Bool.and_eq_true] at h h'
    obtain ⟨e1, h1⟩ := xItem_exists hf hc i h.1 h'.1
    obtain ⟨e2, h2⟩ := xItems_exists hf hc rest h.2 h'.2
    exact ⟨e1 ++ e2, by simp only [xItems, h1, h2]⟩
end

theorem find_some_mem {α : Type} {p : α → Bool} {l : List α} {a : α} (h : l.find? p = some a) : a ∈ l ∧ p a = true :=
  ⟨List.mem_of_find?_eq_some h, List.find?_some h⟩

theorem xComp_exists {fields : FieldTab} {root : List CompXml} {pf pg pc : Str → Bool}
    (hf : ∀ n, pf n = true → ∃ fd, aget n fields = some fd)
    (hroot : ∀ c ∈ root, itemsAll pf pg pc c.items = true) :
    ∀ (k : Nat) (n : Str), compDepthOk root k n = true → ∃ es, xComp fields root k n = .ok es
  | 0, n, h => by simp [compDepthOk] at h
  | k + 1, n, h => by
    simp only [compDepthOk] at h
    simp only [xComp]
    cases hfind : root.find? (fun c => c.name = n) with
    | none => rw [hfind] at h; cases h
    | some c =>
      rw [hfind] at h
      simp only [] at h ⊢
      have hm := (find_some_mem hfind).1
      exact xItems_exists hf (fun m _ hq => xComp_exists hf hroot k m hq) c.items (hroot c hm) h


/-! ### nodupB -/

theorem nodupB_iff : ∀ (l : List Str), nodupB l = true ↔ l.Nodup
  | [] => by simp [nodupB]
  | a :: t => by
    simp only [nodupB, Bool.and_eq_true, Bool.not_eq_eq_eq_not, Bool.not_true, List.nodup_cons, nodupB_iff t]
    constructor
    · intro h; exact ⟨by simpa using h.1, h.2⟩
    · intro h; exact ⟨by simpa using h.1, h.2⟩

/-! ### the fields table -/

/-- the `FieldDef` the parser builds for a declaration whose type name is known -/
def mkDef (types : TypeTable) (f : FieldXml) : Str × FieldDef :=
  (f.name, ⟨f.number, f.name, (aget f.type types).getD .FixString, valuesDict f.values⟩)

theorem handleFields_eq (types : TypeTable) : ∀ (fs : List FieldXml) (acc : FieldTab),
    (∀ f ∈ fs, ∃ ty, aget f.type types = some ty) → (keys acc ++ fs.map (·.name)).Nodup →
    handleFields types acc fs = .ok (acc ++ fs.map (mkDef types))
  | [], acc, _, _ => by simp [handleFields]
  | f :: rest, acc, ht, hn => by
    obtain ⟨ty, hty⟩ := ht f (by simp)
    simp only [handleFields, hty]
    have hnot : f.name ∉ keys acc := by
      intro hm
      have := List.nodup_append.mp hn
      exact this.2.2 _ hm _ (by simp) rfl
    rw [aset_of_not_mem hnot]
    have := handleFields_eq types rest (acc ++ [(f.name, ⟨f.number, f.name, ty, valuesDict f.values⟩)])
      (fun g hg => ht g (by simp [hg])) (by simpa [List.append_assoc] using hn)
    rw [this]
    simp [mkDef, hty]

theorem handleFields_append (types : TypeTable) : ∀ (a b : List FieldXml) (acc : FieldTab),
    handleFields types acc (a ++ b) =
      (match handleFields types acc a with
       | .error e => .error e
       | .ok ft => handleFields types ft b)
  | [], b, acc => by simp [handleFields]
  | f :: rest, b, acc => by
    simp only [List.cons_append, handleFields]
    cases aget f.type types with
    | none => rfl
    | some ty => exact handleFields_append types rest b _

theorem valuesDict_eq (vs : List EnumXml) (h : (vs.map (·.enum)).Nodup) : valuesDict vs = vs.map (fun v => (v.enum, v.desc)) := by
  have gen : ∀ (vs : List EnumXml) (acc : List (Str × Str)), (keys acc ++ vs.map (·.enum)).Nodup →
      vs.foldl (fun acc v => aset v.enum v.desc acc) acc = acc ++ vs.map (fun v => (v.enum, v.desc)) := by
    intro vs
    induction vs with
    | nil => intro acc _; simp
    | cons v rest ih =>
      intro acc hn
      have hnot : v.enum ∉ keys acc := by
        intro hm
        exact (List.nodup_append.mp hn).2.2 _ hm _ (by simp) rfl
      simp only [List.foldl_cons, aset_of_not_mem hnot]
      rw [ih _ (by simpa [List.append_assoc] using hn)]
      simp
  simpa [valuesDict] using gen vs [] (by simpa using h)


/-! ### messages, components, sections -/

def xMsgs (fields : FieldTab) (psub : Str → Except Err (List Entry)) : List MsgXml → Except Err (List Message)
  | [] => .ok []
  | m :: rest =>
    match xItems fields psub m.items with
    | .error e => .error e
    | .ok es =>
      match xMsgs fields psub rest with
      | .error e => .error e
      | .ok ms => .ok (⟨m.msgtype, m.name, m.msgcat, es⟩ :: ms)

theorem xItems_append (fields : FieldTab) (psub : Str → Except Err (List Entry)) : ∀ (a b : List Item) (ea eb : List Entry),
    xItems fields psub a = .ok ea → xItems fields psub b = .ok eb → xItems fields psub (a ++ b) = .ok (ea ++ eb)
  | [], b, ea, eb, ha, hb => by
    simp only [xItems] at ha
    cases ha
    simpa using hb
  | i :: rest, b, ea, eb, ha, hb => by
    simp only [xItems] at ha
    simp only [List.cons_append, xItems]
    cases h1 : xItem fields psub i with
    | error e => rw [h1] at ha; cases ha
    | ok e1 =>
      rw [h1] at ha
      cases h2 : xItems fields psub rest with
      | error e => rw [h2] at ha; cases ha
      | ok e2 =>
        rw [h2] at ha
        cases ha
        rw [xItems_append fields psub rest b e2 eb h2 hb]
        simp

theorem xMsgs_append (fields : FieldTab) (psub : Str → Except Err (List Entry)) : ∀ (a b : List MsgXml) (ma mb : List Message),
    xMsgs fields psub a = .ok ma → xMsgs fields psub b = .ok mb → xMsgs fields psub (a ++ b) = .ok (ma ++ mb)
  | [], b, ma, mb, ha, hb => by
    simp only [xMsgs] at ha
    cases ha
    simpa using hb
  | m :: rest, b, ma, mb, ha, hb => by
    simp only [xMsgs] at ha
    simp only [List.cons_append, xMsgs]
    cases h1 : xItems fields psub m.items with
    | error e => rw [h1] at ha; cases ha
    | ok e1 =>
      rw [h1] at ha
      cases h2 : xMsgs fields psub rest with
      | error e => rw [h2] at ha; cases ha
      | ok e2 =>
        rw [h2] at ha
        cases ha
        rw [xMsgs_append fields psub rest b e2 mb h2 hb]
        simp

theorem handleMessages_ok {fields : FieldTab} {root : List CompXml} {fuel : Nat} {psub : Str → Except Err (List Entry)}
    (hs : Implements fields root (getComponent fields root fuel) psub) :
    ∀ (ms : List MsgXml) (ct : CompTab) (msgs : List Message), Consistent fields root ct → xMsgs fields psub ms = .ok msgs →
      ∃ ct', handleMessages fields root fuel ct ms = .ok (ct', msgs) ∧ Consistent fields root ct'
  | [], ct, msgs, hc, hx => by
    simp only [xMsgs] at hx
    cases hx
    exact ⟨ct, rfl, hc⟩
  | m :: rest, ct, msgs, hc, hx => by
    simp only [xMsgs] at hx
    simp only [handleMessages]
    cases h1 : xItems fields psub m.items with
    | error e => rw [h1] at hx; cases hx
    | ok es =>
      rw [h1] at hx
      cases h2 : xMsgs fields psub rest with
      | error e => rw [h2] at hx; cases hx
      | ok ms2 =>
        rw [h2] at hx
        cases hx
        obtain ⟨ct1, g1, hc1⟩ := handleItems_ok hs m.items ct es hc h1
        obtain ⟨ct2, g2, hc2⟩ := handleMessages_ok hs rest ct1 ms2 hc1 h2
        rw [g1]
        simp only []
        rw [g2]
        exact ⟨ct2, rfl, hc2⟩

theorem handleComponents_ok {fields : FieldTab} {root : List CompXml} {fuel k : Nat} {psub : Str → Except Err (List Entry)}
    (hs : Implements fields root (getComponent fields root fuel) psub) :
    ∀ (cs : List CompXml) (ct : CompTab), Consistent fields root ct →
      (∀ c ∈ cs, ∃ es, xItems fields psub c.items = .ok es ∧ xComp fields root k c.name = .ok es) →
      ∃ ct', handleComponents fields root fuel ct cs = .ok ct' ∧ Consistent fields root ct'
  | [], ct, hc, _ => ⟨ct, rfl, hc⟩
  | c :: rest, ct, hc, h => by
    obtain ⟨es, h1, h2⟩ := h c (by simp)
    obtain ⟨ct1, g1, hc1⟩ := handleItems_ok hs c.items ct es hc h1
    simp only [handleComponents, handleComponent, g1]
    exact handleComponents_ok hs rest _ (consistent_aset hc1 h2) (fun c' hc' => h c' (by simp [hc']))

theorem find_self : ∀ (root : List CompXml), (root.map (·.name)).Nodup → ∀ c ∈ root,
    root.find? (fun x => x.name = c.name) = some c
  | [], _, c, hc => by simp at hc
  | a :: t, hn, c, hc => by
    simp only [List.map_cons, List.nodup_cons] at hn
    simp only [List.mem_cons] at hc
    rcases hc with rfl | hc
    · simp
    · have : a.name ≠ c.name := by
        intro e
        exact hn.1 (by rw [e]; exact List.mem_map_of_mem hc)
      simp only [List.find?_cons, this]
      simpa using find_self t hn.2 c hc

/-- what has been established after handling the sections `done` (none of them a `<fields>` section) -/
structure PInv (FT : FieldTab) (root : List CompXml) (N : Nat) (v : Version) (done : List Section) (defs : Defs) : Prop where
  ver : defs.version = v
  fields : defs.fields = FT
  cons : Consistent FT root defs.components
  hdr : xItems FT (xComp FT root N) (done.flatMap headerOf) = .ok defs.header
  trl : xItems FT (xComp FT root N) (done.flatMap trailerOf) = .ok defs.trailer
  msgs : xMsgs FT (xComp FT root N) (done.flatMap messagesOf) = .ok defs.messages

/-- the pure expansion of everything in a section exists -/
def SecOk (FT : FieldTab) (root : List CompXml) (N : Nat) : Section → Prop
  | .fields _ => False
  | .components cs => ∀ c ∈ cs, ∃ es, xItems FT (xComp FT root N) c.items = .ok es ∧ xComp FT root (N + 1) c.name = .ok es
  | .header is => ∃ es, xItems FT (xComp FT root N) is = .ok es
  | .trailer is => ∃ es, xItems FT (xComp FT root N) is = .ok es
  | .messages ms => ∃ msgs, xMsgs FT (xComp FT root N) ms = .ok msgs

theorem handleSection_ok {types : TypeTable} {FT : FieldTab} {root : List CompXml} {N : Nat} {v : Version} {done : List Section}
    {defs : Defs} (inv : PInv FT root N v done defs) (s : Section) (hs : SecOk FT root N s) :
    ∃ defs', handleSection types root (N + 1) defs s = .ok defs' ∧ PInv FT root N v (done ++ [s]) defs' := by
  have himp := getComponent_implements FT root N (N + 1) (by omega)
  cases s with
  | fields fs => exact absurd hs id
  | components cs =>
    obtain ⟨ct', g, hc'⟩ := handleComponents_ok (k := N + 1) himp cs defs.components inv.cons hs
    refine ⟨{ defs with components := ct' }, ?_, ?_⟩
    · simp only [handleSection, inv.fields, g]
    · exact ⟨inv.ver, inv.fields, hc', by simpa [headerOf] using inv.hdr, by simpa [trailerOf] using inv.trl,
        by simpa [messagesOf] using inv.msgs⟩
  | header is =>
    obtain ⟨es, he⟩ := hs
    obtain ⟨ct', g, hc'⟩ := handleItems_ok himp is defs.components es inv.cons he
    refine ⟨{ defs with components := ct', header := defs.header ++ es }, ?_, ?_⟩
    · simp only [handleSection, inv.fields, g]
    · refine ⟨inv.ver, inv.fields, hc', ?_, by simpa [trailerOf] using inv.trl, by simpa [messagesOf] using inv.msgs⟩
      simp only [List.flatMap_append, List.flatMap_cons, List.flatMap_nil, List.append_nil, headerOf]
      exact xItems_append _ _ _ _ _ _ inv.hdr he
  | trailer is =>
    obtain ⟨es, he⟩ := hs
    obtain ⟨ct', g, hc'⟩ := handleItems_ok himp is defs.components es inv.cons he
    refine ⟨{ defs with components := ct', trailer := defs.trailer ++ es }, ?_, ?_⟩
    · simp only [handleSection, inv.fields, g]
    · refine ⟨inv.ver, inv.fields, hc', by simpa [headerOf] using inv.hdr, ?_, by simpa [messagesOf] using inv.msgs⟩
      simp only [List.flatMap_append, List.flatMap_cons, List.flatMap_nil, List.append_nil, trailerOf]
      exact xItems_append _ _ _ _ _ _ inv.trl he
  | messages ms =>
    obtain ⟨msgs, he⟩ := hs
    obtain ⟨ct', g, hc'⟩ := handleMessages_ok himp ms defs.components msgs inv.cons he
    refine ⟨{ defs with components := ct', messages := defs.messages ++ msgs }, ?_, ?_⟩
    · simp only [handleSection, inv.fields, g]
    · refine ⟨inv.ver, inv.fields, hc', by simpa [headerOf] using inv.hdr, by simpa [trailerOf] using inv.trl, ?_⟩
      simp only [List.flatMap_append, List.flatMap_cons, List.flatMap_nil, List.append_nil, messagesOf]
      exact xMsgs_append _ _ _ _ _ _ inv.msgs he

theorem handleSections_ok {types : TypeTable} {FT : FieldTab} {root : List CompXml} {N : Nat} {v : Version} :
    ∀ (ps done : List Section) (defs : Defs), PInv FT root N v done defs → (∀ s ∈ ps, SecOk FT root N s) →
    ∃ defs', handleSections types root (N + 1) defs ps = .ok defs' ∧ PInv FT root N v (done ++ ps) defs'
  | [], done, defs, inv, _ => ⟨defs, rfl, by simpa using inv⟩
  | s :: rest, done, defs, inv, h => by
    obtain ⟨d1, g1, inv1⟩ := handleSection_ok (types := types) inv s (h s (by simp))
    obtain ⟨d2, g2, inv2⟩ := handleSections_ok (types := types) rest (done ++ [s]) d1 inv1 (fun s' hs' => h s' (by simp [hs']))
    refine ⟨d2, ?_, by simpa using inv2⟩
    simp only [handleSections, g1, g2]

/-- handling a run of `<fields>` sections only changes the fields table -/
theorem handleSections_fields {types : TypeTable} {root : List CompXml} {fuel : Nat} :
    ∀ (ps : List Section) (defs : Defs) (ft : FieldTab), (∀ s ∈ ps, isFieldsSec s = true) →
    handleFields types defs.fields (ps.flatMap fieldsOf) = .ok ft →
    handleSections types root fuel defs ps = .ok { defs with fields := ft }
  | [], defs, ft, _, h => by
    simp only [List.flatMap_nil, handleFields] at h
    cases h
    rfl
  | s :: rest, defs, ft, hall, h => by
    cases s with
    | fields fs =>
      simp only [List.flatMap_cons, fieldsOf] at h
      rw [handleFields_append] at h
      cases h1 : handleFields types defs.fields fs with
      | error e => rw [h1] at h; cases h
      | ok ft1 =>
        rw [h1] at h
        simp only [handleSections, handleSection, h1]
        exact handleSections_fields rest { defs with fields := ft1 } ft (fun s hs => hall s (by simp [hs])) h
    | components cs => have := hall _ (List.mem_cons_self ..); simp [isFieldsSec] at this
    | header is => have := hall _ (List.mem_cons_self ..); simp [isFieldsSec] at this
    | trailer is => have := hall _ (List.mem_cons_self ..); simp [isFieldsSec] at this
    | messages ms => have := hall _ (List.mem_cons_self ..); simp [isFieldsSec] at this


/-! ### from the guard `wfDict` to the hypotheses used above -/

/-- the guard with identifier-character enumerated values implies the one with printable enumerated values -/
theorem wfEnum_wfEnumE {ty : TyCls} {v : EnumXml} (h : wfEnum ty v = true) : wfEnumE ty v = true := by
  simp only [wfEnum, Bool.and_eq_true] at h
  obtain ⟨hid, hk⟩ := h
  simp only [wfEnumE, Bool.and_eq_true]
  refine ⟨hid, ?_⟩
  cases hq : (ty.kind == PyKind.str || ty.kind == PyKind.bool) with
  | false => rw [hq] at hk; simpa using hk
  | true =>
    rw [hq] at hk
    simp only [if_true, Bool.and_eq_true, List.all_eq_true] at hk ⊢
    refine ⟨hk.1, fun c hc => ?_⟩
    have := hk.2 c hc
    simp only [isIdentChar, isIdentStart, isDigit, Bool.or_eq_true, Bool.and_eq_true, decide_eq_true_eq, beq_iff_eq] at this
    simp only [isPrintable, Bool.and_eq_true, decide_eq_true_eq]
    omega

theorem wfFieldXml_wfFieldXmlE {types : TypeTable} {f : FieldXml} (h : wfFieldXml types f = true) : wfFieldXmlE types f = true := by
  simp only [wfFieldXml, Bool.and_eq_true] at h
  simp only [wfFieldXmlE, Bool.and_eq_true]
  refine ⟨h.1, ?_⟩
  cases hty : aget f.type types with
  | none => rw [hty] at h; exact absurd h.2 (by simp)
  | some ty =>
    have h2 := h.2
    rw [hty] at h2
    simp only [Bool.and_eq_true, List.all_eq_true] at h2 ⊢
    exact ⟨⟨fun v hv => wfEnum_wfEnumE (h2.1.1 v hv), h2.1.2⟩, h2.2⟩

/-- `wfDict` / `wfDictE` unpacked (`fieldsOk` is the weaker of the two field guards: enumerated values over printable ASCII) -/
structure WF (d : Dict) (types : TypeTable) : Prop where
  htypes : supportedTypes d.version = .ok types
  fieldsLast : fieldsLast d.sections = true
  oneF : atMostOne isFieldsSec d.sections = true
  oneH : atMostOne isHeaderSec d.sections = true
  oneT : atMostOne isTrailerSec d.sections = true
  oneM : atMostOne isMessagesSec d.sections = true
  fieldsOk : ∀ f ∈ d.sections.flatMap fieldsOf, wfFieldXmlE types f = true
  fnames : ((d.sections.flatMap fieldsOf).map (·.name)).Nodup
  cnames : ((allComps d).map (·.name)).Nodup
  depth : ∀ c ∈ allComps d, compDepthOk (allComps d) (allComps d).length c.name = true
  refs : ∀ is ∈ d.sections.flatMap containersOf,
    itemsAll (fun n => ((d.sections.flatMap fieldsOf).map (·.name)).contains n)
      (fun n => isCountField types (d.sections.flatMap fieldsOf) n)
      (fun n => ((allComps d).map (·.name)).contains n) is = true
  mnames : ((d.sections.flatMap messagesOf).map (·.name)).Nodup

theorem wf_unpack {d : Dict} (h : wfDict d = true) : ∃ types, WF d types := by
  unfold wfDict at h
  split at h
  · cases h
  · rename_i types ht
    simp only [Bool.and_eq_true, List.all_eq_true, and_assoc, nodupB_iff] at h
    obtain ⟨h1, h2, h3, h4, h5, h6, h7, h8, _, h10, h11, _, h13, _⟩ := h
    exact ⟨types, ⟨ht, h1, h2, h3, h4, h5, fun f hf => wfFieldXml_wfFieldXmlE (h6 f hf), h7, h8, h10, h11, h13⟩⟩

/-- the same unpacking for the guard with printable enumerated values -/
theorem wfE_unpack {d : Dict} (h : wfDictE d = true) : ∃ types, WF d types := by
  unfold wfDictE at h
  split at h
  · cases h
  · rename_i types ht
    simp only [Bool.and_eq_true, List.all_eq_true, and_assoc, nodupB_iff] at h
    obtain ⟨h1, h2, h3, h4, h5, h6, h7, h8, _, h10, h11, _, h13, _⟩ := h
    exact ⟨types, ⟨ht, h1, h2, h3, h4, h5, h6, h7, h8, h10, h11, h13⟩⟩

theorem mem_takeWhile_true {α : Type} (p : α → Bool) : ∀ (l : List α), ∀ x ∈ l.takeWhile p, p x = true
  | [], x, h => by simp at h
  | a :: t, x, h => by
    simp only [List.takeWhile_cons] at h
    cases hp : p a with
    | false => simp [hp] at h
    | true =>
      simp only [hp, if_true, List.mem_cons] at h
      rcases h with rfl | h
      · exact hp
      · exact mem_takeWhile_true p t x h

theorem flatMap_eq_nil_of {α β : Type} {f : α → List β} : ∀ {l : List α}, (∀ a ∈ l, f a = []) → l.flatMap f = []
  | [], _ => rfl
  | a :: t, h => by
    simp only [List.flatMap_cons, h a (by simp), List.nil_append]
    exact flatMap_eq_nil_of (fun b hb => h b (by simp [hb]))

theorem flatMap_reverse_of_atMostOne {β : Type} (p : Section → Bool) (f : Section → List β) (hf : ∀ s, p s = false → f s = []) :
    ∀ (l : List Section), atMostOne p l = true → l.reverse.flatMap f = l.flatMap f
  | [], _ => rfl
  | a :: t, h => by
    simp only [List.reverse_cons, List.flatMap_append, List.flatMap_cons, List.flatMap_nil, List.append_nil]
    cases hp : p a with
    | false =>
      have h' : atMostOne p t = true := by simpa [atMostOne, List.filter_cons, hp] using h
      rw [flatMap_reverse_of_atMostOne p f hf t h', hf a hp]
      simp
    | true =>
      have hnone : ∀ s ∈ t, p s = false := by
        intro s hs
        cases hps : p s with
        | false => rfl
        | true =>
          have : s ∈ t.filter p := List.mem_filter.mpr ⟨hs, hps⟩
          have hlen : (t.filter p).length = 0 := by
            simp only [atMostOne, List.filter_cons, hp, if_true, List.length_cons, decide_eq_true_eq] at h
            omega
          rw [List.length_eq_zero_iff.mp hlen] at this
          cases this
      have e1 : t.flatMap f = [] := flatMap_eq_nil_of (fun s hs => hf s (hnone s hs))
      have e2 : t.reverse.flatMap f = [] := flatMap_eq_nil_of (fun s hs => hf s (hnone s (List.mem_reverse.mp hs)))
      rw [e1, e2]
      simp

theorem handleSections_append {types : TypeTable} {root : List CompXml} {fuel : Nat} :
    ∀ (a b : List Section) (defs : Defs),
    handleSections types root fuel defs (a ++ b) =
      (match handleSections types root fuel defs a with
       | .error e => .error e
       | .ok d1 => handleSections types root fuel d1 b)
  | [], b, defs => rfl
  | s :: rest, b, defs => by
    simp only [List.cons_append, handleSections]
    cases handleSection types root fuel defs s with
    | error e => rfl
    | ok d1 => exact handleSections_append rest b d1

theorem keys_map_mkDef (types : TypeTable) (fxs : List FieldXml) : keys (fxs.map (mkDef types)) = fxs.map (·.name) := by
  simp [keys, mkDef, Function.comp_def]

theorem xMsgs_exists {fields : FieldTab} {psub : Str → Except Err (List Entry)} :
    ∀ (ms : List MsgXml), (∀ m ∈ ms, ∃ es, xItems fields psub m.items = .ok es) → ∃ msgs, xMsgs fields psub ms = .ok msgs
  | [], _ => ⟨[], rfl⟩
  | m :: rest, h => by
    obtain ⟨es, he⟩ := h m (by simp)
    obtain ⟨ms2, h2⟩ := xMsgs_exists rest (fun m' hm' => h m' (by simp [hm']))
    exact ⟨⟨m.msgtype, m.name, m.msgcat, es⟩ :: ms2, by simp only [xMsgs, he, h2]⟩

/-- the table of parsed field definitions of a valid dictionary -/
def fieldTab (d : Dict) (types : TypeTable) : FieldTab := (d.sections.flatMap fieldsOf).map (mkDef types)

/-- the result of `parse` on a valid dictionary, stated with the pure expansion -/
structure Parsed (d : Dict) (types : TypeTable) (defs : Defs) : Prop where
  ver : defs.version = d.version
  fields : defs.fields = fieldTab d types
  hdr : xItems (fieldTab d types) (xComp (fieldTab d types) (allComps d) (allComps d).length) (d.sections.flatMap headerOf) = .ok defs.header
  trl : xItems (fieldTab d types) (xComp (fieldTab d types) (allComps d) (allComps d).length) (d.sections.flatMap trailerOf) = .ok defs.trailer
  msgs : xMsgs (fieldTab d types) (xComp (fieldTab d types) (allComps d) (allComps d).length) (d.sections.flatMap messagesOf) = .ok defs.messages

theorem parse_ok {d : Dict} {types : TypeTable} (w : WF d types) : ∃ defs, parse d = .ok defs ∧ Parsed d types defs := by
  let FT := fieldTab d types
  let root := allComps d
  let N := root.length
  let fnamesB := fun n => ((d.sections.flatMap fieldsOf).map (·.name)).contains n
  let cnamesB := fun n => ((allComps d).map (·.name)).contains n
  -- facts
  have hf : ∀ n, fnamesB n = true → ∃ fd, aget n FT = some fd := by
    intro n hn
    apply aget_isSome_of_mem
    show n ∈ keys (fieldTab d types)
    rw [fieldTab, keys_map_mkDef]
    simpa [fnamesB] using hn
  have hroot : ∀ c ∈ root, itemsAll fnamesB (fun n => isCountField types (d.sections.flatMap fieldsOf) n) cnamesB c.items = true := by
    intro c hc
    apply w.refs
    simp only [root, allComps, List.mem_flatMap] at hc ⊢
    obtain ⟨s, hs, hcs⟩ := hc
    refine ⟨s, hs, ?_⟩
    cases s <;> simp_all [compsOf, containersOf]
    exact ⟨c, hcs, rfl⟩
  have hsubN : ∀ n, cnamesB n = true → cnamesB n = true → ∃ es, xComp FT root N n = .ok es := by
    intro n hn _
    have : n ∈ (allComps d).map (·.name) := by simpa [cnamesB] using hn
    obtain ⟨c, hc, rfl⟩ := List.mem_map.mp this
    exact xComp_exists hf hroot N c.name (w.depth c hc)
  have hitems : ∀ is ∈ d.sections.flatMap containersOf, ∃ es, xItems FT (xComp FT root N) is = .ok es := by
    intro is his
    exact xItems_exists hf hsubN is (w.refs is his) (w.refs is his)
  have hsec : ∀ s ∈ d.sections, isFieldsSec s = false → SecOk FT root N s := by
    intro s hs hnf
    have hcont : ∀ is ∈ containersOf s, is ∈ d.sections.flatMap containersOf :=
      fun is his => List.mem_flatMap.mpr ⟨s, hs, his⟩
    cases s with
    | fields fs => simp [isFieldsSec] at hnf
    | header is => exact hitems is (hcont is (by simp [containersOf]))
    | trailer is => exact hitems is (hcont is (by simp [containersOf]))
    | messages ms =>
      exact xMsgs_exists ms (fun m hm => hitems m.items (hcont m.items (by simp only [containersOf]; exact List.mem_map_of_mem hm)))
    | components cs =>
      intro c hc
      obtain ⟨es, he⟩ := hitems c.items (hcont c.items (by simp only [containersOf]; exact List.mem_map_of_mem hc))
      refine ⟨es, he, ?_⟩
      have hcr : c ∈ root := List.mem_flatMap.mpr ⟨_, hs, by simpa [compsOf] using hc⟩
      simp only [xComp, find_self root w.cnames c hcr]
      exact he
  -- split the sections
  let A := d.sections.takeWhile (fun s => !isFieldsSec s)
  let B := d.sections.dropWhile (fun s => !isFieldsSec s)
  have hAB : d.sections = A ++ B := (List.takeWhile_append_dropWhile).symm
  have hB : ∀ s ∈ B, isFieldsSec s = true := by
    have := w.fieldsLast
    simpa [Spec.FixDict.fieldsLast, List.all_eq_true, B] using this
  have hA : ∀ s ∈ A, isFieldsSec s = false := by
    intro s hs
    have := mem_takeWhile_true _ _ s hs
    simpa using this
  have hAfields : A.flatMap fieldsOf = [] := flatMap_eq_nil_of (fun s hs => by
    have := hA s hs
    cases s <;> simp_all [isFieldsSec, fieldsOf])
  have hBother : ∀ {β : Type} (f : Section → List β), (∀ s, isFieldsSec s = true → f s = []) → B.flatMap f = [] :=
    fun f hf' => flatMap_eq_nil_of (fun s hs => hf' s (hB s hs))
  have hBone : atMostOne isFieldsSec B = true := by
    have := w.oneF
    rw [hAB] at this
    simp only [atMostOne, List.filter_append, List.length_append, decide_eq_true_eq] at this ⊢
    omega
  have hBrev : B.reverse.flatMap fieldsOf = B.flatMap fieldsOf :=
    flatMap_reverse_of_atMostOne isFieldsSec fieldsOf (fun s hs => by cases s <;> simp_all [isFieldsSec, fieldsOf]) B hBone
  have hfx : d.sections.flatMap fieldsOf = B.flatMap fieldsOf := by
    rw [hAB, List.flatMap_append, hAfields, List.nil_append]
  -- phase 1: the fields
  have hFT : handleFields types [] (B.reverse.flatMap fieldsOf) = .ok FT := by
    rw [hBrev, ← hfx]
    have := handleFields_eq types (d.sections.flatMap fieldsOf) []
      (fun f hfm => by
        have := w.fieldsOk f hfm
        simp only [wfFieldXmlE, Bool.and_eq_true] at this
        cases hty : aget f.type types with
        | none => rw [hty] at this; simp at this
        | some ty => exact ⟨ty, rfl⟩)
      (by simpa using w.fnames)
    simpa [FT, fieldTab] using this
  have h1 := handleSections_fields (types := types) (root := root) (fuel := N + 1) B.reverse { version := d.version } FT
    (fun s hs => hB s (List.mem_reverse.mp hs)) hFT
  -- phase 2
  have inv0 : PInv FT root N d.version [] { version := d.version, fields := FT } :=
    ⟨rfl, rfl, consistent_nil _ _, rfl, rfl, rfl⟩
  obtain ⟨defs, h2, inv⟩ := handleSections_ok (types := types) A.reverse [] _ inv0
    (fun s hs => hsec s (by rw [hAB]; exact List.mem_append_left _ (List.mem_reverse.mp hs)) (hA s (List.mem_reverse.mp hs)))
  refine ⟨defs, ?_, ?_⟩
  · simp only [parse, w.htypes]
    rw [hAB, List.reverse_append, handleSections_append]
    show (match handleSections types root (N + 1) { version := d.version } B.reverse with
      | Except.error e => Except.error e
      | Except.ok d1 => handleSections types root (N + 1) d1 A.reverse) = Except.ok defs
    rw [h1]
    exact h2
  · have conv : ∀ {β : Type} (p : Section → Bool) (f : Section → List β), atMostOne p d.sections = true →
        (∀ s, p s = false → f s = []) → (∀ s, isFieldsSec s = true → f s = []) →
        A.reverse.flatMap f = d.sections.flatMap f := by
      intro β p f hone hpf hff
      have hAone : atMostOne p A = true := by
        rw [hAB] at hone
        simp only [atMostOne, List.filter_append, List.length_append, decide_eq_true_eq] at hone ⊢
        omega
      rw [flatMap_reverse_of_atMostOne p f hpf A hAone, hAB, List.flatMap_append, hBother f hff, List.append_nil]
    have cH := conv isHeaderSec headerOf w.oneH (fun s hs => by cases s <;> simp_all [isHeaderSec, headerOf])
      (fun s hs => by cases s <;> simp_all [isFieldsSec, headerOf])
    have cT := conv isTrailerSec trailerOf w.oneT (fun s hs => by cases s <;> simp_all [isTrailerSec, trailerOf])
      (fun s hs => by cases s <;> simp_all [isFieldsSec, trailerOf])
    have cM := conv isMessagesSec messagesOf w.oneM (fun s hs => by cases s <;> simp_all [isMessagesSec, messagesOf])
      (fun s hs => by cases s <;> simp_all [isFieldsSec, messagesOf])
    have ih := inv.hdr
    have it := inv.trl
    have im := inv.msgs
    simp only [List.nil_append] at ih it im
    rw [cH] at ih
    rw [cT] at it
    rw [cM] at im
    exact ⟨inv.ver, inv.fields, ih, it, im⟩


end NasdaqModel.GenFix
