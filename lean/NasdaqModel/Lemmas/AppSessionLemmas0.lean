import NasdaqModel.Lemmas.SessionLemmas5
/-
Facts about single steps of the inner session machine that the application-session product machine (`Model/AppSession.lean`)
relies on: the trace only grows; while a task `t` is inside the close callback no event other than `run t` moves the close stage;
with a suspending close callback the close body always ends in the callback stage; the closer's step out of the callback.

`CoreHoare` generalises `CoreInv` (SessionLemmas.lean) to a pre- and a post-condition and to a restricted set of tasks whose
`run` events are considered.
-/
namespace NasdaqModel.Sess

/-- `P` before, `Q` after one `step` by an event that is not `run t` for a task outside `ok`.  Both read only the core. -/
structure CoreHoare (cfg : Cfg) (ok : Tid → Prop) (P Q : St → Prop) : Prop where
  of_core : ∀ {s s' : St}, core s' = core s → P s → P s'
  emit_neutral : ∀ {s : St} {o : Obs}, neutral o = true → P s → P (s.emit o)
  emit_msgEnter : ∀ (s : St) (n : Nat), s.qClosed = false → P s → P (s.emit (.msgEnter n))
  weaken : ∀ {s : St}, P s → Q s
  enterClose' : ∀ {s : St}, P s → ∀ (t : Tid) (c : Cont), Q (enterClose cfg s t c)
  stepInClose' : ∀ {s : St}, P s → ∀ (t : Tid) (b : Bool), ok t → Q (stepInClose cfg s t b)

namespace CoreHoare
variable {cfg : Cfg} {ok : Tid → Prop} {P Q : St → Prop}

theorem of_core_emit (h : CoreHoare cfg ok P Q) {s s' : St} {o : Obs}
    (hc : core s' = (s.closed, s.cstage, s.qClosed, s.trace ++ [o])) (hn : neutral o = true) (i : P s) : P s' :=
  h.of_core (s := s.emit o) hc (h.emit_neutral hn i)

end CoreHoare

/-- closing tactic for goals `P s'` where `s'` is `s` (with `i : P s` in scope) changed outside the core, possibly after emitting
    one neutral observable -/
macro "hoa" i:ident : tactic => `(tactic| first
  | exact $i
  | (refine CoreHoare.of_core ‹CoreHoare _ _ _ _› ?_ $i; rfl)
  | (refine CoreHoare.of_core_emit ‹CoreHoare _ _ _ _› (o := ?o) ?h ?hn $i; (case h => rfl); (case hn => rfl)))

section
variable {cfg : Cfg} {ok : Tid → Prop} {P Q : St → Prop}

theorem stepReader_H (h : CoreHoare cfg ok P Q) {s : St} (i : P s) : Q (stepReader cfg s) := by
  unfold stepReader
  split
  · exact h.weaken (by hoa i)
  · split
    · exact h.weaken i
    · rename_i f rest _
      cases f with
      | msg n => exact h.weaken (h.of_core (core_put _ n) (by hoa i))
      | hb => exact h.weaken (by hoa i)
      | logout => exact h.enterClose' (by hoa i) _ _
      | bad => exact h.enterClose' (by hoa i) _ _

theorem dispHandle_H (h : CoreHoare cfg ok P Q) {s : St} (i : P s) (n : Nat) : Q (dispHandle cfg s n) := by
  unfold dispHandle
  split
  · exact h.weaken (by hoa i)
  · exact h.weaken (by hoa i)
  · exact h.enterClose' i _ _
  · have i2 : P s.initiateClose := h.of_core (core_initiateClose _) i
    exact h.weaken (by hoa i2)
  · exact h.weaken (by hoa i)
  · have i2 : P (s.emit (.write .reply)).startHeartbeats := by hoa i
    exact h.weaken (by hoa i2)
  · exact h.enterClose' (by hoa i) _ _

theorem stepDisp_H (h : CoreHoare cfg ok P Q) {s : St} (i : P s) : Q (stepDisp cfg s) := by
  unfold stepDisp
  split
  · exact h.weaken (by hoa i)
  · rename_i hq
    have hq' : s.qClosed = false := by simpa using hq
    split
    · exact h.weaken i
    · split
      · exact h.weaken (by hoa i)
      · apply dispHandle_H h
        exact h.of_core (s := s.emit (.msgEnter _)) rfl (h.emit_msgEnter _ _ hq' i)

theorem stepMon_H (h : CoreHoare cfg ok P Q) {s : St} (i : P s) (b : Bool) : Q (stepMon cfg s b) := by
  unfold stepMon
  split
  · split
    · exact h.weaken (by hoa i)
    · exact h.weaken (by hoa i)
  · split
    · exact h.weaken (by hoa i)
    · exact h.enterClose' i _ _

theorem loginResume_H (h : CoreHoare cfg ok P Q) {s : St} (i : P s) (t : Tid) (u : Nat) :
    Q (loginResume cfg s t u) := by
  unfold loginResume
  split
  · rename_i n _
    have i1 : P ((({ s with vres := none, rcvBusy := false, gone := s.gone ++ [(n, true)] } : St)).emit (.loginReply n)) := by hoa i
    simp only
    split
    · have i2 := h.of_core (core_startDispatching _ cfg) (h.of_core (core_startHeartbeats _) i1)
      exact h.weaken (by hoa i2)
    · exact h.enterClose' i1 _ _
  · split
    · exact h.weaken (by hoa i)
    · exact h.enterClose' (by hoa i) _ _

theorem stepRun_H (h : CoreHoare cfg ok P Q) {s : St} (i : P s) (t : Tid) (hok : ok t) : Q (stepRun cfg s t) := by
  unfold stepRun
  have i0 : P { s with imm := none } := by hoa i
  generalize ({ s with imm := none } : St) = s0 at i0
  simp only
  split
  · -- cancelled
    split
    · exact h.weaken (by hoa i0)
    · exact h.weaken (by hoa i0)
    · split <;> exact h.weaken (by hoa i0)
    · split
      · exact h.weaken (by hoa i0)
      · exact h.enterClose' (by hoa i0) _ _
    · exact h.stepInClose' i0 _ _ hok
    · exact h.weaken (by hoa i0)
  · -- ready
    split
    · split
      · exact stepReader_H h i0
      · exact h.weaken i0
    · split
      · exact stepDisp_H h i0
      · exact h.weaken i0
    · split <;> exact h.weaken (by hoa i0)
    · exact h.weaken (by hoa i0)
    · split
      · exact stepMon_H h i0 _
      · split
        · exact stepMon_H h i0 _
        · exact h.weaken i0
    · exact h.enterClose' i0 _ _
    · exact h.stepInClose' i0 _ _ hok
    · split
      · exact h.weaken (by hoa i0)
      · split <;> exact h.weaken (by hoa i0)
    · split
      · exact h.weaken (by hoa i0)
      · split <;> exact h.weaken (by hoa i0)
    · exact loginResume_H h i0 _ _
    · exact h.weaken i0
  · exact h.weaken i0

theorem startRecv_H (h : CoreHoare cfg ok P Q) {s : St} (i : P s) (u : Nat) (b : Bool) : Q (startRecv s u b) := by
  unfold startRecv
  split
  · exact h.weaken i
  · split
    · exact h.weaken (by hoa i)
    · split
      · exact h.weaken (by hoa i)
      · split
        · split <;> exact h.weaken (by hoa i)
        · exact h.weaken (by hoa i)

theorem step_H (h : CoreHoare cfg ok P Q) {s : St} (i : P s) (ev : Ev) (hev : ∀ t, ev = .run t → ok t) :
    Q (step cfg s ev) := by
  cases ev with
  | connect =>
    simp only [step]
    split
    · exact h.weaken i
    · split
      · exact h.weaken (h.of_core (core_startDispatching _ _) (by hoa i))
      · exact h.weaken (by hoa i)
  | data fs => exact h.weaken (by hoa i)
  | eof => exact h.weaken (h.of_core (core_initiateClose _) i)
  | run t =>
    simp only [step]
    split
    · exact stepRun_H h i t (hev t rfl)
    · exact h.weaken i
  | callClose u =>
    simp only [step]
    split
    · exact h.weaken i
    · exact h.enterClose' (by hoa i) _ _
  | callInitiateClose => exact h.weaken (h.of_core (core_initiateClose _) i)
  | callLogout =>
    have i1 : P ({ (s.emit (.write .logout)) with pingL := true }) := by hoa i
    exact h.weaken (h.of_core (core_initiateClose _) i1)
  | callRecv u =>
    simp only [step]
    split
    · exact h.weaken i
    · exact startRecv_H h i u false
  | callRecvNowait u =>
    simp only [step]
    split
    · exact h.weaken i
    · split
      · exact h.weaken (by hoa i)
      · split
        · exact h.weaken (by hoa i)
        · split <;> exact h.weaken (by hoa i)
  | callLogin u =>
    simp only [step]
    split
    · exact h.weaken i
    · exact startRecv_H h (by hoa i) u true
  | callSend => exact h.weaken (by hoa i)
  | cancel u => exact h.weaken (h.of_core (core_cancelTask _ _) i)

end

end NasdaqModel.Sess

namespace NasdaqModel.Sess

/-! ### the trace only grows -/

theorem runCont_trace (s : St) (t : Tid) (c : Cont) : s.trace <+: (runCont s t c).trace := by
  cases c <;> simp [runCont, St.setStatus, St.setProg, St.emit, St.finish]

theorem cancelTask_trace (s : St) (x : Tid) : (s.cancelTask x).trace = s.trace := by
  have := core_cancelTask s x
  simp only [core, Prod.mk.injEq] at this
  exact this.2.2.2

theorem closeTail_trace (cfg : Cfg) (s : St) (t : Tid) (c : Cont) : s.trace <+: (closeTail cfg s t c).trace := by
  unfold closeTail
  have e1 : s.trace <+: (s.emit .tclose).trace := List.prefix_append _ _
  simp only
  split
  · refine List.IsPrefix.trans ?_ (runCont_trace _ t c)
    exact e1
  · have e2 : s.trace <+: ((s.emit .tclose).emit .cbEnter).trace := e1.trans (List.prefix_append _ _)
    split
    · exact e2
    · refine List.IsPrefix.trans ?_ (runCont_trace _ t c)
      show s.trace <+: ((s.emit .tclose).emit .cbEnter).trace ++ [.cbExit]
      exact e2.trans (List.prefix_append _ _)

theorem execClose_trace (cfg : Cfg) (t : Tid) (c : Cont) (l : List Obs) (pc : Nat) (s : St) (h : l <+: s.trace) :
    l <+: (execClose cfg s t c pc).trace := by
  refine execClose_rule cfg t c (fun s => l <+: s.trace) (fun s => l <+: s.trace) ?_ ?_ ?_ ?_ pc s h
  · intro s p; exact p
  · intro s p; exact p
  · intro s x pc p _ _ _
    show l <+: (s.cancelTask x).trace
    rw [cancelTask_trace]; exact p
  · intro s p; exact p.trans (closeTail_trace cfg s t c)

theorem prefixHoare (cfg : Cfg) (l : List Obs) :
    CoreHoare cfg (fun _ => True) (fun s => l <+: s.trace) (fun s => l <+: s.trace) where
  of_core := by
    intro s s' hc h
    simp only [core, Prod.mk.injEq] at hc
    rw [hc.2.2.2]; exact h
  emit_neutral := fun _ h => h.trans (List.prefix_append _ _)
  emit_msgEnter := fun _ _ _ h => h.trans (List.prefix_append _ _)
  weaken := fun h => h
  enterClose' := by
    intro s h t c
    unfold enterClose
    split
    · exact h.trans (runCont_trace s t c)
    · exact execClose_trace cfg t c l 0 _ h
  stepInClose' := by
    intro s h t b _
    unfold stepInClose
    split
    · split
      · unfold resumeClose
        apply execClose_trace
        split <;> exact h
      · exact h
    · split
      · split
        · split
          · exact h.trans (List.prefix_append _ _)
          · exact h
        · split
          · refine List.IsPrefix.trans ?_ (runCont_trace _ _ _)
            show l <+: s.trace ++ [.cbExit]
            exact h.trans (List.prefix_append _ _)
          · exact h
      · exact h
    · exact h

/-- **The trace only grows**: one step appends to the observable trace. -/
theorem step_trace_prefix (cfg : Cfg) (s : St) (ev : Ev) : s.trace <+: (step cfg s ev).trace :=
  step_H (prefixHoare cfg s.trace) (List.prefix_refl _) ev (fun _ _ => trivial)

theorem step_trace_eq (cfg : Cfg) (s : St) (ev : Ev) :
    (step cfg s ev).trace = s.trace ++ (step cfg s ev).trace.drop s.trace.length := by
  obtain ⟨d, hd⟩ := step_trace_prefix cfg s ev
  rw [← hd]; simp

/-! ### the close stage moves only by the closer's own steps once the callback is entered -/

theorem runCont_cstage (s : St) (t : Tid) (c : Cont) : (runCont s t c).cstage = s.cstage := by
  cases c <;> simp [runCont, St.setStatus, St.setProg, St.emit, St.finish]

theorem cbFrameHoare (cfg : Cfg) (t0 : Tid) (k : Nat) (c0 : Cont) :
    CoreHoare cfg (fun t => t ≠ t0) (fun s => s.closed = true ∧ s.cstage = .cb t0 k c0)
      (fun s => s.closed = true ∧ s.cstage = .cb t0 k c0) where
  of_core := by
    intro s s' hc h
    simp only [core, Prod.mk.injEq] at hc
    rw [hc.1, hc.2.1]; exact h
  emit_neutral := fun _ h => h
  emit_msgEnter := fun _ _ _ h => h
  weaken := fun h => h
  enterClose' := by
    intro s h t c
    unfold enterClose
    rw [if_pos h.1]
    exact ⟨by rw [runCont_closed]; exact h.1, by rw [runCont_cstage]; exact h.2⟩
  stepInClose' := by
    intro s h t b hne
    unfold stepInClose
    rw [h.2]
    simp only
    rw [if_neg (fun e => hne e.symm)]
    exact h

/-- while `t` is inside the close callback, no event other than `run t` changes the close stage -/
theorem step_cb_frame (cfg : Cfg) (s : St) (t : Tid) (k : Nat) (c : Cont) (ev : Ev)
    (hc : s.closed = true) (hs : s.cstage = .cb t k c) (hne : ev ≠ .run t) :
    (step cfg s ev).cstage = .cb t k c :=
  (step_H (cbFrameHoare cfg t k c) ⟨hc, hs⟩ ev (fun t' e => by rintro rfl; exact hne e)).2

/-! ### with a suspending close callback the close body ends in the callback stage -/

def preCb (s : St) : Prop := s.cstage = .idle ∨ ∃ t pc c, s.cstage = .body t pc c
def postCb (s : St) : Prop := preCb s ∨ ∃ t c, s.cstage = .cb t 0 c

theorem execClose_postCb (cfg : Cfg) (hcb : cfg.hasCb = true) (hbeh : cfg.cbBeh = .await 0) (t : Tid) (c : Cont)
    (pc : Nat) (s : St) (h : ∃ pc, s.cstage = .body t pc c) : postCb (execClose cfg s t c pc) := by
  refine execClose_rule cfg t c (fun s => ∃ pc, s.cstage = .body t pc c) postCb ?_ ?_ ?_ ?_ pc s h
  · intro s p; exact p
  · intro s p; exact p
  · intro s x pc _ _ _ _
    exact Or.inl (Or.inr ⟨t, pc + 1, c, rfl⟩)
  · intro s _
    refine Or.inr ⟨t, c, ?_⟩
    simp [closeTail, hcb, hbeh]

theorem bodyHoare (cfg : Cfg) (hcb : cfg.hasCb = true) (hbeh : cfg.cbBeh = .await 0) :
    CoreHoare cfg (fun _ => True) (fun s => (s.closed = true ↔ s.cstage ≠ .idle) ∧ preCb s) postCb where
  of_core := by
    intro s s' hc h
    simp only [core, Prod.mk.injEq] at hc
    unfold preCb
    rw [hc.1, hc.2.1]; exact h
  emit_neutral := fun _ h => h
  emit_msgEnter := fun _ _ _ h => h
  weaken := fun h => Or.inl h.2
  enterClose' := by
    intro s h t c
    unfold enterClose
    split
    · refine Or.inl ?_
      unfold preCb
      rw [runCont_cstage]; exact h.2
    · exact execClose_postCb cfg hcb hbeh t c 0 _ ⟨0, rfl⟩
  stepInClose' := by
    intro s h t b _
    unfold stepInClose
    rcases h.2 with hi | ⟨t', pc, c, hb⟩
    · rw [hi]; exact Or.inl (Or.inl hi)
    · rw [hb]
      simp only
      split
      · rename_i htt
        unfold resumeClose
        apply execClose_postCb cfg hcb hbeh
        split
        · exact ⟨pc, by rw [← htt]; exact hb⟩
        · exact ⟨pc, by rw [← htt]; exact hb⟩
      · exact Or.inl (Or.inr ⟨t', pc, c, hb⟩)

/-- from a state in which the close callback has not been entered, one step leads to such a state again or into the callback
    stage `cb t 0 c` — never directly to `finished` / `aborted` (the configured close callback suspends) -/
theorem step_postCb (cfg : Cfg) (hcb : cfg.hasCb = true) (hbeh : cfg.cbBeh = .await 0) (s : St) (ev : Ev)
    (a : InvA cfg s) (h : preCb s) : postCb (step cfg s ev) :=
  step_H (bodyHoare cfg hcb hbeh) ⟨a.closed_iff, h⟩ ev (fun _ _ => trivial)

/-! ### the closer's step out of the callback -/

theorem step_closer_ready (cfg : Cfg) (s : St) (t : Tid) (c : Cont)
    (hs : s.cstage = .cb t 0 c) (hp : s.prog t = .inClose) (hst : s.status t = .ready) :
    (step cfg s (.run t)).cstage = .finished := by
  simp [step, runnable, hst, stepRun, hp, stepInClose, hs, runCont_cstage]

theorem step_closer_cancelled (cfg : Cfg) (s : St) (t : Tid) (c : Cont)
    (hs : s.cstage = .cb t 0 c) (hp : s.prog t = .inClose) (hst : s.status t = .cancelled) :
    (step cfg s (.run t)).cstage = .aborted := by
  simp only [step, runnable, hst, stepRun, hp, stepInClose, hs]
  cases c <;> simp [St.finish, St.emit]

/-- once the close has been aborted it stays aborted -/
theorem abortedInv (cfg : Cfg) : CoreInv cfg (fun s => s.closed = true ∧ s.cstage = .aborted) where
  of_core := by
    intro s s' hc h
    simp only [core, Prod.mk.injEq] at hc
    rw [hc.1, hc.2.1]; exact h
  emit_neutral := fun _ h => h
  emit_msgEnter := fun _ _ _ h => h
  enterClose' := by
    intro s h t c
    unfold enterClose
    rw [if_pos h.1]
    exact ⟨by rw [runCont_closed]; exact h.1, by rw [runCont_cstage]; exact h.2⟩
  stepInClose' := by
    intro s h t b
    unfold stepInClose
    rw [h.2]
    exact h

theorem step_aborted_final (cfg : Cfg) (s : St) (ev : Ev) (hc : s.closed = true) (hf : s.cstage = .aborted) :
    (step cfg s ev).cstage = .aborted :=
  (step_J (abortedInv cfg) (J := fun s => s.closed = true ∧ s.cstage = .aborted) ⟨hc, hf⟩ ev).2

/-- `initiate_close()` does not touch the close stage, the flags or the trace -/
theorem step_initiateClose_core (cfg : Cfg) (s : St) : core (step cfg s .callInitiateClose) = core s := by
  simp [step]

end NasdaqModel.Sess
