import NasdaqModel.Lemmas.AppSessionLemmas0
/-
Facts about single steps of the inner session machine needed for the link invariant of the application-close repair
(`Lemmas/AppSessionLink.lean`, `Props/C05AppLink.lean`):

* `step_absent`: a user task that has never been created stays uncreated under every event except the three user calls that name
  it (`callClose u`, `callRecv u`, `callLogin u`) — the inner machine never creates a user task on its own;
* `step_closerOrFinal`: the identity of the closer is stable — once task `t` is the closer, every event leaves it the closer or
  ends the close (`finished` / `aborted`), and an ended close stays ended;
* `step_callClose_closer`: `callClose u` for a fresh `u` on a session that is not closed makes `U u` the closer (or runs the
  close to its end in the same step).
-/
namespace NasdaqModel.Sess

/-- user task `u` has never been created -/
def Absent (u : Nat) (s : St) : Prop := s.status (.U u) = .absent

section absent
variable {u : Nat} {s : St}

theorem Absent.ne (h : Absent u s) {t : Tid} (ht : s.status t ≠ .absent) : t ≠ .U u := by
  rintro rfl; exact ht h

theorem Absent.of_status {s' : St} (h : Absent u s) (e : s'.status (.U u) = s.status (.U u)) : Absent u s' := by
  unfold Absent; rw [e]; exact h

theorem Absent.setStatus (h : Absent u s) {t : Tid} (ht : t ≠ .U u) (x : Status) : Absent u (s.setStatus t x) := by
  show (if Tid.U u = t then x else s.status (.U u)) = .absent
  rw [if_neg (fun e => ht e.symm)]; exact h

theorem Absent.setProg (h : Absent u s) (t : Tid) (p : Prog) : Absent u (s.setProg t p) := h

theorem Absent.emit (h : Absent u s) (o : Obs) : Absent u (s.emit o) := h

theorem Absent.finish (h : Absent u s) {t : Tid} (ht : t ≠ .U u) : Absent u (s.finish t) := by
  have h' : s.status (.U u) = .absent := h
  show (if Tid.U u = t then Status.done else if s.status (.U u) = .waitT t then .ready else s.status (.U u)) = .absent
  rw [if_neg (fun e => ht e.symm), h']; simp

theorem Absent.cancelTask (h : Absent u s) (t : Tid) : Absent u (s.cancelTask t) := by
  unfold St.cancelTask
  split
  · rename_i hs; exact h.setStatus (h.ne (by rw [hs]; simp)) _
  · rename_i hs; exact h.setStatus (h.ne (by rw [hs]; simp)) _
  · split
    · rename_i hs; exact h.setStatus (h.ne (by rw [hs]; simp)) _
    · rename_i hs; exact h.setStatus (h.ne (by rw [hs]; simp)) _
    · exact h
  · exact h

theorem Absent.wakeGetter (h : Absent u s) (t : Tid) : Absent u (s.wakeGetter t) := by
  unfold St.wakeGetter
  split
  · rename_i hs; exact h.setStatus (h.ne (by rw [hs]; simp)) _
  · exact h

theorem Absent.put (h : Absent u s) (m : Nat) : Absent u (s.put m) := by
  unfold St.put
  exact (Absent.wakeGetter (s := { s with queue := s.queue ++ [m] }) h .D).wakeGetter .V

theorem Absent.spawn (h : Absent u s) {t : Tid} (ht : t ≠ .U u) (p : Prog) : Absent u (s.spawn t p) :=
  (h.setStatus ht .ready).setProg t p

theorem Absent.initiateClose (h : Absent u s) : Absent u s.initiateClose := by
  unfold St.initiateClose
  split
  · exact h
  · exact Absent.spawn (s := { s with closingTask := true }) h (by simp) _

theorem Absent.startDispatching (h : Absent u s) (cfg : Cfg) : Absent u (s.startDispatching cfg) := by
  unfold St.startDispatching
  split
  · exact Absent.spawn (s := { s with dispSet := true }) h (by simp) _
  · exact h

theorem Absent.startHeartbeats (h : Absent u s) : Absent u s.startHeartbeats := by
  unfold St.startHeartbeats
  exact (Absent.spawn (s := { s with pingL := true, pingM := true }) h (by simp) _).spawn (by simp) _

theorem Absent.runCont (h : Absent u s) {t : Tid} (ht : t ≠ .U u) (c : Cont) : Absent u (runCont s t c) := by
  cases c with
  | readerTail => exact (Absent.setStatus (s := { s with rStopped := true }) h ht _)
  | handlerTail n => exact ((h.emit _).setStatus ht _)
  | monitorTail => exact h.finish ht
  | closingTail => exact h.finish ht
  | userTail v r => exact (h.emit _).finish ht

theorem Absent.closeTail (cfg : Cfg) (h : Absent u s) {t : Tid} (ht : t ≠ .U u) (c : Cont) :
    Absent u (closeTail cfg s t c) := by
  unfold Sess.closeTail
  simp only
  split
  · exact Absent.runCont (s := { (s.emit .tclose) with cstage := .finished }) h ht c
  · split
    · exact (Absent.setStatus (s := (s.emit .tclose).emit .cbEnter) h ht _)
    · exact Absent.runCont (s := { (((s.emit .tclose).emit .cbEnter).emit .cbExit) with cstage := .finished }) h ht c

theorem Absent.execClose (cfg : Cfg) {t : Tid} (ht : t ≠ .U u) (c : Cont) (pc : Nat) (s : St) (h : Absent u s) :
    Absent u (execClose cfg s t c pc) := by
  refine execClose_rule cfg t c (Absent u) (Absent u) ?_ ?_ ?_ ?_ pc s h
  · intro s p; exact p
  · intro s p; exact p
  · intro s x pc p _ _ _
    exact ((p.cancelTask x).setStatus ht _)
  · intro s p; exact p.closeTail cfg ht c

theorem Absent.enterClose (cfg : Cfg) (h : Absent u s) {t : Tid} (ht : t ≠ .U u) (c : Cont) :
    Absent u (enterClose cfg s t c) := by
  unfold Sess.enterClose
  split
  · exact h.runCont ht c
  · exact Absent.execClose cfg ht c 0 _ h

theorem Absent.stepInClose (cfg : Cfg) (h : Absent u s) {t : Tid} (ht : t ≠ .U u) (b : Bool) :
    Absent u (stepInClose cfg s t b) := by
  unfold Sess.stepInClose
  split
  · split
    · unfold resumeClose
      apply Absent.execClose cfg ht
      split
      · exact h.setStatus ht _
      · exact h.setStatus ht _
    · exact h
  · split
    · split
      · split
        · exact Absent.finish (s := ({ s with cstage := .aborted } : St).emit _) h ht
        · exact Absent.finish (s := { s with cstage := .aborted }) h ht
      · split
        · exact Absent.runCont (s := { (s.emit .cbExit) with cstage := .finished }) h ht _
        · exact h
    · exact h
  · exact h

theorem Absent.stepReader (cfg : Cfg) (h : Absent u s) : Absent u (stepReader cfg s) := by
  unfold Sess.stepReader
  split
  · exact h.finish (by simp)
  · split
    · exact h
    · rename_i f rest _
      cases f with
      | msg n => exact Absent.put (s := { s with buf := rest, consumed := s.consumed ++ [.msg n], recvd := s.recvd ++ [n] }) h n
      | hb => exact h
      | logout => exact Absent.enterClose (s := { s with buf := rest, consumed := s.consumed ++ [.logout] }) cfg h (by simp) _
      | bad => exact Absent.enterClose (s := { s with buf := rest, consumed := s.consumed ++ [.bad] }) cfg h (by simp) _

theorem Absent.dispHandle (cfg : Cfg) (h : Absent u s) (n : Nat) : Absent u (dispHandle cfg s n) := by
  unfold Sess.dispHandle
  split
  · exact h
  · exact h
  · exact h.enterClose cfg (by simp) _
  · exact h.initiateClose
  · exact h
  · exact Absent.startHeartbeats (s := s.emit (.write .reply)) h
  · exact Absent.enterClose (s := s.emit (.write .reply)) cfg h (by simp) _

theorem Absent.stepDisp (cfg : Cfg) (h : Absent u s) : Absent u (stepDisp cfg s) := by
  unfold Sess.stepDisp
  split
  · exact h.finish (by simp)
  · split
    · exact h
    · split
      · exact h.setStatus (by simp) _
      · rename_i n q _
        exact Absent.dispHandle (s := ({ s with queue := q, gone := s.gone ++ [(n, true)] } : St).emit (.msgEnter n)) cfg h n

theorem Absent.stepMon (cfg : Cfg) (h : Absent u s) (b : Bool) : Absent u (stepMon cfg s b) := by
  unfold Sess.stepMon
  split
  · split
    · exact h
    · exact h
  · split
    · exact h
    · exact h.enterClose cfg (by simp) _

theorem Absent.loginResume (cfg : Cfg) (h : Absent u s) {t : Tid} (ht : t ≠ .U u) (v : Nat) :
    Absent u (loginResume cfg s t v) := by
  unfold Sess.loginResume
  split
  · rename_i n _
    simp only
    split
    · exact Absent.finish (s := (((({ s with vres := none, rcvBusy := false, gone := s.gone ++ [(n, true)] } : St).emit
        (.loginReply n)).startHeartbeats).startDispatching cfg).emit (.ret v .ok))
        ((Absent.startHeartbeats (s := ({ s with vres := none, rcvBusy := false, gone := s.gone ++ [(n, true)] } : St).emit
          (.loginReply n)) h).startDispatching cfg) ht
    · exact Absent.enterClose (s := ({ s with vres := none, rcvBusy := false, gone := s.gone ++ [(n, true)] } : St).emit
        (.loginReply n)) cfg h ht _
  · split
    · exact Absent.finish (s := ({ s with rcvBusy := false } : St).emit (.ret v .refused)) h ht
    · exact Absent.enterClose (s := { s with rcvBusy := false }) cfg h ht _

theorem Absent.stepRun (cfg : Cfg) (h : Absent u s) (t : Tid) : Absent u (stepRun cfg s t) := by
  unfold Sess.stepRun
  have h0 : Absent u { s with imm := none } := h
  generalize ({ s with imm := none } : St) = s0 at h0
  simp only
  split
  · -- cancelled
    rename_i hst
    have ht : t ≠ .U u := h0.ne (by rw [hst]; simp)
    split
    · exact Absent.finish (s := s0.emit _) h0 ht
    · exact h0.finish ht
    · split
      · exact Absent.finish (s := ({ s0 with vres := none, rcvBusy := false, queue := s0.vres.toList ++ s0.queue } : St).emit _) h0 ht
      · exact Absent.finish (s := ({ s0 with vres := none, rcvBusy := false, queue := s0.vres.toList ++ s0.queue } : St).emit _) h0 ht
    · split
      · exact Absent.finish (s := ({ s0 with vres := none, rcvBusy := false, queue := s0.vres.toList ++ s0.queue } : St).emit _) h0 ht
      · exact Absent.enterClose cfg
          (Absent.setStatus (s := { s0 with vres := none, rcvBusy := false, queue := s0.vres.toList ++ s0.queue }) h0 ht _) ht _
    · exact h0.stepInClose cfg ht _
    · exact h0.finish ht
  · -- ready
    rename_i hst
    have ht : t ≠ .U u := h0.ne (by rw [hst]; simp)
    split
    · split
      · exact h0.stepReader cfg
      · exact h0
    · split
      · exact h0.stepDisp cfg
      · exact h0
    · split
      · exact h0
      · exact h0
    · exact h0
    · split
      · exact h0.stepMon cfg _
      · split
        · exact h0.stepMon cfg _
        · exact h0
    · exact h0.enterClose cfg ht _
    · exact h0.stepInClose cfg ht _
    · split
      · exact h0.setStatus ht _
      · split
        · exact h0
        · exact Absent.finish (s := { s0 with queue := _, vres := _ }) h0 ht
    · split
      · exact Absent.finish (s := ({ s0 with vres := none, rcvBusy := false, gone := _ } : St).emit _) h0 ht
      · split
        · exact Absent.finish (s := ({ s0 with rcvBusy := false } : St).emit _) h0 ht
        · exact Absent.finish (s := ({ s0 with rcvBusy := false } : St).emit _) h0 ht
    · exact h0.loginResume cfg ht _
    · exact h0
  · exact h0

theorem Absent.startRecv (h : Absent u s) {v : Nat} (hv : v ≠ u) (b : Bool) : Absent u (startRecv s v b) := by
  have hne : Tid.U v ≠ Tid.U u := by intro e; cases e; exact hv rfl
  unfold Sess.startRecv
  split
  · exact h
  · split
    · exact Absent.setStatus (s := s.emit _) h hne _
    · split
      · exact (Absent.setStatus (s := { s with queue := _, vres := _, rcvBusy := true, imm := _ }) h hne _)
      · split
        · split
          · exact Absent.setStatus (s := s.emit _) h hne _
          · exact Absent.setStatus (s := s.emit _) h hne _
        · exact ((Absent.spawn (s := { s with rcvBusy := true }) h (by simp) _).setStatus hne _)

/-- **The inner machine never creates a user task on its own**: a user task that does not exist still does not exist after any
    event other than the three user calls that name it. -/
theorem step_absent (cfg : Cfg) (s : St) (u : Nat) (ev : Ev) (h : Absent u s)
    (h1 : ev ≠ .callClose u) (h2 : ev ≠ .callRecv u) (h3 : ev ≠ .callLogin u) : Absent u (step cfg s ev) := by
  cases ev with
  | connect =>
    simp only [step]
    split
    · exact h
    · split
      · exact (h.spawn (by simp) _).startDispatching cfg
      · exact h.spawn (by simp) _
  | data fs => exact h
  | eof => exact h.initiateClose
  | run t =>
    simp only [step]
    split
    · exact h.stepRun cfg t
    · exact h
  | callClose v =>
    have hv : v ≠ u := fun e => h1 (by rw [e])
    have hne : Tid.U v ≠ Tid.U u := by intro e; cases e; exact hv rfl
    simp only [step]
    split
    · exact h
    · exact Absent.enterClose (s := (s.setStatus (.U v) .ready).setProg (.U v) .idle) cfg (h.setStatus hne _) hne _
  | callInitiateClose => exact h.initiateClose
  | callLogout => exact Absent.initiateClose (s := { (s.emit (.write .logout)) with pingL := true }) h
  | callRecv v =>
    have hv : v ≠ u := fun e => h2 (by rw [e])
    simp only [step]
    split
    · exact h
    · exact h.startRecv hv _
  | callRecvNowait v =>
    simp only [step]
    split
    · exact h
    · split
      · exact h
      · split
        · exact h
        · split <;> exact h
  | callLogin v =>
    have hv : v ≠ u := fun e => h3 (by rw [e])
    simp only [step]
    split
    · exact h
    · exact Absent.startRecv (s := { (s.emit (.write .login)) with pingL := true }) h hv _
  | callSend => exact h
  | cancel v => exact h.cancelTask _

end absent

/-! ### the closer stays the closer until the close ends -/

/-- the close has run to its end (or was aborted by the user inside the user's close callback) -/
def finalStage (s : St) : Prop := s.cstage = .finished ∨ s.cstage = .aborted

/-- the session reports closed, and task `t` is the closer or the close has ended -/
def CloserOrFinal (t : Tid) (s : St) : Prop := s.closed = true ∧ (isCloser s t ∨ finalStage s)

theorem isCloser_unique {s : St} {t t' : Tid} (h : isCloser s t) (h' : isCloser s t') : t = t' := by
  rcases h with ⟨pc, c, h⟩ | ⟨k, c, h⟩ <;> rcases h' with ⟨pc', c', h'⟩ | ⟨k', c', h'⟩ <;> rw [h] at h' <;> cases h' <;> rfl

theorem isCloser_not_final {s : St} {t : Tid} (h : isCloser s t) : ¬ finalStage s := by
  rcases h with ⟨pc, c, h⟩ | ⟨k, c, h⟩ <;> rintro (h' | h') <;> rw [h] at h' <;> cases h'

theorem closeTail_closerOrFinal (cfg : Cfg) (s : St) (t : Tid) (c : Cont) (h : s.closed = true) :
    CloserOrFinal t (closeTail cfg s t c) := by
  refine ⟨by rw [closeTail_closed]; exact h, ?_⟩
  unfold closeTail
  simp only
  split
  · exact Or.inr (Or.inl (by rw [runCont_cstage]))
  · split
    · exact Or.inl (Or.inr ⟨_, c, rfl⟩)
    · exact Or.inr (Or.inl (by rw [runCont_cstage]))

theorem execClose_closerOrFinal (cfg : Cfg) (t : Tid) (c : Cont) (pc : Nat) (s : St) (h : s.closed = true) :
    CloserOrFinal t (execClose cfg s t c pc) := by
  refine execClose_rule cfg t c (fun s => s.closed = true) (CloserOrFinal t) ?_ ?_ ?_ ?_ pc s h
  · intro s p; exact p
  · intro s p; exact p
  · intro s x pc p _ _ _
    have hc : core (s.cancelTask x) = core s := core_cancelTask s x
    simp only [core, Prod.mk.injEq] at hc
    refine ⟨?_, Or.inl (Or.inl ⟨pc + 1, c, rfl⟩)⟩
    show (s.cancelTask x).closed = true
    rw [hc.1]; exact p
  · intro s p; exact closeTail_closerOrFinal cfg s t c p

theorem closerHoare (cfg : Cfg) (t0 : Tid) : CoreHoare cfg (fun _ => True) (CloserOrFinal t0) (CloserOrFinal t0) where
  of_core := by
    intro s s' hc h
    simp only [core, Prod.mk.injEq] at hc
    unfold CloserOrFinal isCloser finalStage
    rw [hc.1, hc.2.1]; exact h
  emit_neutral := fun _ h => h
  emit_msgEnter := fun _ _ _ h => h
  weaken := fun h => h
  enterClose' := by
    intro s h t c
    unfold enterClose
    rw [if_pos h.1]
    unfold CloserOrFinal isCloser finalStage
    rw [runCont_closed, runCont_cstage]; exact h
  stepInClose' := by
    intro s h t b _
    obtain ⟨hcl, hrole⟩ := h
    unfold stepInClose
    split
    · rename_i t' pc c hb
      split
      · rename_i htt
        subst htt
        have e : t0 = t' := by
          rcases hrole with hr | hr
          · exact isCloser_unique hr (Or.inl ⟨pc, c, hb⟩)
          · exact absurd hr (isCloser_not_final (Or.inl ⟨pc, c, hb⟩))
        subst e
        unfold resumeClose
        apply execClose_closerOrFinal
        split <;> exact hcl
      · exact ⟨hcl, hrole⟩
    · rename_i t' k c hb
      split
      · rename_i htt
        subst htt
        have e : t0 = t' := by
          rcases hrole with hr | hr
          · exact isCloser_unique hr (Or.inr ⟨k, c, hb⟩)
          · exact absurd hr (isCloser_not_final (Or.inr ⟨k, c, hb⟩))
        subst e
        split
        · split
          · exact ⟨hcl, Or.inr (Or.inr rfl)⟩
          · exact ⟨hcl, Or.inr (Or.inr rfl)⟩
        · split
          · refine ⟨by rw [runCont_closed]; exact hcl, Or.inr (Or.inl (by rw [runCont_cstage]))⟩
          · exact ⟨hcl, Or.inl (Or.inr ⟨_, c, rfl⟩)⟩
      · exact ⟨hcl, hrole⟩
    · exact ⟨hcl, hrole⟩

/-- **The closer stays the closer until the close ends**, and an ended close stays ended — under every event. -/
theorem step_closerOrFinal (cfg : Cfg) (s : St) (t : Tid) (ev : Ev) (h : CloserOrFinal t s) :
    CloserOrFinal t (step cfg s ev) :=
  step_H (closerHoare cfg t) h ev (fun _ _ => trivial)

/-- `await session.close()` by a fresh user task on a session that is not closed: that task is the closer (or has already run the
    close to its end) -/
theorem step_callClose_closer (cfg : Cfg) (s : St) (u : Nat) (h : s.status (.U u) = .absent) (hc : s.closed = false) :
    CloserOrFinal (.U u) (step cfg s (.callClose u)) := by
  simp only [step, h, bne_self_eq_false, Bool.false_eq_true, if_false]
  unfold enterClose
  rw [if_neg (by simp [St.setStatus, St.setProg, hc])]
  exact execClose_closerOrFinal cfg _ _ 0 _ rfl

/-- the closer exists: it is alive -/
theorem isCloser_alive {s : St} (b : InvB s) {t : Tid} (h : isCloser s t) : alive (s.status t) = true := by
  rcases h with ⟨pc, c, h⟩ | ⟨k, c, h⟩
  · exact (b.bst t pc c h).2.2.2.1
  · rcases (b.cb t k c h).2.1 with e | e <;> rw [e] <;> rfl

end NasdaqModel.Sess
