import NasdaqModel.Model.Framing
/-
Generic part of the C03 proofs: the reader machine of Model/Framing.lean over *any* protocol whose `deserialize()` satisfies the
three framing facts (`FrameSpec`): a complete frame followed by anything is cut off exactly, a proper prefix of a frame asks for
more bytes, frames are non-empty.  The Soup and FIX instances are proved in Props/C03.lean's helper sections below.
-/
namespace NasdaqModel.Framing
open NasdaqModel

variable {μ : Type}

/-! ### specification-side vocabulary -/

/-- bytes handed to `on_data` by an event list, concatenated -/
def received : List Ev → Bytes
  | [] => []
  | .data s :: evs => s ++ received evs
  | .tick :: evs => received evs

def Ev.isTick : Ev → Bool
  | .tick => true
  | .data _ => false

/-- number of polls after the last `on_data` call -/
def ticksAfterLastData (evs : List Ev) : Nat := (evs.reverse.takeWhile Ev.isTick).length

/-- the byte stream of a message list -/
def stream (enc : μ → Bytes) (ms : List μ) : Bytes := (ms.map enc).flatten

/-- what the application must see: the non-heartbeats before the first logout -/
def expected (P : Proto μ) (ms : List μ) : List μ :=
  (ms.takeWhile (fun m => !P.isLogout m)).filter (fun m => !P.isHeartbeat m)

def hasLogout (P : Proto μ) (ms : List μ) : Bool := ms.any P.isLogout

/-- the three framing facts about a `deserialize()` -/
structure FrameSpec (P : Proto μ) (enc : μ → Bytes) (wf : μ → Prop) : Prop where
  nonempty : ∀ m, wf m → enc m ≠ []
  exact : ∀ m rest, wf m → P.deser (enc m ++ rest) = .ok (some (m, rest))
  short : ∀ m q, wf m → q <+: enc m → q ≠ enc m → q ≠ [] → P.deser q = .ok none

/-! ### list facts -/

theorem received_append (a b : List Ev) : received (a ++ b) = received a ++ received b := by
  induction a with
  | nil => simp [received]
  | cons e a ih => cases e <;> simp [received, ih]

theorem received_replicate_tick (n : Nat) : received (List.replicate n Ev.tick) = [] := by
  induction n with
  | zero => simp [received]
  | succ n ih => simp [List.replicate_succ, received, ih]

theorem stream_append (enc : μ → Bytes) (a b : List μ) : stream enc (a ++ b) = stream enc a ++ stream enc b := by
  simp [stream]

theorem stream_cons (enc : μ → Bytes) (m : μ) (l : List μ) : stream enc (m :: l) = enc m ++ stream enc l := by
  simp [stream]

theorem stream_take_drop (enc : μ → Bytes) (ms : List μ) (k : Nat) :
    stream enc ms = stream enc (ms.take k) ++ stream enc (ms.drop k) := by
  rw [← stream_append, List.take_append_drop]

theorem take_succ_of_getElem (l : List μ) (k : Nat) (h : k < l.length) : l.take (k + 1) = l.take k ++ [l[k]] := by
  rw [List.take_add_one]; simp [h]

theorem take_prefix_takeWhile (p : μ → Bool) : ∀ (l : List μ) (k : Nat), (∀ m ∈ l.take k, p m = true) →
    l.take k <+: l.takeWhile p := by
  intro l
  induction l with
  | nil => intro k _; simp
  | cons x l ih =>
    intro k h
    cases k with
    | zero => simp
    | succ k =>
      have hx : p x = true := h x (by simp)
      have := ih k (fun m hm => h m (by simp [hm]))
      simp only [List.take_succ_cons, List.takeWhile_cons, hx, if_true]
      exact (List.prefix_cons_inj x).2 this

theorem takeWhile_eq_take (p : μ → Bool) : ∀ (l : List μ) (j : Nat) (h : j < l.length), (∀ m ∈ l.take j, p m = true) →
    p l[j] = false → l.takeWhile p = l.take j := by
  intro l
  induction l with
  | nil => intro j h; simp at h
  | cons x l ih =>
    intro j h hall hj
    cases j with
    | zero => simp at hj; simp [List.takeWhile_cons, hj]
    | succ j =>
      have hx : p x = true := hall x (by simp)
      simp only [List.take_succ_cons, List.takeWhile_cons, hx, if_true]
      congr 1
      exact ih j (by simpa using h) (fun m hm => hall m (by simp [hm])) (by simpa using hj)

theorem takeWhile_eq_self (p : μ → Bool) (l : List μ) (h : ∀ m ∈ l, p m = true) : l.takeWhile p = l := by
  induction l with
  | nil => rfl
  | cons x l ih =>
    have hx : p x = true := h x (by simp)
    simp only [List.takeWhile_cons, hx, if_true]
    rw [ih (fun m hm => h m (by simp [hm]))]

theorem mem_takeWhile_true {α : Type} (p : α → Bool) : ∀ (l : List α) (b : α), b ∈ l.takeWhile p → p b = true := by
  intro l
  induction l with
  | nil => intro b h; simp at h
  | cons x l ih =>
    intro b h
    by_cases hx : p x = true
    · simp only [List.takeWhile_cons, hx, if_true, List.mem_cons] at h
      rcases h with h | h
      · rw [h]; exact hx
      · exact ih b h
    · simp [List.takeWhile_cons, hx] at h

/-- trailing polls can be split off an event list -/
theorem split_trailing_ticks (evs : List Ev) :
    ∃ pre, evs = pre ++ List.replicate (ticksAfterLastData evs) Ev.tick ∧ received pre = received evs := by
  refine ⟨(evs.reverse.dropWhile Ev.isTick).reverse, ?_, ?_⟩
  · have h1 : evs = (evs.reverse.dropWhile Ev.isTick).reverse ++ (evs.reverse.takeWhile Ev.isTick).reverse := by
      rw [← List.reverse_append, List.takeWhile_append_dropWhile, List.reverse_reverse]
    have h2 : (evs.reverse.takeWhile Ev.isTick).reverse = List.replicate (ticksAfterLastData evs) Ev.tick := by
      rw [List.eq_replicate_iff]
      refine ⟨by simp [ticksAfterLastData], ?_⟩
      intro b hb
      have hb' : b ∈ evs.reverse.takeWhile Ev.isTick := by simpa using hb
      have := mem_takeWhile_true _ _ _ hb'
      cases b with
      | tick => rfl
      | data s => simp [Ev.isTick] at this
    rw [h2] at h1
    exact h1
  · have h1 : evs = (evs.reverse.dropWhile Ev.isTick).reverse ++ (evs.reverse.takeWhile Ev.isTick).reverse := by
      rw [← List.reverse_append, List.takeWhile_append_dropWhile, List.reverse_reverse]
    have h2 : received ((evs.reverse.takeWhile Ev.isTick).reverse) = [] := by
      generalize evs.reverse = l
      have : ∀ l : List Ev, (∀ b ∈ l, b = Ev.tick) → received l = [] := by
        intro l
        induction l with
        | nil => intro _; rfl
        | cons x l ih =>
          intro h
          have hx := h x (by simp)
          subst hx
          simp only [received]
          exact ih (fun b hb => h b (by simp [hb]))
      apply this
      intro b hb
      have hb' : b ∈ l.takeWhile Ev.isTick := by simpa using hb
      have := mem_takeWhile_true _ _ _ hb'
      cases b with
      | tick => rfl
      | data s => simp [Ev.isTick] at this
    conv => rhs; rw [h1, received_append, h2]
    simp

/-! ### one step of the machine -/

section steps
variable (P : Proto μ) (r : R μ)

@[simp] theorem step_data_buf (seg : Bytes) : (step P r (.data seg)).buf = r.buf ++ seg := by
  simp only [step, stepObs]
  split
  · next h => have : seg = [] := List.eq_nil_of_length_eq_zero h
              simp [this]
  · rfl
@[simp] theorem step_data_stopped (seg : Bytes) : (step P r (.data seg)).stopped = r.stopped := by
  simp only [step, stepObs]; split <;> rfl
@[simp] theorem step_data_out (seg : Bytes) : (step P r (.data seg)).out = r.out := by
  simp only [step, stepObs]; split <;> rfl
@[simp] theorem step_data_close (seg : Bytes) : (step P r (.data seg)).closeSignals = r.closeSignals := by
  simp only [step, stepObs]; split <;> rfl

theorem step_tick_stopped (h : r.stopped = true) : step P r .tick = r := by
  simp only [step, stepObs]; simp [h]

theorem step_tick_empty (h : r.buf = []) : step P r .tick = r := by
  simp only [step, stepObs]; simp [h]

theorem step_tick_none (hs : r.stopped = false) (h : P.deser r.buf = .ok none) : step P r .tick = r := by
  simp only [step, stepObs, hs, h]; split <;> (try split) <;> rfl

theorem step_tick_some (hs : r.stopped = false) (hb : r.buf ≠ []) {m : μ} {rest : Bytes}
    (h : P.deser r.buf = .ok (some (m, rest))) :
    step P r .tick =
      if P.isLogout m then { r with buf := rest, stopped := true, closeSignals := r.closeSignals + 1 }
      else if P.isHeartbeat m then { r with buf := rest }
      else { r with buf := rest, out := r.out ++ [m] } := by
  have hl : ¬ r.buf.length = 0 := fun h0 => hb (List.eq_nil_of_length_eq_zero h0)
  simp only [step, stepObs, hs, h, hl, if_false, Bool.false_eq_true]
  split
  · rfl
  · split <;> rfl

/-- once stopped, nothing the property observes changes any more -/
theorem step_of_stopped (h : r.stopped = true) (ev : Ev) :
    (step P r ev).stopped = true ∧ (step P r ev).out = r.out ∧ (step P r ev).closeSignals = r.closeSignals := by
  cases ev with
  | data seg => simp [h]
  | tick => rw [step_tick_stopped P r h]; exact ⟨h, rfl, rfl⟩

/-- the close signal is raised exactly when `_stopped` becomes true (any byte stream, well-formed or not) -/
theorem step_close_inv (h : r.closeSignals = if r.stopped then 1 else 0) (ev : Ev) :
    (step P r ev).closeSignals = if (step P r ev).stopped then 1 else 0 := by
  cases ev with
  | data seg => simpa using h
  | tick =>
    cases hs : r.stopped with
    | true => rw [step_tick_stopped P r hs]; exact h
    | false =>
      have h0 : r.closeSignals = 0 := by simpa [hs] using h
      simp only [step, stepObs, hs, Bool.false_eq_true, if_false]
      split
      · simp [hs, h0]
      · split
        · simp [h0]
        · simp [hs, h0]
        · split
          · simp [h0]
          · split <;> simp [hs, h0]
end steps

theorem foldl_of_stopped (P : Proto μ) : ∀ (evs : List Ev) (r : R μ), r.stopped = true →
    (evs.foldl (step P) r).stopped = true ∧ (evs.foldl (step P) r).out = r.out ∧
    (evs.foldl (step P) r).closeSignals = r.closeSignals := by
  intro evs
  induction evs with
  | nil => intro r h; exact ⟨h, rfl, rfl⟩
  | cons ev evs ih =>
    intro r h
    obtain ⟨h1, h2, h3⟩ := step_of_stopped P r h ev
    obtain ⟨i1, i2, i3⟩ := ih (step P r ev) h1
    exact ⟨i1, i2.trans h2, i3.trans h3⟩

theorem foldl_close_inv (P : Proto μ) : ∀ (evs : List Ev) (r : R μ), (r.closeSignals = if r.stopped then 1 else 0) →
    (evs.foldl (step P) r).closeSignals = if (evs.foldl (step P) r).stopped then 1 else 0 := by
  intro evs
  induction evs with
  | nil => intro r h; exact h
  | cons ev evs ih => intro r h; exact ih _ (step_close_inv P r h ev)

/-! ### the invariant -/

/-- `k` messages of `ms` have been framed; what was received so far is their bytes plus the buffer -/
structure Inv (P : Proto μ) (enc : μ → Bytes) (ms : List μ) (k : Nat) (r : R μ) (recv : Bytes) : Prop where
  hk : k ≤ ms.length
  hrecv : recv = stream enc (ms.take k) ++ r.buf
  live : r.stopped = false →
    r.out = (ms.take k).filter (fun m => !P.isHeartbeat m) ∧ (∀ m ∈ ms.take k, (!P.isLogout m) = true) ∧ r.closeSignals = 0
  dead : r.stopped = true → ∃ j, ∃ h : j < ms.length, k = j + 1 ∧ (∀ m ∈ ms.take j, (!P.isLogout m) = true) ∧
    P.isLogout ms[j] = true ∧ r.out = (ms.take j).filter (fun m => !P.isHeartbeat m) ∧ r.closeSignals = 1

section inv
variable {P : Proto μ} {enc : μ → Bytes} {wf : μ → Prop} {ms : List μ}

theorem inv_init : Inv P enc ms 0 ({} : R μ) [] :=
  ⟨Nat.zero_le _, by simp [stream], fun _ => by simp, fun h => by simp at h⟩

/-- a poll that finds the whole next frame in the buffer consumes exactly it -/
theorem inv_tick_full (S : FrameSpec P enc wf) (hwf : ∀ m ∈ ms, wf m) {k : Nat} {r : R μ} {recv : Bytes}
    (h : Inv P enc ms k r recv) (hs : r.stopped = false) (hk : k < ms.length) {t : Bytes}
    (hbuf : r.buf = enc ms[k] ++ t) : Inv P enc ms (k + 1) (step P r .tick) recv := by
  have hm : wf ms[k] := hwf _ (List.getElem_mem hk)
  have hne : r.buf ≠ [] := by
    rw [hbuf]; intro h0
    exact S.nonempty _ hm (List.append_eq_nil_iff.1 h0).1
  have hd : P.deser r.buf = .ok (some (ms[k], t)) := by rw [hbuf]; exact S.exact _ _ hm
  have htake := take_succ_of_getElem ms k hk
  obtain ⟨hout, hnl, hcl⟩ := h.live hs
  have hrecv' : recv = stream enc (ms.take (k + 1)) ++ t := by
    rw [h.hrecv, htake, stream_append, hbuf]; simp [stream]
  rw [step_tick_some P r hs hne hd]
  by_cases hlo : P.isLogout ms[k] = true
  · simp only [hlo, if_true]
    refine ⟨hk, hrecv', fun h0 => by simp at h0, fun _ => ⟨k, hk, rfl, hnl, hlo, hout, by simp [hcl]⟩⟩
  · have hlo' : P.isLogout ms[k] = false := by simpa using hlo
    have hnl' : ∀ m ∈ ms.take (k + 1), (!P.isLogout m) = true := by
      intro m hmem
      rw [htake] at hmem
      rcases List.mem_append.1 hmem with hm1 | hm1
      · exact hnl m hm1
      · have : m = ms[k] := by simpa using hm1
        subst this; simp [hlo']
    by_cases hhb : P.isHeartbeat ms[k] = true
    · simp only [hlo', hhb, if_true, Bool.false_eq_true, if_false]
      refine ⟨hk, hrecv', fun _ => ⟨?_, hnl', hcl⟩, fun h0 => by simp [hs] at h0⟩
      rw [htake, List.filter_append]; simp [hhb, hout]
    · have hhb' : P.isHeartbeat ms[k] = false := by simpa using hhb
      simp only [hlo', hhb', Bool.false_eq_true, if_false]
      refine ⟨hk, hrecv', fun _ => ⟨?_, hnl', hcl⟩, fun h0 => by simp [hs] at h0⟩
      rw [htake, List.filter_append]; simp [hhb', hout]

/-- every event preserves the invariant as long as what has been received is a prefix of the stream -/
theorem inv_step (S : FrameSpec P enc wf) (hwf : ∀ m ∈ ms, wf m) {k : Nat} {r : R μ} {recv : Bytes}
    (h : Inv P enc ms k r recv) (ev : Ev) (hpre : recv ++ received [ev] <+: stream enc ms) :
    ∃ k', k ≤ k' ∧ Inv P enc ms k' (step P r ev) (recv ++ received [ev]) := by
  cases ev with
  | data seg =>
    refine ⟨k, Nat.le_refl _, h.hk, ?_, ?_, ?_⟩
    · simp [received, h.hrecv]
    · intro hs; simpa using h.live (by simpa using hs)
    · intro hs; simpa using h.dead (by simpa using hs)
  | tick =>
    have hr : recv ++ received [Ev.tick] = recv := by simp [received]
    rw [hr] at hpre ⊢
    cases hs : r.stopped with
    | true => rw [step_tick_stopped P r hs]; exact ⟨k, Nat.le_refl _, h⟩
    | false =>
      by_cases hb : r.buf = []
      · rw [step_tick_empty P r hb]; exact ⟨k, Nat.le_refl _, h⟩
      · -- the buffer is a prefix of the not yet framed part of the stream
        have hbp : r.buf <+: stream enc (ms.drop k) := by
          have := hpre
          rw [h.hrecv, stream_take_drop enc ms k] at this
          exact (List.prefix_append_right_inj _).1 this
        have hklt : k < ms.length := by
          rcases Nat.lt_or_ge k ms.length with h1 | h1
          · exact h1
          · rw [List.drop_eq_nil_of_le h1] at hbp
            simp [stream] at hbp
            exact absurd hbp hb
        rw [List.drop_eq_getElem_cons hklt, stream_cons] at hbp
        by_cases hfull : enc ms[k] <+: r.buf
        · obtain ⟨t, ht⟩ := hfull
          exact ⟨k + 1, Nat.le_succ _, inv_tick_full S hwf h hs hklt ht.symm⟩
        · have hshort : r.buf <+: enc ms[k] := by
            rcases List.prefix_or_prefix_of_prefix hbp (List.prefix_append _ _) with h1 | h1
            · exact h1
            · exact absurd h1 hfull
          have hneq : r.buf ≠ enc ms[k] := fun he => hfull (he ▸ List.prefix_refl _)
          have hd := S.short _ _ (hwf _ (List.getElem_mem hklt)) hshort hneq hb
          rw [step_tick_none P r hs hd]
          exact ⟨k, Nat.le_refl _, h⟩

theorem inv_foldl (S : FrameSpec P enc wf) (hwf : ∀ m ∈ ms, wf m) : ∀ (evs : List Ev) (k : Nat) (r : R μ) (recv : Bytes),
    Inv P enc ms k r recv → recv ++ received evs <+: stream enc ms →
    ∃ k', k ≤ k' ∧ Inv P enc ms k' (evs.foldl (step P) r) (recv ++ received evs) := by
  intro evs
  induction evs with
  | nil => intro k r recv h _; exact ⟨k, Nat.le_refl _, by simpa [received] using h⟩
  | cons ev evs ih =>
    intro k r recv h hpre
    have hsplit : received (ev :: evs) = received [ev] ++ received evs := by
      cases ev <;> simp [received]
    rw [hsplit, ← List.append_assoc] at hpre ⊢
    obtain ⟨k1, hk1, h1⟩ := inv_step S hwf h ev ((List.prefix_append _ _).trans hpre)
    obtain ⟨k2, hk2, h2⟩ := ih k1 _ _ h1 hpre
    exact ⟨k2, Nat.le_trans hk1 hk2, h2⟩

theorem inv_run (S : FrameSpec P enc wf) (hwf : ∀ m ∈ ms, wf m) (evs : List Ev)
    (hpre : received evs <+: stream enc ms) : ∃ k, Inv P enc ms k (run P evs) (received evs) := by
  obtain ⟨k, _, h⟩ := inv_foldl S hwf evs 0 {} [] inv_init (by simpa using hpre)
  exact ⟨k, by simpa [run] using h⟩

/-- what the invariant says about the emitted messages -/
theorem inv_out_prefix {k : Nat} {r : R μ} {recv : Bytes} (h : Inv P enc ms k r recv) : r.out <+: expected P ms := by
  cases hs : r.stopped with
  | false =>
    obtain ⟨hout, hnl, _⟩ := h.live hs
    rw [hout]
    exact List.IsPrefix.filter _ (take_prefix_takeWhile _ ms k hnl)
  | true =>
    obtain ⟨j, hj, _, hnl, hlo, hout, _⟩ := h.dead hs
    rw [hout, expected, takeWhile_eq_take _ ms j hj hnl (by simp [hlo])]
    exact List.prefix_refl _

theorem inv_stopped {k : Nat} {r : R μ} {recv : Bytes} (h : Inv P enc ms k r recv) (hs : r.stopped = true) :
    r.out = expected P ms ∧ r.closeSignals = 1 ∧ hasLogout P ms = true := by
  obtain ⟨j, hj, _, hnl, hlo, hout, hc⟩ := h.dead hs
  refine ⟨?_, hc, ?_⟩
  · rw [hout, expected, takeWhile_eq_take _ ms j hj hnl (by simp [hlo])]
  · simp only [hasLogout, List.any_eq_true]
    exact ⟨ms[j], List.getElem_mem hj, hlo⟩

/-- with the whole stream received, every poll of a running reader frames one more message -/
theorem inv_ticks_complete (S : FrameSpec P enc wf) (hwf : ∀ m ∈ ms, wf m) : ∀ (n k : Nat) (r : R μ),
    Inv P enc ms k r (stream enc ms) →
    ∃ k', Inv P enc ms k' ((List.replicate n Ev.tick).foldl (step P) r) (stream enc ms) ∧
      (((List.replicate n Ev.tick).foldl (step P) r).stopped = true ∨ min (k + n) ms.length ≤ k') := by
  intro n
  induction n with
  | zero => intro k r h; exact ⟨k, by simpa using h, Or.inr (by simp; exact Nat.min_le_left _ _)⟩
  | succ n ih =>
    intro k r h
    simp only [List.replicate_succ, List.foldl_cons]
    cases hs : r.stopped with
    | true =>
      rw [step_tick_stopped P r hs]
      obtain ⟨k', h', _⟩ := ih k r h
      exact ⟨k', h', Or.inl (foldl_of_stopped P _ r hs).1⟩
    | false =>
      rcases Nat.lt_or_ge k ms.length with hk | hk
      · have hbuf : r.buf = enc ms[k] ++ stream enc (ms.drop (k + 1)) := by
          have h1 := h.hrecv
          rw [stream_take_drop enc ms k, List.drop_eq_getElem_cons hk, stream_cons] at h1
          exact (List.append_cancel_left h1).symm
        obtain ⟨k', h', hor⟩ := ih (k + 1) _ (inv_tick_full S hwf h hs hk hbuf)
        refine ⟨k', h', hor.imp id (fun hle => ?_)⟩
        have : k + (n + 1) = k + 1 + n := by omega
        rw [this]; exact hle
      · have hkeq : k = ms.length := Nat.le_antisymm h.hk hk
        have hb : r.buf = [] := by
          have h1 := h.hrecv
          rw [hkeq, List.take_length] at h1
          have : stream enc ms ++ [] = stream enc ms ++ r.buf := by simpa using h1
          exact (List.append_cancel_left this).symm
        rw [step_tick_empty P r hb]
        obtain ⟨k', h', hor⟩ := ih k r h
        refine ⟨k', h', hor.imp id (fun hle => ?_)⟩
        have h2 := h'.hk
        rw [hkeq] at hle ⊢
        have : min (ms.length + n) ms.length = ms.length := Nat.min_eq_right (Nat.le_add_right _ _)
        rw [this] at hle
        rw [Nat.min_eq_right (Nat.le_add_right _ _)]
        exact hle

/-- the final state once everything has been framed or the reader stopped -/
theorem inv_final {k : Nat} {r : R μ} {recv : Bytes} (h : Inv P enc ms k r recv)
    (hfin : r.stopped = true ∨ ms.length ≤ k) :
    r.out = expected P ms ∧ (r.stopped = true ↔ hasLogout P ms = true) ∧
      r.closeSignals = (if hasLogout P ms then 1 else 0) := by
  cases hs : r.stopped with
  | true =>
    obtain ⟨h1, h2, h3⟩ := inv_stopped h hs
    exact ⟨h1, by simp [h3], by simp [h3, h2]⟩
  | false =>
    have hk : ms.length ≤ k := by
      rcases hfin with h0 | h0
      · simp [hs] at h0
      · exact h0
    obtain ⟨hout, hnl, hc⟩ := h.live hs
    rw [List.take_of_length_le hk] at hout hnl
    have hno : hasLogout P ms = false := by
      simp only [hasLogout, List.any_eq_false]
      intro m hm; simpa using hnl m hm
    refine ⟨?_, by simp [hno], by simp [hno, hc]⟩
    rw [hout, expected, takeWhile_eq_self _ ms hnl]

end inv

/-! ### the three theorems, for any protocol satisfying `FrameSpec` -/

section generic
variable {P : Proto μ} {enc : μ → Bytes} {wf : μ → Prop}

theorem generic_prefix (S : FrameSpec P enc wf) (ms : List μ) (hwf : ∀ m ∈ ms, wf m) (evs : List Ev)
    (hpre : received evs <+: stream enc ms) : (run P evs).out <+: expected P ms := by
  obtain ⟨k, h⟩ := inv_run S hwf evs hpre
  exact inv_out_prefix h

theorem generic_complete (S : FrameSpec P enc wf) (ms : List μ) (hwf : ∀ m ∈ ms, wf m) (evs : List Ev)
    (hrecv : received evs = stream enc ms) (hticks : ms.length ≤ ticksAfterLastData evs) :
    (run P evs).out = expected P ms ∧ ((run P evs).stopped = true ↔ hasLogout P ms = true) ∧
      (run P evs).closeSignals = (if hasLogout P ms then 1 else 0) := by
  obtain ⟨pre, hsplit, hpre⟩ := split_trailing_ticks evs
  obtain ⟨k, h⟩ := inv_run S hwf pre (by rw [hpre, hrecv]; exact List.prefix_refl _)
  rw [hpre, hrecv] at h
  obtain ⟨k', h', hor⟩ := inv_ticks_complete S hwf (ticksAfterLastData evs) k _ h
  have hrun : run P evs = (List.replicate (ticksAfterLastData evs) Ev.tick).foldl (step P) (run P pre) := by
    conv => lhs; rw [hsplit]
    simp [run, List.foldl_append]
  rw [hrun]
  refine inv_final h' (hor.imp id (fun hle => ?_))
  have : min (k + ticksAfterLastData evs) ms.length = ms.length := by omega
  omega

theorem generic_stopped (S : FrameSpec P enc wf) (ms : List μ) (hwf : ∀ m ∈ ms, wf m) (evs : List Ev)
    (hpre : received evs <+: stream enc ms) (hs : (run P evs).stopped = true) :
    (run P evs).out = expected P ms ∧ (run P evs).closeSignals = 1 ∧ hasLogout P ms = true := by
  obtain ⟨k, h⟩ := inv_run S hwf evs hpre
  exact inv_stopped h hs

/-- nothing is emitted and no second close is signalled after the reader stopped — for *any* continuation, well-formed or not -/
theorem generic_nothing_after_stop (P : Proto μ) (evs more : List Ev) (hs : (run P evs).stopped = true) :
    (run P (evs ++ more)).out = (run P evs).out ∧ (run P (evs ++ more)).closeSignals = (run P evs).closeSignals ∧
      (run P (evs ++ more)).stopped = true := by
  have := foldl_of_stopped P more (run P evs) hs
  simp only [run, List.foldl_append] at this ⊢
  exact ⟨this.2.1, this.2.2, this.1⟩

theorem generic_close_once (P : Proto μ) (evs : List Ev) :
    (run P evs).closeSignals = (if (run P evs).stopped then 1 else 0) :=
  foldl_close_inv P evs {} rfl

end generic
end NasdaqModel.Framing
