import NasdaqModel.Lemmas.AppSessionLink
import NasdaqModel.Lemmas.AppSessionLemmasF
/-
The close of the soup session hands no message to the application queue.

A message callback of the application session that awaits `app.close()` carries out `soup_session.close()` within the very step
of the second dispatcher that entered it (`closeOnD2`): the inner event `callClose d2u` and — if the close body does not suspend —
`_on_soup_close` with the closer's inner step out of the callback stage (`finishClose`).  Neither of them enters an inner message
callback:

* `Sess.step_callClose_entered` — `callClose u` runs the close body (`enterClose`), which emits `tclose`, `cbEnter`, `cbExit`, `ret`;
* `Sess.step_entered_qClosed` — *no* event enters a message callback once the inner queue is stopped (`qClosed`): the dispatcher
  loop tests the flag before it takes a message (`stepDisp`); the closer inside `_on_soup_close` is past `queue.stop()`
  (`InvA.qclosed`).

So `_on_soup_message` is not run in such a step and the second queue is left as it is (`closeOnD2_q2`, `dispHandle2_q2`).
-/
namespace NasdaqModel.Sess
open NasdaqModel App

theorem entered_snoc (tr : List Obs) (o : Obs) (h : ∀ n, o ≠ .msgEnter n) : entered (tr ++ [o]) = entered tr := by
  cases o <;> simp_all [entered, List.filterMap_append]

theorem neutral_not_msgEnter {o : Obs} (h : neutral o = true) : ∀ n, o ≠ .msgEnter n := by
  intro n e; subst e; simp [neutral] at h

theorem runCont_entered (s : St) (t : Tid) (c : Cont) : entered (runCont s t c).trace = entered s.trace := by
  cases c with
  | readerTail => rfl
  | handlerTail n => exact entered_snoc s.trace (.msgExit n) (by simp)
  | monitorTail => rfl
  | closingTail => rfl
  | userTail u r => exact entered_snoc s.trace (.ret u r.toRes) (by simp)

theorem closeTail_entered (cfg : Cfg) (s : St) (t : Tid) (c : Cont) :
    entered (closeTail cfg s t c).trace = entered s.trace := by
  have e1 : entered (s.emit .tclose).trace = entered s.trace := entered_snoc s.trace .tclose (by simp)
  have e2 : entered ((s.emit .tclose).emit .cbEnter).trace = entered s.trace :=
    (entered_snoc (s.emit .tclose).trace .cbEnter (by simp)).trans e1
  unfold closeTail
  simp only
  split
  · rw [runCont_entered]; exact e1
  · split
    · exact e2
    · rw [runCont_entered]
      exact (entered_snoc ((s.emit .tclose).emit .cbEnter).trace .cbExit (by simp)).trans e2

theorem execClose_entered (cfg : Cfg) (t : Tid) (c : Cont) (l : List Nat) (pc : Nat) (s : St) (h : entered s.trace = l) :
    entered (execClose cfg s t c pc).trace = l := by
  refine execClose_rule cfg t c (fun s => entered s.trace = l) (fun s => entered s.trace = l) ?_ ?_ ?_ ?_ pc s h
  · intro s p; exact p
  · intro s p; exact p
  · intro s x pc p _ _ _
    show entered (s.cancelTask x).trace = l
    rw [cancelTask_trace]; exact p
  · intro s p; rw [closeTail_entered]; exact p

theorem enterClose_entered (cfg : Cfg) (s : St) (t : Tid) (c : Cont) :
    entered (enterClose cfg s t c).trace = entered s.trace := by
  unfold enterClose
  split
  · exact runCont_entered s t c
  · exact execClose_entered cfg t c _ 0 _ rfl

/-- on a stopped queue no step enters a message callback -/
theorem enteredHoare (cfg : Cfg) (l : List Nat) :
    CoreHoare cfg (fun _ => True) (fun s => s.qClosed = true ∧ entered s.trace = l) (fun s => entered s.trace = l) where
  of_core := by
    intro s s' hc h
    simp only [core, Prod.mk.injEq] at hc
    rw [hc.2.2.1, hc.2.2.2]; exact h
  emit_neutral := by
    intro s o hn h
    exact ⟨h.1, (entered_snoc s.trace o (neutral_not_msgEnter hn)).trans h.2⟩
  emit_msgEnter := by
    intro s n hq h
    have := h.1
    rw [hq] at this
    cases this
  weaken := fun h => h.2
  enterClose' := by
    intro s h t c
    rw [enterClose_entered]; exact h.2
  stepInClose' := by
    intro s h t b _
    unfold stepInClose
    split
    · split
      · unfold resumeClose
        apply execClose_entered
        split <;> exact h.2
      · exact h.2
    · split
      · split
        · split
          · exact (entered_snoc s.trace _ (by simp)).trans h.2
          · exact h.2
        · split
          · rw [runCont_entered]
            exact (entered_snoc s.trace .cbExit (by simp)).trans h.2
          · exact h.2
      · exact h.2
    · exact h.2

/-- **once the inner queue is stopped no event enters an inner message callback** -/
theorem step_entered_qClosed (cfg : Cfg) (s : St) (ev : Ev) (hq : s.qClosed = true) :
    entered (step cfg s ev).trace = entered s.trace :=
  step_H (enteredHoare cfg (entered s.trace)) ⟨hq, rfl⟩ ev (fun _ _ => trivial)

/-- **`soup_session.close()` called by a fresh task enters no inner message callback**, whatever the state -/
theorem step_callClose_entered (cfg : Cfg) (s : St) (u : Nat) :
    entered (step cfg s (.callClose u)).trace = entered s.trace := by
  simp only [step]
  split
  · rfl
  · rw [enterClose_entered]; rfl

end NasdaqModel.Sess

namespace NasdaqModel.App
open NasdaqModel

/-- an inner step that enters no inner message callback puts nothing on the second queue -/
theorem innerStep_q2_silent (a : ACfg) (s : St) (e : Sess.Ev)
    (h : entered (Sess.step (innerCfg a) s.inner e).trace = entered s.inner.trace) : (innerStep a s e).q2 = s.q2 := by
  rw [(innerStep_fields a s e).2.2]
  have htr := Sess.step_trace_eq (innerCfg a) s.inner e
  generalize (Sess.step (innerCfg a) s.inner e).trace.drop s.inner.trace.length = d at htr ⊢
  rw [htr, entered_append] at h
  have hd : entered d = [] := by simpa using h
  rw [hd]; simp

/-- the closer `t` is inside the inner close callback of a legal soup session -/
def InCb (a : ACfg) (s : St) (t : Sess.Tid) : Prop := IReachable a s.inner ∧ closerOf s.inner = some t

theorem InCb.of_inner {a : ACfg} {s s' : St} {t : Sess.Tid} (h : InCb a s t) (e : s'.inner = s.inner) : InCb a s' t := by
  unfold InCb; rw [e]; exact h

theorem InCb.silent {a : ACfg} {s : St} {t : Sess.Tid} (h : InCb a s t) (e : Sess.Ev) :
    entered (Sess.step (innerCfg a) s.inner e).trace = entered s.inner.trace := by
  obtain ⟨k, c, hcs⟩ := closerOf_some h.2
  obtain ⟨ia, _, _⟩ := h.1.invs
  exact Sess.step_entered_qClosed _ _ _ (ia.qclosed (by rw [hcs]; simp))

@[simp] theorem q2_setEvent (s : St) : s.setEvent.q2 = s.q2 := by unfold St.setEvent; split <;> rfl
@[simp] theorem q2_cancel2 (s : St) (t : ATid) : (s.cancel2 t).q2 = s.q2 := by
  unfold St.cancel2; split <;> try rfl
  split <;> rfl

theorem d2Return_q2 (s : St) : (d2Return s).q2 = s.q2 := by
  unfold d2Return
  split
  · split
    · split <;> rfl
    · rfl
    · rfl
  · rfl

theorem finishClose_q2 {a : ACfg} {s : St} {t : Sess.Tid} (h : InCb a s t) : (finishClose a s t).q2 = s.q2 := by
  unfold finishClose
  rw [d2Return_q2, innerStep_q2_silent a _ _ (InCb.silent (s := { s with cpc := .finished }) (h.of_inner rfl) _)]

theorem endCb_q2 {a : ACfg} {s : St} {t : Sess.Tid} (h : InCb a s t) : (endCb a s t).q2 = s.q2 := by
  unfold endCb
  rw [finishClose_q2 (h.of_inner (by simp)), q2_setEvent]; rfl

theorem afterStop_q2 {a : ACfg} {s : St} {t : Sess.Tid} (h : InCb a s t) : (afterStop a s t).q2 = s.q2 := by
  unfold afterStop
  simp only
  split
  · rw [finishClose_q2 (h.of_inner (by simp)), q2_setEvent]
  · split
    · rfl
    · exact endCb_q2 (InCb.of_inner h rfl)
    · exact endCb_q2 (InCb.of_inner h rfl)

theorem stopV2_q2 {a : ACfg} {s : St} {t : Sess.Tid} (h : InCb a s t) : (stopV2 a s t).q2 = s.q2 := by
  unfold stopV2
  split
  · show (s.cancel2 .V2).q2 = s.q2
    simp
  · exact afterStop_q2 h

theorem stopD2_q2 {a : ACfg} {s : St} {t : Sess.Tid} (h : InCb a s t) : (stopD2 a s t).q2 = s.q2 := by
  unfold stopD2
  split
  · show (s.cancel2 .D2).q2 = s.q2
    simp
  · exact stopV2_q2 (InCb.of_inner h rfl)

theorem onSoupClose_q2 {a : ACfg} {s : St} {t : Sess.Tid} (h : InCb a s t) : (onSoupClose a s t).q2 = s.q2 := by
  unfold onSoupClose
  split
  · exact finishClose_q2 h
  · have key : ∀ s1 : St, s1.q2 = s.q2 → s1.inner = s.inner →
        (if s1.q2Closed = true then afterStop a s1 t else stopD2 a { s1 with q2Closed := true } t).q2 = s.q2 := by
      intro s1 h1 hi
      split
      · rw [afterStop_q2 (h.of_inner hi), h1]
      · exact (stopD2_q2 (s := { s1 with q2Closed := true }) (h.of_inner hi)).trans h1
    exact key _ (by split <;> rfl) (by split <;> rfl)

theorem construct_q2 (a : ACfg) (s : St) : (construct a s).q2 = s.q2 := by
  unfold construct
  split
  · simp only; split <;> rfl
  · rfl

/-- **`soup_session.close()` carried out by the second dispatcher puts nothing on the second queue**: neither the inner event
    `callClose d2u` nor — if the close body runs through without suspending — `_on_soup_close` and the closer's step out of it -/
theorem passInner_callClose_q2 {a : ACfg} {s : St} (hr : IReachable a s.inner) (u : Nat) :
    (passInner a s (.callClose u)).q2 = s.q2 := by
  have h0 : (innerStep a s (.callClose u)).q2 = s.q2 :=
    innerStep_q2_silent a s _ (Sess.step_callClose_entered _ _ _)
  unfold passInner
  simp only
  split
  · rename_i t hc _
    have hin : InCb a (construct a (innerStep a s (.callClose u))) t :=
      ⟨by rw [construct_inner, innerStep_inner]; exact hr.step _, hc⟩
    rw [onSoupClose_q2 hin, construct_q2, h0]
  · rw [construct_q2, h0]

theorem closeOnD2_q2 {a : ACfg} {s : St} (hr : IReachable a s.inner) (p : AProg) : (closeOnD2 a s p).q2 = s.q2 := by
  unfold closeOnD2
  simp only
  split
  · rw [d2Return_q2]; rfl
  · rw [passInner_callClose_q2 (by exact hr)]; rfl

/-- entering the application message callback moves nothing else off or onto the second queue — a callback that closes the
    session from inside included -/
theorem dispHandle2_q2 {a : ACfg} {s : St} (hr : IReachable a s.inner) (v : Nat) : (dispHandle2 a s v).q2 = s.q2 := by
  unfold dispHandle2
  split
  · rfl
  · rfl
  · rfl
  · split
    · rfl
    · exact closeOnD2_q2 hr _
  · rfl
  · rfl

end NasdaqModel.App
