import NasdaqModel.Lemmas.AppSessionLemmasK2
/-
Invariants of the application-session product machine, part 6: the application-level events keep the invariants; all
invariants hold in every reachable state (`runEvs_Inv`).
-/
namespace NasdaqModel.App
open NasdaqModel

/-! ### `_on_soup_message` touches only the second queue and wakes a waiting getter -/

theorem wake2_fields (s : St) (t : ATid) :
    (s.wake2 t).evt = s.evt ∧ (s.wake2 t).cpc = s.cpc ∧ (s.wake2 t).aprog = s.aprog ∧ (s.wake2 t).built = s.built ∧
    (s.wake2 t).appClosed = s.appClosed ∧ (s.wake2 t).q2Closed = s.q2Closed ∧ (s.wake2 t).disp2Set = s.disp2Set ∧
    ∀ x, s.astatus x ≠ .waitQ → (s.wake2 t).astatus x = s.astatus x := by
  unfold St.wake2
  split
  · refine ⟨rfl, rfl, rfl, rfl, rfl, rfl, rfl, ?_⟩
    intro x hx
    show (if x = t then AStatus.ready else s.astatus x) = s.astatus x
    split
    · rename_i e; subst e; contradiction
    · rfl
  · exact ⟨rfl, rfl, rfl, rfl, rfl, rfl, rfl, fun _ _ => rfl⟩

theorem feed_fields2 (a : ACfg) (ns : List Nat) (s : St) :
    (feed a s ns).evt = s.evt ∧ (feed a s ns).cpc = s.cpc ∧ (feed a s ns).aprog = s.aprog ∧ (feed a s ns).built = s.built ∧
    (feed a s ns).appClosed = s.appClosed ∧ (feed a s ns).q2Closed = s.q2Closed ∧ (feed a s ns).disp2Set = s.disp2Set ∧
    ∀ x, s.astatus x ≠ .waitQ → (feed a s ns).astatus x = s.astatus x := by
  induction ns generalizing s with
  | nil => exact ⟨rfl, rfl, rfl, rfl, rfl, rfl, rfl, fun _ _ => rfl⟩
  | cons n ns ih =>
    have e : feed a s (n :: ns) = feed a (feed1 a s n) ns := rfl
    rw [e]
    have h1 : (feed1 a s n).evt = s.evt ∧ (feed1 a s n).cpc = s.cpc ∧ (feed1 a s n).aprog = s.aprog ∧
        (feed1 a s n).built = s.built ∧ (feed1 a s n).appClosed = s.appClosed ∧ (feed1 a s n).q2Closed = s.q2Closed ∧
        (feed1 a s n).disp2Set = s.disp2Set ∧ ∀ x, s.astatus x ≠ .waitQ → (feed1 a s n).astatus x = s.astatus x := by
      unfold feed1
      split
      · rename_i v _
        unfold St.put2
        obtain ⟨a1, a2, a3, a4, a5, a6, a7, a8⟩ := wake2_fields ({ s with q2 := s.q2 ++ [v], fed := s.fed ++ [v] } : St) .D2
        obtain ⟨b1, b2, b3, b4, b5, b6, b7, b8⟩ :=
          wake2_fields (({ s with q2 := s.q2 ++ [v], fed := s.fed ++ [v] } : St).wake2 .D2) .V2
        refine ⟨by rw [b1, a1], by rw [b2, a2], by rw [b3, a3], by rw [b4, a4], by rw [b5, a5], by rw [b6, a6], by rw [b7, a7], ?_⟩
        intro x hx
        rw [b8 x (by rw [a8 x hx]; exact hx), a8 x hx]
      · exact ⟨rfl, rfl, rfl, rfl, rfl, rfl, rfl, fun _ _ => rfl⟩
    obtain ⟨a1, a2, a3, a4, a5, a6, a7, a8⟩ := h1
    obtain ⟨b1, b2, b3, b4, b5, b6, b7, b8⟩ := ih (feed1 a s n)
    refine ⟨by rw [b1, a1], by rw [b2, a2], by rw [b3, a3], by rw [b4, a4], by rw [b5, a5], by rw [b6, a6], by rw [b7, a7], ?_⟩
    intro x hx
    rw [b8 x (by rw [a8 x hx]; exact hx), a8 x hx]

theorem innerStep_fields2 (a : ACfg) (s : St) (e : Sess.Ev) :
    (innerStep a s e).evt = s.evt ∧ (innerStep a s e).cpc = s.cpc ∧ (innerStep a s e).aprog = s.aprog ∧
    (innerStep a s e).built = s.built ∧ (innerStep a s e).appClosed = s.appClosed ∧
    (innerStep a s e).q2Closed = s.q2Closed ∧ (innerStep a s e).disp2Set = s.disp2Set ∧
    ∀ x, s.astatus x ≠ .waitQ → (innerStep a s e).astatus x = s.astatus x := by
  rw [innerStep_eq]
  exact feed_fields2 a _ (innerPart a s e)

/-! ### `await app.close()` past its guard -/

/-- who may start waiting for the close event, and in which program -/
def CloseCaller (_a : ACfg) (s : St) (t : ATid) (p : AProg) : Prop :=
  ∃ u, t = .W u ∧ s.astatus (.W u) = .absent ∧ p = .closeWait u ∧ s.built = true

theorem startClose_K {a : ACfg} {s : St} (ib : InvB2 a s) (is : InvS a s) (t : ATid) (p : AProg)
    (hev : s.evt = none) (hac : s.appClosed = false) (hcc : CloseCaller a s t p) :
    InvB2 a (startClose a s t p) ∧ InvS a (startClose a s t p) := by
  have hbuilt : s.built = true := by
    obtain ⟨u, _, _, _, h⟩ := hcc
    exact h
  have hnf : s.cpc ≠ .finished := by
    intro h
    have := ib.ac2 hbuilt (by rw [h]; rfl)
    rw [hac] at this; contradiction
  have h0 : InvB2 a { s with evt := some false } ∧ InvS a { s with evt := some false } := by
    obtain ⟨b, tc, bu, q, q', ac1, ac2, ac3, ev1, ev2, ev0, ub, ph⟩ := ib
    obtain ⟨nb, we, wv, ty, wq, d2, cc, hc', can, v2, dn, vn, da, vs, dnf, ip, ds, hs⟩ := is
    have hph' : mon2Run ({ s with evt := some false } : St).trace2 = phase2 a { s with evt := some false } := ph
    constructor
    · refine ⟨?_, ?_, ?_, ?_, ?_, ?_, ?_, ?_, ?_, ?_, ?_, ?_, hph'⟩ <;> grind [midStage, lateStage]
    · refine ⟨?_, ?_, ?_, ?_, ?_, ?_, ?_, ?_, ?_, ?_, ?_, ?_, ?_, ?_, ?_, ?_, ?_, ?_⟩ <;> grind [midStage, lateStage, alive2]
  obtain ⟨h1b, h1s⟩ := innerStep_K .callInitiateClose h0.1 h0.2
  obtain ⟨f1, f2, f3, f4, f5, f6, f7, f8⟩ := innerStep_fields2 a { s with evt := some false } .callInitiateClose
  have ht2 := innerStep_trace2 a { s with evt := some false } .callInitiateClose
  unfold startClose
  simp only
  generalize innerStep a { s with evt := some false } .callInitiateClose = s1 at *
  have hstat : s1.astatus t = s.astatus t := by
    apply f8
    obtain ⟨u, rfl, h, _⟩ := hcc
    show s.astatus _ ≠ _; rw [h]; simp
  obtain ⟨b, tc, bu, q, q', ac1, ac2, ac3, ev1, ev2, ev0, ub, ph⟩ := h1b
  obtain ⟨nb, we, wv, ty, wq, d2, cc, hc', can, v2, dn, vn, da, vs, dnf, ip, ds, hs⟩ := h1s
  obtain ⟨b0, tc0, bu0, q0, q0', ac10, ac20, ac30, ev10, ev20, ev00, ub0, ph0⟩ := ib
  obtain ⟨nb0, we0, wv0, ty0, wq0, d20, cc0, hc0, can0, v20, dn0, vn0, da0, vs0, dnf0, ip0, ds0, hs0⟩ := is
  have f1' : s1.evt = some false := f1
  have f2' : s1.cpc = s.cpc := f2
  have f3' : s1.aprog = s.aprog := f3
  have f4' : s1.built = s.built := f4
  have f5' : s1.appClosed = s.appClosed := f5
  have hph' : mon2Run ((s1.setA t .waitE).setP t p).trace2 = phase2 a ((s1.setA t .waitE).setP t p) := ph
  unfold CloseCaller at hcc
  constructor
  · refine ⟨?_, ?_, ?_, ?_, ?_, ?_, ?_, ?_, ?_, ?_, ?_, ?_, hph'⟩ <;> simp only [St.setA, St.setP] <;> grind [midStage, lateStage]
  · refine ⟨?_, ?_, ?_, ?_, ?_, ?_, ?_, ?_, ?_, ?_, ?_, ?_, ?_, ?_, ?_, ?_, ?_, ?_⟩ <;> simp only [St.setA, St.setP] <;>
      grind [midStage, lateStage, alive2, allowed2]


/-! ### `await app.close()` from the message callback: carried out by `D2` -/

theorem d2Return_handlerClose (s : St) (v : Nat) (h1 : s.astatus .D2 = .inSoup) (h2 : s.aprog .D2 = .handlerClose v) :
    d2Return s = if s.q2Closed then ((s.emit2 (.closeRet (.handler v) .ok)).emit2 (.msgExit v)).finish2 .D2
      else { ((((s.emit2 (.closeRet (.handler v) .ok)).emit2 (.msgExit v)).setA .D2 .ready).setP .D2 .dispLoop) with imm2 := true } := by
  simp [d2Return, h1, h2]

theorem d2Return_cleanupClose (s : St) (v : Nat) (h1 : s.astatus .D2 = .inSoup) (h2 : s.aprog .D2 = .cleanupClose v) :
    d2Return s = ((s.emit2 (.closeRet (.handler v) .ok)).emit2 (.msgAbandon v)).finish2 .D2 := by
  simp [d2Return, h1, h2]

theorem closeOnD2_K {a : ACfg} {s : St} (iy : InvY a s) (ib : InvB2 a s) (is : InvS a s) (p : AProg)
    (hev : s.evt = none) (hac : s.appClosed = false)
    (hcc : (s.astatus .D2 = .ready ∧ ∃ v, p = .handlerClose v ∧ (a.msgBeh v = .close ∨ ∃ k, a.msgBeh v = .awaitClose k)) ∨
      (s.astatus .D2 = .cancelled ∧ ∃ v, p = .cleanupClose v)) :
    InvB2 a (closeOnD2 a s p) ∧ InvS a (closeOnD2 a s p) := by
  have hbuilt : s.built = true := by
    cases hb : s.built with
    | true => rfl
    | false =>
      have := is.nb hb .D2
      rcases hcc with ⟨h, _⟩ | ⟨h, _⟩ <;> (rw [h] at this; contradiction)
  have hnf : s.cpc ≠ .finished := by
    intro h
    have := ib.ac2 hbuilt (by rw [h]; rfl)
    rw [hac] at this; contradiction
  have h0 : InvB2 a { s with evt := some false } ∧ InvS a { s with evt := some false } := by
    obtain ⟨b, tc, bu, q, q', ac1, ac2, ac3, ev1, ev2, ev0, ub, ph⟩ := ib
    obtain ⟨nb, we, wv, ty, wq, d2, cc, hc', can, v2, dn, vn, da, vs, dnf, ip, ds, hs⟩ := is
    have hph' : mon2Run ({ s with evt := some false } : St).trace2 = phase2 a { s with evt := some false } := ph
    constructor
    · refine ⟨?_, ?_, ?_, ?_, ?_, ?_, ?_, ?_, ?_, ?_, ?_, ?_, hph'⟩ <;> grind [midStage, lateStage]
    · refine ⟨?_, ?_, ?_, ?_, ?_, ?_, ?_, ?_, ?_, ?_, ?_, ?_, ?_, ?_, ?_, ?_, ?_, ?_⟩ <;> grind [midStage, lateStage, alive2]
  unfold closeOnD2
  simp only
  generalize hs0 : ({ s with evt := some false } : St) = s0 at h0
  have e1 : s0.astatus = s.astatus := by rw [← hs0]
  have e2 : s0.cpc = s.cpc := by rw [← hs0]
  have e3 : s0.inner = s.inner := by rw [← hs0]
  have e4 : s0.built = s.built := by rw [← hs0]
  have e5 : s0.evt = some false := by rw [← hs0]
  obtain ⟨ib0, is0⟩ := h0
  split
  · -- the soup session is already closed or closing: `soup_session.close()` returns at once
    rcases hcc with ⟨hst, v, rfl, hbeh⟩ | ⟨hst, v, rfl⟩
    · rw [d2Return_handlerClose _ v (by simp [St.setA, St.setP]) (by simp [St.setA, St.setP])]
      obtain ⟨nb, we, wv, ty, wq, d2, cc, hc', can, v2, dn, vn, da, vs, dnf, ip, ds, hs⟩ := is0
      split
      · refine ⟨InvB2.of_core (s := (s0.emit2 (.closeRet (.handler v) .ok)).emit2 (.msgExit v)) rfl ((ib0.emit2 rfl).emit2 rfl), ?_⟩
        refine ⟨?_, ?_, ?_, ?_, ?_, ?_, ?_, ?_, ?_, ?_, ?_, ?_, ?_, ?_, ?_, ?_, ?_, ?_⟩ <;>
          simp only [St.finish2, St.emit2, St.setA, St.setP] <;> grind [midStage, lateStage, alive2, allowed2]
      · refine ⟨InvB2.of_core (s := (s0.emit2 (.closeRet (.handler v) .ok)).emit2 (.msgExit v))
          (by simp only [bcore2, St.trace2, St.emit2, St.setA, St.setP]) ((ib0.emit2 rfl).emit2 rfl), ?_⟩
        refine ⟨?_, ?_, ?_, ?_, ?_, ?_, ?_, ?_, ?_, ?_, ?_, ?_, ?_, ?_, ?_, ?_, ?_, ?_⟩ <;>
          simp only [St.finish2, St.emit2, St.setA, St.setP] <;> grind [midStage, lateStage, alive2, allowed2]
    · rw [d2Return_cleanupClose _ v (by simp [St.setA, St.setP]) (by simp [St.setA, St.setP])]
      obtain ⟨nb, we, wv, ty, wq, d2, cc, hc', can, v2, dn, vn, da, vs, dnf, ip, ds, hs⟩ := is0
      refine ⟨InvB2.of_core (s := (s0.emit2 (.closeRet (.handler v) .ok)).emit2 (.msgAbandon v)) rfl ((ib0.emit2 rfl).emit2 rfl), ?_⟩
      refine ⟨?_, ?_, ?_, ?_, ?_, ?_, ?_, ?_, ?_, ?_, ?_, ?_, ?_, ?_, ?_, ?_, ?_, ?_⟩ <;>
        simp only [St.finish2, St.emit2, St.setA, St.setP] <;> grind [midStage, lateStage, alive2, allowed2]
  · -- `D2` becomes the closer of the soup session
    rename_i hcl
    have hcl' : s.inner.closed = false := by
      have : s0.inner.closed = false := by simpa [St.setA, St.setP] using hcl
      rw [e3] at this; exact this
    have hidle : s0.cpc = .idle := by
      rw [e2]
      cases h : s.cpc with
      | idle => rfl
      | _ => have := ib.b (by rw [h]; simp); rw [hcl'] at this; contradiction
    have iy1 : InvY a ((s0.setA .D2 .inSoup).setP .D2 p) := iy.frame (by simp [e3]) (by simp [St.setA, St.setP, e2])
    have ib1 : InvB2 a ((s0.setA .D2 .inSoup).setP .D2 p) := InvB2.of_core (s := s0) rfl ib0
    have is1 : InvS a ((s0.setA .D2 .inSoup).setP .D2 p) := by
      obtain ⟨nb, we, wv, ty, wq, d2, cc, hc', can, v2, dn, vn, da, vs, dnf, ip, ds, hs⟩ := is0
      rcases hcc with ⟨hst, v, rfl, hbeh⟩ | ⟨hst, v, rfl⟩
      · refine ⟨?_, ?_, ?_, ?_, ?_, ?_, ?_, ?_, ?_, ?_, ?_, ?_, ?_, ?_, ?_, ?_, ?_, ?_⟩ <;>
          simp only [St.setA, St.setP] <;> grind [midStage, lateStage, alive2, allowed2]
      · refine ⟨?_, ?_, ?_, ?_, ?_, ?_, ?_, ?_, ?_, ?_, ?_, ?_, ?_, ?_, ?_, ?_, ?_, ?_⟩ <;>
          simp only [St.setA, St.setP] <;> grind [midStage, lateStage, alive2, allowed2]
    exact passInner_K iy1 ib1 is1 _

/-! ### the second dispatcher, the receive helper, the user tasks -/

theorem InvB2.emit_msgEnter {a : ACfg} {s : St} (ib : InvB2 a s) (hq : s.q2Closed = false) (v : Nat) :
    InvB2 a (s.emit2 (.msgEnter v)) := by
  have h0 : phase2 a s = 0 := by
    unfold phase2
    split
    · rename_i k hc
      have hb := ib.bu (Or.inl (by rw [hc]; rfl))
      have := ib.q hb (by rw [hc]; simp); rw [hq] at this; contradiction
    · rename_i hc
      have hb := ib.bu (Or.inr hc)
      have := ib.q hb (by rw [hc]; simp); rw [hq] at this; contradiction
    · rename_i hc
      cases hb : s.built with
      | false => simp
      | true => have := ib.q hb (by rw [hc]; simp); rw [hq] at this; contradiction
    · rfl
  obtain ⟨b, tc, bu, q, q', ac1, ac2, ac3, ev1, ev2, ev0, ub, ph⟩ := ib
  refine ⟨b, tc, bu, q, q', ac1, ac2, ac3, ev1, ev2, ev0, ub, ?_⟩
  rw [trace2_emit2, mon2Run_append, ph, h0]
  show mon2 0 (.msgEnter v) = phase2 a s
  rw [h0]; rfl

theorem dispHandle2_K {a : ACfg} {s : St} (iy : InvY a s) (ib : InvB2 a s) (is : InvS a s) (v : Nat)
    (hD : s.astatus .D2 = .ready) (hp : s.aprog .D2 = .dispLoop) :
    InvB2 a (dispHandle2 a s v) ∧ InvS a (dispHandle2 a s v) := by
  unfold dispHandle2
  split
  · exact ⟨InvB2.of_core (s := s.emit2 (.msgExit v)) rfl (ib.emit2 rfl), InvS.of_core (s := s) rfl is⟩
  · rename_i k hk
    refine ⟨InvB2.of_core (s := s) rfl ib, ?_⟩
    obtain ⟨nb, we, wv, ty, wq, d2, cc, hc', can, v2, dn, vn, da, vs, dnf, ip, ds, hs⟩ := is
    refine ⟨?_, ?_, ?_, ?_, ?_, ?_, ?_, ?_, ?_, ?_, ?_, ?_, ?_, ?_, ?_, ?_, ?_, ?_⟩ <;> simp only [St.setP] <;>
      grind [midStage, lateStage, alive2, allowed2]
  · exact ⟨InvB2.of_core (s := s.emit2 (.msgRaise v)) rfl (ib.emit2 rfl), InvS.of_core (s := s) rfl is⟩
  · rename_i hbeh
    split
    · exact ⟨InvB2.of_core (s := (s.emit2 (.closeRet (.handler v) .ok)).emit2 (.msgExit v)) rfl ((ib.emit2 rfl).emit2 rfl),
        InvS.of_core (s := s) rfl is⟩
    · rename_i hg
      simp only [Bool.or_eq_true, not_or, Bool.not_eq_true, Option.isSome_eq_false_iff, Option.isNone_iff_eq_none] at hg
      exact closeOnD2_K iy ib is _ hg.1 hg.2 (Or.inl ⟨hD, v, rfl, Or.inl hbeh⟩)
  · rename_i k hk
    refine ⟨InvB2.of_core (s := s) rfl ib, ?_⟩
    obtain ⟨nb, we, wv, ty, wq, d2, cc, hc', can, v2, dn, vn, da, vs, dnf, ip, ds, hs⟩ := is
    refine ⟨?_, ?_, ?_, ?_, ?_, ?_, ?_, ?_, ?_, ?_, ?_, ?_, ?_, ?_, ?_, ?_, ?_, ?_⟩ <;> simp only [St.setP] <;>
      grind [midStage, lateStage, alive2, allowed2]
  · rename_i k hk
    refine ⟨InvB2.of_core (s := s) rfl ib, ?_⟩
    obtain ⟨nb, we, wv, ty, wq, d2, cc, hc', can, v2, dn, vn, da, vs, dnf, ip, ds, hs⟩ := is
    refine ⟨?_, ?_, ?_, ?_, ?_, ?_, ?_, ?_, ?_, ?_, ?_, ?_, ?_, ?_, ?_, ?_, ?_, ?_⟩ <;> simp only [St.setP] <;>
      grind [midStage, lateStage, alive2, allowed2]

theorem stepDisp2_K {a : ACfg} {s : St} (iy : InvY a s) (ib : InvB2 a s) (is : InvS a s)
    (hD : s.astatus .D2 = .ready) (hp : s.aprog .D2 = .dispLoop) :
    InvB2 a (stepDisp2 a s) ∧ InvS a (stepDisp2 a s) := by
  unfold stepDisp2
  split
  · refine ⟨InvB2.of_core (s := s) rfl ib, ?_⟩
    obtain ⟨nb, we, wv, ty, wq, d2, cc, hc', can, v2, dn, vn, da, vs, dnf, ip, ds, hs⟩ := is
    refine ⟨?_, ?_, ?_, ?_, ?_, ?_, ?_, ?_, ?_, ?_, ?_, ?_, ?_, ?_, ?_, ?_, ?_, ?_⟩ <;> simp only [St.finish2] <;>
      grind [midStage, lateStage, alive2, allowed2]
  · rename_i hq
    have hq' : s.q2Closed = false := by simpa using hq
    split
    · exact ⟨ib, is⟩
    · split
      · refine ⟨InvB2.of_core (s := s) rfl ib, ?_⟩
        obtain ⟨nb, we, wv, ty, wq, d2, cc, hc', can, v2, dn, vn, da, vs, dnf, ip, ds, hs⟩ := is
        refine ⟨?_, ?_, ?_, ?_, ?_, ?_, ?_, ?_, ?_, ?_, ?_, ?_, ?_, ?_, ?_, ?_, ?_, ?_⟩ <;> simp only [St.setA] <;>
          grind [midStage, lateStage, alive2, allowed2]
      · rename_i v q hqu
        apply dispHandle2_K
        · exact iy.frame rfl rfl
        · exact InvB2.emit_msgEnter (s := { s with q2 := q, gone2 := s.gone2 ++ [(v, true)] })
            (InvB2.of_core (s := s) rfl ib) hq' v
        · exact InvS.of_core (s := s) rfl is
        · exact hD
        · exact hp

/-- closes an `InvS` goal about a state built with the small algebra from a state whose `InvS` fields are in the context -/
macro "ksolve" : tactic => `(tactic|
  (refine ⟨?_, ?_, ?_, ?_, ?_, ?_, ?_, ?_, ?_, ?_, ?_, ?_, ?_, ?_, ?_, ?_, ?_, ?_⟩ <;>
    simp only [St.finish2, St.emit2, St.setA, St.setP, St.spawn2] <;>
    first
      | grind [midStage, lateStage, alive2]
      | grind [midStage, lateStage, alive2, allowed2]))

theorem handlerDone_K {a : ACfg} {s : St} (iy : InvY a s) (ib : InvB2 a s) (is : InvS a s) (v : Nat) (hD : s.astatus .D2 = .ready) :
    InvB2 a (handlerDone a s .D2 v) ∧ InvS a (handlerDone a s .D2 v) := by
  unfold handlerDone
  split
  · rename_i k hbeh
    split
    · refine ⟨InvB2.of_core (s := (s.emit2 (.closeRet (.handler v) .ok)).emit2 (.msgExit v)) rfl ((ib.emit2 rfl).emit2 rfl), ?_⟩
      obtain ⟨nb, we, wv, ty, wq, d2, cc, hc', can, v2, dn, vn, da, vs, dnf, ip, ds, hs⟩ := is
      ksolve
    · rename_i hg
      simp only [Bool.or_eq_true, not_or, Bool.not_eq_true, Option.isSome_eq_false_iff, Option.isNone_iff_eq_none] at hg
      exact closeOnD2_K iy ib is _ hg.1 hg.2 (Or.inl ⟨hD, v, rfl, Or.inr ⟨k, hbeh⟩⟩)
  · refine ⟨InvB2.of_core (s := s.emit2 (.msgExit v)) rfl (ib.emit2 rfl), ?_⟩
    obtain ⟨nb, we, wv, ty, wq, d2, cc, hc', can, v2, dn, vn, da, vs, dnf, ip, ds, hs⟩ := is
    ksolve

theorem allowed2_D2 {t : ATid} {p : AProg} (h : allowed2 t p = true)
    (hp : p = .dispLoop ∨ (∃ v k, p = .handler v k) ∨ (∃ v, p = .handlerClose v) ∨ (∃ v k, p = .handlerCC v k) ∨
      (∃ v, p = .cleanupClose v)) : t = .D2 := by
  rcases hp with rfl | ⟨v, k, rfl⟩ | ⟨v, rfl⟩ | ⟨v, k, rfl⟩ | ⟨v, rfl⟩ <;> cases t <;> simp_all [allowed2]

theorem allowed2_V2 {t : ATid} (h : allowed2 t .vget = true) : t = .V2 := by
  cases t <;> simp_all [allowed2]

theorem allowed2_W {t : ATid} {p : AProg} {u : Nat} (h : allowed2 t p = true)
    (hp : p = .recvWait u ∨ p = .closeWait u) : t = .W u := by
  rcases hp with rfl | rfl <;> cases t <;> simp_all [allowed2]

theorem stepRun2_K {a : ACfg} {s : St} (iy : InvY a s) (ib : InvB2 a s) (is : InvS a s) (t : ATid) :
    InvB2 a (stepRun2 a s t) ∧ InvS a (stepRun2 a s t) := by
  unfold stepRun2
  have iy0 : InvY a { s with imm2 := false } := iy.frame rfl rfl
  have ib0 : InvB2 a { s with imm2 := false } := InvB2.of_core (s := s) rfl ib
  have is0 : InvS a { s with imm2 := false } := InvS.of_core (s := s) rfl is
  generalize ({ s with imm2 := false } : St) = s0 at iy0 ib0 is0
  simp only
  split
  · -- cancelled: `CancelledError` is delivered
    rename_i hst
    have hty := is0.ty t (by rw [hst]; rfl)
    split
    · rename_i v k hp
      rw [hp] at hty
      obtain rfl := allowed2_D2 hty (Or.inr (Or.inl ⟨v, k, rfl⟩))
      refine ⟨InvB2.of_core (s := s0.emit2 (.msgAbandon v)) rfl (ib0.emit2 rfl), ?_⟩
      obtain ⟨nb, we, wv, ty, wq, d2, cc, hc', can, v2, dn, vn, da, vs, dnf, ip, ds, hs⟩ := is0
      ksolve
    · rename_i v k hp
      rw [hp] at hty
      obtain rfl := allowed2_D2 hty (Or.inr (Or.inr (Or.inr (Or.inl ⟨v, k, rfl⟩))))
      split
      · refine ⟨InvB2.of_core (s := (s0.emit2 (.closeRet (.handler v) .ok)).emit2 (.msgAbandon v)) rfl
          ((ib0.emit2 rfl).emit2 rfl), ?_⟩
        obtain ⟨nb, we, wv, ty, wq, d2, cc, hc', can, v2, dn, vn, da, vs, dnf, ip, ds, hs⟩ := is0
        ksolve
      · rename_i hg
        simp only [Bool.or_eq_true, not_or, Bool.not_eq_true, Option.isSome_eq_false_iff, Option.isNone_iff_eq_none] at hg
        exact closeOnD2_K iy0 ib0 is0 _ hg.1 hg.2 (Or.inr ⟨hst, v, rfl⟩)
    · rename_i u hp
      rw [hp] at hty
      obtain rfl := allowed2_W hty (Or.inl rfl)
      have ib1 := InvB2.of_core (s' := { s0 with vres2 := none, rcv2Busy := false, q2 := s0.vres2.toList ++ s0.q2 }) (s := s0) rfl ib0
      split
      · refine ⟨InvB2.of_core (s := ({ s0 with vres2 := none, rcv2Busy := false, q2 := s0.vres2.toList ++ s0.q2 } : St).emit2 (.ret u .eoq)) rfl (ib1.emit2 rfl), ?_⟩
        obtain ⟨nb, we, wv, ty, wq, d2, cc, hc', can, v2, dn, vn, da, vs, dnf, ip, ds, hs⟩ := is0
        ksolve
      · refine ⟨InvB2.of_core (s := ({ s0 with vres2 := none, rcv2Busy := false, q2 := s0.vres2.toList ++ s0.q2 } : St).emit2 (.ret u .cancelled)) rfl (ib1.emit2 rfl), ?_⟩
        obtain ⟨nb, we, wv, ty, wq, d2, cc, hc', can, v2, dn, vn, da, vs, dnf, ip, ds, hs⟩ := is0
        ksolve
    · rename_i u hp
      rw [hp] at hty
      obtain rfl := allowed2_W hty (Or.inr rfl)
      refine ⟨InvB2.of_core (s := s0.emit2 (.closeRet (.user u) .cancelled)) rfl (ib0.emit2 rfl), ?_⟩
      obtain ⟨nb, we, wv, ty, wq, d2, cc, hc', can, v2, dn, vn, da, vs, dnf, ip, ds, hs⟩ := is0
      ksolve
    · refine ⟨InvB2.of_core (s := s0) rfl ib0, ?_⟩
      obtain ⟨nb, we, wv, ty, wq, d2, cc, hc', can, v2, dn, vn, da, vs, dnf, ip, ds, hs⟩ := is0
      ksolve
  · -- ready
    rename_i hst
    have hty := is0.ty t (by rw [hst]; rfl)
    split
    · rename_i hp
      split
      · rename_i htD; subst htD
        exact stepDisp2_K iy0 ib0 is0 hst hp
      · exact ⟨ib0, is0⟩
    · rename_i v k hp
      rw [hp] at hty
      obtain rfl := allowed2_D2 hty (Or.inr (Or.inl ⟨v, k, rfl⟩))
      split
      · exact handlerDone_K iy0 ib0 is0 v hst
      · refine ⟨InvB2.of_core (s := s0) rfl ib0, ?_⟩
        obtain ⟨nb, we, wv, ty, wq, d2, cc, hc', can, v2, dn, vn, da, vs, dnf, ip, ds, hs⟩ := is0
        ksolve
    · rename_i v k hp
      rw [hp] at hty
      obtain rfl := allowed2_D2 hty (Or.inr (Or.inr (Or.inr (Or.inl ⟨v, k, rfl⟩))))
      split
      · refine ⟨InvB2.of_core (s := s0.emit2 (.msgExit v)) rfl (ib0.emit2 rfl), ?_⟩
        obtain ⟨nb, we, wv, ty, wq, d2, cc, hc', can, v2, dn, vn, da, vs, dnf, ip, ds, hs⟩ := is0
        ksolve
      · refine ⟨InvB2.of_core (s := s0) rfl ib0, ?_⟩
        obtain ⟨nb, we, wv, ty, wq, d2, cc, hc', can, v2, dn, vn, da, vs, dnf, ip, ds, hs⟩ := is0
        ksolve
    · rename_i hp
      rw [hp] at hty
      obtain rfl := allowed2_V2 hty
      split
      · refine ⟨InvB2.of_core (s := s0) rfl ib0, ?_⟩
        obtain ⟨nb, we, wv, ty, wq, d2, cc, hc', can, v2, dn, vn, da, vs, dnf, ip, ds, hs⟩ := is0
        ksolve
      · split
        · exact ⟨ib0, is0⟩
        · refine ⟨InvB2.of_core (s := s0) rfl ib0, ?_⟩
          obtain ⟨nb, we, wv, ty, wq, d2, cc, hc', can, v2, dn, vn, da, vs, dnf, ip, ds, hs⟩ := is0
          ksolve
    · rename_i u hp
      rw [hp] at hty
      obtain rfl := allowed2_W hty (Or.inl rfl)
      split
      · rename_i v hv
        refine ⟨InvB2.of_core (s := ({ s0 with vres2 := none, rcv2Busy := false, gone2 := s0.gone2 ++ [(v, true)] } : St).emit2 (.ret u (.msg v))) rfl (InvB2.emit2 rfl (InvB2.of_core (s' := { s0 with vres2 := none, rcv2Busy := false, gone2 := s0.gone2 ++ [(v, true)] }) (s := s0) rfl ib0)), ?_⟩
        obtain ⟨nb, we, wv, ty, wq, d2, cc, hc', can, v2, dn, vn, da, vs, dnf, ip, ds, hs⟩ := is0
        ksolve
      · split
        · refine ⟨InvB2.of_core (s := ({ s0 with rcv2Busy := false } : St).emit2 (.ret u .eoq)) rfl (InvB2.emit2 rfl (InvB2.of_core (s' := { s0 with rcv2Busy := false }) (s := s0) rfl ib0)), ?_⟩
          obtain ⟨nb, we, wv, ty, wq, d2, cc, hc', can, v2, dn, vn, da, vs, dnf, ip, ds, hs⟩ := is0
          ksolve
        · refine ⟨InvB2.of_core (s := ({ s0 with rcv2Busy := false } : St).emit2 (.ret u .cancelled)) rfl (InvB2.emit2 rfl (InvB2.of_core (s' := { s0 with rcv2Busy := false }) (s := s0) rfl ib0)), ?_⟩
          obtain ⟨nb, we, wv, ty, wq, d2, cc, hc', can, v2, dn, vn, da, vs, dnf, ip, ds, hs⟩ := is0
          ksolve
    · rename_i u hp
      rw [hp] at hty
      obtain rfl := allowed2_W hty (Or.inr rfl)
      refine ⟨InvB2.of_core (s := s0.emit2 (.closeRet (.user u) .ok)) rfl (ib0.emit2 rfl), ?_⟩
      obtain ⟨nb, we, wv, ty, wq, d2, cc, hc', can, v2, dn, vn, da, vs, dnf, ip, ds, hs⟩ := is0
      ksolve
    · exact ⟨ib0, is0⟩
  · exact ⟨ib0, is0⟩

end NasdaqModel.App
