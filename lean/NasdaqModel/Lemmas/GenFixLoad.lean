import NasdaqModel.Lemmas.GenFixParse
/-
Lemmas for C16, part 3: the generated group classes (with their doubled evaluation and unique names), once imported, denote
the entry trees they were generated from.
-/
namespace NasdaqModel.GenFix
open NasdaqModel Py Spec.FixDict

/-! ### counters and contexts -/

theorem counterOf_bump_same (n : Str) (s : GState) : counterOf n (bump n s) = counterOf n s + 1 := by
  simp [counterOf, bump, aget_aset_same]

theorem counterOf_bump_other {n m : Str} (h : n ≠ m) (s : GState) : counterOf m (bump n s) = counterOf m s := by
  simp [counterOf, bump, aget_aset_other _ h]

@[simp] theorem counterOf_push (m : Str) (c : GroupCtx) (s : GState) : counterOf m (push c s) = counterOf m s := rfl
@[simp] theorem contexts_push (c : GroupCtx) (s : GState) : (push c s).contexts = s.contexts ++ [c] := rfl
@[simp] theorem contexts_bump (n : Str) (s : GState) : (bump n s).contexts = s.contexts := rfl

/-- counters never decrease -/
def CLe (s s' : GState) : Prop := ∀ n, counterOf n s ≤ counterOf n s'

theorem CLe.refl (s : GState) : CLe s s := fun _ => Nat.le_refl _
theorem CLe.trans {a b c : GState} (h1 : CLe a b) (h2 : CLe b c) : CLe a c := fun n => Nat.le_trans (h1 n) (h2 n)

theorem cle_bump (n : Str) (s : GState) : CLe s (bump n s) := by
  intro m
  by_cases e : n = m
  · subst e; rw [counterOf_bump_same]; omega
  · rw [counterOf_bump_other e]; omega

theorem cle_push (c : GroupCtx) (s : GState) : CLe s (push c s) := fun _ => Nat.le_refl _

/-- every name in `ks` has been handed out already -/
def Bounded (ks : List Str) (s : GState) : Prop := ∀ u ∈ ks, ∃ n k, u = uniqueName n k ∧ k ≤ counterOf n s

/-- every name in `ks` is yet to be handed out -/
def Fresh (s : GState) (ks : List Str) : Prop := ∀ u ∈ ks, ∃ n k, u = uniqueName n k ∧ counterOf n s < k

theorem Bounded.mono {ks : List Str} {s s' : GState} (h : Bounded ks s) (hle : CLe s s') : Bounded ks s' := by
  intro u hu
  obtain ⟨n, k, e, hk⟩ := h u hu
  exact ⟨n, k, e, Nat.le_trans hk (hle n)⟩

theorem Fresh.anti {ks : List Str} {s s' : GState} (h : Fresh s' ks) (hle : CLe s s') : Fresh s ks := by
  intro u hu
  obtain ⟨n, k, e, hk⟩ := h u hu
  exact ⟨n, k, e, Nat.lt_of_le_of_lt (hle n) hk⟩

theorem fresh_not_bounded {ks ks' : List Str} {s : GState} (hb : Bounded ks s) (hf : Fresh s ks') {u : Str}
    (hu : u ∈ ks) : u ∉ ks' := by
  intro hu'
  obtain ⟨n, k, e, hk⟩ := hb u hu
  obtain ⟨n', k', e', hk'⟩ := hf u hu'
  rw [e] at e'
  obtain ⟨rfl, rfl⟩ := uniqueName_inj e'
  omega

/-! ### loading -/

theorem loadGroups_append (fenv : List (Str × LField)) : ∀ (a b : List GroupCtx) (genv : List (Str × LGroup)),
    loadGroups fenv genv (a ++ b) =
      (match loadGroups fenv genv a with
       | .error e => .error e
       | .ok g => loadGroups fenv g b)
  | [], b, genv => rfl
  | g :: rest, b, genv => by
    simp only [List.cons_append, loadGroups]
    cases resolveRefs fenv genv .other g.entries with
    | error e => rfl
    | ok les =>
      cases aget g.name fenv with
      | none => rfl
      | some cf => exact loadGroups_append fenv rest b _

theorem loadGroups_keys {fenv : List (Str × LField)} : ∀ {cs : List GroupCtx} {genv genv' : List (Str × LGroup)},
    loadGroups fenv genv cs = .ok genv' → keys genv' = (cs.map (·.uname)).reverse ++ keys genv
  | [], genv, genv', h => by
    simp only [loadGroups] at h
    cases h
    simp
  | g :: rest, genv, genv', h => by
    simp only [loadGroups] at h
    cases h1 : resolveRefs fenv genv .other g.entries with
    | error e => rw [h1] at h; cases h
    | ok les =>
      rw [h1] at h
      cases h2 : aget g.name fenv with
      | none => rw [h2] at h; cases h
      | some cf =>
        rw [h2] at h
        rw [loadGroups_keys h]
        simp

/-- a reference that resolves keeps its meaning when fresh classes are defined after it -/
theorem resolveRef_ext {fenv : List (Str × LField)} {genv add : List (Str × LGroup)} {s : GState} {miss miss' : Err}
    {r : ERef} {le : LEntry} (hb : Bounded (keys genv) s) (hf : Fresh s (keys add))
    (h : resolveRef fenv genv miss r = .ok le) : resolveRef fenv (add ++ genv) miss' r = .ok le := by
  cases r with
  | field fd rq => simpa [resolveRef] using h
  | group n u rq =>
    simp only [resolveRef] at h ⊢
    cases hg : aget u genv with
    | none => rw [hg] at h; cases h
    | some g =>
      rw [hg] at h
      have hu : u ∈ keys genv := mem_keys_of_aget hg
      rw [aget_append_of_not_mem genv (fresh_not_bounded hb hf hu), hg]
      exact h

theorem resolveRefs_ext {fenv : List (Str × LField)} {genv add : List (Str × LGroup)} {s : GState} {miss miss' : Err}
    (hb : Bounded (keys genv) s) (hf : Fresh s (keys add)) :
    ∀ (rs : List ERef) (les : List LEntry), resolveRefs fenv genv miss rs = .ok les →
      resolveRefs fenv (add ++ genv) miss' rs = .ok les
  | [], les, h => by simpa [resolveRefs] using h
  | r :: rest, les, h => by
    simp only [resolveRefs] at h ⊢
    cases h1 : resolveRef fenv genv miss r with
    | error e => rw [h1] at h; cases h
    | ok le =>
      rw [h1] at h
      cases h2 : resolveRefs fenv genv miss rest with
      | error e => rw [h2] at h; cases h
      | ok les2 =>
        rw [h2] at h
        rw [resolveRef_ext hb hf h1, resolveRefs_ext hb hf rest les2 h2]
        exact h

/-! ### what an entry of the parsed dictionary denotes once its classes are loaded -/

def tagOf (fd : FieldDef) : Int :=
  match parseIntStr fd.tag with
  | .ok t => t
  | .error _ => 0

def lfOf (fd : FieldDef) : LField := ⟨fd.name, tagOf fd, fd.type, valuesCtx fd⟩

mutual
def toL (FT : FieldTab) : Entry → Option LEntry
  | .field fd r => if aget fd.name FT = some fd then some (.field fd.name (tagOf fd) fd.type r) else none
  | .group n r es =>
    match aget n FT, toLs FT es with
    | some cf, some les => if cf.name = n then some (.group cf.name (tagOf cf) cf.type r les) else none
    | _, _ => none
def toLs (FT : FieldTab) : List Entry → Option (List LEntry)
  | [] => some []
  | e :: rest =>
    match toL FT e, toLs FT rest with
    | some le, some les => some (le :: les)
    | _, _ => none
end

theorem toLs_append (FT : FieldTab) : ∀ (a b : List Entry) (la lb : List LEntry), toLs FT a = some la → toLs FT b = some lb →
    toLs FT (a ++ b) = some (la ++ lb)
  | [], b, la, lb, ha, hb => by
    simp only [toLs] at ha
    cases ha
    simpa using hb
  | e :: rest, b, la, lb, ha, hb => by
    simp only [toLs] at ha
    simp only [List.cons_append, toLs]
    cases h1 : toL FT e with
    | none => rw [h1] at ha; simp at ha
    | some le =>
      cases h2 : toLs FT rest with
      | none => rw [h1, h2] at ha; simp at ha
      | some les =>
        rw [h1, h2] at ha
        simp only [Option.some.injEq] at ha
        subst ha
        rw [toLs_append FT rest b les lb h2 hb]
        simp

/-- the environment of loaded field classes agrees with the parsed table -/
def FenvOk (FT : FieldTab) (fenv : List (Str × LField)) : Prop :=
  ∀ n fd, aget n FT = some fd → fd.name = n → aget n fenv = some (lfOf fd)

/-- the state of the generator and the namespace of the groups module after executing the classes generated so far -/
structure GInv (fenv : List (Str × LField)) (s : GState) (genv : List (Str × LGroup)) : Prop where
  loaded : loadGroups fenv [] s.contexts = .ok genv
  bounded : Bounded (keys genv) s
  nodup : (keys genv).Nodup

/-- result of one step: classes were only added, all with fresh names -/
structure GStep (fenv : List (Str × LField)) (s s' : GState) (genv genv' : List (Str × LGroup)) : Prop where
  inv : GInv fenv s' genv'
  cle : CLe s s'
  ext : ∃ add, genv' = add ++ genv ∧ Fresh s (keys add)

theorem GStep.trans {fenv : List (Str × LField)} {s1 s2 s3 : GState} {g1 g2 g3 : List (Str × LGroup)}
    (a : GStep fenv s1 s2 g1 g2) (b : GStep fenv s2 s3 g2 g3) : GStep fenv s1 s3 g1 g3 := by
  obtain ⟨add1, e1, f1⟩ := a.ext
  obtain ⟨add2, e2, f2⟩ := b.ext
  refine ⟨b.inv, a.cle.trans b.cle, add2 ++ add1, by rw [e2, e1, List.append_assoc], ?_⟩
  intro u hu
  simp only [keys_append, List.mem_append] at hu
  rcases hu with hu | hu
  · exact (Fresh.anti f2 a.cle) u hu
  · exact f1 u hu

theorem GStep.refl {fenv : List (Str × LField)} {s : GState} {g : List (Str × LGroup)} (h : GInv fenv s g) : GStep fenv s s g g :=
  ⟨h, CLe.refl s, [], rfl, by intro u hu; simp at hu⟩

mutual
theorem ctxEntry_load {FT : FieldTab} {fenv : List (Str × LField)} (hfe : FenvOk FT fenv) :
    ∀ (e : Entry) (le : LEntry) (s : GState) (genv : List (Str × LGroup)), toL FT e = some le → GInv fenv s genv →
      ∃ genv', GStep fenv s (ctxEntry s e).2 genv genv' ∧ ∀ miss, resolveRef fenv genv' miss (ctxEntry s e).1 = .ok le
  | .field fd r, le, s, genv, ht, inv => by
    simp only [toL] at ht
    split at ht
    · rename_i hfd
      cases ht
      refine ⟨genv, by simpa [ctxEntry] using GStep.refl inv, ?_⟩
      intro miss
      simp only [ctxEntry, resolveRef, hfe fd.name fd hfd rfl, lfOf]
    · cases ht
  | .group n r es, le, s, genv, ht, inv => by
    simp only [toL] at ht
    cases hcf : aget n FT with
    | none => rw [hcf] at ht; simp at ht
    | some cf =>
      cases hles : toLs FT es with
      | none => rw [hcf, hles] at ht; simp at ht
      | some les =>
        rw [hcf, hles] at ht
        simp only [] at ht
        split at ht
        · rename_i hname
          cases ht
          -- state after the name has been taken
          have inv1 : GInv fenv (bump n s) genv := ⟨by simpa using inv.loaded, inv.bounded.mono (cle_bump n s), inv.nodup⟩
          obtain ⟨g2, st2, _⟩ := ctxEntries_load hfe es les (bump n s) genv hles inv1
          obtain ⟨g3, st3, hres⟩ := ctxEntries_load hfe es les (ctxEntries (bump n s) es).2 g2 hles st2.inv
          have st13 := st2.trans st3
          let s3 := (ctxEntries (ctxEntries (bump n s) es).2 es).2
          let c2 := (ctxEntries (ctxEntries (bump n s) es).2 es).1
          let u := uniqueName n (counterOf n s + 1)
          let lg : LGroup := ⟨cf.name, tagOf cf, cf.type, les⟩
          have hfenv : aget n fenv = some (lfOf cf) := hfe n cf hcf hname
          have hload : loadGroups fenv [] (s3.contexts ++ [⟨n, u, c2⟩]) = .ok ((u, lg) :: g3) := by
            rw [loadGroups_append, st3.inv.loaded]
            simp only [loadGroups, hfenv]
            rw [show resolveRefs fenv g3 Err.other c2 = Except.ok les from hres .other]
            rfl
          have hcnt : counterOf n s + 1 ≤ counterOf n s3 := by
            have := st13.cle n
            rw [counterOf_bump_same] at this
            exact this
          have hufresh : u ∉ keys g3 := by
            obtain ⟨add, eadd, fadd⟩ := st13.ext
            rw [eadd, keys_append, List.mem_append]
            intro hu
            rcases hu with hu | hu
            · obtain ⟨n', k', e', hk'⟩ := fadd u hu
              obtain ⟨rfl, rfl⟩ := uniqueName_inj e'
              rw [counterOf_bump_same] at hk'
              omega
            · obtain ⟨n', k', e', hk'⟩ := inv.bounded u hu
              obtain ⟨rfl, rfl⟩ := uniqueName_inj e'
              omega
          refine ⟨(u, lg) :: g3, ⟨⟨?_, ?_, ?_⟩, ?_, ?_⟩, ?_⟩
          · simpa [ctxEntry] using hload
          · intro v hv
            simp only [keys_cons, List.mem_cons] at hv
            rcases hv with rfl | hv
            · exact ⟨n, counterOf n s + 1, rfl, by simpa [ctxEntry] using hcnt⟩
            · obtain ⟨n', k', e', hk'⟩ := st3.inv.bounded v hv
              exact ⟨n', k', e', by simpa [ctxEntry] using hk'⟩
          · simp only [keys_cons, List.nodup_cons]
            exact ⟨hufresh, st3.inv.nodup⟩
          · simp only [ctxEntry]
            exact ((cle_bump n s).trans st13.cle).trans (cle_push _ _)
          · obtain ⟨add, eadd, fadd⟩ := st13.ext
            refine ⟨(u, lg) :: add, by rw [eadd]; rfl, ?_⟩
            intro v hv
            simp only [keys_cons, List.mem_cons] at hv
            rcases hv with rfl | hv
            · exact ⟨n, counterOf n s + 1, rfl, by omega⟩
            · exact (Fresh.anti fadd (cle_bump n s)) v hv
          · intro miss
            simp only [ctxEntry, resolveRef]
            have : aget u ((u, lg) :: g3) = some lg := by simp [aget]
            rw [this]
        · cases ht
theorem ctxEntries_load {FT : FieldTab} {fenv : List (Str × LField)} (hfe : FenvOk FT fenv) :
    ∀ (es : List Entry) (les : List LEntry) (s : GState) (genv : List (Str × LGroup)), toLs FT es = some les → GInv fenv s genv →
      ∃ genv', GStep fenv s (ctxEntries s es).2 genv genv' ∧ ∀ miss, resolveRefs fenv genv' miss (ctxEntries s es).1 = .ok les
  | [], les, s, genv, ht, inv => by
    simp only [toLs] at ht
    cases ht
    exact ⟨genv, by simpa [ctxEntries] using GStep.refl inv, fun _ => rfl⟩
  | e :: rest, les, s, genv, ht, inv => by
    simp only [toLs] at ht
    cases h1 : toL FT e with
    | none => rw [h1] at ht; simp at ht
    | some le =>
      cases h2 : toLs FT rest with
      | none => rw [h1, h2] at ht; simp at ht
      | some les2 =>
        rw [h1, h2] at ht
        simp only [Option.some.injEq] at ht
        subst ht
        obtain ⟨g1, st1, r1⟩ := ctxEntry_load hfe e le s genv h1 inv
        obtain ⟨g2, st2, r2⟩ := ctxEntries_load hfe rest les2 (ctxEntry s e).2 g1 h2 st1.inv
        refine ⟨g2, by simpa [ctxEntries] using st1.trans st2, ?_⟩
        intro miss
        obtain ⟨add, eadd, fadd⟩ := st2.ext
        simp only [ctxEntries, resolveRefs]
        rw [eadd, resolveRef_ext st1.inv.bounded fadd (r1 miss), ← eadd, r2 miss]
end

/-! ### the fields module -/

def clsOf (kv : Str × FieldDef) : FieldCls := ⟨kv.2.name, kv.2.tag, kv.2.type, valuesCtx kv.2⟩

theorem loadFields_eq : ∀ (fs : List (Str × FieldDef)) (env : List (Str × LField)),
    (∀ kv ∈ fs, loadField (clsOf kv) = .ok (lfOf kv.2)) →
    loadFields env (fs.map clsOf) = .ok ((fs.map (fun kv => (kv.2.name, lfOf kv.2))).reverse ++ env)
  | [], env, _ => by simp [loadFields]
  | kv :: rest, env, h => by
    simp only [List.map_cons, loadFields, h kv (by simp)]
    rw [loadFields_eq rest _ (fun kv' hkv' => h kv' (by simp [hkv']))]
    simp [clsOf]

theorem aget_map_val {α β : Type} (f : α → β) (k : Str) : ∀ (l : List (Str × α)),
    aget k (l.map (fun kv => (kv.1, f kv.2))) = (aget k l).map f
  | [] => rfl
  | (k', v) :: t => by
    simp only [List.map_cons, aget]
    by_cases e : k' = k
    · simp [e]
    · simp only [if_neg e]
      exact aget_map_val f k t

theorem aget_reverse {α : Type} (k : Str) : ∀ (l : List (Str × α)), (keys l).Nodup → aget k l.reverse = aget k l
  | [], _ => rfl
  | (k', v) :: t, h => by
    simp only [keys_cons, List.nodup_cons] at h
    simp only [List.reverse_cons]
    by_cases e : k' = k
    · subst e
      have hnot : k' ∉ keys t.reverse := by simpa [keys] using h.1
      rw [aget_append_of_not_mem _ hnot]
      simp [aget]
    · simp only [aget, if_neg e]
      rw [← aget_reverse k t h.2]
      cases hg : aget k t.reverse with
      | some v' => exact aget_append_of_some _ hg
      | none =>
        have : k ∉ keys t.reverse := by
          intro hm
          obtain ⟨v', hv'⟩ := aget_isSome_of_mem hm
          rw [hg] at hv'
          cases hv'
        rw [aget_append_of_not_mem _ this]
        simp [aget, e]

theorem aget_of_mem_nodup {α : Type} {k : Str} {v : α} : ∀ {l : List (Str × α)}, (keys l).Nodup → (k, v) ∈ l → aget k l = some v
  | [], _, h => by simp at h
  | (k', v') :: t, hn, h => by
    simp only [keys_cons, List.nodup_cons] at hn
    simp only [List.mem_cons, Prod.mk.injEq] at h
    rcases h with ⟨rfl, rfl⟩ | h
    · simp [aget]
    · have : k' ≠ k := by
        intro e
        subst e
        exact hn.1 (List.mem_map_of_mem (f := (·.1)) h)
      simp only [aget, if_neg this]
      exact aget_of_mem_nodup hn.2 h

theorem mem_of_aget {α : Type} {k : Str} {v : α} : ∀ {l : List (Str × α)}, aget k l = some v → (k, v) ∈ l
  | [], h => by simp [aget] at h
  | (k', v') :: t, h => by
    simp only [aget] at h
    by_cases e : k' = k
    · simp only [if_pos e] at h; cases h; simp [e]
    · simp only [if_neg e] at h
      exact List.mem_cons_of_mem _ (mem_of_aget h)

/-- properties of the parsed fields table that loading relies on -/
structure FTOk (FT : FieldTab) : Prop where
  kp : ∀ kv ∈ FT, kv.2.name = kv.1
  nodup : (keys FT).Nodup
  loads : ∀ kv ∈ FT, loadField (clsOf kv) = .ok (lfOf kv.2)

def fenvOf (FT : FieldTab) : List (Str × LField) := (FT.map (fun kv => (kv.2.name, lfOf kv.2))).reverse

theorem fenvOf_ok {FT : FieldTab} (h : FTOk FT) : FenvOk FT (fenvOf FT) := by
  intro n fd hg _
  have e : FT.map (fun kv => (kv.2.name, lfOf kv.2)) = FT.map (fun kv => (kv.1, lfOf kv.2)) :=
    List.map_congr_left (fun kv hkv => by rw [h.kp kv hkv])
  have hk : keys (FT.map (fun kv => (kv.1, lfOf kv.2))) = keys FT := by simp [keys, Function.comp_def]
  rw [fenvOf, e, aget_reverse _ _ (by rw [hk]; exact h.nodup), aget_map_val, hg]
  rfl

theorem loadFields_FT {FT : FieldTab} (h : FTOk FT) : loadFields [] (FT.map clsOf) = .ok (fenvOf FT) := by
  rw [loadFields_eq FT [] h.loads]
  simp [fenvOf]

theorem fenvOf_fields (FT : FieldTab) : ((fenvOf FT).map (·.2)).reverse = FT.map (fun kv => lfOf kv.2) := by
  simp [fenvOf, List.map_reverse, Function.comp_def]

/-! ### the parsed entries against the reference semantics -/

theorem reqFlag_eq (r : Option Str) : reqFlag r = isRequired r := rfl

theorem findField_of_aget {FT : FieldTab} (kp : ∀ kv ∈ FT, kv.2.name = kv.1) {n : Str} {fd : FieldDef} (h : aget n FT = some fd) :
    findField n (FT.map (fun kv => lfOf kv.2)) = some (lfOf fd) := by
  induction FT with
  | nil => simp [aget] at h
  | cons kv t ih =>
    obtain ⟨k, v⟩ := kv
    have hk : v.name = k := kp (k, v) (by simp)
    simp only [aget] at h
    simp only [findField, List.map_cons, List.find?_cons]
    by_cases e : k = n
    · simp only [if_pos e] at h
      cases h
      simp [lfOf, hk, e]
    · simp only [if_neg e] at h
      have : ¬ ((lfOf v).name = n) := by simpa [lfOf, hk] using e
      simp only [this, decide_false]
      exact ih (fun kv hkv => kp kv (by simp [hkv])) h

/-- the reference substitution `sub'` yields the trees of what the pure substitution `psub` yields -/
def SubRel (FT : FieldTab) (psub : Str → Except Err (List Entry)) (sub' : Str → Except Err (List LEntry)) : Prop :=
  ∀ n es, psub n = .ok es → ∃ les, toLs FT es = some les ∧ sub' n = .ok les

mutual
theorem xItem_denotes {FT : FieldTab} (kp : ∀ kv ∈ FT, kv.2.name = kv.1) {psub : Str → Except Err (List Entry)}
    {sub' : Str → Except Err (List LEntry)} (hs : SubRel FT psub sub') {pf pg pc : Str → Bool}
    (hg : ∀ n, pg n = true → ∃ cf, aget n FT = some cf) :
    ∀ (i : Item) (es : List Entry), itemAll pf pg pc i = true → xItem FT psub i = .ok es →
      ∃ les, toLs FT es = some les ∧ expandItem (FT.map (fun kv => lfOf kv.2)) sub' i = .ok les
  | .field n r, es, _, hx => by
    simp only [xItem] at hx
    cases hf : aget n FT with
    | none => rw [hf] at hx; cases hx
    | some fd =>
      rw [hf] at hx
      cases hx
      have hname : fd.name = n := by
        have hm : (n, fd) ∈ FT := mem_of_aget hf
        exact kp (n, fd) hm
      refine ⟨[.field fd.name (tagOf fd) fd.type (isRequired r)], ?_, ?_⟩
      · simp [toLs, toL, hname, hf]
      · simp only [expandItem, findField_of_aget kp hf, reqFlag_eq]
        rfl
  | .group n r items, es, ha, hx => by
    simp only [itemAll, Bool.and_eq_true] at ha
    simp only [xItem] at hx
    cases h1 : xItems FT psub items with
    | error e => rw [h1] at hx; cases hx
    | ok es1 =>
      rw [h1] at hx
      cases hx
      obtain ⟨les, hl, he⟩ := xItems_denotes kp hs hg items es1 ha.2 h1
      obtain ⟨cf, hcf⟩ := hg n ha.1
      have hname : cf.name = n := by
        have hm : (n, cf) ∈ FT := mem_of_aget hcf
        exact kp (n, cf) hm
      refine ⟨[.group cf.name (tagOf cf) cf.type (isRequired r) les], ?_, ?_⟩
      · simp [toLs, toL, hcf, hl, hname]
      · simp only [expandItem, he, findField_of_aget kp hcf, reqFlag_eq]
        rfl
  | .comp n r, es, _, hx => by
    simp only [xItem] at hx
    obtain ⟨les, hl, he⟩ := hs n es hx
    exact ⟨les, hl, by simpa only [expandItem] using he⟩
theorem xItems_denotes {FT : FieldTab} (kp : ∀ kv ∈ FT, kv.2.name = kv.1) {psub : Str → Except Err (List Entry)}
    {sub' : Str → Except Err (List LEntry)} (hs : SubRel FT psub sub') {pf pg pc : Str → Bool}
    (hg : ∀ n, pg n = true → ∃ cf, aget n FT = some cf) :
    ∀ (is : List Item) (es : List Entry), itemsAll pf pg pc is = true → xItems FT psub is = .ok es →
      ∃ les, toLs FT es = some les ∧ expandItems (FT.map (fun kv => lfOf kv.2)) sub' is = .ok les
  | [], es, _, hx => by
    simp only [xItems] at hx
    cases hx
    exact ⟨[], rfl, rfl⟩
  | i :: rest, es, ha, hx => by
    simp only [itemsAll, Bool.and_eq_true] at ha
    simp only [xItems] at hx
    cases h1 : xItem FT psub i with
    | error e => rw [h1] at hx; cases hx
    | ok es1 =>
      rw [h1] at hx
      cases h2 : xItems FT psub rest with
      | error e => rw [h2] at hx; cases hx
      | ok es2 =>
        rw [h2] at hx
        cases hx
        obtain ⟨l1, t1, e1⟩ := xItem_denotes kp hs hg i es1 ha.1 h1
        obtain ⟨l2, t2, e2⟩ := xItems_denotes kp hs hg rest es2 ha.2 h2
        exact ⟨l1 ++ l2, toLs_append FT _ _ _ _ t1 t2, by simp only [expandItems, e1, e2]⟩
end

theorem xComp_denotes {FT : FieldTab} (kp : ∀ kv ∈ FT, kv.2.name = kv.1) {root : List CompXml} {pf pg pc : Str → Bool}
    (hg : ∀ n, pg n = true → ∃ cf, aget n FT = some cf) (hroot : ∀ c ∈ root, itemsAll pf pg pc c.items = true) :
    ∀ k, SubRel FT (xComp FT root k) (expandComp (FT.map (fun kv => lfOf kv.2)) root k)
  | 0 => by intro n es h; simp [xComp] at h
  | k + 1 => by
    intro n es h
    simp only [xComp] at h
    simp only [expandComp]
    cases hf : root.find? (fun c => c.name = n) with
    | none => rw [hf] at h; cases h
    | some c =>
      rw [hf] at h
      simp only [] at h ⊢
      exact xItems_denotes kp (xComp_denotes kp hg hroot k) hg c.items es (hroot c (find_some_mem hf).1) h


/-! ### messages, segment classes, message classes -/

theorem ctxMessages_load {FT : FieldTab} {fenv : List (Str × LField)} (hfe : FenvOk FT fenv) :
    ∀ (ms : List Message) (trees : List (List LEntry)) (s : GState) (genv : List (Str × LGroup)),
      ms.map (fun m => toLs FT m.entries) = trees.map some → GInv fenv s genv →
      ∃ genv', GStep fenv s (ctxMessages s ms).2 genv genv' ∧
        (∀ miss, (ctxMessages s ms).1.map (fun c => resolveRefs fenv genv' miss c.entries) = trees.map .ok) ∧
        (ctxMessages s ms).1.map (fun c => (c.name, c.tag, c.category, c.bodyName)) =
          ms.map (fun m => (m.name, m.tag, m.category, m.name ++ bodySuffix))
  | [], trees, s, genv, ht, inv => by
    cases trees with
    | nil => exact ⟨genv, by simpa [ctxMessages] using GStep.refl inv, fun _ => rfl, rfl⟩
    | cons t ts => simp at ht
  | m :: rest, trees, s, genv, ht, inv => by
    cases trees with
    | nil => simp at ht
    | cons t ts =>
      simp only [List.map_cons, List.cons.injEq] at ht
      obtain ⟨g1, st1, r1⟩ := ctxEntries_load hfe m.entries t s genv ht.1 inv
      obtain ⟨g2, st2, r2, r3⟩ := ctxMessages_load hfe rest ts (ctxEntries s m.entries).2 g1 ht.2 st1.inv
      refine ⟨g2, by simpa [ctxMessages] using st1.trans st2, ?_, ?_⟩
      · intro miss
        obtain ⟨add, eadd, fadd⟩ := st2.ext
        simp only [ctxMessages, List.map_cons]
        rw [r2 miss, eadd, resolveRefs_ext st1.inv.bounded fadd _ _ (r1 miss)]
      · simp only [ctxMessages, List.map_cons, r3]

theorem loadBodies_eq {fenv : List (Str × LField)} {genv : List (Str × LGroup)} :
    ∀ (bs : List BodyCls) (trees : List (List LEntry)) (benv : List (Str × List LEntry)),
      bs.map (fun b => resolveRefs fenv genv .attr b.entries) = trees.map .ok →
      loadBodies fenv genv benv bs = .ok ((List.zip (bs.map (·.name)) trees).reverse ++ benv)
  | [], trees, benv, h => by
    cases trees with
    | nil => rfl
    | cons t ts => simp at h
  | b :: rest, trees, benv, h => by
    cases trees with
    | nil => simp at h
    | cons t ts =>
      simp only [List.map_cons, List.cons.injEq] at h
      simp only [loadBodies, h.1]
      rw [loadBodies_eq rest ts _ h.2]
      simp

def mkLMsg (h t : List LEntry) (info : Str × Str × Str) (tree : List LEntry) : LMsg :=
  ⟨info.1, info.2.1, info.2.2, h, tree, t⟩

theorem loadMessages_eq {fenv : List (Str × LField)} {genv : List (Str × LGroup)} {benv : List (Str × List LEntry)}
    {h t : List LEntry} (hh : aget (lit "Header") benv = some h) (ht : aget (lit "Trailer") benv = some t) :
    ∀ (cs : List MsgCls) (trees : List (List LEntry)),
      cs.map (fun c => resolveRefs fenv genv .attr c.entries) = trees.map .ok →
      (∀ p ∈ List.zip cs trees, aget p.1.bodyName benv = some p.2) →
      loadMessages fenv genv benv cs = .ok (List.zipWith (mkLMsg h t) (cs.map fun c => (c.name, c.tag, c.category)) trees)
  | [], trees, hr, _ => by
    cases trees with
    | nil => rfl
    | cons t ts => simp at hr
  | c :: rest, trees, hr, hb => by
    cases trees with
    | nil => simp at hr
    | cons tr ts =>
      simp only [List.map_cons, List.cons.injEq] at hr
      have hb1 := hb (c, tr) (by simp)
      simp only [loadMessages, hh, ht, hb1, hr.1]
      rw [loadMessages_eq hh ht rest ts hr.2 (fun p hp => hb p (by simp [hp]))]
      rfl

theorem specMessages_eq {fs : List LField} {comps : List CompXml} {h t : List LEntry} :
    ∀ (ms : List MsgXml) (trees : List (List LEntry)), ms.map (fun m => expand fs comps m.items) = trees.map .ok →
      specMessages fs comps h t ms = .ok (List.zipWith (mkLMsg h t) (ms.map fun m => (m.name, m.msgtype, m.msgcat)) trees)
  | [], trees, hr => by
    cases trees with
    | nil => rfl
    | cons t ts => simp at hr
  | m :: rest, trees, hr => by
    cases trees with
    | nil => simp at hr
    | cons tr ts =>
      simp only [List.map_cons, List.cons.injEq] at hr
      simp only [specMessages, hr.1]
      rw [specMessages_eq rest ts hr.2]
      rfl

/-- the parsed messages against the reference semantics -/
theorem xMsgs_denotes {FT : FieldTab} {psub : Str → Except Err (List Entry)} {fs : List LField} {comps : List CompXml}
    :
    ∀ (ms : List MsgXml) (msgs : List Message),
      (∀ m ∈ ms, ∀ es, xItems FT psub m.items = .ok es → ∃ les, toLs FT es = some les ∧ expand fs comps m.items = .ok les) →
      xMsgs FT psub ms = .ok msgs →
      msgs.map (fun m => (m.name, m.tag, m.category)) = ms.map (fun m => (m.name, m.msgtype, m.msgcat)) ∧
      ∃ trees : List (List LEntry), msgs.map (fun m => toLs FT m.entries) = trees.map some ∧ ms.map (fun m => expand fs comps m.items) = trees.map .ok
  | [], msgs, _, hx => by
    simp only [xMsgs] at hx
    cases hx
    exact ⟨rfl, [], rfl, rfl⟩
  | m :: rest, msgs, hden, hx => by
    simp only [xMsgs] at hx
    cases h1 : xItems FT psub m.items with
    | error e => rw [h1] at hx; cases hx
    | ok es =>
      rw [h1] at hx
      cases h2 : xMsgs FT psub rest with
      | error e => rw [h2] at hx; cases hx
      | ok ms2 =>
        rw [h2] at hx
        cases hx
        obtain ⟨les, hl, he⟩ := hden m (by simp) es h1
        obtain ⟨hi, trees, ht1, ht2⟩ := xMsgs_denotes rest ms2 (fun m' hm' => hden m' (by simp [hm'])) h2
        exact ⟨by simp [hi], les :: trees, by simp [hl, ht1], by simp [he, ht2]⟩


/-! ### names of the segment classes -/

theorem bodySuffix_eq : bodySuffix = [66, 111, 100, 121] := by decide
theorem header_eq : lit "Header" = [72, 101, 97, 100, 101, 114] := by decide
theorem trailer_eq : lit "Trailer" = [84, 114, 97, 105, 108, 101, 114] := by decide

theorem body_ne_header (n : Str) : n ++ bodySuffix ≠ lit "Header" := by
  intro e
  have := congrArg List.getLast? e
  rw [bodySuffix_eq, header_eq] at this
  simp [List.getLast?_append] at this

theorem body_ne_trailer (n : Str) : n ++ bodySuffix ≠ lit "Trailer" := by
  intro e
  have := congrArg List.getLast? e
  rw [bodySuffix_eq, trailer_eq] at this
  simp [List.getLast?_append] at this

theorem header_ne_trailer : lit "Header" ≠ lit "Trailer" := by decide

theorem bodyNames_nodup : ∀ (ns : List Str), ns.Nodup → (ns.map (· ++ bodySuffix)).Nodup
  | [], _ => by simp
  | n :: t, h => by
    simp only [List.nodup_cons] at h
    simp only [List.map_cons, List.nodup_cons]
    refine ⟨?_, bodyNames_nodup t h.2⟩
    intro hm
    obtain ⟨m, hm1, hm2⟩ := List.mem_map.mp hm
    have : m = n := List.append_cancel_right hm2
    exact h.1 (this ▸ hm1)

theorem map_resolve_ext {α : Type} {fenv : List (Str × LField)} {genv add : List (Str × LGroup)} {s : GState} {miss miss' : Err}
    (hb : Bounded (keys genv) s) (hf : Fresh s (keys add)) (ent : α → List ERef) :
    ∀ (cs : List α) (trees : List (List LEntry)),
      cs.map (fun c => resolveRefs fenv genv miss (ent c)) = trees.map .ok →
      cs.map (fun c => resolveRefs fenv (add ++ genv) miss' (ent c)) = trees.map .ok
  | [], trees, h => by simpa using h
  | c :: rest, trees, h => by
    cases trees with
    | nil => simp at h
    | cons t ts =>
      simp only [List.map_cons, List.cons.injEq] at h ⊢
      exact ⟨resolveRefs_ext hb hf _ _ h.1, map_resolve_ext hb hf ent rest ts h.2⟩


/-! ### generate, then import -/

@[reducible] def msgInfo (m : Message) : Str × Str × Str := (m.name, m.tag, m.category)

/-- what importing the package generated from parsed definitions yields -/
def loadedOf (FT : FieldTab) (sess : SessionCls) (defs : Defs) (h t : List LEntry) (trees : List (List LEntry)) : Loaded :=
  { session := sess, fields := FT.map (fun kv => lfOf kv.2), header := h, trailer := t,
    messages := List.zipWith (mkLMsg h t) (defs.messages.map msgInfo) trees }

/-- the module `codegen` produces when the version has a session class -/
def moduleOf (sess : SessionCls) (defs : Defs) : Module :=
  let rm := ctxMessages {} defs.messages
  let rh := ctxEntries rm.2 defs.header
  let rt := ctxEntries rh.2 defs.trailer
  { session := sess,
    fields := defs.fields.map fun kv => (⟨kv.2.name, kv.2.tag, kv.2.type, valuesCtx kv.2⟩ : FieldCls),
    groups := rt.2.contexts,
    bodies := ⟨lit "Header", rh.1⟩ :: ⟨lit "Trailer", rt.1⟩ :: rm.1.map (fun m => ⟨m.bodyName, m.entries⟩),
    messages := rm.1 }

theorem codegen_eq {defs : Defs} {sess : SessionCls} (hs : clientSession defs.version = .ok sess) :
    codegen defs = .ok (moduleOf sess defs) := by
  simp only [codegen, codegenFrom, hs, moduleOf]

theorem codegen_load {FT : FieldTab} (hft : FTOk FT) {defs : Defs} (hfields : defs.fields = FT) {sess : SessionCls}
    {htree ttree : List LEntry} {trees : List (List LEntry)}
    (hh : toLs FT defs.header = some htree) (ht : toLs FT defs.trailer = some ttree)
    (hm : defs.messages.map (fun m => toLs FT m.entries) = trees.map some)
    (hnames : (defs.messages.map (·.name)).Nodup) :
    load (moduleOf sess defs) = .ok (loadedOf FT sess defs htree ttree trees) ∧
      ((moduleOf sess defs).groups.map (·.uname)).Nodup := by
  have hfe := fenvOf_ok hft
  have inv0 : GInv (fenvOf FT) {} [] := ⟨rfl, by intro u hu; simp at hu, by simp⟩
  obtain ⟨gm, stm, rm, im⟩ := ctxMessages_load hfe defs.messages trees {} [] hm inv0
  obtain ⟨gh, sth, rh⟩ := ctxEntries_load hfe defs.header htree _ gm hh stm.inv
  obtain ⟨gt, stt, rt⟩ := ctxEntries_load hfe defs.trailer ttree _ gh ht sth.inv
  obtain ⟨addt, eaddt, faddt⟩ := stt.ext
  obtain ⟨addht, eaddht, faddht⟩ := (sth.trans stt).ext
  refine ⟨?_, ?_⟩
  case refine_2 =>
    have hk := loadGroups_keys stt.inv.loaded
    simp only [keys_nil, List.append_nil] at hk
    have hn := stt.inv.nodup
    rw [hk] at hn
    exact (List.pairwise_reverse.mp hn).imp (fun h => Ne.symm h)
  -- fields module
  have e1 : (defs.fields.map fun kv => (⟨kv.2.name, kv.2.tag, kv.2.type, valuesCtx kv.2⟩ : FieldCls)) = FT.map clsOf := by
    rw [hfields]; rfl
  simp only [load, moduleOf, e1, loadFields_FT hft, stt.inv.loaded]
  -- bodies module
  have r1 : resolveRefs (fenvOf FT) gt .attr (ctxEntries (ctxMessages {} defs.messages).2 defs.header).1 = .ok htree := by
    rw [eaddt]; exact resolveRefs_ext sth.inv.bounded faddt _ _ (rh .attr)
  have r2 := rt .attr
  have r3 : (ctxMessages {} defs.messages).1.map (fun c => resolveRefs (fenvOf FT) gt .attr c.entries) = trees.map .ok := by
    rw [eaddht]; exact map_resolve_ext stm.inv.bounded faddht (fun c : MsgCls => c.entries) _ trees (rm .attr)
  generalize (ctxEntries (ctxMessages {} defs.messages).2 defs.header).1 = hE at r1 ⊢
  generalize (ctxEntries (ctxEntries (ctxMessages {} defs.messages).2 defs.header).2 defs.trailer).1 = tE at r2 ⊢
  generalize (ctxMessages {} defs.messages).1 = cs at r3 im rm ⊢
  have hb : ((⟨lit "Header", hE⟩ : BodyCls) :: ⟨lit "Trailer", tE⟩ ::
      cs.map (fun m => ⟨m.bodyName, m.entries⟩)).map (fun b => resolveRefs (fenvOf FT) gt .attr b.entries)
      = (htree :: ttree :: trees).map .ok := by
    simp only [List.map_cons, List.map_map, Function.comp_def, r1, r2]
    rw [r3]
  rw [loadBodies_eq _ _ _ hb]
  -- lookups in the bodies namespace
  have hlen : cs.length = trees.length := by
    have := congrArg List.length (rm .attr)
    simpa using this
  have hbn : cs.map (·.bodyName) = defs.messages.map (fun m => m.name ++ bodySuffix) := by
    have := congrArg (List.map (fun q : Str × Str × Str × Str => q.2.2.2)) im
    simpa [List.map_map, Function.comp_def] using this
  let L := List.zip (lit "Header" :: lit "Trailer" :: cs.map (·.bodyName)) (htree :: ttree :: trees)
  have hkeys : keys L = lit "Header" :: lit "Trailer" :: cs.map (·.bodyName) := by
    simp only [L, keys, List.zip_cons_cons, List.map_cons]
    congr 2
    rw [← List.unzip_fst, List.unzip_zip]
    simp [hlen]
  have hnd : (keys L).Nodup := by
    rw [hkeys, hbn]
    have hbody := bodyNames_nodup _ hnames
    simp only [List.map_map, Function.comp_def] at hbody
    simp only [List.nodup_cons, List.mem_cons, List.mem_map, not_or, not_exists, not_and]
    refine ⟨⟨header_ne_trailer, fun m _ e => body_ne_header _ e⟩, fun m _ e => body_ne_trailer _ e, ?_⟩
    simpa [List.map_map, Function.comp_def] using bodyNames_nodup _ hnames
  have hbenv : (List.zip (List.map (·.name) ((⟨lit "Header", hE⟩ : BodyCls) :: ⟨lit "Trailer", tE⟩ ::
      cs.map (fun m => ⟨m.bodyName, m.entries⟩))) (htree :: ttree :: trees)).reverse ++ [] = L.reverse := by
    simp [L, List.map_map, Function.comp_def]
  rw [hbenv]
  have gH : aget (lit "Header") L.reverse = some htree := by
    rw [aget_reverse _ _ hnd]; simp [L, aget]
  have gT : aget (lit "Trailer") L.reverse = some ttree := by
    rw [aget_reverse _ _ hnd]
    have : ¬ (lit "Header" = lit "Trailer") := header_ne_trailer
    simp [L, aget, this]
  have gB : ∀ p ∈ List.zip cs trees, aget p.1.bodyName L.reverse = some p.2 := by
    intro p hp
    rw [aget_reverse _ _ hnd]
    apply aget_of_mem_nodup hnd
    simp only [L, List.zip_cons_cons, List.mem_cons]
    right; right
    have : (p.1.bodyName, p.2) ∈ List.zip (cs.map (·.bodyName)) trees := by
      rw [show trees = trees.map id by simp, List.zip_map]
      exact List.mem_map.mpr ⟨p, hp, rfl⟩
    exact this
  dsimp only
  rw [loadMessages_eq gH gT cs trees r3 gB]
  simp only [gH, gT]
  have hinfo : cs.map (fun c => (c.name, c.tag, c.category)) = defs.messages.map msgInfo := by
    have := congrArg (List.map (fun q : Str × Str × Str × Str => (q.1, q.2.1, q.2.2.1))) im
    simpa [List.map_map, Function.comp_def] using this
  rw [hinfo, fenvOf_fields]
  rfl


/-! ### the fields of a valid dictionary -/

theorem field_facts {types : TypeTable} {f : FieldXml} (h : wfFieldXmlE types f = true) :
    ∃ ty t, aget f.type types = some ty ∧ parseIntStr f.number = .ok t ∧
      lfOf (mkDef types f).2 = ⟨f.name, t, ty, specValues ty f.values⟩ ∧
      loadField (clsOf (mkDef types f)) = .ok (lfOf (mkDef types f).2) := by
  simp only [wfFieldXmlE, Bool.and_eq_true] at h
  obtain ⟨⟨⟨_, hnum⟩, _⟩, hty⟩ := h
  cases hg : aget f.type types with
  | none => rw [hg] at hty; cases hty
  | some ty =>
    rw [hg] at hty
    simp only [Bool.and_eq_true, List.all_eq_true, nodupB_iff] at hty
    obtain ⟨⟨hen, hnd⟩, _⟩ := hty
    cases hp : parseIntStr f.number with
    | error e => rw [hp] at hnum; cases hnum
    | ok t =>
      have hvals : valuesCtx (mkDef types f).2 = specValues ty f.values := by
        simp only [valuesCtx, mkDef, hg, Option.getD_some, valuesDict_eq f.values hnd, specValues, List.map_map, Function.comp_def]
      have hlf : lfOf (mkDef types f).2 = ⟨f.name, t, ty, specValues ty f.values⟩ := by
        have hv' := hvals
        simp only [mkDef, hg, Option.getD_some] at hv'
        simp only [lfOf, tagOf, mkDef, hp, hg, Option.getD_some, hv']
      refine ⟨ty, t, rfl, rfl, hlf, ?_⟩
      have hall : ((clsOf (mkDef types f)).values.all fun v => isIdent v.attr && (v.quoted || (parseIntStr v.key).toBool)) = true := by
        show ((valuesCtx (mkDef types f).2).all _) = true
        rw [hvals]
        simp only [specValues, List.all_map, List.all_eq_true, Function.comp_def]
        intro v hv
        have := hen v hv
        simp only [wfEnumE, Bool.and_eq_true] at this
        obtain ⟨⟨hid, _⟩, hk⟩ := this
        simp only [hid, Bool.true_and]
        cases hq : (ty.kind == PyKind.str || ty.kind == PyKind.bool) with
        | true => rfl
        | false =>
          rw [hq] at hk
          simp only [Bool.false_eq_true, if_false, Bool.and_eq_true] at hk
          simp only [Bool.false_or]
          exact hk.1
      rw [hlf]
      simp only [loadField, hall, Bool.not_true]
      show (match parseIntStr f.number with
        | Except.error e => Except.error e
        | Except.ok t => Except.ok (⟨f.name, t, (aget f.type types).getD TyCls.FixString, valuesCtx (mkDef types f).2⟩ : LField)) = _
      rw [hp, hg, hvals]
      rfl

theorem specFields_eq {types : TypeTable} : ∀ (fxs : List FieldXml), (∀ f ∈ fxs, wfFieldXmlE types f = true) →
    specFields types fxs = .ok (fxs.map (fun f => lfOf (mkDef types f).2))
  | [], _ => rfl
  | f :: rest, h => by
    obtain ⟨ty, t, h1, h2, h3, _⟩ := field_facts (h f (by simp))
    simp only [specFields, specField, h1, h2, List.map_cons, h3]
    rw [specFields_eq rest (fun g hg => h g (by simp [hg]))]

theorem fieldTab_ok {d : Dict} {types : TypeTable} (w : WF d types) : FTOk (fieldTab d types) := by
  refine ⟨?_, ?_, ?_⟩
  · intro kv hkv
    obtain ⟨f, _, rfl⟩ := List.mem_map.mp hkv
    rfl
  · rw [fieldTab, keys_map_mkDef]; exact w.fnames
  · intro kv hkv
    obtain ⟨f, hf, rfl⟩ := List.mem_map.mp hkv
    obtain ⟨_, _, _, _, _, h⟩ := field_facts (w.fieldsOk f hf)
    exact h


/-! ### assembly: generate + import = reference semantics -/

theorem itemsAll_append (pf pg pc : Str → Bool) : ∀ (a b : List Item),
    itemsAll pf pg pc (a ++ b) = (itemsAll pf pg pc a && itemsAll pf pg pc b)
  | [], b => by simp [itemsAll]
  | i :: rest, b => by
    simp only [List.cons_append, itemsAll, itemsAll_append pf pg pc rest b, Bool.and_assoc]

theorem itemsAll_flatMap (pf pg pc : Str → Bool) (f : Section → List Item) (ss : List Section)
    (h : ∀ s ∈ ss, itemsAll pf pg pc (f s) = true) : itemsAll pf pg pc (ss.flatMap f) = true := by
  induction ss with
  | nil => simp [itemsAll]
  | cons s rest ih =>
    simp only [List.flatMap_cons, itemsAll_append, Bool.and_eq_true]
    exact ⟨h s (by simp), ih (fun s' hs' => h s' (by simp [hs']))⟩

theorem genLoad_denote {d : Dict} {types : TypeTable} (w : WF d types) (hv : supportedVersion d.version = true) :
    ∃ m L, gen d = .ok m ∧ load m = .ok L ∧ denote d = .ok L ∧ (m.groups.map (·.uname)).Nodup := by
  obtain ⟨defs, hparse, P⟩ := parse_ok w
  have hft := fieldTab_ok w
  have kp := hft.kp
  let fxs := d.sections.flatMap fieldsOf
  let pf := fun n => (fxs.map (·.name)).contains n
  let pg := fun n => isCountField types fxs n
  let pc := fun n => ((allComps d).map (·.name)).contains n
  have hg : ∀ n, pg n = true → ∃ cf, aget n (fieldTab d types) = some cf := by
    intro n hn
    simp only [pg, isCountField] at hn
    cases hfnd : fxs.find? (fun f => f.name = n) with
    | none => rw [hfnd] at hn; cases hn
    | some f =>
      have hm := find_some_mem hfnd
      apply aget_isSome_of_mem
      rw [fieldTab, keys_map_mkDef]
      have : f.name = n := by simpa using hm.2
      exact this ▸ List.mem_map_of_mem hm.1
  have hroot : ∀ c ∈ allComps d, itemsAll pf pg pc c.items = true := by
    intro c hc
    apply w.refs
    simp only [allComps, List.mem_flatMap] at hc ⊢
    obtain ⟨s, hs, hcs⟩ := hc
    refine ⟨s, hs, ?_⟩
    cases s <;> simp_all [compsOf, containersOf]
    exact ⟨c, hcs, rfl⟩
  have srel := xComp_denotes kp hg hroot (allComps d).length
  have hsecH : itemsAll pf pg pc (d.sections.flatMap headerOf) = true :=
    itemsAll_flatMap pf pg pc headerOf d.sections (fun s hs => by
      cases s with
      | header is => exact w.refs is (List.mem_flatMap.mpr ⟨_, hs, by simp [containersOf]⟩)
      | _ => simp [headerOf, itemsAll])
  have hsecT : itemsAll pf pg pc (d.sections.flatMap trailerOf) = true :=
    itemsAll_flatMap pf pg pc trailerOf d.sections (fun s hs => by
      cases s with
      | trailer is => exact w.refs is (List.mem_flatMap.mpr ⟨_, hs, by simp [containersOf]⟩)
      | _ => simp [trailerOf, itemsAll])
  obtain ⟨htree, hh, heh⟩ := xItems_denotes kp srel hg _ _ hsecH P.hdr
  obtain ⟨ttree, ht, het⟩ := xItems_denotes kp srel hg _ _ hsecT P.trl
  obtain ⟨hinfo, trees, ht1, ht2⟩ := xMsgs_denotes (fs := (fieldTab d types).map (fun kv => lfOf kv.2)) (comps := allComps d)
    (d.sections.flatMap messagesOf) defs.messages
    (fun m hm es hx => by
      obtain ⟨s, hs, hms⟩ := List.mem_flatMap.mp hm
      have hin : m.items ∈ d.sections.flatMap containersOf := by
        refine List.mem_flatMap.mpr ⟨s, hs, ?_⟩
        cases s <;> simp_all [messagesOf, containersOf]
        exact ⟨m, hms, rfl⟩
      exact xItems_denotes kp srel hg m.items es (w.refs m.items hin) hx) P.msgs
  have hnames : (defs.messages.map (·.name)).Nodup := by
    have := congrArg (List.map (fun q : Str × Str × Str => q.1)) hinfo
    simp only [List.map_map, Function.comp_def] at this
    rw [this]
    exact w.mnames
  obtain ⟨sess, hsess, hspec⟩ : ∃ sess, clientSession d.version = .ok sess ∧ specSession d.version = .ok sess := by
    cases hver : d.version <;> simp_all [supportedVersion, clientSession, specSession]
  have hcg := codegen_eq (defs := defs) (sess := sess) (by rw [P.ver]; exact hsess)
  obtain ⟨hload, hnodup⟩ := codegen_load hft P.fields (sess := sess) hh ht ht1 hnames
  refine ⟨moduleOf sess defs, _, by simp only [gen, hparse, hcg], hload, ?_, hnodup⟩
  have hsf := specFields_eq (types := types) (d.sections.flatMap fieldsOf) w.fieldsOk
  have hfs : (d.sections.flatMap fieldsOf).map (fun f => lfOf (mkDef types f).2) = (fieldTab d types).map (fun kv => lfOf kv.2) := by
    simp [fieldTab, List.map_map, Function.comp_def]
  rw [hfs] at hsf
  simp only [denote, w.htypes, hspec, hsf]
  have e1 : expand ((fieldTab d types).map fun kv => lfOf kv.2) (allComps d) (d.sections.flatMap headerOf) = .ok htree := heh
  have e2 : expand ((fieldTab d types).map fun kv => lfOf kv.2) (allComps d) (d.sections.flatMap trailerOf) = .ok ttree := het
  simp only [e1, e2, specMessages_eq _ _ ht2]
  simp only [loadedOf]
  have : defs.messages.map msgInfo = (d.sections.flatMap messagesOf).map (fun m => (m.name, m.msgtype, m.msgcat)) := hinfo
  rw [this]


/-! ### a package that imports is well scoped -/

theorem resolveRefs_refs {fenv : List (Str × LField)} {genv : List (Str × LGroup)} {miss : Err} :
    ∀ (rs : List ERef) (les : List LEntry), resolveRefs fenv genv miss rs = .ok les →
      (∀ u ∈ groupRefs rs, u ∈ keys genv) ∧ (∀ n ∈ fieldRefs rs, n ∈ keys fenv)
  | [], _, _ => by simp [groupRefs, fieldRefs]
  | r :: rest, les, h => by
    simp only [resolveRefs] at h
    cases h1 : resolveRef fenv genv miss r with
    | error e => rw [h1] at h; cases h
    | ok le =>
      rw [h1] at h
      cases h2 : resolveRefs fenv genv miss rest with
      | error e => rw [h2] at h; cases h
      | ok les2 =>
        obtain ⟨ihg, ihf⟩ := resolveRefs_refs rest les2 h2
        cases r with
        | field fd rq =>
          simp only [resolveRef] at h1
          cases hf : aget fd.name fenv with
          | none => rw [hf] at h1; cases h1
          | some lf =>
            refine ⟨by simpa [groupRefs] using ihg, ?_⟩
            intro n hn
            simp only [fieldRefs, List.filterMap_cons, List.mem_cons] at hn
            rcases hn with rfl | hn
            · exact mem_keys_of_aget hf
            · exact ihf n hn
        | group nm u rq =>
          simp only [resolveRef] at h1
          cases hg : aget u genv with
          | none => rw [hg] at h1; cases h1
          | some g =>
            refine ⟨?_, by simpa [fieldRefs] using ihf⟩
            intro v hv
            simp only [groupRefs, List.filterMap_cons, List.mem_cons] at hv
            rcases hv with rfl | hv
            · exact mem_keys_of_aget hg
            · exact ihg v hv

theorem loadGroups_scoped {fenv : List (Str × LField)} : ∀ (cs : List GroupCtx) (genv genv' : List (Str × LGroup)),
    loadGroups fenv genv cs = .ok genv' →
      scopedGroups (keys genv) cs = true ∧ ∀ g ∈ cs, g.name ∈ keys fenv ∧ ∀ n ∈ fieldRefs g.entries, n ∈ keys fenv
  | [], _, _, _ => by simp [scopedGroups]
  | g :: rest, genv, genv', h => by
    simp only [loadGroups] at h
    cases h1 : resolveRefs fenv genv .other g.entries with
    | error e => rw [h1] at h; cases h
    | ok les =>
      rw [h1] at h
      cases h2 : aget g.name fenv with
      | none => rw [h2] at h; cases h
      | some cf =>
        rw [h2] at h
        obtain ⟨hg, hf⟩ := resolveRefs_refs _ _ h1
        obtain ⟨ih1, ih2⟩ := loadGroups_scoped rest _ _ h
        refine ⟨?_, ?_⟩
        · simp only [scopedGroups, Bool.and_eq_true, List.all_eq_true]
          refine ⟨fun u hu => by simpa using hg u hu, ?_⟩
          simpa using ih1
        · intro g' hg'
          simp only [List.mem_cons] at hg'
          rcases hg' with rfl | hg'
          · exact ⟨mem_keys_of_aget h2, hf⟩
          · exact ih2 g' hg'

theorem loadBodies_refs {fenv : List (Str × LField)} {genv : List (Str × LGroup)} :
    ∀ (bs : List BodyCls) (benv benv' : List (Str × List LEntry)), loadBodies fenv genv benv bs = .ok benv' →
      ∀ b ∈ bs, (∀ u ∈ groupRefs b.entries, u ∈ keys genv) ∧ (∀ n ∈ fieldRefs b.entries, n ∈ keys fenv)
  | [], _, _, _ => by simp
  | b :: rest, benv, benv', h => by
    simp only [loadBodies] at h
    cases h1 : resolveRefs fenv genv .attr b.entries with
    | error e => rw [h1] at h; cases h
    | ok les =>
      rw [h1] at h
      intro b' hb'
      simp only [List.mem_cons] at hb'
      rcases hb' with rfl | hb'
      · exact resolveRefs_refs _ _ h1
      · exact loadBodies_refs rest _ _ h b' hb'

theorem loadMessages_refs {fenv : List (Str × LField)} {genv : List (Str × LGroup)} {benv : List (Str × List LEntry)} :
    ∀ (cs : List MsgCls) (ms : List LMsg), loadMessages fenv genv benv cs = .ok ms →
      ∀ c ∈ cs, ∀ u ∈ groupRefs c.entries, u ∈ keys genv
  | [], _, _ => by simp
  | c :: rest, ms, h => by
    simp only [loadMessages] at h
    split at h
    · rename_i hd bd tl _ _ _
      cases h1 : resolveRefs fenv genv .attr c.entries with
      | error e => rw [h1] at h; cases h
      | ok les =>
        rw [h1] at h
        cases h2 : loadMessages fenv genv benv rest with
        | error e => rw [h2] at h; cases h
        | ok ms2 =>
          intro c' hc'
          simp only [List.mem_cons] at hc'
          rcases hc' with rfl | hc'
          · exact (resolveRefs_refs _ _ h1).1
          · exact loadMessages_refs rest ms2 h2 c' hc'
    · cases h

theorem loadFields_keys : ∀ (fs : List FieldCls) (env env' : List (Str × LField)), loadFields env fs = .ok env' →
    keys env' = (fs.map (·.name)).reverse ++ keys env
  | [], env, env', h => by
    simp only [loadFields] at h
    cases h
    simp
  | f :: rest, env, env', h => by
    simp only [loadFields] at h
    cases h1 : loadField f with
    | error e => rw [h1] at h; cases h
    | ok lf =>
      rw [h1] at h
      rw [loadFields_keys rest _ _ h]
      simp

theorem load_wellScoped {m : Module} {L : Loaded} (h : load m = .ok L) (hn : (m.groups.map (·.uname)).Nodup) :
    wellScoped m = true := by
  simp only [load] at h
  cases h1 : loadFields [] m.fields with
  | error e => rw [h1] at h; cases h
  | ok fenv =>
    rw [h1] at h
    dsimp only at h
    cases h2 : loadGroups fenv [] m.groups with
    | error e => rw [h2] at h; cases h
    | ok genv =>
      rw [h2] at h
      dsimp only at h
      cases h3 : loadBodies fenv genv [] m.bodies with
      | error e => rw [h3] at h; cases h
      | ok benv =>
        rw [h3] at h
        dsimp only at h
        cases h4 : loadMessages fenv genv benv m.messages with
        | error e => rw [h4] at h; cases h
        | ok msgs =>
          have kf := loadFields_keys _ _ _ h1
          have kg := loadGroups_keys h2
          simp only [keys_nil, List.append_nil] at kf kg
          obtain ⟨s1, s2⟩ := loadGroups_scoped _ _ _ h2
          have s3 := loadBodies_refs _ _ _ h3
          have s4 := loadMessages_refs _ _ h4
          have memf : ∀ n, n ∈ keys fenv → (m.fields.map (·.name)).contains n = true := by
            intro n hn'; rw [kf] at hn'; simpa using hn'
          have memg : ∀ u, u ∈ keys genv → (m.groups.map (·.uname)).contains u = true := by
            intro u hu; rw [kg] at hu; simpa using hu
          simp only [wellScoped, Bool.and_eq_true, List.all_eq_true, nodupB_iff]
          refine ⟨⟨⟨⟨by simpa using s1, hn⟩, ?_⟩, ?_⟩, ?_⟩
          · intro g hg
            exact ⟨memf _ (s2 g hg).1, fun n hn' => memf n ((s2 g hg).2 n hn')⟩
          · intro b hb
            exact ⟨fun u hu => memg u ((s3 b hb).1 u hu), fun n hn' => memf n ((s3 b hb).2 n hn')⟩
          · intro c hc u hu
            exact memg u (s4 c hc u hu)


/-! ### inversion of the reference semantics; version bookkeeping -/

theorem denote_inv {d : Dict} {L : Loaded} (h : denote d = .ok L) :
    ∃ types, supportedTypes d.version = .ok types ∧ specSession d.version = .ok L.session ∧
      specFields types (d.sections.flatMap fieldsOf) = .ok L.fields ∧
      expand L.fields (allComps d) (d.sections.flatMap headerOf) = .ok L.header ∧
      expand L.fields (allComps d) (d.sections.flatMap trailerOf) = .ok L.trailer ∧
      specMessages L.fields (allComps d) L.header L.trailer (d.sections.flatMap messagesOf) = .ok L.messages := by
  simp only [denote] at h
  cases h1 : supportedTypes d.version with
  | error e => rw [h1] at h; cases h
  | ok types =>
    cases h2 : specSession d.version with
    | error e => rw [h1, h2] at h; cases h
    | ok sess =>
      rw [h1, h2] at h
      dsimp only at h
      cases h3 : specFields types (d.sections.flatMap fieldsOf) with
      | error e => rw [h3] at h; cases h
      | ok fs =>
        rw [h3] at h
        dsimp only at h
        cases h4 : expand fs (allComps d) (d.sections.flatMap headerOf) with
        | error e => rw [h4] at h; cases h
        | ok hd =>
          cases h5 : expand fs (allComps d) (d.sections.flatMap trailerOf) with
          | error e => rw [h4, h5] at h; cases h
          | ok tl =>
            rw [h4, h5] at h
            dsimp only at h
            cases h6 : specMessages fs (allComps d) hd tl (d.sections.flatMap messagesOf) with
            | error e => rw [h6] at h; cases h
            | ok ms =>
              rw [h6] at h
              cases h
              exact ⟨types, rfl, rfl, h3, h4, h5, h6⟩

theorem handleSection_version {types : TypeTable} {root : List CompXml} {fuel : Nat} {defs defs' : Defs} {s : Section}
    (h : handleSection types root fuel defs s = .ok defs') : defs'.version = defs.version := by
  cases s <;> simp only [handleSection] at h <;> split at h <;> cases h <;> rfl

theorem handleSections_version {types : TypeTable} {root : List CompXml} {fuel : Nat} :
    ∀ (ss : List Section) (defs defs' : Defs), handleSections types root fuel defs ss = .ok defs' → defs'.version = defs.version
  | [], defs, defs', h => by simp only [handleSections] at h; cases h; rfl
  | s :: rest, defs, defs', h => by
    simp only [handleSections] at h
    cases h1 : handleSection types root fuel defs s with
    | error e => rw [h1] at h; cases h
    | ok d1 =>
      rw [h1] at h
      rw [handleSections_version rest d1 defs' h, handleSection_version h1]

theorem parse_version {d : Dict} {defs : Defs} (h : parse d = .ok defs) : defs.version = d.version := by
  simp only [parse] at h
  cases h1 : supportedTypes d.version with
  | error e => rw [h1] at h; cases h
  | ok types =>
    rw [h1] at h
    exact handleSections_version _ _ _ h

/-- whatever the dictionary: nothing is generated unless the version has a session class -/
theorem gen_ok_version {d : Dict} {m : Module} (h : gen d = .ok m) : ∃ sess, clientSession d.version = .ok sess := by
  simp only [gen] at h
  cases h1 : parse d with
  | error e => rw [h1] at h; cases h
  | ok defs =>
    rw [h1] at h
    dsimp only at h
    simp only [codegen, codegenFrom] at h
    rw [parse_version h1] at h
    cases h2 : clientSession d.version with
    | error e => rw [h2] at h; cases h
    | ok sess => exact ⟨sess, rfl⟩


end NasdaqModel.GenFix
