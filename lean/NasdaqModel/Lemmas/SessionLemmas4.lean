import NasdaqModel.Lemmas.SessionLemmas3
/-
Part D of the session-machine invariants: who is alive, who waits for whom, and how far the close body has come
(C05 completion / deadlock freedom, C06 nothing left running).
-/
namespace NasdaqModel.Sess

/-- which programs a task may be in -/
def allowed (t : Tid) (p : Prog) : Bool :=
  match t, p with
  | .R, .readerLoop => true | .R, .inClose => true
  | .D, .dispLoop => true | .D, .handler _ _ => true | .D, .inClose => true
  | .L, .monStart => true | .L, .monLoop => true
  | .M, .monStart => true | .M, .monLoop => true | .M, .inClose => true
  | .C, .closeEntry .closingTail => true | .C, .inClose => true
  | .V, .vget => true
  | .U _, .inClose => true | .U u, .recvWait u' => u == u' | .U u, .loginWait u' => u == u' | .U _, .idle => true
  | _, _ => false

/-- the stage of the close body that stops task `x` -/
def stageOf : Tid → Option Nat
  | .D => some 0 | .V => some 1 | .L => some 2 | .M => some 3 | .R => some 4
  | _ => none

theorem stageOf_inj {x y : Tid} {j : Nat} (hx : stageOf x = some j) (hy : stageOf y = some j) : x = y := by
  cases x <;> cases y <;> simp_all [stageOf] <;> omega

theorem stageOf_user (u : Nat) (j : Nat) : stageOf (.U u) ≠ some j := by simp [stageOf]
theorem stageOf_C (j : Nat) : stageOf .C ≠ some j := by simp [stageOf]
theorem stageOf_lt {x : Tid} {j : Nat} (h : stageOf x = some j) : j ≤ 4 := by
  cases x <;> simp [stageOf] at h <;> omega

/-- which task may carry which continuation -/
def contOk (t : Tid) : Cont → Prop
  | .readerTail => t = .R
  | .handlerTail _ => t = .D
  | .monitorTail => t = .M
  | .closingTail => t = .C
  | .userTail u _ => t = .U u

theorem contOk_allowed {t : Tid} {c : Cont} (h : contOk t c) : allowed t .inClose = true := by
  cases c <;> simp [contOk] at h <;> subst h <;> rfl

/-- stop target `x` needs no more stopping by closer `t`: it is the closer itself, it has ended, or — the reader only —
    it stopped itself (`close()` returned to it while another task was closing) and is about to leave its loop -/
def okDone (s : St) (t x : Tid) : Prop :=
  x = t ∨ alive (s.status x) = false ∨ (x = .R ∧ s.status .R = .ready)

/-- the closer, if the close body or callback is in progress -/
def isCloser (s : St) (t : Tid) : Prop := (∃ pc c, s.cstage = .body t pc c) ∨ (∃ k c, s.cstage = .cb t k c)

structure InvB (s : St) : Prop where
  /-- a live task runs one of its own programs -/
  typ : ∀ t, alive (s.status t) = true → allowed t (s.prog t) = true
  /-- only the dispatcher and the receive helper ever wait on the queue -/
  waitq : ∀ t, s.status t = .waitQ → t = .D ∨ t = .V
  /-- a task waits for another task only as the closer or as a user call for the receive helper -/
  waitt : ∀ t y, s.status t = .waitT y → (∃ pc c, s.cstage = .body t pc c) ∨ (∃ u, t = .U u ∧ y = .V)
  /-- nobody cancels the closing task -/
  ccan : s.status .C ≠ .cancelled
  /-- close body in progress: the closer is alive and not in `queue.get()` -/
  bst : ∀ t pc c, s.cstage = .body t pc c →
    s.prog t = .inClose ∧ 1 ≤ pc ∧ pc ≤ 5 ∧ alive (s.status t) = true ∧ s.status t ≠ .waitQ ∧ contOk t c
  /-- the closer awaits the cancelled target of the previous stage -/
  bwait : ∀ t pc c x, s.cstage = .body t pc c → s.status t = .waitT x →
    stageOf x = some (pc - 1) ∧ s.status x = .cancelled
  /-- earlier targets need no more stopping; neither does the previous one once the closer is runnable again -/
  bdone : ∀ t pc c x j, s.cstage = .body t pc c → stageOf x = some j →
    (j + 1 < pc ∨ (j + 1 = pc ∧ ∀ y, s.status t ≠ .waitT y)) → okDone s t x
  /-- inside the close callback: the closer is runnable; no stop target needs stopping any more -/
  cb : ∀ t k c, s.cstage = .cb t k c →
    s.prog t = .inClose ∧ (s.status t = .ready ∨ s.status t = .cancelled) ∧ contOk t c ∧
    (∀ x j, stageOf x = some j → okDone s t x)
  /-- a stopped reader is the closer, has ended, or is about to leave its loop -/
  rs : s.rStopped = true → isCloser s .R ∨ alive (s.status .R) = false ∨ s.status .R = .ready
  /-- close complete: monitors and receive helper have ended; dispatcher / reader have ended or are runnable and about to end -/
  fin : (s.cstage = .finished ∨ s.cstage = .aborted) →
    alive (s.status .L) = false ∧ alive (s.status .M) = false ∧ alive (s.status .V) = false ∧
    (alive (s.status .D) = false ∨ s.status .D = .ready) ∧
    (alive (s.status .R) = false ∨ s.status .R = .ready)

/-- the part of the state `InvB` reads -/
def bcore (s : St) : (Tid → Status) × (Tid → Prog) × CStage × Bool := (s.status, s.prog, s.cstage, s.rStopped)

theorem InvB.of_bcore {s s' : St} (h : bcore s' = bcore s) (i : InvB s) : InvB s' := by
  simp only [bcore, Prod.mk.injEq] at h
  obtain ⟨h1, h2, h3, h4⟩ := h
  obtain ⟨typ, waitq, waitt, ccan, bst, bwait, bdone, cb, rs, fin⟩ := i
  refine ⟨?_, ?_, ?_, ?_, ?_, ?_, ?_, ?_, ?_, ?_⟩
  · rw [h1, h2]; exact typ
  · rw [h1]; exact waitq
  · rw [h1, h3]; exact waitt
  · rw [h1]; exact ccan
  · rw [h1, h2, h3]; exact bst
  · rw [h1, h3]; exact bwait
  · unfold okDone; rw [h1, h3]; exact bdone
  · unfold okDone; rw [h1, h2, h3]; exact cb
  · unfold isCloser; rw [h1, h3, h4]; exact rs
  · rw [h1, h3]; exact fin

macro "ib" i:ident : tactic => `(tactic| first | exact $i | (refine InvB.of_bcore ?_ $i; rfl))

theorem InvB.emit {s : St} {o : Obs} (i : InvB s) : InvB (s.emit o) := InvB.of_bcore (s := s) rfl i

theorem not_closer_of_prog {s : St} (i : InvB s) {t : Tid} (h : s.prog t ≠ .inClose) : ¬ isCloser s t := by
  rintro (⟨pc, c, hb⟩ | ⟨k, c, hc⟩)
  · exact h (i.bst t pc c hb).1
  · exact h (i.cb t k c hc).1

theorem finish_status (s : St) (t x : Tid) :
    (s.finish t).status x = if x = t then .done else if s.status x = .waitT t then .ready else s.status x := rfl

theorem dead_finish {s : St} {x : Tid} (t : Tid) (h : alive (s.status x) = false) :
    alive ((s.finish t).status x) = false := by
  rw [finish_status]
  by_cases hxt : x = t
  · simp [hxt, alive]
  · have : s.status x ≠ .waitT t := by intro e; rw [e] at h; simp [alive] at h
    simp only [hxt, this, if_false]; exact h

theorem ready_finish {s : St} {x : Tid} (t : Tid) (h : s.status x = .ready) :
    alive ((s.finish t).status x) = false ∨ (s.finish t).status x = .ready := by
  rw [finish_status]
  by_cases hxt : x = t
  · left; simp [hxt, alive]
  · right; simp [hxt, h]

theorem okDone_finish {s : St} {t' x : Tid} (t : Tid) (h : okDone s t' x) : okDone (s.finish t) t' x := by
  rcases h with h | h | ⟨h1, h2⟩
  · exact Or.inl h
  · exact Or.inr (Or.inl (dead_finish t h))
  · subst h1
    rcases ready_finish t h2 with h | h
    · exact Or.inr (Or.inl h)
    · exact Or.inr (Or.inr ⟨rfl, h⟩)

/-- a task ends: it was not the closer in the middle of the body, nor inside the close callback -/
theorem InvB.finish {s : St} (i : InvB s) (t : Tid) (hnc : ¬ isCloser s t) : InvB (s.finish t) := by
  have h1 : ∀ pc c, s.cstage ≠ .body t pc c := fun pc c h => hnc (Or.inl ⟨pc, c, h⟩)
  have h2 : ∀ k c, s.cstage ≠ .cb t k c := fun k c h => hnc (Or.inr ⟨k, c, h⟩)
  obtain ⟨typ, waitq, waitt, ccan, bst, bwait, bdone, cb, rs, fin⟩ := i
  refine ⟨?_, ?_, ?_, ?_, ?_, ?_, ?_, ?_, ?_, ?_⟩
  · intro x hx
    rw [finish_status] at hx
    show allowed x (s.prog x) = true
    by_cases hxt : x = t
    · simp [hxt, alive] at hx
    · by_cases hw : s.status x = .waitT t
      · exact typ x (by rw [hw]; rfl)
      · simp only [hxt, hw, if_false] at hx; exact typ x hx
  · intro x hx
    rw [finish_status] at hx
    by_cases hxt : x = t
    · simp [hxt] at hx
    · by_cases hw : s.status x = .waitT t
      · simp [hxt, hw] at hx
      · simp only [hxt, hw, if_false] at hx; exact waitq x hx
  · intro x y hx
    rw [finish_status] at hx
    show (∃ pc c, s.cstage = .body x pc c) ∨ _
    by_cases hxt : x = t
    · simp [hxt] at hx
    · by_cases hw : s.status x = .waitT t
      · simp [hxt, hw] at hx
      · simp only [hxt, hw, if_false] at hx; exact waitt x y hx
  · rw [finish_status]
    by_cases hxt : Tid.C = t
    · simp [hxt]
    · by_cases hw : s.status .C = .waitT t
      · simp [hxt, hw]
      · simp only [hxt, hw, if_false]; exact ccan
  · intro t' pc c hc
    have hc' : s.cstage = .body t' pc c := hc
    have hne : t' ≠ t := by intro e; subst e; exact h1 pc c hc'
    obtain ⟨a, b, c', d, e, f⟩ := bst t' pc c hc'
    refine ⟨a, b, c', ?_, ?_, f⟩
    · rw [finish_status]; simp only [hne, if_false]; split
      · rfl
      · exact d
    · rw [finish_status]; simp only [hne, if_false]; split
      · simp
      · exact e
  · intro t' pc c x hc hw
    have hc' : s.cstage = .body t' pc c := hc
    have hne : t' ≠ t := by intro e; subst e; exact h1 pc c hc'
    rw [finish_status] at hw
    simp only [hne, if_false] at hw
    by_cases hw' : s.status t' = .waitT t
    · simp [hw'] at hw
    · simp only [hw', if_false] at hw
      obtain ⟨a, b⟩ := bwait t' pc c x hc' hw
      have hxt : x ≠ t := by
        intro e; subst e; exact hw' hw
      refine ⟨a, ?_⟩
      rw [finish_status]; simp [hxt, b]
  · intro t' pc c x j hc hs hj
    have hc' : s.cstage = .body t' pc c := hc
    have hne : t' ≠ t := by intro e; subst e; exact h1 pc c hc'
    by_cases hxt : x = t
    · right; left; rw [finish_status]; simp [hxt, alive]
    · by_cases hxw : s.status x = .waitT t
      · rcases waitt x t hxw with ⟨pc', c', hb⟩ | ⟨u, hu, _⟩
        · left; rw [hc'] at hb; injection hb with e _ _; exact e.symm
        · subst hu; exact absurd hs (stageOf_user u j)
      · apply okDone_finish
        apply bdone t' pc c x j hc' hs
        rcases hj with hj | ⟨hj, hy⟩
        · exact Or.inl hj
        · right
          refine ⟨hj, ?_⟩
          by_cases hw : s.status t' = .waitT t
          · have := (bwait t' pc c t hc' hw).1
            have hjt : stageOf t = some j := by rw [this]; congr 1; omega
            exact absurd (stageOf_inj hs hjt) hxt
          · intro y
            have := hy y
            rw [finish_status] at this
            simpa [hne, hw] using this
  · intro t' k c hc
    have hc' : s.cstage = .cb t' k c := hc
    have hne : t' ≠ t := by intro e; subst e; exact h2 k c hc'
    obtain ⟨a, b, cok, d⟩ := cb t' k c hc'
    refine ⟨a, ?_, cok, fun x j hs => okDone_finish t (d x j hs)⟩
    rw [finish_status]; simp only [hne, if_false]
    have : s.status t' ≠ .waitT t := by rcases b with b | b <;> rw [b] <;> simp
    simp only [this, if_false]; exact b
  · intro hr
    rcases rs hr with h | h | h
    · exact Or.inl h
    · exact Or.inr (Or.inl (dead_finish t h))
    · exact Or.inr (ready_finish t h)
  · intro hc
    obtain ⟨a, b, c, d, e⟩ := fin hc
    have key2 : ∀ x, (alive (s.status x) = false ∨ s.status x = .ready) →
        (alive ((s.finish t).status x) = false ∨ (s.finish t).status x = .ready) := by
      intro x hx
      rcases hx with hx | hx
      · exact Or.inl (dead_finish t hx)
      · exact ready_finish t hx
    exact ⟨dead_finish t a, dead_finish t b, dead_finish t c, key2 _ d, key2 _ e⟩

theorem setStatus_status (s : St) (t y : Tid) (x : Status) :
    (s.setStatus t x).status y = if y = t then x else s.status y := rfl

theorem okDone_restatus {s : St} {t' x0 : Tid} {t : Tid} {x : Status} (hold : alive (s.status t) = true)
    (hR : t = .R → x = .ready) (h : okDone s t' x0) : okDone (s.setStatus t x) t' x0 := by
  rcases h with h | h | ⟨h1, h2⟩
  · exact Or.inl h
  · right; left
    rw [setStatus_status]
    by_cases hx0 : x0 = t
    · subst hx0; rw [hold] at h; contradiction
    · simp only [hx0, if_false]; exact h
  · subst h1
    right; right
    refine ⟨rfl, ?_⟩
    rw [setStatus_status]
    by_cases hRt : Tid.R = t
    · simp only [hRt, if_true]; exact hR hRt.symm
    · simp only [hRt, if_false]; exact h2

/-- a live task (not waiting for a task) changes to another live status -/
theorem InvB.restatus {s : St} (i : InvB s) (t : Tid) (x : Status)
    (hold : alive (s.status t) = true) (hnw : ∀ y, s.status t ≠ .waitT y)
    (hx : alive x = true) (hxw : ∀ y, x ≠ .waitT y)
    (hq : x = .waitQ → t = .D ∨ t = .V) (hC : t = .C → x ≠ .cancelled)
    (hcl : isCloser s t → x = .ready ∨ x = .cancelled)
    (hcan : s.status t = .cancelled → x = .cancelled ∨ ∀ j, stageOf t ≠ some j)
    (hR : t = .R → x = .ready)
    (hfin : (s.cstage = .finished ∨ s.cstage = .aborted) → t = .D → x = .ready) : InvB (s.setStatus t x) := by
  obtain ⟨typ, waitq, waitt, ccan, bst, bwait, bdone, cb, rs, fin⟩ := i
  refine ⟨?_, ?_, ?_, ?_, ?_, ?_, ?_, ?_, ?_, ?_⟩
  · intro y hy
    show allowed y (s.prog y) = true
    rw [setStatus_status] at hy
    by_cases hyt : y = t
    · subst hyt; exact typ y hold
    · simp only [hyt, if_false] at hy; exact typ y hy
  · intro y hy
    rw [setStatus_status] at hy
    by_cases hyt : y = t
    · subst hyt; simp only [if_true] at hy; exact hq hy
    · simp only [hyt, if_false] at hy; exact waitq y hy
  · intro y z hy
    show (∃ pc c, s.cstage = .body y pc c) ∨ _
    rw [setStatus_status] at hy
    by_cases hyt : y = t
    · subst hyt; simp only [if_true] at hy; exact absurd hy (hxw z)
    · simp only [hyt, if_false] at hy; exact waitt y z hy
  · rw [setStatus_status]
    by_cases hyt : Tid.C = t
    · simp only [hyt, if_true]; exact hC hyt.symm
    · simp only [hyt, if_false]; exact ccan
  · intro t' pc c hc
    have hc' : s.cstage = .body t' pc c := hc
    obtain ⟨a, b, c', d, e, f⟩ := bst t' pc c hc'
    refine ⟨a, b, c', ?_, ?_, f⟩
    · rw [setStatus_status]; split
      · exact hx
      · exact d
    · rw [setStatus_status]; split
      · rename_i h; subst h
        rcases hcl (Or.inl ⟨pc, c, hc'⟩) with h | h <;> rw [h] <;> simp
      · exact e
  · intro t' pc c x0 hc hw
    have hc' : s.cstage = .body t' pc c := hc
    rw [setStatus_status] at hw
    by_cases ht : t' = t
    · subst ht; simp only [if_true] at hw; exact absurd hw (hxw x0)
    · simp only [ht, if_false] at hw
      obtain ⟨a, b⟩ := bwait t' pc c x0 hc' hw
      refine ⟨a, ?_⟩
      rw [setStatus_status]
      by_cases hx0 : x0 = t
      · subst hx0; simp only [if_true]
        rcases hcan b with h | h
        · exact h
        · exact absurd a (h _)
      · simp only [hx0, if_false]; exact b
  · intro t' pc c x0 j hc hs hj
    have hc' : s.cstage = .body t' pc c := hc
    have hj' : j + 1 < pc ∨ (j + 1 = pc ∧ ∀ y, s.status t' ≠ .waitT y) := by
      rcases hj with hj | ⟨hj, hy⟩
      · exact Or.inl hj
      · right
        refine ⟨hj, ?_⟩
        by_cases ht : t' = t
        · subst ht; exact hnw
        · intro y; have := hy y; rw [setStatus_status] at this; simpa [ht] using this
    exact okDone_restatus hold hR (bdone t' pc c x0 j hc' hs hj')
  · intro t' k c hc
    have hc' : s.cstage = .cb t' k c := hc
    obtain ⟨a, b, cok, d⟩ := cb t' k c hc'
    refine ⟨a, ?_, cok, fun x0 j hs => okDone_restatus hold hR (d x0 j hs)⟩
    rw [setStatus_status]; split
    · rename_i h; subst h; exact hcl (Or.inr ⟨k, c, hc'⟩)
    · exact b
  · intro hr
    rcases rs hr with h | h | h
    · exact Or.inl h
    · right; left
      rw [setStatus_status]
      by_cases hRt : Tid.R = t
      · rw [← hRt] at hold; rw [hold] at h; contradiction
      · simp only [hRt, if_false]; exact h
    · right; right
      rw [setStatus_status]
      by_cases hRt : Tid.R = t
      · simp only [hRt, if_true]; exact hR hRt.symm
      · simp only [hRt, if_false]; exact h
  · intro hc
    have hc' : s.cstage = .finished ∨ s.cstage = .aborted := hc
    obtain ⟨a, b, c, d, e⟩ := fin hc'
    have key : ∀ y, alive (s.status y) = false → alive ((s.setStatus t x).status y) = false := by
      intro y hy
      rw [setStatus_status]
      by_cases hyt : y = t
      · subst hyt; rw [hold] at hy; contradiction
      · simp only [hyt, if_false]; exact hy
    refine ⟨key _ a, key _ b, key _ c, ?_, ?_⟩
    · rcases d with d | d
      · exact Or.inl (key _ d)
      · right; rw [setStatus_status]
        by_cases hyt : Tid.D = t
        · simp only [hyt, if_true]; exact hfin hc' hyt.symm
        · simp only [hyt, if_false]; exact d
    · rcases e with e | e
      · exact Or.inl (key _ e)
      · right; rw [setStatus_status]
        by_cases hyt : Tid.R = t
        · simp only [hyt, if_true]; exact hR hyt.symm
        · simp only [hyt, if_false]; exact e

/-- a task's program changes (not the closer's, whose program is `inClose`) -/
theorem InvB.setProg {s : St} (i : InvB s) (t : Tid) (p : Prog)
    (hp : alive (s.status t) = true → allowed t p = true) (hnc : ¬ isCloser s t) : InvB (s.setProg t p) := by
  obtain ⟨typ, waitq, waitt, ccan, bst, bwait, bdone, cb, rs, fin⟩ := i
  refine ⟨?_, waitq, waitt, ccan, ?_, bwait, bdone, ?_, rs, fin⟩
  · intro y hy
    show allowed y (if y = t then p else s.prog y) = true
    by_cases hyt : y = t
    · subst hyt; simp only [if_true]; exact hp hy
    · simp only [hyt, if_false]; exact typ y hy
  · intro t' pc c hc
    have hne : t' ≠ t := by intro e; subst e; exact hnc (Or.inl ⟨pc, c, hc⟩)
    obtain ⟨a, b⟩ := bst t' pc c hc
    refine ⟨?_, b⟩
    show (if t' = t then p else s.prog t') = .inClose
    simp only [hne, if_false]; exact a
  · intro t' k c hc
    have hne : t' ≠ t := by intro e; subst e; exact hnc (Or.inr ⟨k, c, hc⟩)
    obtain ⟨a, b⟩ := cb t' k c hc
    refine ⟨?_, b⟩
    show (if t' = t then p else s.prog t') = .inClose
    simp only [hne, if_false]; exact a

/-- when no close is in progress only the first four fields (and the stopped-reader fact) matter -/
theorem InvB.of_idle {s : St} (h : s.cstage = .idle)
    (typ : ∀ t, alive (s.status t) = true → allowed t (s.prog t) = true)
    (waitq : ∀ t, s.status t = .waitQ → t = .D ∨ t = .V)
    (waitt : ∀ t y, s.status t = .waitT y → ∃ u, t = .U u ∧ y = .V)
    (ccan : s.status .C ≠ .cancelled) (hrs : s.rStopped = false) : InvB s :=
  ⟨typ, waitq, fun t y hy => Or.inr (waitt t y hy), ccan,
   by intro t pc c hc; rw [h] at hc; contradiction,
   by intro t pc c x hc; rw [h] at hc; contradiction,
   by intro t pc c x j hc; rw [h] at hc; contradiction,
   by intro t k c hc; rw [h] at hc; contradiction,
   by intro hr; rw [hrs] at hr; contradiction,
   by intro hc; rw [h] at hc; rcases hc with hc | hc <;> contradiction⟩

theorem InvB.idle_waitt {s : St} (i : InvB s) (h : s.cstage = .idle) :
    ∀ t y, s.status t = .waitT y → ∃ u, t = .U u ∧ y = .V := by
  intro t y hy
  rcases i.waitt t y hy with ⟨pc, c, hb⟩ | h'
  · rw [h] at hb; contradiction
  · exact h'

theorem spawn_status (s : St) (t y : Tid) (p : Prog) : (s.spawn t p).status y = if y = t then .ready else s.status y := rfl
theorem spawn_prog (s : St) (t y : Tid) (p : Prog) : (s.spawn t p).prog y = if y = t then p else s.prog y := rfl

/-- a task is (re)started while no close is in progress -/
theorem InvB.spawn {s : St} (i : InvB s) (h : s.cstage = .idle) (hrs : s.rStopped = false) (t : Tid) (p : Prog)
    (hp : allowed t p = true) : InvB (s.spawn t p) := by
  have hw := i.idle_waitt h
  apply InvB.of_idle (by exact h) _ _ _ _ (by exact hrs)
  · intro y hy
    rw [spawn_prog]; rw [spawn_status] at hy
    by_cases hyt : y = t
    · subst hyt; simp only [if_true]; exact hp
    · simp only [hyt, if_false] at hy ⊢; exact i.typ y hy
  · intro y hy
    rw [spawn_status] at hy
    by_cases hyt : y = t
    · simp [hyt] at hy
    · simp only [hyt, if_false] at hy; exact i.waitq y hy
  · intro y z hy
    rw [spawn_status] at hy
    by_cases hyt : y = t
    · simp [hyt] at hy
    · simp only [hyt, if_false] at hy; exact hw y z hy
  · rw [spawn_status]
    split
    · simp
    · exact i.ccan

/-- the status of a task that is not alive changes to another not-alive status -/
theorem InvB.setStatus_dead {s : St} (i : InvB s) (t : Tid) (x : Status) (h : alive (s.status t) = false)
    (hx : alive x = false) : InvB (s.setStatus t x) := by
  have hxs : ∀ y, alive ((s.setStatus t x).status y) = alive (s.status y) := by
    intro y; rw [setStatus_status]; split
    · rename_i e; subst e; rw [hx, h]
    · rfl
  have hne : ∀ y, alive (s.status y) = true → (s.setStatus t x).status y = s.status y := by
    intro y hy; rw [setStatus_status]; split
    · rename_i e; subst e; rw [h] at hy; contradiction
    · rfl
  have hrev : ∀ y, alive ((s.setStatus t x).status y) = true → (s.setStatus t x).status y = s.status y := by
    intro y hy; rw [hxs] at hy; exact hne y hy
  have okd : ∀ t' x0, okDone s t' x0 → okDone (s.setStatus t x) t' x0 := by
    intro t' x0 hk
    rcases hk with hk | hk | ⟨hk1, hk2⟩
    · exact Or.inl hk
    · exact Or.inr (Or.inl (by rw [hxs]; exact hk))
    · exact Or.inr (Or.inr ⟨hk1, by rw [hne _ (by rw [hk2]; rfl)]; exact hk2⟩)
  obtain ⟨typ, waitq, waitt, ccan, bst, bwait, bdone, cb, rs, fin⟩ := i
  refine ⟨?_, ?_, ?_, ?_, ?_, ?_, ?_, ?_, ?_, ?_⟩
  · intro y hy; rw [hxs] at hy; exact typ y hy
  · intro y hy; have := hrev y (by rw [hy]; rfl); rw [this] at hy; exact waitq y hy
  · intro y z hy; have := hrev y (by rw [hy]; rfl); rw [this] at hy; exact waitt y z hy
  · intro hC
    have := hrev .C (by rw [hC]; rfl); rw [this] at hC; exact ccan hC
  · intro t' pc c hc
    obtain ⟨a, b, c', d, e, f⟩ := bst t' pc c hc
    exact ⟨a, b, c', by rw [hxs]; exact d, by rw [hne _ d]; exact e, f⟩
  · intro t' pc c x0 hc hw
    have := hrev t' (by rw [hw]; rfl); rw [this] at hw
    obtain ⟨a, b⟩ := bwait t' pc c x0 hc hw
    exact ⟨a, by rw [hne _ (by rw [b]; rfl)]; exact b⟩
  · intro t' pc c x0 j hc hs hj
    apply okd
    apply bdone t' pc c x0 j hc hs
    rcases hj with hj | ⟨hj, hy⟩
    · exact Or.inl hj
    · right; refine ⟨hj, ?_⟩
      intro y hw
      have hal : alive (s.status t') = true := by rw [hw]; rfl
      exact hy y (by rw [hne _ hal]; exact hw)
  · intro t' k c hc
    obtain ⟨a, b, cok, d⟩ := cb t' k c hc
    have hal : alive (s.status t') = true := by rcases b with b | b <;> rw [b] <;> rfl
    exact ⟨a, by rw [hne _ hal]; exact b, cok, fun x0 j hs => okd _ _ (d x0 j hs)⟩
  · intro hr
    rcases rs hr with h' | h' | h'
    · exact Or.inl h'
    · exact Or.inr (Or.inl (by rw [hxs]; exact h'))
    · exact Or.inr (Or.inr (by rw [hne _ (by rw [h']; rfl)]; exact h'))
  · intro hc
    obtain ⟨a, b, c, d, e⟩ := fin hc
    have k2 : ∀ y, (alive (s.status y) = false ∨ s.status y = .ready) →
        (alive ((s.setStatus t x).status y) = false ∨ (s.setStatus t x).status y = .ready) := by
      intro y hy
      rcases hy with hy | hy
      · exact Or.inl (by rw [hxs]; exact hy)
      · exact Or.inr (by rw [hne _ (by rw [hy]; rfl)]; exact hy)
    exact ⟨by rw [hxs]; exact a, by rw [hxs]; exact b, by rw [hxs]; exact c, k2 _ d, k2 _ e⟩

/-- a fresh user task starts running -/
theorem InvB.userStart {s : St} (i : InvB s) (u : Nat) (p : Prog) (h : s.status (.U u) = .absent)
    (hp : allowed (.U u) p = true) (hpc : p ≠ .inClose) : InvB ((s.setStatus (.U u) .ready).setProg (.U u) p) := by
  have hnc : ¬ isCloser s (.U u) := by
    rintro (⟨pc, c, hb⟩ | ⟨k, c, hc⟩)
    · have := (i.bst _ pc c hb).2.2.2.1; rw [h] at this; simp [alive] at this
    · have := (i.cb _ k c hc).2.1; rw [h] at this; simp at this
  have hst : ∀ y, ((s.setStatus (.U u) .ready).setProg (.U u) p).status y = if y = .U u then .ready else s.status y := fun _ => rfl
  have hpr : ∀ y, ((s.setStatus (.U u) .ready).setProg (.U u) p).prog y = if y = .U u then p else s.prog y := fun _ => rfl
  have hlib : ∀ y j, stageOf y = some j → ((s.setStatus (.U u) .ready).setProg (.U u) p).status y = s.status y := by
    intro y j hj; rw [hst]; split
    · rename_i e; subst e; exact absurd hj (stageOf_user u j)
    · rfl
  have okd : ∀ t' x0 j, stageOf x0 = some j → okDone s t' x0 → okDone ((s.setStatus (.U u) .ready).setProg (.U u) p) t' x0 := by
    intro t' x0 j hj hk
    unfold okDone at hk ⊢
    rw [hlib x0 j hj, hlib .R 4 rfl]; exact hk
  obtain ⟨typ, waitq, waitt, ccan, bst, bwait, bdone, cb, rs, fin⟩ := i
  refine ⟨?_, ?_, ?_, ?_, ?_, ?_, ?_, ?_, ?_, ?_⟩
  · intro y hy
    rw [hpr]; rw [hst] at hy
    by_cases hyu : y = .U u
    · subst hyu; simp only [if_true]; exact hp
    · simp only [hyu, if_false] at hy ⊢; exact typ y hy
  · intro y hy; rw [hst] at hy
    by_cases hyu : y = .U u
    · simp [hyu] at hy
    · simp only [hyu, if_false] at hy; exact waitq y hy
  · intro y z hy; rw [hst] at hy
    by_cases hyu : y = .U u
    · simp [hyu] at hy
    · simp only [hyu, if_false] at hy; exact waitt y z hy
  · rw [hst]; simp; exact ccan
  · intro t' pc c hc
    have hne : t' ≠ .U u := by intro e; subst e; exact hnc (Or.inl ⟨pc, c, hc⟩)
    obtain ⟨a, b, c', d, e, f⟩ := bst t' pc c hc
    exact ⟨by rw [hpr]; simp only [hne, if_false]; exact a, b, c', by rw [hst]; simp only [hne, if_false]; exact d,
      by rw [hst]; simp only [hne, if_false]; exact e, f⟩
  · intro t' pc c x0 hc hw
    have hne : t' ≠ .U u := by intro e; subst e; exact hnc (Or.inl ⟨pc, c, hc⟩)
    rw [hst] at hw; simp only [hne, if_false] at hw
    obtain ⟨a, b⟩ := bwait t' pc c x0 hc hw
    exact ⟨a, by rw [hlib x0 _ a]; exact b⟩
  · intro t' pc c x0 j hc hs hj
    have hne : t' ≠ .U u := by intro e; subst e; exact hnc (Or.inl ⟨pc, c, hc⟩)
    apply okd t' x0 j hs
    apply bdone t' pc c x0 j hc hs
    rcases hj with hj | ⟨hj, hy⟩
    · exact Or.inl hj
    · right; refine ⟨hj, ?_⟩
      intro y; have := hy y; rw [hst] at this; simpa [hne] using this
  · intro t' k c hc
    have hne : t' ≠ .U u := by intro e; subst e; exact hnc (Or.inr ⟨k, c, hc⟩)
    obtain ⟨a, b, cok, d⟩ := cb t' k c hc
    exact ⟨by rw [hpr]; simp only [hne, if_false]; exact a, by rw [hst]; simp only [hne, if_false]; exact b, cok,
      fun x0 j hs => okd _ _ j hs (d x0 j hs)⟩
  · intro hr
    rw [hlib .R 4 rfl]; exact rs hr
  · intro hc
    rw [hlib .L 2 rfl, hlib .M 3 rfl, hlib .V 1 rfl, hlib .D 0 rfl, hlib .R 4 rfl]; exact fin hc

/-- `Reader.stop()` marks the reader stopped -/
theorem InvB.setRStopped {s : St} (i : InvB s) (h : isCloser s .R ∨ alive (s.status .R) = false ∨ s.status .R = .ready) :
    InvB { s with rStopped := true } :=
  ⟨i.typ, i.waitq, i.waitt, i.ccan, i.bst, i.bwait, i.bdone, i.cb, fun _ => h, i.fin⟩

/-- `close()` returns at once to a task that is not the closer (the session was already closed) -/
theorem runCont_InvB_nonCloser {s : St} (i : InvB s) {t : Tid} {c : Cont} (hst : s.status t = .ready)
    (hp : s.prog t ≠ .inClose) (hc : contOk t c) : InvB (runCont s t c) := by
  have hnc := not_closer_of_prog i hp
  cases c with
  | readerTail =>
    simp only [contOk] at hc; subst hc
    have i1 : InvB ({ s with rStopped := true } : St) := i.setRStopped (Or.inr (Or.inr hst))
    have i2 := i1.restatus .R .ready (by show alive (s.status .R) = true; rw [hst]; rfl)
      (by intro y; show s.status .R ≠ _; rw [hst]; simp) rfl (by simp) (by simp) (by simp) (fun _ => Or.inl rfl)
      (by show s.status .R = .cancelled → _; rw [hst]; simp) (fun _ => rfl) (by simp)
    exact i2.setProg .R .readerLoop (fun _ => rfl) hnc
  | handlerTail n =>
    simp only [contOk] at hc; subst hc
    have i1 : InvB (s.emit (.msgExit n)) := i.emit
    have i2 := i1.restatus .D .ready (by show alive (s.status .D) = true; rw [hst]; rfl)
      (by intro y; show s.status .D ≠ _; rw [hst]; simp) rfl (by simp) (by simp) (by simp) (fun _ => Or.inl rfl)
      (by show s.status .D = .cancelled → _; rw [hst]; simp) (by simp) (fun _ _ => rfl)
    have i3 := i2.setProg .D .dispLoop (fun _ => rfl) hnc
    exact InvB.of_bcore (s := ((s.emit (.msgExit n)).setStatus .D .ready).setProg .D .dispLoop) rfl i3
  | monitorTail => exact i.finish t hnc
  | closingTail => exact i.finish t hnc
  | userTail u r => exact (i.emit (o := .ret u r.toRes)).finish t hnc

/-! ### the close body -/

/-- the facts under which the closer `t` runs stage `j` of the close body -/
structure PreB (s : St) (t : Tid) (c : Cont) (j : Nat) : Prop where
  typ : ∀ y, alive (s.status y) = true → allowed y (s.prog y) = true
  waitq : ∀ y, s.status y = .waitQ → y = .D ∨ y = .V
  waitt : ∀ y z, s.status y = .waitT z → ∃ u, y = .U u ∧ z = .V
  ccan : s.status .C ≠ .cancelled
  st : s.status t = .ready
  cok : contOk t c
  done : ∀ x i, stageOf x = some i → i < j → okDone s t x
  rs : s.rStopped = true → t = .R ∨ alive (s.status .R) = false ∨ s.status .R = .ready

theorem PreB.next {s : St} {t : Tid} {c : Cont} {j : Nat} {x : Tid} (p : PreB s t c j) (hx : stageOf x = some j)
    (hd : okDone s t x) : PreB s t c (j + 1) :=
  ⟨p.typ, p.waitq, p.waitt, p.ccan, p.st, p.cok, by
    intro y i hy hi
    by_cases hij : i < j
    · exact p.done y i hy hij
    · have : i = j := by omega
      subst this
      have := stageOf_inj hy hx
      subst this; exact hd, p.rs⟩

theorem PreB.mono {s : St} {t : Tid} {c : Cont} {j k : Nat} (p : PreB s t c j) (h : k ≤ j) : PreB s t c k :=
  ⟨p.typ, p.waitq, p.waitt, p.ccan, p.st, p.cok, fun x i hx hi => p.done x i hx (by omega), p.rs⟩

theorem PreB.all {s : St} {t : Tid} {c : Cont} {j : Nat} (p : PreB s t c j) (h : 5 ≤ j) :
    ∀ x i, stageOf x = some i → okDone s t x :=
  fun x i hx => p.done x i hx (by have := stageOf_lt hx; omega)

/-- status function after cancelling a live stop target that is not itself waiting for a task -/
theorem cancelTask_status {s : St} {x : Tid} (ha : alive (s.status x) = true) (hw : ∀ z, s.status x ≠ .waitT z) (y : Tid) :
    (s.cancelTask x).status y = if y = x then .cancelled else s.status y := by
  unfold St.cancelTask
  cases hs : s.status x with
  | absent => rw [hs] at ha; simp [alive] at ha
  | done => rw [hs] at ha; simp [alive] at ha
  | ready => simp only [St.setStatus]
  | waitQ => simp only [St.setStatus]
  | cancelled => simp only; split <;> simp_all
  | waitT z => exact absurd hs (hw z)

theorem cancelTask_prog (s : St) (x : Tid) : (s.cancelTask x).prog = s.prog := by
  unfold St.cancelTask
  split <;> try rfl
  split <;> rfl

theorem cancelTask_rStopped (s : St) (x : Tid) : (s.cancelTask x).rStopped = s.rStopped := by
  unfold St.cancelTask
  split <;> try rfl
  split <;> rfl

/-- the closer suspends on the cancelled target of stage `j` -/
theorem suspendOn_InvB {s : St} {t x : Tid} {c : Cont} {j : Nat} (p : PreB s t c j)
    (hx : stageOf x = some j) (hne : x ≠ t) (ha : alive (s.status x) = true) (hxR : x = .R → s.rStopped = false) :
    InvB (suspendOn s t x j c) := by
  have hxw : ∀ z, s.status x ≠ .waitT z := by
    intro z hz
    obtain ⟨u, hu, _⟩ := p.waitt x z hz
    subst hu; exact stageOf_user u j hx
  have hj4 : j ≤ 4 := stageOf_lt hx
  have hst : ∀ y, (suspendOn s t x j c).status y =
      if y = t then .waitT x else if y = x then .cancelled else s.status y := by
    intro y
    show (if y = t then Status.waitT x else (s.cancelTask x).status y) = _
    rw [cancelTask_status ha hxw]
  have hpr : ∀ y, (suspendOn s t x j c).prog y = if y = t then .inClose else s.prog y := by
    intro y
    show (if y = t then Prog.inClose else (s.cancelTask x).prog y) = _
    rw [cancelTask_prog]
  have hcs : (suspendOn s t x j c).cstage = .body t (j + 1) c := rfl
  have hrs : (suspendOn s t x j c).rStopped = s.rStopped := cancelTask_rStopped s x
  refine ⟨?_, ?_, ?_, ?_, ?_, ?_, ?_, ?_, ?_, ?_⟩
  · intro y hy
    rw [hst] at hy; rw [hpr]
    by_cases hyt : y = t
    · subst hyt; simp only [if_true]; exact contOk_allowed p.cok
    · simp only [hyt, if_false] at hy ⊢
      by_cases hyx : y = x
      · subst hyx; exact p.typ y ha
      · simp only [hyx, if_false] at hy; exact p.typ y hy
  · intro y hy
    rw [hst] at hy
    by_cases hyt : y = t
    · simp [hyt] at hy
    · by_cases hyx : y = x
      · subst hyx; simp [hyt] at hy
      · simp only [hyt, hyx, if_false] at hy; exact p.waitq y hy
  · intro y z hy
    rw [hst] at hy; rw [hcs]
    by_cases hyt : y = t
    · left; exact ⟨j + 1, c, by rw [hyt]⟩
    · by_cases hyx : y = x
      · subst hyx; simp [hyt] at hy
      · simp only [hyt, hyx, if_false] at hy; right; exact p.waitt y z hy
  · rw [hst]
    by_cases hCt : Tid.C = t
    · simp [hCt]
    · have hCx : Tid.C ≠ x := by intro e; rw [← e] at hx; exact stageOf_C j hx
      simp only [hCt, hCx, if_false]; exact p.ccan
  · intro t' pc c' hc
    rw [hcs] at hc; injection hc with e1 e2 e3; subst e1 e2 e3
    exact ⟨by rw [hpr]; simp, by omega, by omega, by rw [hst]; simp [alive], by rw [hst]; simp, p.cok⟩
  · intro t' pc c' x0 hc hw
    rw [hcs] at hc; injection hc with e1 e2 e3; subst e1 e2 e3
    rw [hst] at hw; simp only [if_true] at hw
    injection hw with hw; subst hw
    refine ⟨by simpa using hx, ?_⟩
    rw [hst]; simp [hne]
  · intro t' pc c' x0 i hc hs hi
    rw [hcs] at hc; injection hc with e1 e2 e3; subst e1 e2 e3
    rcases hi with hi | ⟨_, hy⟩
    · have hij : i < j := by omega
      have hx0 : x0 ≠ x := by intro e; subst e; rw [hs] at hx; injection hx with hx; omega
      rcases p.done x0 i hs hij with h | h | ⟨h1, h2⟩
      · exact Or.inl h
      · right; left
        rw [hst]
        by_cases hx0t : x0 = t
        · subst hx0t; rw [p.st] at h; simp [alive] at h
        · simp only [hx0t, hx0, if_false]; exact h
      · subst h1; simp [stageOf] at hs; omega
    · exact absurd (by rw [hst]; simp) (hy x)
  · intro t' k c' hc; rw [hcs] at hc; contradiction
  · intro hr
    rw [hrs] at hr
    have hxR' : x ≠ .R := by intro e; have := hxR e; rw [this] at hr; contradiction
    rcases p.rs hr with h | h | h
    · left; left; exact ⟨j + 1, c, by rw [hcs, h]⟩
    · right; left; rw [hst]
      by_cases hRt : Tid.R = t
      · rw [← hRt] at p; rw [p.st] at h; simp [alive] at h
      · simp only [hRt, Ne.symm hxR', if_false]; exact h
    · by_cases hRt : Tid.R = t
      · left; left; exact ⟨j + 1, c, by rw [hcs, hRt]⟩
      · right; right; rw [hst]; simp only [hRt, Ne.symm hxR', if_false]; exact h
  · intro hc; rw [hcs] at hc; rcases hc with hc | hc <;> contradiction

/-- the state at the end of the close: every stop target needs no more stopping, the last task to act ends -/
theorem InvB.at_end {s : St} {t : Tid} (hE : s.cstage = .finished ∨ s.cstage = .aborted)
    (typ : ∀ y, alive (s.status y) = true → allowed y (s.prog y) = true)
    (waitq : ∀ y, s.status y = .waitQ → y = .D ∨ y = .V)
    (waitt : ∀ y z, s.status y = .waitT z → ∃ u, y = .U u ∧ z = .V)
    (ccan : s.status .C ≠ .cancelled)
    (hL : alive (s.status .L) = false) (hM : alive (s.status .M) = false) (hV : alive (s.status .V) = false)
    (hD : alive (s.status .D) = false ∨ s.status .D = .ready)
    (hR : alive (s.status .R) = false ∨ s.status .R = .ready) : InvB s :=
  ⟨typ, waitq, fun y z h => Or.inr (waitt y z h), ccan,
   by intro t pc c hc; rcases hE with h | h <;> rw [h] at hc <;> contradiction,
   by intro t pc c x hc; rcases hE with h | h <;> rw [h] at hc <;> contradiction,
   by intro t pc c x j hc; rcases hE with h | h <;> rw [h] at hc <;> contradiction,
   by intro t k c hc; rcases hE with h | h <;> rw [h] at hc <;> contradiction,
   fun _ => Or.inr hR, fun _ => ⟨hL, hM, hV, hD, hR⟩⟩

/-- facts at the last step of the closer (`t` is runnable, every target is done) -/
structure EndB (s : St) (t : Tid) : Prop where
  typ : ∀ y, alive (s.status y) = true → allowed y (s.prog y) = true
  waitq : ∀ y, s.status y = .waitQ → y = .D ∨ y = .V
  waitt : ∀ y z, s.status y = .waitT z → ∃ u, y = .U u ∧ z = .V
  ccan : s.status .C ≠ .cancelled
  st : s.status t = .ready ∨ s.status t = .cancelled
  tV : t ≠ .V
  all : ∀ x i, stageOf x = some i → okDone s t x

/-- the closer ends (closing task, monitor, user call; or a user call cancelled inside the close callback) -/
theorem EndB.finish {s : St} {t : Tid} (e : EndB s t) (s1 : St) (hb : s1.status = s.status ∧ s1.prog = s.prog)
    (hE : s1.cstage = .finished ∨ s1.cstage = .aborted) : InvB (s1.finish t) := by
  obtain ⟨hs1, hp1⟩ := hb
  have hnw : ∀ y, s.status y ≠ .waitT t := by
    intro y hy
    obtain ⟨u, _, hz⟩ := e.waitt y t hy
    exact e.tV hz
  have hst : ∀ y, (s1.finish t).status y = if y = t then .done else s.status y := by
    intro y; rw [finish_status, hs1]
    by_cases hyt : y = t
    · simp [hyt]
    · simp [hyt, hnw y]
  have dead_of : ∀ x i, stageOf x = some i → x ≠ .R → alive ((s1.finish t).status x) = false := by
    intro x i hx hxR
    rw [hst]
    by_cases hxt : x = t
    · simp [hxt, alive]
    · simp only [hxt, if_false]
      rcases e.all x i hx with h | h | ⟨h, _⟩
      · exact absurd h hxt
      · exact h
      · exact absurd h hxR
  have dr_of : ∀ x i, stageOf x = some i → (alive ((s1.finish t).status x) = false ∨ (s1.finish t).status x = .ready) := by
    intro x i hx
    rw [hst]
    by_cases hxt : x = t
    · left; simp [hxt, alive]
    · simp only [hxt, if_false]
      rcases e.all x i hx with h | h | ⟨h1, h2⟩
      · exact absurd h hxt
      · exact Or.inl h
      · subst h1; exact Or.inr h2
  apply InvB.at_end (t := t) (by exact hE)
  · intro y hy
    rw [hst] at hy
    show allowed y (s1.prog y) = true
    rw [hp1]
    by_cases hyt : y = t
    · simp [hyt, alive] at hy
    · simp only [hyt, if_false] at hy; exact e.typ y hy
  · intro y hy; rw [hst] at hy
    by_cases hyt : y = t
    · simp [hyt] at hy
    · simp only [hyt, if_false] at hy; exact e.waitq y hy
  · intro y z hy; rw [hst] at hy
    by_cases hyt : y = t
    · simp [hyt] at hy
    · simp only [hyt, if_false] at hy; exact e.waitt y z hy
  · rw [hst]; split
    · simp
    · exact e.ccan
  · exact dead_of .L 2 rfl (by simp)
  · exact dead_of .M 3 rfl (by simp)
  · exact dead_of .V 1 rfl (by simp)
  · exact dr_of .D 0 rfl
  · exact dr_of .R 4 rfl

/-- the closer goes on after the close (reader back to its loop, dispatcher back to its loop) -/
theorem EndB.resume {s : St} {t : Tid} (e : EndB s t) (hst0 : s.status t = .ready) (s1 : St) (p : Prog)
    (hb : s1.status = s.status ∧ s1.prog = s.prog) (hE : s1.cstage = .finished ∨ s1.cstage = .aborted)
    (ht : t = .R ∨ t = .D) (hp : allowed t p = true) : InvB ((s1.setStatus t .ready).setProg t p) := by
  obtain ⟨hs1, hp1⟩ := hb
  have hst : ∀ y, ((s1.setStatus t .ready).setProg t p).status y = s.status y := by
    intro y
    show (if y = t then Status.ready else s1.status y) = _
    rw [hs1]; split
    · rename_i h; rw [h, hst0]
    · rfl
  have hpr : ∀ y, ((s1.setStatus t .ready).setProg t p).prog y = if y = t then p else s.prog y := by
    intro y
    show (if y = t then p else s1.prog y) = _
    rw [hp1]
  have dead_of : ∀ x i, stageOf x = some i → x ≠ .R → x ≠ .D → alive (s.status x) = false := by
    intro x i hx hxR hxD
    rcases e.all x i hx with h | h | ⟨h, _⟩
    · rcases ht with ht | ht <;> rw [ht] at h <;> simp_all
    · exact h
    · exact absurd h hxR
  have dr_of : ∀ x i, stageOf x = some i → (alive (s.status x) = false ∨ s.status x = .ready) := by
    intro x i hx
    rcases e.all x i hx with h | h | ⟨h1, h2⟩
    · right; rw [h]; exact hst0
    · exact Or.inl h
    · subst h1; exact Or.inr h2
  apply InvB.at_end (t := t) (by exact hE)
  · intro y hy
    rw [hst] at hy; rw [hpr]
    by_cases hyt : y = t
    · simp only [hyt, if_true]; exact hp
    · simp only [hyt, if_false]; exact e.typ y hy
  · intro y hy; rw [hst] at hy; exact e.waitq y hy
  · intro y z hy; rw [hst] at hy; exact e.waitt y z hy
  · rw [hst]; exact e.ccan
  · rw [hst]; exact dead_of .L 2 rfl (by simp) (by simp)
  · rw [hst]; exact dead_of .M 3 rfl (by simp) (by simp)
  · rw [hst]; exact dead_of .V 1 rfl (by simp) (by simp)
  · rw [hst]; exact dr_of .D 0 rfl
  · rw [hst]; exact dr_of .R 4 rfl

/-- `close()` returns to the closer -/
theorem EndB.runCont {s : St} {t : Tid} {c : Cont} (e : EndB s t) (hst0 : s.status t = .ready) (hc : contOk t c)
    (s1 : St) (hb : s1.status = s.status ∧ s1.prog = s.prog) (hE : s1.cstage = .finished) :
    InvB (runCont s1 t c) := by
  cases c with
  | readerTail =>
    simp only [contOk] at hc; subst hc
    exact e.resume hst0 { s1 with rStopped := true } .readerLoop hb (Or.inl hE) (Or.inl rfl) rfl
  | handlerTail n =>
    simp only [contOk] at hc; subst hc
    have := e.resume hst0 (s1.emit (.msgExit n)) .dispLoop hb (Or.inl hE) (Or.inr rfl) rfl
    exact InvB.of_bcore (s := ((s1.emit (.msgExit n)).setStatus .D .ready).setProg .D .dispLoop) rfl this
  | monitorTail => exact e.finish s1 hb (Or.inl hE)
  | closingTail => exact e.finish s1 hb (Or.inl hE)
  | userTail u r => exact e.finish (s1.emit (.ret u r.toRes)) hb (Or.inl hE)

theorem contOk_ne_V {t : Tid} {c : Cont} (h : contOk t c) : t ≠ .V := by
  cases c <;> simp [contOk] at h <;> subst h <;> simp

theorem PreB.toEnd {s : St} {t : Tid} {c : Cont} {j : Nat} (p : PreB s t c j) (h : 5 ≤ j) : EndB s t :=
  ⟨p.typ, p.waitq, p.waitt, p.ccan, Or.inl p.st, contOk_ne_V p.cok, p.all h⟩

/-- the end of the close body -/
theorem closeTail_InvB {cfg : Cfg} {s : St} {t : Tid} {c : Cont} {j : Nat} (p : PreB s t c j) (h : 5 ≤ j) :
    InvB (closeTail cfg s t c) := by
  have e := p.toEnd h
  unfold closeTail
  simp only
  split
  · exact e.runCont p.st p.cok _ ⟨rfl, rfl⟩ rfl
  · split
    · -- inside the close callback
      rename_i k _
      have hst : ∀ y, ((((s.emit .tclose).emit .cbEnter).setStatus t .ready).setProg t .inClose).status y = s.status y := by
        intro y
        show (if y = t then Status.ready else s.status y) = _
        split
        · rename_i hy; rw [hy, p.st]
        · rfl
      have hpr : ∀ y, ((((s.emit .tclose).emit .cbEnter).setStatus t .ready).setProg t .inClose).prog y =
          if y = t then .inClose else s.prog y := fun _ => rfl
      refine ⟨?_, ?_, ?_, ?_, ?_, ?_, ?_, ?_, ?_, ?_⟩
      · intro y hy
        show allowed y ((((s.emit .tclose).emit .cbEnter).setStatus t .ready).setProg t .inClose |>.prog y) = true
        rw [hpr]
        have hy' : alive (s.status y) = true := by rw [← hst y]; exact hy
        by_cases hyt : y = t
        · simp only [hyt, if_true]; exact contOk_allowed p.cok
        · simp only [hyt, if_false]; exact p.typ y hy'
      · intro y hy; exact p.waitq y (by rw [← hst y]; exact hy)
      · intro y z hy; right; exact p.waitt y z (by rw [← hst y]; exact hy)
      · show ((((s.emit .tclose).emit .cbEnter).setStatus t .ready).setProg t .inClose).status .C ≠ _
        rw [hst]; exact p.ccan
      · intro t' pc c' hc; exact absurd hc (by simp)
      · intro t' pc c' x hc; exact absurd hc (by simp)
      · intro t' pc c' x i hc; exact absurd hc (by simp)
      · intro t' k' c' hc
        have hc' : CStage.cb t k c = CStage.cb t' k' c' := hc
        injection hc' with e1 e2 e3; subst e1 e2 e3
        refine ⟨by show (if t = t then Prog.inClose else _) = _; simp, Or.inl (by rw [hst]; exact p.st), p.cok, ?_⟩
        intro x i hx
        have := p.all h x i hx
        unfold okDone at this ⊢
        rw [hst x, hst .R]; exact this
      · intro hr
        have hr' : s.rStopped = true := hr
        rcases p.rs hr' with h' | h' | h'
        · left; right; exact ⟨k, c, by rw [h']⟩
        · right; left; rw [hst]; exact h'
        · right; right; rw [hst]; exact h'
      · intro hc; rcases hc with hc | hc <;> exact absurd hc (by simp)
    · exact e.runCont p.st p.cok _ ⟨rfl, rfl⟩ rfl

/-! ### the stages -/

theorem PreB.of_bcore {s s' : St} {t : Tid} {c : Cont} {j : Nat} (h : bcore s' = bcore s) (p : PreB s t c j) :
    PreB s' t c j := by
  simp only [bcore, Prod.mk.injEq] at h
  obtain ⟨h1, h2, _, h4⟩ := h
  obtain ⟨typ, waitq, waitt, ccan, st, cok, done, rs⟩ := p
  refine ⟨?_, ?_, ?_, ?_, ?_, cok, ?_, ?_⟩
  · rw [h1, h2]; exact typ
  · rw [h1]; exact waitq
  · rw [h1]; exact waitt
  · rw [h1]; exact ccan
  · rw [h1]; exact st
  · unfold okDone; rw [h1]; exact done
  · rw [h1, h4]; exact rs

theorem ec6_InvB {cfg : Cfg} {s : St} {t : Tid} {c : Cont} (p : PreB s t c 5) : InvB (ec6 cfg t c s) :=
  closeTail_InvB p (Nat.le_refl 5)

theorem ec5_InvB {cfg : Cfg} {s : St} {t : Tid} {c : Cont} (p : PreB s t c 5) : InvB (ec5 cfg t c s) := by
  unfold ec5
  apply ec6_InvB
  obtain ⟨typ, waitq, waitt, ccan, st, cok, done, rs⟩ := p
  exact ⟨typ, waitq, waitt, ccan, st, cok, done, fun _ => by
    rcases done .R 4 rfl (by omega) with h | h | ⟨_, h⟩
    · exact Or.inl h.symm
    · exact Or.inr (Or.inl h)
    · exact Or.inr (Or.inr h)⟩

theorem stopStage_InvB {s : St} {t : Tid} {c : Cont} {j : Nat} {x : Tid} {next : St → St} (p : PreB s t c j)
    (hx : stageOf x = some j) (hxR : x = .R → s.rStopped = false)
    (hn : PreB s t c (j + 1) → InvB (next s)) : InvB (stopStage s t c j x next) := by
  unfold stopStage
  split
  · rename_i h
    apply hn
    apply p.next hx
    simp only [Bool.or_eq_true, decide_eq_true_eq, Bool.not_eq_true'] at h
    rcases h with h | h
    · exact Or.inl h
    · exact Or.inr (Or.inl h)
  · rename_i h
    simp only [Bool.or_eq_true, decide_eq_true_eq, Bool.not_eq_true', not_or] at h
    exact suspendOn_InvB p hx h.1 (by simpa using h.2) hxR

theorem ec4_InvB {cfg : Cfg} {s : St} {t : Tid} {c : Cont} (p : PreB s t c 4) : InvB (ec4 cfg t c s) := by
  unfold ec4
  split
  · rename_i hr
    apply ec6_InvB
    apply p.next (x := .R) rfl
    rcases p.rs hr with h | h | h
    · exact Or.inl h.symm
    · exact Or.inr (Or.inl h)
    · exact Or.inr (Or.inr ⟨rfl, h⟩)
  · rename_i hr
    exact stopStage_InvB p rfl (fun _ => by simpa using hr) (fun p' => ec5_InvB p')

theorem ec3_InvB {cfg : Cfg} {s : St} {t : Tid} {c : Cont} (p : PreB s t c 3) : InvB (ec3 cfg t c s) :=
  stopStage_InvB p rfl (by simp) (fun p' => ec4_InvB p')

theorem ec2_InvB {cfg : Cfg} {s : St} {t : Tid} {c : Cont} (p : PreB s t c 2) : InvB (ec2 cfg t c s) :=
  stopStage_InvB p rfl (by simp) (fun p' => ec3_InvB p')

theorem ec1_InvB {cfg : Cfg} {s : St} {t : Tid} {c : Cont} (p : PreB s t c 1) : InvB (ec1 cfg t c s) :=
  stopStage_InvB p rfl (by simp) (fun p' => ec2_InvB p')

theorem ec0_InvB {cfg : Cfg} {s : St} {t : Tid} {c : Cont} (p : PreB s t c 0) : InvB (ec0 cfg t c s) :=
  stopStage_InvB p rfl (by simp) (fun p' => ec1_InvB (PreB.of_bcore (s := s) rfl p'))

theorem execClose_InvB {cfg : Cfg} {s : St} {t : Tid} {c : Cont} {pc : Nat} (p : PreB s t c pc) :
    InvB (execClose cfg s t c pc) := by
  unfold execClose
  split
  · exact ec0_InvB p
  · exact ec1_InvB p
  · exact ec2_InvB p
  · exact ec3_InvB p
  · exact ec4_InvB p
  · exact ec5_InvB p
  · rename_i h0 h1 h2 h3 h4 h5
    have : 5 ≤ pc := by
      rcases Nat.lt_or_ge pc 5 with h | h
      · exfalso
        match pc, h with
        | 0, _ => exact h0 rfl
        | 1, _ => exact h1 rfl
        | 2, _ => exact h2 rfl
        | 3, _ => exact h3 rfl
        | 4, _ => exact h4 rfl
      · exact h
    exact ec6_InvB (p.mono this)

/-- `await self.close()` by a running task that is not the closer -/
theorem enterClose_InvB {cfg : Cfg} {s : St} (a : InvA cfg s) (i : InvB s) {t : Tid} {c : Cont}
    (hst : s.status t = .ready) (hp : s.prog t ≠ .inClose) (hc : contOk t c) : InvB (enterClose cfg s t c) := by
  unfold enterClose
  split
  · exact runCont_InvB_nonCloser i hst hp hc
  · rename_i hcl
    have hidle : s.cstage = .idle := idle_of_open a (by simpa using hcl)
    apply execClose_InvB
    refine ⟨i.typ, i.waitq, i.idle_waitt hidle, i.ccan, hst, hc, ?_, ?_⟩
    · intro x j _ hj; omega
    · intro hr
      have hr' : s.rStopped = true := hr
      rcases i.rs hr' with h | h | h
      · rcases h with ⟨pc, c', hb⟩ | ⟨k, c', hb⟩ <;> rw [hidle] at hb <;> contradiction
      · exact Or.inr (Or.inl h)
      · exact Or.inr (Or.inr h)

/-- the closer runs: it resumes the body, or goes on inside the close callback -/
theorem stepInClose_InvB {cfg : Cfg} {s : St} (i : InvB s) (t : Tid) (b : Bool)
    (hrun : s.status t = .ready ∨ s.status t = .cancelled) (hbs : b = false → s.status t = .ready) :
    InvB (stepInClose cfg s t b) := by
  unfold stepInClose
  split
  · rename_i t' pc c hs
    split
    · rename_i htt; subst htt
      obtain ⟨hprog, hpc1, hpc5, _, _, cok⟩ := i.bst t' pc c hs
      have hnw : ∀ y, s.status t' ≠ .waitT y := by
        intro y hy; rcases hrun with h | h <;> rw [h] at hy <;> simp at hy
      have halive : alive (s.status t') = true := by rcases hrun with h | h <;> rw [h] <;> rfl
      unfold resumeClose
      apply execClose_InvB
      -- the state in which the body resumes: the closer is running again
      have hst : ∀ y, (s.setStatus t' .ready).status y = if y = t' then .ready else s.status y := fun _ => rfl
      have base : PreB (s.setStatus t' .ready) t' c pc := by
        refine ⟨?_, ?_, ?_, ?_, by rw [hst]; simp, cok, ?_, ?_⟩
        · intro y hy
          show allowed y (s.prog y) = true
          rw [hst] at hy
          by_cases hyt : y = t'
          · rw [hyt]; exact i.typ t' halive
          · simp only [hyt, if_false] at hy; exact i.typ y hy
        · intro y hy; rw [hst] at hy
          by_cases hyt : y = t'
          · simp [hyt] at hy
          · simp only [hyt, if_false] at hy; exact i.waitq y hy
        · intro y z hy; rw [hst] at hy
          by_cases hyt : y = t'
          · simp [hyt] at hy
          · simp only [hyt, if_false] at hy
            rcases i.waitt y z hy with ⟨pc', c', hb⟩ | h
            · rw [hs] at hb; injection hb with e _ _; exact absurd e.symm hyt
            · exact h
        · rw [hst]; split
          · simp
          · exact i.ccan
        · intro x j hx hj
          have := i.bdone t' pc c x j hs hx (by
            by_cases h : j + 1 < pc
            · exact Or.inl h
            · exact Or.inr ⟨by omega, hnw⟩)
          exact okDone_restatus halive (fun _ => rfl) this
        · intro hr
          have hr' : s.rStopped = true := hr
          rcases i.rs hr' with h | h | h
          · rcases h with ⟨pc', c', hb⟩ | ⟨k, c', hb⟩
            · rw [hs] at hb; injection hb with e _ _; exact Or.inl e
            · rw [hs] at hb; contradiction
          · by_cases hRt : Tid.R = t'
            · exact Or.inl hRt.symm
            · right; left; rw [hst]; simp only [hRt, if_false]; exact h
          · by_cases hRt : Tid.R = t'
            · exact Or.inl hRt.symm
            · right; right; rw [hst]; simp only [hRt, if_false]; exact h
      split
      · exact PreB.of_bcore (s := s.setStatus t' .ready) rfl base
      · exact base
    · exact i
  · rename_i t' k c hs
    split
    · rename_i htt; subst htt
      obtain ⟨hprog, hst, cok, hall⟩ := i.cb t' k c hs
      have e : EndB s t' := by
        refine ⟨i.typ, i.waitq, ?_, i.ccan, hst, contOk_ne_V cok, hall⟩
        intro y z hy
        rcases i.waitt y z hy with ⟨pc', c', hb⟩ | h
        · rw [hs] at hb; contradiction
        · exact h
      split
      · -- cancelled by the user inside the user's own close callback
        split
        · exact e.finish (({ s with cstage := .aborted } : St).emit _) ⟨rfl, rfl⟩ (Or.inr rfl)
        · exact e.finish ({ s with cstage := .aborted } : St) ⟨rfl, rfl⟩ (Or.inr rfl)
      · rename_i hb
        have hready : s.status t' = .ready := hbs (by simpa using hb)
        split
        · -- the callback returns
          exact e.runCont hready cok _ ⟨rfl, rfl⟩ rfl
        · -- one more await inside the callback
          rename_i k'
          refine ⟨i.typ, i.waitq, ?_, i.ccan, ?_, ?_, ?_, ?_, ?_, ?_⟩
          · intro y z hy; right; exact e.waitt y z hy
          · intro t2 pc c2 hc; exact absurd hc (by simp)
          · intro t2 pc c2 x hc; exact absurd hc (by simp)
          · intro t2 pc c2 x j hc; exact absurd hc (by simp)
          · intro t2 k2 c2 hc
            have hc' : CStage.cb t' k' c = CStage.cb t2 k2 c2 := hc
            injection hc' with e1 e2 e3; subst e1 e2 e3
            exact ⟨hprog, hst, cok, hall⟩
          · intro hr
            rcases i.rs hr with h | h | h
            · rcases h with ⟨pc', c', hb'⟩ | ⟨k2, c', hb'⟩
              · rw [hs] at hb'; contradiction
              · rw [hs] at hb'; injection hb' with e1 _ _
                left; right; exact ⟨k', c, by rw [e1]⟩
            · exact Or.inr (Or.inl h)
            · exact Or.inr (Or.inr h)
          · intro hc; rcases hc with hc | hc <;> exact absurd hc (by simp)
    · exact i
  · exact i

/-! ### typing consequences -/

theorem allowed_handler {t : Tid} {n k : Nat} (h : allowed t (.handler n k) = true) : t = .D := by
  cases t <;> simp [allowed] at h ⊢
theorem allowed_readerLoop {t : Tid} (h : allowed t .readerLoop = true) : t = .R := by
  cases t <;> simp [allowed] at h ⊢
theorem allowed_dispLoop {t : Tid} (h : allowed t .dispLoop = true) : t = .D := by
  cases t <;> simp [allowed] at h ⊢
theorem allowed_vget {t : Tid} (h : allowed t .vget = true) : t = .V := by
  cases t <;> simp [allowed] at h ⊢
theorem allowed_monStart {t : Tid} (h : allowed t .monStart = true) : t = .L ∨ t = .M := by
  cases t <;> simp [allowed] at h ⊢
theorem allowed_monLoop {t : Tid} (h : allowed t .monLoop = true) : t = .L ∨ t = .M := by
  cases t <;> simp [allowed] at h ⊢
theorem allowed_closeEntry {t : Tid} {c : Cont} (h : allowed t (.closeEntry c) = true) : t = .C ∧ c = .closingTail := by
  cases t <;> cases c <;> simp [allowed] at h ⊢
theorem allowed_recvWait {t : Tid} {u : Nat} (h : allowed t (.recvWait u) = true) : t = .U u := by
  cases t <;> simp [allowed] at h ⊢; exact h
theorem allowed_loginWait {t : Tid} {u : Nat} (h : allowed t (.loginWait u) = true) : t = .U u := by
  cases t <;> simp [allowed] at h ⊢; exact h

/-! ### the steps -/

theorem InvB.wakeGetter {s : St} (i : InvB s) (t : Tid) (ht : t = .D ∨ t = .V) : InvB (s.wakeGetter t) := by
  unfold St.wakeGetter
  split
  · rename_i hw
    exact i.restatus t .ready (by rw [hw]; rfl) (by intro y; rw [hw]; simp) rfl (by simp) (by simp)
      (by intro e; rcases ht with h | h <;> rw [h] at e <;> simp at e) (fun _ => Or.inl rfl)
      (by rw [hw]; simp) (by intro e; rcases ht with h | h <;> rw [h] at e <;> simp at e) (fun _ _ => rfl)
  · exact i

theorem InvB.put {s : St} (i : InvB s) (m : Nat) : InvB (s.put m) := by
  unfold St.put
  refine InvB.wakeGetter ?_ _ (Or.inr rfl)
  refine InvB.wakeGetter ?_ _ (Or.inl rfl)
  ib i

theorem InvB.initiateClose {cfg : Cfg} {s : St} (a : InvA cfg s) (r : InvR s) (i : InvB s) : InvB s.initiateClose := by
  unfold St.initiateClose
  split
  · exact i
  · rename_i h
    simp only [Bool.or_eq_true, not_or, Bool.not_eq_true] at h
    have hidle := idle_of_open a h.1
    have i1 : InvB ({ s with closingTask := true } : St) := InvB.of_bcore (s := s) rfl i
    exact i1.spawn hidle (r h.1).1 .C _ rfl

theorem InvB.startHeartbeats {s : St} (i : InvB s) (hidle : s.cstage = .idle) (hrs : s.rStopped = false) :
    InvB s.startHeartbeats := by
  unfold St.startHeartbeats
  have i1 : InvB ({ s with pingL := true, pingM := true } : St) := InvB.of_bcore (s := s) rfl i
  exact (i1.spawn hidle hrs .L .monStart rfl).spawn hidle hrs .M .monStart rfl

theorem InvB.startDispatching {s : St} (i : InvB s) (cfg : Cfg) (hidle : s.cstage = .idle) (hrs : s.rStopped = false) :
    InvB (s.startDispatching cfg) := by
  unfold St.startDispatching
  split
  · have i1 : InvB ({ s with dispSet := true } : St) := InvB.of_bcore (s := s) rfl i
    exact i1.spawn hidle hrs .D .dispLoop rfl
  · exact i

theorem open_of_not_qClosed {cfg : Cfg} {s : St} (a : InvA cfg s) (hq : s.qClosed = false) :
    s.cstage = .idle ∧ s.closed = false := by
  have hidle : s.cstage = .idle := by
    by_cases h : s.cstage = .idle
    · exact h
    · have := a.qclosed h; rw [hq] at this; contradiction
  refine ⟨hidle, ?_⟩
  cases hc : s.closed with
  | false => rfl
  | true => exact absurd hidle (a.closed_iff.mp hc)

theorem stepReader_InvB {cfg : Cfg} {s : St} (a : InvA cfg s) (i : InvB s)
    (hst : s.status .R = .ready) (hp : s.prog .R = .readerLoop) : InvB (stepReader cfg s) := by
  have hnc : ¬ isCloser s .R := not_closer_of_prog i (by rw [hp]; simp)
  unfold stepReader
  split
  · exact i.finish .R hnc
  · split
    · exact i
    · split
      · refine InvB.put ?_ _; ib i
      · ib i
      · refine enterClose_InvB ?_ ?_ (by exact hst) (by show s.prog .R ≠ _; rw [hp]; simp) rfl
        · exact InvA.of_core (s := s) rfl a
        · ib i
      · refine enterClose_InvB ?_ ?_ (by exact hst) (by show s.prog .R ≠ _; rw [hp]; simp) rfl
        · exact InvA.of_core (s := s) rfl a
        · ib i

theorem dispHandle_InvB {cfg : Cfg} {s : St} (a : InvA cfg s) (r : InvR s) (i : InvB s) (n : Nat)
    (hst : s.status .D = .ready) (hp : s.prog .D = .dispLoop) (hq : s.qClosed = false) :
    InvB (dispHandle cfg s n) := by
  have hnc : ¬ isCloser s .D := not_closer_of_prog i (by rw [hp]; simp)
  obtain ⟨hidle, hopen⟩ := open_of_not_qClosed a hq
  unfold dispHandle
  split
  · exact InvB.of_bcore (s := s.emit (.msgExit n)) rfl i.emit
  · exact i.setProg .D _ (fun _ => rfl) hnc
  · exact enterClose_InvB a i hst (by rw [hp]; simp) rfl
  · exact InvB.of_bcore (s := (s.initiateClose).emit (.msgExit n)) rfl (InvB.initiateClose a r i).emit
  · exact InvB.of_bcore (s := s.emit (.msgRaise n)) rfl i.emit
  · exact InvB.of_bcore (s := ((s.emit (.write .reply)).startHeartbeats).emit (.msgExit n)) rfl
      ((i.emit (o := .write .reply)).startHeartbeats hidle (r hopen).1).emit
  · exact enterClose_InvB (a.emit_neutral (o := .write .reply) rfl) (i.emit (o := .write .reply)) hst
      (by show s.prog .D ≠ _; rw [hp]; simp) rfl

theorem stepDisp_InvB {cfg : Cfg} {s : St} (a : InvA cfg s) (r : InvR s) (i : InvB s)
    (hst : s.status .D = .ready) (hp : s.prog .D = .dispLoop) : InvB (stepDisp cfg s) := by
  have hnc : ¬ isCloser s .D := not_closer_of_prog i (by rw [hp]; simp)
  unfold stepDisp
  split
  · exact i.finish .D hnc
  · rename_i hq
    have hq' : s.qClosed = false := by simpa using hq
    obtain ⟨hidle, hopen⟩ := open_of_not_qClosed a hq'
    split
    · exact i
    · split
      · exact i.restatus .D .waitQ (by rw [hst]; rfl) (by rw [hst]; simp) rfl (by simp) (fun _ => Or.inl rfl) (by simp)
          (fun h => absurd h hnc) (by rw [hst]; simp) (by simp) (by intro h; rw [hidle] at h; rcases h with h | h <;> contradiction)
      · rename_i n q _
        have a1 : InvA cfg ((({ s with queue := q, gone := s.gone ++ [(n, true)] } : St)).emit (.msgEnter n)) :=
          InvA.of_core (s := s.emit (.msgEnter n)) rfl (a.emit_msgEnter hq' n)
        have r1 : InvR ((({ s with queue := q, gone := s.gone ++ [(n, true)] } : St)).emit (.msgEnter n)) := by
          apply InvR.emit; ir r
        exact dispHandle_InvB a1 r1 (InvB.of_bcore (s := s) rfl i) n hst hp hq'

theorem stepMon_InvB {cfg : Cfg} {s : St} (a : InvA cfg s) (i : InvB s) (b : Bool)
    (hst : s.status .M = .ready) (hp : s.prog .M = .monLoop) : InvB (stepMon cfg s b) := by
  unfold stepMon
  split
  · split
    · ib i
    · exact i.emit
  · split
    · ib i
    · exact enterClose_InvB a i hst (by rw [hp]; simp) rfl

theorem loginResume_InvB {cfg : Cfg} {s : St} (a : InvA cfg s) (r : InvR s) (i : InvB s) (u : Nat)
    (hst : s.status (.U u) = .ready) (hp : s.prog (.U u) = .loginWait u) : InvB (loginResume cfg s (.U u) u) := by
  have hnc : ¬ isCloser s (.U u) := not_closer_of_prog i (by rw [hp]; simp)
  unfold loginResume
  split
  · rename_i n _
    have a1 : InvA cfg ((({ s with vres := none, rcvBusy := false, gone := s.gone ++ [(n, true)] } : St)).emit (.loginReply n)) :=
      InvA.of_core (s := s.emit (.loginReply n)) rfl (a.emit_neutral rfl)
    have i1 : InvB ((({ s with vres := none, rcvBusy := false, gone := s.gone ++ [(n, true)] } : St)).emit (.loginReply n)) :=
      InvB.of_bcore (s := s) rfl i
    simp only
    split
    · rename_i hacc
      have hopen : s.closed = false := by
        simp only [Bool.and_eq_true, decide_eq_true_eq, Bool.not_eq_true', Bool.or_eq_false_iff] at hacc
        exact hacc.2.1
      have hidle := idle_of_open a hopen
      have hrs := (r hopen).1
      have i2 := (i1.startHeartbeats hidle hrs).startDispatching cfg (by show s.cstage = .idle; exact hidle) hrs
      exact i2.emit.finish _ (by
        intro hcl
        rcases hcl with ⟨pc, c, hb⟩ | ⟨k, c, hb⟩
        · have : s.cstage = .body (.U u) pc c := by
            have h' := hb
            simp only [St.emit] at h'
            unfold St.startDispatching at h'
            split at h' <;> exact h'
          rw [hidle] at this; contradiction
        · have : s.cstage = .cb (.U u) k c := by
            have h' := hb
            simp only [St.emit] at h'
            unfold St.startDispatching at h'
            split at h' <;> exact h'
          rw [hidle] at this; contradiction)
    · exact enterClose_InvB a1 i1 hst (by show s.prog (.U u) ≠ _; rw [hp]; simp) rfl
  · split
    · have i1 : InvB ({ s with rcvBusy := false } : St) := InvB.of_bcore (s := s) rfl i
      exact (i1.emit (o := .ret u .refused)).finish _ hnc
    · refine enterClose_InvB ?_ ?_ (by exact hst) (by show s.prog (.U u) ≠ _; rw [hp]; simp) rfl
      · exact InvA.of_core (s := s) rfl a
      · ib i

theorem stepRun_InvB {cfg : Cfg} {s : St} (a : InvA cfg s) (r : InvR s) (i : InvB s) (t : Tid) :
    InvB (stepRun cfg s t) := by
  unfold stepRun
  have i0 : InvB ({ s with imm := none } : St) := InvB.of_bcore (s := s) rfl i
  have a0 : InvA cfg ({ s with imm := none } : St) := InvA.of_core (s := s) rfl a
  have r0 : InvR ({ s with imm := none } : St) := by ir r
  generalize ({ s with imm := none } : St) = s0 at i0 a0 r0
  simp only
  split
  · -- cancelled
    rename_i hst
    have hal : alive (s0.status t) = true := by rw [hst]; rfl
    have htyp := i0.typ t hal
    split
    · rename_i hp
      exact i0.emit.finish t (not_closer_of_prog i0 (by rw [hp]; simp))
    · rename_i hp
      exact i0.finish t (not_closer_of_prog i0 (by rw [hp]; simp))
    · rename_i u hp
      have hnc := not_closer_of_prog i0 (show s0.prog t ≠ .inClose by rw [hp]; simp)
      split
      · have i1 : InvB ({ s0 with vres := none, rcvBusy := false, queue := s0.vres.toList ++ s0.queue } : St) :=
          InvB.of_bcore (s := s0) rfl i0
        exact (i1.emit (o := .ret u .eoq)).finish t hnc
      · have i1 : InvB ({ s0 with vres := none, rcvBusy := false, queue := s0.vres.toList ++ s0.queue } : St) :=
          InvB.of_bcore (s := s0) rfl i0
        exact (i1.emit (o := .ret u .cancelled)).finish t hnc
    · rename_i u hp
      have htu : t = .U u := allowed_loginWait (by rw [hp] at htyp; exact htyp)
      have hnc := not_closer_of_prog i0 (show s0.prog t ≠ .inClose by rw [hp]; simp)
      split
      · have i1 : InvB ({ s0 with vres := none, rcvBusy := false, queue := s0.vres.toList ++ s0.queue } : St) :=
          InvB.of_bcore (s := s0) rfl i0
        exact (i1.emit (o := .ret u .refused)).finish t hnc
      · have i1 : InvB ({ s0 with vres := none, rcvBusy := false, queue := s0.vres.toList ++ s0.queue } : St) :=
          InvB.of_bcore (s := s0) rfl i0
        have a1 : InvA cfg ({ s0 with vres := none, rcvBusy := false, queue := s0.vres.toList ++ s0.queue } : St) :=
          InvA.of_core (s := s0) rfl a0
        have i2 := i1.restatus t .ready (by exact hal) (by intro y; show s0.status t ≠ _; rw [hst]; simp) rfl (by simp) (by simp)
          (by simp) (fun h => absurd h hnc) (fun _ => Or.inr (by intro j; rw [htu]; exact stageOf_user u j))
          (by intro e; exact absurd (htu ▸ e : Tid.U u = Tid.R) (by simp)) (by intro _ e; exact absurd (htu ▸ e : Tid.U u = Tid.D) (by simp))
        apply enterClose_InvB
        · exact InvA.of_core (s := s0) rfl a0
        · exact i2
        · show (if t = t then Status.ready else _) = _; simp
        · show s0.prog t ≠ _; rw [hp]; simp
        · show contOk t _; rw [htu]; rfl
    · exact stepInClose_InvB i0 t true (Or.inr hst) (by simp)
    · rename_i h1 h2 h3 h4 h5
      exact i0.finish t (not_closer_of_prog i0 h5)
  · -- ready
    rename_i hst
    have hal : alive (s0.status t) = true := by rw [hst]; rfl
    have htyp := i0.typ t hal
    split
    · rename_i hp
      split
      · rename_i htR; subst htR; exact stepReader_InvB a0 i0 hst hp
      · exact i0
    · rename_i hp
      split
      · rename_i htD; subst htD; exact stepDisp_InvB a0 r0 i0 hst hp
      · exact i0
    · rename_i n k hp
      have htD : t = .D := allowed_handler (by rw [hp] at htyp; exact htyp)
      have hnc := not_closer_of_prog i0 (show s0.prog t ≠ .inClose by rw [hp]; simp)
      split
      · have := (i0.emit (o := .msgExit n)).setProg t .dispLoop (fun _ => by rw [htD]; rfl) hnc
        exact InvB.of_bcore (s := (s0.emit (.msgExit n)).setProg t .dispLoop) rfl this
      · exact i0.setProg t _ (fun _ => by rw [htD]; rfl) hnc
    · rename_i hp
      have hnc := not_closer_of_prog i0 (show s0.prog t ≠ .inClose by rw [hp]; simp)
      have htm := allowed_monStart (by rw [hp] at htyp; exact htyp)
      exact i0.setProg t .monLoop (fun _ => by rcases htm with h | h <;> rw [h] <;> rfl) hnc
    · rename_i hp
      split
      · exact InvB.of_bcore (s := s0) (by
          unfold stepMon; simp only [if_true]; split <;> rfl) i0
      · split
        · rename_i htM; subst htM; exact stepMon_InvB a0 i0 false hst hp
        · exact i0
    · rename_i c hp
      obtain ⟨htC, hcc⟩ := allowed_closeEntry (by rw [hp] at htyp; exact htyp)
      exact enterClose_InvB a0 i0 hst (by rw [hp]; simp) (by rw [htC, hcc]; rfl)
    · exact stepInClose_InvB i0 t false (Or.inl hst) (fun _ => hst)
    · rename_i hp
      have htV : t = .V := allowed_vget (by rw [hp] at htyp; exact htyp)
      have hnc := not_closer_of_prog i0 (show s0.prog t ≠ .inClose by rw [hp]; simp)
      split
      · exact i0.restatus t .waitQ hal (by rw [hst]; simp) rfl (by simp) (fun _ => Or.inr htV) (by simp)
          (fun h => absurd h hnc) (by rw [hst]; simp) (by intro e; rw [htV] at e; simp at e)
          (by intro _ e; rw [htV] at e; simp at e)
      · split
        · exact i0
        · refine InvB.finish ?_ t hnc; ib i0
    · rename_i u hp
      have hnc := not_closer_of_prog i0 (show s0.prog t ≠ .inClose by rw [hp]; simp)
      split
      · rename_i n _
        have i1 : InvB ({ s0 with vres := none, rcvBusy := false, gone := s0.gone ++ [(n, true)] } : St) :=
          InvB.of_bcore (s := s0) rfl i0
        exact (i1.emit (o := .ret u (.msg n))).finish t hnc
      · have i1 : InvB ({ s0 with rcvBusy := false } : St) := InvB.of_bcore (s := s0) rfl i0
        split
        · exact (i1.emit (o := .ret u .eoq)).finish t hnc
        · exact (i1.emit (o := .ret u .cancelled)).finish t hnc
    · rename_i u hp
      have htu : t = .U u := allowed_loginWait (by rw [hp] at htyp; exact htyp)
      subst htu
      exact loginResume_InvB a0 r0 i0 u hst hp
    · exact i0
  · exact i0

theorem startRecv_InvB {cfg : Cfg} {s : St} (a : InvA cfg s) (r : InvR s) (i : InvB s) (u : Nat) (b : Bool)
    (hu : s.status (.U u) = .absent) : InvB (startRecv s u b) := by
  have hdead : alive (s.status (.U u)) = false := by rw [hu]; rfl
  unfold startRecv
  split
  · exact i
  · split
    · exact (i.emit (o := .ret u .state)).setStatus_dead _ _ hdead rfl
    · split
      · refine InvB.userStart ?_ u _ (by exact hu) (by split <;> simp [allowed]) (by split <;> simp)
        ib i
      · split
        · split
          · exact (i.emit (o := .ret u .refused)).setStatus_dead _ _ hdead rfl
          · exact (i.emit (o := .ret u .eoq)).setStatus_dead _ _ hdead rfl
        · -- the caller waits for a fresh helper task (only possible while the queue is open: no close in progress)
          rename_i hq
          obtain ⟨hidle, hopen⟩ := open_of_not_qClosed a (by simpa using hq)
          have hrs := (r hopen).1
          have i1 : InvB (({ s with rcvBusy := true } : St).spawn .V .vget) :=
            (InvB.of_bcore (s := s) rfl i : InvB ({ s with rcvBusy := true } : St)).spawn hidle hrs .V .vget rfl
          have hw := i1.idle_waitt (by exact hidle)
          have hst : ∀ y, ((({ s with rcvBusy := true } : St).spawn .V .vget).setStatus (.U u) (.waitT .V)).status y =
              if y = .U u then .waitT .V else if y = .V then .ready else s.status y := by
            intro y
            show (if y = .U u then Status.waitT .V else if y = .V then Status.ready else s.status y) = _
            rfl
          apply InvB.of_idle (by exact hidle) _ _ _ _ (by exact hrs)
          · intro y hy
            show allowed y (if y = .U u then (if b = true then Prog.loginWait u else Prog.recvWait u) else
              if y = .V then Prog.vget else s.prog y) = true
            by_cases hyu : y = .U u
            · subst hyu; simp only [if_true]; split <;> simp [allowed]
            · simp only [hyu, if_false]
              by_cases hyV : y = .V
              · subst hyV; rfl
              · simp only [hyV, if_false]
                apply i.typ
                have := hy
                show alive (s.status y) = true
                have h2 : (if y = .U u then Status.waitT .V else if y = .V then Status.ready else s.status y) = s.status y := by
                  simp [hyu, hyV]
                rw [← h2]; exact hy
          · intro y hy
            have hy' : (if y = .U u then Status.waitT .V else if y = .V then Status.ready else s.status y) = .waitQ := hy
            by_cases hyu : y = .U u
            · simp [hyu] at hy'
            · by_cases hyV : y = .V
              · simp [hyu, hyV] at hy'
              · simp only [hyu, hyV, if_false] at hy'; exact i.waitq y hy'
          · intro y z hy
            have hy' : (if y = .U u then Status.waitT .V else if y = .V then Status.ready else s.status y) = .waitT z := hy
            by_cases hyu : y = .U u
            · simp only [hyu, if_true] at hy'; injection hy' with e; exact ⟨u, hyu, e.symm⟩
            · by_cases hyV : y = .V
              · simp [hyu, hyV] at hy'
              · simp only [hyu, hyV, if_false] at hy'; exact i.idle_waitt hidle y z hy'
          · show (if Tid.C = .U u then Status.waitT .V else if Tid.C = .V then Status.ready else s.status .C) ≠ _
            simp; exact i.ccan

theorem step_InvB {cfg : Cfg} {s : St} (a : InvA cfg s) (r : InvR s) (i : InvB s) (ev : Ev) : InvB (step cfg s ev) := by
  cases ev with
  | connect =>
    simp only [step]
    split
    · exact i
    · rename_i h
      simp only [bne_iff_ne, ne_eq, Bool.or_eq_true, decide_eq_true_eq, not_or, Decidable.not_not, Bool.not_eq_true] at h
      have hidle := idle_of_open a h.2
      have hrs := (r h.2).1
      have i1 := i.spawn hidle hrs .R .readerLoop rfl
      split
      · exact i1.startDispatching cfg (by exact hidle) hrs
      · exact i1
  | data fs => ib i
  | eof => exact InvB.initiateClose a r i
  | run t =>
    simp only [step]
    split
    · exact stepRun_InvB a r i t
    · exact i
  | callClose u =>
    simp only [step]
    split
    · exact i
    · rename_i hu
      have hu' : s.status (.U u) = .absent := by simpa using hu
      have i1 := i.userStart u .idle hu' rfl (by simp)
      apply enterClose_InvB
      · exact InvA.of_core (s := s) rfl a
      · exact i1
      · show (if Tid.U u = .U u then Status.ready else _) = _; simp
      · show (if Tid.U u = .U u then Prog.idle else _) ≠ _; simp
      · rfl
  | callInitiateClose => exact InvB.initiateClose a r i
  | callLogout =>
    simp only [step]
    refine InvB.initiateClose (cfg := cfg) ?_ ?_ ?_
    · exact InvA.of_core (s := s.emit (.write .logout)) rfl (a.emit_neutral rfl)
    · have := r.emit (o := .write .logout); ir this
    · exact InvB.of_bcore (s := s) rfl i
  | callRecv u =>
    simp only [step]
    split
    · exact i
    · rename_i hu
      exact startRecv_InvB a r i u false (by simpa using hu)
  | callRecvNowait u =>
    simp only [step]
    split
    · exact i
    · split
      · exact i.emit
      · split
        · exact InvB.of_bcore (s := s) rfl i
        · split <;> exact i.emit
  | callLogin u =>
    simp only [step]
    split
    · exact i
    · rename_i hu
      simp only [bne_iff_ne, ne_eq, Bool.or_eq_true, decide_eq_true_eq, not_or, Decidable.not_not] at hu
      refine startRecv_InvB (cfg := cfg) ?_ ?_ ?_ u true (by exact hu.1.1)
      · exact InvA.of_core (s := s.emit (.write .login)) rfl (a.emit_neutral rfl)
      · have := r.emit (o := .write .login); ir this
      · exact InvB.of_bcore (s := s) rfl i
  | callSend => exact InvB.of_bcore (s := s) rfl i
  | cancel u =>
    simp only [step]
    unfold St.cancelTask
    split
    · rename_i hst
      exact i.restatus (.U u) .cancelled (by rw [hst]; rfl) (by rw [hst]; simp) rfl (by simp) (by simp) (by simp)
        (fun _ => Or.inr rfl) (by rw [hst]; simp) (by simp) (by simp)
    · rename_i hst
      rcases i.waitq _ hst with h | h <;> simp at h
    · rename_i w hst
      split
      · rename_i hw
        -- the awaited task is ready: it is the receive helper (a closer's target would already be cancelled)
        have hV : w = .V := by
          rcases i.waitt _ _ hst with ⟨pc, c, hb⟩ | ⟨u', _, h⟩
          · have := (i.bwait _ pc c w hb hst).2; rw [hw] at this; simp at this
          · exact h
        subst hV
        have hncV : ¬ isCloser s .V := by
          rintro (⟨pc, c, hb⟩ | ⟨k, c, hb⟩)
          · exact absurd (i.bst _ pc c hb).2.2.2.2.2 (by simp [contOk]; cases c <;> simp [contOk])
          · exact absurd (i.cb _ k c hb).2.2.1 (by cases c <;> simp [contOk])
        exact i.restatus .V .cancelled (by rw [hw]; rfl) (by rw [hw]; simp) rfl (by simp) (by simp) (by simp)
          (fun h => absurd h hncV) (by rw [hw]; simp) (by simp) (by simp)
      · rename_i hw
        have hV : w = .V := by
          rcases i.waitt _ _ hst with ⟨pc, c, hb⟩ | ⟨u', _, h⟩
          · have := (i.bwait _ pc c w hb hst).2; rw [hw] at this; simp at this
          · exact h
        subst hV
        have hncV : ¬ isCloser s .V := by
          rintro (⟨pc, c, hb⟩ | ⟨k, c, hb⟩)
          · exact absurd (i.bst _ pc c hb).2.2.2.2.2 (by cases c <;> simp [contOk])
          · exact absurd (i.cb _ k c hb).2.2.1 (by cases c <;> simp [contOk])
        exact i.restatus .V .cancelled (by rw [hw]; rfl) (by rw [hw]; simp) rfl (by simp) (by simp) (by simp)
          (fun h => absurd h hncV) (by rw [hw]; simp) (by simp) (by simp)
      · exact i
    · exact i

theorem InvB.init : InvB {} :=
  InvB.of_idle rfl (by intro t h; simp [alive] at h) (by intro t h; simp at h) (by intro t y h; simp at h) (by simp) rfl

/-- **Invariants A, R and B hold together in every reachable state.** -/
theorem runEvs_InvARB (cfg : Cfg) (evs : List Ev) :
    InvA cfg (runEvs cfg {} evs) ∧ InvR (runEvs cfg {} evs) ∧ InvB (runEvs cfg {} evs) := by
  have : ∀ (s : St), InvA cfg s → InvR s → InvB s →
      InvA cfg (runEvs cfg s evs) ∧ InvR (runEvs cfg s evs) ∧ InvB (runEvs cfg s evs) := by
    induction evs with
    | nil => intro s a r i; exact ⟨a, r, i⟩
    | cons ev evs ih => intro s a r i; exact ih _ (step_InvA a ev) (step_InvR a r ev) (step_InvB a r i ev)
  exact this _ (InvA.init cfg) InvR.init InvB.init

end NasdaqModel.Sess
