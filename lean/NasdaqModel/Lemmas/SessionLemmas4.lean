import NasdaqModel.Lemmas.SessionLemmas3
/-
Part D of the session-machine invariants: who is alive, who waits for whom, and how far the close body has come
(C05 completion / deadlock freedom, C06 nothing left running).
-/
namespace NasdaqModel.Sess

/-- which programs a task may be in -/
def allowed (t : Tid) (p : Prog) : Bool :=
  match t, p with
  | .R, .readerLoop => true | .R, .inClose => true
  | .D, .dispLoop => true | .D, .handler _ _ => true | .D, .inClose => true
  | .L, .monStart => true | .L, .monLoop => true
  | .M, .monStart => true | .M, .monLoop => true | .M, .inClose => true
  | .C, .closeEntry _ => true | .C, .inClose => true
  | .V, .vget => true
  | .U _, .inClose => true | .U u, .recvWait u' => u == u' | .U u, .loginWait u' => u == u' | .U _, .idle => true
  | _, _ => false

/-- the stage of the close body that stops task `x` -/
def stageOf : Tid → Option Nat
  | .D => some 0 | .V => some 1 | .L => some 2 | .M => some 3 | .R => some 4
  | _ => none

theorem stopTarget_stageOf (j : Nat) (x : Tid) : stopTarget j = some x ↔ stageOf x = some j := by
  constructor
  · intro h
    unfold stopTarget at h
    split at h <;> simp at h <;> subst h <;> rfl
  · intro h
    cases x <;> simp [stageOf] at h <;> subst h <;> rfl

theorem stageOf_inj {x y : Tid} {j : Nat} (hx : stageOf x = some j) (hy : stageOf y = some j) : x = y := by
  cases x <;> cases y <;> simp_all [stageOf] <;> omega

theorem stageOf_user (u : Nat) (j : Nat) : stageOf (.U u) ≠ some j := by simp [stageOf]

structure InvB (s : St) : Prop where
  /-- a live task runs one of its own programs -/
  typ : ∀ t, alive (s.status t) = true → allowed t (s.prog t) = true
  /-- only the dispatcher and the receive helper ever wait on the queue -/
  waitq : ∀ t, s.status t = .waitQ → t = .D ∨ t = .V
  /-- a task waits for another task only as the closer or as a user call for the receive helper -/
  waitt : ∀ t y, s.status t = .waitT y → (∃ pc c, s.cstage = .body t pc c) ∨ (∃ u, t = .U u ∧ y = .V)
  /-- close body in progress -/
  bprog : ∀ t pc c, s.cstage = .body t pc c → s.prog t = .inClose ∧ 1 ≤ pc ∧ pc ≤ 5 ∧ alive (s.status t) = true ∧ s.status t ≠ .waitQ
  /-- the closer awaits the cancelled target of the previous stage -/
  bwait : ∀ t pc c x, s.cstage = .body t pc c → s.status t = .waitT x →
    stageOf x = some (pc - 1) ∧ s.status x = .cancelled
  /-- earlier targets have ended (or are the closer itself); so has the previous one once the closer is runnable again -/
  bdone : ∀ t pc c x j, s.cstage = .body t pc c → stageOf x = some j →
    (j + 1 < pc ∨ (j + 1 = pc ∧ ∀ y, s.status t ≠ .waitT y)) → x = t ∨ alive (s.status x) = false
  /-- inside the close callback: the closer is runnable; every stop target has ended (or is the closer) -/
  cb : ∀ t k c, s.cstage = .cb t k c →
    s.prog t = .inClose ∧ (s.status t = .ready ∨ s.status t = .cancelled) ∧
    (∀ x j, stageOf x = some j → x = t ∨ alive (s.status x) = false)
  /-- close complete: monitors and receive helper have ended; dispatcher / reader have ended or (if one of them ran the
      close) are one step from ending -/
  fin : (s.cstage = .finished ∨ s.cstage = .aborted) →
    alive (s.status .L) = false ∧ alive (s.status .M) = false ∧ alive (s.status .V) = false ∧
    (alive (s.status .D) = false ∨ (s.status .D = .ready ∧ s.prog .D = .dispLoop)) ∧
    (alive (s.status .R) = false ∨ (s.status .R = .ready ∧ s.prog .R = .readerLoop ∧ s.rStopped = true))

/-- the part of the state `InvB` reads -/
def bcore (s : St) : (Tid → Status) × (Tid → Prog) × CStage × Bool := (s.status, s.prog, s.cstage, s.rStopped)

theorem InvB.of_bcore {s s' : St} (h : bcore s' = bcore s) (i : InvB s) : InvB s' := by
  simp only [bcore, Prod.mk.injEq] at h
  obtain ⟨h1, h2, h3, h4⟩ := h
  exact ⟨by rw [h1, h2]; exact i.typ, by rw [h1]; exact i.waitq, by rw [h1, h3]; exact i.waitt,
    by rw [h1, h2, h3]; exact i.bprog, by rw [h1, h3]; exact i.bwait, by rw [h1, h3]; exact i.bdone,
    by rw [h1, h2, h3]; exact i.cb, by rw [h1, h2, h3, h4]; exact i.fin⟩

theorem InvB.emit {s : St} (i : InvB s) (o : Obs) : InvB (s.emit o) := InvB.of_bcore (s := s) rfl i

/-- a task ends: it was not the closer in the middle of the body, nor inside the close callback -/
theorem InvB.finish {s : St} (i : InvB s) (t : Tid)
    (h1 : ∀ pc c, s.cstage ≠ .body t pc c) (h2 : ∀ k c, s.cstage ≠ .cb t k c) : InvB (s.finish t) := by
  obtain ⟨typ, waitq, waitt, bprog, bwait, bdone, cb, fin⟩ := i
  refine ⟨?_, ?_, ?_, ?_, ?_, ?_, ?_, ?_⟩
  · intro x hx; simp only [St.finish] at hx ⊢; grind [alive]
  · intro x hx; simp only [St.finish] at hx; grind
  · intro x y hx; simp only [St.finish] at hx ⊢; grind
  · intro t' pc c hc
    have := bprog t' pc c hc
    have hne : t' ≠ t := by intro e; subst e; exact h1 pc c hc
    simp only [St.finish, hne, if_false]
    grind [alive]
  · intro t' pc c x hc hw
    have hne : t' ≠ t := by intro e; subst e; exact h1 pc c hc
    simp only [St.finish, hne, if_false] at hw ⊢
    have := bwait t' pc c x hc
    grind
  · intro t' pc c x j hc hs hj
    have hne : t' ≠ t := by intro e; subst e; exact h1 pc c hc
    have hc' : s.cstage = .body t' pc c := hc
    by_cases hxt : x = t
    · right; simp [St.finish, hxt, alive]
    · by_cases hxw : s.status x = .waitT t
      · -- a stop target that waits for a task is the closer itself
        rcases waitt x t hxw with ⟨pc', c', hb⟩ | ⟨u, hu, _⟩
        · left; rw [hc'] at hb; injection hb with e _ _; exact e.symm
        · subst hu; exact absurd hs (stageOf_user u j)
      · have hsx : (s.finish t).status x = s.status x := by simp [St.finish, hxt, hxw]
        rw [hsx]
        apply bdone t' pc c x j hc' hs
        rcases hj with hj | ⟨hj, hy⟩
        · exact Or.inl hj
        · right
          refine ⟨hj, ?_⟩
          by_cases hw : s.status t' = .waitT t
          · -- then `t` is the target of stage `j`, hence `x = t`: excluded
            have := (bwait t' pc c t hc' hw).1
            have hjt : stageOf t = some j := by rw [this]; congr 1; omega
            exact absurd (stageOf_inj hs hjt) hxt
          · intro y
            have := hy y
            simpa [St.finish, hne, hw] using this
  · intro t' k c hc
    have := cb t' k c hc
    have hne : t' ≠ t := by intro e; subst e; exact h2 k c hc
    simp only [St.finish, hne, if_false]
    grind [alive]
  · intro hc
    have := fin hc
    simp only [St.finish]
    grind [alive]

end NasdaqModel.Sess
