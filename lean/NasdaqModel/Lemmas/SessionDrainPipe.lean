import NasdaqModel.Lemmas.SessionLemmas3
/-
The reader → queue → dispatcher pipeline of a session in callback mode, abstracted (C04, "every fully received message is
delivered within a bounded number of reader ticks").

`Pipe` keeps what the progress argument needs: the frames buffered, the queue, the handler in progress, whether the dispatcher
sleeps in `queue.get()`, and the messages delivered so far.  `astep` is what a reader tick (`r`), a dispatcher step (`d`) and
arriving frames (`data`) do to it; every other event of the session machine is a `nop` (`Lemmas/SessionDrainSim.lean` proves
that the session machine, while the session stays open, refines this).  Everything here is pure list reasoning.
-/
namespace NasdaqModel.Sess

structure Pipe where
  buf : List Frame
  queue : List Nat
  /-- handler in progress: the message and the number of awaits it still has to do -/
  ph : Option (Nat × Nat)
  /-- the dispatcher is suspended in `queue.get()` -/
  idle : Bool
  /-- messages for which the message callback was entered, oldest first -/
  out : List Nat
  deriving DecidableEq, Repr

inductive AEv where
  | r | d | data (fs : List Frame) | nop
  deriving DecidableEq, Repr

/-- dispatcher steps the callback for one message takes: one to take it and enter; `await j` needs `j` more wake-ups and one to return -/
def behCost : Beh → Nat
  | .await j => j + 2
  | _ => 1

/-- the handler left in progress after the entering step -/
def phOf (b : Beh) (n : Nat) : Option (Nat × Nat) :=
  match b with
  | .await j => some (n, j)
  | _ => none

/-- dispatcher steps the handler in progress still needs -/
def phCost : Option (Nat × Nat) → Nat
  | some (_, j) => j + 1
  | none => 0

theorem phCost_phOf (b : Beh) (n : Nat) : phCost (phOf b n) + 1 = behCost b := by
  cases b <;> simp [phOf, phCost, behCost]

def aR (p : Pipe) : Pipe :=
  match p.buf with
  | [] => p
  | .msg n :: rest => { p with buf := rest, queue := p.queue ++ [n], idle := false }
  | _ :: rest => { p with buf := rest }

def aD (beh : Nat → Beh) (p : Pipe) : Pipe :=
  match p.ph with
  | some (_, 0) => { p with ph := none }
  | some (n, j + 1) => { p with ph := some (n, j) }
  | none =>
    if p.idle then p
    else match p.queue with
      | [] => { p with idle := true }
      | n :: q => { p with queue := q, out := p.out ++ [n], ph := phOf (beh n) n }

def astep (beh : Nat → Beh) (p : Pipe) : AEv → Pipe
  | .r => aR p
  | .d => aD beh p
  | .data fs => { p with buf := p.buf ++ fs }
  | .nop => p

def arun (beh : Nat → Beh) (p : Pipe) (evs : List AEv) : Pipe := evs.foldl (astep beh) p

/-- a sleeping dispatcher has an empty queue and no handler in progress -/
def PipeOk (p : Pipe) : Prop := p.idle = true → p.queue = [] ∧ p.ph = none

/-- the pending stream: what will be delivered next, in order -/
def pend (p : Pipe) : List Nat := p.queue ++ msgsOf p.buf

/-- total dispatcher cost of a list of messages -/
def cost (beh : Nat → Beh) (l : List Nat) : Nat := (l.map (fun n => behCost (beh n))).sum

theorem behCost_pos (b : Beh) : 1 ≤ behCost b := by cases b <;> simp [behCost]

theorem cost_nil (beh : Nat → Beh) : cost beh [] = 0 := rfl
theorem cost_cons (beh : Nat → Beh) (n : Nat) (l : List Nat) : cost beh (n :: l) = behCost (beh n) + cost beh l := by
  simp [cost]
theorem cost_append (beh : Nat → Beh) (a b : List Nat) : cost beh (a ++ b) = cost beh a + cost beh b := by
  simp [cost]
theorem length_le_cost (beh : Nat → Beh) (l : List Nat) : l.length ≤ cost beh l := by
  induction l with
  | nil => simp [cost]
  | cons n l ih => rw [cost_cons]; have := behCost_pos (beh n); simp; omega

theorem msgsOf_nil : msgsOf [] = [] := rfl
theorem msgsOf_cons_msg (n : Nat) (l : List Frame) : msgsOf (.msg n :: l) = n :: msgsOf l := by simp [msgsOf]
theorem msgsOf_cons_other {f : Frame} (l : List Frame) (h : ∀ n, f ≠ .msg n) : msgsOf (f :: l) = msgsOf l := by
  cases f with
  | msg n => exact absurd rfl (h n)
  | _ => simp [msgsOf]

/-- messages among the first `k` frames: monotone in `k` -/
theorem msgsOf_take_length_mono (l : List Frame) {i j : Nat} (h : i ≤ j) : (msgsOf (l.take i)).length ≤ (msgsOf (l.take j)).length := by
  induction l generalizing i j with
  | nil => simp
  | cons f l ih =>
    cases i with
    | zero => simp [msgsOf_nil]
    | succ i =>
      cases j with
      | zero => omega
      | succ j =>
        have := ih (i := i) (j := j) (by omega)
        cases f with
        | msg n => simp only [List.take_succ_cons, msgsOf_cons_msg, List.length_cons]; omega
        | hb => rw [List.take_succ_cons, List.take_succ_cons, msgsOf_cons_other _ (by simp), msgsOf_cons_other _ (by simp)]; exact this
        | logout => rw [List.take_succ_cons, List.take_succ_cons, msgsOf_cons_other _ (by simp), msgsOf_cons_other _ (by simp)]; exact this
        | bad => rw [List.take_succ_cons, List.take_succ_cons, msgsOf_cons_other _ (by simp), msgsOf_cons_other _ (by simp)]; exact this

theorem msgsOf_take_length_le (l : List Frame) (k : Nat) : (msgsOf (l.take k)).length ≤ (msgsOf l).length := by
  have := msgsOf_take_length_mono l (i := k) (j := max k l.length) (by omega)
  rwa [List.take_of_length_le (l := l) (i := max k l.length) (by omega)] at this

theorem msgsOf_take_append_le (l fs : List Frame) (k : Nat) :
    (msgsOf (l.take k)).length ≤ (msgsOf ((l ++ fs).take k)).length := by
  rw [List.take_append, msgsOf_append, List.length_append]; omega


/-! ### the abstract steps, by cases -/

theorem aR_nil {p : Pipe} (h : p.buf = []) : aR p = p := by simp [aR, h]
theorem aR_msg {p : Pipe} {n : Nat} {rest : List Frame} (h : p.buf = .msg n :: rest) :
    aR p = { p with buf := rest, queue := p.queue ++ [n], idle := false } := by simp [aR, h]
theorem aR_other {p : Pipe} {f : Frame} {rest : List Frame} (h : p.buf = f :: rest) (hf : ∀ n, f ≠ .msg n) :
    aR p = { p with buf := rest } := by
  cases f with
  | msg n => exact absurd rfl (hf n)
  | hb => simp [aR, h]
  | logout => simp [aR, h]
  | bad => simp [aR, h]

theorem aD_ret {beh : Nat → Beh} {p : Pipe} {n : Nat} (h : p.ph = some (n, 0)) : aD beh p = { p with ph := none } := by
  simp [aD, h]
theorem aD_wait {beh : Nat → Beh} {p : Pipe} {n j : Nat} (h : p.ph = some (n, j + 1)) : aD beh p = { p with ph := some (n, j) } := by
  simp [aD, h]
theorem aD_idle {beh : Nat → Beh} {p : Pipe} (h : p.ph = none) (hi : p.idle = true) : aD beh p = p := by
  simp [aD, h, hi]
theorem aD_sleep {beh : Nat → Beh} {p : Pipe} (h : p.ph = none) (hi : p.idle = false) (hq : p.queue = []) :
    aD beh p = { p with idle := true } := by
  simp [aD, h, hi, hq]
theorem aD_take {beh : Nat → Beh} {p : Pipe} {n : Nat} {q : List Nat} (h : p.ph = none) (hi : p.idle = false) (hq : p.queue = n :: q) :
    aD beh p = { p with queue := q, out := p.out ++ [n], ph := phOf (beh n) n } := by
  simp [aD, h, hi, hq]

/-! ### what one abstract step does to the pending stream -/

theorem aR_pend (p : Pipe) : pend (aR p) = pend p := by
  cases hb : p.buf with
  | nil => rw [aR_nil hb]
  | cons f rest =>
    cases f with
    | msg n => rw [aR_msg hb]; simp [pend, hb, msgsOf_cons_msg]
    | hb => rw [aR_other hb (by simp)]; simp only [pend, hb]; rw [msgsOf_cons_other _ (by simp)]
    | logout => rw [aR_other hb (by simp)]; simp only [pend, hb]; rw [msgsOf_cons_other _ (by simp)]
    | bad => rw [aR_other hb (by simp)]; simp only [pend, hb]; rw [msgsOf_cons_other _ (by simp)]

theorem aR_out (p : Pipe) : (aR p).out = p.out := by unfold aR; split <;> rfl
theorem aR_ph (p : Pipe) : (aR p).ph = p.ph := by unfold aR; split <;> rfl

theorem aR_ok {p : Pipe} (h : PipeOk p) : PipeOk (aR p) := by
  unfold aR
  split
  · exact h
  · intro hi; simp at hi
  · exact h

/-- a matched reader tick: one frame fewer to go, the count of reachable messages is kept -/
theorem aR_cnt_match (p : Pipe) (k : Nat) :
    (aR p).queue.length + (msgsOf ((aR p).buf.take k)).length = p.queue.length + (msgsOf (p.buf.take (k + 1))).length := by
  cases hb : p.buf with
  | nil => rw [aR_nil hb]; simp [hb]
  | cons f rest =>
    cases f with
    | msg n => rw [aR_msg hb]; simp [msgsOf_cons_msg]; omega
    | hb => rw [aR_other hb (by simp), List.take_succ_cons, msgsOf_cons_other _ (by simp)]
    | logout => rw [aR_other hb (by simp), List.take_succ_cons, msgsOf_cons_other _ (by simp)]
    | bad => rw [aR_other hb (by simp), List.take_succ_cons, msgsOf_cons_other _ (by simp)]

/-- an extra reader tick: the count of reachable messages does not shrink -/
theorem aR_cnt_skip (p : Pipe) (k : Nat) :
    p.queue.length + (msgsOf (p.buf.take k)).length ≤ (aR p).queue.length + (msgsOf ((aR p).buf.take k)).length := by
  have h1 := aR_cnt_match p k
  have h2 := msgsOf_take_length_mono p.buf (i := k) (j := k + 1) (by omega)
  omega

theorem aD_ok {beh : Nat → Beh} {p : Pipe} (h : PipeOk p) : PipeOk (aD beh p) := by
  cases hph : p.ph with
  | some nj =>
    have hni : p.idle ≠ true := fun hi => by have := (h hi).2; rw [hph] at this; simp at this
    obtain ⟨n, j⟩ := nj
    cases j with
    | zero => rw [aD_ret hph]; intro hi; exact absurd hi hni
    | succ j => rw [aD_wait hph]; intro hi; exact absurd hi hni
  | none =>
    cases hi : p.idle with
    | true => rw [aD_idle hph hi]; exact h
    | false =>
      cases hq : p.queue with
      | nil => rw [aD_sleep hph hi hq]; intro _; exact ⟨hq, hph⟩
      | cons n q => rw [aD_take hph hi hq]; intro hi'; simp [hi] at hi'

/-- the obligation: the first `N` pending messages can still be delivered by `k` reader ticks followed by `m` dispatcher steps -/
structure Owes (beh : Nat → Beh) (p : Pipe) (k N m : Nat) : Prop where
  ok : PipeOk p
  cnt : N ≤ p.queue.length + (msgsOf (p.buf.take k)).length
  cst : N = 0 ∨ phCost p.ph + cost beh ((pend p).take N) ≤ m

/-- what has been delivered plus the `N` messages owed -/
def target (p : Pipe) (N : Nat) : List Nat := p.out ++ (pend p).take N

theorem owes_r {beh : Nat → Beh} {p : Pipe} {k N m : Nat} (h : Owes beh p (k + 1) N m) :
    Owes beh (aR p) k N m ∧ target p N = target (aR p) N := by
  refine ⟨⟨aR_ok h.ok, by rw [aR_cnt_match]; exact h.cnt, by rw [aR_ph, aR_pend]; exact h.cst⟩, ?_⟩
  unfold target; rw [aR_out, aR_pend]

theorem owes_r_skip {beh : Nat → Beh} {p : Pipe} {k N m : Nat} (h : Owes beh p k N m) :
    Owes beh (aR p) k N m ∧ target p N = target (aR p) N := by
  refine ⟨⟨aR_ok h.ok, Nat.le_trans h.cnt (aR_cnt_skip p k), by rw [aR_ph, aR_pend]; exact h.cst⟩, ?_⟩
  unfold target; rw [aR_out, aR_pend]

theorem owes_data {beh : Nat → Beh} {p : Pipe} {k N m : Nat} (fs : List Frame) (h : Owes beh p k N m) :
    Owes beh { p with buf := p.buf ++ fs } k N m ∧ target p N = target { p with buf := p.buf ++ fs } N := by
  have hle : N ≤ (pend p).length := by
    have := msgsOf_take_length_le p.buf k
    have := h.cnt
    simp [pend]; omega
  have hp : (pend { p with buf := p.buf ++ fs }).take N = (pend p).take N := by
    show (p.queue ++ msgsOf (p.buf ++ fs)).take N = _
    rw [msgsOf_append, ← List.append_assoc]
    exact List.take_append_of_le_length hle
  refine ⟨⟨h.ok, ?_, ?_⟩, ?_⟩
  · have := msgsOf_take_append_le p.buf fs k
    have := h.cnt
    show N ≤ p.queue.length + (msgsOf ((p.buf ++ fs).take k)).length
    omega
  · rw [hp]; exact h.cst
  · unfold target; rw [hp]

/-- a step that changes neither the pending stream nor the output and does not make the handler in progress longer -/
theorem owes_same {beh : Nat → Beh} {p p' : Pipe} {k N m : Nat} (h : Owes beh p k N m) (ok' : PipeOk p')
    (hq : p'.queue = p.queue) (hb : p'.buf = p.buf) (ho : p'.out = p.out) (hc : phCost p'.ph ≤ phCost p.ph) :
    Owes beh p' k N m ∧ target p N = target p' N := by
  have hp : pend p' = pend p := by simp [pend, hq, hb]
  refine ⟨⟨ok', by rw [hq, hb]; exact h.cnt, ?_⟩, by simp [target, hp, ho]⟩
  rcases h.cst with h | h
  · exact Or.inl h
  · right; rw [hp]; omega

/-- a dispatcher step, matched (`m + 1 → m`, only after all reader ticks: `k = 0`) or extra (`m` kept): the target only grows -/
theorem owes_d {beh : Nat → Beh} {p : Pipe} {k N m : Nat} (h : Owes beh p k N m) :
    ∃ N', Owes beh (aD beh p) k N' m ∧ target p N <+: target (aD beh p) N' ∧
      (k = 0 → ∀ m', m = m' + 1 → Owes beh (aD beh p) 0 N' m') := by
  have ok' := aD_ok (beh := beh) h.ok
  -- the cases in which the handler in progress moves on
  have moving : ∀ p', aD beh p = p' → p'.queue = p.queue → p'.buf = p.buf → p'.out = p.out → phCost p'.ph + 1 = phCost p.ph →
      ∃ N', Owes beh (aD beh p) k N' m ∧ target p N <+: target (aD beh p) N' ∧
        (k = 0 → ∀ m', m = m' + 1 → Owes beh (aD beh p) 0 N' m') := by
    intro p' e hq hb ho hc
    rw [e] at ok' ⊢
    obtain ⟨o1, t1⟩ := owes_same h ok' hq hb ho (by omega)
    refine ⟨N, o1, by rw [t1]; exact List.prefix_refl _, ?_⟩
    intro hk m' hm
    subst hk
    have hp : pend p' = pend p := by simp [pend, hq, hb]
    refine ⟨ok', o1.cnt, ?_⟩
    rcases h.cst with h | h
    · exact Or.inl h
    · right; rw [hp]; omega
  -- the cases in which nothing is owed any more once the reader ticks are over
  have resting : ∀ p', aD beh p = p' → p'.queue = p.queue → p'.buf = p.buf → p'.out = p.out → p'.ph = p.ph → p.queue = [] →
      ∃ N', Owes beh (aD beh p) k N' m ∧ target p N <+: target (aD beh p) N' ∧
        (k = 0 → ∀ m', m = m' + 1 → Owes beh (aD beh p) 0 N' m') := by
    intro p' e hq hb ho hph hqe
    rw [e] at ok' ⊢
    obtain ⟨o1, t1⟩ := owes_same h ok' hq hb ho (by rw [hph]; omega)
    refine ⟨N, o1, by rw [t1]; exact List.prefix_refl _, ?_⟩
    intro hk m' hm
    subst hk
    have : N = 0 := by have := h.cnt; simp [hqe, msgsOf_nil] at this; exact this
    exact ⟨ok', o1.cnt, Or.inl this⟩
  cases hph : p.ph with
  | some nj =>
    obtain ⟨n, j⟩ := nj
    cases j with
    | zero => exact moving _ (aD_ret hph) rfl rfl rfl (by simp [phCost, hph])
    | succ j => exact moving _ (aD_wait hph) rfl rfl rfl (by simp [phCost, hph])
  | none =>
    cases hi : p.idle with
    | true => exact resting _ (aD_idle hph hi) rfl rfl rfl rfl (h.ok hi).1
    | false =>
      cases hq : p.queue with
      | nil => exact resting _ (aD_sleep hph hi hq) rfl rfl rfl rfl hq
      | cons n q =>
        -- the next message is taken and its callback entered
        rw [aD_take hph hi hq] at ok' ⊢
        have hpend : pend p = n :: pend { p with queue := q, out := p.out ++ [n], ph := phOf (beh n) n } := by
          simp [pend, hq]
        cases N with
        | zero =>
          refine ⟨0, ⟨ok', by simp, Or.inl rfl⟩, ?_, fun _ m' _ => ⟨ok', by simp, Or.inl rfl⟩⟩
          simp [target]
        | succ N0 =>
          have hcnt : N0 ≤ q.length + (msgsOf (p.buf.take k)).length := by
            have := h.cnt; simp [hq] at this; omega
          have hc : phCost (phOf (beh n) n) + cost beh ((pend { p with queue := q, out := p.out ++ [n], ph := phOf (beh n) n }).take N0) + 1 ≤ m := by
            rcases h.cst with h | h
            · omega
            · rw [hph, hpend, List.take_succ_cons, cost_cons] at h
              have := phCost_phOf (beh n) n
              simp only [phCost] at h
              omega
          refine ⟨N0, ⟨ok', hcnt, Or.inr (by dsimp only; omega)⟩, ?_, ?_⟩
          · simp only [target]
            rw [hpend, List.take_succ_cons]
            simp
          · intro hk m' hm
            subst hk
            exact ⟨ok', hcnt, Or.inr (by dsimp only; omega)⟩

theorem owes_skip {beh : Nat → Beh} {p : Pipe} {k N m : Nat} (e : AEv) (h : Owes beh p k N m) :
    ∃ N', Owes beh (astep beh p e) k N' m ∧ target p N <+: target (astep beh p e) N' := by
  cases e with
  | r => exact ⟨N, (owes_r_skip h).1, by rw [(owes_r_skip h).2]; exact List.prefix_refl _⟩
  | d => obtain ⟨N', a, b, _⟩ := owes_d h; exact ⟨N', a, b⟩
  | data fs => exact ⟨N, (owes_data fs h).1, by rw [(owes_data fs h).2]; exact List.prefix_refl _⟩
  | nop => exact ⟨N, h, List.prefix_refl _⟩

theorem owes_done {beh : Nat → Beh} {p : Pipe} {N : Nat} (h : Owes beh p 0 N 0) : N = 0 := by
  obtain ⟨_, cnt, cst⟩ := h
  rcases cst with h | h
  · exact h
  · have h1 := length_le_cost beh ((pend p).take N)
    have h2 : N ≤ (pend p).length := by simp [pend, msgsOf_nil] at cnt ⊢; omega
    rw [List.length_take] at h1
    omega

/-- **Progress of the pipeline.** If the events contain, in this order but interleaved with anything else, `k` reader ticks and
    then `m` dispatcher steps, and `m` covers the handler in progress plus the callbacks of the first `N` pending messages, all of
    which are in the queue or among the first `k` buffered frames: then those `N` messages have been delivered, in order, right
    after what was delivered before. -/
theorem arun_delivers (beh : Nat → Beh) : ∀ (aevs : List AEv) (p : Pipe) (k N m : Nat), Owes beh p k N m →
    (List.replicate k AEv.r ++ List.replicate m AEv.d).Sublist aevs → target p N <+: (arun beh p aevs).out := by
  intro aevs
  induction aevs with
  | nil =>
    intro p k N m h hs
    have hnil : List.replicate k AEv.r ++ List.replicate m AEv.d = [] := List.sublist_nil.mp hs
    have hk : k = 0 := by cases k with | zero => rfl | succ k => simp [List.replicate_succ] at hnil
    have hm : m = 0 := by subst hk; cases m with | zero => rfl | succ m => simp [List.replicate_succ] at hnil
    subst hk; subst hm
    have := owes_done h
    subst this
    simp [target, arun]
  | cons e aevs ih =>
    intro p k N m h hs
    show target p N <+: (arun beh (astep beh p e) aevs).out
    generalize hsched : List.replicate k AEv.r ++ List.replicate m AEv.d = sched at hs
    cases hs with
    | cons _ hs' =>
      obtain ⟨N', h', hp⟩ := owes_skip e h
      exact hp.trans (ih _ k N' m h' (by rw [hsched]; exact hs'))
    | cons_cons _ hs' =>
      rename_i l1
      cases k with
      | succ k =>
        have he : e = .r ∧ l1 = List.replicate k AEv.r ++ List.replicate m AEv.d := by
          simp [List.replicate_succ] at hsched; exact ⟨hsched.1.symm, hsched.2.symm⟩
        obtain ⟨he1, he2⟩ := he
        subst he1
        have := owes_r h
        rw [this.2]
        exact ih _ k N m this.1 (by rw [← he2]; exact hs')
      | zero =>
        cases m with
        | zero => simp at hsched
        | succ m =>
          have he : e = .d ∧ l1 = List.replicate 0 AEv.r ++ List.replicate m AEv.d := by
            simp [List.replicate_succ] at hsched; exact ⟨hsched.1.symm, by simp [hsched.2]⟩
          obtain ⟨he1, he2⟩ := he
          subst he1
          obtain ⟨N', _, hp, hm⟩ := owes_d h
          exact hp.trans (ih _ 0 N' m (hm rfl m rfl) (by rw [← he2]; exact hs'))


/-! ### conservation, and the exact result of the canonical schedule -/

/-- frames that arrive during a run -/
def dataOf : List AEv → List Frame
  | [] => []
  | .data fs :: l => fs ++ dataOf l
  | _ :: l => dataOf l

def AEv.notData : AEv → Bool
  | .data _ => false
  | _ => true

theorem aD_buf (beh : Nat → Beh) (p : Pipe) : (aD beh p).buf = p.buf := by
  unfold aD
  split
  · rfl
  · rfl
  · split
    · rfl
    · split <;> rfl

theorem aD_conserve (beh : Nat → Beh) (p : Pipe) : (aD beh p).out ++ pend (aD beh p) = p.out ++ pend p := by
  unfold aD
  split
  · rfl
  · rfl
  · split
    · rfl
    · split
      · rfl
      · rename_i n q hq; simp [pend, hq]

/-- nothing is lost or invented: delivered ++ pending = delivered before ++ pending before ++ what arrived meanwhile -/
theorem arun_conserve (beh : Nat → Beh) : ∀ (aevs : List AEv) (p : Pipe),
    (arun beh p aevs).out ++ pend (arun beh p aevs) = p.out ++ pend p ++ msgsOf (dataOf aevs) := by
  intro aevs
  induction aevs with
  | nil => intro p; simp [arun, dataOf, msgsOf_nil]
  | cons e aevs ih =>
    intro p
    show (arun beh (astep beh p e) aevs).out ++ pend (arun beh (astep beh p e) aevs) = _
    rw [ih]
    cases e with
    | r => simp only [astep, dataOf]; rw [aR_out, aR_pend]
    | d => simp only [astep, dataOf]; rw [aD_conserve]
    | data fs => simp [astep, dataOf, pend, msgsOf_append]
    | nop => simp [astep, dataOf]

theorem aR_buf (p : Pipe) : (aR p).buf = p.buf.drop 1 := by
  cases hb : p.buf with
  | nil => rw [aR_nil hb]; simp [hb]
  | cons f rest =>
    cases f with
    | msg n => rw [aR_msg hb]; simp
    | hb => rw [aR_other hb (by simp)]; simp
    | logout => rw [aR_other hb (by simp)]; simp
    | bad => rw [aR_other hb (by simp)]; simp

/-- `k` reader ticks take exactly the first `k` frames (all of them if there are fewer) — whatever arrives meanwhile, provided
    the buffer holds at least `k` frames if anything arrives at all -/
theorem arun_buf (beh : Nat → Beh) : ∀ (aevs : List AEv) (p : Pipe) (k m : Nat),
    aevs.filter AEv.notData = List.replicate k AEv.r ++ List.replicate m AEv.d →
    ((∃ e ∈ aevs, AEv.notData e = false) → k ≤ p.buf.length) →
    (arun beh p aevs).buf = p.buf.drop k ++ dataOf aevs := by
  intro aevs
  induction aevs with
  | nil => intro p k m h hk
           have : k = 0 := by cases k with | zero => rfl | succ k => simp [List.replicate_succ] at h
           subst this; simp [arun, dataOf]
  | cons e aevs ih =>
    intro p k m h hk
    show (arun beh (astep beh p e) aevs).buf = _
    cases e with
    | data fs =>
      have hk' : k ≤ p.buf.length := hk ⟨.data fs, by simp, rfl⟩
      have h' : aevs.filter AEv.notData = List.replicate k AEv.r ++ List.replicate m AEv.d := by
        simpa [List.filter, AEv.notData] using h
      rw [ih _ k m h' (fun _ => by simp [astep]; omega)]
      simp only [astep, dataOf]
      rw [List.drop_append_of_le_length hk', List.append_assoc]
    | nop =>
      exfalso
      simp only [List.filter, AEv.notData] at h
      cases k with
      | succ k => simp [List.replicate_succ] at h
      | zero => cases m with
        | zero => simp at h
        | succ m => simp [List.replicate_succ] at h
    | r =>
      simp only [List.filter, AEv.notData] at h
      cases k with
      | zero =>
        exfalso
        cases m with
        | zero => simp at h
        | succ m => simp [List.replicate_succ] at h
      | succ k =>
        have h' : aevs.filter AEv.notData = List.replicate k AEv.r ++ List.replicate m AEv.d := by
          simpa [List.replicate_succ] using h
        rw [ih _ k m h' (fun ⟨e, he, hd⟩ => by
          have := hk ⟨e, List.mem_cons_of_mem _ he, hd⟩
          simp only [astep]; rw [aR_buf]; simp; omega)]
        simp only [astep, dataOf]
        rw [aR_buf, List.drop_drop]
        congr 2; omega
    | d =>
      simp only [List.filter, AEv.notData] at h
      cases k with
      | succ k => simp [List.replicate_succ] at h
      | zero =>
        cases m with
        | zero => simp at h
        | succ m =>
          have h' : aevs.filter AEv.notData = List.replicate 0 AEv.r ++ List.replicate m AEv.d := by
            simpa [List.replicate_succ] using h
          rw [ih _ 0 m h' (fun _ => by omega)]
          simp only [astep, dataOf]
          rw [aD_buf]

theorem take_pend (p : Pipe) (k : Nat) :
    (pend p).take (p.queue.length + (msgsOf (p.buf.take k)).length) = p.queue ++ msgsOf (p.buf.take k) := by
  have : msgsOf p.buf = msgsOf (p.buf.take k) ++ msgsOf (p.buf.drop k) := by rw [← msgsOf_append, List.take_append_drop]
  unfold pend
  rw [this, ← List.append_assoc]
  have hl : p.queue.length + (msgsOf (p.buf.take k)).length = (p.queue ++ msgsOf (p.buf.take k)).length := by simp
  rw [hl, List.take_left' rfl]

/-- **The canonical schedule, exactly.** `k` reader ticks and then `m` dispatcher steps — possibly interleaved with arriving
    frames, which only append (the buffer then has to hold at least `k` frames at the start) — with `m` at least the cost of the
    handler in progress, of the queued messages and of the messages among the first `k` frames: exactly the queued messages and
    the messages of those `k` frames have been delivered, in order; the queue is empty; the buffer holds the remaining frames and
    what arrived. -/
theorem arun_exact (beh : Nat → Beh) (aevs : List AEv) (p : Pipe) (k m : Nat) (ok : PipeOk p)
    (hs : aevs.filter AEv.notData = List.replicate k AEv.r ++ List.replicate m AEv.d)
    (hk : (∃ e ∈ aevs, AEv.notData e = false) → k ≤ p.buf.length)
    (hm : phCost p.ph + cost beh (p.queue ++ msgsOf (p.buf.take k)) ≤ m) :
    (arun beh p aevs).out = p.out ++ p.queue ++ msgsOf (p.buf.take k) ∧ (arun beh p aevs).queue = [] ∧
    (arun beh p aevs).buf = p.buf.drop k ++ dataOf aevs := by
  have hbuf := arun_buf beh aevs p k m hs hk
  have hcons := arun_conserve beh aevs p
  have hpre : target p (p.queue.length + (msgsOf (p.buf.take k)).length) <+: (arun beh p aevs).out := by
    apply arun_delivers beh aevs p k _ m ⟨ok, Nat.le_refl _, Or.inr (by rw [take_pend]; exact hm)⟩
    rw [← hs]; exact List.filter_sublist
  unfold target at hpre
  rw [take_pend] at hpre
  obtain ⟨x, hx⟩ := hpre
  have h1 : msgsOf p.buf = msgsOf (p.buf.take k) ++ msgsOf (p.buf.drop k) := by rw [← msgsOf_append, List.take_append_drop]
  simp only [pend] at hcons
  rw [hbuf, msgsOf_append, h1, ← hx] at hcons
  have h2 : (p.out ++ (p.queue ++ msgsOf (p.buf.take k))) ++ (x ++ (arun beh p aevs).queue) ++ (msgsOf (p.buf.drop k) ++ msgsOf (dataOf aevs))
      = (p.out ++ (p.queue ++ msgsOf (p.buf.take k))) ++ [] ++ (msgsOf (p.buf.drop k) ++ msgsOf (dataOf aevs)) := by
    simpa [List.append_assoc] using hcons
  have h3 := List.append_cancel_left (List.append_cancel_right h2)
  have hxq : x = [] ∧ (arun beh p aevs).queue = [] := by simpa using h3
  refine ⟨?_, hxq.2, hbuf⟩
  rw [← hx, hxq.1]; simp

end NasdaqModel.Sess
