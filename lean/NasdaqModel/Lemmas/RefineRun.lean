import NasdaqModel.Lemmas.RefineSim
/-
One byte-level history driving both machines (`Refine.bstep`): the two components are the two existing machines run on the two
projections of the history (`traces`), and in every reachable state they are related (`PInv`): token buffer = tokenisation of
the byte buffer, frames on the wire = tokenisation of ALL bytes received, messages handed on equal.
-/
namespace NasdaqModel.Refine
open NasdaqModel Py
open NasdaqModel.Framing (Proto R Consuming Settled)
open NasdaqModel.Sess (St Cfg Frame Tid msgsOf rcore atLoop)

variable {μ : Type}

/-! ### `bstep` computed -/

section bstep
variable (P : Proto μ) (num : μ → Nat) (cfg : Cfg) (b : BSt μ)

theorem bstep_bytes (seg : Bytes) : bstep P num cfg b (.bytes seg) =
    ⟨Framing.step P b.r (.data seg), Sess.step cfg b.s (.data (newFrames P num b.r seg)), b.all ++ seg⟩ := rfl

theorem bstep_data (fs : List Frame) : bstep P num cfg b (.ev (.data fs)) = b := rfl

theorem bstep_run_R : bstep P num cfg b (.ev (.run .R)) =
    ⟨if polls b.s then Framing.step P b.r .tick else b.r, Sess.step cfg b.s (.run .R), b.all⟩ := by
  unfold bstep
  simp only [rdrEv, tokEv]
  cases polls b.s <;> rfl

theorem bstep_ev_all (e : Sess.Ev) : (bstep P num cfg b (.ev e)).all = b.all := rfl

theorem bstep_ev_s (e : Sess.Ev) (h : ∀ fs, e ≠ .data fs) : (bstep P num cfg b (.ev e)).s = Sess.step cfg b.s e := by
  cases e <;> first | rfl | exact absurd rfl (h _)

theorem bstep_ev_r (e : Sess.Ev) (h : e ≠ .run .R) : (bstep P num cfg b (.ev e)).r = b.r := by
  cases e with
  | run t => cases t <;> first | rfl | exact absurd rfl h
  | _ => rfl

end bstep

/-! ### the two projections -/

theorem bfold_cons (P : Proto μ) (num : μ → Nat) (cfg : Cfg) (b : BSt μ) (e : BEv) (es : List BEv) :
    bfold P num cfg b (e :: es) = bfold P num cfg (bstep P num cfg b e) es := rfl

/-- the session component is the session machine run on the token-level projection of the history -/
theorem bfold_s (P : Proto μ) (num : μ → Nat) (cfg : Cfg) : ∀ (evs : List BEv) (b : BSt μ),
    (bfold P num cfg b evs).s = Sess.runEvs cfg b.s (traces P num cfg b evs).1 := by
  intro evs
  induction evs with
  | nil => intro b; rfl
  | cons e es ih =>
    intro b
    rw [bfold_cons, ih]
    simp only [traces, Sess.runEvs, List.foldl_append]
    congr 1
    unfold bstep
    cases tokEv P num b e <;> rfl

/-- the reader component is the C03 reader machine run on the reader-level projection of the history -/
theorem bfold_r (P : Proto μ) (num : μ → Nat) (cfg : Cfg) : ∀ (evs : List BEv) (b : BSt μ),
    (bfold P num cfg b evs).r = (traces P num cfg b evs).2.foldl (Framing.step P) b.r := by
  intro evs
  induction evs with
  | nil => intro b; rfl
  | cons e es ih =>
    intro b
    rw [bfold_cons, ih]
    simp only [traces, List.foldl_append]
    congr 1
    unfold bstep
    cases rdrEv b e <;> rfl

theorem bfold_all (P : Proto μ) (num : μ → Nat) (cfg : Cfg) : ∀ (evs : List BEv) (b : BSt μ),
    (bfold P num cfg b evs).all = b.all ++ bytesOf evs := by
  intro evs
  induction evs with
  | nil => intro b; simp [bfold, bytesOf]
  | cons e es ih =>
    intro b
    rw [bfold_cons, ih]
    cases e with
    | bytes seg => simp [bstep_bytes, bytesOf]
    | ev e => rw [bstep_ev_all]; rfl

/-- the bytes given to the C03 machine are the bytes of the history -/
theorem traces_received (P : Proto μ) (num : μ → Nat) (cfg : Cfg) : ∀ (evs : List BEv) (b : BSt μ),
    Framing.received (traces P num cfg b evs).2 = bytesOf evs := by
  intro evs
  induction evs with
  | nil => intro b; rfl
  | cons e es ih =>
    intro b
    simp only [traces, Framing.received_append, ih]
    cases e with
    | bytes seg => simp [rdrEv, Framing.received, bytesOf]
    | ev e =>
      have : Framing.received (rdrEv b (.ev e)).toList = [] := by
        cases e with
        | run t =>
          cases t <;> simp [rdrEv, Framing.received]
          split <;> simp [Framing.received]
        | _ => simp [rdrEv, Framing.received]
      rw [this]; rfl

theorem brun_s (P : Proto μ) (num : μ → Nat) (cfg : Cfg) (evs : List BEv) :
    (brun P num cfg evs).s = Sess.runEvs cfg {} (traces P num cfg {} evs).1 := bfold_s P num cfg evs {}

theorem brun_r (P : Proto μ) (num : μ → Nat) (cfg : Cfg) (evs : List BEv) :
    (brun P num cfg evs).r = Framing.run P (traces P num cfg {} evs).2 := bfold_r P num cfg evs {}

theorem brun_all (P : Proto μ) (num : μ → Nat) (cfg : Cfg) (evs : List BEv) :
    (brun P num cfg evs).all = bytesOf evs := by
  have := bfold_all P num cfg evs {}
  simpa [brun] using this

/-! ### the invariant -/

structure PInv (P : Proto μ) (num : μ → Nat) (st : Bytes → Bool) (b : BSt μ) : Prop where
  rel : Rel P num b.r b.s
  g : Sess.InvG b.s
  pre : ∃ pre : List (Tok μ), pre.map (Tok.frame num) = b.s.consumed ∧ tokMsgs pre = b.r.out ∧
    (b.r.stopped = false → tokens P b.all = (tokens P b.r.buf).prepend pre) ∧
    (b.r.stopped = true → tokens P b.all = ⟨pre, b.r.buf, true⟩)
  stab : b.r.stopped = false → ∀ more, stable P st (b.all ++ more) = true → stable P st (b.r.buf ++ more) = true

theorem PInv.init (P : Proto μ) (num : μ → Nat) (st : Bytes → Bool) : PInv P num st ({} : BSt μ) where
  rel := ⟨fun _ => rfl, (fun h => by cases h), rfl⟩
  g := Sess.InvG.init
  pre := ⟨[], rfl, rfl, fun _ => rfl, fun h => by cases h⟩
  stab := fun _ more h => h

/-- nothing the invariant reads changed, except that the session may have become closed -/
theorem PInv.frame {P : Proto μ} {num : μ → Nat} {st : Bytes → Bool} {b b' : BSt μ} (h : PInv P num st b)
    (hr : b'.r = b.r) (ha : b'.all = b.all) (hrel : Rel P num b.r b'.s) (hg : Sess.InvG b'.s)
    (hc : b'.s.consumed = b.s.consumed) : PInv P num st b' where
  rel := by rw [hr]; exact hrel
  g := hg
  pre := by rw [hr, ha, hc]; exact h.pre
  stab := by rw [hr, ha]; exact h.stab

theorem PInv.step {P : Proto μ} {st : Bytes → Bool} (F : Framer P st) (num : μ → Nat) (cfg : Cfg) {b : BSt μ}
    (h : PInv P num st b) (e : BEv) (hs : stable P st (bstep P num cfg b e).all = true) :
    PInv P num st (bstep P num cfg b e) := by
  cases e with
  | bytes seg =>
    rw [bstep_bytes] at hs ⊢
    simp only at hs
    have hsb : b.r.stopped = false → stable P st (b.r.buf ++ seg) = true := fun h0 => h.stab h0 seg hs
    refine ⟨h.rel.data F num cfg seg hsb,
      (show Sess.InvG (Sess.step cfg b.s (.data (newFrames P num b.r seg))) from Sess.step_InvG h.g _), ?_, ?_⟩
    · obtain ⟨pre, p1, p2, p3, p4⟩ := h.pre
      refine ⟨pre, p1, by simpa using p2, ?_, ?_⟩
      · intro h0
        simp only [Framing.step_data_stopped] at h0
        simp only [Framing.step_data_buf]
        rw [tokens_append F b.all seg hs, p3 h0, Toks.prepend_extend, ← tokens_append F b.r.buf seg (hsb h0)]
      · intro h0
        simp only [Framing.step_data_stopped] at h0
        simp only [Framing.step_data_buf]
        rw [tokens_append F b.all seg hs, p4 h0, Toks.extend_fin _ _ _ rfl]
    · intro h0 more hm
      simp only [Framing.step_data_stopped] at h0
      simp only [Framing.step_data_buf]
      rw [List.append_assoc] at hm ⊢
      exact h.stab h0 _ hm
  | ev e =>
    by_cases hd : ∃ fs, e = .data fs
    · obtain ⟨fs, rfl⟩ := hd
      rw [bstep_data]; exact h
    · have hd' : ∀ fs, e ≠ .data fs := fun fs he => hd ⟨fs, he⟩
      have hg : Sess.InvG (bstep P num cfg b (.ev e)).s := by
        rw [bstep_ev_s P num cfg b e hd']; exact Sess.step_InvG h.g _
      by_cases hR : e = .run .R ∧ atLoop b.s
      · obtain ⟨rfl, hl⟩ := hR
        cases hrs : b.s.rStopped with
        | true =>
          have hp : polls b.s = false := by
            cases hp : polls b.s with
            | false => rfl
            | true => rw [((polls_iff _).1 hp).2] at hrs; cases hrs
          have hc := Sess.poll_stopped cfg b.s hl hrs
          simp only [rcore, Prod.mk.injEq] at hc
          refine h.frame ?_ rfl ?_ hg ?_
          · rw [bstep_run_R, hp]; rfl
          · rw [bstep_run_R]; exact h.rel.poll_stopped num cfg hl hrs
          · rw [bstep_run_R]; exact hc.2.2.1
        | false =>
          have hp : polls b.s = true := (polls_iff _).2 ⟨hl, hrs⟩
          rw [bstep_run_R, hp] at hg ⊢
          simp only [if_true] at hg ⊢
          have hrel := h.rel.tick F.consuming num cfg hl hrs
          cases hst : b.r.stopped with
          | true =>
            have e1 := Framing.step_tick_stopped P b.r hst
            obtain ⟨h1, _⟩ := h.rel.dead hst
            have hc := Sess.poll_nil cfg b.s hl h1
            simp only [rcore, Prod.mk.injEq] at hc
            exact h.frame e1 rfl (by rw [← e1]; exact hrel) hg hc.2.2.1
          | false =>
            have hbuf := h.rel.live hst
            obtain ⟨pre, p1, p2, p3, p4⟩ := h.pre
            rcases tick_toks P F.consuming b.r hst with ⟨h1, _, h3⟩ | ⟨k, h1, h2, h3, h4, h5, h6⟩ |
                ⟨m, rest, hne, hdes, hlo, h4, h5, h6, h7⟩
            · have hb : b.s.buf = [] := by rw [hbuf, h1]; rfl
              have hc := Sess.poll_nil cfg b.s hl hb
              simp only [rcore, Prod.mk.injEq] at hc
              exact h.frame h3 rfl (by rw [← h3]; exact hrel) hg hc.2.2.1
            · have hb : b.s.buf = [k.frame num] := by rw [hbuf, Toks.frames, h1]; rfl
              obtain ⟨_, c2, _, _, _⟩ := Sess.poll_cons cfg b.s hl hrs hb
              refine ⟨hrel, hg, ⟨pre ++ [k], ?_, ?_, ?_, ?_⟩, ?_⟩
              · simp only; rw [c2, List.map_append, p1]; rfl
              · simp only; rw [h6, tokMsgs_append, p2]
                rcases h2 with rfl | rfl <;> simp [tokMsgs]
              · intro h0; simp only at h0; rw [h4] at h0; cases h0
              · intro _
                simp only
                rw [p3 hst, h5]
                have : tokens P b.r.buf = ⟨[k], (tokens P b.r.buf).rest, true⟩ := by
                  rw [← h1, ← h3]
                rw [this]; rfl
              · intro h0; simp only at h0; rw [h4] at h0; cases h0
            · have hb : b.s.buf = (classify P m).frame num :: (tokens P rest).frames num := by
                rw [hbuf, h4]; rfl
              obtain ⟨_, c2, _, _, _⟩ := Sess.poll_cons cfg b.s hl hrs hb
              refine ⟨hrel, hg, ⟨pre ++ [classify P m], ?_, ?_, ?_, ?_⟩, ?_⟩
              · simp only; rw [c2, List.map_append, p1]; rfl
              · simp only; rw [h7, tokMsgs_append, p2]
              · intro _
                simp only
                rw [p3 hst, h4, h6, Toks.prepend_prepend]
              · intro h0; simp only at h0; rw [h5] at h0; cases h0
              · intro _ more hm
                simp only at hm ⊢
                rw [h6]
                have h1 := h.stab hst more hm
                have hab : b.r.buf ++ more ≠ [] := by simp [hne]
                have hsth : st b.r.buf = true := F.st_prefix (stable_head P st hab h1)
                have hd' := F.some_mono more hsth hdes
                rw [stable_cons P st F.consuming hab hd' hlo, Bool.and_eq_true] at h1
                exact h1.2
      · have hr : e = .run .R → ¬ atLoop b.s := fun he hl => hR ⟨he, hl⟩
        have hc := Sess.rcore_step_other cfg b.s e hd' hr
        simp only [rcore, Prod.mk.injEq] at hc
        have hrr : (bstep P num cfg b (.ev e)).r = b.r := by
          by_cases he : e = .run .R
          · subst he
            rw [bstep_run_R]
            have : polls b.s = false := by
              cases hp : polls b.s with
              | false => rfl
              | true => exact absurd ((polls_iff _).1 hp).1 (hr rfl)
            simp [this]
          · exact bstep_ev_r P num cfg b e he
        refine h.frame hrr rfl ?_ hg ?_
        · rw [bstep_ev_s P num cfg b e hd']; exact h.rel.other num cfg e hd' hr
        · rw [bstep_ev_s P num cfg b e hd']; exact hc.2.2.1

/-- **the invariant holds along every byte-level history** whose byte stream is stable -/
theorem bfold_pinv {P : Proto μ} {st : Bytes → Bool} (F : Framer P st) (num : μ → Nat) (cfg : Cfg) :
    ∀ (evs : List BEv) (b : BSt μ), PInv P num st b → stable P st (b.all ++ bytesOf evs) = true →
      PInv P num st (bfold P num cfg b evs) := by
  intro evs
  induction evs with
  | nil => intro b h _; exact h
  | cons e es ih =>
    intro b h hs
    rw [bfold_cons]
    have hall : (bstep P num cfg b e).all ++ bytesOf es = b.all ++ bytesOf (e :: es) := by
      cases e with
      | bytes seg => simp [bstep_bytes, bytesOf]
      | ev e => rw [bstep_ev_all]; rfl
    apply ih
    · apply h.step F num cfg e
      exact stable_prefix F _ (bytesOf es) (by rw [hall]; exact hs)
    · rw [hall]; exact hs

theorem brun_pinv {P : Proto μ} {st : Bytes → Bool} (F : Framer P st) (num : μ → Nat) (cfg : Cfg) (evs : List BEv)
    (hs : stable P st (bytesOf evs) = true) : PInv P num st (brun P num cfg evs) :=
  bfold_pinv F num cfg evs {} (PInv.init P num st) (by simpa using hs)

/-! ### what the invariant says -/

section consequences
variable {P : Proto μ} {num : μ → Nat} {st : Bytes → Bool} {b : BSt μ}

/-- the frames the session machine counts as received are the tokens of all the bytes received -/
theorem PInv.wire (h : PInv P num st b) : b.s.wire = (tokens P b.all).frames num := by
  obtain ⟨pre, p1, _, p3, p4⟩ := h.pre
  rw [← h.g.wire, ← p1]
  cases hst : b.r.stopped with
  | false => rw [p3 hst, Toks.frames_prepend, h.rel.live hst]
  | true => rw [p4 hst, (h.rel.dead hst).1]; simp [Toks.frames]

theorem PInv.msgs_wire (h : PInv P num st b) : msgsOf b.s.wire = (carried P b.all).map num := by
  rw [h.wire, Toks.frames, msgsOf_frames]; rfl

/-- the messages the byte-level reader handed on are a prefix of the messages carried by the bytes received -/
theorem PInv.out_prefix (h : PInv P num st b) : b.r.out <+: carried P b.all := by
  obtain ⟨pre, _, p2, p3, p4⟩ := h.pre
  unfold carried
  cases hst : b.r.stopped with
  | false => rw [p3 hst, Toks.msgs_prepend, p2]; exact List.prefix_append _ _
  | true => rw [p4 hst, ← p2]; exact List.prefix_refl _

/-- once the byte-level reader has stopped, all the carried messages have been handed on -/
theorem PInv.out_all (h : PInv P num st b) (hst : b.r.stopped = true) : b.r.out = carried P b.all := by
  obtain ⟨pre, _, p2, _, p4⟩ := h.pre
  unfold carried
  rw [p4 hst, ← p2]; rfl

end consequences

end NasdaqModel.Refine
