import NasdaqModel.Lemmas.RefineInstances
/-
Tokenisation of WELL-FORMED streams, under exactly the hypotheses of C03 (`Framing.FrameSpec`: a complete well-formed frame
followed by anything is cut off exactly, a proper prefix of one asks for more bytes, frames are non-empty): segmentation
independence needs no stability test there, and the messages carried are C03's `expected`.
-/
namespace NasdaqModel.Refine
open NasdaqModel Py
open NasdaqModel.Framing (Proto R Consuming Settled FrameSpec stream expected)

variable {μ : Type} {P : Proto μ} {enc : μ → Bytes} {wf : μ → Prop}

theorem tokens_enc_logout (S : FrameSpec P enc wf) {m : μ} (hm : wf m) (hl : P.isLogout m = true) (tail : Bytes) :
    tokens P (enc m ++ tail) = ⟨[.logout], tail, true⟩ :=
  tokens_logout P (by simp [S.nonempty m hm]) (S.exact m tail hm) hl

theorem tokens_enc_cons (S : FrameSpec P enc wf) (hC : Consuming P) {m : μ} (hm : wf m) (hl : P.isLogout m = false)
    (tail : Bytes) : tokens P (enc m ++ tail) = (tokens P tail).prepend [classify P m] :=
  tokens_cons P hC (by simp [S.nonempty m hm]) (S.exact m tail hm) hl

theorem tokens_short (S : FrameSpec P enc wf) {m : μ} (hm : wf m) {q : Bytes} (hq : q <+: enc m) (hne : q ≠ enc m) :
    tokens P q = ⟨[], q, false⟩ := by
  by_cases h0 : q = []
  · subst h0; rfl
  · exact tokens_none P (S.short m q hm hq hne h0)

/-- **segmentation independence on well-formed streams** (C03's hypotheses): however a prefix of the stream of well-formed
    frames is cut in two, tokenising the whole is tokenising the first part and continuing on what it left over -/
theorem tokens_append_wf (S : FrameSpec P enc wf) (hC : Consuming P) : ∀ (ms : List μ), (∀ m ∈ ms, wf m) →
    ∀ (a b : Bytes), a ++ b <+: stream enc ms → tokens P (a ++ b) = (tokens P a).extend P b := by
  intro ms
  induction ms with
  | nil =>
    intro _ a b h
    have : a ++ b = [] := by simpa [stream] using h
    obtain ⟨rfl, rfl⟩ := List.append_eq_nil_iff.1 this
    rw [tokens_nil, Toks.extend_nfin _ _ _ rfl]; rfl
  | cons m ms ih =>
    intro hwf a b h
    have hm : wf m := hwf m (by simp)
    rw [Framing.stream_cons] at h
    by_cases hfull : enc m <+: a
    · obtain ⟨a', rfl⟩ := hfull
      rw [List.append_assoc] at h ⊢
      have h' : a' ++ b <+: stream enc ms := (List.prefix_append_right_inj _).1 h
      cases hl : P.isLogout m with
      | true =>
        rw [tokens_enc_logout S hm hl, tokens_enc_logout S hm hl, Toks.extend_fin _ _ _ rfl]
      | false =>
        rw [tokens_enc_cons S hC hm hl, tokens_enc_cons S hC hm hl, ih (fun x hx => hwf x (by simp [hx])) a' b h',
          Toks.prepend_extend]
    · have hpa : a <+: enc m ++ stream enc ms := (List.prefix_append a b).trans h
      have hshort : a <+: enc m := by
        rcases List.prefix_or_prefix_of_prefix hpa (List.prefix_append _ _) with h1 | h1
        · exact h1
        · exact absurd h1 hfull
      have hne : a ≠ enc m := fun he => hfull (he ▸ List.prefix_refl _)
      rw [tokens_short S hm hshort hne, Toks.extend_nfin _ _ _ rfl]; rfl

theorem expected_cons (P : Proto μ) (m : μ) (ms : List μ) : expected P (m :: ms) =
    if P.isLogout m then [] else (if P.isHeartbeat m then [] else [m]) ++ expected P ms := by
  unfold expected
  cases hl : P.isLogout m <;> cases hh : P.isHeartbeat m <;> simp [hl, hh]

/-- the decodable messages carried by a well-formed stream are C03's expected messages: the non-heartbeats before the
    first logout -/
theorem carried_stream (S : FrameSpec P enc wf) (hC : Consuming P) : ∀ (ms : List μ), (∀ m ∈ ms, wf m) →
    carried P (stream enc ms) = expected P ms := by
  intro ms
  induction ms with
  | nil => intro _; rfl
  | cons m ms ih =>
    intro hwf
    have hm : wf m := hwf m (by simp)
    rw [Framing.stream_cons, expected_cons]
    unfold carried at ih ⊢
    cases hl : P.isLogout m with
    | true => rw [tokens_enc_logout S hm hl]; rfl
    | false =>
      rw [tokens_enc_cons S hC hm hl, Toks.msgs_prepend, ih (fun x hx => hwf x (by simp [hx]))]
      cases hh : P.isHeartbeat m <;> simp [classify, hl, hh, tokMsgs]

/-- a stream of well-formed frames whose heads pass the stability test is stable -/
theorem stable_stream {st : Bytes → Bool} (S : FrameSpec P enc wf) (hC : Consuming P)
    (hst : ∀ m, wf m → ∀ tail, st (enc m ++ tail) = true) : ∀ (ms : List μ), (∀ m ∈ ms, wf m) →
    stable P st (stream enc ms) = true := by
  intro ms
  induction ms with
  | nil => intro _; rfl
  | cons m ms ih =>
    intro hwf
    have hm : wf m := hwf m (by simp)
    rw [Framing.stream_cons]
    have hne : enc m ++ stream enc ms ≠ [] := by simp [S.nonempty m hm]
    cases hl : P.isLogout m with
    | true =>
      rw [stable_stop P st hne]
      · exact hst m hm _
      · intro m' rest' h
        rw [S.exact m _ hm] at h
        cases h; exact hl
    | false =>
      rw [stable_cons P st hC hne (S.exact m _ hm) hl, hst m hm, ih (fun x hx => hwf x (by simp [hx]))]; rfl


/-! ### FIX: streams of well-formed frames (C03's `wfFixFrame`) that the dictionary accepts -/

namespace FixWf
open NasdaqModel.Framing

/-- a well-formed frame that the dictionary dispatch and the field-level decoder accept -/
def wfD (known : Bytes → Bool) (decode : Bytes → Except Err Unit) (f : Bytes) : Prop :=
  wfFixFrame f = true ∧ known (getMsgType f) = true ∧ decode f = .ok ()

theorem fixDeserD_none {known : Bytes → Bool} {decode : Bytes → Except Err Unit} {buf : Bytes}
    (h : fixDeser buf = .ok none) : fixDeserD known decode buf = .ok none := by
  unfold fixDeserD; simp only [h]

/-- C03's three framing facts for the FIX reader WITH the dictionary dispatch -/
theorem fixSpecD (known : Bytes → Bool) (decode : Bytes → Except Err Unit) :
    FrameSpec (fixProtoD known decode) (fun f => f) (wfD known decode) where
  nonempty := fun f h => fixSpec.nonempty f h.1
  exact := fun f rest h => fixDeserD_of (fix_exact f rest h.1) h.2.1 h.2.2
  short := fun f q h hq hne _ => fixDeserD_none (fix_short f q h.1 hq hne)

end FixWf

end NasdaqModel.Refine
