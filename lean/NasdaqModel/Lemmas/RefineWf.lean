import NasdaqModel.Lemmas.RefineInstances
/-
Tokenisation of WELL-FORMED streams, under exactly the hypotheses of C03 (`Framing.FrameSpec`: a complete well-formed frame
followed by anything is cut off exactly, a proper prefix of one asks for more bytes, frames are non-empty): segmentation
independence needs no stability test there, the messages carried are C03's `expected`, and such streams are stable.
-/
namespace NasdaqModel.Refine
open NasdaqModel Py
open NasdaqModel.Framing (Proto R Consuming Settled FrameSpec stream expected)

variable {μ : Type} {P : Proto μ} {enc : μ → Bytes} {wf : μ → Prop}

theorem tokens_enc_logout (S : FrameSpec P enc wf) {m : μ} (hm : wf m) (hl : P.isLogout m = true) (tail : Bytes) :
    tokens P (enc m ++ tail) = ⟨[.logout], tail, true⟩ :=
  tokens_logout P (by simp [S.nonempty m hm]) (S.exact m tail hm) hl

theorem tokens_enc_cons (S : FrameSpec P enc wf) (hC : Consuming P) {m : μ} (hm : wf m) (hl : P.isLogout m = false)
    (tail : Bytes) : tokens P (enc m ++ tail) = (tokens P tail).prepend [classify P m] :=
  tokens_cons P hC (by simp [S.nonempty m hm]) (S.exact m tail hm) hl

theorem tokens_short (S : FrameSpec P enc wf) {m : μ} (hm : wf m) {q : Bytes} (hq : q <+: enc m) (hne : q ≠ enc m) :
    tokens P q = ⟨[], q, false⟩ := by
  by_cases h0 : q = []
  · subst h0; rfl
  · exact tokens_none P (S.short m q hm hq hne h0)

/-- **segmentation independence on well-formed streams** (C03's hypotheses): however a prefix of the stream of well-formed
    frames is cut in two, tokenising the whole is tokenising the first part and continuing on what it left over -/
theorem tokens_append_wf (S : FrameSpec P enc wf) (hC : Consuming P) : ∀ (ms : List μ), (∀ m ∈ ms, wf m) →
    ∀ (a b : Bytes), a ++ b <+: stream enc ms → tokens P (a ++ b) = (tokens P a).extend P b := by
  intro ms
  induction ms with
  | nil =>
    intro _ a b h
    have : a ++ b = [] := by simpa [stream] using h
    obtain ⟨rfl, rfl⟩ := List.append_eq_nil_iff.1 this
    rw [tokens_nil, Toks.extend_nfin _ _ _ rfl]; rfl
  | cons m ms ih =>
    intro hwf a b h
    have hm : wf m := hwf m (by simp)
    rw [Framing.stream_cons] at h
    by_cases hfull : enc m <+: a
    · obtain ⟨a', rfl⟩ := hfull
      rw [List.append_assoc] at h ⊢
      have h' : a' ++ b <+: stream enc ms := (List.prefix_append_right_inj _).1 h
      cases hl : P.isLogout m with
      | true =>
        rw [tokens_enc_logout S hm hl, tokens_enc_logout S hm hl, Toks.extend_fin _ _ _ rfl]
      | false =>
        rw [tokens_enc_cons S hC hm hl, tokens_enc_cons S hC hm hl, ih (fun x hx => hwf x (by simp [hx])) a' b h',
          Toks.prepend_extend]
    · have hpa : a <+: enc m ++ stream enc ms := (List.prefix_append a b).trans h
      have hshort : a <+: enc m := by
        rcases List.prefix_or_prefix_of_prefix hpa (List.prefix_append _ _) with h1 | h1
        · exact h1
        · exact absurd h1 hfull
      have hne : a ≠ enc m := fun he => hfull (he ▸ List.prefix_refl _)
      rw [tokens_short S hm hshort hne, Toks.extend_nfin _ _ _ rfl]; rfl

theorem expected_cons (P : Proto μ) (m : μ) (ms : List μ) : expected P (m :: ms) =
    if P.isLogout m then [] else (if P.isHeartbeat m then [] else [m]) ++ expected P ms := by
  unfold expected
  cases hl : P.isLogout m <;> cases hh : P.isHeartbeat m <;> simp [hl, hh]

/-- the decodable messages carried by a well-formed stream are C03's expected messages: the non-heartbeats before the
    first logout -/
theorem carried_stream (S : FrameSpec P enc wf) (hC : Consuming P) : ∀ (ms : List μ), (∀ m ∈ ms, wf m) →
    carried P (stream enc ms) = expected P ms := by
  intro ms
  induction ms with
  | nil => intro _; rfl
  | cons m ms ih =>
    intro hwf
    have hm : wf m := hwf m (by simp)
    rw [Framing.stream_cons, expected_cons]
    unfold carried at ih ⊢
    cases hl : P.isLogout m with
    | true => rw [tokens_enc_logout S hm hl]; rfl
    | false =>
      rw [tokens_enc_cons S hC hm hl, Toks.msgs_prepend, ih (fun x hx => hwf x (by simp [hx]))]
      cases hh : P.isHeartbeat m <;> simp [classify, hl, hh, tokMsgs]

/-- a stream of well-formed frames whose heads pass the stability test is stable -/
theorem stable_stream {st : Bytes → Bool} (S : FrameSpec P enc wf) (hC : Consuming P)
    (hst : ∀ m, wf m → ∀ tail, st (enc m ++ tail) = true) : ∀ (ms : List μ), (∀ m ∈ ms, wf m) →
    stable P st (stream enc ms) = true := by
  intro ms
  induction ms with
  | nil => intro _; rfl
  | cons m ms ih =>
    intro hwf
    have hm : wf m := hwf m (by simp)
    rw [Framing.stream_cons]
    have hne : enc m ++ stream enc ms ≠ [] := by simp [S.nonempty m hm]
    cases hl : P.isLogout m with
    | true =>
      rw [stable_stop P st hne]
      · exact hst m hm _
      · intro m' rest' h
        rw [S.exact m _ hm] at h
        cases h; exact hl
    | false =>
      rw [stable_cons P st hC hne (S.exact m _ hm) hl, hst m hm, ih (fun x hx => hwf x (by simp [hx]))]; rfl


/-! ### FIX: streams of well-formed frames (C03's `wfFixFrame`) that the dictionary accepts -/

namespace FixWf
open NasdaqModel.Framing

/-- the frame length computed on any buffer that starts with a complete `8=ver␁9=ds␁` is the announced one: never negative -/
theorem fixFrameLen_header (ver ds tail : Bytes) (hv : 61 ∉ ver) (hne : ds ≠ []) (hd : ∀ d ∈ ds, isDigit d = true) :
    fixFrameLen (fixHeader ver ds ++ tail) =
      if find (fixHeader ver ds ++ tail) tag35 0 = none then none
      else some ((ver.length + ds.length + 6 + digitsVal ds + 7 : Nat) : Int) := by
  have h1 : 1 ∉ ds := digit_ne_one hd
  have hlen : (fixHeader ver ds ++ tail).length = ver.length + ds.length + 6 + tail.length := by
    rw [List.length_append, fixHeader_length]
  have hEQ : find (fixHeader ver ds ++ tail) [EQ] 2 = some (ver.length + 4) := by
    have e : fixHeader ver ds ++ tail = ([56, 61] ++ ver ++ [1, 57]) ++ 61 :: (ds ++ [1] ++ tail) := by
      simp [fixHeader]
    rw [e]
    have := find_single 61 ([56, 61] ++ ver ++ [1, 57]) (ds ++ [1] ++ tail) 2 (by simp) (by simp [hv])
    simpa [EQ] using this
  have hSOH : find (fixHeader ver ds ++ tail) [SOH] (ver.length + 4) = some (ver.length + 5 + ds.length) := by
    have e : fixHeader ver ds ++ tail = ([56, 61] ++ ver ++ [1, 57, 61] ++ ds) ++ 1 :: tail := by
      simp [fixHeader]
    rw [e]
    have hdrop : ([56, 61] ++ ver ++ [1, 57, 61] ++ ds).drop (ver.length + 4) = 61 :: ds := by
      have : [56, 61] ++ ver ++ [1, 57, 61] ++ ds = ([56, 61] ++ ver ++ [1, 57]) ++ (61 :: ds) := by simp
      rw [this, List.drop_left' (by simp)]
    have := find_single 1 ([56, 61] ++ ver ++ [1, 57, 61] ++ ds) tail (ver.length + 4) (by simp)
      (by rw [hdrop]; simp [h1])
    rw [SOH, this]; simp; omega
  have hslice : pySlice (fixHeader ver ds ++ tail) (((ver.length + 4 : Nat) : Int) + 1)
      ((ver.length + 5 + ds.length : Nat) : Int) = ds := by
    have e1 : (((ver.length + 4 : Nat) : Int) + 1) = ((ver.length + 5 : Nat) : Int) := by omega
    rw [e1]
    unfold pySlice
    rw [normIdx_nat _ _ (by rw [hlen]; omega), normIdx_nat _ _ (by rw [hlen]; omega)]
    have e : fixHeader ver ds ++ tail = ([56, 61] ++ ver ++ [1, 57, 61]) ++ (ds ++ (1 :: tail)) := by
      simp [fixHeader]
    have hl : ([56, 61] ++ ver ++ [1, 57, 61]).length = ver.length + 5 := by simp
    rw [e, ← hl, List.take_length_add_append, List.drop_left, List.take_left]
  have hparse := parseIntBytes_digits ds hne hd
  have hmsg : (((ver.length + 5 + ds.length : Nat) : Int) + 1) + (digitsVal ds : Int) + 7
      = ((ver.length + ds.length + 6 + digitsVal ds + 7 : Nat) : Int) := by omega
  cases h35 : find (fixHeader ver ds ++ tail) tag35 0 with
  | none => unfold fixFrameLen; simp [h35]
  | some i =>
    rw [(fixDeser_of_parts h35 hEQ hSOH (by rw [hslice]; exact hparse)).2, hmsg]
    simp

theorem fixSt_wf (f tail : Bytes) (h : wfFixFrame f = true) : fixSt (f ++ tail) = true := by
  obtain ⟨ver, ds, b, hf, hv, hne, hd, _, _⟩ := wfFixFrame_parts h
  have e : f ++ tail = fixHeader ver ds ++ (tag35 ++ b ++ tail) := by rw [hf]; simp
  unfold fixSt
  rw [e, fixFrameLen_header ver ds _ hv hne hd]
  split
  · rename_i l hl
    split at hl
    · cases hl
    · cases hl; simp; omega
  · rfl

/-- a well-formed frame that the dictionary dispatch and the field-level decoder accept -/
def wfD (known : Bytes → Bool) (decode : Bytes → Except Err Unit) (f : Bytes) : Prop :=
  wfFixFrame f = true ∧ known (getMsgType f) = true ∧ decode f = .ok ()

theorem fixDeserD_none {known : Bytes → Bool} {decode : Bytes → Except Err Unit} {buf : Bytes}
    (h : fixDeser buf = .ok none) : fixDeserD known decode buf = .ok none := by
  unfold fixDeserD; simp only [h]

theorem fixSpecD (known : Bytes → Bool) (decode : Bytes → Except Err Unit) :
    FrameSpec (fixProtoD known decode) (fun f => f) (wfD known decode) where
  nonempty := fun f h => fixSpec.nonempty f h.1
  exact := fun f rest h => fixDeserD_of (fix_exact f rest h.1) h.2.1 h.2.2
  short := fun f q h hq hne _ => fixDeserD_none (fix_short f q h.1 hq hne)

/-- every stream of accepted well-formed FIX frames is stable: the hypothesis of the FIX byte-level theorems holds for all the
    streams C03 speaks about -/
theorem fix_wf_stable (known : Bytes → Bool) (decode : Bytes → Except Err Unit) (hk : known [] = false) (fs : List Bytes)
    (hwf : ∀ f ∈ fs, wfD known decode f) : stable (fixProtoD known decode) fixSt (stream (fun f => f) fs) = true :=
  stable_stream (fixSpecD known decode) (fixProtoD_consuming known decode hk) (fun f h tail => fixSt_wf f tail h.1) fs hwf

end FixWf

end NasdaqModel.Refine
