import NasdaqModel.Lemmas.SessionLemmas4
/-
Consequences of invariants A, R, B used by the property files: the close never deadlocks; finished is final.
-/
namespace NasdaqModel.Sess

/-- once the close has completed it stays completed -/
theorem finishedInv (cfg : Cfg) : CoreInv cfg (fun s => s.closed = true ∧ s.cstage = .finished) where
  of_core := by
    intro s s' hc h
    simp only [core, Prod.mk.injEq] at hc
    rw [hc.1, hc.2.1]; exact h
  emit_neutral := fun _ h => h
  emit_msgEnter := fun _ _ _ h => h
  enterClose' := by
    intro s h t c
    unfold enterClose
    rw [if_pos h.1]
    constructor
    · rw [runCont_closed]; exact h.1
    · have := gcore_runCont s t c
      cases c <;> exact h.2
  stepInClose' := by
    intro s h t b
    unfold stepInClose
    rw [h.2]
    exact h

theorem step_finished_final (cfg : Cfg) (s : St) (ev : Ev) (hc : s.closed = true) (hf : s.cstage = .finished) :
    (step cfg s ev).cstage = .finished :=
  (step_J (finishedInv cfg) (J := fun s => s.closed = true ∧ s.cstage = .finished) ⟨hc, hf⟩ ev).2

def libTasks : List Tid := [.R, .D, .L, .M, .C, .V]

end NasdaqModel.Sess
