import NasdaqModel.Lemmas.SessionDrainSim
import NasdaqModel.Lemmas.LoginTraceW
/-
Two facts about open sessions, for every reachable state (`InvP`), that the progress theorems of C04 need:

  d   callback mode is on  ⇒  the dispatcher task is in working order (`DOk`): runnable in its loop or inside a handler, or asleep
      in `queue.get()` on an empty queue — never cancelled, ended or inside `close()` while the session is open;
  v   the receive helper task is alive only while a user call awaits it inside a receive (so, with `InvW.busy`: no receive
      pending ⇒ no helper that could take a message from the queue).

Only steps from an open state to an open state matter (both facts are conditional on `closed = false`), so the close machinery
never has to be traversed: every branch that enters `close()` ends closed.
-/
namespace NasdaqModel.Sess

/-- the receive helper is alive only while a user call awaits it inside a receive -/
def VWit (s : St) : Prop :=
  alive (s.status .V) = true →
    ∃ a, s.status (.U a) = .waitT .V ∧ (s.prog (.U a) = .loginWait a ∨ s.prog (.U a) = .recvWait a)

/-- no receive is pending while the dispatcher sleeps in `queue.get()`: a receive only starts while `_dispatcher_task is None`,
    and a dispatcher created next to a pending receive takes no step before the receive has ended.  Hence, when the late cancel
    of a receive stashes the held message (`Model/Session.lean`, `stepRun`, cancelled `recvWait` / `loginWait`), no dispatcher is
    suspended on the asyncio queue: "stash in front of the queue" and "re-insert at the head of the queue" cannot be told apart. -/
def JB (s : St) : Prop := s.status .D = .waitQ → s.rcvBusy = false

/-- the three facts, for an open session -/
def PB (s : St) : Prop := (s.dispSet = true → DOk s) ∧ VWit s ∧ JB s

theorem JB.of_frame {s s' : St} (j : JB s) (h1 : s'.status .D = .waitQ → s.status .D = .waitQ)
    (h2 : s'.rcvBusy = true → s.rcvBusy = true) : JB s' := by
  intro hd
  have := j (h1 hd)
  cases h : s'.rcvBusy with
  | false => rfl
  | true => rw [h2 h] at this; cases this

/-- discharges `s'.rcvBusy = true → s.rcvBusy = true` when the flag is unchanged or cleared -/
macro "jb_auto" : tactic => `(tactic| first
  | exact fun h => h
  | exact fun h => (Bool.false_ne_true h).elim)

def InvP (s : St) : Prop := s.closed = false → PB s

theorem VWit.of_frame {s s' : St} (w : VWit s)
    (h : alive (s'.status .V) = true → alive (s.status .V) = true ∧
      ∀ a, s.status (.U a) = .waitT .V → s'.status (.U a) = .waitT .V ∧ s'.prog (.U a) = s.prog (.U a)) : VWit s' := by
  intro hal
  obtain ⟨h1, h2⟩ := h hal
  obtain ⟨a, ha, hp⟩ := w h1
  obtain ⟨h3, h4⟩ := h2 a ha
  exact ⟨a, h3, by rw [h4]; exact hp⟩

theorem DOk.of_frame {s s' : St} (d : DOk s) (h2 : s'.status .D = s.status .D) (h3 : s'.prog .D = s.prog .D)
    (h4 : s.queue = [] → s'.queue = []) : DOk s' := by
  unfold DOk at *
  rw [h2, h3]
  rcases d with d | ⟨d1, d2, d3⟩
  · exact Or.inl d
  · exact Or.inr ⟨d1, d2, h4 d3⟩

theorem PB.of_frame {s s' : St} (p : PB s) (h1 : s'.dispSet = s.dispSet) (h2 : s'.status .D = s.status .D)
    (h3 : s'.prog .D = s.prog .D) (h4 : s.queue = [] → s'.queue = [])
    (h : alive (s'.status .V) = true → alive (s.status .V) = true ∧
      ∀ a, s.status (.U a) = .waitT .V → s'.status (.U a) = .waitT .V ∧ s'.prog (.U a) = s.prog (.U a))
    (h5 : s'.rcvBusy = true → s.rcvBusy = true := by jb_auto) : PB s' :=
  ⟨fun hd => (p.1 (by rw [← h1]; exact hd)).of_frame h2 h3 h4, p.2.1.of_frame h, p.2.2.of_frame (by rw [h2]; exact id) h5⟩

/-- a change outside everything `PB` reads -/
theorem PB.same {s s' : St} (p : PB s) (h1 : s'.dispSet = s.dispSet) (h2 : s'.status = s.status) (h3 : s'.prog = s.prog)
    (h4 : s.queue = [] → s'.queue = []) (h5 : s'.rcvBusy = true → s.rcvBusy = true := by jb_auto) : PB s' :=
  p.of_frame h1 (by rw [h2]) (by rw [h3]) h4 (fun h => ⟨by rw [h2] at h; exact h, fun a ha => ⟨by rw [h2]; exact ha, by rw [h3]⟩⟩) h5

theorem DOk.put {s : St} (d : DOk s) (m : Nat) : DOk (s.put m) := by
  unfold DOk
  rw [put_status, put_prog]
  rcases d with ⟨h1, h2⟩ | ⟨h1, h2, _⟩
  · left; rw [h1]; simp; exact h2
  · left; rw [h1]; simp; exact Or.inl h2

theorem PB.put {s : St} (p : PB s) (m : Nat) : PB (s.put m) := by
  refine ⟨fun hd => (p.1 (by rw [← (put_flags s m).2.1]; exact hd)).put m, p.2.1.of_frame ?_,
    p.2.2.of_frame (fun h => by rw [put_status] at h; split at h <;> first | cases h | exact h) (by rw [(put_flags s m).2.2.2.2.1]; exact id)⟩
  intro hal
  constructor
  · rw [put_status] at hal
    split at hal
    · rename_i h; rw [h.2]; rfl
    · exact hal
  · intro a ha
    rw [put_status, put_prog]
    simp [ha]

/-- facts about an open session used all over the step proof -/
structure OpenFacts (s : St) : Prop where
  idle : s.cstage = .idle
  qc : s.qClosed = false
  dw : ∀ y, s.status .D ≠ .waitT y
  vw : ∀ y, s.status .V ≠ .waitT y
  wv : ∀ x y, s.status x = .waitT y → y = .V
  rs : s.rStopped = false
  dal : alive (s.status .D) = true → s.dispSet = true

theorem OpenFacts.of_inv {cfg : Cfg} {s : St} (a : InvA cfg s) (r : InvR s) (b : InvB s) (w : InvW s) (hc : s.closed = false) :
    OpenFacts s := by
  have hidle := idle_of_open a hc
  obtain ⟨hrs, _, hwv⟩ := r hc
  refine ⟨hidle, ?_, ?_, ?_, hwv, hrs, ?_⟩
  · cases h : s.qClosed with
    | false => rfl
    | true => have := w.qc h; rw [hc] at this; cases this
  · intro y hy
    rcases b.waitt _ _ hy with ⟨pc, c, hb⟩ | ⟨u, hu, _⟩
    · rw [hidle] at hb; cases hb
    · cases hu
  · intro y hy
    rcases b.waitt _ _ hy with ⟨pc, c, hb⟩ | ⟨u, hu, _⟩
    · rw [hidle] at hb; cases hb
    · cases hu
  · intro h
    rcases w.dalive h with h | h
    · exact h
    · rw [hc] at h; cases h

/-- a running task other than the dispatcher ends -/
theorem PB.finish {s : St} (p : PB s) (o : OpenFacts s) {t : Tid} (htD : t ≠ .D)
    (hrun : s.status t = .ready ∨ s.status t = .cancelled) : PB (s.finish t) := by
  refine p.of_frame rfl ?_ rfl (fun h => h) ?_
  · rw [finish_status]; simp [Ne.symm htD, o.dw t]
  · intro hal
    have htV : t ≠ .V := by
      intro e; subst e; rw [finish_status] at hal; simp [alive] at hal
    refine ⟨?_, ?_⟩
    · rw [finish_status] at hal; simpa [Ne.symm htV, o.vw t] using hal
    · intro a ha
      refine ⟨?_, rfl⟩
      rw [finish_status]
      have hne : Tid.U a ≠ t := by
        intro e; rw [← e, ha] at hrun; rcases hrun with h | h <;> cases h
      simp [hne, ha, Ne.symm htV]

/-- a running task that is neither the dispatcher nor the receive helper changes its own status / program -/
theorem PB.restatus {s : St} (p : PB s) {t : Tid} (htD : t ≠ .D) (htV : t ≠ .V)
    (hrun : s.status t = .ready ∨ s.status t = .cancelled) (x : Status) : PB (s.setStatus t x) := by
  refine p.of_frame rfl (by simp [St.setStatus, Ne.symm htD]) rfl (fun h => h) ?_
  intro hal
  refine ⟨by simpa [St.setStatus, Ne.symm htV] using hal, fun a ha => ⟨?_, rfl⟩⟩
  have hne : Tid.U a ≠ t := by
    intro e; rw [← e, ha] at hrun; rcases hrun with h | h <;> cases h
  simp [St.setStatus, hne, ha]

theorem PB.reprog {s : St} (p : PB s) {t : Tid} (htD : t ≠ .D)
    (hrun : s.status t = .ready ∨ s.status t = .cancelled) (x : Prog) : PB (s.setProg t x) := by
  refine p.of_frame rfl rfl (by simp [St.setProg, Ne.symm htD]) (fun h => h) ?_
  intro hal
  refine ⟨hal, fun a ha => ⟨ha, ?_⟩⟩
  have hne : Tid.U a ≠ t := by
    intro e; rw [← e, ha] at hrun; rcases hrun with h | h <;> cases h
  simp [St.setProg, hne]

/-- a library task other than the dispatcher and the receive helper is spawned -/
theorem PB.spawnLib {s : St} (p : PB s) {t : Tid} (htD : t ≠ .D) (htV : t ≠ .V) (htU : ∀ a, t ≠ .U a) (x : Prog) :
    PB (s.spawn t x) := by
  refine p.of_frame rfl (by simp [St.spawn, St.setStatus, St.setProg, Ne.symm htD])
    (by simp [St.spawn, St.setStatus, St.setProg, Ne.symm htD]) (fun h => h) ?_
  intro hal
  refine ⟨by simpa [St.spawn, St.setStatus, St.setProg, Ne.symm htV] using hal, fun a ha => ?_⟩
  simp [St.spawn, St.setStatus, St.setProg, Ne.symm (htU a), ha]

theorem PB.initiateClose {s : St} (p : PB s) : PB s.initiateClose := by
  unfold St.initiateClose
  split
  · exact p
  · exact PB.spawnLib (s := { s with closingTask := true }) (p.same rfl rfl rfl (fun h => h)) (by simp) (by simp) (by simp) _

theorem PB.startHeartbeats {s : St} (p : PB s) : PB s.startHeartbeats := by
  unfold St.startHeartbeats
  exact PB.spawnLib (PB.spawnLib (s := { s with pingL := true, pingM := true }) (p.same rfl rfl rfl (fun h => h))
    (by simp) (by simp) (by simp) _) (by simp) (by simp) (by simp) _

theorem closed_elim {P : Prop} {cfg : Cfg} {s : St} {t : Tid} {c : Cont} (h : (enterClose cfg s t c).closed = false) : P := by
  rw [enterClose_closed] at h; cases h


/-! ### the steps (open state → open state) -/

theorem stepReader_P {cfg : Cfg} {s : St} (p : PB s) (o : OpenFacts s) :
    (stepReader cfg s).closed = false → PB (stepReader cfg s) := by
  unfold stepReader
  rw [if_neg (by simp [o.rs])]
  split
  · intro _; exact p
  · rename_i f rest _
    cases f with
    | msg n =>
      simp only; intro _
      refine PB.put ?_ n
      exact p.same rfl rfl rfl (fun h => h)
    | hb => simp only; intro _; exact p.same rfl rfl rfl (fun h => h)
    | logout => simp only; intro h; exact closed_elim h
    | bad => simp only; intro h; exact closed_elim h

theorem dispHandle_P {cfg : Cfg} {s : St} (v : VWit s) (hst : s.status .D = .ready) (hpr : s.prog .D = .dispLoop) (n : Nat) :
    (dispHandle cfg s n).closed = false → PB (dispHandle cfg s n) := by
  have jb : JB s := fun h => by rw [hst] at h; cases h
  have p : PB s := ⟨fun _ => Or.inl ⟨hst, Or.inl hpr⟩, v, jb⟩
  unfold dispHandle
  split
  · intro _; exact p.same rfl rfl rfl (fun h => h)
  · rename_i k _
    intro _
    refine ⟨fun _ => Or.inl ⟨hst, Or.inr ⟨n, k, by simp [St.setProg]⟩⟩, v.of_frame (fun hal => ⟨hal, fun a ha => ⟨ha, by simp [St.setProg]⟩⟩),
      jb.of_frame id id⟩
  · intro h; exact closed_elim h
  · intro _; exact (PB.initiateClose p).same rfl rfl rfl (fun h => h)
  · intro _; exact p.same rfl rfl rfl (fun h => h)
  · intro _
    exact (PB.startHeartbeats (p.same (s' := s.emit (.write .reply)) rfl rfl rfl (fun h => h))).same rfl rfl rfl (fun h => h)
  · intro h; exact closed_elim h

theorem stepDisp_P {cfg : Cfg} {s : St} (p : PB s) (o : OpenFacts s) (hst : s.status .D = .ready) (hpr : s.prog .D = .dispLoop) :
    (stepDisp cfg s).closed = false → PB (stepDisp cfg s) := by
  unfold stepDisp
  rw [if_neg (by simp [o.qc])]
  split
  · intro _; exact p
  · rename_i hbusy
    split
    · rename_i hq
      intro _
      refine ⟨fun _ => Or.inr ⟨by simp [St.setStatus], hpr, hq⟩, p.2.1.of_frame (fun hal => ⟨by simpa [St.setStatus] using hal, fun a ha => ⟨by simp [St.setStatus, ha], rfl⟩⟩), ?_⟩
      intro _
      show s.rcvBusy = false
      cases h : s.rcvBusy with
      | false => rfl
      | true => rw [h] at hbusy; simp at hbusy
    · rename_i n q hq
      refine dispHandle_P ?_ ?_ ?_ n
      · exact p.2.1.of_frame (fun hal => ⟨hal, fun a ha => ⟨ha, rfl⟩⟩)
      · exact hst
      · exact hpr

theorem stepMon_P {cfg : Cfg} {s : St} (p : PB s) (isLocal : Bool) :
    (stepMon cfg s isLocal).closed = false → PB (stepMon cfg s isLocal) := by
  unfold stepMon
  split
  · split
    · intro _; exact p.same rfl rfl rfl (fun h => h)
    · intro _; exact p.same rfl rfl rfl (fun h => h)
  · split
    · intro _; exact p.same rfl rfl rfl (fun h => h)
    · intro h; exact closed_elim h

theorem PB.startDispatching {s : St} (p : PB s) (cfg : Cfg) : PB (s.startDispatching cfg) := by
  unfold St.startDispatching
  split
  · refine ⟨fun _ => Or.inl ⟨by simp [St.spawn, St.setStatus, St.setProg], Or.inl (by simp [St.spawn, St.setStatus, St.setProg])⟩, p.2.1.of_frame ?_,
      fun h => by simp [St.spawn, St.setStatus, St.setProg] at h⟩
    intro hal
    exact ⟨by simpa [St.spawn, St.setStatus, St.setProg] using hal, fun a ha => by simp [St.spawn, St.setStatus, St.setProg, ha]⟩
  · exact p

theorem startDispatching_status (s : St) (cfg : Cfg) (y : Tid) (hy : y ≠ .D) : (s.startDispatching cfg).status y = s.status y := by
  unfold St.startDispatching
  split
  · simp [St.spawn, St.setStatus, St.setProg, hy]
  · rfl

theorem startDispatching_status_D (s : St) (cfg : Cfg) :
    (s.startDispatching cfg).status .D = s.status .D ∨ (s.startDispatching cfg).status .D = .ready := by
  unfold St.startDispatching
  split
  · right; simp [St.spawn, St.setStatus, St.setProg]
  · left; rfl

/-- `PB.finish` with the two waiting facts given directly -/
theorem PB.finish' {s : St} (p : PB s) {t : Tid} (hdw : s.status .D ≠ .waitT t) (hvw : s.status .V ≠ .waitT t) (htD : t ≠ .D)
    (hrun : s.status t = .ready ∨ s.status t = .cancelled) : PB (s.finish t) := by
  refine p.of_frame rfl ?_ rfl (fun h => h) ?_
  · rw [finish_status]; simp [Ne.symm htD, hdw]
  · intro hal
    have htV : t ≠ .V := by
      intro e; subst e; rw [finish_status] at hal; simp [alive] at hal
    refine ⟨?_, ?_⟩
    · rw [finish_status] at hal; simpa [Ne.symm htV, hvw] using hal
    · intro a ha
      refine ⟨?_, rfl⟩
      rw [finish_status]
      have hne : Tid.U a ≠ t := by
        intro e; rw [← e, ha] at hrun; rcases hrun with h | h <;> cases h
      simp [hne, ha, Ne.symm htV]

theorem loginResume_P {cfg : Cfg} {s : St} (p : PB s) (o : OpenFacts s) (a : Nat) (hst : s.status (.U a) = .ready) :
    (loginResume cfg s (.U a) a).closed = false → PB (loginResume cfg s (.U a) a) := by
  unfold loginResume
  split
  · rename_i n _
    simp only
    split
    · intro _
      generalize hs1 : (({ s with vres := none, rcvBusy := false, gone := s.gone ++ [(n, true)] } : St).emit (.loginReply n)) = s1
      have p1 : PB s1 := by rw [← hs1]; exact p.same rfl rfl rfl (fun h => h)
      have st1 : s1.status = s.status := by rw [← hs1]; rfl
      have p2 : PB ((s1.startHeartbeats.startDispatching cfg).emit (.ret a .ok)) :=
        (PB.startDispatching (PB.startHeartbeats p1) cfg).same rfl rfl rfl (fun h => h)
      have hsb : ∀ y, y ≠ .L → y ≠ .M → s1.startHeartbeats.status y = s1.status y := fun y h1 h2 =>
        ((startHeartbeats_frame s1).2.2.2.2.2.2.2.2.2 y h1 h2).1
      refine p2.finish' ?_ ?_ (by simp) ?_
      · show (s1.startHeartbeats.startDispatching cfg).status .D ≠ _
        rcases startDispatching_status_D s1.startHeartbeats cfg with h | h
        · rw [h, hsb _ (by simp) (by simp), st1]; exact o.dw _
        · rw [h]; simp
      · show (s1.startHeartbeats.startDispatching cfg).status .V ≠ _
        rw [startDispatching_status _ _ _ (by simp), hsb _ (by simp) (by simp), st1]; exact o.vw _
      · left
        show (s1.startHeartbeats.startDispatching cfg).status (.U a) = _
        rw [startDispatching_status _ _ _ (by simp), hsb _ (by simp) (by simp), st1]; exact hst
    · intro h; exact closed_elim h
  · split
    · intro _
      exact PB.finish (s := ({ s with rcvBusy := false } : St).emit (.ret a .refused)) (p.same rfl rfl rfl (fun h => h))
        ⟨o.idle, o.qc, o.dw, o.vw, o.wv, o.rs, o.dal⟩ (by simp) (Or.inl hst)
    · intro h; exact closed_elim h


theorem notD_of_cancelled {s : St} (p : PB s) (o : OpenFacts s) {t : Tid} (hst : s.status t = .cancelled) : t ≠ .D := by
  intro e; subst e
  have hd := o.dal (by rw [hst]; rfl)
  rcases p.1 hd with ⟨h, _⟩ | ⟨h, _⟩ <;> rw [hst] at h <;> cases h

/-- a late cancel puts the held message back in front of the queue: a receive is pending, so the dispatcher is not asleep on it -/
theorem PB.unhold {s : St} (p : PB s) (hb : s.rcvBusy = true) :
    PB { s with vres := none, rcvBusy := false, queue := s.vres.toList ++ s.queue } := by
  have hD : s.status .D ≠ .waitQ := fun h => by have := p.2.2 h; rw [hb] at this; cases this
  refine ⟨fun hd => ?_, p.2.1.of_frame (fun hal => ⟨hal, fun a ha => ⟨ha, rfl⟩⟩), p.2.2.of_frame id (fun h => (Bool.false_ne_true h).elim)⟩
  rcases p.1 hd with d | ⟨d1, _, _⟩
  · exact Or.inl d
  · exact absurd d1 hD

theorem stepRun_P {cfg : Cfg} {s : St} (a : InvA cfg s) (b : InvB s) (w : InvW s) (p : PB s) (o : OpenFacts s) (hc : s.closed = false) (t : Tid) :
    (stepRun cfg s t).closed = false → PB (stepRun cfg s t) := by
  unfold stepRun
  have p0 : PB ({ s with imm := none } : St) := p.same rfl rfl rfl (fun h => h)
  have w0 : InvW ({ s with imm := none } : St) := by iw w
  have o0 : OpenFacts ({ s with imm := none } : St) := ⟨o.idle, o.qc, o.dw, o.vw, o.wv, o.rs, o.dal⟩
  have b0 : InvB ({ s with imm := none } : St) := InvB.of_bcore (s := s) rfl b
  have a0 : InvA cfg ({ s with imm := none } : St) := InvA.of_core (s := s) rfl a
  have hc0 : ({ s with imm := none } : St).closed = false := hc
  generalize ({ s with imm := none } : St) = s0 at p0 o0 b0 a0 hc0 w0
  simp only
  split
  · -- a cancellation is delivered: not to the dispatcher of an open session
    rename_i hst
    have hal : alive (s0.status t) = true := by rw [hst]; rfl
    have typ := b0.typ t hal
    have htD := notD_of_cancelled p0 o0 hst
    have hrun : s0.status t = .ready ∨ s0.status t = .cancelled := Or.inr hst
    split
    · intro _; exact PB.finish (s := s0.emit (.msgAbandon _)) (p0.same rfl rfl rfl (fun h => h)) ⟨o0.idle, o0.qc, o0.dw, o0.vw, o0.wv, o0.rs, o0.dal⟩ htD hrun
    · intro _; exact p0.finish o0 htD hrun
    · rename_i u hp
      have hb : s0.rcvBusy = true := by
        have htu : t = .U u := allowed_recvWait (by rw [hp] at typ; exact typ)
        subst htu
        exact w0.busy u ⟨hal, Or.inr hp⟩
      split
      · intro _
        exact PB.finish (s := ({ s0 with vres := none, rcvBusy := false, queue := _ } : St).emit (.ret _ .eoq))
          ((p0.unhold hb).same rfl rfl rfl (fun h => h)) ⟨o0.idle, o0.qc, o0.dw, o0.vw, o0.wv, o0.rs, o0.dal⟩ htD hrun
      · intro _
        exact PB.finish (s := ({ s0 with vres := none, rcvBusy := false, queue := _ } : St).emit (.ret _ .cancelled))
          ((p0.unhold hb).same rfl rfl rfl (fun h => h)) ⟨o0.idle, o0.qc, o0.dw, o0.vw, o0.wv, o0.rs, o0.dal⟩ htD hrun
    · rename_i u hp
      have hb : s0.rcvBusy = true := by
        have htu : t = .U u := allowed_loginWait (by rw [hp] at typ; exact typ)
        subst htu
        exact w0.busy u ⟨hal, Or.inl hp⟩
      split
      · intro _
        exact PB.finish (s := ({ s0 with vres := none, rcvBusy := false, queue := _ } : St).emit (.ret _ .refused))
          ((p0.unhold hb).same rfl rfl rfl (fun h => h)) ⟨o0.idle, o0.qc, o0.dw, o0.vw, o0.wv, o0.rs, o0.dal⟩ htD hrun
      · intro h; exact closed_elim h
    · rw [stepInClose_open a0 hc0]; intro _; exact p0
    · intro _; exact p0.finish o0 htD hrun
  · -- the task runs
    rename_i hst
    have hal : alive (s0.status t) = true := by rw [hst]; rfl
    have typ := b0.typ t hal
    have hrun : s0.status t = .ready ∨ s0.status t = .cancelled := Or.inl hst
    split
    · split
      · exact stepReader_P p0 o0
      · intro _; exact p0
    · rename_i hp
      split
      · rename_i htD; subst htD; exact stepDisp_P p0 o0 hst hp
      · intro _; exact p0
    · rename_i n k hp
      have htD : t = .D := allowed_handler (by rw [hp] at typ; exact typ)
      subst htD
      split
      · intro _
        refine ⟨fun _ => Or.inl ⟨hst, Or.inl (by simp [St.setProg])⟩, p0.2.1.of_frame (fun hal => ⟨hal, fun a ha => ⟨ha, by simp [St.setProg, St.emit]⟩⟩),
          p0.2.2.of_frame id id⟩
      · rename_i k'
        intro _
        refine ⟨fun _ => Or.inl ⟨hst, Or.inr ⟨n, k', by simp [St.setProg]⟩⟩, p0.2.1.of_frame (fun hal => ⟨hal, fun a ha => ⟨ha, by simp [St.setProg]⟩⟩),
          p0.2.2.of_frame id id⟩
    · rename_i hp
      intro _
      rcases allowed_monStart (by rw [hp] at typ; exact typ) with h | h <;> subst h <;> exact p0.reprog (by simp) hrun _
    · split
      · exact stepMon_P p0 _
      · split
        · exact stepMon_P p0 _
        · intro _; exact p0
    · intro h; exact closed_elim h
    · rw [stepInClose_open a0 hc0]; intro _; exact p0
    · rename_i hp
      have htV : t = .V := allowed_vget (by rw [hp] at typ; exact typ)
      subst htV
      split
      · intro _
        refine p0.of_frame rfl (by simp [St.setStatus]) rfl (fun h => h) (fun _ => ⟨hal, fun a ha => ⟨by simp [St.setStatus, ha], rfl⟩⟩)
      · split
        · intro _; exact p0
        · rename_i n q hq _
          intro _
          exact PB.finish (s := { s0 with queue := q, vres := some n }) (p0.same rfl rfl rfl (fun h => by rw [hq] at h; cases h))
            ⟨o0.idle, o0.qc, o0.dw, o0.vw, o0.wv, o0.rs, o0.dal⟩ (by simp) hrun
    · rename_i u hp
      have htu : t = .U u := allowed_recvWait (by rw [hp] at typ; exact typ)
      subst htu
      split
      · intro _
        exact PB.finish (s := ({ s0 with vres := none, rcvBusy := false, gone := _ } : St).emit (.ret u (.msg _)))
          (p0.same rfl rfl rfl (fun h => h)) ⟨o0.idle, o0.qc, o0.dw, o0.vw, o0.wv, o0.rs, o0.dal⟩ (by simp) hrun
      · split
        · intro _
          exact PB.finish (s := ({ s0 with rcvBusy := false } : St).emit (.ret u .eoq))
            (p0.same rfl rfl rfl (fun h => h)) ⟨o0.idle, o0.qc, o0.dw, o0.vw, o0.wv, o0.rs, o0.dal⟩ (by simp) hrun
        · intro _
          exact PB.finish (s := ({ s0 with rcvBusy := false } : St).emit (.ret u .cancelled))
            (p0.same rfl rfl rfl (fun h => h)) ⟨o0.idle, o0.qc, o0.dw, o0.vw, o0.wv, o0.rs, o0.dal⟩ (by simp) hrun
    · rename_i u hp
      have htu : t = .U u := allowed_loginWait (by rw [hp] at typ; exact typ)
      subst htu
      exact loginResume_P p0 o0 u hst
    · intro _; exact p0
  · intro _; exact p0


/-- a user task that does not await the receive helper changes status -/
theorem PB.setStatus_user {s : St} (p : PB s) {u : Nat} (h : s.status (.U u) ≠ .waitT .V) (x : Status) : PB (s.setStatus (.U u) x) := by
  refine p.of_frame rfl (by simp [St.setStatus]) rfl (fun h => h) ?_
  intro hal
  refine ⟨by simpa [St.setStatus] using hal, fun a ha => ⟨?_, rfl⟩⟩
  have hne : a ≠ u := by intro e; subst e; exact h ha
  simp [St.setStatus, hne, ha]

theorem PB.setProg_user {s : St} (p : PB s) {u : Nat} (h : s.status (.U u) ≠ .waitT .V) (x : Prog) : PB (s.setProg (.U u) x) := by
  refine p.of_frame rfl rfl (by simp [St.setProg]) (fun h => h) ?_
  intro hal
  refine ⟨hal, fun a ha => ⟨ha, ?_⟩⟩
  have hne : a ≠ u := by intro e; subst e; exact h ha
  simp [St.setProg, hne]

theorem startRecv_P {s : St} (p : PB s) (u : Nat) (isLogin : Bool) (hu : s.status (.U u) = .absent)
    (hdal : alive (s.status .D) = true → s.dispSet = true) : PB (startRecv s u isLogin) := by
  have hnw : s.status (.U u) ≠ .waitT .V := by rw [hu]; simp
  unfold startRecv
  split
  · exact p
  · split
    · exact PB.setStatus_user (s := s.emit _) (p.same rfl rfl rfl (fun h => h)) hnw _
    · rename_i hnd
      -- a receive starts only while `_dispatcher_task is None`: no dispatcher sleeps in `queue.get()`
      have hDq : s.status .D ≠ .waitQ := fun h => hnd (hdal (by rw [h]; rfl))
      split
      · rename_i n q hq
        have p1 : PB { s with queue := q, vres := some n, rcvBusy := true, imm := some (.U u) } :=
          ⟨fun hd => absurd hd hnd, p.2.1.of_frame (fun hal => ⟨hal, fun a ha => ⟨ha, rfl⟩⟩), fun h => absurd h hDq⟩
        refine PB.setProg_user (PB.setStatus_user p1 hnw _) ?_ _
        simp [St.setStatus]
      · split
        · split
          · exact PB.setStatus_user (s := s.emit _) (p.same rfl rfl rfl (fun h => h)) hnw _
          · exact PB.setStatus_user (s := s.emit _) (p.same rfl rfl rfl (fun h => h)) hnw _
        · -- the helper task is spawned and the caller awaits it: the caller is the witness
          refine ⟨fun hd => ?_, fun _ => ⟨u, by simp [St.setProg, St.setStatus], ?_⟩, fun h => ?_⟩
          · exact (p.1 hd).of_frame (by simp [St.setProg, St.setStatus, St.spawn]) (by simp [St.setProg, St.setStatus, St.spawn]) (fun h => h)
          · cases isLogin <;> simp [St.setProg]
          · exact absurd (by simpa [St.setProg, St.setStatus, St.spawn] using h) hDq

theorem step_P {cfg : Cfg} {s : St} (a : InvA cfg s) (r : InvR s) (b : InvB s) (w : InvW s) (p : InvP s) (ev : Ev) :
    InvP (step cfg s ev) := by
  intro hc'
  have hc : s.closed = false := by
    cases h : s.closed with
    | false => rfl
    | true => rw [step_closed_mono cfg s ev h] at hc'; cases hc'
  have o := OpenFacts.of_inv a r b w hc
  have pb := p hc
  revert hc'
  cases ev with
  | connect =>
    simp only [step]
    split
    · intro _; exact pb
    · split
      · intro _; exact PB.startDispatching (PB.spawnLib pb (by simp) (by simp) (by simp) _) cfg
      · intro _; exact PB.spawnLib pb (by simp) (by simp) (by simp) _
  | data fs => intro _; exact pb.same rfl rfl rfl (fun h => h)
  | eof => intro _; exact pb.initiateClose
  | run t =>
    simp only [step]
    split
    · exact stepRun_P a b w pb o hc t
    · intro _; exact pb
  | callClose u =>
    simp only [step]
    split
    · intro _; exact pb
    · intro h; exact closed_elim h
  | callInitiateClose => intro _; exact pb.initiateClose
  | callLogout => intro _; exact PB.initiateClose (s := { (s.emit (.write .logout)) with pingL := true }) (pb.same rfl rfl rfl (fun h => h))
  | callRecv u =>
    simp only [step]
    split
    · intro _; exact pb
    · rename_i hab
      intro _; exact startRecv_P pb u false (by simpa using hab) o.dal
  | callRecvNowait u =>
    simp only [step]
    split
    · intro _; exact pb
    · split
      · intro _; exact pb.same rfl rfl rfl (fun h => h)
      · split
        · rename_i n q hq
          intro _; exact pb.same rfl rfl rfl (fun h => by rw [hq] at h; cases h)
        · split <;> (intro _; exact pb.same rfl rfl rfl (fun h => h))
  | callLogin u =>
    simp only [step]
    split
    · intro _; exact pb
    · rename_i hab
      have hab' : s.status (.U u) = .absent := by
        simp only [Bool.or_eq_true, not_or] at hab
        simpa using hab.1.1
      intro _
      exact startRecv_P (s := { (s.emit (.write .login)) with pingL := true }) (pb.same rfl rfl rfl (fun h => h)) u true hab' o.dal
  | callSend => intro _; exact pb.same rfl rfl rfl (fun h => h)
  | cancel u =>
    intro _
    simp only [step]
    unfold St.cancelTask
    split
    · rename_i h; exact pb.setStatus_user (by rw [h]; simp) _
    · rename_i h; exact pb.setStatus_user (by rw [h]; simp) _
    · rename_i w0 hw
      have hV : w0 = .V := o.wv _ _ hw
      subst hV
      split
      · rename_i hv
        refine pb.of_frame rfl (by simp [St.setStatus]) rfl (fun h => h) (fun _ => ⟨by rw [hv]; rfl, fun a ha => ⟨by simp [St.setStatus, ha], rfl⟩⟩)
      · rename_i hv
        refine pb.of_frame rfl (by simp [St.setStatus]) rfl (fun h => h) (fun _ => ⟨by rw [hv]; rfl, fun a ha => ⟨by simp [St.setStatus, ha], rfl⟩⟩)
      · exact pb
    · exact pb

theorem InvP.init : InvP {} := by
  intro _
  exact ⟨fun h => by simp at h, fun h => by simp [alive] at h, fun h => by simp at h⟩

/-- **`InvP` holds in every reachable state.** -/
theorem runEvs_InvP (cfg : Cfg) (evs : List Ev) : InvP (runEvs cfg {} evs) := by
  have : ∀ (s : St), InvA cfg s → InvR s → InvB s → InvW s → InvP s → InvP (runEvs cfg s evs) := by
    induction evs with
    | nil => intro s _ _ _ _ p; exact p
    | cons ev evs ih =>
      intro s a r b w p
      exact ih _ (step_InvA a ev) (step_InvR a r ev) (step_InvB a r b ev) (step_W a r b w ev) (step_P a r b w p ev)
  exact this _ (InvA.init cfg) InvR.init InvB.init InvW.init InvP.init

/-- **When a cancellation is delivered inside a receive of an open session — the moment the model puts a held message back
    at the head of the queue, i.e. the code appends it to `_unclaimed` — nothing is suspended on the asyncio queue**: the
    dispatcher is not asleep in `queue.get()` and the receive helper has ended.  So no getter could have been served from the
    asyncio queue behind the stash: the stash in front of the queue and the queue with the message re-inserted at its head are
    the same thing to every later reader (`get_nowait()` and the dispatcher loop read the stash first). -/
theorem stash_no_getter (cfg : Cfg) (evs : List Ev) (u : Nat) (hc : (runEvs cfg {} evs).closed = false)
    (hst : (runEvs cfg {} evs).status (.U u) = .cancelled)
    (hp : (runEvs cfg {} evs).prog (.U u) = .loginWait u ∨ (runEvs cfg {} evs).prog (.U u) = .recvWait u) :
    (runEvs cfg {} evs).status .D ≠ .waitQ ∧ alive ((runEvs cfg {} evs).status .V) = false := by
  have w := runEvs_InvW cfg evs
  have p := runEvs_InvP cfg evs hc
  have hr : rcving (runEvs cfg {} evs) u := ⟨by rw [hst]; rfl, hp⟩
  have hb := w.busy u hr
  refine ⟨fun h => ?_, ?_⟩
  · have := p.2.2 h; rw [hb] at this; cases this
  · cases hal : alive ((runEvs cfg {} evs).status .V) with
    | false => rfl
    | true =>
      obtain ⟨a, ha, hpa⟩ := p.2.1 hal
      have hra : rcving (runEvs cfg {} evs) a := ⟨by rw [ha]; rfl, hpa⟩
      have := w.uniq a u hra hr
      subst this
      rw [hst] at ha; cases ha

end NasdaqModel.Sess
