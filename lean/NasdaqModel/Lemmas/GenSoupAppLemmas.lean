import NasdaqModel.Model.GenSoupApp
import NasdaqModel.Lemmas.PyLemmas
namespace NasdaqModel.GenSoupApp
open NasdaqModel
open NasdaqModel.Py (isDigit digitsVal natDigits)

/-! ### mapE -/
def getOk {α β : Type} [Inhabited β] (f : α → Except Err β) (a : α) : β :=
  match f a with
  | .ok b => b
  | .error _ => default

theorem getOk_eq {α β : Type} [Inhabited β] {f : α → Except Err β} {a : α} {b : β} (h : f a = .ok b) :
    getOk f a = b := by
  simp [getOk, h]

theorem mapE_ok {α β : Type} (f : α → Except Err β) (g : α → β) :
    ∀ (l : List α), (∀ a ∈ l, f a = .ok (g a)) → mapE f l = .ok (l.map g)
  | [], _ => rfl
  | a :: as, h => by
      have h1 : f a = .ok (g a) := h a (List.mem_cons_self ..)
      have h2 := mapE_ok f g as (fun x hx => h x (List.mem_cons_of_mem _ hx))
      simp only [mapE, h1, h2, ok_bind, pure_eq_ok, List.map_cons]

theorem mapE_getOk {α β : Type} [Inhabited β] (f : α → Except Err β) (l : List α)
    (h : ∀ a ∈ l, ∃ b, f a = .ok b) : mapE f l = .ok (l.map (getOk f)) :=
  mapE_ok f (getOk f) l (fun a ha => by
    obtain ⟨b, hb⟩ := h a ha
    rw [getOk_eq hb, hb])

/-! ### hasDup / dictionaries -/
theorem hasDup_false {α : Type} [BEq α] [LawfulBEq α] : ∀ {l : List α}, hasDup l = false → l.Nodup
  | [], _ => List.nodup_nil
  | a :: as, h => by
      simp only [hasDup, Bool.or_eq_false_iff] at h
      refine List.nodup_cons.mpr ⟨?_, hasDup_false h.2⟩
      intro hm
      have := h.1
      simp [hm] at this

theorem dictGet?_none {κ ν : Type} [BEq κ] [LawfulBEq κ] : ∀ (d : List (κ × ν)) (k : κ), k ∉ d.map (·.1) → dictGet? d k = none
  | [], _, _ => rfl
  | (k', v') :: rest, k, h => by
      simp only [List.map_cons, List.mem_cons, not_or] at h
      have hne : (k' == k) = false := by
        rw [beq_eq_false_iff_ne]; exact fun e => h.1 e.symm
      simp only [dictGet?, hne]
      exact dictGet?_none rest k h.2

theorem dictSet_new {κ ν : Type} [BEq κ] [LawfulBEq κ] : ∀ (d : List (κ × ν)) (k : κ) (v : ν), k ∉ d.map (·.1) →
    dictSet d k v = d ++ [(k, v)]
  | [], _, _, _ => rfl
  | (k', v') :: rest, k, v, h => by
      simp only [List.map_cons, List.mem_cons, not_or] at h
      have hne : (k' == k) = false := by
        rw [beq_eq_false_iff_ne]; exact fun e => h.1 e.symm
      simp only [dictSet, hne, List.cons_append]
      rw [dictSet_new rest k v h.2]
      rfl

theorem dictOfList_aux {κ ν : Type} [BEq κ] [LawfulBEq κ] : ∀ (xs acc : List (κ × ν)),
    (acc.map (·.1) ++ xs.map (·.1)).Nodup →
    xs.foldl (fun d kv => dictSet d kv.1 kv.2) acc = acc ++ xs
  | [], acc, _ => by simp
  | (k, v) :: xs, acc, h => by
      have hk : k ∉ acc.map (·.1) := by
        intro hm
        have := List.nodup_append.mp h
        exact this.2.2 k hm k (by simp) rfl
      simp only [List.foldl_cons]
      rw [dictSet_new acc k v hk]
      have h' : ((acc ++ [(k, v)]).map (·.1) ++ xs.map (·.1)).Nodup := by
        simpa [List.map_append, List.append_assoc] using h
      rw [dictOfList_aux xs (acc ++ [(k, v)]) h']
      simp

theorem dictOfList_nodup {κ ν : Type} [BEq κ] [LawfulBEq κ] (xs : List (κ × ν)) (h : (xs.map (·.1)).Nodup) :
    dictOfList xs = xs := by
  have := dictOfList_aux xs [] (by simpa using h)
  simpa [dictOfList] using this

theorem dictGet?_map {α κ ν : Type} [BEq κ] (key : α → κ) (val : α → ν) (k : κ) :
    ∀ (l : List α), dictGet? (l.map fun a => (key a, val a)) k = (l.find? fun a => key a == k).map val
  | [] => rfl
  | a :: as => by
      simp only [List.map_cons, dictGet?, List.find?_cons]
      cases h : key a == k
      · simp only [Bool.false_eq_true, if_false]; exact dictGet?_map key val k as
      · simp

/-! ### strings -/
theorem isPrefix_append (p s : Str) : isPrefix p (p ++ s) = true := by
  induction p with
  | nil => simp [isPrefix]
  | cons a as ih => simp [isPrefix, ih]

theorem isPrefix_mem : ∀ {p t : Str}, isPrefix p t = true → ∀ c ∈ p, c ∈ t
  | [], _, _, c, hc => by cases hc
  | a :: as, [], h, _, _ => by simp [isPrefix] at h
  | a :: as, b :: bs, h, c, hc => by
      simp only [isPrefix, Bool.and_eq_true, beq_iff_eq] at h
      rcases List.mem_cons.mp hc with rfl | hc
      · rw [h.1]; exact List.mem_cons_self ..
      · exact List.mem_cons_of_mem _ (isPrefix_mem h.2 c hc)

theorem isPrefix_false_of_not_mem {p t : Str} {c : Nat} (hp : c ∈ p) (ht : c ∉ t) : isPrefix p t = false := by
  cases h : isPrefix p t
  · rfl
  · exact absurd (isPrefix_mem h c hp) ht

theorem removeAllAux_noocc (p : Str) (c : Nat) (hp : c ∈ p) :
    ∀ (n : Str) (fuel : Nat), c ∉ n → removeAllAux p fuel n = n
  | [], fuel, _ => by cases fuel <;> rfl
  | x :: xs, 0, _ => rfl
  | x :: xs, fuel + 1, hn => by
      have h1 : isPrefix p (x :: xs) = false := isPrefix_false_of_not_mem hp hn
      simp only [removeAllAux, h1, Bool.false_eq_true, if_false]
      rw [removeAllAux_noocc p c hp xs fuel (fun h => hn (List.mem_cons_of_mem _ h))]

theorem removeAll_prefix (p n : Str) (c : Nat) (hp : c ∈ p) (hn : c ∉ n) : removeAll p (p ++ n) = n := by
  unfold removeAll
  cases p with
  | nil => cases hp
  | cons a as =>
    simp only [List.cons_append, List.length_cons, removeAllAux]
    have : isPrefix (a :: as) (a :: (as ++ n)) = true := by
      have := isPrefix_append (a :: as) n
      simpa using this
    rw [if_pos this]
    have hd : (a :: (as ++ n)).drop (as.length + 1) = n := by
      simp
    rw [hd]
    exact removeAllAux_noocc (a :: as) c hp n _ hn

theorem splitColon_some : ∀ {t k n : Str}, splitColon t = (k, some n) → t = k ++ 58 :: n
  | [], k, n, h => by simp [splitColon] at h
  | c :: cs, k, n, h => by
      simp only [splitColon] at h
      split at h
      · rename_i hc
        simp only [Prod.mk.injEq, Option.some.injEq] at h
        rw [← h.1, ← h.2, hc]; rfl
      · rename_i hc
        cases hs : splitColon cs with
        | mk a b =>
          rw [hs] at h
          simp only [Prod.mk.injEq] at h
          obtain ⟨h1, h2⟩ := h
          subst h1; subst h2
          have := splitColon_some hs
          rw [this]; rfl

theorem splitColon_none : ∀ {t k : Str}, splitColon t = (k, none) → k = t ∧ 58 ∉ t
  | [], k, h => by simp [splitColon] at h; exact ⟨h, by simp⟩
  | c :: cs, k, h => by
      simp only [splitColon] at h
      split at h
      · simp at h
      · rename_i hc
        cases hs : splitColon cs with
        | mk a b =>
          rw [hs] at h
          simp only [Prod.mk.injEq] at h
          obtain ⟨h1, h2⟩ := h
          subst h1; subst h2
          obtain ⟨h3, h4⟩ := splitColon_none hs
          refine ⟨by rw [h3], ?_⟩
          intro hm
          rcases List.mem_cons.mp hm with h5 | h5
          · exact hc h5.symm
          · exact h4 h5

theorem isIdentChar_58 : isIdentChar 58 = false := by decide

theorem isIdent_chars {n : Str} (h : isIdent n = true) : ∀ c ∈ n, isIdentChar c = true := by
  cases n with
  | nil => simp [isIdent] at h
  | cons a as =>
    simp only [isIdent, Bool.and_eq_true, List.all_eq_true] at h
    intro c hc
    rcases List.mem_cons.mp hc with rfl | hc
    · simp [isIdentChar, h.1.1]
    · exact h.1.2 c hc

theorem isIdent_no_colon {n : Str} (h : isIdent n = true) : 58 ∉ n := by
  intro hm
  have := isIdent_chars h 58 hm
  rw [isIdentChar_58] at this
  cases this

theorem unquote_pyStrBody : ∀ {v : Str}, plainText v = true → unquote (pyStrBody v) = .ok v
  | [], _ => rfl
  | c :: cs, h => by
      simp only [plainText, List.all_cons, Bool.and_eq_true] at h
      have ih := unquote_pyStrBody (v := cs) (by simpa [plainText] using h.2)
      unfold unquote at ih ⊢
      have hc := h.1
      simp only [plainChar, Bool.not_eq_true', Bool.or_eq_false_iff, beq_eq_false_iff_ne, ne_eq] at hc
      by_cases h92 : c = 92
      · subst h92; simp [pyStrBody, unquoteAux, ih]
      · by_cases h39 : c = 39
        · subst h39; simp [pyStrBody, unquoteAux, ih]
        · simp [pyStrBody, unquoteAux, h92, h39, hc, ih]

theorem isNatLit_digits {s : Str} (h : isNatLit s = true) : s.all isDigit = true := by
  simp only [isNatLit, Bool.and_eq_true] at h
  exact h.1.2

theorem isInfix_append : ∀ (p a b : Str), isInfix p a = true → isInfix p (a ++ b) = true
  | p, [], b, h => by
      simp only [isInfix, List.isEmpty_iff] at h
      subst h
      cases b <;> simp [isInfix, isPrefix]
  | p, x :: xs, b, h => by
      simp only [isInfix, Bool.or_eq_true] at h
      simp only [List.cons_append, isInfix, Bool.or_eq_true]
      rcases h with h | h
      · left
        -- a prefix of `x :: xs` is a prefix of `x :: xs ++ b`
        have key : ∀ (q t : Str), isPrefix q t = true → isPrefix q (t ++ b) = true := by
          intro q
          induction q with
          | nil => intro t _; simp [isPrefix]
          | cons y ys ih =>
            intro t ht
            cases t with
            | nil => simp [isPrefix] at ht
            | cons z zs =>
              simp only [isPrefix, Bool.and_eq_true] at ht
              simp only [List.cons_append, isPrefix, Bool.and_eq_true]
              exact ⟨ht.1, ih zs ht.2⟩
        exact key p (x :: xs) h
      · right; exact isInfix_append p xs b h

/-! ### decimal literals -/
theorem natDigits_head (n : Nat) : n ≠ 0 → (natDigits n).head? ≠ some 48 := by
  induction n using Nat.strongRecOn with
  | _ n ih =>
    intro hn
    rw [Py.natDigits_eq]
    split
    · simp; omega
    · have hne := Py.natDigits_ne_nil (n / 10)
      have := ih (n / 10) (by omega) (by omega)
      cases hd : natDigits (n / 10) with
      | nil => exact absurd hd hne
      | cons a as => rw [hd] at this; simpa using this

theorem isNatLit_natDigits (n : Nat) : isNatLit (natDigits n) = true := by
  simp only [isNatLit, Bool.and_eq_true, Bool.or_eq_true, Bool.not_eq_true', bne_iff_ne, ne_eq]
  refine ⟨⟨?_, ?_⟩, ?_⟩
  · cases h : natDigits n with
    | nil => exact absurd h (Py.natDigits_ne_nil n)
    | cons a as => rfl
  · rw [List.all_eq_true]; exact Py.natDigits_all_digit n
  · by_cases hn : n = 0
    · right; subst hn; decide
    · left; exact natDigits_head n hn


/-! ### the parser on well-formed specifications -/
def toDef (f : FieldEl) : FieldDef := ⟨f.name, f.ty, f.ref, f.array, f.length, f.dflt, f.endian⟩

/-- the element a `<field>` stands for (`def=` resolved) -/
def resolvedF (s : Spec) (f0 : FieldEl) : FieldEl :=
  match resolveDef s f0 with
  | .ok f => f
  | .error _ => f0

def specDefs (s : Spec) : FieldDefs := s.fielddefs.map fun e => (e.name, toDef e)

theorem parseFieldDefs_wf {s : Spec} (h : wfFieldDefs s = true) : parseFieldDefs s.fielddefs = .ok (specDefs s) := by
  simp only [wfFieldDefs, Bool.and_eq_true, List.all_eq_true, Bool.not_eq_true'] at h
  obtain ⟨h1, h2⟩ := h
  have hm : parseFields [] s.fielddefs = .ok (s.fielddefs.map toDef) := by
    apply mapE_ok
    intro e he
    have := (h1 e he).1
    cases hd : e.defn with
    | none => simp [parseField, hd, toDef]
    | some d => simp [hd] at this
  simp only [parseFieldDefs, hm, ok_bind, pure_eq_ok, List.map_map]
  have hk : (List.map (fun x => x.1) (List.map ((fun f => (f.name, f)) ∘ toDef) s.fielddefs)).Nodup := by
    have := hasDup_false h2
    simpa [List.map_map, Function.comp_def, toDef] using this
  rw [dictOfList_nodup _ hk]
  rfl

theorem parseField_wf {s : Spec} {seen : List Str} {f0 : FieldEl} (h : wfField s seen f0 = true) :
    parseField (specDefs s) f0 = .ok (toDef (resolvedF s f0)) := by
  unfold wfField at h
  cases hd : f0.defn with
  | none =>
    have : resolveDef s f0 = .ok f0 := by simp [resolveDef, hd]
    simp [parseField, hd, resolvedF, this, toDef]
  | some d =>
    rw [hd] at h
    simp only [Bool.and_eq_true, Bool.not_eq_true'] at h
    obtain ⟨hne, h⟩ := h
    cases hf : findDef? s d with
    | none => simp [resolveDef, hd, hf] at h
    | some base =>
      have hr : resolveDef s f0 = .ok { base with name := nameOr f0.name base.name } := by
        unfold resolveDef; rw [hd]; dsimp only; rw [hf]
      have hg : dictGet? (specDefs s) (some d) = some (toDef base) := by
        unfold specDefs
        rw [dictGet?_map (fun e : FieldEl => e.name) toDef (some d) s.fielddefs]
        have : List.find? (fun a => a.name == some d) s.fielddefs = some base := hf
        rw [this]; rfl
      simp only [parseField, hd, hne, Bool.false_eq_true, if_false, hg, resolvedF, hr]
      rfl



theorem parseFields_wf {s : Spec} {seen : List Str} {fs : List FieldEl} (h : fs.all (wfField s seen) = true) :
    parseFields (specDefs s) fs = .ok (fs.map fun f => toDef (resolvedF s f)) := by
  apply mapE_ok
  intro f hf
  exact parseField_wf (List.all_eq_true.mp h f hf)

def recDef (s : Spec) (r : RecordEl) : RecordDef := ⟨r.name, r.fields.map fun f => toDef (resolvedF s f)⟩

/-- the converted message id -/
def msgIdText (g : MessageEl) : Str :=
  match convertMsgId g.msgId with
  | .ok i => i
  | .error _ => g.msgId

def msgDef (s : Spec) (g : MessageEl) : MessageDef :=
  ⟨g.name, msgIdText g, g.group, g.fields.map fun f => toDef (resolvedF s f), g.direction⟩

def specDefinitions (s : Spec) : Definitions :=
  ⟨s.enums.map fun e => (e.name, e), s.records.map fun r => (r.name, recDef s r), s.messages.map (msgDef s)⟩

theorem convertMsgId_wf {x : Str} {n : Nat} (h : denoteMsgId x = .ok n) :
    ∃ i, convertMsgId x = .ok i ∧ isNatLit i = true ∧ digitsVal i = n := by
  unfold denoteMsgId at h
  cases hp : parseNat? x with
  | some k =>
    rw [hp] at h
    simp only [Except.ok.injEq] at h
    subst h
    unfold parseNat? at hp
    split at hp
    · rename_i hl
      simp only [Option.some.injEq] at hp
      refine ⟨x, ?_, hl, hp⟩
      have hd := isNatLit_digits hl
      have hne : x.isEmpty = false := by
        simp only [isNatLit, Bool.and_eq_true, Bool.not_eq_true'] at hl
        exact hl.1.1
      simp [convertMsgId, hd, hne]
    · cases hp
  | none =>
    rw [hp] at h
    match x, h with
    | [c], h =>
      simp only at h
      split at h
      · cases h
      · rename_i hc
        simp only [Except.ok.injEq] at h
        subst h
        refine ⟨natDigits c, ?_, isNatLit_natDigits c, Py.digitsVal_natDigits c⟩
        simp only [Bool.not_eq_true] at hc
        simp [convertMsgId, hc]

theorem wfMessage_id {s : Spec} {g : MessageEl} (h : wfMessage s g = true) :
    ∃ n, denoteMsgId g.msgId = .ok n ∧ n < 256 := by
  simp only [wfMessage, Bool.and_eq_true] at h
  cases hd : denoteMsgId g.msgId with
  | ok n => rw [hd] at h; exact ⟨n, rfl, by simpa using h.1.1⟩
  | error e => rw [hd] at h; simp at h

theorem parseMessages_wf {s : Spec} (ovr : Bool) :
    ∀ (gs : List MessageEl) (acc : List (Str × MessageDef)),
      (∀ g ∈ gs, wfMessage s g = true) →
      (acc.map (·.1) ++ gs.map specMsgKey).Nodup →
      parseMessages (specDefs s) ovr acc gs = .ok (acc ++ gs.map fun g => (specMsgKey g, msgDef s g))
  | [], acc, _, _ => by simp [parseMessages]
  | g :: gs, acc, hw, hn => by
      have hg := hw g (List.mem_cons_self ..)
      obtain ⟨n, hid, _⟩ := wfMessage_id hg
      obtain ⟨i, hi, _, _⟩ := convertMsgId_wf hid
      have hfs : parseFields (specDefs s) g.fields = .ok (g.fields.map fun f => toDef (resolvedF s f)) := by
        simp only [wfMessage, wfFields, Bool.and_eq_true] at hg
        exact parseFields_wf hg.2.1
      have hdef : (⟨g.name, i, g.group, g.fields.map fun f => toDef (resolvedF s f), g.direction⟩ : MessageDef)
          = msgDef s g := by
        simp [msgDef, msgIdText, hi]
      have hkey : msgKey (msgDef s g) = specMsgKey g := by
        simp [msgKey, specMsgKey, msgDef, msgIdText, hi]
      have hnotin : specMsgKey g ∉ acc.map (·.1) := by
        intro hm
        have := List.nodup_append.mp hn
        exact this.2.2 _ hm _ (by simp) rfl
      simp only [parseMessages, hfs, hi, ok_bind, hdef, hkey]
      rw [dictGet?_none acc _ hnotin, dictSet_new acc _ _ hnotin]
      simp only [Option.isSome_none, Bool.false_and, Bool.false_eq_true, if_false]
      rw [parseMessages_wf ovr gs _ (fun g' hg' => hw g' (List.mem_cons_of_mem _ hg'))]
      · simp
      · simpa [List.map_append, List.append_assoc] using hn



/-- `wfSpec` unpacked -/
structure WF (impl : Impl) (s : Spec) : Prop where
  names : ∀ n ∈ classNames s, isIdent n = true ∧ n ∉ reservedNames impl
  nodup : (classNames s).Nodup
  enums : ∀ e ∈ s.enums, wfEnum e = true
  defs : wfFieldDefs s = true
  recs : wfRecords s [] s.records = true
  msgs : ∀ g ∈ s.messages, wfMessage s g = true
  keys : (s.messages.map specMsgKey).Nodup
  reg : regOk impl [] (s.messages.map fun g => (msgIdVal g, orEmpty g.direction)) = true

theorem wfSpec_inv {impl : Impl} {s : Spec} (h : wfSpec impl s = true) : WF impl s := by
  simp only [wfSpec, Bool.and_eq_true, List.all_eq_true, Bool.not_eq_true'] at h
  obtain ⟨⟨⟨⟨⟨⟨⟨h1, h2⟩, h3⟩, h4⟩, h5⟩, h6⟩, h7⟩, h8⟩ := h
  refine ⟨?_, hasDup_false h2, h3, h4, h5, h6, hasDup_false h7, h8⟩
  intro n hn
  have := h1 n hn
  refine ⟨this.1, ?_⟩
  intro hm
  have h9 := this.2
  simp [hm] at h9

theorem wfRecords_fields {s : Spec} : ∀ (rs : List RecordEl) (seen : List Str), wfRecords s seen rs = true →
    ∀ r ∈ rs, ∃ seen', wfFields s seen' r.fields = true
  | [], _, _, r, hr => by cases hr
  | r0 :: rs, seen, h, r, hr => by
      simp only [wfRecords, Bool.and_eq_true] at h
      rcases List.mem_cons.mp hr with rfl | hr
      · exact ⟨seen, h.1⟩
      · exact wfRecords_fields rs _ h.2 r hr

theorem parse_wf {impl : Impl} {s : Spec} (ovr : Bool) (h : WF impl s) : parse ovr s = .ok (specDefinitions s) := by
  have hnd := h.nodup
  unfold classNames at hnd
  have hnd1 := (List.nodup_append.mp hnd).1
  have hne := (List.nodup_append.mp hnd1).1
  have hnr := (List.nodup_append.mp hnd1).2.1
  have hrecs : mapE (fun (r : RecordEl) => do
      let fs ← parseFields (specDefs s) r.fields
      pure (r.name, (⟨r.name, fs⟩ : RecordDef))) s.records = .ok (s.records.map fun r => (r.name, recDef s r)) := by
    apply mapE_ok
    intro r hr
    obtain ⟨seen', hw⟩ := wfRecords_fields s.records [] h.recs r hr
    simp only [wfFields, Bool.and_eq_true] at hw
    simp only [parseFields_wf hw.1, ok_bind, pure_eq_ok, recDef]
  have hmsgs := parseMessages_wf (s := s) ovr s.messages [] h.msgs (by simpa using h.keys)
  unfold parse
  rw [parseFieldDefs_wf h.defs]
  simp only [ok_bind]
  rw [hrecs]
  simp only [ok_bind]
  rw [hmsgs]
  simp only [ok_bind, pure_eq_ok, List.nil_append, specDefinitions, List.map_map]
  rw [dictOfList_nodup _ (by simpa [List.map_map, Function.comp_def] using hne),
      dictOfList_nodup _ (by simpa [List.map_map, Function.comp_def] using hnr)]
  rfl


/-! ### tables -/
theorem kwEnum_eq : kwEnum = [101, 110, 117, 109, 58] := by decide
theorem kwRecord_eq : kwRecord = [114, 101, 99, 111, 114, 100, 58] := by decide
theorem cp_enum : cp "enum" = [101, 110, 117, 109] := by decide
theorem cp_record : cp "record" = [114, 101, 99, 111, 114, 100] := by decide

theorem typeDef_prim (p : Prim) : typeDef (some p.id) = .ok (.prim p) := by cases p <;> decide
theorem typeDef_fixed (iso : Bool) : typeDef (some (fixedId iso)) = .ok (.fixed iso) := by cases iso <;> decide
theorem prim_not_enum (p : Prim) : isPrefix kwEnum p.id = false := by cases p <;> decide
theorem prim_not_record (p : Prim) : isPrefix kwRecord p.id = false := by cases p <;> decide
theorem fixed_not_enum (iso : Bool) : isPrefix kwEnum (fixedId iso) = false := by cases iso <;> decide
theorem fixed_not_record (iso : Bool) : isPrefix kwRecord (fixedId iso) = false := by cases iso <;> decide
theorem prim_not_fixed (p : Prim) (iso : Bool) : (some p.id == some (fixedId iso)) = false := by
  cases p <;> cases iso <;> decide
theorem docPrim_id (p : Prim) : docPrim p.id = some p := by cases p <;> decide
theorem docPrim_eq {t : Str} {p : Prim} (h : docPrim t = some p) : t = p.id := by
  unfold docPrim at h
  have := List.find?_some h
  exact (by simpa using this : p.id = t).symm
theorem docFixed_eq {t : Str} {iso : Bool} (h : docFixed t = some iso) : t = fixedId iso := by
  unfold docFixed at h
  split at h
  · rename_i h1; simp only [Option.some.injEq] at h; subst h; simpa [fixedId] using h1
  · split at h
    · rename_i h1; simp only [Option.some.injEq] at h; subst h; simpa [fixedId] using h1
    · cases h
theorem prim_cls_ident (p : Prim) : isIdent p.cls = true := by cases p <;> decide
theorem fixedCls_ident (iso : Bool) : isIdent (fixedCls iso) = true := by cases iso <;> decide
theorem hint_ident (k : PrimKind) : isIdent k.hint = true := by cases k <;> decide
theorem quote_prim (p : Prim) : quoteOf (.cls p.cls) = (p.kind == .text) := by cases p <;> decide
theorem fixedCls_string (iso : Bool) : isInfix (cp "String") (fixedCls iso) = true := by cases iso <;> decide
theorem hint_str (p : Prim) : (p.kind.hint == cp "str") = (p.kind == .text) := by cases p <;> decide
theorem none_not_lit : isNatLit (cp "None") = false := by decide

theorem prim_reserved (impl : Impl) (p : Prim) : p.cls ∈ reservedNames impl := by
  cases impl <;> cases p <;> decide
theorem init_prim (impl : Impl) (p : Prim) : (initEnv impl).get p.cls = .ok (.prim p) := by
  cases impl <;> cases p <;> decide
theorem fixed_reserved (impl : Impl) (iso : Bool) : fixedCls iso ∈ reservedNames impl := by
  cases impl <;> cases iso <;> decide
theorem init_fixed (impl : Impl) (iso : Bool) : (initEnv impl).get (fixedCls iso) = .ok (.fixedCls iso) := by
  cases impl <;> cases iso <;> decide
theorem hint_reserved (impl : Impl) (k : PrimKind) : k.hint ∈ reservedNames impl := by
  cases impl <;> cases k <;> decide
theorem init_hint (impl : Impl) (k : PrimKind) : (initEnv impl).get k.hint = .ok .pyType := by
  cases impl <;> cases k <;> decide
theorem list_reserved (impl : Impl) : cp "list" ∈ reservedNames impl := by cases impl <;> decide
theorem init_list (impl : Impl) : (initEnv impl).get (cp "list") = .ok .pyList := by cases impl <;> decide
theorem record_reserved (impl : Impl) : cp "Record" ∈ reservedNames impl := by cases impl <;> decide
theorem init_record (impl : Impl) : (initEnv impl).get (cp "Record") = .ok .recordBase := by cases impl <;> decide
theorem message_reserved (impl : Impl) : cp "Message" ∈ reservedNames impl := by cases impl <;> decide
theorem init_message (impl : Impl) : (initEnv impl).get (cp "Message") = .ok .msgBase := by cases impl <;> decide
theorem enum_reserved (impl : Impl) : cp "Enum" ∈ reservedNames impl := by cases impl <;> decide
theorem init_enum (impl : Impl) : (initEnv impl).get (cp "Enum") = .ok .enumBase := by cases impl <;> decide

/-! ### the module namespace while the generated classes are created -/
theorem get_push_eq (env : Env) (k : Str) (b : Binding) : Env.get ((k, b) :: env) k = .ok b := by
  simp [Env.get, dictGet?]

theorem get_push_ne (env : Env) {k n : Str} (b : Binding) (h : n ≠ k) : Env.get ((k, b) :: env) n = Env.get env n := by
  have : (k == n) = false := by rw [beq_eq_false_iff_ne]; exact fun e => h e.symm
  simp [Env.get, dictGet?, this]

/-- what the evaluation of field types and annotations needs from the namespace -/
structure EnvOk (impl : Impl) (enums recs : List Str) (env : Env) : Prop where
  init : ∀ n ∈ reservedNames impl, env.get n = (initEnv impl).get n
  enums : ∀ n ∈ enums, ∃ b, env.get n = .ok b
  recs : ∀ n ∈ recs, env.get n = .ok (.recordCls n)

theorem EnvOk.initial (impl : Impl) : EnvOk impl [] [] (initEnv impl) :=
  ⟨fun _ _ => rfl, fun _ h => (by cases h), fun _ h => (by cases h)⟩

/-- binding a fresh enum class -/
theorem EnvOk.pushEnum {impl : Impl} {enums recs : List Str} {env : Env} (h : EnvOk impl enums recs env) {k : Str}
    (hk : k ∉ reservedNames impl) (hr : k ∉ recs) : EnvOk impl (k :: enums) recs ((k, .enumCls) :: env) := by
  refine ⟨?_, ?_, ?_⟩
  · intro n hn
    rw [get_push_ne env _ (fun e => hk (by subst e; exact hn))]
    exact h.init n hn
  · intro n hn
    by_cases e : n = k
    · subst e; exact ⟨_, get_push_eq env n _⟩
    · rw [get_push_ne env _ e]
      rcases List.mem_cons.mp hn with h1 | h1
      · exact absurd h1 e
      · exact h.enums n h1
  · intro n hn
    rw [get_push_ne env _ (fun e => hr (by subst e; exact hn))]
    exact h.recs n hn

/-- binding a fresh record class -/
theorem EnvOk.pushRecord {impl : Impl} {enums recs : List Str} {env : Env} (h : EnvOk impl enums recs env) {k : Str}
    (hk : k ∉ reservedNames impl) : EnvOk impl enums (k :: recs) ((k, .recordCls k) :: env) := by
  refine ⟨?_, ?_, ?_⟩
  · intro n hn
    rw [get_push_ne env _ (fun e => hk (by subst e; exact hn))]
    exact h.init n hn
  · intro n hn
    by_cases e : n = k
    · subst e; exact ⟨_, get_push_eq env n _⟩
    · rw [get_push_ne env _ e]; exact h.enums n hn
  · intro n hn
    by_cases e : n = k
    · subst e; exact get_push_eq env n _
    · rw [get_push_ne env _ e]
      rcases List.mem_cons.mp hn with h1 | h1
      · exact absurd h1 e
      · exact h.recs n h1

/-- binding a fresh message class -/
theorem EnvOk.pushMsg {impl : Impl} {enums recs : List Str} {env : Env} (h : EnvOk impl enums recs env) {k : Str}
    (hk : k ∉ reservedNames impl) (hr : k ∉ recs) : EnvOk impl enums recs ((k, .msgCls) :: env) := by
  refine ⟨?_, ?_, ?_⟩
  · intro n hn
    rw [get_push_ne env _ (fun e => hk (by subst e; exact hn))]
    exact h.init n hn
  · intro n hn
    by_cases e : n = k
    · subst e; exact ⟨_, get_push_eq env n _⟩
    · rw [get_push_ne env _ e]; exact h.enums n hn
  · intro n hn
    rw [get_push_ne env _ (fun e => hr (by subst e; exact hn))]
    exact h.recs n hn

section
variable {impl : Impl} {enums recs : List Str} {env : Env} (h : EnvOk impl enums recs env)
include h
theorem EnvOk.prim (p : Prim) : env.get p.cls = .ok (.prim p) := by
  rw [h.init _ (prim_reserved impl p), init_prim]
theorem EnvOk.fixed (iso : Bool) : env.get (fixedCls iso) = .ok (.fixedCls iso) := by
  rw [h.init _ (fixed_reserved impl iso), init_fixed]
theorem EnvOk.hint (k : PrimKind) : env.get k.hint = .ok .pyType := by
  rw [h.init _ (hint_reserved impl k), init_hint]
theorem EnvOk.list : env.get (cp "list") = .ok .pyList := by
  rw [h.init _ (list_reserved impl), init_list]
theorem EnvOk.record : env.get (cp "Record") = .ok .recordBase := by
  rw [h.init _ (record_reserved impl), init_record]
theorem EnvOk.message : env.get (cp "Message") = .ok .msgBase := by
  rw [h.init _ (message_reserved impl), init_message]
theorem EnvOk.enum : env.get (cp "Enum") = .ok .enumBase := by
  rw [h.init _ (enum_reserved impl), init_enum]
end

/-! ### the admissible shapes of a field's `type` attribute -/
inductive Shape (s : Spec) (seen : List Str) (f : FieldEl) : Option (PrimKind × Bool) → Prop where
  | prim (p : Prim) (k : Str) (ht : f.ty = some p.id) (hsc : splitColon p.id = (k, none)) :
      Shape s seen f (some (p.kind, p.isChar))
  | fixed (iso : Bool) (k len : Str) (n : Nat) (ht : f.ty = some (fixedId iso)) (hsc : splitColon (fixedId iso) = (k, none))
      (hnp : docPrim (fixedId iso) = none) (hdf : docFixed (fixedId iso) = some iso)
      (hl : f.length = some len) (hn : parseNat? len = some n) :
      Shape s seen f (some (.text, false))
  | enum (nm : Str) (e : EnumEl) (p : Prim) (ht : f.ty = some (kwEnum ++ nm))
      (hsc : splitColon (kwEnum ++ nm) = (cp "enum", some nm)) (hid : isIdent nm = true)
      (he : findEnum? s nm = some e) (hp : e.ty = some p.id) :
      Shape s seen f (some (p.kind, p.isChar))
  | record (nm : Str) (ht : f.ty = some (kwRecord ++ nm))
      (hsc : splitColon (kwRecord ++ nm) = (cp "record", some nm)) (hid : isIdent nm = true) (hs : nm ∈ seen) :
      Shape s seen f none

theorem bind_docPrim {t : Option Str} {p : Prim} (h : t.bind docPrim = some p) : t = some p.id := by
  cases t with
  | none => simp at h
  | some x => simp only [Option.bind_some] at h; rw [docPrim_eq h]

theorem wfType_shape {s : Spec} {seen : List Str} {f : FieldEl} {dom : Option (PrimKind × Bool)}
    (h : wfType s seen f = some dom) : Shape s seen f dom := by
  unfold wfType at h
  cases ht : f.ty with
  | none => rw [ht] at h; cases h
  | some t =>
    rw [ht] at h
    simp only at h
    cases hsc : splitColon t with
    | mk k o =>
      rw [hsc] at h
      cases o with
      | some nm =>
        simp only at h
        have ht' := splitColon_some hsc
        split at h
        · cases h
        · rename_i hid
          have hid : isIdent nm = true := by simpa using hid
          split at h
          · rename_i hk
            have hk' : k = cp "enum" := by simpa using hk
            have htt : t = kwEnum ++ nm := by rw [ht', hk', kwEnum_eq, cp_enum]; rfl
            cases he : findEnum? s nm with
            | none => rw [he] at h; cases h
            | some e =>
              rw [he] at h
              simp only at h
              cases hp : e.ty.bind docPrim with
              | none => rw [hp] at h; cases h
              | some p =>
                rw [hp] at h
                simp only [Option.map_some, Option.some.injEq] at h
                subst h
                subst htt
                rw [hk'] at hsc
                exact Shape.enum nm e p ht hsc hid he (bind_docPrim hp)
          · split at h
            · rename_i hk
              have hk' : k = cp "record" := by simpa using hk
              have htt : t = kwRecord ++ nm := by rw [ht', hk', kwRecord_eq, cp_record]; rfl
              split at h
              · rename_i hs
                simp only [Option.some.injEq] at h
                subst h
                subst htt
                rw [hk'] at hsc
                exact Shape.record nm ht hsc hid (by simpa using hs)
              · cases h
            · cases h
      | none =>
        simp only at h
        cases hp : docPrim t with
        | some p =>
          rw [hp] at h
          simp only [Option.some.injEq] at h
          subst h
          have := docPrim_eq hp
          subst this
          exact Shape.prim p k ht hsc
        | none =>
          rw [hp] at h
          cases hf : docFixed t with
          | none => rw [hf] at h; cases h
          | some iso =>
            rw [hf] at h
            simp only at h
            split at h
            · rename_i hc
              simp only [Option.isSome_iff_exists] at hc
              obtain ⟨n, hn⟩ := hc
              simp only [Option.some.injEq] at h
              subst h
              have := docFixed_eq hf
              subst this
              cases hl : f.length with
              | none => rw [hl] at hn; simp at hn
              | some len =>
                rw [hl] at hn
                simp only [Option.bind_some] at hn
                exact Shape.fixed iso k len n ht hsc hp hf hl hn
            · cases h

/-! ### constants -/
theorem cp_true : cp "True" = [84, 114, 117, 101] := by decide
theorem cp_false : cp "False" = [70, 97, 108, 115, 101] := by decide

theorem intLit_not_bool {v : Str} (h : isIntLit v = true) : (v == cp "True") = false ∧ (v == cp "False") = false := by
  cases v with
  | nil => simp [isIntLit, isNatLit] at h
  | cons c cs =>
    have hc : c = 45 ∨ isDigit c = true := by
      by_cases h45 : c = 45
      · exact Or.inl h45
      · right
        have : isNatLit (c :: cs) = true := by
          unfold isIntLit at h
          split at h
          · rename_i heq; simp only [List.cons.injEq] at heq; exact absurd heq.1 h45
          · exact h
        have := isNatLit_digits this
        simp only [List.all_cons, Bool.and_eq_true] at this
        exact this.1
    have hne : c ≠ 84 ∧ c ≠ 70 := by
      rcases hc with hc | hc
      · omega
      · simp only [isDigit, Bool.and_eq_true, decide_eq_true_eq] at hc; omega
    rw [cp_true, cp_false]
    constructor <;> simp [hne.1, hne.2]

theorem docValue_ok {k : PrimKind} {ch : Bool} {v : Str} (h : wfConst k ch v = true) : ∃ d, docValue k v = .ok d := by
  cases k with
  | bool => simp [wfConst] at h
  | text => exact ⟨_, rfl⟩
  | int =>
    simp only [wfConst] at h
    have : ∃ i, parseInt? v = some i := by
      unfold isIntLit at h
      unfold parseInt?
      split at h
      · simp [parseNat?, h]
      · simp [parseNat?, h]
    obtain ⟨i, hi⟩ := this
    exact ⟨.int i, by simp [docValue, hi]⟩

theorem lit_const {k : PrimKind} {ch : Bool} {v : Str} (h : wfConst k ch v = true) :
    (⟨k == .text, if (k == .text) = true then pyStrBody v else v⟩ : Lit).syntaxOk = true
    ∧ (⟨k == .text, if (k == .text) = true then pyStrBody v else v⟩ : Lit).eval = docValue k v := by
  cases k with
  | bool => simp [wfConst] at h
  | text =>
    simp only [wfConst, Bool.and_eq_true] at h
    have hu := unquote_pyStrBody h.1
    have htt : (PrimKind.text == PrimKind.text) = true := by decide
    simp [htt, Lit.syntaxOk, Lit.eval, quotedOk, hu, docValue, Except.isOk, Except.toBool]
  | int =>
    simp only [wfConst] at h
    obtain ⟨h1, h2⟩ := intLit_not_bool h
    have hq : (PrimKind.int == PrimKind.text) = false := by decide
    simp only [hq, Lit.syntaxOk, Lit.eval, rawOk, Bool.false_eq_true, if_false, h1, h2, Bool.false_or, docValue, parseInt?]
    unfold isIntLit at h
    split
    · rename_i ds
      simp only at h
      simp [h, parseNat?]
    · rename_i hne
      have h' : isNatLit v = true := by
        split at h
        · rename_i ds; exact absurd rfl (hne ds)
        · exact h
      simp [h', parseNat?]

/-! ### one field through the three pipelines -/
/-- generator → import and the reference semantics agree on one (resolved) field -/
def FieldAgree (s : Spec) (env : Env) (f : FieldEl) : Prop :=
  ∃ decl fs, genField (specDefinitions s) (toDef f) = .ok decl ∧ decl.syntaxOk = true
    ∧ evalField env decl = .ok fs ∧ evalHint env decl = .ok () ∧ denoteResolved s f = .ok fs

theorem evalTy_cls_prim {impl : Impl} {enums recs : List Str} {env : Env} (h : EnvOk impl enums recs env) (p : Prim) :
    evalTy env (.cls p.cls) = .ok (.prim p) := by
  simp [evalTy, h.prim p]

theorem evalTy_count {impl : Impl} {enums recs : List Str} {env : Env} (h : EnvOk impl enums recs env) (f : FieldEl) :
    evalTy env (.cls (countCls f.endian)) = .ok (docCount f) := by
  unfold countCls docCount
  split <;> exact evalTy_cls_prim h _

theorem wfFieldName_ident {n : Str} (h : wfFieldName n = true) : isIdent n = true := by
  simp only [wfFieldName, Bool.and_eq_true] at h
  exact h.1.1

/-! ### the four shapes -/
theorem fixed_is_fixed (iso : Bool) : (some (fixedId iso) == some (fixedId false) || some (fixedId iso) == some (fixedId true)) = true := by
  cases iso <;> decide

theorem fixedId_head (iso : Bool) : (fixedId iso).head? = some 115 := by cases iso <;> decide

theorem kw_not_fixed {t : Str} {c : Nat} (h : t.head? = some c) (hc : c ≠ 115) (iso : Bool) :
    (some t == some (fixedId iso)) = false := by
  rw [beq_eq_false_iff_ne]
  intro e
  simp only [Option.some.injEq] at e
  rw [e, fixedId_head] at h
  simp only [Option.some.injEq] at h
  exact hc h.symm

theorem dictGet?_enums (s : Spec) (nm : Str) : dictGet? (specDefinitions s).enums nm = findEnum? s nm := by
  unfold specDefinitions findEnum?
  rw [dictGet?_map (fun e : EnumEl => e.name) (fun e => e) nm s.enums]
  simp

theorem dictGet?_records (s : Spec) (nm : Str) :
    dictGet? (specDefinitions s).records nm = (findRecord? s nm).map (recDef s) := by
  unfold specDefinitions findRecord?
  exact dictGet?_map (fun r : RecordEl => r.name) (recDef s) nm s.records

theorem findRecord?_name {s : Spec} {nm : Str} {r : RecordEl} (h : findRecord? s nm = some r) : r.name = nm := by
  have := List.find?_some h
  simpa using this

theorem findEnum?_mem {s : Spec} {nm : Str} {e : EnumEl} (h : findEnum? s nm = some e) : nm ∈ s.enums.map (·.name) := by
  have h1 := List.find?_some h
  have h2 := List.mem_of_find?_eq_some h
  have : e.name = nm := by simpa using h1
  exact List.mem_map.mpr ⟨e, h2, this⟩

/-- the pipelines agree on a field whose element type expression `ex` evaluates to `el` -/
theorem agree_elem {impl : Impl} {s : Spec} {enums seen : List Str} {env : Env} {f : FieldEl} {n : Str}
    {dom : Option (PrimKind × Bool)} {tn hint : Str} {ex : TyExpr} {el : Ty}
    (henv : EnvOk impl enums seen env)
    (hn : f.name = some n) (hname : wfFieldName n = true) (href : f.ref = none)
    (harr : (f.array != some (cp "double")) = true) (hdflt : wfDefault dom f = true)
    (htysome : f.ty.isSome = true)
    (hth : typeAndHint (specDefinitions s) (toDef f) = .ok (tn, hint))
    (hex : elemExpr (toDef f) tn = ex)
    (hev : evalTy env ex = .ok el) (hel : el ≠ .other)
    (hsynT : ex.syntaxOk = true) (hidH : isIdent hint = true) (hhint : ∃ b, env.get hint = .ok b)
    (hdoc : docElemTy s f = .ok (el, dom.map (·.1)))
    (hq : ∀ k ch, dom = some (k, ch) → quoteOf ex = (k == .text)) : FieldAgree s env f := by
  obtain ⟨hb, hhint⟩ := hhint
  have hcond : ((toDef f).ty.isNone && (toDef f).ref.isNone || (toDef f).ty.isSome && (toDef f).ref.isSome) = false := by
    simp [toDef, href, htysome]
  have hidn := wfFieldName_ident hname
  have hcnt := evalTy_count henv f
  have hcntId : isIdent (countCls f.endian) = true := by
    unfold countCls; split <;> exact prim_cls_ident _
  cases ha : f.array with
  | none =>
    have htyd : fieldTyExpr (toDef f) tn = (ex, 0) := by
      have : (toDef f).array = none := ha
      simp only [fieldTyExpr, this, hex]
    cases hd : f.dflt with
    | none =>
      refine ⟨_, ⟨n, el, none⟩, by simp only [genField, hcond, Bool.false_eq_true, if_false, hth, htyd]; rfl, ?_, ?_, ?_, ?_⟩
      · simp [FieldDecl.syntaxOk, toDef, hn, orEmpty, hidn, hsynT, hidH, hd]
      · simp [evalField, hev, toDef, hn, orEmpty, hd]
      · simp [evalHint, hhint]
      · simp [denoteResolved, hdoc, hn, ha, hd]
    | some v =>
      simp only [wfDefault, hd, ha, Option.isNone_none, Bool.true_and] at hdflt
      cases hdom : dom with
      | none => rw [hdom] at hdflt; simp at hdflt
      | some kc =>
        obtain ⟨k, ch⟩ := kc
        rw [hdom] at hdflt
        simp only at hdflt
        obtain ⟨hsyn, hevl⟩ := lit_const hdflt
        have hqq := hq k ch hdom
        obtain ⟨d, hdv⟩ := docValue_ok hdflt
        rw [hdv] at hevl
        simp only [beq_iff_eq] at hsyn hevl
        refine ⟨_, ⟨n, el, some d⟩, by simp only [genField, hcond, Bool.false_eq_true, if_false, hth, htyd]; rfl, ?_, ?_, ?_, ?_⟩
        · simp [FieldDecl.syntaxOk, toDef, hn, orEmpty, hidn, hsynT, hidH, hd, hqq, hsyn]
        · simp [evalField, hev, toDef, hn, orEmpty, hd, hqq, hevl]
        · simp [evalHint, hhint]
        · rw [hdom] at hdoc
          simp [denoteResolved, hdoc, hn, ha, hd, hdv]
  | some a =>
    have hne : (a == cp "double") = false := by
      rw [ha] at harr
      simpa using harr
    have htyd : fieldTyExpr (toDef f) tn = (.array ex (.cls (countCls f.endian)), 1) := by
      have h1 : (toDef f).array = some a := ha
      have h2 : (toDef f).endian = f.endian := rfl
      simp only [fieldTyExpr, h1, h2, hex, hne, Bool.false_eq_true, if_false]
    have hd : f.dflt = none := by
      cases hd : f.dflt with
      | none => rfl
      | some v => simp [wfDefault, hd, ha] at hdflt
    have hevA : evalTy env (.array ex (.cls (countCls f.endian))) = .ok (.array el (docCount f)) := by
      rw [evalTy.eq_2, hev, hcnt]
      cases el <;> first | rfl | exact absurd rfl hel
    refine ⟨_, ⟨n, .array el (docCount f), none⟩, by simp only [genField, hcond, Bool.false_eq_true, if_false, hth, htyd]; rfl, ?_, ?_, ?_, ?_⟩
    · simp [FieldDecl.syntaxOk, toDef, hn, orEmpty, hidn, TyExpr.syntaxOk, hsynT, hidH, hd, hcntId]
    · simp [evalField, hevA, toDef, hn, orEmpty, hd]
    · simp [evalHint, hhint, henv.list]
    · simp [denoteResolved, hdoc, hn, ha, hd]

theorem elemExpr_plain {f : FieldEl} {tn : Str}
    (hnf : (f.ty == some (fixedId false) || f.ty == some (fixedId true)) = false) : elemExpr (toDef f) tn = .cls tn := by
  have : (toDef f).ty = f.ty := rfl
  simp only [elemExpr, this, hnf, Bool.false_eq_true, if_false]

/-! ### every well-formed field -/
theorem field_ok {impl : Impl} {s : Spec} {seen : List Str} {env : Env} {f0 : FieldEl}
    (henv : EnvOk impl (s.enums.map (·.name)) seen env)
    (hseen : ∀ n ∈ seen, ∃ r, findRecord? s n = some r)
    (hw : wfField s seen f0 = true) :
    ∃ decl fs, genField (specDefinitions s) (toDef (resolvedF s f0)) = .ok decl ∧ decl.syntaxOk = true
      ∧ evalField env decl = .ok fs ∧ evalHint env decl = .ok () ∧ denoteField s f0 = .ok fs := by
  unfold wfField at hw
  simp only [Bool.and_eq_true] at hw
  obtain ⟨_, hw⟩ := hw
  cases hr : resolveDef s f0 with
  | error e => rw [hr] at hw; cases hw
  | ok f =>
    rw [hr] at hw
    simp only [Bool.and_eq_true] at hw
    obtain ⟨⟨⟨hname, href⟩, harr⟩, hty⟩ := hw
    have hres : resolvedF s f0 = f := by simp [resolvedF, hr]
    have hden : denoteField s f0 = denoteResolved s f := by simp [denoteField, hr]
    rw [hres, hden]
    have href' : f.ref = none := by simpa using href
    cases hn : f.name with
    | none => rw [hn] at hname; cases hname
    | some n =>
      rw [hn] at hname
      simp only at hname
      cases hwt : wfType s seen f with
      | none => rw [hwt] at hty; cases hty
      | some dom =>
        rw [hwt] at hty
        simp only at hty
        have sh := wfType_shape hwt
        cases sh with
        | prim p k ht hsc =>
          have hnf : (f.ty == some (fixedId false) || f.ty == some (fixedId true)) = false := by
            rw [ht, prim_not_fixed, prim_not_fixed]; rfl
          refine agree_elem (tn := p.cls) (hint := p.kind.hint) (ex := .cls p.cls) (el := .prim p) henv hn hname href' harr hty
            (by simp [ht]) ?_ (elemExpr_plain hnf) (evalTy_cls_prim henv p) (by simp) (prim_cls_ident p) (hint_ident _)
            ⟨_, henv.hint _⟩ ?_ ?_
          · simp only [typeAndHint, toDef, href', ht, prim_not_enum, prim_not_record, Bool.false_eq_true, if_false,
              typeDef_prim]
            rfl
          · simp [docElemTy, ht, hsc, docPrim_id]
          · intro k ch hk
            simp only [Option.some.injEq, Prod.mk.injEq] at hk
            rw [← hk.1]; exact quote_prim p
        | fixed iso k len m ht hsc hnp hdf hl hm =>
          have hlit : isNatLit len = true ∧ digitsVal len = m := by
            unfold parseNat? at hm
            split at hm
            · rename_i h; exact ⟨h, by simpa using hm⟩
            · cases hm
          have hlenNone : (len == cp "None") = false := by
            rw [beq_eq_false_iff_ne]
            intro e
            rw [e, none_not_lit] at hlit
            exact absurd hlit.1 (by simp)
          have hex : elemExpr (toDef f) (fixedCls iso) = .callLen (.cls (fixedCls iso)) len := by
            have h1 : (toDef f).ty = some (fixedId iso) := ht
            have h2 : (toDef f).length = some len := hl
            simp only [elemExpr, h1, h2, fixed_is_fixed, if_true, orNone]
          have hev : evalTy env (.callLen (.cls (fixedCls iso)) len) = .ok (.fixed iso (some m)) := by
            have h1 : evalTy env (.cls (fixedCls iso)) = .ok (.fixedCls iso) := by simp [evalTy, henv.fixed iso]
            have h2 : evalLen len = .ok (some m) := by simp [evalLen, hlenNone, hlit.1, hlit.2]
            rw [evalTy.eq_3, h1, h2]
            rfl
          have hq : quoteOf (.callLen (.cls (fixedCls iso)) len) = true := by
            unfold quoteOf
            have : isInfix (cp "String") (TyExpr.callLen (.cls (fixedCls iso)) len).render = true := by
              simp only [TyExpr.render]
              exact isInfix_append _ _ _ (isInfix_append _ _ _ (isInfix_append _ _ _ (fixedCls_string iso)))
            rw [this, Bool.or_true]
          refine agree_elem (tn := fixedCls iso) (hint := cp "str") (ex := .callLen (.cls (fixedCls iso)) len)
            (el := .fixed iso (some m)) henv hn hname href' harr hty (by simp [ht]) ?_ hex hev (by simp) ?_ (by decide)
            ⟨_, henv.hint .text⟩ ?_ ?_
          · simp only [typeAndHint, toDef, href', ht, fixed_not_enum, fixed_not_record, Bool.false_eq_true, if_false,
              typeDef_fixed]
            rfl
          · simp [TyExpr.syntaxOk, fixedCls_ident, lenOk, hlit.1]
          · simp [docElemTy, ht, hsc, hnp, hdf, hl, hm]
          · intro k ch hk
            simp only [Option.some.injEq, Prod.mk.injEq] at hk
            rw [hq, ← hk.1]; rfl
        | enum nm e p ht hsc hid he hp =>
          have hpre : isPrefix kwEnum (kwEnum ++ nm) = true := isPrefix_append _ _
          have hrem : removeAll kwEnum (kwEnum ++ nm) = nm :=
            removeAll_prefix kwEnum nm 58 (by rw [kwEnum_eq]; decide) (isIdent_no_colon hid)
          have hnf : (f.ty == some (fixedId false) || f.ty == some (fixedId true)) = false := by
            have hh : (kwEnum ++ nm).head? = some 101 := by rw [kwEnum_eq]; rfl
            rw [ht, kw_not_fixed hh (by decide), kw_not_fixed hh (by decide)]; rfl
          refine agree_elem (tn := p.cls) (hint := nm) (ex := .cls p.cls) (el := .prim p) henv hn hname href' harr hty
            (by simp [ht]) ?_ (elemExpr_plain hnf) (evalTy_cls_prim henv p) (by simp) (prim_cls_ident p) hid
            (henv.enums nm (findEnum?_mem he)) ?_ ?_
          · simp only [typeAndHint, toDef, href', ht, hpre, if_true, hrem, dictGet?_enums, he, hp, typeDef_prim]
            rfl
          · simp [docElemTy, ht, hsc, he, hp, docPrim_id]
          · intro k ch hk
            simp only [Option.some.injEq, Prod.mk.injEq] at hk
            rw [← hk.1]; exact quote_prim p
        | record nm ht hsc hid hs =>
          have hpre0 : isPrefix kwEnum (kwRecord ++ nm) = false := by rw [kwEnum_eq, kwRecord_eq]; simp [isPrefix]
          have hpre : isPrefix kwRecord (kwRecord ++ nm) = true := isPrefix_append _ _
          have hrem : removeAll kwRecord (kwRecord ++ nm) = nm :=
            removeAll_prefix kwRecord nm 58 (by rw [kwRecord_eq]; decide) (isIdent_no_colon hid)
          obtain ⟨r, hr'⟩ := hseen nm hs
          have hrn := findRecord?_name hr'
          have hget := henv.recs nm hs
          have hnf : (f.ty == some (fixedId false) || f.ty == some (fixedId true)) = false := by
            have hh : (kwRecord ++ nm).head? = some 114 := by rw [kwRecord_eq]; rfl
            rw [ht, kw_not_fixed hh (by decide), kw_not_fixed hh (by decide)]; rfl
          refine agree_elem (tn := nm) (hint := nm) (ex := .cls nm) (el := .record nm) henv hn hname href' harr hty
            (by simp [ht]) ?_ (elemExpr_plain hnf) (by simp [evalTy, hget]) (by simp) hid hid ⟨_, hget⟩ ?_ ?_
          · simp only [typeAndHint, toDef, href', ht, hpre0, hpre, Bool.false_eq_true, if_false, if_true, hrem,
              dictGet?_records, hr', Option.map_some, recDef, hrn]
          · have : (cp "record" == cp "enum") = false := by decide
            simp [docElemTy, ht, hsc, this, hr', hrn]
          · intro k ch hk; cases hk

/-! ### class bodies -/
theorem mapE_map_ok {α β γ : Type} (d : α → β) (f : β → Except Err γ) (g : α → γ) (l : List α)
    (h : ∀ a ∈ l, f (d a) = .ok (g a)) : mapE f (l.map d) = .ok (l.map g) := by
  induction l with
  | nil => rfl
  | cons a as ih =>
    have h1 := h a (List.mem_cons_self ..)
    have h2 := ih (fun x hx => h x (List.mem_cons_of_mem _ hx))
    simp only [List.map_cons, mapE, h1, h2, ok_bind, pure_eq_ok]

theorem EnvOk.mono {impl : Impl} {enums recs enums' recs' : List Str} {env : Env} (h : EnvOk impl enums recs env)
    (he : ∀ n ∈ enums', n ∈ enums) (hr : ∀ n ∈ recs', n ∈ recs) : EnvOk impl enums' recs' env :=
  ⟨h.init, fun n hn => h.enums n (he n hn), fun n hn => h.recs n (hr n hn)⟩

/-- the declaration the generator emits for a field -/
def fieldDecl (s : Spec) (f0 : FieldEl) : FieldDecl := getOk (genField (specDefinitions s)) (toDef (resolvedF s f0))
/-- the denotation of a field -/
def fieldSem (s : Spec) (f0 : FieldEl) : FieldS := getOk (denoteField s) f0

theorem body_ok {impl : Impl} {s : Spec} {seen : List Str} {env : Env} {fs : List FieldEl}
    (henv : EnvOk impl (s.enums.map (·.name)) seen env)
    (hseen : ∀ n ∈ seen, ∃ r, findRecord? s n = some r)
    (hw : fs.all (wfField s seen) = true) :
    mapE (genField (specDefinitions s)) (fs.map fun f => toDef (resolvedF s f)) = .ok (fs.map (fieldDecl s))
    ∧ (fs.map (fieldDecl s)).all FieldDecl.syntaxOk = true
    ∧ evalBody env (fs.map (fieldDecl s)) = .ok (fs.map (fieldSem s))
    ∧ mapE (denoteField s) fs = .ok (fs.map (fieldSem s)) := by
  have key : ∀ f0 ∈ fs, genField (specDefinitions s) (toDef (resolvedF s f0)) = .ok (fieldDecl s f0)
      ∧ (fieldDecl s f0).syntaxOk = true ∧ evalField env (fieldDecl s f0) = .ok (fieldSem s f0)
      ∧ evalHint env (fieldDecl s f0) = .ok () ∧ denoteField s f0 = .ok (fieldSem s f0) := by
    intro f0 hf0
    obtain ⟨decl, sem, h1, h2, h3, h4, h5⟩ := field_ok henv hseen (List.all_eq_true.mp hw f0 hf0)
    have e1 : fieldDecl s f0 = decl := getOk_eq h1
    have e2 : fieldSem s f0 = sem := getOk_eq h5
    rw [e1, e2]
    exact ⟨h1, h2, h3, h4, h5⟩
  refine ⟨?_, ?_, ?_, ?_⟩
  · exact mapE_map_ok _ _ _ fs (fun a ha => (key a ha).1)
  · rw [List.all_eq_true]
    intro d hd
    obtain ⟨f0, hf0, rfl⟩ := List.mem_map.mp hd
    exact (key f0 hf0).2.1
  · have h1 : mapE (evalField env) (fs.map (fieldDecl s)) = .ok (fs.map (fieldSem s)) :=
      mapE_map_ok _ _ _ fs (fun a ha => (key a ha).2.2.1)
    have h2 : mapE (evalHint env) (fs.map (fieldDecl s)) = .ok (fs.map fun _ => ()) :=
      mapE_map_ok _ _ _ fs (fun a ha => (key a ha).2.2.2.1)
    simp only [evalBody, h1, h2, ok_bind, pure_eq_ok]
  · exact mapE_ok _ _ fs (fun a ha => (key a ha).2.2.2.2)

/-! ### enums -/
theorem wfMemberName_ident {n : Str} (h : wfMemberName n = true) : isIdent n = true := by
  simp only [wfMemberName, Bool.and_eq_true] at h
  exact h.1.1

theorem enum_ok {e : EnumEl} (hw : wfEnum e = true) (hid : isIdent e.name = true) :
    ∃ decl sem, genEnum e = .ok decl ∧ decl.name = e.name ∧ sem.name = e.name
      ∧ (isIdent decl.name && !decl.members.isEmpty && decl.members.all fun kv => isIdent kv.1 && kv.2.syntaxOk) = true
      ∧ (∀ env : Env, env.get (cp "Enum") = .ok .enumBase → evalEnum env decl = .ok sem)
      ∧ denoteEnum e = .ok sem := by
  unfold wfEnum at hw
  cases hp : e.ty.bind docPrim with
  | none => rw [hp] at hw; cases hw
  | some p =>
    rw [hp] at hw
    simp only [Bool.and_eq_true, List.all_eq_true, Bool.not_eq_true'] at hw
    obtain ⟨⟨⟨_, hne⟩, hvals⟩, hdup⟩ := hw
    have hty := bind_docPrim hp
    have hgen : genEnum e = .ok ⟨e.name, e.values.map fun v => (v.name, ⟨p.kind == .text, if (p.kind == .text) = true then pyStrBody v.value else v.value⟩)⟩ := by
      simp only [genEnum, hty, typeDef_prim, ok_bind, pure_eq_ok, TypeEntry.hint, hint_str]
    let val := fun (v : EnumVal) => (v.name, getOk (docValue p.kind) v.value)
    have hmem : ∀ v ∈ e.values, (⟨p.kind == .text, if (p.kind == .text) = true then pyStrBody v.value else v.value⟩ : Lit).syntaxOk = true
        ∧ (⟨p.kind == .text, if (p.kind == .text) = true then pyStrBody v.value else v.value⟩ : Lit).eval = .ok (getOk (docValue p.kind) v.value)
        ∧ docValue p.kind v.value = .ok (getOk (docValue p.kind) v.value) := by
      intro v hv
      have hc := (hvals v hv).2
      obtain ⟨h1, h2⟩ := lit_const hc
      obtain ⟨d, hd⟩ := docValue_ok hc
      rw [getOk_eq hd, h2]
      exact ⟨h1, hd, hd⟩
    refine ⟨_, ⟨e.name, e.values.map val⟩, hgen, rfl, rfl, ?_, ?_, ?_⟩
    · simp only [Bool.and_eq_true, hid, true_and, List.all_eq_true, Bool.not_eq_true', List.isEmpty_map]
      refine ⟨hne, ?_⟩
      intro kv hkv
      obtain ⟨v, hv, rfl⟩ := List.mem_map.mp hkv
      exact ⟨wfMemberName_ident (hvals v hv).1, (hmem v hv).1⟩
    · intro env henv
      have hm : mapE (fun (kv : Str × Lit) => do
            let v ← kv.2.eval
            pure (kv.1, v)) (e.values.map fun v => (v.name, (⟨p.kind == .text, if (p.kind == .text) = true then pyStrBody v.value else v.value⟩ : Lit)))
          = .ok (e.values.map val) := by
        apply mapE_map_ok
        intro v hv
        simp only [(hmem v hv).2.1, ok_bind, pure_eq_ok, val]
      have hd : hasDup ((e.values.map fun v => (v.name, (⟨p.kind == .text, if (p.kind == .text) = true then pyStrBody v.value else v.value⟩ : Lit))).map (·.1)) = false := by
        simpa [List.map_map, Function.comp_def] using hdup
      unfold evalEnum
      rw [henv]
      simp only [ok_bind]
      rw [hm]
      simp only [ok_bind, hd, Bool.false_eq_true, if_false, pure_eq_ok]
    · have hm : mapE (fun (v : EnumVal) => do
            let d ← docValue p.kind v.value
            pure (v.name, d)) e.values = .ok (e.values.map val) := by
        apply mapE_ok
        intro v hv
        simp only [(hmem v hv).2.2, ok_bind, pure_eq_ok, val]
      unfold denoteEnum
      rw [hp]
      simp only []
      rw [hm]
      rfl

/-! ### the three groups of classes -/
def enumDecl (e : EnumEl) : EnumDecl := getOk genEnum e
def enumSem (e : EnumEl) : EnumS := getOk denoteEnum e

theorem WF.enumName {impl : Impl} {s : Spec} (h : WF impl s) {e : EnumEl} (he : e ∈ s.enums) :
    isIdent e.name = true ∧ e.name ∉ reservedNames impl :=
  h.names e.name (by unfold classNames; simp only [List.mem_append, List.mem_map]; exact Or.inl (Or.inl ⟨e, he, rfl⟩))

theorem WF.recName {impl : Impl} {s : Spec} (h : WF impl s) {r : RecordEl} (hr : r ∈ s.records) :
    isIdent r.name = true ∧ r.name ∉ reservedNames impl :=
  h.names r.name (by unfold classNames; simp only [List.mem_append, List.mem_map]; exact Or.inl (Or.inr ⟨r, hr, rfl⟩))

theorem WF.msgName {impl : Impl} {s : Spec} (h : WF impl s) {g : MessageEl} (hg : g ∈ s.messages) :
    isIdent g.name = true ∧ g.name ∉ reservedNames impl ∧ g.name ∉ s.records.map (·.name) := by
  have hm : g.name ∈ s.messages.map (·.name) := List.mem_map.mpr ⟨g, hg, rfl⟩
  have h1 := h.names g.name (by unfold classNames; simp only [List.mem_append]; exact Or.inr hm)
  refine ⟨h1.1, h1.2, ?_⟩
  intro hr
  have hnd := h.nodup
  unfold classNames at hnd
  have := (List.nodup_append.mp hnd).2.2
  exact this g.name (List.mem_append.mpr (Or.inr hr)) g.name hm rfl

theorem enum_facts {impl : Impl} {s : Spec} (h : WF impl s) {e : EnumEl} (he : e ∈ s.enums) :
    genEnum e = .ok (enumDecl e) ∧ (enumDecl e).name = e.name ∧ (enumSem e).name = e.name
    ∧ (isIdent (enumDecl e).name && !(enumDecl e).members.isEmpty
        && (enumDecl e).members.all fun kv => isIdent kv.1 && kv.2.syntaxOk) = true
    ∧ (∀ env : Env, env.get (cp "Enum") = .ok .enumBase → evalEnum env (enumDecl e) = .ok (enumSem e))
    ∧ denoteEnum e = .ok (enumSem e) := by
  obtain ⟨decl, sem, h1, h2, h3, h4, h5, h6⟩ := enum_ok (h.enums e he) (h.enumName he).1
  have e1 : enumDecl e = decl := getOk_eq h1
  have e2 : enumSem e = sem := getOk_eq h6
  rw [e1, e2]
  exact ⟨h1, h2, h3, h4, h5, h6⟩

theorem enums_ok {impl : Impl} {s : Spec} (h : WF impl s) :
    ∀ (es : List EnumEl) (seenE : List Str) (env : Env), (∀ e ∈ es, e ∈ s.enums) → EnvOk impl seenE [] env →
      ∃ env', evalEnums env (es.map enumDecl) = .ok (env', es.map enumSem)
        ∧ EnvOk impl (es.reverse.map (·.name) ++ seenE) [] env'
  | [], seenE, env, _, henv => ⟨env, rfl, by simpa using henv⟩
  | e :: es, seenE, env, hsub, henv => by
      have he := hsub e (List.mem_cons_self ..)
      obtain ⟨_, hn, _, _, hev, _⟩ := enum_facts h he
      have hpush := henv.pushEnum (k := e.name) (h.enumName he).2 (by simp)
      obtain ⟨env', h1, h2⟩ := enums_ok h es (e.name :: seenE) _ (fun x hx => hsub x (List.mem_cons_of_mem _ hx)) hpush
      refine ⟨env', ?_, by simpa [List.map_append] using h2⟩
      simp only [List.map_cons, evalEnums, hev env henv.enum, ok_bind, hn, h1, pure_eq_ok]

def recDecl (s : Spec) (r : RecordEl) : RecordDecl := ⟨r.name, cp "Record", r.fields.map (fieldDecl s)⟩
def recSem (s : Spec) (r : RecordEl) : RecordS := ⟨r.name, r.fields.map (fieldSem s)⟩

theorem findRecord?_of_mem {s : Spec} {r : RecordEl} (hr : r ∈ s.records) : ∃ r', findRecord? s r.name = some r' := by
  unfold findRecord?
  have : (s.records.find? fun x => x.name == r.name).isSome = true := by
    rw [List.find?_isSome]
    exact ⟨r, hr, by simp⟩
  exact Option.isSome_iff_exists.mp this

theorem records_ok {impl : Impl} {s : Spec} (h : WF impl s) :
    ∀ (rs : List RecordEl) (seen : List Str) (env : Env),
      (∀ r ∈ rs, r ∈ s.records) → (∀ n ∈ seen, ∃ r, findRecord? s n = some r) →
      EnvOk impl (s.enums.map (·.name)) seen env → wfRecords s seen rs = true →
      ∃ env', evalRecords env (rs.map (recDecl s)) = .ok (env', rs.map (recSem s))
        ∧ EnvOk impl (s.enums.map (·.name)) (rs.reverse.map (·.name) ++ seen) env'
        ∧ (∀ r ∈ rs, genRecord (specDefinitions s) (recDef s r) = .ok (recDecl s r)
            ∧ (isIdent r.name && isIdent (cp "Record") && (recDecl s r).fields.all FieldDecl.syntaxOk) = true
            ∧ (do let fs ← mapE (denoteField s) r.fields
                  pure (⟨r.name, fs⟩ : RecordS)) = .ok (recSem s r))
  | [], seen, env, _, _, henv, _ => ⟨env, rfl, by simpa using henv, fun _ hr => by cases hr⟩
  | r :: rs, seen, env, hsub, hseen, henv, hw => by
      have hr := hsub r (List.mem_cons_self ..)
      simp only [wfRecords, Bool.and_eq_true] at hw
      obtain ⟨hwf, hwrest⟩ := hw
      simp only [wfFields, Bool.and_eq_true] at hwf
      obtain ⟨b1, b2, b3, b4⟩ := body_ok henv hseen hwf.1
      have hpush := henv.pushRecord (k := r.name) (h.recName hr).2
      have hseen' : ∀ n ∈ r.name :: seen, ∃ r', findRecord? s n = some r' := by
        intro n hn
        rcases List.mem_cons.mp hn with rfl | hn
        · exact findRecord?_of_mem hr
        · exact hseen n hn
      obtain ⟨env', h1, h2, h3⟩ := records_ok h rs (r.name :: seen) _ (fun x hx => hsub x (List.mem_cons_of_mem _ hx))
        hseen' hpush hwrest
      have hevr : evalRecord env (recDecl s r) = .ok (recSem s r) := by
        simp only [evalRecord, recDecl, henv.record, ok_bind, b3, pure_eq_ok, recSem]
      refine ⟨env', ?_, by simpa [List.map_append] using h2, ?_⟩
      · have hnm : (recDecl s r).name = r.name := rfl
        simp only [List.map_cons, evalRecords, hevr, ok_bind, hnm, h1, pure_eq_ok]
      · intro r' hr'
        rcases List.mem_cons.mp hr' with rfl | hr'
        · refine ⟨?_, ?_, ?_⟩
          · simp only [genRecord, recDef, b1, ok_bind, pure_eq_ok, recDecl]
          · simp only [recDecl, (h.recName hr).1, b2, Bool.and_true]; decide
          · simp only [b4, ok_bind, pure_eq_ok, recSem]
        · exact h3 r' hr'

/-! ### messages -/
def msgDecl (s : Spec) (g : MessageEl) : MsgDecl :=
  ⟨g.name, msgIdText g, htmlEscape (orEmpty g.direction), g.fields.map (fieldDecl s)⟩

def msgSem (impl : Impl) (s : Spec) (g : MessageEl) : MsgS :=
  ⟨g.name, msgIdVal g, if impl = .itch then none else some (orEmpty g.direction), g.fields.map (fieldSem s)⟩

theorem direction_facts {d : Option Str} (h : (d == some (cp "incoming") || d == some (cp "outgoing")) = true) :
    htmlEscape (orEmpty d) = orEmpty d ∧ unquote (orEmpty d) = .ok (orEmpty d) ∧ d = some (orEmpty d) := by
  simp only [Bool.or_eq_true, beq_iff_eq] at h
  rcases h with rfl | rfl
  · refine ⟨by decide, ?_, rfl⟩
    have h1 : pyStrBody (cp "incoming") = cp "incoming" := by decide
    have h2 := unquote_pyStrBody (v := cp "incoming") (by decide)
    rw [h1] at h2; exact h2
  · refine ⟨by decide, ?_, rfl⟩
    have h1 : pyStrBody (cp "outgoing") = cp "outgoing" := by decide
    have h2 := unquote_pyStrBody (v := cp "outgoing") (by decide)
    rw [h1] at h2; exact h2

theorem message_facts {s : Spec} {g : MessageEl} (hw : wfMessage s g = true) :
    isNatLit (msgIdText g) = true ∧ digitsVal (msgIdText g) = msgIdVal g ∧ denoteMsgId g.msgId = .ok (msgIdVal g) := by
  obtain ⟨n, hid, _⟩ := wfMessage_id hw
  obtain ⟨i, hi, h1, h2⟩ := convertMsgId_wf hid
  simp only [msgIdText, hi, msgIdVal, hid]
  exact ⟨h1, h2, trivial⟩

theorem messages_ok {impl : Impl} {s : Spec} (h : WF impl s) :
    ∀ (gs : List MessageEl) (reg : List (Nat × Str)) (env : Env),
      (∀ g ∈ gs, g ∈ s.messages) →
      EnvOk impl (s.enums.map (·.name)) (s.records.map (·.name)) env →
      regOk impl reg (gs.map fun g => (msgIdVal g, orEmpty g.direction)) = true →
      evalMessages impl env reg (gs.map (msgDecl s)) = .ok (gs.map (msgSem impl s))
      ∧ (∀ g ∈ gs, genMessage (specDefinitions s) (msgDef s g) = .ok (msgDecl s g)
            ∧ (isIdent g.name && isNatLit (msgDecl s g).indicator && quotedOk (msgDecl s g).direction
                && (msgDecl s g).fields.all FieldDecl.syntaxOk) = true
            ∧ denoteMessage impl s g = .ok (msgSem impl s g))
  | [], _, _, _, _, _ => ⟨rfl, fun _ hg => by cases hg⟩
  | g :: gs, reg, env, hsub, henv, hreg => by
      have hg := hsub g (List.mem_cons_self ..)
      have hw := h.msgs g hg
      obtain ⟨m1, m2, m3⟩ := message_facts hw
      have hw' := hw
      simp only [wfMessage, Bool.and_eq_true, wfFields] at hw'
      obtain ⟨⟨_, hdir⟩, hfields, _⟩ := hw'
      obtain ⟨d1, d2, d3⟩ := direction_facts hdir
      have hseen : ∀ n ∈ s.records.map (·.name), ∃ r, findRecord? s n = some r := by
        intro n hn
        obtain ⟨r, hr, rfl⟩ := List.mem_map.mp hn
        exact findRecord?_of_mem hr
      obtain ⟨b1, b2, b3, b4⟩ := body_ok henv hseen hfields
      simp only [List.map_cons, regOk, Bool.and_eq_true, Bool.not_eq_true'] at hreg
      obtain ⟨hfresh, hregrest⟩ := hreg
      obtain ⟨_, hnr, hnrec⟩ := h.msgName hg
      have hpush := henv.pushMsg (k := g.name) hnr hnrec
      obtain ⟨h1, h2⟩ := messages_ok h gs ((msgIdVal g, orEmpty g.direction) :: reg) _
        (fun x hx => hsub x (List.mem_cons_of_mem _ hx)) hpush hregrest
      have hevm : evalMessage impl env reg (msgDecl s g) = .ok (msgSem impl s g) := by
        simp only [evalMessage, msgDecl, henv.message, henv.record, ok_bind, b3, m2, d1, d2, hfresh, Bool.false_eq_true,
          if_false, pure_eq_ok, msgSem]
      refine ⟨?_, ?_⟩
      · have hnm : (msgDecl s g).name = g.name := rfl
        have hdr : (msgDecl s g).direction = orEmpty g.direction := d1
        have hidv : (msgSem impl s g).id = msgIdVal g := rfl
        simp only [List.map_cons, evalMessages, hevm, ok_bind, hnm, hdr, d2, hidv, h1, pure_eq_ok]
      · intro g' hg'
        rcases List.mem_cons.mp hg' with rfl | hg'
        · refine ⟨?_, ?_, ?_⟩
          · simp only [genMessage, msgDef, b1, ok_bind, pure_eq_ok, msgDecl]
          · have := (h.msgName hg).1
            simp only [msgDecl, this, m1, d1, quotedOk, d2, b2, Bool.and_true, Except.isOk, Except.toBool]
          · have hdd : denoteDir impl g'.direction = .ok (if impl = .itch then none else some (orEmpty g'.direction)) := by
              rw [d3]
              cases impl <;> simp [denoteDir, orEmpty]
            simp only [denoteMessage, m3, ok_bind, b4, hdd, pure_eq_ok, msgSem]
        · exact h2 g' hg'

/-! ### the whole module -/
/-- the module the generator writes for a well-formed specification -/
def specModule (impl : Impl) (app : Str) (s : Spec) : Module where
  impl := impl
  appName := app
  exports := [cp "Message", cp "ClientSession", cp "connect_async"]
    ++ (s.enums.map enumDecl).map (·.name) ++ (s.records.map (recDecl s)).map (·.name) ++ (s.messages.map (msgDecl s)).map (·.name)
  enums := s.enums.map enumDecl
  records := s.records.map (recDecl s)
  messages := s.messages.map (msgDecl s)

/-- the schema a well-formed specification denotes -/
def specSchema (impl : Impl) (s : Spec) : Schema where
  exports := [cp "Message", cp "ClientSession", cp "connect_async"]
    ++ s.enums.map (·.name) ++ s.records.map (·.name) ++ s.messages.map (·.name)
  enums := s.enums.map enumSem
  records := s.records.map (recSem s)
  messages := s.messages.map (msgSem impl s)

theorem gen_eval_denote {impl : Impl} {s : Spec} (app : Str) (ovr : Bool) (hwf : wfSpec impl s = true) :
    gen impl app ovr s = .ok (specModule impl app s)
    ∧ evalModule (specModule impl app s) = .ok (specSchema impl s)
    ∧ denote impl s = .ok (specSchema impl s) := by
  have h := wfSpec_inv hwf
  -- enums
  obtain ⟨env1, he1, henv1⟩ := enums_ok h s.enums [] (initEnv impl) (fun _ hx => hx) (EnvOk.initial impl)
  have henv1' : EnvOk impl (s.enums.map (·.name)) [] env1 :=
    henv1.mono (fun n hn => by simpa using hn) (fun _ hn => hn)
  -- records
  obtain ⟨env2, hr1, henv2, hrf⟩ := records_ok h s.records [] env1 (fun _ hx => hx) (fun _ hn => by cases hn) henv1' h.recs
  have henv2' : EnvOk impl (s.enums.map (·.name)) (s.records.map (·.name)) env2 :=
    henv2.mono (fun _ hn => hn) (fun n hn => by simpa using hn)
  -- messages
  obtain ⟨hm1, hmf⟩ := messages_ok h s.messages [] env2 (fun _ hx => hx) henv2' h.reg
  have hnames : (s.enums.map enumDecl).map (·.name) = s.enums.map (·.name) := by
    rw [List.map_map]
    apply List.map_congr_left
    intro e he
    exact (enum_facts h he).2.1
  refine ⟨?_, ?_, ?_⟩
  · -- the generator
    have g1 : mapE (fun (kv : Str × EnumEl) => genEnum kv.2) (specDefinitions s).enums = .ok (s.enums.map enumDecl) := by
      unfold specDefinitions
      exact mapE_map_ok _ _ _ s.enums (fun e he => (enum_facts h he).1)
    have g2 : mapE (genMessage (specDefinitions s)) (specDefinitions s).messages = .ok (s.messages.map (msgDecl s)) := by
      show mapE (genMessage (specDefinitions s)) (s.messages.map (msgDef s)) = _
      exact mapE_map_ok _ _ _ s.messages (fun g hg => (hmf g hg).1)
    have g3 : mapE (fun (kv : Str × RecordDef) => genRecord (specDefinitions s) kv.2) (specDefinitions s).records
        = .ok (s.records.map (recDecl s)) := by
      show mapE _ (s.records.map fun r => (r.name, recDef s r)) = _
      exact mapE_map_ok _ _ _ s.records (fun r hr => (hrf r hr).1)
    unfold gen
    rw [parse_wf ovr h]
    simp only [ok_bind]
    unfold genDefs
    rw [g1]
    simp only [ok_bind]
    rw [g2]
    simp only [ok_bind]
    rw [g3]
    rfl
  · -- the import
    have hsyn : (specModule impl app s).syntaxOk = true := by
      simp only [Module.syntaxOk, specModule, Bool.and_eq_true, List.all_eq_true]
      refine ⟨⟨?_, ?_⟩, ?_⟩
      · intro d hd
        obtain ⟨e, he, rfl⟩ := List.mem_map.mp hd
        have := (enum_facts h he).2.2.2.1
        simpa [Bool.and_eq_true, List.all_eq_true] using this
      · intro d hd
        obtain ⟨r, hr, rfl⟩ := List.mem_map.mp hd
        have := (hrf r hr).2.1
        simpa [Bool.and_eq_true, List.all_eq_true, recDecl] using this
      · intro d hd
        obtain ⟨g, hg, rfl⟩ := List.mem_map.mp hd
        have := (hmf g hg).2.1
        simpa [Bool.and_eq_true, List.all_eq_true, msgDecl] using this
    unfold evalModule
    rw [hsyn]
    simp only [Bool.not_true, Bool.false_eq_true, if_false]
    show (do
      let (env1, enums) ← evalEnums (initEnv impl) (s.enums.map enumDecl)
      let (env2, recs) ← evalRecords env1 (s.records.map (recDecl s))
      let msgs ← evalMessages impl env2 [] (s.messages.map (msgDecl s))
      pure (⟨(specModule impl app s).exports, enums, recs, msgs⟩ : Schema)) = _
    rw [he1]
    simp only [ok_bind]
    rw [hr1]
    simp only [ok_bind]
    rw [hm1]
    simp only [ok_bind, pure_eq_ok, specModule, specSchema, hnames]
    congr 2
    simp [List.map_map, Function.comp_def, recDecl, msgDecl]
  · -- the reference semantics
    have d1 : mapE denoteEnum s.enums = .ok (s.enums.map enumSem) :=
      mapE_ok _ _ _ (fun e he => (enum_facts h he).2.2.2.2.2)
    have d2 : mapE (fun (r : RecordEl) => do
        let fs ← mapE (denoteField s) r.fields
        pure (⟨r.name, fs⟩ : RecordS)) s.records = .ok (s.records.map (recSem s)) :=
      mapE_ok _ _ _ (fun r hr => (hrf r hr).2.2)
    have d3 : mapE (denoteMessage impl s) s.messages = .ok (s.messages.map (msgSem impl s)) :=
      mapE_ok _ _ _ (fun g hg => (hmf g hg).2.2)
    unfold denote
    rw [d1]
    simp only [ok_bind]
    rw [d2]
    simp only [ok_bind]
    rw [d3]
    rfl

end NasdaqModel.GenSoupApp
